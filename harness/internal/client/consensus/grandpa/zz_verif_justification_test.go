//go:build verif

// Conformance harness for specs/Justification.tla (C19), binding (2):
// DecodeGrandpaJustificationVerifyFinalizes on SCALE-encoded justifications with real
// ed25519 signatures (keyring keys), real headers as ancestry, 32- and 64-bit numbers,
// every case in several precommit orders.
//   accepted  => the specification's JSound     (any case)
//   JComplete => accepted                        (pure cases only)

package grandpa

import (
	"encoding/json"
	"fmt"
	"math/rand"
	"testing"

	primitives "github.com/ChainSafe/gossamer/internal/primitives/consensus/grandpa"
	ced25519 "github.com/ChainSafe/gossamer/internal/primitives/core/ed25519"
	"github.com/ChainSafe/gossamer/internal/primitives/core/hash"
	"github.com/ChainSafe/gossamer/internal/primitives/keyring/ed25519"
	"github.com/ChainSafe/gossamer/internal/primitives/runtime"
	"github.com/ChainSafe/gossamer/internal/primitives/runtime/generic"
	grandpa "github.com/ChainSafe/gossamer/pkg/finality-grandpa"
	"github.com/ChainSafe/gossamer/pkg/scale"
)

type vjEntry struct {
	ID  int    `json:"id"`
	B   int    `json:"b"`
	Sig string `json:"sig"`
}

type vjCase struct {
	O struct {
		T      []int     `json:"t"`
		Voters [][2]int  `json:"voters"`
		Es     []vjEntry `json:"es"`
		Hs     []int     `json:"hs"`
		Target int       `json:"target"`
	} `json:"o"`
	Res struct {
		Sound    bool `json:"sound"`
		Complete bool `json:"complete"`
		Pure     bool `json:"pure"`
		Enough   bool `json:"enough"`
		Tolerant bool `json:"tolerant"`
	} `json:"res"`
}

const (
	vjRound = 7
	vjSetID = 3
)

var vjKeys = []ed25519.Keyring{ed25519.Alice, ed25519.Bob, ed25519.Charlie, ed25519.Dave, ed25519.Eve, ed25519.Ferdie, ed25519.One, ed25519.Two}

func vjPub(id int) ced25519.Public { return vjKeys[id-1].Pair().Public().(ced25519.Public) }

type vjTree[N runtime.Number] struct {
	headers []*generic.Header[N, hash.H256, runtime.BlakeTwo256] // index b-1
	hashes  []hash.H256
	numbers []N
}

func vjBuild[N runtime.Number](par []int) vjTree[N] {
	t := vjTree[N]{}
	zero := hash.H256(string(make([]byte, 32)))
	for i, p := range par {
		parent := zero
		num := N(1)
		if p != 0 {
			parent = t.hashes[p-1]
			num = t.numbers[p-1] + 1
		}
		tag := make([]byte, 32)
		tag[0] = byte(i + 1) // siblings share parent and number: make the headers distinct
		h := generic.NewHeader[N, hash.H256, runtime.BlakeTwo256](num, hash.H256(string(tag)), zero, parent, runtime.Digest{})
		t.headers = append(t.headers, h)
		t.hashes = append(t.hashes, h.Hash())
		t.numbers = append(t.numbers, num)
	}
	return t
}

// vjSign signs a precommit; kind "bad" is realised as wrong round / wrong set id / flipped bit.
func vjSign[N runtime.Number](tr vjTree[N], e vjEntry) grandpa.SignedPrecommit[hash.H256, N, primitives.AuthoritySignature, primitives.AuthorityID] {
	pc := grandpa.Precommit[hash.H256, N]{TargetHash: tr.hashes[e.B-1], TargetNumber: tr.numbers[e.B-1]}
	round, set := uint64(vjRound), uint64(vjSetID)
	flip := false
	if e.Sig != "ok" {
		switch (e.ID + e.B) % 3 {
		case 0:
			round++
		case 1:
			set++
		default:
			flip = true
		}
	}
	msg := grandpa.NewMessage(pc)
	sig := vjKeys[e.ID-1].Sign(primitives.NewLocalizedPayload(primitives.RoundNumber(round), primitives.SetID(set), msg))
	if flip {
		sig[5] ^= 0x10
	}
	return grandpa.SignedPrecommit[hash.H256, N, primitives.AuthoritySignature, primitives.AuthorityID]{
		Precommit: pc, Signature: sig, ID: vjPub(e.ID),
	}
}

func vjVerify[N runtime.Number](cs *vjCase, voters grandpa.VoterSet[string], order []int, repeat bool) (accepted bool, msg string) {
	return vjVerifyAs[N](cs, voters, order, repeat, vjRound, vjSetID)
}

// vjVerifyAs presents the case's commit (signed for round vjRound of set vjSetID) in a justification that states round
// statedRound and verifies it against set id againstSet.
func vjVerifyAs[N runtime.Number](cs *vjCase, voters grandpa.VoterSet[string], order []int, repeat bool, statedRound uint64, againstSet uint64) (accepted bool, msg string) {
	tr := vjBuild[N](cs.O.T)
	var pcs []grandpa.SignedPrecommit[hash.H256, N, primitives.AuthoritySignature, primitives.AuthorityID]
	for _, i := range order {
		sp := vjSign(tr, cs.O.Es[i])
		pcs = append(pcs, sp)
		if repeat {
			pcs = append(pcs, sp)
		}
	}
	var anc []runtime.Header[N, hash.H256]
	for _, b := range cs.O.Hs {
		anc = append(anc, tr.headers[b-1])
	}
	just := primitives.GrandpaJustification[hash.H256, N]{
		Round: statedRound,
		Commit: primitives.Commit[hash.H256, N]{
			TargetHash:   tr.hashes[cs.O.Target-1],
			TargetNumber: tr.numbers[cs.O.Target-1],
			Precommits:   pcs,
		},
		VoteAncestries: anc,
	}
	enc, err := scale.Marshal(just)
	if err != nil {
		return false, "VERIF-INFRA marshal: " + err.Error()
	}
	target := HashNumber[hash.H256, N]{Hash: tr.hashes[cs.O.Target-1], Number: tr.numbers[cs.O.Target-1]}
	pm := vTry(func() {
		_, err = DecodeGrandpaJustificationVerifyFinalizes[hash.H256, N, runtime.BlakeTwo256](enc, target, againstSet, voters)
	})
	if pm != "" {
		return false, pm
	}
	if err != nil {
		return false, err.Error()
	}
	return true, ""
}

// vjRun returns true when every order was accepted; otherWidthAccepted: the same case was
// accepted in every order with the other number width.
func vjRun[N runtime.Number](t *testing.T, width string, res *vResult, beh, ci int, raw json.RawMessage, cs *vjCase, voters grandpa.VoterSet[string], dupVoter bool, orders [][]int, otherWidthAccepted bool) bool {
	type outcome struct {
		ord []int
		msg string
	}
	var accepted, rejected *outcome
	for oi, ord := range orders {
		ok, msg := vjVerify[N](cs, voters, ord, oi%4 == 3)
		res.Cmp()
		if len(msg) > 5 && msg[:5] == "VERIF" {
			t.Fatalf("%s", msg)
		}
		if len(msg) >= 6 && msg[:6] == "panic:" {
			res.Fail(beh, ci, "VerifyJustification", "panic", "no panic", fmt.Sprintf("%s (order %v)", msg, ord),
				"C19/VerifyJustification/"+width+"/panic", []json.RawMessage{raw})
			return false
		}
		if ok && accepted == nil {
			accepted = &outcome{ord, ""}
		}
		if !ok && rejected == nil {
			rejected = &outcome{ord, msg}
		}
	}
	failed := false
	fail := func(exp, got, class string) {
		res.Fail(beh, ci, "VerifyJustification", "accepted", exp, got, "C19/VerifyJustification/"+width+"/"+class, []json.RawMessage{raw})
		failed = true
	}
	orderDep := accepted != nil && rejected != nil
	if accepted != nil && !cs.Res.Sound {
		class := "accepts-unsound/ghost-or-ancestry"
		if !cs.Res.Enough {
			class = "accepts-unsound/no-supermajority-of-valid-members"
		} else if dupVoter {
			class += "/voter-listed-twice" // the GHOST moves when a repeated id's weights are not summed
		}
		fail("rejected", fmt.Sprintf("accepted (order %v)", accepted.ord), class)
	}
	if rejected != nil && cs.Res.Complete && !failed {
		class := "rejects-complete/in-every-order"
		switch {
		case dupVoter:
			class = "rejects-complete/voter-listed-twice"
		case orderDep:
			class = "rejects-complete/order-dependent"
		case otherWidthAccepted:
			class = "rejects-complete/number-width-dependent"
		}
		fail("accepted", fmt.Sprintf("rejected (order %v): %s", rejected.ord, rejected.msg), class)
	}
	// equivocating weight beyond tolerance: only the soundness core above is pinned down
	if orderDep && !failed && cs.Res.Tolerant {
		fail("same verdict in every order", fmt.Sprintf("accepted in %v, rejected in %v: %s", accepted.ord, rejected.ord, rejected.msg), "order-dependent")
	}
	// a signature is for ONE round of ONE set: the commit that was just accepted, presented again as the commit of the next
	// round, or verified against the next set id (a replay after an authority-set change, or inside a warp-sync proof),
	// has no valid signature left.  (Same process, same signature bytes: the verdict is a function of the arguments.)
	if rejected == nil && accepted != nil && !failed {
		for _, rp := range []struct {
			round, set uint64
			class      string
		}{{vjRound + 1, vjSetID, "replayed-as-another-round"}, {vjRound, vjSetID + 1, "replayed-against-another-set"}} {
			ok, msg := vjVerifyAs[N](cs, voters, orders[0], false, rp.round, rp.set)
			res.Cmp()
			if len(msg) > 5 && msg[:5] == "VERIF" {
				t.Fatalf("%s", msg)
			}
			if ok {
				fail("rejected (no signature is valid for round "+fmt.Sprint(rp.round)+" of set "+fmt.Sprint(rp.set)+")", "accepted", "accepts-unsound/"+rp.class)
			}
		}
	}
	return rejected == nil && accepted != nil
}

func TestVerifJustification(t *testing.T) {
	res := vNewResult("C19")
	defer res.Write(t)
	behs := vLoad(t, vIn(t, "behaviours.txt"))
	res.Behaviours = len(behs)
	rng := rand.New(rand.NewSource(vSeed()))
	nOrders := 6
	if vThorough() {
		nOrders = 10
	}
	for _, b := range behs {
		for ci, raw := range b.Steps {
			var cs vjCase
			if err := json.Unmarshal(raw, &cs); err != nil {
				t.Fatalf("VERIF-INFRA case json: %v", err)
			}
			if b.ID == 0 && ci < 2 {
				res.Sample(raw)
			}
			key := ""
			if cs.Res.Enough {
				key = string(raw)
			}
			res.Case("VerifyJustification", key)
			var ws []grandpa.IDWeight[string]
			seen := map[int]bool{}
			dupVoter := false
			for _, v := range cs.O.Voters {
				if seen[v[0]] {
					dupVoter = true
				}
				seen[v[0]] = true
				pub := vjPub(v[0])
				ws = append(ws, grandpa.IDWeight[string]{ID: string(pub.Bytes()), Weight: uint64(v[1])})
			}
			voters := grandpa.NewVoterSet(ws)
			if voters == nil {
				t.Fatalf("VERIF-INFRA nil voter set")
			}
			n := len(cs.O.Es)
			id := make([]int, n)
			rev := make([]int, n)
			for i := range id {
				id[i], rev[i] = i, n-1-i
			}
			orders := [][]int{id, rev}
			for i := 0; i < nOrders; i++ {
				orders = append(orders, rng.Perm(n))
			}
			ok64 := vjRun[uint64](t, "u64", res, b.ID, ci, raw, &cs, *voters, dupVoter, orders, false)
			vjRun[uint32](t, "u32", res, b.ID, ci, raw, &cs, *voters, dupVoter, orders, ok64)
		}
	}
}
