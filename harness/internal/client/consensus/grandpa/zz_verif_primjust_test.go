//go:build verif

// Conformance harness for the justification layouts of specs/ChainTypes.tla (CtPrimJust, CtPrimSignedMsg):
// internal/primitives/consensus/grandpa GrandpaJustification / Commit / SignedPrecommit / SignedMessage (C14).
// It lives in internal/client/consensus/grandpa because the only decoder of the primitives' justification
// (DecodeJustification) is here; the encoder is scale.Marshal of the primitives' own types.  The types are
// generic in the block number: both the 4-byte (Polkadot) and the 8-byte instantiation are compared.
package grandpa

import (
	"bytes"
	"encoding/json"
	"fmt"
	"strings"
	"testing"

	primitives "github.com/ChainSafe/gossamer/internal/primitives/consensus/grandpa"
	"github.com/ChainSafe/gossamer/internal/primitives/core/hash"
	"github.com/ChainSafe/gossamer/internal/primitives/runtime"
	"github.com/ChainSafe/gossamer/internal/primitives/runtime/generic"
	grandpa "github.com/ChainSafe/gossamer/pkg/finality-grandpa"
	"github.com/ChainSafe/gossamer/pkg/scale"
)

type vpCase struct {
	O struct {
		Op string          `json:"op"`
		Ty string          `json:"ty"`
		V  json.RawMessage `json:"v"`
	} `json:"o"`
	Res struct {
		Enc VB `json:"enc"`
	} `json:"res"`
}

func vpList(raw json.RawMessage) []json.RawMessage {
	s := strings.TrimSpace(string(raw))
	if s == "{}" || s == "null" || s == "" {
		return nil
	}
	var l []json.RawMessage
	if err := json.Unmarshal(raw, &l); err != nil {
		panic("VERIF-INFRA list: " + err.Error() + " " + s)
	}
	return l
}

func vpBytes(raw json.RawMessage) []byte {
	l := vpList(raw)
	b := make([]byte, len(l))
	for i, x := range l {
		var n int
		if err := json.Unmarshal(x, &n); err != nil {
			panic("VERIF-INFRA byte: " + err.Error())
		}
		b[i] = byte(n)
	}
	return b
}

func vpUint(raw json.RawMessage) uint64 {
	b := vpBytes(raw)
	var x uint64
	for i := len(b) - 1; i >= 0; i-- {
		x = x<<8 | uint64(b[i])
	}
	return x
}

// vpH: a hash as 32 bytes (H256 is a string; the zero hash decodes to the empty string)
func vpH(h hash.H256) string {
	var a [32]byte
	copy(a[:], []byte(h))
	return fmt.Sprintf("%x", a)
}

func vpShow[N runtime.Number](j primitives.GrandpaJustification[hash.H256, N]) string {
	var sb strings.Builder
	fmt.Fprintf(&sb, "round=%d target=%s/%d precommits=[", j.Round, vpH(j.Commit.TargetHash), j.Commit.TargetNumber)
	for _, p := range j.Commit.Precommits {
		fmt.Fprintf(&sb, "{%s/%d sig=%x id=%x}", vpH(p.Precommit.TargetHash), p.Precommit.TargetNumber, p.Signature[:], p.ID[:])
	}
	sb.WriteString("] ancestries=[")
	for _, h := range j.VoteAncestries {
		fmt.Fprintf(&sb, "{parent=%s number=%d state=%s ext=%s logs=%d}", vpH(h.ParentHash()), h.Number(), vpH(h.StateRoot()), vpH(h.ExtrinsicsRoot()), len(h.Digest().Logs))
	}
	sb.WriteString("]")
	return sb.String()
}

func vpJust[N runtime.Number](res *vResult, ty string, raw json.RawMessage, exp []byte, fail func(field, e, g, sig string)) {
	f := vpList(raw)
	cf := vpList(f[1])
	j := primitives.GrandpaJustification[hash.H256, N]{Round: vpUint(f[0])}
	j.Commit.TargetHash = hash.H256(vpBytes(cf[0]))
	j.Commit.TargetNumber = N(vpUint(cf[1]))
	for _, x := range vpList(cf[2]) {
		s := vpList(x)
		v := vpList(s[0])
		sp := grandpa.SignedPrecommit[hash.H256, N, primitives.AuthoritySignature, primitives.AuthorityID]{Precommit: grandpa.Precommit[hash.H256, N]{TargetHash: hash.H256(vpBytes(v[0])), TargetNumber: N(vpUint(v[1]))}}
		copy(sp.Signature[:], vpBytes(s[1]))
		copy(sp.ID[:], vpBytes(s[2]))
		j.Commit.Precommits = append(j.Commit.Precommits, sp)
	}
	j.VoteAncestries = make([]runtime.Header[N, hash.H256], 0)
	for _, x := range vpList(f[2]) {
		h := vpList(x)
		if len(vpList(h[4])) != 0 {
			panic("VERIF-INFRA ancestry header with digest items")
		}
		j.VoteAncestries = append(j.VoteAncestries, generic.NewHeader[N, hash.H256, runtime.BlakeTwo256](
			N(vpUint(h[1])), hash.H256(vpBytes(h[3])), hash.H256(vpBytes(h[2])), hash.H256(vpBytes(h[0])), runtime.Digest{}))
	}
	enc, err := scale.Marshal(j)
	res.Cmp()
	if err != nil {
		fail("Marshal(GrandpaJustification)", vHex(exp), "error: "+err.Error(), "C14/"+ty+"/encode/error")
	} else if !bytes.Equal(enc, exp) {
		fail("Marshal(GrandpaJustification)", vHex(exp), vHex(enc), "C14/"+ty+"/encode/bytes")
	}
	// the commit alone is the middle of the layout: round (8 bytes), commit, ancestries
	cenc, err := scale.Marshal(j.Commit)
	res.Cmp()
	if err != nil || len(exp) < 8+len(cenc) || !bytes.Equal(cenc, exp[8:8+len(cenc)]) {
		fail("Marshal(Commit)", "the bytes after the round", vHex(cenc)+fmt.Sprint(err), "C14/"+ty+"/commit/encode")
	}
	back, err := DecodeJustification[hash.H256, N, runtime.BlakeTwo256](exp)
	res.Cmp()
	if err != nil {
		fail("DecodeJustification", vpShow(j), "error: "+err.Error(), "C14/"+ty+"/decode/error")
		return
	}
	if vpShow(back.Justification) != vpShow(j) {
		fail("DecodeJustification", vpShow(j), vpShow(back.Justification), "C14/"+ty+"/decode/value")
	}
	re, err := scale.Marshal(back.Justification)
	res.Cmp()
	if err != nil || !bytes.Equal(re, exp) {
		fail("Marshal(DecodeJustification)", vHex(exp), vHex(re)+fmt.Sprint(err), "C14/"+ty+"/reencode")
	}
	// "A header's hash is BLAKE2b-256 of its encoding" for the ancestry headers as well
	for _, h := range back.Justification.VoteAncestries {
		henc, err := scale.Marshal(h)
		res.Cmp()
		if err != nil || vpH(h.Hash()) != fmt.Sprintf("%x", vBlake(henc)) {
			fail("ancestry Header.Hash", fmt.Sprintf("%x", vBlake(henc)), vpH(h.Hash())+fmt.Sprint(err), "C14/"+ty+"/ancestry-hash")
		}
	}
}

func TestVerifPrimJust(t *testing.T) {
	res := vNewResult("C14")
	defer res.Write(t)
	behs := vLoad(t, vIn(t, "behaviours.txt"))
	res.Behaviours = len(behs)
	for bi, bh := range behs {
		for si, raw := range bh.Steps {
			var c vpCase
			if err := json.Unmarshal(raw, &c); err != nil {
				t.Fatalf("VERIF-INFRA case json: %v", err)
			}
			ty := c.O.Ty
			if c.O.Op != "enc" || !(ty == "primjust" || ty == "primjust64" || ty == "primsignedmsg") {
				continue
			}
			prefix := json.RawMessage("[" + string(raw) + "]")
			exp := c.Res.Enc.Bytes()
			fail := func(field, e, g, sig string) { res.Fail(bi, si, ty, field, e, g, sig, prefix) }
			res.Case(ty, string(c.O.V))
			if len(res.Samples) < 3 {
				res.Sample(json.RawMessage(raw))
			}
			pm := vTry(func() {
				switch ty {
				case "primjust":
					vpJust[uint32](res, ty, c.O.V, exp, fail)
				case "primjust64":
					vpJust[uint64](res, ty, c.O.V, exp, fail)
				case "primsignedmsg":
					f := vpList(c.O.V)
					var m struct {
						I int             `json:"i"`
						V json.RawMessage `json:"v"`
					}
					if err := json.Unmarshal(f[0], &m); err != nil {
						panic("VERIF-INFRA message enum")
					}
					v := vpList(m.V)
					h, n := hash.H256(vpBytes(v[0])), uint32(vpUint(v[1]))
					var msg grandpa.Message[hash.H256, uint32]
					switch m.I {
					case 0:
						msg = grandpa.NewMessage(grandpa.Prevote[hash.H256, uint32]{TargetHash: h, TargetNumber: n})
					case 1:
						msg = grandpa.NewMessage(grandpa.Precommit[hash.H256, uint32]{TargetHash: h, TargetNumber: n})
					case 2:
						msg = grandpa.NewMessage(grandpa.PrimaryPropose[hash.H256, uint32]{TargetHash: h, TargetNumber: n})
					}
					sm := primitives.SignedMessage[hash.H256, uint32]{Message: msg}
					copy(sm.Signature[:], vpBytes(f[1]))
					copy(sm.ID[:], vpBytes(f[2]))
					kind := fmt.Sprintf("primsignedmsg/variant-%d", m.I)
					enc, err := scale.Marshal(sm)
					res.Cmp()
					if err != nil || !bytes.Equal(enc, exp) {
						fail("Marshal(SignedMessage)", vHex(exp), vHex(enc)+fmt.Sprint(err), "C14/"+kind+"/encode")
					}
					var back primitives.SignedMessage[hash.H256, uint32]
					res.Cmp()
					if err := scale.Unmarshal(exp, &back); err != nil {
						fail("Unmarshal(SignedMessage)", fmt.Sprintf("%+v", sm), "error: "+err.Error(), "C14/"+kind+"/decode/error")
					} else {
						bt, st := back.Message.Target(), sm.Message.Target()
						bv, _ := back.Message.Value()
						sv, _ := sm.Message.Value()
						if vpH(bt.Hash) != vpH(st.Hash) || bt.Number != st.Number || fmt.Sprintf("%T", bv) != fmt.Sprintf("%T", sv) ||
							back.Signature != sm.Signature || back.ID != sm.ID {
							fail("Unmarshal(SignedMessage)", fmt.Sprintf("%+v", sm), fmt.Sprintf("%+v", back), "C14/"+kind+"/decode/value")
						}
					}
				}
			})
			if pm != "" {
				if strings.Contains(pm, "VERIF-INFRA") {
					t.Fatalf("%s on %s", pm, raw)
				}
				fail("panic", "no panic", pm, "C14/"+ty+"/panic")
			}
		}
	}
}
