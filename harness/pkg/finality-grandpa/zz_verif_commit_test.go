//go:build verif

// Conformance harness for specs/Justification.tla (C19), binding (1):
// finality-grandpa.ValidateCommit + NewVoterSet, instantiated with 32- and 64-bit block
// numbers, every case realised in many precommit orders and with repeated entries.
// Signatures are opaque here (ValidateCommit assumes they were checked), so the expected
// verdict is the specification's JCommitGood (entries of members, taken as signed).

package grandpa

import (
	"encoding/json"
	"fmt"
	"math/rand"
	"testing"

	"golang.org/x/exp/constraints"
)

type vjcEntry struct {
	ID  int    `json:"id"`
	B   int    `json:"b"`
	Sig string `json:"sig"`
}

type vjcCase struct {
	O struct {
		T      []int      `json:"t"`
		Voters [][2]int   `json:"voters"`
		Es     []vjcEntry `json:"es"`
		Hs     []int      `json:"hs"`
		Target int        `json:"target"`
	} `json:"o"`
	Res struct {
		CommitGood   bool `json:"commitGood"`
		CommitTol    bool `json:"commitTol"`
		CommitEnough bool `json:"commitEnough"`
		Total        int  `json:"total"`
		Thr          int  `json:"thr"`
	} `json:"res"`
}

type vjcChain[N constraints.Unsigned] struct{ c vrsChain }

func (c vjcChain[N]) Ancestry(base, block string) ([]string, error) { return c.c.Ancestry(base, block) }
func (c vjcChain[N]) IsEqualOrDescendantOf(base, block string) bool {
	return c.c.IsEqualOrDescendantOf(base, block)
}

func vjcValidate[N constraints.Unsigned](cs *vjcCase, vs VoterSet[string], order []int, repeat bool) (valid bool, err error, pm string) {
	c := vrsChain{par: cs.O.T}
	var pcs []SignedPrecommit[string, N, string, string]
	add := func(e vjcEntry) {
		pcs = append(pcs, SignedPrecommit[string, N, string, string]{
			Precommit: Precommit[string, N]{TargetHash: vrsName(e.B), TargetNumber: N(c.number(e.B))},
			Signature: fmt.Sprintf("sig/%d/%d", e.ID, e.B),
			ID:        fmt.Sprintf("v%d", e.ID),
		})
	}
	for _, i := range order {
		add(cs.O.Es[i])
		if repeat {
			add(cs.O.Es[i])
		}
	}
	commit := Commit[string, N, string, string]{
		TargetHash:   vrsName(cs.O.Target),
		TargetNumber: N(c.number(cs.O.Target)),
		Precommits:   pcs,
	}
	pm = vTry(func() {
		var r CommitValidationResult
		r, err = ValidateCommit[string, N, string, string](commit, vs, vjcChain[N]{c})
		valid = r.Valid()
	})
	return
}

func vjcOrders(n int, rng *rand.Rand, maxAll, randomN int) [][]int {
	var out [][]int
	if n <= maxAll {
		vrsPermutations(n, func(p []int) { out = append(out, append([]int(nil), p...)) })
		return out
	}
	id := make([]int, n)
	rev := make([]int, n)
	for i := range id {
		id[i] = i
		rev[i] = n - 1 - i
	}
	out = append(out, id, rev)
	for i := 0; i < randomN; i++ {
		out = append(out, rng.Perm(n))
	}
	return out
}

// vjcRun returns true when every order was accepted.  otherWidthAccepted: the same case was
// accepted in every order with the other number width (the verdict must not depend on it).
func vjcRun[N constraints.Unsigned](t *testing.T, width string, res *vResult, beh, ci int, raw json.RawMessage, cs *vjcCase, vs VoterSet[string], dupVoter bool, orders [][]int, otherWidthAccepted bool) bool {
	type outcome struct {
		valid bool
		ord   []int
	}
	var accepted, rejected *outcome
	failed := false
	fail := func(field, exp, got, class string) {
		res.Fail(beh, ci, "ValidateCommit", field, exp, got, "C19/ValidateCommit/"+width+"/"+class, []json.RawMessage{raw})
		failed = true
	}
	for oi, ord := range orders {
		valid, err, pm := vjcValidate[N](cs, vs, ord, oi%5 == 4)
		res.Cmp()
		if pm != "" {
			fail("panic", "no panic", fmt.Sprintf("%s (order %v)", pm, ord), "panic")
			return false
		}
		if err != nil {
			valid = false
		}
		o := &outcome{valid, ord}
		if valid && accepted == nil {
			accepted = o
		}
		if !valid && rejected == nil {
			rejected = o
		}
	}
	orderDep := accepted != nil && rejected != nil
	if accepted != nil {
		// soundness: an accepted commit has the supermajority, and (tolerant) its GHOST is the target
		if !cs.Res.CommitEnough {
			fail("valid", "false (no supermajority on the target)", fmt.Sprintf("true (order %v)", accepted.ord), "accepts-without-supermajority")
		} else if cs.Res.CommitTol && !cs.Res.CommitGood {
			class := "accepts-ghost-not-target"
			if dupVoter {
				class += "/voter-listed-twice" // the GHOST moves when a repeated id's weights are not summed
			}
			fail("valid", "false (GHOST is not the target / precommits not connected)", fmt.Sprintf("true (order %v)", accepted.ord), class)
		}
	}
	if rejected != nil && cs.Res.CommitGood && cs.Res.CommitTol && !failed {
		class := "rejects-good/in-every-order"
		switch {
		case dupVoter:
			class = "rejects-good/voter-listed-twice"
		case orderDep:
			class = "rejects-good/order-dependent"
		case otherWidthAccepted:
			class = "rejects-good/number-width-dependent"
		}
		fail("valid", "true", fmt.Sprintf("false (order %v)", rejected.ord), class)
	}
	// for equivocating weight beyond what the protocol tolerates the statement pins down only
	// the supermajority core checked above; the verdict may then depend on which two votes
	// of a voter are met first, and that is not compared
	if orderDep && !failed && cs.Res.CommitTol {
		fail("valid", "same verdict in every order", fmt.Sprintf("accepted in %v, rejected in %v", accepted.ord, rejected.ord), "order-dependent")
	}
	return rejected == nil && accepted != nil
}

func TestVerifValidateCommit(t *testing.T) {
	res := vNewResult("C19")
	defer res.Write(t)
	behs := vLoad(t, vIn(t, vEnvStr("VERIF_INPUT", "behaviours.txt")))
	res.Behaviours = len(behs)
	rng := rand.New(rand.NewSource(vSeed()))
	maxAll, randomN := 4, 20
	if vThorough() {
		maxAll, randomN = 5, 100
	}
	for _, b := range behs {
		for ci, raw := range b.Steps {
			var cs vjcCase
			if err := json.Unmarshal(raw, &cs); err != nil {
				t.Fatalf("VERIF-INFRA case json: %v", err)
			}
			if b.ID == 0 && ci < 2 {
				res.Sample(raw)
			}
			key := ""
			if cs.Res.CommitEnough {
				key = string(raw)
			}
			res.Case("ValidateCommit", key)
			// ---- voter set: a voter listed several times has its weights summed ----
			var ws []IDWeight[string]
			sum := map[string]uint64{}
			dupVoter := false
			for _, v := range cs.O.Voters {
				id := fmt.Sprintf("v%d", v[0])
				if _, ok := sum[id]; ok {
					dupVoter = true
				}
				sum[id] += uint64(v[1])
				ws = append(ws, IDWeight[string]{ID: id, Weight: uint64(v[1])})
			}
			// the voter-set laws (weights of a repeated id are summed, the total is the sum of all entries, the threshold is
			// derived from that total) are the premise of C19's verdicts and of C22's "more than two thirds of the weight";
			// they are reported under whichever of the two is being checked
			vsOwner := "C19"
			if vEnvStr("VERIF_PROP", "") == "C22" {
				vsOwner = "C22"
			}
			var vs *VoterSet[string]
			if pm := vTry(func() { vs = NewVoterSet(ws) }); pm != "" || vs == nil {
				res.Fail(b.ID, ci, "NewVoterSet", "result", "a voter set", "nil / "+pm, vsOwner+"/NewVoterSet/panic-or-nil", []json.RawMessage{raw})
				continue
			}
			res.Cmp()
			if uint64(vs.TotalWeight()) != uint64(cs.Res.Total) || uint64(vs.Threshold()) != uint64(cs.Res.Thr) {
				res.Fail(b.ID, ci, "NewVoterSet", "total/threshold", fmt.Sprintf("%d/%d", cs.Res.Total, cs.Res.Thr),
					fmt.Sprintf("%d/%d", vs.TotalWeight(), vs.Threshold()), vsOwner+"/NewVoterSet/total-or-threshold", []json.RawMessage{raw})
			}
			for id, wsum := range sum {
				res.Cmp()
				info := vs.Get(id)
				if info == nil || uint64(info.Weight()) != wsum {
					got := "absent"
					if info != nil {
						got = fmt.Sprint(info.Weight())
					}
					cls := "weight"
					if dupVoter {
						cls = "voter-listed-twice/weight-not-summed"
					}
					res.Fail(b.ID, ci, "NewVoterSet", "weight of "+id, fmt.Sprint(wsum), got, vsOwner+"/NewVoterSet/"+cls, []json.RawMessage{raw})
					break
				}
			}
			if vEnvStr("VJC_ONLY_VOTERSET", "") == "1" {
				continue
			}
			// ---- the commit, both number widths, many orders ----------------------
			orders := vjcOrders(len(cs.O.Es), rng, maxAll, randomN)
			ok64 := vjcRun[uint64](t, "u64", res, b.ID, ci, raw, &cs, *vs, dupVoter, orders, false)
			vjcRun[uint32](t, "u32", res, b.ID, ci, raw, &cs, *vs, dupVoter, orders, ok64)
		}
	}
}
