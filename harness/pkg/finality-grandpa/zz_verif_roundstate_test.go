//go:build verif

// Conformance harness for specs/RoundState.tla (C20).
// Replays TLC-generated import sequences through the real Round (importPrevote /
// importPrecommit over a Chain built from the behaviour's block tree) and compares, after
// EVERY import, State() and PrecommitGHOST() with the values the specification prescribes
// as functions of the vote sets.  The same votes are then re-imported in other orders
// (all permutations of a short prefix, seeded random permutations of the whole behaviour)
// and the final state is compared again: the verdict must not depend on the order.

package grandpa

import (
	"encoding/json"
	"fmt"
	"math/rand"
	"testing"
)

type vrsOp struct {
	Op  string `json:"op"`
	V   int    `json:"v"`
	B   int    `json:"b"`
	Par []int  `json:"par"`
	W   []int  `json:"w"`
}

type vrsObs struct {
	Ghost    int  `json:"ghost"`
	Fin      int  `json:"fin"`
	Est      int  `json:"est"`
	Comp     bool `json:"comp"`
	PcGhost  int  `json:"pcghost"`
	CmpGhost bool `json:"cmpGhost"`
	CmpFin   bool `json:"cmpFin"`
	CmpPc    bool `json:"cmpPc"`
	CmpEst   bool `json:"cmpEst"`
	TolV     bool `json:"tolV"`
	TolC     bool `json:"tolC"`
}

type vrsStep struct {
	O   vrsOp  `json:"o"`
	Obs vrsObs `json:"obs"`
}

// vrsChain implements Chain[string, uint32] over a parent vector (block i+1 has parent par[i], 0 = none).
type vrsChain struct{ par []int }

// Block hashes are strings whose SORT ORDER is a per-behaviour permutation of the block ids: the
// vote graph keeps descendants sorted by hash, so which branch sorts first must vary.
var vrsMul, vrsAdd = 1, 0

func vrsName(b int) string { return fmt.Sprintf("%02d-b%d", (b*vrsMul+vrsAdd)%97, b) }

func vrsIndex(h string) int {
	var k, b int
	if _, err := fmt.Sscanf(h, "%d-b%d", &k, &b); err != nil {
		return 0
	}
	return b
}

func (c vrsChain) number(b int) uint32 {
	n := uint32(1)
	for c.par[b-1] != 0 {
		b = c.par[b-1]
		n++
	}
	return n
}

func (c vrsChain) Ancestry(base, block string) ([]string, error) {
	bi, bl := vrsIndex(base), vrsIndex(block)
	if bi < 1 || bi > len(c.par) || bl < 1 || bl > len(c.par) {
		return nil, fmt.Errorf("unknown block")
	}
	out := []string{}
	for {
		p := c.par[bl-1]
		if p == 0 {
			return nil, fmt.Errorf("block not descendent of base")
		}
		if p == bi {
			return out, nil
		}
		out = append(out, vrsName(p))
		bl = p
	}
}

func (c vrsChain) IsEqualOrDescendantOf(base, block string) bool {
	if base == block {
		return true
	}
	_, err := c.Ancestry(base, block)
	return err == nil
}

func vrsHN(c vrsChain, hn *HashNumber[string, uint32]) (int, string) {
	if hn == nil {
		return 0, ""
	}
	b := vrsIndex(hn.Hash)
	if b >= 1 && b <= len(c.par) && c.number(b) != hn.Number {
		return b, fmt.Sprintf("block %s reported with number %d, tree says %d", hn.Hash, hn.Number, c.number(b))
	}
	return b, ""
}

func vrsNewRound(c vrsChain, w []int) *Round[string, string, uint32, string] {
	ws := make([]IDWeight[string], len(w))
	for i, x := range w {
		ws[i] = IDWeight[string]{ID: fmt.Sprintf("v%02d", i+1), Weight: uint64(x)}
	}
	vs := NewVoterSet(ws)
	return NewRound[string, string, uint32, string](RoundParams[string, string, uint32]{
		RoundNumber: 1,
		Voters:      *vs,
		Base:        HashNumber[string, uint32]{Hash: vrsName(1), Number: 1},
	})
}

func vrsImport(r *Round[string, string, uint32, string], c vrsChain, o vrsOp) error {
	id := fmt.Sprintf("v%02d", o.V)
	sig := fmt.Sprintf("sig/%s/%d/%d", o.Op, o.V, o.B)
	if o.Op == "Prevote" {
		_, err := r.importPrevote(c, Prevote[string, uint32]{TargetHash: vrsName(o.B), TargetNumber: c.number(o.B)}, id, sig)
		return err
	}
	_, err := r.importPrecommit(c, Precommit[string, uint32]{TargetHash: vrsName(o.B), TargetNumber: c.number(o.B)}, id, sig)
	return err
}

// vrsCompare compares the round with the prescribed observation; report(field, exp, got).
func vrsCompare(r *Round[string, string, uint32, string], c vrsChain, obs vrsObs, res *vResult, report func(field, exp, got string)) {
	st := r.State()
	pcg := r.PrecommitGHOST()
	chk := func(field string, exp int, hn *HashNumber[string, uint32]) {
		res.Cmp()
		got, bad := vrsHN(c, hn)
		if bad != "" {
			report(field+"-number", "consistent number", bad)
			return
		}
		if got != exp {
			report(field, vrsName(exp), vrsName(got))
		}
	}
	if obs.CmpGhost {
		chk("prevote-ghost", obs.Ghost, st.PrevoteGHOST)
	}
	if obs.CmpFin {
		chk("finalized", obs.Fin, st.Finalized)
	}
	if obs.CmpPc {
		chk("precommit-ghost", obs.PcGhost, pcg)
	}
	if obs.CmpEst {
		chk("estimate", obs.Est, st.Estimate)
		res.Cmp()
		if st.Completable != obs.Comp {
			report("completable", fmt.Sprint(obs.Comp), fmt.Sprint(st.Completable))
		}
		if r.Completable() != st.Completable {
			report("completable-accessor", fmt.Sprint(st.Completable), fmt.Sprint(r.Completable()))
		}
	}
}

func vrsClass(obs vrsObs, ops []vrsOp) string {
	// equivocation present in the votes imported so far?
	seen := map[string]map[int]bool{}
	eq := false
	for _, o := range ops {
		k := fmt.Sprintf("%s/%d", o.Op, o.V)
		if seen[k] == nil {
			seen[k] = map[int]bool{}
		}
		seen[k][o.B] = true
		if len(seen[k]) > 1 {
			eq = true
		}
	}
	switch {
	case !obs.TolV || !obs.TolC:
		return "intolerant-equivocation"
	case eq:
		return "tolerant-equivocation"
	}
	return "no-equivocation"
}

func vrsPermutations(n int, f func(p []int)) {
	p := make([]int, n)
	for i := range p {
		p[i] = i
	}
	var rec func(k int)
	rec = func(k int) {
		if k == n {
			f(p)
			return
		}
		for i := k; i < n; i++ {
			p[k], p[i] = p[i], p[k]
			rec(k + 1)
			p[k], p[i] = p[i], p[k]
		}
	}
	rec(0)
}

func TestVerifRoundState(t *testing.T) {
	res := vNewResult("C20")
	defer res.Write(t)
	behs := vLoad(t, vIn(t, "behaviours.txt"))
	res.Behaviours = len(behs)
	rng := rand.New(rand.NewSource(vSeed()))
	randomOrders := 12
	prefixLen := 4
	if vThorough() {
		randomOrders = 60
		prefixLen = 5
	}
	orders := 0
	muls := []int{1, 3, 5, 7, 11, 13, 17, 19, 23, 29, 31, 37, 41, 43, 47, 53, 59, 61, 67, 71, 73, 79, 83, 89}
	for _, b := range behs {
		vrsMul, vrsAdd = muls[(b.ID+int(vSeed()))%len(muls)], (b.ID*7+int(vSeed()))%97
		var steps []vrsStep
		for _, raw := range b.Steps {
			var s vrsStep
			if err := json.Unmarshal(raw, &s); err != nil {
				t.Fatalf("VERIF-INFRA step json: %v", err)
			}
			steps = append(steps, s)
		}
		if len(steps) == 0 || steps[0].O.Op != "Init" {
			t.Fatalf("VERIF-INFRA behaviour %d does not start with Init", b.ID)
		}
		if b.ID == 0 {
			res.Sample(b.Steps)
		}
		c := vrsChain{par: steps[0].O.Par}
		w := steps[0].O.W
		var prefix []json.RawMessage
		var ops []vrsOp
		round := vrsNewRound(c, w)
		for si, s := range steps {
			prefix = append(prefix, b.Steps[si])
			o := s.O
			if o.Op != "Init" {
				ops = append(ops, o)
			}
			cls := vrsClass(s.Obs, ops)
			key := ""
			if s.Obs.Ghost != 0 {
				key = fmt.Sprintf("%v|%v|%d|%d|%d|%d|%v|%s", c.par, w, s.Obs.Ghost, s.Obs.Fin, s.Obs.Est, s.Obs.PcGhost, s.Obs.Comp, cls)
			}
			res.Case(o.Op, key)
			report := func(field, exp, got string) {
				res.Fail(b.ID, si, o.Op, field, exp, got, "C20/"+o.Op+"/"+field+"/"+cls, prefix)
			}
			pm := vTry(func() {
				if o.Op != "Init" {
					if err := vrsImport(round, c, o); err != nil {
						report("error", "nil", err.Error())
					}
				}
				vrsCompare(round, c, s.Obs, res, report)
			})
			if pm != "" {
				report("panic", "no panic", pm)
				break
			}
		}
		// ---- order independence: same votes, other import orders ----------------
		tryOrder := func(n int, perm []int, tag string) {
			obs := steps[n].Obs // steps[0] is Init, so steps[n] is the state after n imports
			cls := vrsClass(obs, ops[:n])
			r2 := vrsNewRound(c, w)
			orders++
			report := func(field, exp, got string) {
				// the replay prefix is the reordered behaviour: intermediate observations are
				// marked "not compared" (all cmp flags false), the last one is the prescribed one
				reord := []any{json.RawMessage(b.Steps[0])}
				for j, i := range perm {
					st := map[string]any{"o": ops[i], "obs": vrsObs{TolV: true, TolC: true}}
					if j == len(perm)-1 {
						st["obs"] = obs
					}
					reord = append(reord, st)
				}
				res.Fail(b.ID, n, "Reorder", field, exp, got, "C20/Reorder/"+field+"/"+cls+"/"+tag, reord)
			}
			pm := vTry(func() {
				for _, i := range perm {
					if err := vrsImport(r2, c, ops[i]); err != nil {
						report("error", "nil", err.Error())
					}
					// reading the memoised GHOST between imports is part of the API
					if i%2 == 0 {
						r2.PrecommitGHOST()
					}
				}
				vrsCompare(r2, c, obs, res, report)
			})
			if pm != "" {
				report("panic", "no panic", pm)
			}
			res.Case("Reorder", "")
		}
		if n := len(ops); n > 0 {
			k := prefixLen
			if k > n {
				k = n
			}
			vrsPermutations(k, func(p []int) { tryOrder(k, append([]int(nil), p...), "prefix-all-orders") })
			for i := 0; i < randomOrders; i++ {
				m := n
				if i%3 == 1 {
					m = 1 + rng.Intn(n)
				}
				tryOrder(m, rng.Perm(m), "random-order")
			}
		}
	}
	res.Extra["import_orders_tried"] = orders
}
