//go:build verif

// Conformance harness for specs/U128Views.tla (C13): every view of a Uint128 must denote the
// number the specification computes from the 16 little-endian bytes.
package scale

import (
	"bytes"
	"encoding/binary"
	"encoding/json"
	"fmt"
	"math/big"
	"testing"
)

type vuCase struct {
	O struct {
		V []int `json:"v"`
		W []int `json:"w"`
	} `json:"o"`
	Res struct {
		Dec []int `json:"dec"`
		LE  []int `json:"le"`
		BE  []int `json:"be"`
		Cmp int   `json:"cmp"`
	} `json:"res"`
}

func vuBytes(x []int) []byte {
	b := make([]byte, len(x))
	for i, v := range x {
		b[i] = byte(v)
	}
	return b
}

func vuMake(le []byte) *Uint128 {
	return &Uint128{Lower: binary.LittleEndian.Uint64(le[:8]), Upper: binary.LittleEndian.Uint64(le[8:])}
}

func vuClass(le []byte) string {
	t := bytes.TrimRight(le, "\x00")
	pal := true
	for i := range t {
		if t[i] != t[len(t)-1-i] {
			pal = false
		}
	}
	switch {
	case len(t) <= 1:
		return "single-byte"
	case pal:
		return "palindromic"
	}
	return "non-palindromic"
}

func TestVerifU128Views(t *testing.T) {
	res := vNewResult("C13")
	defer res.Write(t)
	behs := vLoad(t, vIn(t, "behaviours.txt"))
	res.Behaviours = len(behs)
	for bi, bh := range behs {
		for si, raw := range bh.Steps {
			var c vuCase
			if err := json.Unmarshal(raw, &c); err != nil || len(c.O.V) != 16 || len(c.O.W) != 16 {
				t.Fatalf("VERIF-INFRA case json: %v %s", err, raw)
			}
			prefix := json.RawMessage("[" + string(raw) + "]")
			v, w := vuBytes(c.O.V), vuBytes(c.O.W)
			u, uw := vuMake(v), vuMake(w)
			dec, le, be := string(vuBytes(c.Res.Dec)), vuBytes(c.Res.LE), vuBytes(c.Res.BE)
			cl := vuClass(v)
			res.Case("views", fmt.Sprintf("%x", v))
			if bi < 3 && si == 0 {
				res.Sample(json.RawMessage(raw))
			}
			chk := func(field, exp, got, sig string) {
				res.Cmp()
				if exp != got {
					res.Fail(bi, si, "views", field, exp, got, sig, prefix)
				}
			}
			same := func(x *Uint128, err error) string {
				if err != nil {
					return "error: " + err.Error()
				}
				if x == nil {
					return "nil"
				}
				return fmt.Sprintf("%016x%016x", x.Upper, x.Lower)
			}
			want := same(u, nil)
			if pm := vTry(func() {
				chk("String()", dec, u.String(), "C13/String/"+cl)
				js, err := json.Marshal(u)
				if err != nil {
					js = []byte("error: " + err.Error())
				}
				chk("json.Marshal", dec, string(js), "C13/MarshalJSON/"+cl)
				chk("Bytes(LE)", vHex(le), vHex(u.Bytes()), "C13/Bytes-LE/"+cl)
				chk("Bytes(BE)", vHex(be), vHex(u.Bytes(binary.BigEndian)), "C13/Bytes-BE/"+cl)
				// big-integer conversion: the number, as math/big reads the specification's decimal
				n, ok := new(big.Int).SetString(dec, 10)
				if !ok {
					panic("VERIF-INFRA bad decimal " + dec)
				}
				chk("NewUint128(*big.Int)", want, same(NewUint128(n)), "C13/NewUint128-bigint/"+cl)
				chk("NewUint128(LE bytes)", want, same(NewUint128(append([]byte(nil), le...))), "C13/NewUint128-LE/"+cl)
				chk("NewUint128(16 LE bytes)", want, same(NewUint128(append([]byte(nil), v...))), "C13/NewUint128-LE16/"+cl)
				chk("NewUint128(BE bytes, BigEndian)", want, same(NewUint128(append([]byte(nil), be...), binary.BigEndian)), "C13/NewUint128-BE/"+cl)
				// the byte form is the bytes of the slice handed in, nothing else: the same bytes as a window of a longer buffer
				// (a message being parsed) whose other bytes are not zero
				{
					buf := append(append([]byte{0xa5, 0x5a, 0xff}, le...), bytes.Repeat([]byte{0xff, 0x81}, 12)...)
					chk("NewUint128(LE bytes, window of a longer buffer)", want, same(NewUint128(buf[3:3+len(le)])), "C13/NewUint128-LE-window/"+cl)
					bufb := append(append(bytes.Repeat([]byte{0x81, 0xff}, 12), be...), 0xff, 0x5a, 0xa5)
					chk("NewUint128(BE bytes, window of a longer buffer)", want, same(NewUint128(bufb[24:24+len(be)], binary.BigEndian)), "C13/NewUint128-BE-window/"+cl)
				}
				// JSON round trip of the value's own JSON form, and of the canonical decimal
				var back Uint128
				js2, _ := json.Marshal(u)
				err = json.Unmarshal(js2, &back)
				chk("UnmarshalJSON(MarshalJSON(v))", want, same(&back, err), "C13/JSON-roundtrip/"+cl)
				var back2 Uint128
				err = json.Unmarshal([]byte(dec), &back2)
				chk("UnmarshalJSON(decimal)", want, same(&back2, err), "C13/UnmarshalJSON/"+cl)
				chk("Compare", fmt.Sprint(c.Res.Cmp), fmt.Sprint(u.Compare(uw)), "C13/Compare")
				// a value is its own: decoding JSON INTO a Uint128 obtained from a constructor (the receiver is overwritten in
				// place) must not change what the constructors hand out afterwards, for zero, for this value, for one
				for _, seedDec := range []string{"0", dec, "1"} {
					sn, _ := new(big.Int).SetString(seedDec, 10)
					first, ferr := NewUint128(sn)
					if ferr != nil || first == nil {
						continue
					}
					other := "340282366920938463463374607431768211455"
					if seedDec == other {
						other = "7"
					}
					_ = json.Unmarshal([]byte(other), first)
					again, aerr := NewUint128(sn)
					got := "error"
					if aerr == nil && again != nil {
						got = again.String()
					}
					chk("NewUint128 after decoding into an earlier result", seedDec, got, "C13/constructor-results-aliased/"+cl)
				}
				// SCALE form: the 16 little-endian bytes
				enc, err := Marshal(u)
				chk("Marshal", vHex(v), vHex(enc)+vuErr(err), "C13/Marshal")
			}); pm != "" {
				res.Fail(bi, si, "views", "panic", "no panic", pm, "C13/panic/"+cl, prefix)
			}
		}
	}
}

func vuErr(err error) string {
	if err != nil {
		return " error: " + err.Error()
	}
	return ""
}
