//go:build verif

// Conformance harness for specs/ScaleCodec.tla (C11 round trip / canonical form, C12 safe
// rejection of malformed input).  Every case carries its own type descriptor; the Go type
// is built with reflect (StructOf / SliceOf / ArrayOf / MapOf / PointerTo, `scale:"n"` tags),
// enums are two hand-written VaryingDataTypes, results are scale.Result.
//
//	rt  case: Marshal(value) == ScEnc(t, v);  Unmarshal(ScEnc(t, v)) == value
//	dec case: Unmarshal(b) accepts  =>  ScDec(t, b) accepts with the same value and consumed
//	          length; no panic; allocation bounded by the input length.
package scale

import (
	"bytes"
	"encoding/binary"
	"encoding/json"
	"errors"
	"fmt"
	"hash/fnv"
	"math/big"
	"math/rand"
	"reflect"
	"runtime"
	"sort"
	"strings"
	"testing"
	"time"
)

// ---- type descriptors -----------------------------------------------------------------

type vsVariant struct {
	I int  `json:"i"`
	T *vsT `json:"t"`
}

type vsT struct {
	K    string      `json:"k"`
	N    int         `json:"n"`
	T    *vsT        `json:"t"`
	A    *vsT        `json:"a"`
	B    *vsT        `json:"b"`
	Name string      `json:"name"`
	Vs   []vsVariant `json:"vs"`
	Kt   *vsT        `json:"kt"`
	Vt   *vsT        `json:"vt"`
	Fs   []*vsT      `json:"fs"`
	Tags []int       `json:"tags"`
}

func (t *vsT) String() string {
	switch t.K {
	case "u", "i":
		return fmt.Sprintf("%s%d", t.K, 8*t.N)
	case "opt":
		return "opt(" + t.T.String() + ")"
	case "res":
		return "res(" + t.A.String() + "," + t.B.String() + ")"
	case "enum":
		return "enum" + t.Name
	case "arr":
		return fmt.Sprintf("arr%d(%s)", t.N, t.T)
	case "slice":
		return "slice(" + t.T.String() + ")"
	case "map":
		return "map(" + t.Kt.String() + "," + t.Vt.String() + ")"
	case "struct":
		var p []string
		for i, f := range t.Fs {
			p = append(p, fmt.Sprintf("%s#%d", f, t.Tags[i]))
		}
		return "struct{" + strings.Join(p, ",") + "}"
	}
	return t.K
}

// kindPath is the classifier's view of a type: its kind, and for an option also the kind
// under it (a pointer to a VaryingDataType is not an option for the encoder).
func (t *vsT) kindPath() string {
	if t.K == "opt" && t.T.K == "enum" {
		return "opt-enum"
	}
	return t.K
}

// hasOptEnum: an option of an enum somewhere in the type (any nesting).
func (t *vsT) hasOptEnum() bool {
	if t == nil {
		return false
	}
	if t.K == "opt" && t.T.K == "enum" {
		return true
	}
	for _, c := range []*vsT{t.T, t.A, t.B, t.Kt, t.Vt} {
		if c.hasOptEnum() {
			return true
		}
	}
	for _, f := range t.Fs {
		if f.hasOptEnum() {
			return true
		}
	}
	for _, v := range t.Vs {
		if v.T.hasOptEnum() {
			return true
		}
	}
	return false
}

// vsOnlyOptionBytesMissing: got is exp with some 0x01 bytes (option tags) deleted.  With a map in the
// type (entry order is random) only the byte multisets are compared.
func vsOnlyOptionBytesMissing(exp, got []byte, hasMap bool) bool {
	if len(got) >= len(exp) {
		return false
	}
	if hasMap {
		var ce, cg [256]int
		for _, b := range exp {
			ce[b]++
		}
		for _, b := range got {
			cg[b]++
		}
		for i := range ce {
			if i != 1 && ce[i] != cg[i] {
				return false
			}
		}
		return ce[1] > cg[1]
	}
	// dp[j]: got[:j] obtainable from exp[:i]
	dp := make([]bool, len(got)+1)
	dp[0] = true
	for i := 1; i <= len(exp); i++ {
		nd := make([]bool, len(got)+1)
		nd[0] = dp[0] && exp[i-1] == 1
		for j := 1; j <= len(got); j++ {
			nd[j] = (exp[i-1] == got[j-1] && dp[j-1]) || (exp[i-1] == 1 && dp[j])
		}
		dp = nd
	}
	return dp[len(got)]
}

// hasByteLeaf: the type holds a byte string ([]byte, string, []uint8) somewhere.
func (t *vsT) hasByteLeaf() bool {
	return t.hasKind("bytes") || t.hasKind("str") || strings.Contains(t.String(), "slice(u8)")
}

func (t *vsT) hasKind(k string) bool {
	if t == nil {
		return false
	}
	if t.K == k {
		return true
	}
	for _, c := range []*vsT{t.T, t.A, t.B, t.Kt, t.Vt} {
		if c.hasKind(k) {
			return true
		}
	}
	for _, f := range t.Fs {
		if f.hasKind(k) {
			return true
		}
	}
	for _, v := range t.Vs {
		if v.T.hasKind(k) {
			return true
		}
	}
	return false
}

// hand-written varying data types (the library identifies variants by Go type)
type vsA0 uint8
type vsA1 struct {
	F1 uint16
	F2 bool
}
type vsA3 []byte
type vsA250 uint

type vsEnumA struct{ inner any }

func (e *vsEnumA) SetValue(v any) error {
	switch v.(type) {
	case vsA0, vsA1, vsA3, vsA250:
		e.inner = v
		return nil
	}
	return fmt.Errorf("unsupported type %T", v)
}
func (e vsEnumA) IndexValue() (uint, any, error) {
	switch e.inner.(type) {
	case vsA0:
		return 0, e.inner, nil
	case vsA1:
		return 1, e.inner, nil
	case vsA3:
		return 3, e.inner, nil
	case vsA250:
		return 250, e.inner, nil
	}
	return 0, nil, ErrUnsupportedVaryingDataTypeValue
}
func (e vsEnumA) Value() (any, error) { _, v, err := e.IndexValue(); return v, err }
func (e vsEnumA) ValueAt(i uint) (any, error) {
	switch i {
	case 0:
		return vsA0(0), nil
	case 1:
		return vsA1{}, nil
	case 3:
		return vsA3{}, nil
	case 250:
		return vsA250(0), nil
	}
	return nil, ErrUnknownVaryingDataTypeValue
}

type vsB1 uint32
type vsB2 struct{ F1 *uint16 }
type vsB5 string

type vsEnumB struct{ inner any }

func (e *vsEnumB) SetValue(v any) error {
	switch v.(type) {
	case vsB1, vsB2, vsB5:
		e.inner = v
		return nil
	}
	return fmt.Errorf("unsupported type %T", v)
}
func (e vsEnumB) IndexValue() (uint, any, error) {
	switch e.inner.(type) {
	case vsB1:
		return 1, e.inner, nil
	case vsB2:
		return 2, e.inner, nil
	case vsB5:
		return 5, e.inner, nil
	}
	return 0, nil, ErrUnsupportedVaryingDataTypeValue
}
func (e vsEnumB) Value() (any, error) { _, v, err := e.IndexValue(); return v, err }
func (e vsEnumB) ValueAt(i uint) (any, error) {
	switch i {
	case 1:
		return vsB1(0), nil
	case 2:
		return vsB2{}, nil
	case 5:
		return vsB5(""), nil
	}
	return nil, ErrUnknownVaryingDataTypeValue
}

var vsEnumTypes = map[string]reflect.Type{"A": reflect.TypeOf(vsEnumA{}), "B": reflect.TypeOf(vsEnumB{})}
var vsVariantTypes = map[string]reflect.Type{
	"A0": reflect.TypeOf(vsA0(0)), "A1": reflect.TypeOf(vsA1{}), "A3": reflect.TypeOf(vsA3{}), "A250": reflect.TypeOf(vsA250(0)),
	"B1": reflect.TypeOf(vsB1(0)), "B2": reflect.TypeOf(vsB2{}), "B5": reflect.TypeOf(vsB5("")),
}

func (t *vsT) goType() reflect.Type {
	switch t.K {
	case "u":
		return map[int]reflect.Type{1: reflect.TypeOf(uint8(0)), 2: reflect.TypeOf(uint16(0)), 4: reflect.TypeOf(uint32(0)), 8: reflect.TypeOf(uint64(0))}[t.N]
	case "i":
		return map[int]reflect.Type{1: reflect.TypeOf(int8(0)), 2: reflect.TypeOf(int16(0)), 4: reflect.TypeOf(int32(0)), 8: reflect.TypeOf(int64(0))}[t.N]
	case "u128":
		return reflect.TypeOf((*Uint128)(nil))
	case "compact":
		return reflect.TypeOf(uint(0))
	case "bigint":
		return reflect.TypeOf((*big.Int)(nil))
	case "bool":
		return reflect.TypeOf(false)
	case "bytes":
		return reflect.TypeOf([]byte(nil))
	case "str":
		return reflect.TypeOf("")
	case "opt":
		return reflect.PointerTo(t.T.goType())
	case "res":
		return reflect.TypeOf(Result{})
	case "enum":
		return vsEnumTypes[t.Name]
	case "arr":
		return reflect.ArrayOf(t.N, t.T.goType())
	case "slice":
		return reflect.SliceOf(t.T.goType())
	case "map":
		return reflect.MapOf(t.Kt.goType(), t.Vt.goType())
	case "struct":
		var fs []reflect.StructField
		for i, f := range t.Fs {
			sf := reflect.StructField{Name: fmt.Sprintf("F%d", i+1), Type: f.goType()}
			if t.Tags[i] >= 0 {
				sf.Tag = reflect.StructTag(fmt.Sprintf(`scale:"%d"`, t.Tags[i]))
			}
			fs = append(fs, sf)
		}
		return reflect.StructOf(fs)
	}
	panic("VERIF-INFRA unknown type kind " + t.K)
}

func vsList(raw json.RawMessage) ([]json.RawMessage, error) {
	s := strings.TrimSpace(string(raw))
	if s == "{}" || s == "null" || s == "" {
		return nil, nil
	}
	var l []json.RawMessage
	err := json.Unmarshal(raw, &l)
	return l, err
}

func vsByteList(raw json.RawMessage) ([]byte, error) {
	l, err := vsList(raw)
	if err != nil {
		return nil, err
	}
	out := make([]byte, len(l))
	for i, x := range l {
		var n int
		if err := json.Unmarshal(x, &n); err != nil {
			return nil, err
		}
		out[i] = byte(n)
	}
	return out, nil
}

func vsLE64(b []byte) uint64 {
	var x uint64
	for i := len(b) - 1; i >= 0; i-- {
		x = x<<8 | uint64(b[i])
	}
	return x
}

// vsBuild constructs the Go value of type t.goType() denoted by the specification value raw.
func vsBuild(t *vsT, raw json.RawMessage) (reflect.Value, error) {
	gt := t.goType()
	v := reflect.New(gt).Elem()
	switch t.K {
	case "u", "compact":
		b, err := vsByteList(raw)
		if err != nil || len(b) > 8 {
			return v, fmt.Errorf("bad %s value %s", t.K, raw)
		}
		v.SetUint(vsLE64(b))
	case "i":
		b, err := vsByteList(raw)
		if err != nil || len(b) != t.N {
			return v, fmt.Errorf("bad i value %s", raw)
		}
		x := vsLE64(b)
		switch t.N {
		case 1:
			v.SetInt(int64(int8(x)))
		case 2:
			v.SetInt(int64(int16(x)))
		case 4:
			v.SetInt(int64(int32(x)))
		default:
			v.SetInt(int64(x))
		}
	case "u128":
		b, err := vsByteList(raw)
		if err != nil || len(b) != 16 {
			return v, fmt.Errorf("bad u128 value %s", raw)
		}
		v.Set(reflect.ValueOf(&Uint128{Lower: binary.LittleEndian.Uint64(b[:8]), Upper: binary.LittleEndian.Uint64(b[8:])}))
	case "bigint":
		b, err := vsByteList(raw)
		if err != nil {
			return v, err
		}
		be := make([]byte, len(b))
		for i := range b {
			be[len(b)-1-i] = b[i]
		}
		v.Set(reflect.ValueOf(new(big.Int).SetBytes(be)))
	case "bool":
		var x bool
		if err := json.Unmarshal(raw, &x); err != nil {
			return v, err
		}
		v.SetBool(x)
	case "bytes":
		b, err := vsByteList(raw)
		if err != nil {
			return v, err
		}
		v.SetBytes(b)
	case "str":
		b, err := vsByteList(raw)
		if err != nil {
			return v, err
		}
		v.SetString(string(b))
	case "opt":
		l, err := vsList(raw)
		if err != nil || len(l) > 1 {
			return v, fmt.Errorf("bad opt value %s", raw)
		}
		if len(l) == 1 {
			in, err := vsBuild(t.T, l[0])
			if err != nil {
				return v, err
			}
			p := reflect.New(t.T.goType())
			p.Elem().Set(in)
			v.Set(p)
		}
	case "res":
		var w struct {
			Ok bool            `json:"ok"`
			V  json.RawMessage `json:"v"`
		}
		if err := json.Unmarshal(raw, &w); err != nil {
			return v, err
		}
		r := vsNewResult(t)
		pt, mode := t.B, Err
		if w.Ok {
			pt, mode = t.A, OK
		}
		in, err := vsBuild(pt, w.V)
		if err != nil {
			return v, err
		}
		if err := r.Set(mode, in.Interface()); err != nil {
			return v, fmt.Errorf("Result.Set: %v", err)
		}
		v.Set(reflect.ValueOf(r))
	case "enum":
		var w struct {
			I int             `json:"i"`
			V json.RawMessage `json:"v"`
		}
		if err := json.Unmarshal(raw, &w); err != nil {
			return v, err
		}
		var vt *vsT
		for _, x := range t.Vs {
			if x.I == w.I {
				vt = x.T
			}
		}
		nt := vsVariantTypes[fmt.Sprintf("%s%d", t.Name, w.I)]
		if vt == nil || nt == nil {
			return v, fmt.Errorf("unknown variant %d of enum %s", w.I, t.Name)
		}
		in, err := vsBuild(vt, w.V)
		if err != nil {
			return v, err
		}
		if !in.Type().ConvertibleTo(nt) {
			return v, fmt.Errorf("variant payload %s not convertible to %s", in.Type(), nt)
		}
		res := v.Addr().MethodByName("SetValue").Call([]reflect.Value{in.Convert(nt)})
		if !res[0].IsNil() {
			return v, fmt.Errorf("SetValue: %v", res[0].Interface())
		}
	case "arr", "slice", "struct":
		l, err := vsList(raw)
		if err != nil {
			return v, err
		}
		if t.K == "slice" {
			v.Set(reflect.MakeSlice(gt, len(l), len(l)))
		} else if (t.K == "arr" && len(l) != t.N) || (t.K == "struct" && len(l) != len(t.Fs)) {
			return v, fmt.Errorf("bad %s value %s", t.K, raw)
		}
		for i, x := range l {
			et := t.T
			if t.K == "struct" {
				et = t.Fs[i]
			}
			in, err := vsBuild(et, x)
			if err != nil {
				return v, err
			}
			if t.K == "struct" {
				v.Field(i).Set(in)
			} else {
				v.Index(i).Set(in)
			}
		}
	case "map":
		l, err := vsList(raw)
		if err != nil {
			return v, err
		}
		v.Set(reflect.MakeMap(gt))
		for _, x := range l {
			kv, err := vsList(x)
			if err != nil || len(kv) != 2 {
				return v, fmt.Errorf("bad map entry %s", x)
			}
			k, err := vsBuild(t.Kt, kv[0])
			if err != nil {
				return v, err
			}
			val, err := vsBuild(t.Vt, kv[1])
			if err != nil {
				return v, err
			}
			v.SetMapIndex(k, val)
		}
	default:
		return v, fmt.Errorf("unknown kind %s", t.K)
	}
	return v, nil
}

func vsNewResult(t *vsT) Result {
	return NewResult(reflect.New(t.A.goType()).Elem().Interface(), reflect.New(t.B.goType()).Elem().Interface())
}

// vsPrep prepares a decode destination the way callers of the library must: results carry
// their payload prototypes; the TOP-LEVEL map is allocated (pinned tests do the same).
func vsPrep(t *vsT, v reflect.Value, top bool) {
	switch t.K {
	case "res":
		v.Set(reflect.ValueOf(vsNewResult(t)))
	case "struct":
		for i, f := range t.Fs {
			vsPrep(f, v.Field(i), false)
		}
	case "map":
		if top {
			v.Set(reflect.MakeMap(v.Type()))
		}
	}
}

// long byte strings (a zero-filled 1 GiB result, say) are rendered as length + hash
func vsRenderBytes(b []byte) string {
	if len(b) <= 128 {
		return fmt.Sprintf("h'%x'", b)
	}
	h := fnv.New64a()
	if len(b) <= 1<<16 {
		h.Write(b)
	} else { // do not touch every page of a huge (zero-filled) result
		h.Write(b[:1<<12])
		h.Write(b[len(b)-1<<12:])
	}
	return fmt.Sprintf("h'%x..'(len=%d,fnv=%x)", b[:16], len(b), h.Sum64())
}

// vsRender is the projection Go value -> abstract value (as text); total.
func vsRender(t *vsT, v reflect.Value) string {
	switch t.K {
	case "u", "compact":
		return fmt.Sprintf("%d", v.Uint())
	case "i":
		return fmt.Sprintf("%d", v.Int())
	case "u128":
		if v.IsNil() {
			return "nil-u128"
		}
		u := v.Interface().(*Uint128)
		return fmt.Sprintf("0x%016x%016x", u.Upper, u.Lower)
	case "bigint":
		if v.IsNil() {
			return "nil-bigint"
		}
		return "0x" + v.Interface().(*big.Int).Text(16)
	case "bool":
		return fmt.Sprintf("%v", v.Bool())
	case "bytes":
		return vsRenderBytes(v.Bytes())
	case "str":
		return "s" + vsRenderBytes([]byte(v.String()))
	case "opt":
		if v.IsNil() {
			return "None"
		}
		return "Some(" + vsRender(t.T, v.Elem()) + ")"
	case "res":
		r := v.Interface().(Result)
		switch r.mode {
		case OK:
			if r.ok == nil || reflect.TypeOf(r.ok) != t.A.goType() {
				return fmt.Sprintf("Ok(<%T>)", r.ok)
			}
			return "Ok(" + vsRender(t.A, reflect.ValueOf(r.ok)) + ")"
		case Err:
			if r.err == nil || reflect.TypeOf(r.err) != t.B.goType() {
				return fmt.Sprintf("Err(<%T>)", r.err)
			}
			return "Err(" + vsRender(t.B, reflect.ValueOf(r.err)) + ")"
		}
		return "Unset"
	case "enum":
		out := v.MethodByName("IndexValue").Call(nil)
		if !out[2].IsNil() {
			return "UnsetEnum"
		}
		idx := int(out[0].Uint())
		for _, x := range t.Vs {
			if x.I == idx {
				return fmt.Sprintf("E%d(%s)", idx, vsRender(x.T, out[1].Elem()))
			}
		}
		return fmt.Sprintf("E%d(?)", idx)
	case "arr", "slice":
		var p []string
		for i := 0; i < v.Len(); i++ {
			p = append(p, vsRender(t.T, v.Index(i)))
		}
		return "[" + strings.Join(p, ",") + "]"
	case "struct":
		var p []string
		for i, f := range t.Fs {
			p = append(p, vsRender(f, v.Field(i)))
		}
		return "{" + strings.Join(p, ",") + "}"
	case "map":
		var p []string
		it := v.MapRange()
		for it.Next() {
			p = append(p, vsRender(t.Kt, it.Key())+"=>"+vsRender(t.Vt, it.Value()))
		}
		sort.Strings(p)
		return "map[" + strings.Join(p, ";") + "]"
	}
	return "?"
}

// ---- cases ---------------------------------------------------------------------------------

type vsCase struct {
	O struct {
		Op  string          `json:"op"`
		T   *vsT            `json:"t"`
		V   json.RawMessage `json:"v"`
		B   json.RawMessage `json:"b"`
		Mut string          `json:"mut"`
	} `json:"o"`
	Res struct {
		Enc json.RawMessage `json:"enc"`
		Ok  bool            `json:"ok"`
		V   json.RawMessage `json:"v"`
		N   int             `json:"n"`
		At  string          `json:"at"`
		Why string          `json:"why"`
	} `json:"res"`
}

func vsErrClass(err error, t *vsT) string {
	switch {
	case errors.Is(err, ErrCompactUintPrefixUnknown):
		return "compact-uint-prefix-unknown"
	case errors.Is(err, ErrU64OutOfRange), errors.Is(err, ErrU32OutOfRange), errors.Is(err, ErrU16OutOfRange):
		return "compact-uint-out-of-range"
	}
	return "other/" + t.K
}

func vsPanicClass(msg string) string {
	switch {
	case strings.Contains(msg, "nil map"):
		return "nil-map"
	case strings.Contains(msg, "index out of range"), strings.Contains(msg, "slice bounds"):
		return "index"
	case strings.Contains(msg, "reflect"):
		return "reflect"
	}
	return "other"
}

func vsSameMultiset(a, b []byte) bool {
	if len(a) != len(b) {
		return false
	}
	var ca, cb [256]int
	for i := range a {
		ca[a[i]]++
		cb[b[i]]++
	}
	return ca == cb
}

// vsAllocDuring returns the bytes allocated (process wide) while f ran.
func vsAllocDuring(f func()) uint64 {
	var m0, m1 runtime.MemStats
	runtime.ReadMemStats(&m0)
	f()
	runtime.ReadMemStats(&m1)
	return m1.TotalAlloc - m0.TotalAlloc
}

func vsAllocBudget(n int) uint64 { return 256<<10 + 1024*uint64(n) }

// vsDecode runs scale.Unmarshal(b) into a fresh destination of type t.
type vsDecoded struct {
	err      error
	panicMsg string
	timeout  bool
	alloc    uint64
	dst      reflect.Value // pointer
	consumed int           // -1 unknown
}

func vsDecode(t *vsT, b []byte) vsDecoded {
	var d vsDecoded
	d.consumed = -1
	dst := reflect.New(t.goType())
	vsPrep(t, dst.Elem(), true)
	d.dst = dst
	in := append([]byte(nil), b...)
	// watchdog: 10 s is an observation (timeout); the call is then awaited (up to 10 more minutes) so that
	// it cannot keep allocating behind the back of the next cases' allocation measurements
	done := make(chan string, 1)
	go func() {
		done <- vTry(func() { d.alloc = vsAllocDuring(func() { d.err = Unmarshal(in, dst.Interface()) }) })
	}()
	select {
	case d.panicMsg = <-done:
	case <-time.After(10 * time.Second):
		d.timeout = true
		select {
		case <-done:
		case <-time.After(10 * time.Minute):
		}
		runtime.GC()
	}
	if !d.timeout && d.panicMsg == "" && d.alloc > vsAllocBudget(len(b)) && d.alloc < 16<<20 {
		// TotalAlloc is process wide: confirm a moderate excess by measuring once more, keep the minimum
		dst3 := reflect.New(t.goType())
		vsPrep(t, dst3.Elem(), true)
		in3 := append([]byte(nil), b...)
		var a2 uint64
		if vTry(func() { a2 = vsAllocDuring(func() { _ = Unmarshal(in3, dst3.Interface()) }) }) == "" && a2 < d.alloc {
			d.alloc = a2
		}
	}
	if d.alloc > 1<<20 {
		runtime.GC() // megabyte-sized zero-filled results must not pile up between collections
	}
	if d.panicMsg == "" && !d.timeout && d.err == nil && d.alloc <= vsAllocBudget(len(b)) {
		// consumed length: same decoder on a reader that can be asked what is left
		dst2 := reflect.New(t.goType())
		vsPrep(t, dst2.Elem(), true)
		rd := bytes.NewReader(in)
		if vTry(func() {
			if err := NewDecoder(rd).Decode(dst2.Interface()); err != nil {
				panic(err)
			}
		}) == "" {
			d.consumed = len(in) - rd.Len()
		}
	}
	return d
}

// named twins of catalogue structs: the same encoded fields (same tags), with unexported fields declared before, between
// and after them
type vsTwinSA struct {
	hidden0 uint64 //nolint:unused
	F1      uint8
	hidden1 bool //nolint:unused
	F2      uint16
	F3      uint32
	hidden2 []byte //nolint:unused
}

type vsTwinSC struct {
	hidden0 uint8 //nolint:unused
	F1      uint8
	F2      uint16 `scale:"2"`
	hidden1 uint32 //nolint:unused
	F3      uint32 `scale:"1"`
}

type vsTwinSB struct {
	F1      uint8  `scale:"3"`
	hidden0 string //nolint:unused
	F2      []byte `scale:"1"`
	F3      bool   `scale:"2"`
	hidden1 uint16 //nolint:unused
	F4      uint
}

var vsTwins = map[string]reflect.Type{
	"struct{u8#-1,u16#-1,u32#-1}":            reflect.TypeOf(vsTwinSA{}),
	"struct{u8#-1,u16#2,u32#1}":              reflect.TypeOf(vsTwinSC{}),
	"struct{u8#3,bytes#1,bool#2,compact#-1}": reflect.TypeOf(vsTwinSB{}),
}

func vsRunRT(res *vResult, bi, si int, c *vsCase, raw json.RawMessage) {
	t := c.O.T
	res.Case("rt", t.String()+"|"+string(c.O.V))
	exp, err := vsByteList(c.Res.Enc)
	if err != nil {
		panic("VERIF-INFRA bad enc")
	}
	val, err := vsBuild(t, c.O.V)
	if err != nil && strings.Contains(err.Error(), "Result.Set:") {
		// the value of the specification cannot even be PUT into the package's Result: that is the package refusing a value of
		// the declared case type (an Ok(None), an Ok(empty vector)), not a harness problem; the canonical bytes must still decode
		res.Cmp()
		res.Fail(bi, si, "rt", "Result.Set", "accepted: the payload is a value of the declared case type", err.Error(), "C11/encode/result-set-refuses-value", raw)
		d := vsDecode(t, exp)
		res.Cmp()
		if d.panicMsg != "" || d.err != nil || d.timeout {
			res.Fail(bi, si, "rt", "Unmarshal", "the value", fmt.Sprintf("err=%v panic=%s timeout=%v", d.err, d.panicMsg, d.timeout), "C11/decode/error/result-payload-refused", raw)
		}
		return
	}
	if err != nil {
		panic(fmt.Sprintf("VERIF-INFRA cannot build %s from %s: %v", t, c.O.V, err))
	}
	// --- encode; a type holding a map is marshalled 64 times (Go map iteration order)
	reps := 1
	if t.hasKind("map") {
		reps = 64
	}
	encOK := true
	for r := 0; r < reps; r++ {
		var got []byte
		var merr error
		pm := vTry(func() { got, merr = Marshal(val.Interface()) })
		res.Cmp()
		encOK = pm == "" && merr == nil && bytes.Equal(got, exp)
		if pm != "" {
			sig := "C11/encode/panic/" + t.kindPath()
			if t.hasOptEnum() && strings.Contains(pm, "IndexValue called using nil") {
				sig = "C11/encode/panic/opt-enum"
			}
			res.Fail(bi, si, "rt", "Marshal", vHex(exp), pm, sig, raw)
			break
		}
		if merr != nil {
			res.Fail(bi, si, "rt", "Marshal", vHex(exp), "error: "+merr.Error(), "C11/encode/error/"+t.kindPath(), raw)
			break
		}
		if !bytes.Equal(got, exp) {
			sig := "C11/encode/bytes/" + t.kindPath()
			if t.hasKind("map") && vsSameMultiset(got, exp) {
				sig = "C11/encode/map-order"
			} else if t.hasOptEnum() && vsOnlyOptionBytesMissing(exp, got, t.hasKind("map")) {
				sig = "C11/encode/bytes/opt-enum"
			}
			res.Fail(bi, si, "rt", "Marshal", vHex(exp), vHex(got), sig, raw)
			break
		}
	}
	// --- an encoding is a function of the value: the same Marshal straight after calls that FAILED part-way (an encoder that
	// had already written a length and an element, a decoder that ran out of input) gives the same canonical bytes
	if encOK {
		_ = vTry(func() {
			_, _ = Marshal([]*big.Int{big.NewInt(1), nil})
			_, _ = Marshal(struct {
				A uint16
				B chan int
			}{A: 0x0408})
			var xs []uint32
			_ = Unmarshal([]byte{0x0c, 1, 0, 0, 0}, &xs)
		})
		var got []byte
		var merr error
		pm := vTry(func() { got, merr = Marshal(val.Interface()) })
		res.Cmp()
		if pm != "" || merr != nil || !bytes.Equal(got, exp) {
			res.Fail(bi, si, "rt", "Marshal after failed calls", vHex(exp), fmt.Sprintf("%s err=%v %s", vHex(got), merr, pm), "C11/encode/after-failed-calls", raw)
		}
	}
	// --- the same bytes into a NAMED Go type with the same encoded fields plus unexported ones in between (named struct
	// types go through the package's field-order cache; unexported fields are not part of the encoding): decode twice,
	// re-encode, both times the canonical bytes
	if twin, ok := vsTwins[t.String()]; ok {
		owner := vEnvStr("VERIF_PROP", "C11")
		if owner != "C12" {
			owner = "C11"
		}
		for round := 1; round <= 2; round++ {
			x := reflect.New(twin)
			var uerr, merr error
			var re []byte
			pm := vTry(func() {
				uerr = Unmarshal(exp, x.Interface())
				if uerr == nil {
					re, merr = Marshal(x.Elem().Interface())
				}
			})
			res.Cmp()
			if pm != "" || uerr != nil || merr != nil || !bytes.Equal(re, exp) {
				res.Fail(bi, si, "rt", fmt.Sprintf("named struct twin, decode #%d", round), vHex(exp), fmt.Sprintf("%s decode-err=%v encode-err=%v %s", vHex(re), uerr, merr, pm),
					owner+"/named-struct-with-unexported-fields/round-trip", raw)
				break
			}
		}
	}
	// --- decode the canonical encoding
	d := vsDecode(t, exp)
	res.Cmp()
	want := vsRender(t, val)
	switch {
	case d.timeout:
		res.Fail(bi, si, "rt", "Unmarshal", want, "timeout", "C11/decode/timeout/"+t.K, raw)
	case d.panicMsg != "":
		res.Fail(bi, si, "rt", "Unmarshal", want, d.panicMsg, "C11/decode/panic/"+vsPanicClass(d.panicMsg), raw)
	case d.err != nil:
		res.Fail(bi, si, "rt", "Unmarshal", want, "error: "+d.err.Error(), "C11/decode/error/"+vsErrClass(d.err, t), raw)
	default:
		got := vsRender(t, d.dst.Elem())
		if got != want {
			res.Fail(bi, si, "rt", "Unmarshal", want, got, "C11/decode/value/"+t.K, raw)
		}
		if d.consumed >= 0 && d.consumed != len(exp) {
			res.Fail(bi, si, "rt", "consumed", fmt.Sprint(len(exp)), fmt.Sprint(d.consumed), "C11/decode/consumed/"+t.K, raw)
		}
	}
}

func vsRunDec(res *vResult, bi, si int, c *vsCase, raw json.RawMessage) {
	t := c.O.T
	b, err := vsByteList(c.O.B)
	if err != nil {
		panic("VERIF-INFRA bad input bytes")
	}
	key := ""
	if c.Res.Ok || c.Res.Why != "short" {
		key = t.String() + "|" + vHex(b)
	}
	res.Case("dec/"+c.O.Mut, key)
	d := vsDecode(t, b)
	res.Cmp()
	specV := "reject(" + c.Res.At + "/" + c.Res.Why + ")"
	if c.Res.Ok {
		ev, err := vsBuild(t, c.Res.V)
		if err != nil && strings.Contains(err.Error(), "Result.Set:") {
			// the expected value cannot be put into the package's Result (see vsRunRT); the decoder must still accept the bytes
			res.Cmp()
			if d.panicMsg != "" || d.err != nil || d.timeout {
				res.Fail(bi, si, "dec", "Unmarshal", "accept n="+fmt.Sprint(c.Res.N), fmt.Sprintf("err=%v panic=%s timeout=%v", d.err, d.panicMsg, d.timeout), "C12/rejects-valid/result-payload-refused", raw)
			}
			return
		}
		if err != nil {
			panic(fmt.Sprintf("VERIF-INFRA cannot build %s from %s: %v", t, c.Res.V, err))
		}
		specV = fmt.Sprintf("accept n=%d %s", c.Res.N, vsRender(t, ev))
	}
	where := t.K
	if !c.Res.Ok {
		where = c.Res.At + "/" + c.Res.Why
	}
	switch {
	case d.timeout:
		// with a byte string in the type, a lenient earlier field can hand a gigabyte length prefix to
		// decodeBytes; zeroing gigabytes takes longer than the watchdog in this sandbox.  Attributed to
		// the recorded up-front allocation; a type without byte strings keeps the timeout signature.
		sig := "C12/timeout/" + where
		if t.hasByteLeaf() {
			sig = "C12/alloc/declared-byte-length"
		}
		res.Fail(bi, si, "dec", "Unmarshal", specV, "timeout", sig, raw)
		return
	case d.panicMsg != "":
		res.Fail(bi, si, "dec", "Unmarshal", specV, d.panicMsg, "C12/panic/"+vsPanicClass(d.panicMsg)+"/"+where, raw)
		return
	}
	if d.alloc > vsAllocBudget(len(b)) {
		// the one place that allocates from a declared length is the byte-string decoder; a type without
		// a byte-string leaf that over-allocates is a different defect and keeps its own signature
		sig := "C12/alloc/" + where
		if t.hasByteLeaf() {
			sig = "C12/alloc/declared-byte-length"
		}
		res.Fail(bi, si, "dec", "allocation", fmt.Sprintf("<= %d bytes for %d input bytes", vsAllocBudget(len(b)), len(b)),
			fmt.Sprintf("%d bytes", d.alloc), sig, raw)
	}
	if d.err != nil {
		if c.Res.Ok {
			// a valid canonical encoding was rejected: that is C11's round trip, not C12
			res.Fail(bi, si, "dec", "Unmarshal", specV, "error: "+d.err.Error(), "C11/decode/error/"+vsErrClass(d.err, t), raw)
		}
		return
	}
	got := fmt.Sprintf("accept n=%d %s", d.consumed, vsRender(t, d.dst.Elem()))
	if !c.Res.Ok {
		res.Fail(bi, si, "dec", "Unmarshal", specV, got, "C12/"+c.Res.At+"/"+c.Res.Why+"/accepted", raw)
		return
	}
	if got != specV {
		sig := "C12/value-differs/" + t.K
		if d.consumed != c.Res.N {
			sig = "C12/consumed-differs/" + t.K
		}
		res.Fail(bi, si, "dec", "Unmarshal", specV, got, sig, raw)
	}
}

// vsRandStrings applies C12's declarative rule alone to seeded random byte strings: an
// accepted input must re-encode to exactly the consumed prefix.
func vsRandStrings(res *vResult, types []*vsT, perType int) {
	rng := rand.New(rand.NewSource(vSeed()))
	small := []byte{0, 1, 2, 3, 4, 5, 8, 12, 16, 255}
	for _, t := range types {
		if t.hasKind("map") {
			continue // Marshal of a map is not deterministic (see C11); the rule needs Marshal
		}
		if t.hasKind("bytes") || t.hasKind("str") || strings.Contains(t.String(), "slice(u8)") || strings.Contains(t.String(), "slice(i8)") {
			continue // the code allocates whatever length a random prefix declares (C12/alloc): gigabytes
		}
		for i := 0; i < perType; i++ {
			n := rng.Intn(14)
			b := make([]byte, n)
			for j := range b {
				if rng.Intn(3) == 0 {
					b[j] = byte(rng.Intn(256))
				} else {
					b[j] = small[rng.Intn(len(small))]
				}
			}
			res.Case("rand", "")
			d := vsDecode(t, b)
			res.Cmp()
			raw := json.RawMessage(vJSON([]any{map[string]any{"o": map[string]any{"op": "dec", "t": t, "b": b, "mut": "go-rand"}}}))
			switch {
			case d.timeout:
				res.Fail(-1, i, "rand", "Unmarshal", "error or value", "timeout", "C12/rand/timeout/"+t.K, raw)
				continue
			case d.panicMsg != "":
				res.Fail(-1, i, "rand", "Unmarshal", "error or value", d.panicMsg, "C12/rand/panic/"+vsPanicClass(d.panicMsg), raw)
				continue
			}
			if d.alloc > vsAllocBudget(len(b)) {
				res.Fail(-1, i, "rand", "allocation", fmt.Sprintf("<= %d", vsAllocBudget(len(b))), fmt.Sprint(d.alloc), "C12/rand/alloc", raw)
			}
			if d.err != nil || d.consumed < 0 {
				continue
			}
			var re []byte
			var merr error
			if pm := vTry(func() { re, merr = Marshal(d.dst.Elem().Interface()) }); pm != "" || merr != nil {
				res.Fail(-1, i, "rand", "Marshal(decoded)", "bytes", fmt.Sprint(pm, merr), "C12/rand/reencode-fails/"+t.K, raw)
				continue
			}
			if !bytes.Equal(re, b[:d.consumed]) {
				class := "noncanonical-accepted/" + t.K
				if t.hasKind("bigint") {
					class = "noncanonical-accepted/bigint"
				}
				if d.consumed == len(b) && len(re) > len(b) && bytes.HasPrefix(re, b) && len(bytes.Trim(re[len(b):], "\x00")) == 0 {
					// which leaf decoders of the type read several bytes at once (the recorded short-read finding is theirs:
					// fixed-width integers, compact and big integers, Uint128); a type made of single-byte leaves only
					// (u8, i8, bool, arrays of them) has no business zero-filling
					class = "zero-filled/" + vsWideLeaves(t)
				}
				res.Fail(-1, i, "rand", "Marshal(decoded) vs consumed prefix", vHex(b[:d.consumed]), vHex(re), "C12/rand/"+class, raw)
			}
		}
	}
}

// vsWideLeaves names the multi-byte leaf kinds of a type ("wide:u,compact") or "single-byte-leaves-only".
func vsWideLeaves(t *vsT) string {
	seen := map[string]bool{}
	var walk func(x *vsT)
	walk = func(x *vsT) {
		if x == nil {
			return
		}
		switch x.K {
		case "u", "i":
			if x.N > 1 {
				seen["int"] = true
			}
		case "u128", "compact", "bigint", "bytes", "str":
			seen[map[string]string{"u128": "int", "compact": "compact", "bigint": "compact", "bytes": "len", "str": "len"}[x.K]] = true
		case "slice", "map":
			seen["len"] = true
		}
		for _, c := range []*vsT{x.T, x.A, x.B, x.Kt, x.Vt} {
			walk(c)
		}
		for _, f := range x.Fs {
			walk(f)
		}
	}
	walk(t)
	if len(seen) == 0 {
		return "single-byte-leaves-only"
	}
	return "has-multi-byte-leaves"
}

// vsNamedProbe: fixed canonical encodings decoded repeatedly into the named twins (the decoded value's canonical encoding is
// exactly the input, on the first and on every later decode of the type)
func vsNamedProbe(res *vResult, owner string) {
	probes := []struct {
		ty reflect.Type
		b  []byte
	}{
		{reflect.TypeOf(vsTwinSA{}), []byte{0x01, 0x03, 0x02, 0x07, 0x06, 0x05, 0x04}},
		{reflect.TypeOf(vsTwinSC{}), []byte{0x07, 0x06, 0x05, 0x04, 0x03, 0x02, 0x01}},
		{reflect.TypeOf(vsTwinSB{}), []byte{0x08, 0xaa, 0xbb, 0x01, 0x09, 0x2c}},
	}
	for _, p := range probes {
		for round := 1; round <= 3; round++ {
			x := reflect.New(p.ty)
			var uerr, merr error
			var re []byte
			pm := vTry(func() {
				uerr = Unmarshal(p.b, x.Interface())
				if uerr == nil {
					re, merr = Marshal(x.Elem().Interface())
				}
			})
			res.Case("named-probe", fmt.Sprintf("%s|%d", p.ty.Name(), round))
			res.Cmp()
			if pm != "" || uerr != nil || merr != nil || !bytes.Equal(re, p.b) {
				res.Fail(-1, round, "dec", fmt.Sprintf("%s, decode #%d", p.ty.Name(), round), vHex(p.b), fmt.Sprintf("%s decode-err=%v encode-err=%v %s", vHex(re), uerr, merr, pm),
					owner+"/named-struct-with-unexported-fields/round-trip", map[string]any{"type": p.ty.Name(), "bytes": vHex(p.b)})
				break
			}
		}
	}
}

func vsRun(t *testing.T, prop string) {
	res := vNewResult(prop)
	defer res.Write(t)
	vsNamedProbe(res, prop)
	behs := vLoad(t, vIn(t, "behaviours.txt"))
	res.Behaviours = len(behs)
	seen := map[string]*vsT{}
	var order []string
	for bi, bh := range behs {
		for si, raw := range bh.Steps {
			var c vsCase
			if err := json.Unmarshal(raw, &c); err != nil {
				t.Fatalf("VERIF-INFRA case json: %v", err)
			}
			if c.O.T == nil {
				t.Fatalf("VERIF-INFRA case without type")
			}
			prefix := json.RawMessage("[" + string(raw) + "]")
			if pm := vTry(func() {
				if c.O.Op == "rt" {
					vsRunRT(res, bi, si, &c, prefix)
				} else {
					vsRunDec(res, bi, si, &c, prefix)
				}
			}); pm != "" {
				t.Fatalf("VERIF-INFRA harness panic on %s: %s", string(raw), pm)
			}
			if bi < 3 && si == 0 {
				res.Sample(json.RawMessage(raw))
			}
			if _, ok := seen[c.O.T.String()]; !ok {
				seen[c.O.T.String()] = c.O.T
				order = append(order, c.O.T.String())
			}
		}
	}
	if prop == "C12" {
		sort.Strings(order)
		var types []*vsT
		for _, k := range order {
			types = append(types, seen[k])
		}
		if len(types) > 400 {
			types = types[:400]
		}
		per := 40
		if vThorough() {
			per = 150
		}
		vsRandStrings(res, types, per)
	}
	res.Extra["distinct_types"] = len(seen)
}

func TestVerifScaleRT(t *testing.T)  { vsRun(t, "C11") }
func TestVerifScaleDec(t *testing.T) { vsRun(t, "C12") }
