//go:build verif

// Conformance harness for specs/TrieCodec.tla / TrieCodec_Gen.tla, packages pkg/trie/triedb/codec (Decode,
// EncodeHeader) and pkg/trie/triedb (NewEncodedLeaf / NewEncodedBranch) (C07).  Same cases as the
// pkg/trie/node harness: rt (encode = EncN, decode = node), hdr (long partial keys), dec (robustness).

package triedb

import (
	"bytes"
	"encoding/json"
	"fmt"
	"math/rand"
	"strings"
	"testing"
	"time"

	"github.com/ChainSafe/gossamer/internal/primitives/core/hash"
	"github.com/ChainSafe/gossamer/pkg/trie/triedb/codec"
)

type vtcVal struct {
	T string `json:"t"`
	B VB     `json:"b"`
}

type vtcNode struct {
	Kind string   `json:"kind"`
	Pk   []int    `json:"pk"`
	Val  vtcVal   `json:"val"`
	Kids []vtcVal `json:"kids"`
}

type vtcCase struct {
	T     string          `json:"t"`
	Node  vtcNode         `json:"node"`
	Enc   json.RawMessage `json:"enc"`
	S     VB              `json:"s"`
	Kind  string          `json:"kind"`
	ValT  string          `json:"valT"`
	PkLen int             `json:"pkLen"`
	Fill  int             `json:"fill"`
	Hdr   VB              `json:"hdr"`
}

func vtcPack(pk []int) []byte {
	var out []byte
	i := 0
	if len(pk)%2 == 1 {
		out = append(out, byte(pk[0]))
		i = 1
	}
	for ; i < len(pk); i += 2 {
		out = append(out, byte(pk[i])<<4|byte(pk[i+1]))
	}
	return out
}

func vtcExpect(a vtcNode) string {
	if a.Kind == "empty" {
		return "empty"
	}
	var b bytes.Buffer
	pk := make([]byte, len(a.Pk))
	for i, x := range a.Pk {
		pk[i] = byte(x)
	}
	fmt.Fprintf(&b, "%s pk=%x ", a.Kind, pk)
	switch a.Val.T {
	case "hashed":
		fmt.Fprintf(&b, "val=hashed:%x", a.Val.B.Bytes())
	case "inline":
		fmt.Fprintf(&b, "val=inline:%x", a.Val.B.Bytes())
	default:
		b.WriteString("val=none")
	}
	if a.Kind == "branch" {
		for i, k := range a.Kids {
			switch k.T {
			case "hash":
				fmt.Fprintf(&b, " %d=hash:%x", i, k.B.Bytes())
			case "inline":
				fmt.Fprintf(&b, " %d=inline:%x", i, k.B.Bytes())
			}
		}
	}
	return b.String()
}

func vtcProjVal(v codec.EncodedValue) string {
	switch x := v.(type) {
	case nil:
		return "val=none"
	case codec.InlineValue:
		return fmt.Sprintf("val=inline:%x", []byte(x))
	case codec.HashedValue[hash.H256]:
		return fmt.Sprintf("val=hashed:%x", x.Hash.Bytes())
	}
	return fmt.Sprintf("val=?%T", v)
}

func vtcProject(n codec.EncodedNode) string {
	nib := func(p interface {
		Len() uint
		At(uint) uint8
	}) []byte {
		out := make([]byte, p.Len())
		for i := range out {
			out[i] = p.At(uint(i))
		}
		return out
	}
	switch x := n.(type) {
	case codec.Empty:
		return "empty"
	case codec.Leaf:
		return fmt.Sprintf("leaf pk=%x %s", nib(x.PartialKey), vtcProjVal(x.Value))
	case codec.Branch:
		var b bytes.Buffer
		fmt.Fprintf(&b, "branch pk=%x %s", nib(x.PartialKey), vtcProjVal(x.Value))
		for i, c := range x.Children {
			switch k := c.(type) {
			case codec.InlineNode:
				fmt.Fprintf(&b, " %d=inline:%x", i, []byte(k))
			case codec.HashedNode[hash.H256]:
				fmt.Fprintf(&b, " %d=hash:%x", i, k.Hash.Bytes())
			}
		}
		return b.String()
	}
	return fmt.Sprintf("?%T", n)
}

func vtcHeaderClass(s []byte) string {
	if len(s) == 0 {
		return "empty-input"
	}
	h := s[0]
	switch {
	case h == 0:
		return "header-empty-node"
	case h == 1:
		return "header-0x01-compact-variant"
	case h < 16:
		return "header-reserved"
	case h < 32:
		return "header-branch-hashed-value"
	case h < 64:
		return "header-leaf-hashed-value"
	case h < 128:
		return "header-leaf"
	case h < 192:
		return "header-branch"
	}
	return "header-branch-with-value"
}

// vtcMaxLenPrefix: see the pkg/trie/node harness (strings announcing huge lengths are left to C12).
func vtcMaxLenPrefix(s []byte) (max uint64) {
	pos := 0
	rd := func() (byte, bool) {
		if pos >= len(s) {
			return 0, false
		}
		pos++
		return s[pos-1], true
	}
	compact := func() (uint64, bool) {
		b, ok := rd()
		if !ok {
			return 0, false
		}
		switch b & 3 {
		case 0:
			return uint64(b >> 2), true
		case 1:
			c, ok := rd()
			if !ok {
				return 0, false
			}
			return uint64(b>>2) | uint64(c)<<6, true
		case 2:
			v := uint64(b >> 2)
			for i := 0; i < 3; i++ {
				c, ok := rd()
				if !ok {
					return 0, false
				}
				v |= uint64(c) << (6 + 8*uint(i))
			}
			return v, true
		}
		return 1 << 62, true
	}
	h, ok := rd()
	if !ok || h < 16 {
		return 0
	}
	var mask byte
	branch, inlineVal := false, false
	switch {
	case h < 32:
		mask, branch = 15, true
	case h < 64:
		mask = 31
	case h < 128:
		mask, inlineVal = 63, true
	case h < 192:
		mask, branch = 63, true
	default:
		mask, branch, inlineVal = 63, true, true
	}
	pk := int(h & mask)
	if h&mask == mask {
		for {
			c, ok := rd()
			if !ok {
				return 0
			}
			pk += int(c)
			if c < 255 || pk > 70000 {
				break
			}
		}
	}
	pos += (pk + 1) / 2
	var bm [2]byte
	if branch {
		for i := range bm {
			c, ok := rd()
			if !ok {
				return max
			}
			bm[i] = c
		}
	}
	take := func() bool {
		v, ok := compact()
		if !ok {
			return false
		}
		if v > max {
			max = v
		}
		if v > 1<<20 {
			return false
		}
		pos += int(v)
		return true
	}
	if inlineVal {
		if !take() {
			return max
		}
	} else if !(branch && h >= 128) {
		pos += 32
	}
	if branch {
		for i := 0; i < 16; i++ {
			if bm[i/8]>>(uint(i)%8)&1 == 1 {
				start := pos
				if !take() {
					return max
				}
				// an inlined child is decoded recursively by the in-memory decoder
				if n := pos - start; n > 1 && n <= 33 && pos <= len(s) {
					cs := s[start:pos]
					skip := 1
					if cs[0]&3 == 1 {
						skip = 2
					}
					if len(cs) > skip && len(cs)-skip < 32 {
						if m := vtcMaxLenPrefix(cs[skip:]); m > max {
							max = m
						}
					}
				}
			}
		}
	}
	return max
}

func vtcDecodeGuarded(s []byte) (n codec.EncodedNode, err error, pm string, hung bool) {
	pm, hung = vGuard(5*time.Second, func() { n, err = codec.Decode[hash.H256](bytes.NewReader(s)) })
	return
}

func vtcPanicKind(pm string) string {
	switch {
	case strings.Contains(pm, "nil pointer"):
		return "panic-nil-dereference"
	case strings.Contains(pm, "not implemented for node variant"):
		return "panic-not-implemented-variant"
	}
	return "panic"
}

func TestVerifTrieCodecTrieDB(t *testing.T) {
	prop := vEnvStr("VERIF_PROP", "C07")
	res := vNewResult(prop)
	defer res.Write(t)
	behs := vLoad(t, vIn(t, "cases.txt"))
	res.Behaviours = len(behs)
	rng := rand.New(rand.NewSource(vSeed() + 7))
	nmut := 8
	if vThorough() {
		nmut = 300
	}
	randomMut, skipped := 0, 0
	var encs [][]byte
	for _, b := range behs {
		for si, raw := range b.Steps {
			var c vtcCase
			if err := json.Unmarshal(raw, &c); err != nil {
				t.Fatalf("VERIF-INFRA case json: %v", err)
			}
			fail := func(field, exp, got, sig string) {
				res.Fail(b.ID, si, c.T, field, exp, got, "C07/codec/"+sig, []json.RawMessage{raw})
			}
			checkDecoded := func(s []byte, a vtcNode, cls string) {
				n, err, pm, hung := vtcDecodeGuarded(s)
				res.Cmp()
				switch {
				case hung:
					fail("hang", "returns", "no return in 5s", "Decode/"+cls+"/hang")
				case pm != "":
					fail("panic", "no panic", pm, "Decode/"+cls+"/"+vtcPanicKind(pm))
				case err != nil:
					fail("err", "nil", err.Error(), "Decode/"+cls+"/error-on-valid-encoding")
				default:
					if got, exp := vtcProject(n), vtcExpect(a); got != exp {
						fail("node", exp, got, "Decode/"+cls+"/node")
					}
				}
			}
			switch c.T {
			case "rt":
				var encVB VB
				_ = json.Unmarshal(c.Enc, &encVB)
				enc := encVB.Bytes()
				encs = append(encs, enc)
				res.Case("rt", fmt.Sprintf("%s|%d|%s|%x", c.Node.Kind, len(c.Node.Pk), c.Node.Val.T, len(enc)))
				cls := c.Node.Kind + "/" + c.Node.Val.T + "-value"
				if c.Node.Kind != "empty" {
					var val codec.EncodedValue
					switch c.Node.Val.T {
					case "inline":
						v := c.Node.Val.B.Bytes()
						if v == nil {
							v = []byte{}
						}
						val = codec.InlineValue(v)
					case "hashed":
						val = codec.HashedValue[hash.H256]{Hash: hash.H256(c.Node.Val.B.Bytes())}
					}
					buf := bytes.NewBuffer(nil)
					var eerr error
					pm := vTry(func() {
						if c.Node.Kind == "leaf" {
							eerr = NewEncodedLeaf(vtcPack(c.Node.Pk), uint(len(c.Node.Pk)), val, buf)
							return
						}
						var kids [codec.ChildrenCapacity]ChildReference
						for i, k := range c.Node.Kids {
							switch k.T {
							case "inline":
								kids[i] = InlineChildReference(k.B.Bytes())
							case "hash":
								kids[i] = HashChildReference[hash.H256]{Hash: hash.H256(k.B.Bytes())}
							}
						}
						eerr = NewEncodedBranch(vtcPack(c.Node.Pk), uint(len(c.Node.Pk)), kids, val, buf)
					})
					res.Cmp()
					if pm != "" || eerr != nil {
						fail("encode", "ok", fmt.Sprint(pm, eerr), "Encode/"+cls+"/failure")
					} else if !bytes.Equal(buf.Bytes(), enc) {
						fail("encoding", vHex(enc), vHex(buf.Bytes()), "Encode/"+cls+"/bytes")
					}
				}
				checkDecoded(enc, c.Node, cls)
			case "hdr":
				res.Case("hdr", fmt.Sprintf("%s|%s|%d", c.Kind, c.ValT, c.PkLen))
				pk := make([]int, c.PkLen)
				for i := range pk {
					pk[i] = c.Fill
				}
				kind := map[string]codec.NodeKind{"leaf/inline": codec.LeafNode, "leaf/hashed": codec.LeafWithHashedValue,
					"branch/none": codec.BranchWithoutValue, "branch/inline": codec.BranchWithValue, "branch/hashed": codec.BranchWithHashedValue}[c.Kind+"/"+c.ValT]
				lc := "pklen-le-318"
				if c.PkLen > 318 {
					lc = "pklen-gt-318"
				}
				cls := c.Kind + "/" + c.ValT + "-value/" + lc
				buf := bytes.NewBuffer(nil)
				var eerr error
				if pm := vTry(func() { eerr = codec.EncodeHeader(vtcPack(pk), uint(c.PkLen), kind, buf) }); pm != "" || eerr != nil {
					fail("encode", "ok", fmt.Sprint(pm, eerr), "EncodeHeader/"+cls+"/failure")
					continue
				}
				exp := append(c.Hdr.Bytes(), vtcPack(pk)...)
				res.Cmp()
				if !bytes.Equal(buf.Bytes(), exp) {
					m := len(c.Hdr) + 2
					if m > buf.Len() {
						m = buf.Len()
					}
					fail("header", vHex(c.Hdr.Bytes()), vHex(buf.Bytes()[:m]), "EncodeHeader/"+cls+"/header")
					continue
				}
				// complete the node and decode it
				enc := append([]byte{}, exp...)
				a := vtcNode{Kind: c.Kind, Pk: pk, Kids: make([]vtcVal, 16)}
				if c.Kind == "branch" {
					enc = append(enc, 0x04, 0x00) // child 2
					a.Kids[2] = vtcVal{T: "inline", B: VB{0x41, 0x01, 0x04, 0x07}}
				}
				switch c.ValT {
				case "inline":
					enc = append(enc, 0x04, 0x09)
					a.Val = vtcVal{T: "inline", B: VB{9}}
				case "hashed":
					h := bytes.Repeat([]byte{0xab}, 32)
					enc = append(enc, h...)
					hv := make(VB, 32)
					for i := range hv {
						hv[i] = 0xab
					}
					a.Val = vtcVal{T: "hashed", B: hv}
				default:
					a.Val = vtcVal{T: "none"}
				}
				if c.Kind == "branch" {
					enc = append(enc, 0x10, 0x41, 0x01, 0x04, 0x07)
				}
				checkDecoded(enc, a, cls)
			case "dec":
				var encFlag bool
				_ = json.Unmarshal(c.Enc, &encFlag)
				s := c.S.Bytes()
				hc := vtcHeaderClass(s)
				if vtcMaxLenPrefix(s) > 1<<16 {
					skipped++
					continue
				}
				res.Case("dec", fmt.Sprintf("%s|%d|%v", hc, len(s), encFlag))
				if encFlag {
					checkDecoded(s, c.Node, hc)
					continue
				}
				_, _, pm, hung := vtcDecodeGuarded(s)
				res.Cmp()
				if hung {
					fail("hang", "returns", "no return in 5s", "Decode/"+hc+"/hang")
				} else if pm != "" {
					fail("panic", fmt.Sprintf("node or error for %x", s), pm, "Decode/"+hc+"/"+vtcPanicKind(pm))
				}
			default:
				t.Fatalf("VERIF-INFRA unknown case %q", c.T)
			}
		}
	}
	for _, enc := range encs {
		for i := 0; i < nmut && len(enc) > 0; i++ {
			m := append([]byte{}, enc...)
			switch rng.Intn(4) {
			case 0:
				m = m[:rng.Intn(len(m)+1)]
			case 1:
				m[rng.Intn(len(m))] = byte(rng.Intn(256))
			case 2:
				p := rng.Intn(len(m))
				m[p] ^= 1 << uint(rng.Intn(8))
			default:
				p := rng.Intn(len(m))
				m = append(m[:p], append([]byte{byte(rng.Intn(256))}, m[p:]...)...)
			}
			if vtcMaxLenPrefix(m) > 1<<16 {
				skipped++
				continue
			}
			randomMut++
			_, _, pm, hung := vtcDecodeGuarded(m)
			res.Cmp()
			hc := vtcHeaderClass(m)
			ints := make([]int, len(m))
			for j, x := range m {
				ints[j] = int(x)
			}
			pre := []json.RawMessage{json.RawMessage(fmt.Sprintf(`{"t":"dec","s":%s,"enc":false}`, vJSON(ints)))}
			if hung {
				res.Fail(-1, i, "random", "hang", "returns", fmt.Sprintf("no return in 5s for %x", m), "C07/codec/Decode/"+hc+"/hang", pre)
			} else if pm != "" {
				res.Fail(-1, i, "random", "panic", fmt.Sprintf("node or error for %x", m), pm, "C07/codec/Decode/"+hc+"/"+vtcPanicKind(pm), pre)
			}
		}
	}
	res.Extra["random_mutations_codec"] = randomMut
	res.Extra["skipped_oversized_length_prefix_codec"] = skipped
}
