//go:build verif

// Extension family X02 (beyond the listed properties): the iterators of the database-backed trie engine
// (pkg/trie/triedb/iterator.go) against the ordered-map reading of the state.  The TrieStore behaviours of C06 are reused:
// at every step the specification's working map is built in a fresh TrieDB, committed, reopened by root, and
//   - the full iteration yields the map's entries in ascending key order, each once,
//   - the iteration limited to a prefix p yields exactly the entries whose key starts with p, in order,
//   - prefix p then seek k yields the entries with prefix p and key >= k, in order
// for every key of the behaviour, its absent neighbours and their one-byte shortenings as p and k.
package triedb

import (
	"bytes"
	"encoding/json"
	"fmt"
	"sort"
	"testing"

	"github.com/ChainSafe/gossamer/internal/primitives/core/hash"
	"github.com/ChainSafe/gossamer/internal/primitives/runtime"
)

func vtiString(es [][2][]byte) string {
	var b bytes.Buffer
	for _, e := range es {
		fmt.Fprintf(&b, "%x=%x;", e[0], e[1])
	}
	return b.String()
}

func vtiDrain(it *rawIterator[hash.H256, runtime.BlakeTwo256]) (out [][2][]byte, err error) {
	for n := 0; n < 10000; n++ {
		item, err := it.NextItem()
		if err != nil {
			return out, err
		}
		if item == nil {
			return out, nil
		}
		// the item is copied at once; what a caller sees when it KEEPS the items is checked separately (vtiKept)
		out = append(out, [2][]byte{append([]byte{}, item.Key...), append([]byte{}, item.Value...)})
	}
	return out, fmt.Errorf("iterator did not end after 10000 items")
}

// vtiKept collects the items as they are handed out, without copying: an item is the caller's, the next call does not
// rewrite the key or value of an earlier one.
func vtiKept(it *rawIterator[hash.H256, runtime.BlakeTwo256]) (out [][2][]byte, err error) {
	var items []*TrieItem
	for n := 0; n < 10000; n++ {
		item, err := it.NextItem()
		if err != nil || item == nil {
			break
		}
		items = append(items, item)
	}
	for _, item := range items {
		out = append(out, [2][]byte{item.Key, item.Value})
	}
	return out, err
}

func TestVerifTrieIter(t *testing.T) {
	res := vNewResult(vEnvStr("VERIF_PROP", "X02"))
	defer res.Write(t)
	behs := vLoad(t, vIn(t, "behaviours.txt"))
	res.Behaviours = len(behs)
	seenState := map[string]bool{}
	for _, b := range behs {
		steps := make([]vtsStep, len(b.Steps))
		for i, raw := range b.Steps {
			if err := json.Unmarshal(raw, &steps[i]); err != nil {
				t.Fatalf("VERIF-INFRA step json: %v", err)
			}
		}
		probe := vtsProbe(steps)
		probe = append(probe, []byte{})
		var prefix []json.RawMessage
		for si, s := range steps {
			prefix = append(prefix, b.Steps[si])
			m := vtsMap(s.Obs.Entries)
			var sorted [][2][]byte
			for _, k := range vSortedKeys(m) {
				sorted = append(sorted, [2][]byte{[]byte(k), m[k]})
			}
			stateKey := fmt.Sprint(s.Obs.V1) + vtiString(sorted)
			if seenState[stateKey] || len(m) == 0 {
				continue
			}
			seenState[stateKey] = true
			cls := vtsClass(m, s.Obs.V1)
			db := vtdNewDB()
			_, root := vtdBuild(t, db, m, s.Obs.V1)
			tr := NewTrieDB[hash.H256, runtime.BlakeTwo256](root, db)
			failed := false
			fail := func(op, field, exp, got, sig string) {
				res.Fail(b.ID, si, op, field, exp, got, "X02/"+sig+"/"+cls, prefix)
				failed = true
			}
			// ---- full iteration
			res.Case("Iterate", fmt.Sprintf("%d|%s", len(m), cls))
			var got [][2][]byte
			var err error
			pm := vTry(func() {
				it, e := newRawIterator(tr)
				if e != nil {
					err = e
					return
				}
				got, err = vtiDrain(it)
			})
			res.Cmp()
			if pm != "" || err != nil || vtiString(got) != vtiString(sorted) {
				fail("Iterate", "items", vtiString(sorted), fmt.Sprintf("%s err=%v %s", vtiString(got), err, pm), "Iterate/items")
				continue
			}
			if len(sorted) > 1 {
				var kept [][2][]byte
				pm := vTry(func() {
					it, e := newRawIterator(tr)
					if e != nil {
						err = e
						return
					}
					kept, err = vtiKept(it)
				})
				res.Cmp()
				if pm != "" || err != nil || vtiString(kept) != vtiString(sorted) {
					res.Fail(b.ID, si, "Iterate", "items kept by the caller", vtiString(sorted), fmt.Sprintf("%s err=%v %s", vtiString(kept), err, pm), "X02/Iterate/kept-items-rewritten", prefix)
				}
			}
			// ---- prefix, and prefix then seek
			for _, p := range probe {
				if failed {
					break
				}
				var want [][2][]byte
				for _, e := range sorted {
					if bytes.HasPrefix(e[0], p) {
						want = append(want, e)
					}
				}
				pcls := "prefix-matches-some"
				switch {
				case len(p) == 0:
					pcls = "empty-prefix"
				case len(want) == 0:
					pcls = "prefix-matches-none"
				case len(want) == len(sorted):
					pcls = "prefix-matches-all"
				}
				res.Case("Prefix", fmt.Sprintf("%x|%d|%d", p, len(want), len(sorted)))
				got, err = nil, nil
				pm := vTry(func() {
					it, e := newPrefixedRawIterator(tr, append([]byte{}, p...))
					if e != nil {
						err = e
						return
					}
					got, err = vtiDrain(it)
				})
				res.Cmp()
				if pm != "" || err != nil || vtiString(got) != vtiString(want) {
					fail("Prefix", fmt.Sprintf("items with prefix %x", p), vtiString(want), fmt.Sprintf("%s err=%v %s", vtiString(got), err, pm), "Prefix/"+pcls+"/items")
					break
				}
				for _, k := range probe {
					var wantk [][2][]byte
					for _, e := range want {
						if bytes.Compare(e[0], k) >= 0 {
							wantk = append(wantk, e)
						}
					}
					scls := "seek-inside-prefix"
					switch {
					case len(k) == 0 || bytes.Compare(k, p) <= 0:
						scls = "seek-at-or-before-prefix"
					case !bytes.HasPrefix(k, p):
						scls = "seek-after-prefix"
						wantk = nil
					}
					res.Case("PrefixThenSeek", fmt.Sprintf("%s|%s|%d", pcls, scls, len(wantk)))
					got, err = nil, nil
					pm := vTry(func() {
						it, e := newPrefixedRawIteratorThenSeek(tr, append([]byte{}, p...), append([]byte{}, k...))
						if e != nil {
							err = e
							return
						}
						got, err = vtiDrain(it)
					})
					res.Cmp()
					if pm != "" || err != nil || vtiString(got) != vtiString(wantk) {
						fail("PrefixThenSeek", fmt.Sprintf("items with prefix %x from %x", p, k), vtiString(wantk), fmt.Sprintf("%s err=%v %s", vtiString(got), err, pm), "PrefixThenSeek/"+pcls+"/"+scls+"/items")
						break
					}
				}
			}
		}
	}
	_ = sort.Strings
}
