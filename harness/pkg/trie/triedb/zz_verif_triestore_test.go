//go:build verif

// Conformance harness for specs/TrieStore.tla, engine pkg/trie/triedb (C06).
// Replays TLC-generated behaviours (Put / Delete / SetVersion / Commit / Reopen) against TrieDB
// over a map-backed database and compares
//   - at every Commit: TrieDB.Hash() with the specification's root (TrieSpec!Root of the map),
//     then EVERY probe key (present and absent) read through a FRESH NewTrieDB(root, db),
//   - after every step: every probe key read through the working instance.

package triedb

import (
	"bytes"
	"encoding/json"
	"fmt"
	"sort"
	"strings"
	"testing"

	"github.com/ChainSafe/gossamer/internal/database"
	"github.com/ChainSafe/gossamer/internal/primitives/core/hash"
	"github.com/ChainSafe/gossamer/internal/primitives/runtime"
	"github.com/ChainSafe/gossamer/pkg/trie"
)

// vtdDB is the key-value store the engine is written against (upstream memory-db contract, same
// as the package's own test database): the hashed null node is always present, a missing key
// reads as (nil, nil), batches apply in call order.
type vtdDB struct {
	data     map[string][]byte
	nullHash []byte
	puts     int
	dels     int
}

func vtdNewDB() *vtdDB {
	return &vtdDB{data: map[string][]byte{}, nullHash: runtime.BlakeTwo256{}.Hash([]byte{0}).Bytes()}
}

func (d *vtdDB) Get(key []byte) ([]byte, error) {
	if bytes.HasSuffix(key, d.nullHash) {
		return []byte{0}, nil
	}
	if v, ok := d.data[string(key)]; ok {
		return v, nil
	}
	return nil, nil
}
func (d *vtdDB) Put(key, value []byte) error {
	d.puts++
	d.data[string(key)] = append([]byte{}, value...)
	return nil
}
func (d *vtdDB) Del(key []byte) error    { d.dels++; delete(d.data, string(key)); return nil }
func (d *vtdDB) Flush() error            { return nil }
func (d *vtdDB) NewBatch() database.Batch { return &vtdBatch{d} }

type vtdBatch struct{ *vtdDB }

func (b *vtdBatch) Close() error   { return nil }
func (b *vtdBatch) Reset()         {}
func (b *vtdBatch) ValueSize() int { return 1 }

type vtsOp struct {
	Op    string `json:"op"`
	K     VB     `json:"k"`
	V     VB     `json:"v"`
	Prune bool   `json:"prune"`
}

type vtsObs struct {
	Root     VB      `json:"root"`
	V1       bool    `json:"v1"`
	Entries  [][2]VB `json:"entries"`
	CRoot    VB      `json:"croot"`
	CEntries [][2]VB `json:"centries"`
	NCommit  int     `json:"ncommit"`
}

type vtsStep struct {
	O   vtsOp  `json:"o"`
	Obs vtsObs `json:"obs"`
}

func vtsMap(es [][2]VB) map[string][]byte {
	m := map[string][]byte{}
	for _, e := range es {
		v := e[1].Bytes()
		if v == nil {
			v = []byte{}
		}
		m[string(e[0].Bytes())] = v
	}
	return m
}

// vtsClass names the value-size class of a state: it is what separates the defects we know.
func vtsClass(m map[string][]byte, v1 bool) string {
	if !v1 {
		return "v0"
	}
	has32, hasLong := false, false
	for _, v := range m {
		if len(v) == 32 {
			has32 = true
		}
		if len(v) > 32 {
			hasLong = true
		}
	}
	switch {
	case has32:
		return "v1-value-of-exactly-32-bytes"
	case hasLong:
		return "v1-hashed-values"
	}
	return "v1-inline-values"
}

// vtsProbe: every key the behaviour mentions plus absent neighbours of each of them.
func vtsProbe(steps []vtsStep) [][]byte {
	set := map[string]struct{}{}
	add := func(k []byte) { set[string(k)] = struct{}{} }
	for _, s := range steps {
		if s.O.Op == "Put" || s.O.Op == "Delete" {
			k := s.O.K.Bytes()
			add(k)
			add(append(append([]byte{}, k...), 0))
			if len(k) > 0 {
				add(k[:len(k)-1])
				f := append([]byte{}, k...)
				f[len(f)-1] ^= 0x01
				add(f)
				g := append([]byte{}, k...)
				g[len(g)-1] ^= 0x10
				add(g)
			}
		}
	}
	ks := make([]string, 0, len(set))
	for k := range set {
		ks = append(ks, k)
	}
	sort.Strings(ks)
	out := make([][]byte, len(ks))
	for i, k := range ks {
		out[i] = []byte(k)
	}
	return out
}

type vtdTrie = TrieDB[hash.H256, runtime.BlakeTwo256]

func vtsCopy(k []byte) []byte { c := make([]byte, len(k)); copy(c, k); return c }

func vtsNibbles(k []byte) []byte {
	out := make([]byte, 0, 2*len(k))
	for _, b := range k {
		out = append(out, b>>4, b&0x0f)
	}
	return out
}

// vtsValuelessBranchPoint: pk is absent from m but is exactly the position of a branch node
// (at least two stored keys continue pk with different nibbles).
func vtsValuelessBranchPoint(pk []byte, m map[string][]byte) bool {
	if _, ok := m[string(pk)]; ok {
		return false
	}
	p := vtsNibbles(pk)
	next := map[byte]struct{}{}
	for k := range m {
		n := vtsNibbles([]byte(k))
		if len(n) > len(p) && bytes.Equal(n[:len(p)], p) {
			next[n[len(p)]] = struct{}{}
		}
	}
	return len(next) >= 2
}

// vtsKeyEndsAtBranchStart: k is absent, at least two stored keys extend it and they share more than k:
// walking k ends exactly where a branch with a non-empty partial key begins.
func vtsKeyEndsAtBranchStart(k []byte, m map[string][]byte) bool {
	if _, ok := m[string(k)]; ok {
		return false
	}
	p := vtsNibbles(k)
	var ext [][]byte
	for key := range m {
		n := vtsNibbles([]byte(key))
		if len(n) > len(p) && bytes.Equal(n[:len(p)], p) {
			ext = append(ext, n)
		}
	}
	if len(ext) < 2 {
		return false
	}
	c := ext[0][len(p)]
	for _, n := range ext {
		if n[len(p)] != c {
			return false
		}
	}
	return true
}

// vtsFeatures joins the input-class features that separate the causes of disagreement:
//   long-key  a key of 32 bytes or more was passed to Put/Delete in this behaviour
//   delete-key-ends-at-branch-start   Delete(k) of an absent k that ends where a branch with a non-empty partial key begins
//   wac       the working instance was written after it had been committed / reopened on a non-empty root
//             (its nodes were loaded from the database)
func vtsFeatures(fs ...string) string {
	var out []string
	for _, f := range fs {
		if f != "" {
			out = append(out, f)
		}
	}
	if len(out) == 0 {
		return "plain"
	}
	return strings.Join(out, "+")
}

func vtdBuild(t *testing.T, db *vtdDB, m map[string][]byte, v1 bool) (*vtdTrie, hash.H256) {
	tr := NewEmptyTrieDB[hash.H256, runtime.BlakeTwo256](db)
	if v1 {
		tr.SetVersion(trie.V1)
	}
	for _, k := range vSortedKeys(m) {
		if err := tr.Put(vtsCopy([]byte(k)), m[k]); err != nil {
			t.Fatalf("VERIF-INFRA resync put: %v", err)
		}
	}
	r, err := tr.Hash()
	if err != nil {
		t.Fatalf("VERIF-INFRA resync hash: %v", err)
	}
	return tr, r
}

func TestVerifTrieStoreTrieDB(t *testing.T) {
	prop := vEnvStr("VERIF_PROP", "C06")
	res := vNewResult(prop)
	defer res.Write(t)
	behs := vLoad(t, vIn(t, "behaviours.txt"))
	res.Behaviours = len(behs)
	totalPuts, totalDels := 0, 0
	for _, b := range behs {
		steps := make([]vtsStep, len(b.Steps))
		for i, raw := range b.Steps {
			if err := json.Unmarshal(raw, &steps[i]); err != nil {
				t.Fatalf("VERIF-INFRA step json: %v", err)
			}
		}
		if len(steps) == 0 {
			continue
		}
		if b.ID < 2 {
			res.Sample(b.Steps)
		}
		probe := vtsProbe(steps)
		db := vtdNewDB()
		tr := NewEmptyTrieDB[hash.H256, runtime.BlakeTwo256](db)
		v1 := steps[0].Obs.V1 && steps[0].O.Op != "SetVersion"
		if v1 {
			tr.SetVersion(trie.V1)
		}
		lastRoot := runtime.BlakeTwo256{}.Hash([]byte{0})
		longKey, wac, baseNonEmpty := "", "", false
		prevWork := map[string][]byte{}
		var prefix []json.RawMessage
		for si, s := range steps {
			prefix = append(prefix, b.Steps[si])
			o := s.O
			k, v := o.K.Bytes(), o.V.Bytes()
			if v == nil {
				v = []byte{}
			}
			work := vtsMap(s.Obs.Entries)
			comm := vtsMap(s.Obs.CEntries)
			failed := false
			fail := func(field, exp, got, sig string) {
				res.Fail(b.ID, si, o.Op, field, exp, got, "C06/"+sig, prefix)
				failed = true
			}
			res.Case(o.Op, fmt.Sprintf("%x|%d|%d|%v", k, len(v), len(work), s.Obs.V1))
			dk := ""
			if o.Op == "Delete" && vtsKeyEndsAtBranchStart(k, prevWork) {
				dk = "delete-key-ends-at-branch-start"
			}
			// reads of every probe key through instance x against map m
			reads := func(x *vtdTrie, m map[string][]byte, who string) {
				for _, pk := range probe {
					var got []byte
					pm := vTry(func() { c := make([]byte, len(pk)); copy(c, pk); got = x.Get(c) })
					res.Cmp()
					exp, present := m[string(pk)]
					if pm != "" {
						vlb := ""
						if strings.Contains(pm, "unreachable") && vtsValuelessBranchPoint(pk, m) {
							vlb = "absent-key-at-valueless-branch"
						}
						fail("panic", fmt.Sprintf("no panic key=%x", pk), pm, who+"/Get/"+vtsFeatures(longKey, wac, dk, vlb)+"/panic")
						return
					}
					if present != (got != nil) {
						kind := "absent-key-read-as-present"
						if present {
							kind = "present-key-read-as-absent"
						}
						fail("found", fmt.Sprintf("%v key=%x", present, pk), fmt.Sprintf("%v (%x)", got != nil, got), who+"/Get/"+vtsFeatures(longKey, wac, dk)+"/"+kind)
						return
					}
					if present && !bytes.Equal(got, exp) {
						fail("value", fmt.Sprintf("key=%x %x", pk, exp), vHex(got), who+"/Get/"+vtsFeatures(longKey, wac, dk)+"/wrong-value")
						return
					}
				}
			}
			errClass := func(kind, msg string) string {
				switch {
				case strings.Contains(msg, "not enough nibbles"):
					return kind + "-not-enough-nibbles-to-advance"
				case strings.Contains(msg, "looking up node"):
					return kind + "-looking-up-node"
				case strings.Contains(msg, "unreachable"):
					return kind + "-unreachable"
				}
				return kind
			}
			kk := make([]byte, len(k)) // the engine gets its own copy (capacity = length); it must come back unchanged
			copy(kk, k)
			if (o.Op == "Put" || o.Op == "Delete") && len(k) >= 32 {
				longKey = "long-key"
			}
			if (o.Op == "Put" || o.Op == "Delete") && baseNonEmpty {
				wac = "wac"
			}
			pm := vTry(func() {
				switch o.Op {
				case "Put":
					if err := tr.Put(kk, v); err != nil {
						fail("err", "nil", err.Error(), "Put/"+vtsFeatures(longKey, wac)+"/"+errClass("error", err.Error()))
					}
				case "Delete":
					if err := tr.Delete(kk); err != nil {
						fail("err", "nil", err.Error(), "Delete/"+vtsFeatures(longKey, wac, dk)+"/"+errClass("error", err.Error()))
					}
				case "SetVersion":
					tr.SetVersion(trie.V1)
				case "Commit":
					r, err := tr.Hash()
					if err != nil {
						fail("err", "nil", err.Error(), "Commit/"+vtsFeatures(longKey, wac)+"/"+errClass("error", err.Error()))
						return
					}
					lastRoot = r
					v32 := ""
					if vtsClass(comm, s.Obs.V1) == "v1-value-of-exactly-32-bytes" {
						v32 = "v1-value-of-exactly-32-bytes"
					}
					if len(s.Obs.CRoot) > 0 {
						res.Cmp()
						if er := s.Obs.CRoot.Bytes(); !bytes.Equal(er, r.Bytes()) {
							fail("root", vHex(er), vHex(r.Bytes()), "Commit/"+vtsFeatures(longKey, wac, v32)+"/root")
							// the engine's own root still names what it stored: go on reading through it
						}
					}
					was := failed
					failed = false
					fresh := NewTrieDB[hash.H256, runtime.BlakeTwo256](r, db)
					reads(fresh, comm, "fresh-instance")
					if !failed && was && wac == "" && longKey == "" {
						// a root disagreement alone does not desynchronise the engine
						baseNonEmpty = len(comm) > 0
						return
					}
					failed = failed || was
					baseNonEmpty = len(comm) > 0
				case "Reopen":
					tr = NewTrieDB[hash.H256, runtime.BlakeTwo256](lastRoot, db)
					if s.Obs.V1 {
						tr.SetVersion(trie.V1)
					}
					baseNonEmpty = len(comm) > 0
				default:
					t.Fatalf("VERIF-INFRA unknown op %q", o.Op)
				}
			})
			if pm != "" {
				fail("panic", "no panic", pm, o.Op+"/"+vtsFeatures(longKey, wac, dk)+"/"+errClass("panic", pm))
			}
			if !bytes.Equal(kk, k) && !failed {
				fail("key", vHex(k), vHex(kk), o.Op+"/"+vtsFeatures(longKey, wac)+"/caller-key-overwritten")
			}
			if !failed {
				reads(tr, work, "working-instance")
			}
			prevWork = work
			if failed {
				// re-synchronise with the specification: committed state in a new database, then the working state
				totalPuts += db.puts
				totalDels += db.dels
				db = vtdNewDB()
				_, r := vtdBuild(t, db, comm, s.Obs.V1)
				lastRoot = r
				wac, baseNonEmpty, longKey = "", false, ""
				for key := range work {
					if len(key) >= 32 {
						longKey = "long-key"
					}
				}
				for key := range comm {
					if len(key) >= 32 {
						longKey = "long-key"
					}
				}
				// the working state as an uncommitted instance over the same database
				tr = NewEmptyTrieDB[hash.H256, runtime.BlakeTwo256](db)
				if s.Obs.V1 {
					tr.SetVersion(trie.V1)
				}
				for _, key := range vSortedKeys(work) {
					if err := tr.Put(vtsCopy([]byte(key)), work[key]); err != nil {
						t.Fatalf("VERIF-INFRA resync put: %v", err)
					}
				}
			}
		}
		totalPuts += db.puts
		totalDels += db.dels
	}
	res.Extra["db_puts"] = totalPuts
	res.Extra["db_dels"] = totalDels
}
