//go:build verif

// Conformance harness for specs/TrieStore.tla, engine pkg/trie/triedb (C06).
// Replays TLC-generated behaviours (Put / Delete / SetVersion / Commit / Reopen) against TrieDB
// over a map-backed database and compares
//   - at every Commit: TrieDB.Hash() with the specification's root (TrieSpec!Root of the map),
//     then EVERY probe key (present and absent) read through a FRESH NewTrieDB(root, db),
//   - after every step: every probe key read through the working instance.

package triedb

import (
	"bytes"
	"encoding/json"
	"fmt"
	"sort"
	"testing"

	"github.com/ChainSafe/gossamer/internal/database"
	"github.com/ChainSafe/gossamer/internal/primitives/core/hash"
	"github.com/ChainSafe/gossamer/internal/primitives/runtime"
	"github.com/ChainSafe/gossamer/pkg/trie"
)

// vtdDB is the key-value store the engine is written against (upstream memory-db contract, same
// as the package's own test database): the hashed null node is always present, a missing key
// reads as (nil, nil), batches apply in call order.
type vtdDB struct {
	data     map[string][]byte
	nullHash []byte
	puts     int
	dels     int
}

func vtdNewDB() *vtdDB {
	return &vtdDB{data: map[string][]byte{}, nullHash: runtime.BlakeTwo256{}.Hash([]byte{0}).Bytes()}
}

func (d *vtdDB) Get(key []byte) ([]byte, error) {
	if bytes.HasSuffix(key, d.nullHash) {
		return []byte{0}, nil
	}
	if v, ok := d.data[string(key)]; ok {
		return v, nil
	}
	return nil, nil
}
func (d *vtdDB) Put(key, value []byte) error {
	d.puts++
	d.data[string(key)] = append([]byte{}, value...)
	return nil
}
func (d *vtdDB) Del(key []byte) error    { d.dels++; delete(d.data, string(key)); return nil }
func (d *vtdDB) Flush() error            { return nil }
func (d *vtdDB) NewBatch() database.Batch { return &vtdBatch{d} }

type vtdBatch struct{ *vtdDB }

func (b *vtdBatch) Close() error   { return nil }
func (b *vtdBatch) Reset()         {}
func (b *vtdBatch) ValueSize() int { return 1 }

type vtsOp struct {
	Op    string `json:"op"`
	K     VB     `json:"k"`
	V     VB     `json:"v"`
	Prune bool   `json:"prune"`
}

type vtsObs struct {
	Root     VB      `json:"root"`
	V1       bool    `json:"v1"`
	Entries  [][2]VB `json:"entries"`
	CRoot    VB      `json:"croot"`
	CEntries [][2]VB `json:"centries"`
	NCommit  int     `json:"ncommit"`
}

type vtsStep struct {
	O   vtsOp  `json:"o"`
	Obs vtsObs `json:"obs"`
}

func vtsMap(es [][2]VB) map[string][]byte {
	m := map[string][]byte{}
	for _, e := range es {
		v := e[1].Bytes()
		if v == nil {
			v = []byte{}
		}
		m[string(e[0].Bytes())] = v
	}
	return m
}

// vtsClass names the value-size class of a state: it is what separates the defects we know.
func vtsClass(m map[string][]byte, v1 bool) string {
	if !v1 {
		return "v0"
	}
	has32, hasLong := false, false
	for _, v := range m {
		if len(v) == 32 {
			has32 = true
		}
		if len(v) > 32 {
			hasLong = true
		}
	}
	switch {
	case has32:
		return "v1-value-of-exactly-32-bytes"
	case hasLong:
		return "v1-hashed-values"
	}
	return "v1-inline-values"
}

// vtsProbe: every key the behaviour mentions plus absent neighbours of each of them.
func vtsProbe(steps []vtsStep) [][]byte {
	set := map[string]struct{}{}
	add := func(k []byte) { set[string(k)] = struct{}{} }
	for _, s := range steps {
		if s.O.Op == "Put" || s.O.Op == "Delete" {
			k := s.O.K.Bytes()
			add(k)
			add(append(append([]byte{}, k...), 0))
			if len(k) > 0 {
				add(k[:len(k)-1])
				f := append([]byte{}, k...)
				f[len(f)-1] ^= 0x01
				add(f)
				g := append([]byte{}, k...)
				g[len(g)-1] ^= 0x10
				add(g)
			}
		}
	}
	ks := make([]string, 0, len(set))
	for k := range set {
		ks = append(ks, k)
	}
	sort.Strings(ks)
	out := make([][]byte, len(ks))
	for i, k := range ks {
		out[i] = []byte(k)
	}
	return out
}

type vtdTrie = TrieDB[hash.H256, runtime.BlakeTwo256]

func vtdBuild(t *testing.T, db *vtdDB, m map[string][]byte, v1 bool) (*vtdTrie, hash.H256) {
	tr := NewEmptyTrieDB[hash.H256, runtime.BlakeTwo256](db)
	if v1 {
		tr.SetVersion(trie.V1)
	}
	for _, k := range vSortedKeys(m) {
		if err := tr.Put([]byte(k), m[k]); err != nil {
			t.Fatalf("VERIF-INFRA resync put: %v", err)
		}
	}
	r, err := tr.Hash()
	if err != nil {
		t.Fatalf("VERIF-INFRA resync hash: %v", err)
	}
	return tr, r
}

func TestVerifTrieStoreTrieDB(t *testing.T) {
	prop := vEnvStr("VERIF_PROP", "C06")
	res := vNewResult(prop)
	defer res.Write(t)
	behs := vLoad(t, vIn(t, "behaviours.txt"))
	res.Behaviours = len(behs)
	totalPuts, totalDels := 0, 0
	for _, b := range behs {
		steps := make([]vtsStep, len(b.Steps))
		for i, raw := range b.Steps {
			if err := json.Unmarshal(raw, &steps[i]); err != nil {
				t.Fatalf("VERIF-INFRA step json: %v", err)
			}
		}
		if len(steps) == 0 {
			continue
		}
		if b.ID < 2 {
			res.Sample(b.Steps)
		}
		probe := vtsProbe(steps)
		db := vtdNewDB()
		tr := NewEmptyTrieDB[hash.H256, runtime.BlakeTwo256](db)
		v1 := steps[0].Obs.V1 && steps[0].O.Op != "SetVersion"
		if v1 {
			tr.SetVersion(trie.V1)
		}
		lastRoot := runtime.BlakeTwo256{}.Hash([]byte{0})
		var prefix []json.RawMessage
		for si, s := range steps {
			prefix = append(prefix, b.Steps[si])
			o := s.O
			k, v := o.K.Bytes(), o.V.Bytes()
			if v == nil {
				v = []byte{}
			}
			work := vtsMap(s.Obs.Entries)
			comm := vtsMap(s.Obs.CEntries)
			failed := false
			fail := func(field, exp, got, sig string) {
				res.Fail(b.ID, si, o.Op, field, exp, got, "C06/"+sig, prefix)
				failed = true
			}
			res.Case(o.Op, fmt.Sprintf("%x|%d|%d|%v", k, len(v), len(work), s.Obs.V1))
			// reads of every probe key through instance x against map m
			reads := func(x *vtdTrie, m map[string][]byte, who, cls string) {
				for _, pk := range probe {
					var got []byte
					pm := vTry(func() { got = x.Get(pk) })
					res.Cmp()
					exp, present := m[string(pk)]
					if pm != "" {
						fail("panic", "no panic", pm, who+"/Get/"+cls+"/panic")
						return
					}
					if present != (got != nil) {
						kind := "absent-key-read-as-present"
						if present {
							kind = "present-key-read-as-absent"
						}
						fail("found", fmt.Sprintf("%v key=%x", present, pk), fmt.Sprintf("%v (%x)", got != nil, got), who+"/Get/"+cls+"/"+kind)
						return
					}
					if present && !bytes.Equal(got, exp) {
						fail("value", fmt.Sprintf("key=%x %x", pk, exp), vHex(got), who+"/Get/"+cls+"/wrong-value")
						return
					}
				}
			}
			pm := vTry(func() {
				switch o.Op {
				case "Put":
					if err := tr.Put(k, v); err != nil {
						fail("err", "nil", err.Error(), "Put/error")
					}
				case "Delete":
					if err := tr.Delete(k); err != nil {
						fail("err", "nil", err.Error(), "Delete/error")
					}
				case "SetVersion":
					tr.SetVersion(trie.V1)
				case "Commit":
					r, err := tr.Hash()
					if err != nil {
						fail("err", "nil", err.Error(), "Commit/error")
						return
					}
					lastRoot = r
					cls := vtsClass(comm, s.Obs.V1)
					if len(s.Obs.CRoot) > 0 {
						res.Cmp()
						if er := s.Obs.CRoot.Bytes(); !bytes.Equal(er, r.Bytes()) {
							fail("root", vHex(er), vHex(r.Bytes()), "Commit/"+cls+"/root")
							// the engine's own root still names what it stored: go on reading through it
						}
					}
					was := failed
					fresh := NewTrieDB[hash.H256, runtime.BlakeTwo256](r, db)
					reads(fresh, comm, "fresh-instance", cls)
					if failed && !was {
						return
					}
					failed = false // a root disagreement alone does not desynchronise the engine
				case "Reopen":
					tr = NewTrieDB[hash.H256, runtime.BlakeTwo256](lastRoot, db)
					if s.Obs.V1 {
						tr.SetVersion(trie.V1)
					}
				default:
					t.Fatalf("VERIF-INFRA unknown op %q", o.Op)
				}
			})
			if pm != "" {
				fail("panic", "no panic", pm, o.Op+"/panic")
			}
			if !failed {
				reads(tr, work, "working-instance", vtsClass(work, s.Obs.V1))
			}
			if failed {
				// re-synchronise with the specification: committed state in a new database, then the working state
				totalPuts += db.puts
				totalDels += db.dels
				db = vtdNewDB()
				var r hash.H256
				tr, r = vtdBuild(t, db, comm, s.Obs.V1)
				lastRoot = r
				for key := range comm {
					if _, ok := work[key]; !ok {
						_ = tr.Delete([]byte(key))
					}
				}
				for _, key := range vSortedKeys(work) {
					if cv, ok := comm[key]; !ok || !bytes.Equal(cv, work[key]) {
						_ = tr.Put([]byte(key), work[key])
					}
				}
			}
		}
		totalPuts += db.puts
		totalDels += db.dels
	}
	res.Extra["db_puts"] = totalPuts
	res.Extra["db_dels"] = totalDels
}
