//go:build verif

// Conformance harness for specs/TrieMachine.tla (C01, C02, C03).
// Replays TLC-generated behaviours against InMemoryTrie and compares, after every step,
// the call's result and the root and entries of EVERY live handle.

package inmemory

import (
	"bytes"
	"encoding/json"
	"fmt"
	"testing"

	"github.com/ChainSafe/gossamer/pkg/trie"
)

type vtmOp struct {
	Op string `json:"op"`
	H  int    `json:"h"`
	K  VB     `json:"k"`
	V  VB     `json:"v"`
	P  VB     `json:"p"`
	N  uint32 `json:"n"`
}

type vtmObs struct {
	V1      bool    `json:"v1"`
	Root    VB      `json:"root"`
	Entries [][2]VB `json:"entries"`
}

type vtmStep struct {
	O   vtmOp `json:"o"`
	Res struct {
		Found      bool `json:"found"`
		V          VB   `json:"v"`
		K          VB   `json:"k"`
		Keys       []VB `json:"keys"`
		Deleted    int  `json:"deleted"`
		AllDeleted bool `json:"allDeleted"`
	} `json:"res"`
	Obs []vtmObs `json:"obs"`
}

func vtmLastNibbleZero(p []byte) string {
	if len(p) > 0 && p[len(p)-1]&0x0f == 0 {
		return "prefix-last-nibble-zero"
	}
	if len(p) == 0 {
		return "empty"
	}
	return "plain"
}

// vtmNibblePrefixTrimmed reports whether key k matches prefix p only because a trailing
// zero nibble of p is ignored (nibble-wise prefix of p minus its last nibble).
func vtmNibbleTrimMatch(p, k []byte) bool {
	if len(p) == 0 || p[len(p)-1]&0x0f != 0 || bytes.HasPrefix(k, p) {
		return false
	}
	if len(k) < len(p) || !bytes.HasPrefix(k, p[:len(p)-1]) {
		return false
	}
	return k[len(p)-1]>>4 == p[len(p)-1]>>4
}

// vtmClearClass classifies a wrong map after a prefix clear.
func vtmClearClass(p []byte, pre, exp, got map[string][]byte) string {
	var extra, missing []string
	for k := range pre {
		_, inE := exp[k]
		_, inG := got[k]
		if inE && !inG {
			extra = append(extra, k) // removed but should have stayed
		}
		if !inE && inG {
			missing = append(missing, k) // stayed but should have been removed
		}
	}
	for k := range got {
		if _, ok := pre[k]; !ok {
			return "created-key"
		}
	}
	for k, v := range got {
		if pv, ok := pre[k]; ok && !bytes.Equal(pv, v) {
			return "changed-value"
		}
	}
	allTrim := len(extra) > 0
	for _, k := range extra {
		if !vtmNibbleTrimMatch(p, []byte(k)) {
			allTrim = false
		}
	}
	if allTrim && len(missing) == 0 {
		return "zero-nibble-trim/removed-nonmatching"
	}
	allMatch := true
	for _, k := range extra {
		if !bytes.HasPrefix([]byte(k), p) {
			allMatch = false
		}
	}
	if allMatch && len(extra) == len(missing) && len(extra) > 0 {
		return "order/not-smallest-first"
	}
	if len(extra) == 0 && len(missing) > 0 {
		return "removed-too-few"
	}
	if allMatch && len(missing) == 0 {
		return "removed-too-many-matching"
	}
	return "removed-nonmatching"
}

func vtmEntriesString(m map[string][]byte) string {
	var b bytes.Buffer
	for _, k := range vSortedKeys(m) {
		fmt.Fprintf(&b, "%x=%x;", k, m[k])
	}
	return b.String()
}

func vtmObsMap(o vtmObs) map[string][]byte {
	exp := map[string][]byte{}
	for _, e := range o.Entries {
		ev := e[1].Bytes()
		if ev == nil {
			ev = []byte{}
		}
		exp[string(e[0].Bytes())] = ev
	}
	return exp
}

// vtmResync rebuilds every handle from the specification's state so that a recorded
// disagreement does not hide the rest of the behaviour.
func vtmResync(t *testing.T, obs []vtmObs) []*InMemoryTrie {
	out := make([]*InMemoryTrie, len(obs))
	for i, o := range obs {
		tr := NewEmptyTrie()
		if o.V1 {
			tr.SetVersion(trie.V1)
		}
		m := vtmObsMap(o)
		for _, k := range vSortedKeys(m) {
			if err := tr.Put([]byte(k), m[k]); err != nil {
				t.Fatalf("VERIF-INFRA resync put: %v", err)
			}
		}
		out[i] = tr
	}
	return out
}

func TestVerifTrieMachine(t *testing.T) {
	prop := vEnvStr("VERIF_PROP", "C02")
	res := vNewResult(prop)
	defer res.Write(t)
	behs := vLoad(t, vIn(t, "behaviours.txt"))
	res.Behaviours = len(behs)
	for _, b := range behs {
		tries := []*InMemoryTrie{NewEmptyTrie()}
		parents := []int{-1}
		descends := func(i, h int) bool { // handle i was (transitively) snapshotted from h
			for i >= 0 {
				if parents[i] == h {
					return true
				}
				i = parents[i]
			}
			return false
		}
		var prefix []json.RawMessage
		var prevObs []vtmObs
		var alphabet [][]byte
		{
			seen := map[string]bool{}
			for _, raw := range b.Steps {
				var s vtmStep
				if json.Unmarshal(raw, &s) != nil {
					continue
				}
				for _, x := range [][]byte{s.O.K.Bytes(), s.O.P.Bytes()} {
					if len(x) > 0 && !seen[string(x)] {
						seen[string(x)] = true
						alphabet = append(alphabet, x)
					}
				}
			}
		}
		for si, raw := range b.Steps {
			var s vtmStep
			if err := json.Unmarshal(raw, &s); err != nil {
				t.Fatalf("VERIF-INFRA step json: %v", err)
			}
			prefix = append(prefix, raw)
			if si == 0 {
				res.Sample(b.Steps)
			}
			o := s.O
			h := o.H - 1
			tr := tries[h]
			k, v, p := o.K.Bytes(), o.V.Bytes(), o.P.Bytes()
			if v == nil {
				v = []byte{}
			}
			pre := map[string][]byte{}
			if prevObs != nil {
				pre = vtmObsMap(prevObs[h])
			}
			failed := false
			fail := func(owner, field, exp, got, sig string) {
				res.Fail(b.ID, si, o.Op, field, exp, got, owner+"/"+sig, prefix)
				failed = true
			}
			key := fmt.Sprintf("%x|%x|%x|%d|%d", k, v, p, o.N, len(s.Obs[h].Entries))
			res.Case(o.Op, key)
			pm := vTry(func() {
				switch o.Op {
				case "Put":
					if err := tr.Put(k, v); err != nil {
						fail("C02", "err", "nil", err.Error(), "Put/error")
					}
				case "Delete":
					if err := tr.Delete(k); err != nil {
						fail("C02", "err", "nil", err.Error(), "Delete/error")
					}
				case "ClearPrefix":
					if err := tr.ClearPrefix(p); err != nil {
						fail("C02", "err", "nil", err.Error(), "ClearPrefix/error")
					}
				case "ClearPrefixLimit":
					del, all, err := tr.ClearPrefixLimit(p, o.N)
					if err != nil {
						fail("C02", "err", "nil", err.Error(), "ClearPrefixLimit/error")
						break
					}
					res.Cmp()
					lim := "limit-pos"
					if o.N == 0 {
						lim = "limit-0"
					}
					if int(del) != s.Res.Deleted {
						fail("C02", "deleted", fmt.Sprint(s.Res.Deleted), fmt.Sprint(del),
							"ClearPrefixLimit/"+vtmLastNibbleZero(p)+"/"+lim+"/deleted-count")
					}
					// limit 0 with matching keys left: upstream has no such call; allDeleted unconstrained
					if !(o.N == 0 && !s.Res.AllDeleted) && all != s.Res.AllDeleted && !failed {
						fail("C02", "allDeleted", fmt.Sprint(s.Res.AllDeleted), fmt.Sprint(all),
							"ClearPrefixLimit/"+vtmLastNibbleZero(p)+"/"+lim+"/all-deleted")
					}
				case "SetVersion":
					tr.SetVersion(trie.V1)
				case "Snapshot":
					tries = append(tries, tr.Snapshot())
					parents = append(parents, h)
				case "Get":
					got := tr.Get(k)
					res.Cmp()
					cls := "plain"
					if len(k) == 0 {
						cls = "empty-key"
					}
					if s.Res.Found != (got != nil) {
						fail("C02", "found", fmt.Sprint(s.Res.Found), fmt.Sprintf("%v (%x)", got != nil, got), "Get/"+cls+"/presence")
					} else if s.Res.Found && !bytes.Equal(got, s.Res.V.Bytes()) {
						fail("C02", "value", vHex(s.Res.V.Bytes()), vHex(got), "Get/"+cls+"/value")
					}
				case "NextKey":
					got := tr.NextKey(k)
					res.Cmp()
					if s.Res.Found != (got != nil) || (s.Res.Found && !bytes.Equal(got, s.Res.K.Bytes())) {
						fail("C02", "next", fmt.Sprintf("%v %x", s.Res.Found, s.Res.K.Bytes()), fmt.Sprintf("%v %x", got != nil, got), "NextKey/result")
					}
				case "KeysWithPrefix":
					got := tr.GetKeysWithPrefix(p)
					res.Cmp()
					ok := len(got) == len(s.Res.Keys)
					for i := 0; ok && i < len(got); i++ {
						ok = bytes.Equal(got[i], s.Res.Keys[i].Bytes())
					}
					if !ok {
						exp := map[string]bool{}
						var expl [][]byte
						for _, e := range s.Res.Keys {
							exp[string(e.Bytes())] = true
							expl = append(expl, e.Bytes())
						}
						cls := "listing"
						onlyTrim := true
						seen := map[string]bool{}
						for _, g := range got {
							seen[string(g)] = true
							if !exp[string(g)] && !vtmNibbleTrimMatch(p, g) {
								onlyTrim = false
							}
						}
						for e := range exp {
							if !seen[e] {
								onlyTrim = false
							}
						}
						if onlyTrim {
							cls = "zero-nibble-trim/lists-nonmatching"
						}
						fail("C02", "keys", fmt.Sprintf("%x", expl), fmt.Sprintf("%x", got), "KeysWithPrefix/"+cls)
					}
				default:
					t.Fatalf("VERIF-INFRA unknown op %q", o.Op)
				}
			})
			if pm != "" {
				fail("C02", "panic", "no panic", pm, o.Op+"/"+vtmLastNibbleZero(p)+"/panic")
			}
			if len(s.Obs) != len(tries) && !failed {
				t.Fatalf("VERIF-INFRA handle count: spec %d harness %d", len(s.Obs), len(tries))
			}
			// observe every handle: the operated one first
			order := []int{h}
			for i := range tries {
				if i != h {
					order = append(order, i)
				}
			}
			for _, i := range order {
				if failed {
					break
				}
				exp := vtmObsMap(s.Obs[i])
				var got map[string][]byte
				var root []byte
				pm := vTry(func() {
					got = tries[i].Entries()
					hh, err := tries[i].Hash()
					if err != nil {
						panic(err)
					}
					root = hh.ToBytes()
				})
				owner := "C02"
				where := "self"
				if i != h {
					owner, where = "C03", "other-handle/isolation-broken"
					if descends(i, h) {
						// the operated handle had been snapshotted before; the changed handle is that snapshot
						where = "other-handle/parent-mutated-after-snapshot"
					}
				}
				if pm != "" {
					fail(owner, "panic", "no panic", pm, o.Op+"/"+where+"/observe-panic")
					break
				}
				res.Cmp()
				ge, ee := vtmEntriesString(got), vtmEntriesString(exp)
				if ge != ee {
					cls := "entries"
					if i == h && (o.Op == "ClearPrefix" || o.Op == "ClearPrefixLimit") {
						cls = vtmClearClass(p, pre, exp, got)
					} else if i == h && (o.Op == "Delete") && len(k) == 0 {
						cls = "empty-key/entries"
					}
					fail(owner, "entries", ee, ge, o.Op+"/"+where+"/"+cls)
					break
				}
				if len(s.Obs[i].Root) > 0 {
					res.Cmp()
					er := s.Obs[i].Root.Bytes()
					if !bytes.Equal(er, root) {
						if i == h {
							owner = "C01"
						}
						fail(owner, "root", vHex(er), vHex(root), o.Op+"/"+where+"/root")
						break
					}
				}
			}
			// the read side of the map after every step, not only where the behaviour reads: Get of every key and prefix the
			// behaviour mentions anywhere (present, absent, a strict prefix of stored keys, an extension of one), on the
			// operated handle (the empty key has its own recorded finding and is read by the behaviours themselves)
			if !failed {
				exp := vtmObsMap(s.Obs[h])
				for _, pk := range alphabet {
					var got []byte
					pm := vTry(func() { got = tries[h].Get(pk) })
					res.Cmp()
					want, present := exp[string(pk)]
					switch {
					case pm != "":
						fail("C02", "Get sweep", "no panic", pm, "Get/sweep/panic")
					case present != (got != nil):
						fail("C02", fmt.Sprintf("Get(%x) after the step", pk), fmt.Sprint(present), fmt.Sprintf("%v (%x)", got != nil, got), "Get/sweep/presence")
					case present && !bytes.Equal(got, want):
						fail("C02", fmt.Sprintf("Get(%x) after the step", pk), vHex(want), vHex(got), "Get/sweep/value")
					}
					if failed {
						break
					}
				}
				// ... and NextKey from every one of them: the least stored key strictly above it in byte order, whether the
				// search key is stored, a prefix of stored keys, or leaves the trie inside a branch's partial key
				if !failed {
					sortedKeys := vSortedKeys(exp)
					for _, pk := range alphabet {
						var got []byte
						pm := vTry(func() { got = tries[h].NextKey(pk) })
						res.Cmp()
						want, found := "", false
						for _, k := range sortedKeys {
							if bytes.Compare([]byte(k), pk) > 0 {
								want, found = k, true
								break
							}
						}
						switch {
						case pm != "":
							fail("C02", "NextKey sweep", "no panic", pm, "NextKey/sweep/panic")
						case found != (got != nil) || (found && !bytes.Equal(got, []byte(want))):
							fail("C02", fmt.Sprintf("NextKey(%x) after the step", pk), fmt.Sprintf("%v %x", found, want), fmt.Sprintf("%v %x", got != nil, got), "NextKey/sweep/result")
						}
						if failed {
							break
						}
					}
				}
			}
			if failed {
				tries = vtmResync(t, s.Obs)
			}
			prevObs = s.Obs
		}
	}
}
