//go:build verif

// Conformance harness for specs/TrieChildStore.tla, engine pkg/trie/inmemory + database (C04, child tries).
// Replays TLC-generated behaviours (Put / Delete / PutChild / ClearChild / SetChild / DeleteChild / Commit /
// Reopen) as a CHAIN OF SNAPSHOTS exactly as dot/state stores block states: every Commit hashes the working
// trie, WriteDirty()s it to a pebble table (in-memory VFS) and continues on a Snapshot() of it.
// After every Commit
//   - a FRESH trie is Load()ed by root hash: root, main-trie entries (child roots are the values of the
//     ":child_storage:default:<name>" entries), the SET of child tries and every child trie's root and
//     entries must equal the committed state of the specification,
//   - GetFromDB(db, root, k) is compared for every main probe key (present and absent, child keys of present
//     and absent children) and GetFromDB(db, childRoot, k) for every child probe key,
//   - every state persisted EARLIER in the behaviour is loaded and read again (incremental writes).
// Reopen continues on a trie loaded from the database.  After every step the working trie (entries and child
// tries) is compared too, so that a reloaded state that behaves differently later is seen.
// Shares helpers with zz_verif_triestore_test.go (same go stage).

package inmemory

import (
	"bytes"
	"encoding/json"
	"fmt"
	"sort"
	"strings"
	"testing"

	"github.com/ChainSafe/gossamer/internal/database"
	"github.com/ChainSafe/gossamer/lib/common"
	"github.com/ChainSafe/gossamer/pkg/trie"
)

type vcsOp struct {
	Op string  `json:"op"`
	K  VB      `json:"k"`
	V  VB      `json:"v"`
	C  VB      `json:"c"`
	I  int     `json:"i"`
	E  [][2]VB `json:"e"`
}

type vcsChild struct {
	Name    VB      `json:"name"`
	Root    VB      `json:"root"`
	Entries [][2]VB `json:"entries"`
}

type vcsObs struct {
	Root      VB         `json:"root"`
	V1        bool       `json:"v1"`
	Entries   [][2]VB    `json:"entries"`
	Children  []vcsChild `json:"children"`
	CRoot     VB         `json:"croot"`
	CEntries  [][2]VB    `json:"centries"`
	CChildren []vcsChild `json:"cchildren"`
	NCommit   int        `json:"ncommit"`
}

type vcsStep struct {
	O   vcsOp  `json:"o"`
	Obs vcsObs `json:"obs"`
}

// vcsState is a state of the specification with byte strings resolved.
type vcsState struct {
	main     map[string][]byte            // main-trie entries, child roots included
	children map[string]map[string][]byte // child name -> entries
	croots   map[string][]byte            // child name -> root
	v1       bool
}

func vcsStateOf(entries [][2]VB, children []vcsChild, v1 bool) vcsState {
	s := vcsState{main: vtsMap(entries), children: map[string]map[string][]byte{}, croots: map[string][]byte{}, v1: v1}
	for _, c := range children {
		n := string(c.Name.Bytes())
		s.children[n] = vtsMap(c.Entries)
		s.croots[n] = c.Root.Bytes()
	}
	return s
}

func vcsChildKey(name []byte) []byte {
	return append(append([]byte{}, ChildStorageKeyPrefix...), name...)
}

func (s vcsState) names() []string {
	ns := make([]string, 0, len(s.children))
	for n := range s.children {
		ns = append(ns, n)
	}
	sort.Strings(ns)
	return ns
}

// class of the state for signatures
func (s vcsState) class() string {
	ver := "v0"
	if s.v1 {
		ver = "v1"
	}
	switch {
	case len(s.children) == 0:
		return ver + "/no-children"
	case len(s.main) == 1:
		return ver + "/main-root-is-leaf-child-pointer"
	}
	return ver + "/children"
}

func vcsVariants(k []byte, add func([]byte)) {
	add(k)
	add(append(append([]byte{}, k...), 0))
	if len(k) > 0 {
		add(k[:len(k)-1])
		f := append([]byte{}, k...)
		f[len(f)-1] ^= 0x01
		add(f)
		g := append([]byte{}, k...)
		g[len(g)-1] ^= 0x10
		add(g)
	}
}

func vcsSortedSet(set map[string]struct{}) [][]byte {
	ks := make([]string, 0, len(set))
	for k := range set {
		ks = append(ks, k)
	}
	sort.Strings(ks)
	out := make([][]byte, len(ks))
	for i, k := range ks {
		out[i] = []byte(k)
	}
	return out
}

// vcsProbes returns the main-trie and child-trie probe keys of a behaviour.
func vcsProbes(steps []vcsStep) (mainP, childP [][]byte) {
	ms, cs := map[string]struct{}{}, map[string]struct{}{}
	addM := func(k []byte) { ms[string(k)] = struct{}{} }
	addC := func(k []byte) { cs[string(k)] = struct{}{} }
	addM(ChildStorageKeyPrefix)
	for _, s := range steps {
		switch s.O.Op {
		case "Put", "Delete":
			vcsVariants(s.O.K.Bytes(), addM)
		case "PutChild", "ClearChild":
			vcsVariants(s.O.K.Bytes(), addC)
			vcsVariants(vcsChildKey(s.O.C.Bytes()), addM)
		case "SetChild":
			for _, e := range s.O.E {
				vcsVariants(e[0].Bytes(), addC)
			}
			vcsVariants(vcsChildKey(s.O.C.Bytes()), addM)
		case "DeleteChild":
			vcsVariants(vcsChildKey(s.O.C.Bytes()), addM)
		}
	}
	return vcsSortedSet(ms), vcsSortedSet(cs)
}

func vcsNewChild(entries map[string][]byte, v1 bool) (*InMemoryTrie, error) {
	child := NewEmptyTrie()
	if v1 {
		child.SetVersion(trie.V1)
	}
	for _, k := range vSortedKeys(entries) {
		if err := child.Put([]byte(k), entries[k]); err != nil {
			return nil, err
		}
	}
	return child, nil
}

// vcsBuild builds the state st with the real trie over table (used only to re-synchronise).
func vcsBuild(st vcsState, table database.Table) (*InMemoryTrie, error) {
	ct := NewTrie(nil, table)
	if st.v1 {
		ct.SetVersion(trie.V1)
	}
	for _, k := range vSortedKeys(st.main) {
		if bytes.HasPrefix([]byte(k), ChildStorageKeyPrefix) {
			continue
		}
		if err := ct.Put([]byte(k), st.main[k]); err != nil {
			return nil, err
		}
	}
	for _, n := range st.names() {
		child, err := vcsNewChild(st.children[n], st.v1)
		if err != nil {
			return nil, err
		}
		if err := ct.SetChild([]byte(n), child); err != nil {
			return nil, err
		}
	}
	return ct, nil
}

// vcsCompareTrie compares entries and child tries of a real trie with a state of the specification;
// it returns "" or (field, expected, got, failure class).
func vcsCompareTrie(res *vResult, tr *InMemoryTrie, st vcsState) (field, exp, got, cls string) {
	var gotE map[string][]byte
	if pm := vTry(func() { gotE = tr.Entries() }); pm != "" {
		return "panic", "no panic", pm, "observe-panic"
	}
	res.Cmp()
	if ge, ee := vtsEntriesString(gotE), vtsEntriesString(st.main); ge != ee {
		return "entries", ee, ge, "entries"
	}
	for _, n := range st.names() {
		var child trie.Trie
		var err error
		if pm := vTry(func() { child, err = tr.GetChild([]byte(n)) }); pm != "" {
			return "panic", "no panic", pm, "child-observe-panic"
		}
		res.Cmp()
		if err != nil || child == nil {
			return "child", fmt.Sprintf("child %x present", n), fmt.Sprintf("child=%v err=%v", child != nil, err), "child-missing"
		}
		var ce map[string][]byte
		var ch common.Hash
		if pm := vTry(func() { ce = child.Entries(); ch = child.MustHash() }); pm != "" {
			return "panic", "no panic", pm, "child-observe-panic"
		}
		res.Cmp()
		if ge, ee := vtsEntriesString(ce), vtsEntriesString(st.children[n]); ge != ee {
			return "child-entries", fmt.Sprintf("child %x: %s", n, ee), ge, "child-entries"
		}
		res.Cmp()
		if !bytes.Equal(ch.ToBytes(), st.croots[n]) {
			return "child-root", fmt.Sprintf("child %x: %x", n, st.croots[n]), ch.String(), "child-root"
		}
	}
	return "", "", "", ""
}

func TestVerifTrieChildStore(t *testing.T) {
	res := vNewResult(vEnvStr("VERIF_PROP", "C04"))
	defer res.Write(t)
	behs := vLoad(t, vIn(t, "childbeh.txt"))
	res.Behaviours = len(behs)
	for _, b := range behs {
		steps := make([]vcsStep, len(b.Steps))
		for i, raw := range b.Steps {
			if err := json.Unmarshal(raw, &steps[i]); err != nil {
				t.Fatalf("VERIF-INFRA step json: %v", err)
			}
		}
		if len(steps) == 0 {
			continue
		}
		if b.ID < 1 {
			res.Sample(b.Steps)
		}
		mainP, childP := vcsProbes(steps)
		pdb, err := database.NewPebble("", true)
		if err != nil {
			t.Fatalf("VERIF-INFRA pebble: %v", err)
		}
		table := database.NewTable(pdb, "storage")
		v1 := steps[0].Obs.V1
		tr := NewTrie(nil, table)
		if v1 {
			tr.SetVersion(trie.V1)
		}
		lastRoot := trie.EmptyHash
		// C03 with child tries: a SIBLING snapshot of the same parent receives the same operations just before the working
		// trie does (two blocks built on one parent that happen to make the same writes); both must show the specification's
		// state after every step -- neither may see, lose or corrupt anything through the other
		var sib *InMemoryTrie
		type persistedState struct {
			root common.Hash
			st   vcsState
		}
		var persisted []persistedState
		prev := vcsStateOf(nil, nil, v1) // the specification's working state before the step
		brokenCommit := false // the committed state cannot be Load()ed by the real code (recorded); Reopen follows the specification
		var prefix []json.RawMessage
		for si, s := range steps {
			prefix = append(prefix, b.Steps[si])
			o := s.O
			k, v, c := o.K.Bytes(), o.V.Bytes(), o.C.Bytes()
			if v == nil {
				v = []byte{}
			}
			work := vcsStateOf(s.Obs.Entries, s.Obs.Children, v1)
			comm := vcsStateOf(s.Obs.CEntries, s.Obs.CChildren, v1)
			failed := false
			soft := false
			fail := func(owner, field, exp, got, sig string) {
				res.Fail(b.ID, si, o.Op, field, exp, got, owner+"/"+sig, prefix)
				if owner == "C04" && !soft {
					failed = true
				}
			}
			res.Case(o.Op, fmt.Sprintf("%x|%x|%d|%d|%d|%v", c, k, len(v), len(work.main), len(work.children), v1))

			getFromDB := func(r common.Hash, m map[string][]byte, probe [][]byte, who, what string) {
				for _, pk := range probe {
					var gv []byte
					var gerr error
					pm := vTry(func() { gv, gerr = GetFromDB(table, r, pk) })
					res.Cmp()
					exp, present := m[string(pk)]
					var fs []string
					if len(pk) == 0 {
						fs = append(fs, "empty-key")
					}
					fs = append(fs, vtsPathFeatures(pk, m, v1)...)
					if present && v1 && len(exp) > 32 {
						fs = append(fs, "hashed-value")
					}
					if present && len(exp) == 0 {
						fs = append(fs, "empty-value")
					}
					if present && what == "GetFromDB" && bytes.HasPrefix(pk, ChildStorageKeyPrefix) {
						fs = append(fs, "child-pointer")
					}
					kc := "plain"
					if len(fs) > 0 {
						kc = strings.Join(fs, "+")
					}
					switch {
					case pm != "":
						fail("C04", "panic", fmt.Sprintf("no panic key=%x", pk), pm, who+"/"+what+"/"+kc+"/panic")
					case gerr != nil:
						fail("C04", "err", fmt.Sprintf("nil key=%x", pk), gerr.Error(), who+"/"+what+"/"+kc+"/error")
					case present != (gv != nil):
						kind := "absent-key-read-as-present"
						if present {
							kind = "present-key-read-as-absent"
						}
						fail("C04", "found", fmt.Sprintf("%v key=%x", present, pk), fmt.Sprintf("%v (%x)", gv != nil, gv), who+"/"+what+"/"+kc+"/"+kind)
					case present && !bytes.Equal(gv, exp):
						fail("C04", "value", fmt.Sprintf("key=%x %x", pk, exp), vHex(gv), who+"/"+what+"/"+kc+"/wrong-value")
					}
				}
			}

			// readBack: the state st committed under root r must be readable from the table
			readBack := func(r common.Hash, st vcsState, who string) {
				cls := st.class()
				fresh := NewTrie(nil, table)
				var lerr error
				if pm := vTry(func() { lerr = fresh.Load(table, r) }); pm != "" {
					fail("C04", "panic", "no panic", pm, who+"/Load/"+cls+"/panic")
					return
				}
				if lerr != nil {
					fail("C04", "err", "nil", lerr.Error(), who+"/Load/"+cls+"/error")
					return
				}
				if field, exp, got, fc := vcsCompareTrie(res, fresh, st); field != "" {
					fail("C04", field, exp, got, who+"/Load/"+cls+"/"+fc)
					return
				}
				var lr common.Hash
				var kids map[common.Hash]trie.Trie
				if pm := vTry(func() { lr = fresh.MustHash(); kids = fresh.GetChildTries() }); pm != "" {
					fail("C04", "panic", "no panic", pm, who+"/Load/"+cls+"/observe-panic")
					return
				}
				res.Cmp()
				if lr != r {
					fail("C04", "root", r.String(), lr.String(), who+"/Load/"+cls+"/root-after-reload")
					return
				}
				want := map[common.Hash]struct{}{}
				for _, cr := range st.croots {
					want[common.BytesToHash(cr)] = struct{}{}
				}
				res.Cmp()
				if len(kids) != len(want) {
					fail("C04", "child-set", fmt.Sprintf("%d distinct child tries", len(want)), fmt.Sprintf("%d", len(kids)), who+"/Load/"+cls+"/child-set")
					return
				}
				for h := range want {
					if _, ok := kids[h]; !ok {
						fail("C04", "child-set", "child trie "+h.String(), "missing", who+"/Load/"+cls+"/child-set")
						return
					}
				}
				soft = true
				defer func() { soft = false }()
				getFromDB(r, st.main, mainP, who, "GetFromDB")
				for _, n := range st.names() {
					getFromDB(common.BytesToHash(st.croots[n]), st.children[n], childP, who, "GetFromDB-child-root")
				}
			}

			// mutate applies a state-changing operation to a trie; an error for a child that does not
			// exist is not the property's business
			mutate := func(x *InMemoryTrie) error {
				switch o.Op {
				case "Put":
					return x.Put(k, v)
				case "Delete":
					return x.Delete(k)
				case "PutChild":
					return x.PutIntoChild(c, k, v)
				case "ClearChild":
					if err := x.ClearFromChild(c, k); err != nil {
						if _, ok := prev.children[string(c)]; ok {
							return err
						}
					}
				case "SetChild":
					child, err := vcsNewChild(vtsMap(o.E), v1)
					if err != nil {
						return err
					}
					return x.SetChild(c, child)
				case "DeleteChild":
					return x.DeleteChild(c)
				}
				return nil
			}
			// owner of a disagreement of the working trie after a mutation: the same operation is applied to
			// a trie built IN MEMORY from the specification's pre-state; if that one disagrees as well the
			// in-memory trie / child API is at fault (C02 / C08: e.g. two child tries with equal contents share
			// one entry of InMemoryTrie.childTries), otherwise the state that came through the database is
			mutationOwner := func() string {
				foreign := "C02"
				if o.Op != "Put" && o.Op != "Delete" {
					foreign = "C08"
				}
				owner := "C04"
				if pm := vTry(func() {
					ref, err := vcsBuild(prev, table)
					if err != nil || mutate(ref) != nil {
						owner = foreign
						return
					}
					if field, _, _, _ := vcsCompareTrie(res, ref, work); field != "" {
						owner = foreign
					}
				}); pm != "" {
					owner = foreign
				}
				return owner
			}

			pm := vTry(func() {
				switch o.Op {
				case "Put", "Delete", "PutChild", "ClearChild", "SetChild", "DeleteChild":
					if sib != nil {
						if spm := vTry(func() { _ = mutate(sib) }); spm != "" {
							res.Fail(b.ID, si, o.Op, "panic", "no panic", spm, "C03/sibling-snapshots-same-writes/"+o.Op+"/panic", prefix)
							sib = nil
						}
					}
					if err := mutate(tr); err != nil {
						owner, sig := mutationOwner(), o.Op+"/error"
						if sib != nil && owner == "C04" && vEnvStr("VERIF_PROP", "C04") == "C03" {
							owner, sig = "C03", "sibling-snapshots-same-writes/"+o.Op+"/working-trie-disturbed/error"
						}
						fail(owner, "err", "nil", err.Error(), sig)
						failed = true
					}
				case "Commit":
					r, err := tr.Hash()
					if err != nil {
						fail("C04", "err", "nil", err.Error(), "Commit/hash-error")
						return
					}
					res.Cmp()
					if er := s.Obs.CRoot.Bytes(); !bytes.Equal(er, r.ToBytes()) {
						// the in-memory root is C01's business; the replay is desynchronised all the same
						fail("C01", "root", vHex(er), r.String(), "Commit/self/root-with-children")
						failed = true
						return
					}
					if err := tr.WriteDirty(table); err != nil {
						fail("C04", "err", "nil", err.Error(), "Commit/WriteDirty/error")
						return
					}
					lastRoot = r
					brokenCommit = false
					readBack(r, comm, "latest")
					for i := len(persisted) - 1; i >= 0 && !failed; i-- {
						readBack(persisted[i].root, persisted[i].st, "earlier")
					}
					persisted = append(persisted, persistedState{r, comm})
					parentTrie := tr
					tr = parentTrie.Snapshot()
					sib = parentTrie.Snapshot()
				case "Reopen":
					if brokenCommit {
						// the committed state is one the real code could not read back (already recorded):
						// continue on the specification's state
						nt, err := vcsBuild(comm, table)
						if err != nil {
							panic(fmt.Sprintf("rebuild: %v", err))
						}
						tr = nt
						return
					}
					nt := NewTrie(nil, table)
					if err := nt.Load(table, lastRoot); err != nil {
						fail("C04", "err", "nil", err.Error(), "Reopen/Load/"+comm.class()+"/error")
						return
					}
					if v1 {
						nt.SetVersion(trie.V1)
					}
					tr = nt.Snapshot()
					sib = nt.Snapshot()
				default:
					t.Fatalf("VERIF-INFRA unknown op %q", o.Op)
				}
			})
			if pm != "" {
				if sib != nil && o.Op != "Commit" && o.Op != "Reopen" && vEnvStr("VERIF_PROP", "C04") == "C03" {
					fail("C03", "panic", "no panic", pm, "sibling-snapshots-same-writes/"+o.Op+"/working-trie-disturbed/panic")
					failed = true
				} else {
					fail("C04", "panic", "no panic", pm, o.Op+"/panic")
				}
			}
			if !failed {
				// the working trie (desynchronises the replay whoever owns the disagreement)
				if field, exp, got, fc := vcsCompareTrie(res, tr, work); field != "" {
					owner := "C04"
					if o.Op != "Reopen" && o.Op != "Commit" {
						owner = mutationOwner()
					}
					sig := o.Op + "/working/" + work.class() + "/" + fc
					if sib != nil && owner == "C04" && vEnvStr("VERIF_PROP", "C04") == "C03" {
						// a trie built in memory from the same pre-state takes the operation correctly; this one has a sibling
						// snapshot that just received the same write: under C03 the disturbance is the sibling's
						owner, sig = "C03", "sibling-snapshots-same-writes/"+o.Op+"/working-trie-disturbed/"+fc
					}
					fail(owner, field, exp, got, sig)
					failed = true
				}
			}
			if !failed && sib != nil {
				// the working trie agrees with the specification: so must the sibling that received the same writes
				if spm := vTry(func() {
					if field, exp, got, fc := vcsCompareTrie(res, sib, work); field != "" {
						res.Fail(b.ID, si, o.Op, "sibling "+field, exp, got, "C03/sibling-snapshots-same-writes/"+o.Op+"/"+work.class()+"/"+fc, prefix)
						sib = nil
					}
				}); spm != "" {
					res.Fail(b.ID, si, o.Op, "panic", "no panic", spm, "C03/sibling-snapshots-same-writes/"+o.Op+"/panic", prefix)
					sib = nil
				}
			}
			if failed {
				sib = nil
				// re-synchronise: new table holding the committed state, working trie rebuilt from the specification
				_ = pdb.Close()
				pdb, err = database.NewPebble("", true)
				if err != nil {
					t.Fatalf("VERIF-INFRA pebble: %v", err)
				}
				table = database.NewTable(pdb, "storage")
				persisted = nil
				abandon := ""
				resyncPanic := vTry(func() {
					ct, err := vcsBuild(comm, table)
					if err != nil {
						panic(fmt.Sprintf("resync build: %v", err))
					}
					lastRoot = ct.MustHash()
					if err := ct.WriteDirty(table); err != nil {
						panic(fmt.Sprintf("resync write: %v", err))
					}
					// can the real code read the committed state back at all?  If not, a later Reopen
					// follows the specification's state instead of the database.
					probe := NewTrie(nil, table)
					if err := probe.Load(table, lastRoot); err != nil {
						abandon = err.Error()
					}
					wt, err := vcsBuild(work, table)
					if err != nil {
						panic(fmt.Sprintf("resync build working: %v", err))
					}
					wt.generation = ct.generation + 1
					tr = wt
				})
				if resyncPanic != "" {
					res.Fail(b.ID, si, o.Op, "panic", "state rebuilt", resyncPanic, "C04/resync/panic", nil)
					break
				}
				if abandon != "" {
					brokenCommit = true
				}
			}
			prev = work
		}
		_ = pdb.Close()
	}
}
