//go:build verif

// Conformance harness for specs/TrieStore.tla, engine pkg/trie/inmemory + database (C04).
// Replays TLC-generated behaviours (Put / Delete / SetVersion / Commit / Reopen) as a CHAIN OF
// SNAPSHOTS: every Commit hashes the working trie, writes its dirty nodes to a pebble table
// (in-memory VFS) and continues on a Snapshot() of it, exactly as dot/state stores block states.
// After every Commit
//   - a fresh trie is Load()ed by root hash: root and entries must equal the committed state,
//   - GetFromDB(db, root, k) is compared for every probe key (present and absent),
//   - every root persisted EARLIER in the behaviour is loaded and read again (incremental writes).
// Reopen continues on a trie loaded from the database (clean nodes, lazily dirtied).

package inmemory

import (
	"bytes"
	"encoding/json"
	"fmt"
	"sort"
	"strings"
	"testing"

	"github.com/ChainSafe/gossamer/internal/database"
	"github.com/ChainSafe/gossamer/lib/common"
	"github.com/ChainSafe/gossamer/pkg/trie"
)

type vtsOp struct {
	Op    string `json:"op"`
	K     VB     `json:"k"`
	V     VB     `json:"v"`
	Prune bool   `json:"prune"`
}

type vtsObs struct {
	Root     VB      `json:"root"`
	V1       bool    `json:"v1"`
	Entries  [][2]VB `json:"entries"`
	CRoot    VB      `json:"croot"`
	CEntries [][2]VB `json:"centries"`
	NCommit  int     `json:"ncommit"`
}

type vtsStep struct {
	O   vtsOp  `json:"o"`
	Obs vtsObs `json:"obs"`
}

func vtsMap(es [][2]VB) map[string][]byte {
	m := map[string][]byte{}
	for _, e := range es {
		v := e[1].Bytes()
		if v == nil {
			v = []byte{}
		}
		m[string(e[0].Bytes())] = v
	}
	return m
}

func vtsProbe(steps []vtsStep) [][]byte {
	set := map[string]struct{}{}
	add := func(k []byte) { set[string(k)] = struct{}{} }
	for _, s := range steps {
		if s.O.Op == "Put" || s.O.Op == "Delete" {
			k := s.O.K.Bytes()
			add(k)
			add(append(append([]byte{}, k...), 0))
			if len(k) > 0 {
				add(k[:len(k)-1])
				f := append([]byte{}, k...)
				f[len(f)-1] ^= 0x01
				add(f)
				g := append([]byte{}, k...)
				g[len(g)-1] ^= 0x10
				add(g)
			}
		}
	}
	ks := make([]string, 0, len(set))
	for k := range set {
		ks = append(ks, k)
	}
	sort.Strings(ks)
	out := make([][]byte, len(ks))
	for i, k := range ks {
		out[i] = []byte(k)
	}
	return out
}

func vtsNibbles(k []byte) []byte {
	out := make([]byte, 0, 2*len(k))
	for _, b := range k {
		out = append(out, b>>4, b&0x0f)
	}
	return out
}

// vtsEncLen is the length of the node encoding of the sub-trie holding exactly the entries kv
// (nibble keys relative to the node), computed from the node grammar; used only to CLASSIFY
// inputs (is there an inlined branch on the path of a key), never as an oracle.
func vtsEncLen(kv map[string][]byte, v1 bool) (n int, isBranch bool) {
	hdr := func(pk int, max int) int {
		if pk < max {
			return 1
		}
		return 2 + (pk-max)/255
	}
	val := func(v []byte) int {
		if v1 && len(v) > 32 {
			return 32
		}
		switch {
		case len(v) < 64:
			return 1 + len(v)
		case len(v) < 16384:
			return 2 + len(v)
		}
		return 4 + len(v)
	}
	if len(kv) == 1 {
		for k, v := range kv {
			mx := 63
			if v1 && len(v) > 32 {
				mx = 31
			}
			return hdr(len(k), mx) + (len(k)+1)/2 + val(v), false
		}
	}
	// longest common prefix
	var ks []string
	for k := range kv {
		ks = append(ks, k)
	}
	sort.Strings(ks)
	a, b := ks[0], ks[len(ks)-1]
	l := 0
	for l < len(a) && l < len(b) && a[l] == b[l] {
		l++
	}
	mx := 63
	total := 0
	if v, ok := kv[a[:l]]; ok {
		if v1 && len(v) > 32 {
			mx = 15
		}
		total += val(v)
	}
	total += hdr(l, mx) + (l+1)/2 + 2
	subs := map[byte]map[string][]byte{}
	for k, v := range kv {
		if len(k) > l {
			c := k[l]
			if subs[c] == nil {
				subs[c] = map[string][]byte{}
			}
			subs[c][k[l+1:]] = v
		}
	}
	for _, sub := range subs {
		cl, _ := vtsEncLen(sub, v1)
		if cl < 32 {
			total += 1 + cl
		} else {
			total += 33
		}
	}
	return total, true
}

// vtsPathFeatures classifies the walk from the root towards key pk:
//   inlined-branch-on-path                 it passes through (or ends at) a branch node inlined in its parent
//   key-leaves-trie-inside-partial-key     at some branch the remaining key is neither the branch partial key
//                                          nor an extension of it (absent key ending / diverging inside it)
func vtsPathFeatures(pk []byte, m map[string][]byte, v1 bool) (fs []string) {
	if len(m) == 0 {
		return nil
	}
	kv := map[string][]byte{}
	for k, v := range m {
		kv[string(vtsNibbles([]byte(k)))] = v
	}
	rest := string(vtsNibbles(pk))
	root := true
	inl := false
	for {
		n, isBranch := vtsEncLen(kv, v1)
		if !root && isBranch && n < 32 && !inl {
			inl = true
			fs = append(fs, "inlined-branch-on-path")
		}
		if !isBranch {
			return fs
		}
		var ks []string
		for k := range kv {
			ks = append(ks, k)
		}
		sort.Strings(ks)
		a, b := ks[0], ks[len(ks)-1]
		l := 0
		for l < len(a) && l < len(b) && a[l] == b[l] {
			l++
		}
		if rest == a[:l] {
			return fs
		}
		if len(rest) <= l || rest[:l] != a[:l] {
			return append(fs, "key-leaves-trie-inside-partial-key")
		}
		c := rest[l]
		sub := map[string][]byte{}
		for k, v := range kv {
			if len(k) > l && k[l] == c {
				sub[k[l+1:]] = v
			}
		}
		if len(sub) == 0 {
			return fs
		}
		kv, rest, root = sub, rest[l+1:], false
	}
}

func vtsEntriesString(m map[string][]byte) string {
	var b bytes.Buffer
	for _, k := range vSortedKeys(m) {
		fmt.Fprintf(&b, "%x=%x;", k, m[k])
	}
	return b.String()
}

type vtsPersisted struct {
	root common.Hash
	m    map[string][]byte
	v1   bool
	step int
}

func TestVerifTrieStoreInMemory(t *testing.T) {
	prop := vEnvStr("VERIF_PROP", "C04")
	res := vNewResult(prop)
	defer res.Write(t)
	behs := vLoad(t, vIn(t, "behaviours.txt"))
	res.Behaviours = len(behs)
	for _, b := range behs {
		steps := make([]vtsStep, len(b.Steps))
		for i, raw := range b.Steps {
			if err := json.Unmarshal(raw, &steps[i]); err != nil {
				t.Fatalf("VERIF-INFRA step json: %v", err)
			}
		}
		if len(steps) == 0 {
			continue
		}
		if b.ID < 2 {
			res.Sample(b.Steps)
		}
		probe := vtsProbe(steps)
		pdb, err := database.NewPebble("", true)
		if err != nil {
			t.Fatalf("VERIF-INFRA pebble: %v", err)
		}
		table := database.NewTable(pdb, "storage")
		tr := NewTrie(nil, table)
		if steps[0].Obs.V1 && steps[0].O.Op != "SetVersion" {
			tr.SetVersion(trie.V1)
		}
		lastRoot := trie.EmptyHash
		var persisted []vtsPersisted
		var prefix []json.RawMessage
		for si, s := range steps {
			prefix = append(prefix, b.Steps[si])
			o := s.O
			k, v := o.K.Bytes(), o.V.Bytes()
			if v == nil {
				v = []byte{}
			}
			work := vtsMap(s.Obs.Entries)
			comm := vtsMap(s.Obs.CEntries)
			failed := false
			soft := false // a wrong pure read (GetFromDB) does not desynchronise the replay
			fail := func(owner, field, exp, got, sig string) {
				res.Fail(b.ID, si, o.Op, field, exp, got, owner+"/"+sig, prefix)
				if owner == "C04" && !soft {
					failed = true
				}
			}
			res.Case(o.Op, fmt.Sprintf("%x|%d|%d|%v", k, len(v), len(work), s.Obs.V1))

			// readBack: state (root r, map m, version ver) must be readable from the table
			readBack := func(r common.Hash, m map[string][]byte, ver bool, who string) {
				fresh := NewTrie(nil, table)
				var lerr error
				pm := vTry(func() { lerr = fresh.Load(table, r) })
				cls := "v0"
				if ver {
					cls = "v1"
					for _, x := range m {
						if len(x) > 32 {
							cls = "v1-hashed-values"
						}
					}
				}
				if pm != "" {
					fail("C04", "panic", "no panic", pm, who+"/Load/"+cls+"/panic")
					return
				}
				if lerr != nil {
					fail("C04", "err", "nil", lerr.Error(), who+"/Load/"+cls+"/error")
					return
				}
				var got map[string][]byte
				var lr common.Hash
				pm = vTry(func() { got = fresh.Entries(); lr = fresh.MustHash() })
				if pm != "" {
					fail("C04", "panic", "no panic", pm, who+"/Load/"+cls+"/observe-panic")
					return
				}
				res.Cmp()
				if ge, ee := vtsEntriesString(got), vtsEntriesString(m); ge != ee {
					fail("C04", "entries", ee, ge, who+"/Load/"+cls+"/entries")
					return
				}
				res.Cmp()
				if lr != r {
					fail("C04", "root", r.String(), lr.String(), who+"/Load/"+cls+"/root-after-reload")
					return
				}
				soft = true
				defer func() { soft = false }()
				for _, pk := range probe {
					var gv []byte
					var gerr error
					pm := vTry(func() { gv, gerr = GetFromDB(table, r, pk) })
					res.Cmp()
					exp, present := m[string(pk)]
					var fs []string
					if len(pk) == 0 {
						fs = append(fs, "empty-key")
					}
					fs = append(fs, vtsPathFeatures(pk, m, ver)...)
					if present && ver && len(exp) > 32 {
						fs = append(fs, "hashed-value")
					}
					if present && len(exp) == 0 {
						fs = append(fs, "empty-value")
					}
					kc := "plain"
					if len(fs) > 0 {
						kc = strings.Join(fs, "+")
					}
					if pm != "" {
						fail("C04", "panic", fmt.Sprintf("no panic key=%x", pk), pm, who+"/GetFromDB/"+kc+"/panic")
						continue
					}
					if gerr != nil {
						fail("C04", "err", fmt.Sprintf("nil key=%x", pk), gerr.Error(), who+"/GetFromDB/"+kc+"/error")
						continue
					}
					if present != (gv != nil) {
						kind := "absent-key-read-as-present"
						if present {
							kind = "present-key-read-as-absent"
						}
						fail("C04", "found", fmt.Sprintf("%v key=%x", present, pk), fmt.Sprintf("%v (%x)", gv != nil, gv), who+"/GetFromDB/"+kc+"/"+kind)
						continue
					}
					if present && !bytes.Equal(gv, exp) {
						fail("C04", "value", fmt.Sprintf("key=%x %x", pk, exp), vHex(gv), who+"/GetFromDB/"+kc+"/wrong-value")
						continue
					}
				}
			}

			pm := vTry(func() {
				switch o.Op {
				case "Put":
					if err := tr.Put(k, v); err != nil {
						fail("C04", "err", "nil", err.Error(), "Put/error")
					}
				case "Delete":
					if err := tr.Delete(k); err != nil {
						fail("C04", "err", "nil", err.Error(), "Delete/error")
					}
				case "SetVersion":
					tr.SetVersion(trie.V1)
				case "Commit":
					r, err := tr.Hash()
					if err != nil {
						fail("C04", "err", "nil", err.Error(), "Commit/hash-error")
						return
					}
					if len(s.Obs.CRoot) > 0 {
						res.Cmp()
						if er := s.Obs.CRoot.Bytes(); !bytes.Equal(er, r.ToBytes()) {
							// the in-memory root is C01's business
							fail("C01", "root", vHex(er), r.String(), "Commit/self/root")
						}
					}
					if err := tr.WriteDirty(table); err != nil {
						fail("C04", "err", "nil", err.Error(), "Commit/WriteDirty/error")
						return
					}
					lastRoot = r
					readBack(r, comm, s.Obs.V1, "latest")
					// incremental writes: every earlier state is still readable by its root
					for i := len(persisted) - 1; i >= 0 && !failed; i-- {
						readBack(persisted[i].root, persisted[i].m, persisted[i].v1, "earlier")
					}
					persisted = append(persisted, vtsPersisted{r, comm, s.Obs.V1, si})
					tr = tr.Snapshot()
				case "Reopen":
					nt := NewTrie(nil, table)
					if err := nt.Load(table, lastRoot); err != nil {
						fail("C04", "err", "nil", err.Error(), "Reopen/Load/error")
						return
					}
					if s.Obs.V1 {
						nt.SetVersion(trie.V1)
					}
					tr = nt.Snapshot()
				default:
					t.Fatalf("VERIF-INFRA unknown op %q", o.Op)
				}
			})
			if pm != "" {
				fail("C04", "panic", "no panic", pm, o.Op+"/panic")
			}
			if !failed {
				// the working trie itself (C02's business, compared to keep the replay honest)
				var got map[string][]byte
				if pm := vTry(func() { got = tr.Entries() }); pm != "" {
					fail("C04", "panic", "no panic", pm, o.Op+"/working/observe-panic")
				} else if ge, ee := vtsEntriesString(got), vtsEntriesString(work); ge != ee {
					res.Cmp()
					owner := "C02"
					if o.Op == "Reopen" || o.Op == "Commit" {
						owner = "C04"
					}
					fail(owner, "entries", ee, ge, o.Op+"/working/entries")
					failed = true
				}
			}
			if failed {
				// re-synchronise: new table holding the committed state, working trie rebuilt from the spec
				_ = pdb.Close()
				pdb, err = database.NewPebble("", true)
				if err != nil {
					t.Fatalf("VERIF-INFRA pebble: %v", err)
				}
				table = database.NewTable(pdb, "storage")
				persisted = nil
				resyncPanic := vTry(func() {
				ct := NewTrie(nil, table)
				if s.Obs.V1 {
					ct.SetVersion(trie.V1)
				}
				for _, key := range vSortedKeys(comm) {
					if err := ct.Put([]byte(key), comm[key]); err != nil {
						panic(fmt.Sprintf("resync put: %v", err))
					}
				}
				lastRoot = ct.MustHash()
				if err := ct.WriteDirty(table); err != nil {
					panic(fmt.Sprintf("resync write: %v", err))
				}
				tr = ct.Snapshot()
				for key := range comm {
					if _, ok := work[key]; !ok {
						_ = tr.Delete([]byte(key))
					}
				}
				for _, key := range vSortedKeys(work) {
					if cv, ok := comm[key]; !ok || !bytes.Equal(cv, work[key]) {
						_ = tr.Put([]byte(key), work[key])
					}
				}
				})
				if resyncPanic != "" {
					// the real code cannot even rebuild the specification's state: the disagreement
					// that led here is already recorded; the rest of this behaviour is abandoned
					res.Fail(b.ID, si, o.Op, "panic", "state rebuilt", resyncPanic, "C04/resync/panic", nil)
					break
				}
			}
		}
		_ = pdb.Close()
	}
}
