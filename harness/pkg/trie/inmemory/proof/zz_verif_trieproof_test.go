//go:build verif

// Conformance harness for specs/TrieProof.tla, package pkg/trie/inmemory/proof (C05).
// Every TLC-generated case is a state (entries, version), a key set, the specification's proof
// (ProofNodes) and adversarial supplies (honest proof, honest + foreign state's blobs, foreign blobs
// + root node, honest proof minus one blob) each with the verdict of VerifySpec for every
// (key, value) query; when the state stores values by hash, two more supplies carry the 32-byte DIGESTS of
// those values as proof items of their own, and every (key, digest of its value) pair is queried as well
// (the state holds the value, not its digest: reject).  The harness
//   1. persists the state with the real trie (WriteDirty to a pebble table), calls Generate(root, keys, db),
//      requires the generated set to contain ProofNodes and Verify to confirm every present (k, m[k]),
//   2. calls Verify(supply, root, k, v) for every supply and query: an acceptance of a pair that does not
//      hold in the state is a SOUNDNESS violation whatever the supply; a rejection where VerifySpec accepts
//      is a COMPLETENESS violation.

package proof_test

import (
	"bytes"
	"encoding/json"
	"fmt"
	"testing"

	"github.com/ChainSafe/gossamer/internal/database"
	"github.com/ChainSafe/gossamer/pkg/trie"
	"github.com/ChainSafe/gossamer/pkg/trie/inmemory"
	"github.com/ChainSafe/gossamer/pkg/trie/inmemory/proof"
)

type vtpQuery struct {
	K      VB   `json:"k"`
	V      VB   `json:"v"`
	Accept bool `json:"accept"`
	Holds  bool `json:"holds"`
}

type vtpSupply struct {
	Name    string     `json:"name"`
	Nodes   []VB       `json:"nodes"`
	Queries []vtpQuery `json:"queries"`
}

type vtpCase struct {
	Entries  [][2]VB     `json:"entries"`
	V1       bool        `json:"v1"`
	Keys     []VB        `json:"keys"`
	Root     VB          `json:"root"`
	Proof    []VB        `json:"proof"`
	Supplies []vtpSupply `json:"supplies"`
}

func vtpValueClass(m map[string][]byte, v1 bool, k, v []byte) string {
	mv, present := m[string(k)]
	switch {
	case len(m) == 0:
		return "empty-state"
	case present && v1 && len(mv) > 32:
		if len(v) == 0 {
			return "present-hashed-value/query-empty-value"
		}
		if bytes.Equal(v, vBlake(mv)) {
			// the 32-byte digest of the stored value offered as if it were the value
			// the node holding the value is a branch when another key extends k (the in-memory Get reads
			// leaf and branch values through different code)
			for o := range m {
				if len(o) > len(k) && o[:len(k)] == string(k) {
					return "present-hashed-value/query-value-digest/branch-node"
				}
			}
			return "present-hashed-value/query-value-digest/leaf-node"
		}
		return "present-hashed-value"
	case present && len(mv) == 0:
		return "present-empty-value"
	case present && len(v) == 0:
		return "present-key/query-empty-value"
	case present:
		return "present-key"
	case len(k) == 0:
		return "absent-empty-key"
	}
	return "absent-key"
}

func TestVerifTrieProof(t *testing.T) {
	prop := vEnvStr("VERIF_PROP", "C05")
	res := vNewResult(prop)
	defer res.Write(t)
	behs := vLoad(t, vIn(t, "cases.txt"))
	res.Behaviours = len(behs)
	supplyNames := []string{"honest", "honest+foreign-state", "foreign-state+root-node"}
	for _, b := range behs {
		for si, raw := range b.Steps {
			var c vtpCase
			if err := json.Unmarshal(raw, &c); err != nil {
				t.Fatalf("VERIF-INFRA case json: %v", err)
			}
			if len(res.Samples) < 2 {
				res.Sample(raw)
			}
			fail := func(op, field, exp, got, sig string) {
				res.Fail(b.ID, si, op, field, exp, got, "C05/"+sig, []json.RawMessage{raw})
			}
			m := map[string][]byte{}
			for _, e := range c.Entries {
				v := e[1].Bytes()
				if v == nil {
					v = []byte{}
				}
				m[string(e[0].Bytes())] = v
			}
			ver := "v0"
			if c.V1 {
				ver = "v1"
			}
			res.Case("case", fmt.Sprintf("%d|%v|%d|%x", len(m), c.V1, len(c.Keys), c.Root.Bytes()[:4]))
			root := c.Root.Bytes()

			// ---- 1. Generate on the persisted state
			pdb, err := database.NewPebble("", true)
			if err != nil {
				t.Fatalf("VERIF-INFRA pebble: %v", err)
			}
			table := database.NewTable(pdb, "storage")
			tr := inmemory.NewTrie(nil, table)
			if c.V1 {
				tr.SetVersion(trie.V1)
			}
			for _, k := range vSortedKeys(m) {
				if err := tr.Put([]byte(k), m[k]); err != nil {
					t.Fatalf("VERIF-INFRA put: %v", err)
				}
			}
			realRoot := tr.MustHash()
			if !bytes.Equal(realRoot.ToBytes(), root) {
				res.Fail(b.ID, si, "persist", "root", vHex(root), realRoot.String(), "C01/proof-setup/root", nil)
				_ = pdb.Close()
				continue
			}
			if err := tr.WriteDirty(table); err != nil {
				t.Fatalf("VERIF-INFRA write: %v", err)
			}
			var keys [][]byte
			anyAbsent, anyHashed := false, false
			for _, k := range c.Keys {
				kb := k.Bytes()
				keys = append(keys, kb)
				if mv, ok := m[string(kb)]; !ok {
					anyAbsent = true
				} else if c.V1 && len(mv) > 32 {
					anyHashed = true
				}
			}
			kc := "present-keys"
			if anyAbsent {
				kc = "key-set-with-absent-key"
			}
			if len(m) == 0 {
				kc = "empty-state"
			}
			var gen [][]byte
			var gerr error
			pm := vTry(func() { gen, gerr = proof.Generate(root, keys, table) })
			res.Cmp()
			switch {
			case pm != "":
				fail("Generate", "panic", "no panic", pm, "Generate/"+ver+"/"+kc+"/panic")
			case gerr != nil:
				fail("Generate", "err", "nil", gerr.Error(), "Generate/"+ver+"/"+kc+"/error")
			default:
				have := map[string]bool{}
				for _, g := range gen {
					have[string(g)] = true
				}
				for _, p := range c.Proof {
					pb := p.Bytes()
					res.Cmp()
					if !have[string(pb)] {
						isValue := false
						for _, mv := range m {
							if bytes.Equal(mv, pb) {
								isValue = true
							}
						}
						what := "node"
						if isValue {
							what = "hashed-value-blob"
						}
						fail("Generate", "proof", "contains "+vHex(pb), fmt.Sprintf("%d nodes without it", len(gen)), "Generate/"+ver+"/missing-"+what)
						break
					}
				}
				// the generated proof must let the verifier confirm every present requested value
				for _, kb := range keys {
					mv, ok := m[string(kb)]
					if !ok {
						continue
					}
					var verr error
					pm := vTry(func() { verr = proof.Verify(gen, root, kb, mv) })
					res.Cmp()
					cls := vtpValueClass(m, c.V1, kb, mv)
					if pm != "" {
						fail("Verify", "panic", "no panic", pm, "Generate+Verify/"+cls+"/panic")
					} else if verr != nil {
						fail("Verify", "accept", fmt.Sprintf("confirms key=%x", kb), verr.Error(), "Generate+Verify/"+cls+"/completeness-rejected")
					}
				}
			}
			_ = anyHashed
			_ = pdb.Close()

			// ---- 2. supplies from the model
			for i, sup := range c.Supplies {
				name := sup.Name
				if name == "" { // behaviours generated before supplies were named
					name = "honest-minus-one-blob"
					if i < len(supplyNames) {
						name = supplyNames[i]
					}
				}
				var nodes [][]byte
				for _, n := range sup.Nodes {
					nodes = append(nodes, n.Bytes())
				}
				for _, q := range sup.Queries {
					kb, vb := q.K.Bytes(), q.V.Bytes()
					if vb == nil {
						vb = []byte{}
					}
					var verr error
					pm := vTry(func() { verr = proof.Verify(nodes, root, kb, vb) })
					res.Cmp()
					res.Case("Verify", "")
					cls := vtpValueClass(m, c.V1, kb, vb)
					switch {
					case pm != "":
						fail("Verify", "panic", "no panic", pm, "Verify/"+name+"/"+cls+"/panic")
					case verr == nil && !q.Holds:
						fail("Verify", "reject", fmt.Sprintf("rejects key=%x value=%x (not in the state)", kb, vb), "accepted", "Verify/"+name+"/"+cls+"/soundness-accepted-absent-pair")
					case verr != nil && q.Accept:
						fail("Verify", "accept", fmt.Sprintf("confirms key=%x value=%x", kb, vb), verr.Error(), "Verify/"+name+"/"+cls+"/completeness-rejected")
					}
				}
			}
		}
	}
}
