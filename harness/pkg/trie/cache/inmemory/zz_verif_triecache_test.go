//go:build verif

// C35 through the trie node cache (pkg/trie/cache/inmemory/trie_cache.go): the sequential LRU behaviours of
// specs/LRU.tla are replayed on a TrieInMemoryCache whose node cache has the behaviour's capacity, the way a
// decoder or iterator uses it: ONE scratch buffer carries every key and is overwritten after each call (the
// cache must not keep a reference to the caller's key bytes).  Every GetNode result is compared with the
// specification; after the last step every key is looked up once more.
package inmemory

import (
	"encoding/json"
	"fmt"
	"testing"

	lrucache "github.com/ChainSafe/gossamer/lib/utils/lru-cache"
)

type vtcStep struct {
	O struct {
		Op string `json:"op"`
		K  int    `json:"k"`
		V  int    `json:"v"`
	} `json:"o"`
	Res int `json:"res"`
	Obs struct {
		Order []int `json:"order"`
		Vals  []int `json:"vals"`
	} `json:"obs"`
}

func TestVerifTrieCache(t *testing.T) {
	res := vNewResult(vEnvStr("VERIF_PROP", "C35"))
	defer res.Write(t)
	behs := vLoad(t, vIn(t, "behaviours.txt"))
	res.Behaviours = len(behs)
	scratch := make([]byte, 3)
	key := func(k int) []byte {
		scratch[0], scratch[1], scratch[2] = 0x6b, byte(k), byte(k>>8)
		return scratch
	}
	smudge := func() { scratch[0], scratch[1], scratch[2] = 0xff, 0xff, 0xff }
	val := func(b []byte) int {
		if len(b) == 0 {
			return 0
		}
		return int(b[0])
	}
	for _, b := range behs {
		var hdr struct {
			Cap   uint              `json:"cap"`
			Steps []json.RawMessage `json:"steps"`
		}
		if err := json.Unmarshal(b.Raw, &hdr); err != nil {
			t.Fatalf("VERIF-INFRA %v", err)
		}
		tc := NewTrieInMemoryCache()
		tc.nodeCache = lrucache.NewLRUCache[string, []byte](hdr.Cap)
		if b.ID == 0 {
			res.Sample(json.RawMessage(b.Raw))
		}
		var last vtcStep
		failed := false
		for si, raw := range hdr.Steps {
			var s vtcStep
			if err := json.Unmarshal(raw, &s); err != nil {
				t.Fatalf("VERIF-INFRA %v", err)
			}
			last = s
			res.Case("node-"+s.O.Op, fmt.Sprintf("%d|%d|%d", hdr.Cap, s.O.K, len(s.Obs.Order)))
			got := 0
			pm := vTry(func() {
				if s.O.Op == "Get" {
					got = val(tc.GetNode(key(s.O.K)))
				} else {
					tc.SetNode(key(s.O.K), []byte{byte(s.O.V)})
				}
				smudge()
			})
			res.Cmp()
			if pm != "" {
				res.Fail(b.ID, si, s.O.Op, "panic", "none", pm, "C35/triecache/"+s.O.Op+"/panic", map[string]any{"cap": hdr.Cap, "steps": hdr.Steps[:si+1]})
				failed = true
				break
			}
			if s.O.Op == "Get" && got != s.Res {
				res.Fail(b.ID, si, s.O.Op, "result", fmt.Sprint(s.Res), fmt.Sprint(got), "C35/triecache/GetNode/result", map[string]any{"cap": hdr.Cap, "steps": hdr.Steps[:si+1]})
				failed = true
				break
			}
		}
		if failed || len(hdr.Steps) == 0 {
			continue
		}
		// final content: the keys the specification holds, least recently used first (so that no look-up evicts another)
		want := map[int]int{}
		for i, k := range last.Obs.Order {
			want[k] = last.Obs.Vals[i]
		}
		for k := 1; k <= 12; k++ {
			got := val(tc.GetNode(key(k)))
			smudge()
			res.Cmp()
			if got != want[k] {
				res.Fail(b.ID, len(hdr.Steps), "Get", "final content", fmt.Sprint(want), fmt.Sprintf("key %d -> %d", k, got), "C35/triecache/final-content", map[string]any{"cap": hdr.Cap, "steps": hdr.Steps})
				break
			}
		}
	}
}
