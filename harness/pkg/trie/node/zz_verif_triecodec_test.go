//go:build verif

// Conformance harness for specs/TrieCodec.tla / TrieCodec_Gen.tla, package pkg/trie/node (C07).
//   rt   abstract node -> node.Node -> Encode must equal EncN(node); Decode(EncN(node)) must project back to the node
//   hdr  partial keys up to 65535 nibbles: header bytes must equal HeaderFor, Decode must return the key
//   dec  byte strings (truncations, substitutions, odd inlined children, length overflows): Decode returns a node or
//        an error, never panics or hangs; when the string IS the encoding of a node it must decode to that node
// plus seeded random mutations of every encoding (no oracle needed: no panic, no hang).

package node

import (
	"bytes"
	"encoding/json"
	"fmt"
	"math/rand"
	"testing"
	"time"
)

type vtcVal struct {
	T string `json:"t"`
	B VB     `json:"b"`
}

type vtcNode struct {
	Kind string   `json:"kind"`
	Pk   []int    `json:"pk"`
	Val  vtcVal   `json:"val"`
	Kids []vtcVal `json:"kids"`
}

type vtcCase struct {
	T     string  `json:"t"`
	Node  vtcNode `json:"node"`
	Enc   json.RawMessage `json:"enc"`
	S     VB      `json:"s"`
	Kind  string  `json:"kind"`
	ValT  string  `json:"valT"`
	PkLen int     `json:"pkLen"`
	Fill  int     `json:"fill"`
	Hdr   VB      `json:"hdr"`
}

// vtcPreimage returns the bytes inside a hash token <<-1, n, ...>> (resolved), or nil.
func vtcPreimage(b VB) []byte {
	if len(b) >= 2 && b[0] == -1 {
		return VB(b[2 : 2+b[1]]).Bytes()
	}
	return nil
}

func vtcPk(pk []int) []byte {
	out := make([]byte, len(pk))
	for i, x := range pk {
		out[i] = byte(x)
	}
	return out
}

// vtcBuild makes the node.Node for an abstract node; ok=false when the node cannot be expressed
// (a hashed value given only by its hash has no preimage to hand to Encode).
func vtcBuild(a vtcNode) (n *Node, ok bool) {
	if a.Kind == "empty" {
		return nil, true
	}
	n = &Node{PartialKey: vtcPk(a.Pk), Dirty: true}
	switch a.Val.T {
	case "inline":
		n.StorageValue = a.Val.B.Bytes()
		if n.StorageValue == nil {
			n.StorageValue = []byte{}
		}
	case "hashed":
		pre := vtcPreimage(a.Val.B)
		if pre == nil {
			return nil, false
		}
		n.StorageValue = pre
		n.MustBeHashed = true
	}
	if a.Kind == "branch" {
		n.Children = make([]*Node, ChildrenCapacity)
		for i, k := range a.Kids {
			switch k.T {
			case "inline", "hash":
				// a clean child whose Merkle value is known: the inlined encoding or the hash
				n.Children[i] = &Node{MerkleValue: k.B.Bytes()}
			}
		}
	}
	return n, true
}

// vtcProject maps a decoded node.Node back to the abstract node (as a comparable string).
func vtcProject(n *Node) string {
	if n == nil {
		return "empty"
	}
	var b bytes.Buffer
	kind := "leaf"
	if n.Kind() == Branch {
		kind = "branch"
	}
	fmt.Fprintf(&b, "%s pk=%x ", kind, n.PartialKey)
	switch {
	case n.IsHashedValue:
		fmt.Fprintf(&b, "val=hashed:%x", n.StorageValue)
	case n.StorageValue != nil || kind == "leaf":
		fmt.Fprintf(&b, "val=inline:%x", n.StorageValue)
	default:
		b.WriteString("val=none")
	}
	if kind == "branch" {
		for i, c := range n.Children {
			if c == nil {
				continue
			}
			if len(c.MerkleValue) >= 32 {
				fmt.Fprintf(&b, " %d=hash:%x", i, c.MerkleValue)
				continue
			}
			// inlined child: decoded in place; its bytes are its encoding
			eb := bytes.NewBuffer(nil)
			c2 := *c
			c2.Dirty = true
			if c2.IsHashedValue {
				fmt.Fprintf(&b, " %d=inline:<hashed-value-child>", i)
				continue
			}
			if err := c2.Encode(eb); err != nil {
				fmt.Fprintf(&b, " %d=inline:<encode error %v>", i, err)
				continue
			}
			fmt.Fprintf(&b, " %d=inline:%x", i, eb.Bytes())
		}
	}
	return b.String()
}

func vtcExpect(a vtcNode) string {
	if a.Kind == "empty" {
		return "empty"
	}
	var b bytes.Buffer
	fmt.Fprintf(&b, "%s pk=%x ", a.Kind, vtcPk(a.Pk))
	switch a.Val.T {
	case "hashed":
		fmt.Fprintf(&b, "val=hashed:%x", a.Val.B.Bytes())
	case "inline":
		fmt.Fprintf(&b, "val=inline:%x", a.Val.B.Bytes())
	default:
		b.WriteString("val=none")
	}
	if a.Kind == "branch" {
		for i, k := range a.Kids {
			switch k.T {
			case "hash":
				fmt.Fprintf(&b, " %d=hash:%x", i, k.B.Bytes())
			case "inline":
				fmt.Fprintf(&b, " %d=inline:%x", i, k.B.Bytes())
			}
		}
	}
	return b.String()
}

// vtcHeaderClass names the header class of a byte string (for signatures).
func vtcHeaderClass(s []byte) string {
	if len(s) == 0 {
		return "empty-input"
	}
	h := s[0]
	switch {
	case h == 0:
		return "header-empty-node"
	case h == 1:
		return "header-0x01-compact-variant"
	case h < 16:
		return "header-reserved"
	case h < 32:
		return "header-branch-hashed-value"
	case h < 64:
		return "header-leaf-hashed-value"
	case h < 128:
		return "header-leaf"
	case h < 192:
		return "header-branch"
	}
	return "header-branch-with-value"
}


// vtcMaxLenPrefix walks s along the node grammar and returns the largest SCALE length prefix a decoder
// would meet (value length, child lengths).  The SCALE byte-slice decoder allocates the announced length
// before reading (C12's subject); strings announcing more than 64 KiB are left to C12 so that this
// harness does not spend its budget allocating gigabytes.
func vtcMaxLenPrefix(s []byte) (max uint64) {
	pos := 0
	rd := func() (byte, bool) {
		if pos >= len(s) {
			return 0, false
		}
		pos++
		return s[pos-1], true
	}
	compact := func() (uint64, bool) {
		b, ok := rd()
		if !ok {
			return 0, false
		}
		switch b & 3 {
		case 0:
			return uint64(b >> 2), true
		case 1:
			c, ok := rd()
			if !ok {
				return 0, false
			}
			return uint64(b>>2) | uint64(c)<<6, true
		case 2:
			v := uint64(b >> 2)
			for i := 0; i < 3; i++ {
				c, ok := rd()
				if !ok {
					return 0, false
				}
				v |= uint64(c) << (6 + 8*uint(i))
			}
			return v, true
		}
		return 1 << 62, true
	}
	h, ok := rd()
	if !ok || h < 16 {
		return 0
	}
	var mask byte
	branch, inlineVal := false, false
	switch {
	case h < 32:
		mask, branch = 15, true
	case h < 64:
		mask = 31
	case h < 128:
		mask, inlineVal = 63, true
	case h < 192:
		mask, branch = 63, true
	default:
		mask, branch, inlineVal = 63, true, true
	}
	pk := int(h & mask)
	if h&mask == mask {
		for {
			c, ok := rd()
			if !ok {
				return 0
			}
			pk += int(c)
			if c < 255 || pk > 70000 {
				break
			}
		}
	}
	pos += (pk + 1) / 2
	var bm [2]byte
	if branch {
		for i := range bm {
			c, ok := rd()
			if !ok {
				return max
			}
			bm[i] = c
		}
	}
	take := func() bool {
		v, ok := compact()
		if !ok {
			return false
		}
		if v > max {
			max = v
		}
		if v > 1<<20 {
			return false
		}
		pos += int(v)
		return true
	}
	if inlineVal {
		if !take() {
			return max
		}
	} else if !(branch && h >= 128) {
		pos += 32
	}
	if branch {
		for i := 0; i < 16; i++ {
			if bm[i/8]>>(uint(i)%8)&1 == 1 {
				start := pos
				if !take() {
					return max
				}
				// an inlined child is decoded recursively by the in-memory decoder
				if n := pos - start; n > 1 && n <= 33 && pos <= len(s) {
					cs := s[start:pos]
					skip := 1
					if cs[0]&3 == 1 {
						skip = 2
					}
					if len(cs) > skip && len(cs)-skip < 32 {
						if m := vtcMaxLenPrefix(cs[skip:]); m > max {
							max = m
						}
					}
				}
			}
		}
	}
	return max
}

const vtcMaxAnnounced = 1 << 16

func vtcDecodeGuarded(s []byte) (n *Node, err error, pm string, hung bool) {
	pm, hung = vGuard(5*time.Second, func() { n, err = Decode(bytes.NewReader(s)) })
	return
}

func TestVerifTrieCodecNode(t *testing.T) {
	prop := vEnvStr("VERIF_PROP", "C07")
	res := vNewResult(prop)
	defer res.Write(t)
	behs := vLoad(t, vIn(t, "cases.txt"))
	res.Behaviours = len(behs)
	rng := rand.New(rand.NewSource(vSeed()))
	nmut := 8
	if vThorough() {
		nmut = 400
	}
	randomMut := 0
	skipped := 0
	var encs [][]byte
	for _, b := range behs {
		for si, raw := range b.Steps {
			var c vtcCase
			if err := json.Unmarshal(raw, &c); err != nil {
				t.Fatalf("VERIF-INFRA case json: %v", err)
			}
			fail := func(field, exp, got, sig string) {
				res.Fail(b.ID, si, c.T, field, exp, got, "C07/node/"+sig, []json.RawMessage{raw})
			}
			switch c.T {
			case "rt":
				var encVB VB
				_ = json.Unmarshal(c.Enc, &encVB)
				enc := encVB.Bytes()
				encs = append(encs, enc)
				res.Case("rt", fmt.Sprintf("%s|%d|%s|%x", c.Node.Kind, len(c.Node.Pk), c.Node.Val.T, len(enc)))
				if len(res.Samples) < 2 {
					res.Sample(raw)
				}
				cls := c.Node.Kind + "/" + c.Node.Val.T + "-value"
				if n, ok := vtcBuild(c.Node); ok {
					buf := bytes.NewBuffer(nil)
					var eerr error
					if pm := vTry(func() { eerr = n.Encode(buf) }); pm != "" {
						fail("panic", "no panic", pm, "Encode/"+cls+"/panic")
					} else if eerr != nil {
						fail("err", "nil", eerr.Error(), "Encode/"+cls+"/error")
					} else {
						res.Cmp()
						if !bytes.Equal(buf.Bytes(), enc) {
							fail("encoding", vHex(enc), vHex(buf.Bytes()), "Encode/"+cls+"/bytes")
						}
					}
					// a node WITHOUT a value may carry a stale "value must be hashed" flag (the in-memory
					// trie leaves it set after deleting a long V1 value from a branch): the flag says
					// nothing about a node that has no value, the encoding must be the same
					if n != nil && n.StorageValue == nil && n.Kind() == Branch {
						n.MustBeHashed = true
						buf2 := bytes.NewBuffer(nil)
						var e2 error
						if pm := vTry(func() { e2 = n.Encode(buf2) }); pm != "" || e2 != nil {
							fail("encode", "ok", fmt.Sprint(pm, e2), "Encode/"+cls+"/stale-hashed-flag/failure")
						} else if !bytes.Equal(buf2.Bytes(), enc) {
							fail("encoding", vHex(enc), vHex(buf2.Bytes()), "Encode/"+cls+"/stale-hashed-flag/bytes")
						}
						n.MustBeHashed = false
					}
				}
				n, err, pm, hung := vtcDecodeGuarded(enc)
				res.Cmp()
				switch {
				case hung:
					fail("hang", "returns", "no return in 5s", "Decode/"+cls+"/hang")
				case pm != "":
					fail("panic", "no panic", pm, "Decode/"+cls+"/panic")
				case err != nil:
					fail("err", "nil", err.Error(), "Decode/"+cls+"/error-on-valid-encoding")
				default:
					var got string
					if pm := vTry(func() { got = vtcProject(n) }); pm != "" {
						fail("panic", "no panic", pm, "Decode/"+cls+"/project-panic")
					} else if exp := vtcExpect(c.Node); got != exp {
						vc := "node"
						if c.Node.Val.T == "inline" && len(c.Node.Val.B) == 0 {
							vc = "empty-value/node"
						}
						fail("node", exp, got, "Decode/"+cls+"/"+vc)
					}
				}
			case "hdr":
				res.Case("hdr", fmt.Sprintf("%s|%s|%d", c.Kind, c.ValT, c.PkLen))
				pk := bytes.Repeat([]byte{byte(c.Fill)}, c.PkLen)
				n := &Node{PartialKey: pk, Dirty: true}
				switch c.ValT {
				case "inline":
					n.StorageValue = []byte{9}
				case "hashed":
					n.StorageValue = bytes.Repeat([]byte{9}, 40)
					n.MustBeHashed = true
				}
				if c.Kind == "branch" {
					n.Children = make([]*Node, ChildrenCapacity)
					n.Children[2] = &Node{MerkleValue: []byte{0x41, 0x01, 0x04, 0x07}}
				}
				lc := "pklen-le-318"
				if c.PkLen > 318 {
					lc = "pklen-gt-318"
				}
				cls := c.Kind + "/" + c.ValT + "-value/" + lc
				buf := bytes.NewBuffer(nil)
				var eerr error
				if pm := vTry(func() { eerr = n.Encode(buf) }); pm != "" || eerr != nil {
					fail("encode", "ok", fmt.Sprint(pm, eerr), "Encode/"+cls+"/failure")
					continue
				}
				enc := buf.Bytes()
				hdr := c.Hdr.Bytes()
				res.Cmp()
				if len(enc) < len(hdr) || !bytes.Equal(enc[:len(hdr)], hdr) {
					m := len(hdr) + 2
					if m > len(enc) {
						m = len(enc)
					}
					fail("header", vHex(hdr), vHex(enc[:m]), "Encode/"+cls+"/header")
					continue
				}
				d, err, pm, hung := vtcDecodeGuarded(enc)
				res.Cmp()
				switch {
				case hung:
					fail("hang", "returns", "no return in 5s", "Decode/"+cls+"/hang")
				case pm != "":
					fail("panic", "no panic", pm, "Decode/"+cls+"/panic")
				case err != nil:
					fail("err", "nil", err.Error(), "Decode/"+cls+"/error-on-valid-encoding")
				case d == nil || !bytes.Equal(d.PartialKey, pk):
					got := "nil"
					if d != nil {
						got = fmt.Sprintf("len %d", len(d.PartialKey))
					}
					fail("pk", fmt.Sprintf("len %d", len(pk)), got, "Decode/"+cls+"/partial-key")
				case (d.Kind() == Branch) != (c.Kind == "branch") || d.IsHashedValue != (c.ValT == "hashed"):
					fail("kind", c.Kind+"/"+c.ValT, fmt.Sprintf("%v hashed=%v", d.Kind(), d.IsHashedValue), "Decode/"+cls+"/kind")
				}
			case "dec":
				var encFlag bool
				_ = json.Unmarshal(c.Enc, &encFlag)
				s := c.S.Bytes()
				hc := vtcHeaderClass(s)
				if vtcMaxLenPrefix(s) > vtcMaxAnnounced {
					skipped++
					continue
				}
				res.Case("dec", fmt.Sprintf("%s|%d|%v", hc, len(s), encFlag))
				n, err, pm, hung := vtcDecodeGuarded(s)
				res.Cmp()
				switch {
				case hung:
					fail("hang", "returns", "no return in 5s", "Decode/"+hc+"/hang")
				case pm != "":
					kind := "panic"
					if bytes.Contains([]byte(pm), []byte("nil pointer")) {
						kind = "panic-nil-dereference"
					} else if bytes.Contains([]byte(pm), []byte("not implemented for node variant")) {
						kind = "panic-not-implemented-variant"
					}
					fail("panic", fmt.Sprintf("node or error for %x", s), pm, "Decode/"+hc+"/"+kind)
				case encFlag && err != nil:
					fail("err", "nil", err.Error(), "Decode/"+hc+"/error-on-valid-encoding")
				case encFlag:
					var got string
					if pm := vTry(func() { got = vtcProject(n) }); pm != "" {
						fail("panic", "no panic", pm, "Decode/"+hc+"/project-panic")
					} else if exp := vtcExpect(c.Node); got != exp {
						vc := "node"
						if c.Node.Val.T == "inline" && len(c.Node.Val.B) == 0 {
							vc = "empty-value/node"
						}
						fail("node", exp, got, "Decode/"+hc+"/"+vc)
					}
				}
			default:
				t.Fatalf("VERIF-INFRA unknown case %q", c.T)
			}
		}
	}
	// seeded random mutations of valid encodings: the statement needs no oracle here
	for _, enc := range encs {
		for i := 0; i < nmut && len(enc) > 0; i++ {
			m := append([]byte{}, enc...)
			switch rng.Intn(4) {
			case 0:
				m = m[:rng.Intn(len(m)+1)]
			case 1:
				m[rng.Intn(len(m))] = byte(rng.Intn(256))
			case 2:
				p := rng.Intn(len(m))
				m[p] ^= 1 << uint(rng.Intn(8))
			default:
				p := rng.Intn(len(m))
				m = append(m[:p], append([]byte{byte(rng.Intn(256))}, m[p:]...)...)
			}
			if vtcMaxLenPrefix(m) > vtcMaxAnnounced {
				skipped++
				continue
			}
			randomMut++
			_, _, pm, hung := vtcDecodeGuarded(m)
			res.Cmp()
			hc := vtcHeaderClass(m)
			if hung {
				res.Fail(-1, i, "random", "hang", "returns", fmt.Sprintf("no return in 5s for %x", m), "C07/node/Decode/"+hc+"/hang", nil)
			} else if pm != "" {
				kind := "panic"
				if bytes.Contains([]byte(pm), []byte("nil pointer")) {
					kind = "panic-nil-dereference"
				} else if bytes.Contains([]byte(pm), []byte("not implemented for node variant")) {
					kind = "panic-not-implemented-variant"
				}
				res.Fail(-1, i, "random", "panic", fmt.Sprintf("node or error for %x", m), pm, "C07/node/Decode/"+hc+"/"+kind, []json.RawMessage{json.RawMessage(fmt.Sprintf(`{"t":"dec","s":%s,"enc":false}`, vJSON(vtcInts(m))))})
			}
		}
	}
	res.Extra["random_mutations_node"] = randomMut
	res.Extra["skipped_oversized_length_prefix_node"] = skipped
	res.Notes = append(res.Notes, fmt.Sprintf("pkg/trie/node: %d byte strings announcing a value/child length above 64 KiB were not fed to the decoder (allocation before read is C12's subject)", skipped))
}

func vtcInts(b []byte) []int {
	out := make([]int, len(b))
	for i, x := range b {
		out[i] = int(x)
	}
	return out
}
