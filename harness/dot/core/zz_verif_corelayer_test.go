//go:build verif

// The block-import layer of C23: this file is the dot/digest harness (zz_verif_digestlayer_test.go) with ONE difference,
// an Import goes through the real dot/core.(*Service).HandleBlockImport (handleBlock: StoreTrie, BlockState.AddBlock,
// BlockImportHandler.HandleDigests, GrandpaState.ApplyForcedChanges, in the order the service gives them) instead of the
// harness calling those three itself: the order in which the node tracks the announcements of a block and enacts the
// forced change that is due at it is the service's, not the harness's (seed C23e).
//
// Conformance harness for the header-digest layer of C23 (specs/lib/DigestLayerOps.tla on top of
// specs/AuthoritySet.tla).  The same TLC-generated behaviours that the dot/state harness replays on the bare
// GrandpaState are replayed here the way a node imports blocks: every Import carries the header digest
// ITEMS the specification drew for it (the announcement dressed in pause/resume/on-disabled/BABE items, a
// forced change with decoy scheduled changes before and after it) and goes through
//
//	BlockState.AddBlock, BlockImportHandler.HandleDigests, GrandpaState.ApplyForcedChanges     (dot/core.handleBlock)
//
// and every Finalise through BlockState.SetFinalisedHash and the real digest.Handler goroutine that listens to
// the finalisation channel and calls GrandpaState.ApplyScheduledChanges.  After each step the result class,
// the current set id, every set's authorities, NextGrandpaAuthorityChange for every live block and the number
// of BABE consensus items that reached the epoch state are compared with the specification.  The real state
// cannot be re-synchronised from outside its package: a behaviour ends at its first disagreement and at the
// first step the specification rejects (Substrate rolls the block back, gossamer keeps it).
package core

import (
	"encoding/json"
	"errors"
	"fmt"
	"strings"
	"sync"
	"testing"
	"time"

	"context"

	"github.com/ChainSafe/gossamer/dot/digest"
	"github.com/ChainSafe/gossamer/dot/state"
	"github.com/ChainSafe/gossamer/dot/types"
	"github.com/ChainSafe/gossamer/lib/runtime"
	rtstorage "github.com/ChainSafe/gossamer/lib/runtime/storage"
	inmemory_trie "github.com/ChainSafe/gossamer/pkg/trie/inmemory"
	"github.com/ChainSafe/gossamer/internal/database"
	"github.com/ChainSafe/gossamer/lib/common"
	"github.com/ChainSafe/gossamer/pkg/scale"
	"github.com/ChainSafe/gossamer/pkg/trie"
)

type vdlNoTelemetry struct{}

func (vdlNoTelemetry) SendMessage(json.Marshaler) {}

type vdlAnn struct {
	K string `json:"k"`
	D int    `json:"d"`
	A int    `json:"a"`
	M int    `json:"m"`
}

type vdlItem struct {
	T string `json:"t"`
	K string `json:"k"`
	D int    `json:"d"`
	A int    `json:"a"`
	M int    `json:"m"`
}

type vdlOp struct {
	Op string `json:"op"`
	P  int    `json:"p"`
	B  int    `json:"b"`
	A  vdlAnn `json:"a"`
}

type vdlObs struct {
	SetID  int      `json:"setId"`
	Auths  []int    `json:"auths"`
	Limits [][2]int `json:"limits"`
	Fin    int      `json:"fin"`
}

type vdlLay struct {
	Name  string    `json:"name"`
	Items []vdlItem `json:"items"`
	Babe  int       `json:"babe"`
}

type vdlStep struct {
	O   vdlOp  `json:"o"`
	Res string `json:"res"`
	Cls string `json:"cls"`
	Obs vdlObs `json:"obs"`
	Lay vdlLay `json:"lay"`
}

// same concrete authority lists as the dot/state harness
func vdlAuthsRaw(id int) []types.GrandpaAuthoritiesRaw {
	out := make([]types.GrandpaAuthoritiesRaw, id+1)
	for i := range out {
		var k [32]byte
		for j := range k {
			k[j] = byte(17*id + 3*i + j + 1)
		}
		out[i] = types.GrandpaAuthoritiesRaw{Key: k, ID: uint64(10*id + i + 1)}
	}
	return out
}

func vdlVoters(t testing.TB, id int) []types.GrandpaVoter {
	v, err := types.NewGrandpaVotersFromAuthoritiesRaw(vdlAuthsRaw(id))
	if err != nil {
		t.Fatalf("VERIF-INFRA voters: %v", err)
	}
	return v
}

// vdlEpoch stands for state.EpochState: it only counts the BABE consensus items handed over.
type vdlEpoch struct {
	mu    sync.Mutex
	calls int
}

func (e *vdlEpoch) GetEpochForBlock(*types.Header) (uint64, error) { return 0, nil }
func (e *vdlEpoch) UpdateSkippedEpochDefinitions(uint64, uint64, *types.Header) error {
	return nil
}

// vdlCoreBlockState is the real block state; the runtime bookkeeping plays no part in authority-set changes and the
// arrival time of a block is fixed (as in the dot/digest harness).
type vdlCoreBlockState struct {
	*state.BlockState
	arrival time.Time
}

type vdlCoreInstance struct{ runtime.Instance }

func (b *vdlCoreBlockState) AddBlock(blk *types.Block) error {
	return b.BlockState.AddBlockWithArrivalTime(blk, b.arrival)
}
func (b *vdlCoreBlockState) GetRuntime(common.Hash) (runtime.Instance, error) {
	return vdlCoreInstance{}, nil
}
func (b *vdlCoreBlockState) HandleRuntimeChanges(*rtstorage.TrieState, runtime.Instance, common.Hash) error {
	return nil
}

// vdlCoreStorage: the state trie of the block is of no interest here.
type vdlCoreStorage struct{ StorageState }

func (vdlCoreStorage) StoreTrie(*rtstorage.TrieState, *types.Header) error { return nil }
func (e *vdlEpoch) HandleBABEDigest(*types.Header, types.BabeConsensusDigest) error {
	e.mu.Lock()
	e.calls++
	e.mu.Unlock()
	return nil
}
func (e *vdlEpoch) FinalizeBABENextEpochData(*types.Header) error  { return nil }
func (e *vdlEpoch) FinalizeBABENextConfigData(*types.Header) error { return nil }

// vdlGrandpa is the real GrandpaState; it reports every ApplyScheduledChanges the Handler goroutine makes.
type vdlGrandpa struct {
	*state.GrandpaState
	applied chan error
}

func (g *vdlGrandpa) ApplyScheduledChanges(h *types.Header) error {
	err := g.GrandpaState.ApplyScheduledChanges(h)
	g.applied <- err
	return err
}

type vdlWorld struct {
	t     testing.TB
	db    database.Database
	bs    *state.BlockState
	gs    *vdlGrandpa
	ep    *vdlEpoch
	imp   *digest.BlockImportHandler
	svc   *Service
	cbs   *vdlCoreBlockState
	hd    *digest.Handler
	hdr   []*types.Header
	par   []int
	num   []int
	round uint64
}

func vdlNewWorld(t testing.TB) *vdlWorld {
	db, err := database.NewPebble(t.TempDir(), true)
	if err != nil {
		t.Fatalf("VERIF-INFRA db: %v", err)
	}
	tries := state.NewTries()
	tries.SetEmptyTrie()
	gen := types.NewHeader(common.Hash{}, trie.EmptyHash, trie.EmptyHash, 0, types.NewDigest())
	bs, err := state.NewBlockStateFromGenesis(db, tries, gen, vdlNoTelemetry{})
	if err != nil {
		t.Fatalf("VERIF-INFRA block state: %v", err)
	}
	gs, err := state.NewGrandpaStateFromGenesis(db, bs, vdlVoters(t, 0), vdlNoTelemetry{})
	if err != nil {
		t.Fatalf("VERIF-INFRA grandpa state: %v", err)
	}
	w := &vdlWorld{t: t, db: db, bs: bs, gs: &vdlGrandpa{GrandpaState: gs, applied: make(chan error, 16)}, ep: &vdlEpoch{},
		hdr: []*types.Header{gen}, par: []int{-1}, num: []int{0}}
	w.imp = digest.NewBlockImportHandler(w.ep, w.gs)
	ctx, cancel := context.WithCancel(context.Background())
	cancel() // the asynchronous block-added notifications are not running: nothing is queued
	w.cbs = &vdlCoreBlockState{BlockState: bs}
	w.svc = &Service{ctx: ctx, storageState: vdlCoreStorage{}, blockState: w.cbs, grandpaState: w.gs, epochState: w.ep,
		onBlockImport: w.imp, blockAddCh: make(chan *types.Block, 16)}
	w.hd, err = digest.NewHandler(bs, w.ep, w.gs)
	if err != nil {
		t.Fatalf("VERIF-INFRA handler: %v", err)
	}
	if err := w.hd.Start(); err != nil {
		t.Fatalf("VERIF-INFRA handler start: %v", err)
	}
	return w
}

func (w *vdlWorld) close() {
	_ = w.hd.Stop()
	_ = w.db.Close()
}

func (w *vdlWorld) digestItem(b int, it vdlItem) any {
	grandpa := func(v any) any {
		d := types.NewGrandpaConsensusDigest()
		if err := d.SetValue(v); err != nil {
			w.t.Fatalf("VERIF-INFRA grandpa digest: %v", err)
		}
		enc, err := scale.Marshal(d)
		if err != nil {
			w.t.Fatalf("VERIF-INFRA marshal: %v", err)
		}
		return types.ConsensusDigest{ConsensusEngineID: types.GrandpaEngineID, Data: enc}
	}
	switch it.T {
	case "S":
		return grandpa(types.GrandpaScheduledChange{Auths: vdlAuthsRaw(it.A), Delay: uint32(it.D)})
	case "F":
		return grandpa(types.GrandpaForcedChange{BestFinalizedBlock: uint32(it.M), Auths: vdlAuthsRaw(it.A), Delay: uint32(it.D)})
	case "P":
		return grandpa(types.GrandpaPause{Delay: 1})
	case "R":
		return grandpa(types.GrandpaResume{Delay: 1})
	case "D":
		return grandpa(types.GrandpaOnDisabled{ID: 0})
	case "E":
		d := types.NewBabeConsensusDigest()
		if err := d.SetValue(types.BABEOnDisabled{ID: 0}); err != nil {
			w.t.Fatalf("VERIF-INFRA babe digest: %v", err)
		}
		enc, err := scale.Marshal(d)
		if err != nil {
			w.t.Fatalf("VERIF-INFRA marshal: %v", err)
		}
		return types.ConsensusDigest{ConsensusEngineID: types.BabeEngineID, Data: enc}
	case "O":
		pd, err := types.NewBabeSecondaryPlainPreDigest(0, uint64(b)).ToPreRuntimeDigest()
		if err != nil {
			w.t.Fatalf("VERIF-INFRA pre-runtime digest: %v", err)
		}
		return *pd
	}
	w.t.Fatalf("VERIF-INFRA unknown digest item kind %q", it.T)
	return nil
}

func vdlErrClass(err error) string {
	if err == nil {
		return "ok"
	}
	m := err.Error()
	switch {
	case strings.Contains(m, "already has a forced change"):
		return "err-forced-pending"
	case strings.Contains(m, "pending scheduled changes needs to be applied"):
		return "err-forced-dependency"
	case strings.Contains(m, "unfinalized ancestor"):
		return "err-unfinalized-ancestor"
	case strings.Contains(m, "duplicated hashes"):
		return "err-duplicate"
	case strings.Contains(m, "ancestry") || strings.Contains(m, "getting header"):
		return "err-pruned-ancestry"
	}
	return "err-other"
}

// importBlock is dot/core.(*Service).handleBlock for the parts that concern the authority set.
func (w *vdlWorld) importBlock(p int, items []vdlItem) (string, string) {
	b := len(w.hdr)
	digest := types.NewDigest()
	for _, it := range items {
		if err := digest.Add(w.digestItem(b, it)); err != nil {
			w.t.Fatalf("VERIF-INFRA digest add: %v", err)
		}
	}
	var salt common.Hash
	salt[0], salt[1] = byte(b), byte(b>>8)
	salt[31] = 0xd1
	h := types.NewHeader(w.hdr[p].Hash(), trie.EmptyHash, salt, uint(w.num[p]+1), digest)
	w.hdr = append(w.hdr, h)
	w.par = append(w.par, p)
	w.num = append(w.num, w.num[p]+1)
	blk := &types.Block{Header: *h, Body: types.Body{}}
	w.cbs.arrival = time.Unix(int64(1000+b), 0)
	if err := w.svc.HandleBlockImport(blk, rtstorage.NewTrieState(inmemory_trie.NewEmptyTrie()), false); err != nil {
		if _, herr := w.bs.GetHeader(h.Hash()); herr != nil {
			w.t.Fatalf("VERIF-INFRA HandleBlockImport did not add the block: %v", err)
		}
		return vdlErrClass(err), err.Error()
	}
	return "ok", ""
}

func (w *vdlWorld) finalise(b int, setID int) (string, string) {
	w.round++
	if err := w.bs.SetFinalisedHash(w.hdr[b].Hash(), w.round, uint64(setID)); err != nil {
		w.t.Fatalf("VERIF-INFRA SetFinalisedHash(%d): %v", b, err)
	}
	select {
	case err := <-w.gs.applied:
		if err != nil {
			return vdlErrClass(err), err.Error()
		}
		return "ok", ""
	case <-time.After(60 * time.Second):
		return "not-delivered", "digest.Handler did not call ApplyScheduledChanges within 60s of SetFinalisedHash"
	}
}

func TestVerifCoreLayer(t *testing.T) {
	res := vNewResult(vEnvStr("VERIF_PROP", "C23"))
	defer res.Write(t)
	behs := vLoad(t, vIn(t, "behaviours.txt"))
	res.Behaviours = len(behs)
	cut := 0
	for _, b := range behs {
		w := vdlNewWorld(t)
		var prefix []json.RawMessage
		curSet := 0
		babeWant := 0
		for si, raw := range b.Steps {
			var s vdlStep
			if err := json.Unmarshal(raw, &s); err != nil {
				t.Fatalf("VERIF-INFRA step json: %v", err)
			}
			if s.O.Op == "Import" && len(s.Lay.Items) == 0 {
				t.Fatalf("VERIF-INFRA behaviour %d step %d: Import without digest items", b.ID, si)
			}
			prefix = append(prefix, raw)
			if si == 0 {
				res.Sample(b.Steps)
			}
			res.Case("digest-"+s.O.Op, fmt.Sprintf("%s|%s|%s", s.O.A.K, s.Lay.Name, s.Cls))
			failed := false
			fail := func(field, exp, got, fclass string) {
				failed = true
				res.Fail(b.ID, si, s.O.Op, field, exp, got, "C23/core/"+s.O.Op+"/"+s.O.A.K+":"+s.Lay.Name+"/"+field+"/"+fclass, prefix)
			}
			var got, detail string
			pm := vTry(func() {
				if s.O.Op == "Import" {
					got, detail = w.importBlock(s.O.P, s.Lay.Items)
				} else {
					got, detail = w.finalise(s.O.B, curSet)
				}
			})
			if pm != "" {
				got, detail = "panic", pm
			}
			res.Cmp()
			if got != s.Res {
				fail("res", s.Res, got+" "+detail, got+"-instead-of-"+s.Res)
			}
			if s.Res != "ok" {
				cut++
				break
			}
			babeWant += s.Lay.Babe
			pm = vTry(func() {
				if !failed {
					res.Cmp()
					w.ep.mu.Lock()
					n := w.ep.calls
					w.ep.mu.Unlock()
					if n != babeWant {
						fail("babe-items", fmt.Sprint(babeWant), fmt.Sprint(n), "count")
					}
				}
				if !failed {
					res.Cmp()
					id, err := w.gs.GetCurrentSetID()
					if err != nil || int(id) != s.Obs.SetID {
						fail("setId", fmt.Sprint(s.Obs.SetID), fmt.Sprintf("%d err=%v", id, err), "value")
					}
				}
				if !failed {
					for sid, a := range s.Obs.Auths {
						res.Cmp()
						v, err := w.gs.GetAuthorities(uint64(sid))
						exp := vdlVoters(t, a)
						if err != nil || fmt.Sprint(v) != fmt.Sprint(exp) {
							fail("auths", fmt.Sprintf("set %d = list %d", sid, a), fmt.Sprintf("%v err=%v", v, err), "value")
							break
						}
					}
				}
				if !failed {
					for _, l := range s.Obs.Limits {
						x, lim := l[0], l[1]
						if lim == -2 {
							continue
						}
						res.Cmp()
						n, err := w.gs.NextGrandpaAuthorityChange(w.hdr[x].Hash(), uint(w.num[x]))
						g := int(n)
						if errors.Is(err, state.ErrNoNextAuthorityChange) {
							g, err = -1, nil
						}
						if err != nil {
							fail("limit", fmt.Sprintf("block %d: %d", x, lim), "error "+err.Error(), vdlErrClass(err))
							break
						}
						if g != lim {
							fail("limit", fmt.Sprintf("block %d: %d", x, lim), fmt.Sprint(g), "value")
							break
						}
					}
				}
			})
			if pm != "" {
				fail("observe", "no panic", pm, "panic")
			}
			curSet = s.Obs.SetID
			if failed {
				break
			}
		}
		w.close()
	}
	res.Extra["behaviours_cut_at_rejected_step"] = cut
}
