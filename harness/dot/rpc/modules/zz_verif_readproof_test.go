//go:build verif

// Conformance harness for specs/TrieProof.tla through the RPC state_getReadProof (C05):
// "A read proof generated from stored state for any set of keys lets a verifier confirm exactly the values
//  present under that state root, for both state versions."
// The SAME TLC-generated cases as the pkg/trie/inmemory/proof stage are used.  For every case the state is
// committed as a block of a real chain (state.BlockState + state.InmemoryStorageState over an in-memory
// database: TrieState, SetVersion, Put, StoreTrie, AddBlock), a real core.Service sits behind the CoreAPI of a
// real StateModule and GetReadProof is called as a client would (hex keys, block hash, and once with the zero
// hash = best block).  Compared:
//   - the call succeeds for the case's key set and names the block (At),
//   - the returned proof contains every blob of the specification's ProofNodes(m, K),
//   - proof.Verify with the RETURNED proof confirms every present requested (k, m[k]) and, for every query of
//     the specification, never confirms a pair that does not hold in the state (soundness) and confirms what
//     VerifySpec confirms from ProofNodes (the returned proof is a superset of it),
//   - an earlier block's proof is still served after later blocks were committed (by hash).
// Signatures "C05/Generate/rpc/..." and "C05/Generate+Verify/rpc/..." line up with the proof stage's so that
// the findings recorded for proof.Generate / proof.Verify are recognised.

package modules

import (
	"bytes"
	"encoding/json"
	"fmt"
	"sort"
	"strings"
	"testing"

	"github.com/ChainSafe/gossamer/dot/core"
	"github.com/ChainSafe/gossamer/dot/state"
	"github.com/ChainSafe/gossamer/dot/types"
	"github.com/ChainSafe/gossamer/internal/database"
	"github.com/ChainSafe/gossamer/lib/common"
	"github.com/ChainSafe/gossamer/pkg/trie"
	inmemory_trie "github.com/ChainSafe/gossamer/pkg/trie/inmemory"
	"github.com/ChainSafe/gossamer/pkg/trie/inmemory/proof"
)

type vrpQuery struct {
	K      VB   `json:"k"`
	V      VB   `json:"v"`
	Accept bool `json:"accept"`
	Holds  bool `json:"holds"`
}

type vrpSupply struct {
	Name    string     `json:"name"`
	Nodes   []VB       `json:"nodes"`
	Queries []vrpQuery `json:"queries"`
}

type vrpCase struct {
	Entries  [][2]VB     `json:"entries"`
	V1       bool        `json:"v1"`
	Keys     []VB        `json:"keys"`
	Root     VB          `json:"root"`
	Proof    []VB        `json:"proof"`
	Supplies []vrpSupply `json:"supplies"`
}

type vrpTelemetry struct{}

func (vrpTelemetry) SendMessage(json.Marshaler) {}

type vrpChain struct {
	bs *state.BlockState
	ss *state.InmemoryStorageState
	sm *StateModule
	n  uint
}

func vrpNewChain(t *testing.T) *vrpChain {
	db, err := database.NewPebble("", true)
	if err != nil {
		t.Fatalf("VERIF-INFRA pebble: %v", err)
	}
	tries := state.NewTries()
	tries.SetTrie(inmemory_trie.NewEmptyTrie())
	header := types.NewHeader(common.Hash{}, trie.EmptyHash, common.Hash{}, 0, types.NewDigest())
	bs, err := state.NewBlockStateFromGenesis(db, tries, header, vrpTelemetry{})
	if err != nil {
		t.Fatalf("VERIF-INFRA block state: %v", err)
	}
	ss, err := state.NewStorageState(db, bs, tries)
	if err != nil {
		t.Fatalf("VERIF-INFRA storage state: %v", err)
	}
	svc, err := core.NewService(&core.Config{BlockState: bs, StorageState: ss})
	if err != nil {
		t.Fatalf("VERIF-INFRA core service: %v", err)
	}
	return &vrpChain{bs: bs, ss: ss, sm: NewStateModule(nil, ss, svc, nil)}
}

// commit stores the state m (version v1) as the state of a new block and returns the block hash and state root.
func (c *vrpChain) commit(t *testing.T, m map[string][]byte, v1 bool) (common.Hash, common.Hash) {
	empty := trie.EmptyHash
	ts, err := c.ss.TrieState(&empty)
	if err != nil {
		t.Fatalf("VERIF-INFRA TrieState: %v", err)
	}
	if v1 {
		ts.SetVersion(trie.V1)
	}
	for _, k := range vSortedKeys(m) {
		if err := ts.Put([]byte(k), m[k]); err != nil {
			t.Fatalf("VERIF-INFRA put: %v", err)
		}
	}
	root := ts.Trie().MustHash()
	c.n++
	digest := types.NewDigest()
	prd, err := types.NewBabeSecondaryPlainPreDigest(0, uint64(c.n)).ToPreRuntimeDigest()
	if err != nil {
		t.Fatalf("VERIF-INFRA digest: %v", err)
	}
	if err := digest.Add(*prd); err != nil {
		t.Fatalf("VERIF-INFRA digest: %v", err)
	}
	hd := types.Header{ParentHash: c.bs.BestBlockHash(), Number: c.n, StateRoot: root, Digest: digest}
	if err := c.ss.StoreTrie(ts, &hd); err != nil {
		t.Fatalf("VERIF-INFRA StoreTrie: %v", err)
	}
	if err := c.bs.AddBlock(&types.Block{Header: hd, Body: *types.NewBody([]types.Extrinsic{})}); err != nil {
		t.Fatalf("VERIF-INFRA AddBlock: %v", err)
	}
	return hd.Hash(), root
}

func vrpValueClass(m map[string][]byte, v1 bool, k, v []byte) string {
	mv, present := m[string(k)]
	switch {
	case len(m) == 0:
		return "empty-state"
	case present && v1 && len(mv) > 32:
		if len(v) == 0 {
			return "present-hashed-value/query-empty-value"
		}
		if bytes.Equal(v, vBlake(mv)) {
			// the node holding the value is a branch when another key extends k (the in-memory Get reads
			// leaf and branch values through different code)
			for o := range m {
				if len(o) > len(k) && o[:len(k)] == string(k) {
					return "present-hashed-value/query-value-digest/branch-node"
				}
			}
			return "present-hashed-value/query-value-digest/leaf-node"
		}
		return "present-hashed-value"
	case present && len(mv) == 0:
		return "present-empty-value"
	case present && len(v) == 0:
		return "present-key/query-empty-value"
	case present:
		return "present-key"
	case len(k) == 0:
		return "absent-empty-key"
	}
	return "absent-key"
}

// vrpSet renders a proof as a SET of blobs (the order of proof nodes is not part of the statement).
func vrpSet(p []string) string {
	c := append([]string{}, p...)
	sort.Strings(c)
	return strings.Join(c, ",")
}

type vrpDone struct {
	block common.Hash
	keys  []string
	proof []string
}

func TestVerifReadProofRPC(t *testing.T) {
	res := vNewResult(vEnvStr("VERIF_PROP", "C05"))
	defer res.Write(t)
	behs := vLoad(t, vIn(t, "cases.txt"))
	res.Behaviours = len(behs)
	for _, b := range behs {
		chain := vrpNewChain(t)
		var first *vrpDone
		for si, raw := range b.Steps {
			var c vrpCase
			if err := json.Unmarshal(raw, &c); err != nil {
				t.Fatalf("VERIF-INFRA case json: %v", err)
			}
			if len(res.Samples) < 1 {
				res.Sample(raw)
			}
			fail := func(op, field, exp, got, sig string) {
				res.Fail(b.ID, si, op, field, exp, got, "C05/"+sig, []json.RawMessage{raw})
			}
			m := map[string][]byte{}
			for _, e := range c.Entries {
				v := e[1].Bytes()
				if v == nil {
					v = []byte{}
				}
				m[string(e[0].Bytes())] = v
			}
			ver := "v0"
			if c.V1 {
				ver = "v1"
			}
			res.Case("state_getReadProof", fmt.Sprintf("%d|%v|%d|%x", len(m), c.V1, len(c.Keys), c.Root.Bytes()[:4]))
			root := c.Root.Bytes()
			bhash, realRoot := chain.commit(t, m, c.V1)
			if !bytes.Equal(realRoot.ToBytes(), root) {
				res.Fail(b.ID, si, "persist", "root", vHex(root), realRoot.String(), "C01/readproof-setup/root", nil)
				continue
			}
			var hexKeys []string
			var keys [][]byte
			anyAbsent := false
			for _, k := range c.Keys {
				kb := k.Bytes()
				keys = append(keys, kb)
				hexKeys = append(hexKeys, common.BytesToHex(kb))
				if _, ok := m[string(kb)]; !ok {
					anyAbsent = true
				}
			}
			kc := "present-keys"
			if anyAbsent {
				kc = "key-set-with-absent-key"
			}
			if len(m) == 0 {
				kc = "empty-state"
			}
			// the block named by hash, and (it is the best block now) by the zero hash
			for _, byBest := range []bool{false, true} {
				req := &StateGetReadProofRequest{Keys: hexKeys, Hash: bhash}
				how := "rpc"
				if byBest {
					req.Hash = common.Hash{}
					how = "rpc-best-block"
				}
				var resp StateGetReadProofResponse
				var gerr error
				pm := vTry(func() { gerr = chain.sm.GetReadProof(nil, req, &resp) })
				res.Cmp()
				if pm != "" {
					fail("GetReadProof", "panic", "no panic", pm, "Generate/"+how+"/"+ver+"/"+kc+"/panic")
					continue
				}
				if gerr != nil {
					fail("GetReadProof", "err", "nil", gerr.Error(), "Generate/"+how+"/"+ver+"/"+kc+"/error")
					continue
				}
				res.Cmp()
				if resp.At != bhash {
					fail("GetReadProof", "at", bhash.String(), resp.At.String(), "Generate/"+how+"/"+ver+"/at-wrong-block")
				}
				var gen [][]byte
				have := map[string]bool{}
				bad := false
				for _, hx := range resp.Proof {
					pb, err := common.HexToBytes(hx)
					if err != nil {
						fail("GetReadProof", "proof", "hex", hx, "Generate/"+how+"/"+ver+"/proof-not-hex")
						bad = true
						break
					}
					gen = append(gen, pb)
					have[string(pb)] = true
				}
				if bad {
					continue
				}
				if first == nil && !byBest {
					first = &vrpDone{block: bhash, keys: hexKeys, proof: resp.Proof}
				}
				for _, p := range c.Proof {
					pb := p.Bytes()
					res.Cmp()
					if !have[string(pb)] {
						what := "node"
						for _, mv := range m {
							if bytes.Equal(mv, pb) {
								what = "hashed-value-blob"
							}
						}
						fail("GetReadProof", "proof", "contains "+vHex(pb), fmt.Sprintf("%d nodes without it", len(gen)), "Generate/"+how+"/"+ver+"/missing-"+what)
						break
					}
				}
				if byBest {
					continue
				}
				// a verifier holding the RETURNED proof
				for _, kb := range keys {
					mv, ok := m[string(kb)]
					if !ok {
						continue
					}
					var verr error
					pm := vTry(func() { verr = proof.Verify(gen, root, kb, mv) })
					res.Cmp()
					cls := vrpValueClass(m, c.V1, kb, mv)
					if pm != "" {
						fail("Verify", "panic", "no panic", pm, "Generate+Verify/rpc/"+cls+"/panic")
					} else if verr != nil {
						fail("Verify", "accept", fmt.Sprintf("confirms key=%x", kb), verr.Error(), "Generate+Verify/rpc/"+cls+"/completeness-rejected")
					}
				}
				if len(c.Supplies) > 0 {
					for _, q := range c.Supplies[0].Queries {
						kb, vb := q.K.Bytes(), q.V.Bytes()
						if vb == nil {
							vb = []byte{}
						}
						var verr error
						pm := vTry(func() { verr = proof.Verify(gen, root, kb, vb) })
						res.Cmp()
						res.Case("Verify", "")
						cls := vrpValueClass(m, c.V1, kb, vb)
						switch {
						case pm != "":
							fail("Verify", "panic", "no panic", pm, "Verify/rpc-proof/"+cls+"/panic")
						case verr == nil && !q.Holds:
							fail("Verify", "reject", fmt.Sprintf("rejects key=%x value=%x (not in the state)", kb, vb), "accepted", "Verify/rpc-proof/"+cls+"/soundness-accepted-absent-pair")
						case verr != nil && q.Accept:
							fail("Verify", "accept", fmt.Sprintf("confirms key=%x value=%x", kb, vb), verr.Error(), "Verify/rpc-proof/"+cls+"/completeness-rejected")
						}
					}
				}
			}
			// stored state: the first block's proof is served unchanged after later blocks were committed
			if first != nil && first.block != bhash {
				var resp StateGetReadProofResponse
				var gerr error
				pm := vTry(func() {
					gerr = chain.sm.GetReadProof(nil, &StateGetReadProofRequest{Keys: first.keys, Hash: first.block}, &resp)
				})
				res.Cmp()
				switch {
				case pm != "":
					fail("GetReadProof", "panic", "no panic", pm, "Generate/rpc-earlier-block/panic")
				case gerr != nil:
					fail("GetReadProof", "err", "nil", gerr.Error(), "Generate/rpc-earlier-block/error")
				case resp.At != first.block || vrpSet(resp.Proof) != vrpSet(first.proof):
					fail("GetReadProof", "proof", fmt.Sprint(first.proof), fmt.Sprint(resp.Proof), "Generate/rpc-earlier-block/proof-changed")
				}
			}
		}
	}
}
