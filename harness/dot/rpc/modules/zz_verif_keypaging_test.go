//go:build verif

// Conformance harness for specs/KeyPaging.tla (C38).
// A real chain of blocks (state.BlockState + state.InmemoryStorageState over an in-memory
// database) sits behind the StorageAPI of a real StateModule; every Put/Delete of a
// behaviour is committed through TrieState/StoreTrie and becomes a new block.  The RPC
// methods GetKeysPaged and GetPairs are called exactly as a client would: paging is
// driven by feeding the last returned key back as AfterKey until an empty page arrives.

package modules

import (
	"bytes"
	"encoding/json"
	"fmt"
	"sort"
	"strings"
	"testing"

	"github.com/ChainSafe/gossamer/dot/state"
	"github.com/ChainSafe/gossamer/dot/types"
	"github.com/ChainSafe/gossamer/internal/database"
	"github.com/ChainSafe/gossamer/lib/common"
	"github.com/ChainSafe/gossamer/pkg/trie"
	inmemory_trie "github.com/ChainSafe/gossamer/pkg/trie/inmemory"
)

type vkOp struct {
	Op    string `json:"op"`
	B     int    `json:"b"`
	K     VB     `json:"k"`
	V     VB     `json:"v"`
	P     VB     `json:"p"`
	After VB     `json:"after"`
	Q     uint32 `json:"q"`
}

type vkStep struct {
	O   vkOp `json:"o"`
	Res struct {
		Pages [][]VB  `json:"pages"`
		Page  []VB    `json:"page"`
		Pairs [][2]VB `json:"pairs"`
	} `json:"res"`
	Nblocks int `json:"nblocks"`
}

type vkTelemetry struct{}

func (vkTelemetry) SendMessage(json.Marshaler) {}

type vkChain struct {
	db     database.Database
	bs     *state.BlockState
	ss     *state.InmemoryStorageState
	sm     *StateModule
	hashes []common.Hash
}

func vkNewChain(t *testing.T) *vkChain {
	db, err := database.NewPebble("", true)
	if err != nil {
		t.Fatalf("VERIF-INFRA pebble: %v", err)
	}
	tries := state.NewTries()
	tries.SetTrie(inmemory_trie.NewEmptyTrie())
	header := types.NewHeader(common.Hash{}, trie.EmptyHash, common.Hash{}, 0, types.NewDigest())
	bs, err := state.NewBlockStateFromGenesis(db, tries, header, vkTelemetry{})
	if err != nil {
		t.Fatalf("VERIF-INFRA block state: %v", err)
	}
	ss, err := state.NewStorageState(db, bs, tries)
	if err != nil {
		t.Fatalf("VERIF-INFRA storage state: %v", err)
	}
	return &vkChain{db: db, bs: bs, ss: ss, sm: NewStateModule(nil, ss, nil, nil), hashes: []common.Hash{header.Hash()}}
}

// mutate commits one write on top of the best block's state and adds a block for it.
func (c *vkChain) mutate(t *testing.T, f func(put func(k, v []byte) error, del func(k []byte) error) error) {
	ts, err := c.ss.TrieState(nil)
	if err != nil {
		t.Fatalf("VERIF-INFRA TrieState: %v", err)
	}
	if err := f(ts.Put, ts.Delete); err != nil {
		t.Fatalf("VERIF-INFRA write: %v", err)
	}
	root := ts.Trie().MustHash()
	if err := c.ss.StoreTrie(ts, nil); err != nil {
		t.Fatalf("VERIF-INFRA StoreTrie: %v", err)
	}
	digest := types.NewDigest()
	prd, err := types.NewBabeSecondaryPlainPreDigest(0, uint64(len(c.hashes))).ToPreRuntimeDigest()
	if err != nil {
		t.Fatalf("VERIF-INFRA digest: %v", err)
	}
	if err := digest.Add(*prd); err != nil {
		t.Fatalf("VERIF-INFRA digest: %v", err)
	}
	b := &types.Block{
		Header: types.Header{ParentHash: c.bs.BestBlockHash(), Number: uint(len(c.hashes)), StateRoot: root, Digest: digest},
		Body:   *types.NewBody([]types.Extrinsic{}),
	}
	if err := c.bs.AddBlock(b); err != nil {
		t.Fatalf("VERIF-INFRA AddBlock: %v", err)
	}
	c.hashes = append(c.hashes, b.Header.Hash())
}

func (c *vkChain) block(b int) *common.Hash {
	if b == 0 {
		return nil
	}
	h := c.hashes[b-1]
	return &h
}

func vkHex(b []byte) string { return fmt.Sprintf("0x%x", b) }

func vkKeys(ks []VB) []string {
	out := []string{}
	for _, k := range ks {
		out = append(out, vkHex(k.Bytes()))
	}
	return out
}

// vkTrimMatch: key k is matched by prefix p only because a trailing zero nibble of p is
// ignored (C02's recorded finding in InMemoryTrie.GetKeysWithPrefix).
func vkTrimMatch(p, k []byte) bool {
	if len(p) == 0 || p[len(p)-1]&0x0f != 0 || bytes.HasPrefix(k, p) {
		return false
	}
	if len(k) < len(p) || !bytes.HasPrefix(k, p[:len(p)-1]) {
		return false
	}
	return k[len(p)-1]>>4 == p[len(p)-1]>>4
}

// vkOnlyTrim: `got` contains every expected key, and every extra key is a zero-nibble-trim match.
func vkOnlyTrim(p []byte, exp, got []string) bool {
	if len(p) == 0 || p[len(p)-1]&0x0f != 0 {
		return false
	}
	e := map[string]bool{}
	for _, x := range exp {
		e[x] = true
	}
	g := map[string]bool{}
	extra := 0
	for _, x := range got {
		g[x] = true
		if !e[x] {
			kb, err := common.HexToBytes(x)
			if err != nil || !vkTrimMatch(p, kb) {
				return false
			}
			extra++
		}
	}
	for x := range e {
		if !g[x] {
			return false
		}
	}
	return extra > 0
}

func vkPrefixClass(p []byte) string {
	switch {
	case len(p) == 0:
		return "empty-prefix"
	case p[len(p)-1]&0x0f == 0:
		return "prefix-last-nibble-zero"
	}
	return "plain"
}

// vkFaultyDB fails exactly one Get: the failAt-th.
type vkFaultyDB struct {
	database.Database
	n, failAt int
}

func (d *vkFaultyDB) Get(key []byte) ([]byte, error) {
	d.n++
	if d.n == d.failAt {
		return nil, fmt.Errorf("harness: injected read failure #%d", d.failAt)
	}
	return d.Database.Get(key)
}

var vkProbes int

func vkProbeFaultyLoad(t *testing.T, res *vResult, c *vkChain, beh, si int, o vkOp, p []byte, es string, expKeys []string, prefix []json.RawMessage) {
	vkProbes++
	if vkProbes%4 != 0 {
		return
	}
	for _, failAt := range []int{1, 2, 3, 5, 8, 13} {
		ss2, err := state.NewStorageState(&vkFaultyDB{Database: c.db, failAt: failAt}, c.bs, state.NewTries())
		if err != nil {
			t.Fatalf("VERIF-INFRA storage state over faulty db: %v", err)
		}
		sm2 := NewStateModule(nil, ss2, nil, nil)
		pfx := vkHex(p)
		errs := 0
		for attempt := 0; attempt < 3; attempt++ {
			var out StatePairResponse
			var callErr error
			pm := vTry(func() { callErr = sm2.GetPairs(nil, &StatePairRequest{Prefix: &pfx, Bhash: c.block(o.B)}, &out) })
			res.Case("Pairs-after-failed-read", fmt.Sprintf("%d|%d", failAt, attempt))
			res.Cmp()
			if pm != "" {
				res.Fail(beh, si, "Pairs", "panic", "no panic", pm, "C38/Pairs/after-failed-read/panic", prefix)
				return
			}
			if callErr != nil {
				errs++
				continue
			}
			got := map[string]string{}
			var gotKeys []string
			for _, it := range out {
				if pr, ok := it.([]string); ok && len(pr) == 2 {
					got[pr[0]] = pr[1]
					gotKeys = append(gotKeys, pr[0])
				}
			}
			sort.Strings(gotKeys)
			if gs := vkPairString(got); gs != es {
				res.Fail(beh, si, "Pairs", "pairs", es, fmt.Sprintf("%s (read #%d failed, attempt %d, %d earlier errors)", gs, failAt, attempt, errs), "C38/Pairs/after-failed-read/keys-or-values", prefix)
				return
			}
		}
	}
}

// vkProbeReloadedWrite: the listing of a block's state after a restart during which a CHILD of that state is being built:
// the state is handed out for modification (TrieState of its root, reloaded from the database because the restart emptied
// the cache), keys under the listed prefix are written and deleted in it, and the block's own listing is what it was.
func vkProbeReloadedWrite(t *testing.T, res *vResult, c *vkChain, beh, si int, o vkOp, p []byte, es string, expKeys []string, prefix []json.RawMessage) {
	if vkProbes%4 != 1 {
		return
	}
	hdr, err := c.bs.GetHeader(*c.block(o.B))
	if err != nil {
		t.Fatalf("VERIF-INFRA header of block %d: %v", o.B, err)
	}
	ss2, err := state.NewStorageState(c.db, c.bs, state.NewTries())
	if err != nil {
		t.Fatalf("VERIF-INFRA storage state after restart: %v", err)
	}
	sm2 := NewStateModule(nil, ss2, nil, nil)
	root := hdr.StateRoot
	var callErr error
	var out StatePairResponse
	pfx := vkHex(p)
	pm := vTry(func() {
		ts, err := ss2.TrieState(&root)
		if err != nil {
			callErr = err
			return
		}
		_ = ts.Put(append(append([]byte{}, p...), 0x77, 0x01), []byte{0xee})
		for i, hk := range expKeys {
			k, derr := common.HexToBytes(hk)
			if derr != nil || len(k) == 0 || i > 1 {
				continue
			}
			if i == 0 {
				_ = ts.Delete(k)
			} else {
				_ = ts.Put(k, []byte{0xdd, 0xdd})
			}
		}
		callErr = sm2.GetPairs(nil, &StatePairRequest{Prefix: &pfx, Bhash: c.block(o.B)}, &out)
	})
	res.Case("Pairs-while-child-is-built", fmt.Sprint(len(expKeys)))
	res.Cmp()
	if pm != "" || callErr != nil {
		res.Fail(beh, si, "Pairs", "result", es, fmt.Sprintf("err=%v panic=%s", callErr, pm), "C38/Pairs/parent-of-state-being-built/error", prefix)
		return
	}
	got := map[string]string{}
	for _, it := range out {
		if pr, ok := it.([]string); ok && len(pr) == 2 {
			got[pr[0]] = pr[1]
		}
	}
	if gs := vkPairString(got); gs != es {
		res.Fail(beh, si, "Pairs", "pairs", es, gs, "C38/Pairs/parent-of-state-being-built/keys-or-values", prefix)
	}
}

func TestVerifKeyPaging(t *testing.T) {
	res := vNewResult("C38")
	defer res.Write(t)
	behs := vLoad(t, vIn(t, "behaviours.txt"))
	res.Behaviours = len(behs)
	for _, b := range behs {
		c := vkNewChain(t)
		var prefix []json.RawMessage
		for si, raw := range b.Steps {
			var s vkStep
			if err := json.Unmarshal(raw, &s); err != nil {
				t.Fatalf("VERIF-INFRA step json: %v", err)
			}
			prefix = append(prefix, raw)
			if si == 0 {
				res.Sample(b.Steps[:min(len(b.Steps), 10)])
			}
			o := s.O
			k, v, p := o.K.Bytes(), o.V.Bytes(), o.P.Bytes()
			if v == nil {
				v = []byte{}
			}
			sel := "best"
			if o.B > 0 {
				sel = "by-block"
			}
			fail := func(field, exp, got, sig string) {
				res.Fail(b.ID, si, o.Op, field, exp, got, sig, prefix)
			}
			switch o.Op {
			case "Put":
				res.Case(o.Op, "")
				c.mutate(t, func(put func(k, v []byte) error, del func(k []byte) error) error { return put(k, v) })
			case "Delete":
				res.Case(o.Op, "")
				c.mutate(t, func(put func(k, v []byte) error, del func(k []byte) error) error { return del(k) })
			case "PageAll", "Page":
				var expPages [][]string
				if o.Op == "PageAll" {
					for _, pg := range s.Res.Pages {
						expPages = append(expPages, vkKeys(pg))
					}
				} else if len(s.Res.Page) > 0 {
					expPages = append(expPages, vkKeys(s.Res.Page))
				}
				var expAll []string
				for _, pg := range expPages {
					expAll = append(expAll, pg...)
				}
				res.Case(o.Op, fmt.Sprintf("%s|%x|%d|%x|%d", sel, p, o.Q, o.After.Bytes(), len(expAll)))
				after := ""
				if o.Op == "Page" {
					after = vkHex(o.After.Bytes())
				}
				var gotPages [][]string
				var gotAll []string
				var callErr error
				loops := 0
				pm := vTry(func() {
					for {
						var out StateStorageKeysResponse
						req := &StateStorageKeyRequest{Prefix: vkHex(p), Qty: o.Q, AfterKey: after, Block: c.block(o.B)}
						if err := c.sm.GetKeysPaged(nil, req, &out); err != nil {
							callErr = err
							return
						}
						if len(out) == 0 {
							return
						}
						gotPages = append(gotPages, []string(out))
						gotAll = append(gotAll, out...)
						if o.Op == "Page" {
							return
						}
						after = out[len(out)-1]
						loops++
						if loops > 64 {
							return
						}
					}
				})
				res.Cmp()
				base := "C38/" + o.Op + "/" + sel + "/" + vkPrefixClass(p) + "/"
				switch {
				case pm != "":
					fail("panic", "no panic", pm, base+"panic")
				case callErr != nil:
					fail("err", "nil", callErr.Error(), base+"error")
				case loops > 64:
					fail("pages", fmt.Sprint(expPages), "paging does not terminate", base+"no-termination")
				case fmt.Sprint(gotPages) != fmt.Sprint(expPages):
					if vkOnlyTrim(p, expAll, gotAll) || (o.Op == "Page" && vkPrefixClass(p) == "prefix-last-nibble-zero" && vkPageTrim(p, o.After.Bytes(), gotAll)) {
						// paging itself is judged on what GetKeysWithPrefix listed
						fail("pages", fmt.Sprint(expPages), fmt.Sprint(gotPages), "C02/KeysWithPrefix/zero-nibble-trim/lists-nonmatching")
					} else if fmt.Sprint(gotAll) == fmt.Sprint(expAll) {
						fail("pages", fmt.Sprint(expPages), fmt.Sprint(gotPages), base+"page-boundaries")
					} else {
						fail("pages", fmt.Sprint(expPages), fmt.Sprint(gotPages), base+"keys")
					}
				}
			case "Pairs":
				exp := map[string]string{}
				for _, pr := range s.Res.Pairs {
					exp[vkHex(pr[0].Bytes())] = vkHex(pr[1].Bytes())
				}
				res.Case(o.Op, fmt.Sprintf("%s|%x|%d", sel, p, len(exp)))
				var out StatePairResponse
				var callErr error
				pfx := vkHex(p)
				pm := vTry(func() {
					callErr = c.sm.GetPairs(nil, &StatePairRequest{Prefix: &pfx, Bhash: c.block(o.B)}, &out)
				})
				res.Cmp()
				base := "C38/Pairs/" + sel + "/" + vkPrefixClass(p) + "/"
				if pm != "" {
					fail("panic", "no panic", pm, base+"panic")
					break
				}
				if callErr != nil {
					fail("err", "nil", callErr.Error(), base+"error")
					break
				}
				got := map[string]string{}
				dup := false
				var gotKeys, expKeys []string
				for _, it := range out {
					pr, ok := it.([]string)
					if !ok || len(pr) != 2 {
						fail("shape", "[key, value]", fmt.Sprintf("%v", it), base+"shape")
						continue
					}
					if _, seen := got[pr[0]]; seen {
						dup = true
					}
					got[pr[0]] = pr[1]
					gotKeys = append(gotKeys, pr[0])
				}
				for x := range exp {
					expKeys = append(expKeys, x)
				}
				sort.Strings(gotKeys)
				sort.Strings(expKeys)
				es, gs := vkPairString(exp), vkPairString(got)
				// the same listing after a restart during which ONE database read fails: the request that hits the failure
				// may return an error, but no later request may answer from a half-loaded state
				if o.B > 0 && len(exp) >= 2 && es == gs && !dup {
					vkProbeFaultyLoad(t, res, c, b.ID, si, o, p, es, expKeys, prefix)
					vkProbeReloadedWrite(t, res, c, b.ID, si, o, p, es, expKeys, prefix)
				}
				switch {
				case dup:
					fail("pairs", es, fmt.Sprint(out), base+"duplicate-key")
				case es != gs:
					if vkOnlyTrim(p, expKeys, gotKeys) {
						fail("pairs", es, gs, "C02/KeysWithPrefix/zero-nibble-trim/lists-nonmatching")
					} else if strings.Join(expKeys, ",") == strings.Join(gotKeys, ",") {
						fail("pairs", es, gs, base+"values")
					} else {
						fail("pairs", es, gs, base+"keys")
					}
				}
			default:
				t.Fatalf("VERIF-INFRA unknown op %q", o.Op)
			}
			if len(c.hashes) != s.Nblocks {
				t.Fatalf("VERIF-INFRA block count: spec %d harness %d", s.Nblocks, len(c.hashes))
			}
		}
	}
}

// vkPageTrim: every key of a single page is after `after` and is a real or trimmed match.
func vkPageTrim(p, after []byte, got []string) bool {
	hit := false
	for _, x := range got {
		kb, err := common.HexToBytes(x)
		if err != nil {
			return false
		}
		if bytes.HasPrefix(kb, p) {
			continue
		}
		if !vkTrimMatch(p, kb) {
			return false
		}
		hit = true
	}
	return hit
}

func vkPairString(m map[string]string) string {
	ks := make([]string, 0, len(m))
	for k := range m {
		ks = append(ks, k)
	}
	sort.Strings(ks)
	var b strings.Builder
	for _, k := range ks {
		b.WriteString(k + "=" + m[k] + ";")
	}
	return b.String()
}
