//go:build verif

// Recorder for C35 on the sliding-window rate limiter (specs/RateLimit_Trace.tla): concurrent histories of
// AddRequest / IsLimitExceeded on ONE id (and a second id as a bystander) are recorded with call / return events
// stamped by one atomic counter; after the goroutines finish, one more IsLimitExceeded is made sequentially.  The
// limit is one less than the number of requests added, so that last answer is "exceeded" iff no request was lost.
// The verdict is TLC's (stage V-ratelimit): the history must be linearisable.
package ratelimiters

import (
	"encoding/json"
	"fmt"
	"os"
	"path/filepath"
	"sort"
	"sync"
	"sync/atomic"
	"testing"
	"time"

	"github.com/ChainSafe/gossamer/lib/common"
)

type vrlEv struct {
	Seq int64  `json:"-"`
	Ev  string `json:"ev"`
	ID  int    `json:"id"`
	Op  string `json:"op"`
	K   int    `json:"k"`
	Res int    `json:"res"`
	Max int    `json:"max"`
}

func TestVerifRateLimitConc(t *testing.T) {
	res := vNewResult(vEnvStr("VERIF_PROP", "C35"))
	defer res.Write(t)
	out := os.Getenv("VERIF_OUT")
	if out == "" {
		t.Skip("VERIF_OUT not set")
	}
	f, err := os.Create(filepath.Join(out, "ratelimit.ndjson"))
	if err != nil {
		t.Fatalf("VERIF-INFRA %v", err)
	}
	defer f.Close()
	enc := json.NewEncoder(f)
	nhist := vEnvInt("VERIF_RL_HISTORIES", 6)
	adds := vEnvInt("VERIF_RL_ADDS", 150)
	id := 0
	key := func(k int) common.Hash { return common.Hash{byte(k), 0x5d} }
	for h := 0; h < nhist; h++ {
		checkers := 2 + h%3
		rl := NewSlidingWindowRateLimiter(uint32(adds-1), time.Hour)
		var ctr atomic.Int64
		evs := make([][]vrlEv, checkers+2)
		var wg sync.WaitGroup
		start := make(chan struct{})
		run := func(g int, op string, k, n int, first int) {
			defer wg.Done()
			<-start
			for i := 0; i < n; i++ {
				oid := first + i
				s1 := ctr.Add(1)
				r := 0
				if op == "Add" {
					rl.AddRequest(key(k))
				} else if rl.IsLimitExceeded(key(k)) {
					r = 1
				}
				s2 := ctr.Add(1)
				evs[g] = append(evs[g], vrlEv{Seq: s1, Ev: "call", ID: oid, Op: op, K: k}, vrlEv{Seq: s2, Ev: "ret", ID: oid, Res: r})
			}
		}
		wg.Add(1)
		go run(0, "Add", 1, adds, id+1)
		id += adds
		wg.Add(1)
		go run(1, "Add", 2, adds/3, id+1) // the bystander id
		id += adds / 3
		for c := 0; c < checkers; c++ {
			wg.Add(1)
			go run(2+c, "Exceeded", 1, adds, id+1)
			id += adds
		}
		close(start)
		wg.Wait()
		var all []vrlEv
		for _, e := range evs {
			all = append(all, e...)
		}
		sort.Slice(all, func(i, j int) bool { return all[i].Seq < all[j].Seq })
		_ = enc.Encode(vrlEv{Ev: "reset", Max: adds - 1})
		for _, e := range all {
			_ = enc.Encode(e)
		}
		// the sequential epilogue: everything added must still be counted
		for _, k := range []int{1, 2} {
			id++
			r := 0
			if rl.IsLimitExceeded(key(k)) {
				r = 1
			}
			_ = enc.Encode(vrlEv{Ev: "call", ID: id, Op: "Exceeded", K: k})
			_ = enc.Encode(vrlEv{Ev: "ret", ID: id, Res: r})
		}
		res.Behaviours++
		res.Case("history", fmt.Sprintf("%d|%d", checkers, h))
		res.Cmp()
		if h == 0 {
			res.Sample(map[string]any{"adds": adds, "checkers": checkers, "events": len(all)})
		}
	}
}
