//go:build verif

// Conformance harness for specs/ChainTypes.tla, dot/network part.
//
//	C14 (TestVerifNetMsgEnc): block announce, announce handshake and transaction messages encode to the
//	     bytes of the TLA+ layouts and decode back; block request / block response messages encode to the
//	     bytes of the explicit protobuf layout (CtBlockRequestEnc / CtBlockResponseEnc on lib/PbWire.tla:
//	     varint keys, length-delimited fields, proto3 presence rules) and decode back.
//	C33 (TestVerifNetMsgDec): for TLC-generated inputs (valid encodings, every truncation, tag / length
//	     perturbations, huge length prefixes) the decoder's verdict is ScDec's, an accepted message
//	     re-encodes to the consumed prefix; no panic, bounded time and allocation.  Block request /
//	     response: every truncation of a valid message and protobuf-level variations (unknown fields,
//	     repeated scalars, both oneof members, no oneof member, short number) with the verdict and the
//	     canonical re-encoding of the TLA+ protobuf decoder (CtPbDec).  Decoders without a
//	     modelled layout (light, block request/response protobuf, warp proof request, consensus message)
//	     are driven with seeded mutations of valid messages and judged by no-panic / allocation /
//	     "decode(encode(decode(x))) = decode(x)" alone.
package network

import (
	"bytes"
	"encoding/json"
	"fmt"
	"math/rand"
	"reflect"
	"runtime"
	"sort"
	"strings"
	"testing"
	"time"

	"github.com/ChainSafe/gossamer/dot/network/messages"
	pb "github.com/ChainSafe/gossamer/dot/network/proto"
	"github.com/ChainSafe/gossamer/dot/types"
	"github.com/ChainSafe/gossamer/lib/common"
	"github.com/ChainSafe/gossamer/pkg/scale"
	"google.golang.org/protobuf/proto"
)

type vnDesc struct {
	Head VB  `json:"head"`
	Unit VB  `json:"unit"`
	N    int `json:"n"`
	Tail VB  `json:"tail"`
}

func (d vnDesc) Bytes() []byte {
	out := append([]byte(nil), d.Head.Bytes()...)
	out = append(out, bytes.Repeat(d.Unit.Bytes(), d.N)...)
	return append(out, d.Tail.Bytes()...)
}

type vnCase struct {
	O struct {
		Op  string          `json:"op"`
		Ty  string          `json:"ty"`
		V   json.RawMessage `json:"v"`
		B   VB              `json:"b"`
		Mut string          `json:"mut"`
	} `json:"o"`
	Res struct {
		Enc VB     `json:"enc"`
		Ok  bool   `json:"ok"`
		N   int    `json:"n"`
		At  string `json:"at"`
		Why string `json:"why"`
		Pb  vnDesc `json:"pb"` // bodycount: expected bytes as head + unit repeated n times + tail
	} `json:"res"`
}

// vnBodyCount: the block response carrying one block (hash 01..20, no header) whose body has n one-byte extrinsics.
var vnBodyLen = 1 // extrinsic length of the bodycount case in hand

func vnBodyCount(raw json.RawMessage) (m *messages.BlockResponseMessage, n int, fill byte) {
	var v struct{ N, Fill, Len int }
	if err := json.Unmarshal(raw, &v); err != nil {
		panic("VERIF-INFRA bodycount value")
	}
	var h common.Hash
	for i := range h {
		h[i] = byte(i + 1)
	}
	bd := &types.BlockData{Hash: h}
	if v.Len == 0 {
		v.Len = 1
	}
	vnBodyLen = v.Len
	if v.N > 0 {
		exts := make([]types.Extrinsic, v.N)
		for i := range exts {
			exts[i] = types.Extrinsic(bytes.Repeat([]byte{byte(v.Fill)}, v.Len))
		}
		bd.Body = types.NewBody(exts)
	}
	return &messages.BlockResponseMessage{BlockData: []*types.BlockData{bd}}, v.N, byte(v.Fill)
}

func vnBodyCountOf(m *messages.BlockResponseMessage, fill byte) string {
	if m == nil || len(m.BlockData) != 1 || m.BlockData[0] == nil {
		return "not one block"
	}
	b := m.BlockData[0].Body
	if b == nil {
		return "0 extrinsics"
	}
	for _, e := range *b {
		if len(e) != vnBodyLen || !bytes.Equal(e, bytes.Repeat([]byte{fill}, vnBodyLen)) {
			return fmt.Sprintf("%d extrinsics, one of them of %d bytes (%x...)", len(*b), len(e), []byte(e)[:min(len(e), 8)])
		}
	}
	return fmt.Sprintf("%d extrinsics", len(*b))
}

func vnList(raw json.RawMessage) []json.RawMessage {
	s := strings.TrimSpace(string(raw))
	if s == "{}" || s == "null" || s == "" {
		return nil
	}
	var l []json.RawMessage
	if err := json.Unmarshal(raw, &l); err != nil {
		panic("VERIF-INFRA list: " + err.Error() + " " + s)
	}
	return l
}

func vnBytes(raw json.RawMessage) []byte {
	l := vnList(raw)
	b := make([]byte, len(l))
	for i, x := range l {
		var n int
		if err := json.Unmarshal(x, &n); err != nil {
			panic("VERIF-INFRA byte: " + err.Error())
		}
		b[i] = byte(n)
	}
	return b
}

func vnUint(raw json.RawMessage) uint64 {
	b := vnBytes(raw)
	var x uint64
	for i := len(b) - 1; i >= 0; i-- {
		x = x<<8 | uint64(b[i])
	}
	return x
}

func vnDigest(raw json.RawMessage) (types.Digest, string) {
	d := types.NewDigest()
	for _, x := range vnList(raw) {
		var it struct {
			I int             `json:"i"`
			V json.RawMessage `json:"v"`
		}
		if err := json.Unmarshal(x, &it); err != nil {
			panic("VERIF-INFRA item")
		}
		switch it.I {
		case 4, 5, 6:
			p := vnList(it.V)
			var id types.ConsensusEngineID
			copy(id[:], vnBytes(p[0]))
			data := vnBytes(p[1])
			switch it.I {
			case 4:
				d.Add(types.ConsensusDigest{ConsensusEngineID: id, Data: data})
			case 5:
				d.Add(types.SealDigest{ConsensusEngineID: id, Data: data})
			case 6:
				d.Add(types.PreRuntimeDigest{ConsensusEngineID: id, Data: data})
			}
		case 8:
			d.Add(types.RuntimeEnvironmentUpdated{})
		default:
			return d, fmt.Sprintf("digest item index %d", it.I)
		}
	}
	return d, ""
}

func vnAllocDuring(f func()) uint64 {
	var m0, m1 runtime.MemStats
	runtime.ReadMemStats(&m0)
	f()
	runtime.ReadMemStats(&m1)
	return m1.TotalAlloc - m0.TotalAlloc
}

func vnBudget(n int) uint64 { return 256<<10 + 1024*uint64(n) }

func vnLoad(t *testing.T) []vBehaviour { return vLoad(t, vIn(t, "behaviours.txt")) }


// ---- protobuf block request / response values (specs/ChainTypes.tla BlockRequestVals / BlockResponseVals) ----

type vnReqVal struct {
	Fields int `json:"fields"`
	From   struct {
		K string          `json:"k"`
		B json.RawMessage `json:"b"`
	} `json:"from"`
	Dir int             `json:"dir"`
	Max json.RawMessage `json:"max"`
}

func vnRequest(raw json.RawMessage, zeroMaxAsPointer bool) *messages.BlockRequestMessage {
	var v vnReqVal
	if err := json.Unmarshal(raw, &v); err != nil {
		panic("VERIF-INFRA blockrequest value: " + err.Error())
	}
	m := &messages.BlockRequestMessage{RequestedData: byte(v.Fields), Direction: messages.SyncDirection(v.Dir)}
	if v.From.K == "hash" {
		m.StartingBlock = *messages.NewFromBlock(common.BytesToHash(vnBytes(v.From.B)))
	} else {
		m.StartingBlock = *messages.NewFromBlock(uint(vnUint(v.From.B)))
	}
	if mx := uint32(vnUint(v.Max)); mx != 0 || zeroMaxAsPointer {
		m.Max = &mx
	}
	return m
}

func vnRequestString(m *messages.BlockRequestMessage) string {
	mx := "absent"
	if m.Max != nil {
		mx = fmt.Sprint(*m.Max)
	}
	return fmt.Sprintf("data=%d from=%T:%v dir=%d max=%s", m.RequestedData, m.StartingBlock.RawValue(), m.StartingBlock.RawValue(), m.Direction, mx)
}

type vnBlockDataVal struct {
	Hash    json.RawMessage `json:"hash"`
	Header  json.RawMessage `json:"header"`
	Body    json.RawMessage `json:"body"`
	Receipt json.RawMessage `json:"receipt"`
	MQ      json.RawMessage `json:"mq"`
	Just    json.RawMessage `json:"just"`
}

// vnResponse builds the message; emptyAsPointer selects the other Go representation of the parts the wire
// cannot tell apart (a body without extrinsics, an empty receipt / message queue): present-and-empty
// instead of absent.  Both must give the same bytes.
func vnResponse(raw json.RawMessage, emptyAsPointer bool) *messages.BlockResponseMessage {
	m := &messages.BlockResponseMessage{BlockData: []*types.BlockData{}}
	for _, x := range vnList(raw) {
		var v vnBlockDataVal
		if err := json.Unmarshal(x, &v); err != nil {
			panic("VERIF-INFRA blockdata value: " + err.Error())
		}
		bd := &types.BlockData{Hash: common.BytesToHash(vnBytes(v.Hash))}
		if hl := vnList(v.Header); len(hl) == 1 {
			f := vnList(hl[0])
			d, un := vnDigest(f[4])
			if un != "" {
				panic("VERIF-INFRA blockdata header with " + un)
			}
			bd.Header = types.NewHeader(common.BytesToHash(vnBytes(f[0])), common.BytesToHash(vnBytes(f[2])), common.BytesToHash(vnBytes(f[3])), uint(vnUint(f[1])), d)
		}
		var exts []types.Extrinsic
		for _, e := range vnList(v.Body) {
			exts = append(exts, types.Extrinsic(vnBytes(e)))
		}
		if len(exts) > 0 || emptyAsPointer {
			bd.Body = types.NewBody(exts)
		}
		if r := vnBytes(v.Receipt); len(r) > 0 || emptyAsPointer {
			bd.Receipt = &r
		}
		if q := vnBytes(v.MQ); len(q) > 0 || emptyAsPointer {
			bd.MessageQueue = &q
		}
		if jl := vnList(v.Just); len(jl) == 1 {
			j := vnBytes(jl[0])
			bd.Justification = &j
		}
		m.BlockData = append(m.BlockData, bd)
	}
	return m
}

func vnOptBytes(p *[]byte) string {
	if p == nil {
		return "absent"
	}
	return "0x" + vHex(*p)
}

func vnResponseString(m *messages.BlockResponseMessage) string {
	var sb strings.Builder
	for _, bd := range m.BlockData {
		if bd == nil {
			sb.WriteString("{nil}")
			continue
		}
		hdr, body := "absent", "absent"
		if bd.Header != nil {
			var items []string
			for _, it := range bd.Header.Digest {
				items = append(items, it.String())
			}
			hdr = fmt.Sprintf("parent=%x number=%d state=%x ext=%x digest=[%s] hash=%s", bd.Header.ParentHash, bd.Header.Number, bd.Header.StateRoot,
				bd.Header.ExtrinsicsRoot, strings.Join(items, "; "), bd.Header.Hash())
		}
		if bd.Body != nil && len(*bd.Body) > 0 { // "no body" and "no extrinsics" are the same message on the wire
			body = fmt.Sprintf("%x", [][]byte(types.ExtrinsicsArrayToBytesArray(*bd.Body)))
		}
		rc, mq := vnOptBytes(bd.Receipt), vnOptBytes(bd.MessageQueue)
		if rc == "0x" {
			rc = "absent"
		}
		if mq == "0x" {
			mq = "absent"
		}
		fmt.Fprintf(&sb, "{hash=%s header={%s} body=%s receipt=%s mq=%s just=%s}", bd.Hash, hdr, body, rc, mq, vnOptBytes(bd.Justification))
	}
	return "[" + sb.String() + "]"
}

// vnPbSort rewrites a protobuf message with its top-level fields stably sorted by field number (and, for
// length-delimited fields listed in nested, the embedded message sorted likewise).  The wire format does
// not fix the order of fields with different numbers (google.golang.org/protobuf writes the members of a
// oneof after the plain fields, prost writes everything in field-number order), so the byte-for-byte
// comparison with the TLA+ layout is made on this normal form.  Own splitter: varint keys, wire types 0/1/2/5.
func vnPbSort(b []byte, nested map[int]bool) ([]byte, bool) {
	type chunk struct {
		f   int
		raw []byte
	}
	varint := func(p []byte) (uint64, int) {
		var x uint64
		for i := 0; i < len(p) && i < 10; i++ {
			x |= uint64(p[i]&0x7f) << (7 * uint(i))
			if p[i] < 0x80 {
				return x, i + 1
			}
		}
		return 0, 0
	}
	var chunks []chunk
	for len(b) > 0 {
		k, n := varint(b)
		if n == 0 {
			return nil, false
		}
		f, wt := int(k>>3), int(k&7)
		rest := b[n:]
		var size int
		var raw []byte
		switch wt {
		case 0:
			_, m := varint(rest)
			if m == 0 {
				return nil, false
			}
			size = n + m
		case 1:
			size = n + 8
		case 5:
			size = n + 4
		case 2:
			l, m := varint(rest)
			if m == 0 || uint64(len(rest)-m) < l {
				return nil, false
			}
			size = n + m + int(l)
			if nested[f] {
				inner, ok := vnPbSort(rest[m:m+int(l)], nil)
				if !ok || len(inner) != int(l) {
					return nil, false
				}
				raw = append(append([]byte(nil), b[:n+m]...), inner...)
			}
		default:
			return nil, false
		}
		if size > len(b) {
			return nil, false
		}
		if raw == nil {
			raw = b[:size]
		}
		chunks = append(chunks, chunk{f, raw})
		b = b[size:]
	}
	sort.SliceStable(chunks, func(i, j int) bool { return chunks[i].f < chunks[j].f })
	var out []byte
	for _, c := range chunks {
		out = append(out, c.raw...)
	}
	return out, true
}

func vnPbNorm(ty string, b []byte) []byte {
	var nested map[int]bool
	if ty == "blockresponse" {
		nested = map[int]bool{1: true}
	}
	if out, ok := vnPbSort(b, nested); ok {
		return out
	}
	return b
}

// ---- C14 part -------------------------------------------------------------------------

func TestVerifNetMsgEnc(t *testing.T) {
	res := vNewResult("C14")
	defer res.Write(t)
	behs := vnLoad(t)
	res.Behaviours = len(behs)
	for bi, bh := range behs {
		for si, raw := range bh.Steps {
			var c vnCase
			if err := json.Unmarshal(raw, &c); err != nil {
				t.Fatalf("VERIF-INFRA case json: %v", err)
			}
			if c.O.Op != "enc" {
				continue
			}
			prefix := json.RawMessage("[" + string(raw) + "]")
			exp := c.Res.Enc.Bytes()
			fail := func(field, e, g, sig string) { res.Fail(bi, si, c.O.Ty, field, e, g, sig, prefix) }
			pm := vTry(func() {
				switch c.O.Ty {
				case "announce":
					f := vnList(c.O.V)
					d, un := vnDigest(f[4])
					if un != "" {
						res.Case("announce", "other")
						res.Cmp()
						if _, err := decodeBlockAnnounceMessage(exp); err != nil && strings.Contains(err.Error(), "unknown prefix for compact uint") {
							fail("decodeBlockAnnounceMessage", "a message", "error: "+err.Error(), "C14/announce/decode-error/number-5-7-byte-compact")
						} else if err != nil {
							fail("decodeBlockAnnounceMessage(announce with Other digest item)", "a message", "error: "+err.Error(), "C14/announce/digest-other/decode-error")
						}
						return
					}
					res.Case("announce", string(c.O.V))
					m := &BlockAnnounceMessage{Number: uint(vnUint(f[1])), Digest: d}
					copy(m.ParentHash[:], vnBytes(f[0]))
					copy(m.StateRoot[:], vnBytes(f[2]))
					copy(m.ExtrinsicsRoot[:], vnBytes(f[3]))
					if err := json.Unmarshal(f[5], &m.BestBlock); err != nil {
						panic("VERIF-INFRA best")
					}
					enc, err := m.Encode()
					res.Cmp()
					if err != nil || !bytes.Equal(enc, exp) {
						fail("BlockAnnounceMessage.Encode", vHex(exp), vHex(enc)+fmt.Sprint(err), "C14/announce/encode")
					}
					cl := "plain"
					if uint64(m.Number) >= 1<<32 && uint64(m.Number) < 1<<56 {
						cl = "number-5-7-byte-compact"
					}
					res.Cmp()
					back, err := decodeBlockAnnounceMessage(exp)
					if err != nil {
						fail("decodeBlockAnnounceMessage", m.String(), "error: "+err.Error(), "C14/announce/decode-error/"+cl)
					} else if back.String() != m.String() || back.(*BlockAnnounceMessage).BestBlock != m.BestBlock {
						fail("decodeBlockAnnounceMessage", m.String(), back.String(), "C14/announce/decode-value")
					}
				case "bodycount":
					res.Case("bodycount", string(c.O.V))
					m, n, fill := vnBodyCount(c.O.V)
					want := c.Res.Pb.Bytes()
					sig := fmt.Sprintf("C14/bodycount/%d", n)
					if vnBodyLen > 1 {
						sig = fmt.Sprintf("C14/bodycount/%dx%d", n, vnBodyLen)
					}
					enc, err := m.Encode()
					enc = vnPbNorm("blockresponse", enc)
					res.Cmp()
					if err != nil || !bytes.Equal(enc, want) {
						fail("BlockResponseMessage.Encode", fmt.Sprintf("%s... (%d bytes)", vHex(want[:40]), len(want)), fmt.Sprintf("%s... (%d bytes) %v", vHex(enc[:min(len(enc), 40)]), len(enc), err), sig+"/blockresponse/encode")
					}
					back := new(messages.BlockResponseMessage)
					res.Cmp()
					if err := back.Decode(want); err != nil {
						fail("BlockResponseMessage.Decode", fmt.Sprintf("%d extrinsics", n), "error: "+err.Error(), sig+"/blockresponse/decode-error")
					} else if got := vnBodyCountOf(back, fill); got != fmt.Sprintf("%d extrinsics", n) {
						fail("BlockResponseMessage.Decode", fmt.Sprintf("%d extrinsics", n), got, sig+"/blockresponse/decode-value")
					}
				case "blockrequest":
					res.Case("blockrequest", string(c.O.V))
					m := vnRequest(c.O.V, false)
					enc, err := m.Encode()
					enc = vnPbNorm("blockrequest", enc)
					res.Cmp()
					if err != nil || !bytes.Equal(enc, exp) {
						fail("BlockRequestMessage.Encode", vHex(exp), vHex(enc)+fmt.Sprint(err), "C14/blockrequest/encode")
					}
					// "no maximum" is the proto3 default 0: a pointer to 0 is the same message
					if enc2, err := vnRequest(c.O.V, true).Encode(); err != nil || !bytes.Equal(vnPbNorm("blockrequest", enc2), exp) {
						fail("BlockRequestMessage.Encode (Max = &0)", vHex(exp), vHex(enc2)+fmt.Sprint(err), "C14/blockrequest/encode/zero-max")
					}
					back := new(messages.BlockRequestMessage)
					res.Cmp()
					if err := back.Decode(exp); err != nil {
						fail("BlockRequestMessage.Decode", vnRequestString(m), "error: "+err.Error(), "C14/blockrequest/decode-error")
					} else if vnRequestString(back) != vnRequestString(m) {
						fail("BlockRequestMessage.Decode", vnRequestString(m), vnRequestString(back), "C14/blockrequest/decode-value")
					}
					res.Cmp()
					if err := vnUsedReq.Decode(exp); err != nil {
						fail("BlockRequestMessage.Decode (used receiver)", vnRequestString(m), "error: "+err.Error(), "C14/blockrequest/used-receiver/decode-error")
						vnUsedReq = vnPrimedReq()
					} else if vnRequestString(vnUsedReq) != vnRequestString(m) {
						fail("BlockRequestMessage.Decode (used receiver)", vnRequestString(m), vnRequestString(vnUsedReq), "C14/blockrequest/used-receiver/decode-value")
						vnUsedReq = vnPrimedReq()
					}
				case "blockresponse":
					res.Case("blockresponse", string(c.O.V))
					m := vnResponse(c.O.V, false)
					enc, err := m.Encode()
					enc = vnPbNorm("blockresponse", enc)
					res.Cmp()
					if err != nil || !bytes.Equal(enc, exp) {
						fail("BlockResponseMessage.Encode", vHex(exp), vHex(enc)+fmt.Sprint(err), "C14/blockresponse/encode")
					}
					if enc2, err := vnResponse(c.O.V, true).Encode(); err != nil || !bytes.Equal(vnPbNorm("blockresponse", enc2), exp) {
						fail("BlockResponseMessage.Encode (present-and-empty parts)", vHex(exp), vHex(enc2)+fmt.Sprint(err), "C14/blockresponse/encode/empty-parts")
					}
					back := new(messages.BlockResponseMessage)
					res.Cmp()
					if err := back.Decode(exp); err != nil {
						fail("BlockResponseMessage.Decode", vnResponseString(m), "error: "+err.Error(), "C14/blockresponse/decode-error")
					} else if vnResponseString(back) != vnResponseString(m) {
						fail("BlockResponseMessage.Decode", vnResponseString(m), vnResponseString(back), "C14/blockresponse/decode-value")
					}
					// decoding is a function of the bytes: a receiver that already holds an earlier (longer) response -- the
					// sync worker pool hands the same response object to the next peer after a failure -- gives the same value
					res.Cmp()
					if err := vnUsedResp.Decode(exp); err != nil {
						fail("BlockResponseMessage.Decode (used receiver)", vnResponseString(m), "error: "+err.Error(), "C14/blockresponse/used-receiver/decode-error")
						vnUsedResp = vnPrimedResp()
					} else if vnResponseString(vnUsedResp) != vnResponseString(m) {
						fail("BlockResponseMessage.Decode (used receiver)", vnResponseString(m), vnResponseString(vnUsedResp), "C14/blockresponse/used-receiver/decode-value")
						vnUsedResp = vnPrimedResp()
					}
					if len(vnUsedResp.BlockData) < 2 {
						vnUsedResp = vnPrimedResp()
					}
				case "handshake":
					res.Case("handshake", string(c.O.V))
					f := vnList(c.O.V)
					hs := &BlockAnnounceHandshake{Roles: common.NetworkRole(vnUint(f[0])), BestBlockNumber: uint32(vnUint(f[1]))}
					copy(hs.BestBlockHash[:], vnBytes(f[2]))
					copy(hs.GenesisHash[:], vnBytes(f[3]))
					enc, err := hs.Encode()
					res.Cmp()
					if err != nil || !bytes.Equal(enc, exp) {
						fail("BlockAnnounceHandshake.Encode", vHex(exp), vHex(enc)+fmt.Sprint(err), "C14/handshake/encode")
					}
					res.Cmp()
					back, err := decodeBlockAnnounceHandshake(exp)
					if err != nil || !reflect.DeepEqual(back, Handshake(hs)) {
						fail("decodeBlockAnnounceHandshake", hs.String(), fmt.Sprint(back, err), "C14/handshake/decode")
					}
				case "txmsg":
					res.Case("txmsg", string(c.O.V))
					var exts []types.Extrinsic
					for _, x := range vnList(vnList(c.O.V)[0]) {
						exts = append(exts, types.Extrinsic(vnBytes(x)))
					}
					m := &TransactionMessage{Extrinsics: exts}
					enc, err := m.Encode()
					res.Cmp()
					if err != nil || !bytes.Equal(enc, exp) {
						fail("TransactionMessage.Encode", vHex(exp), vHex(enc)+fmt.Sprint(err), "C14/txmsg/encode")
					}
					res.Cmp()
					back, err := decodeTransactionMessage(exp)
					if err != nil {
						fail("decodeTransactionMessage", m.String(), "error: "+err.Error(), "C14/txmsg/decode-error")
					} else if back.String() != m.String() {
						fail("decodeTransactionMessage", m.String(), back.String(), "C14/txmsg/decode-value")
					}
				}
			})
			if pm != "" {
				if strings.Contains(pm, "VERIF-INFRA") {
					t.Fatalf("%s on %s", pm, raw)
				}
				fail("panic", "no panic", pm, "C14/"+c.O.Ty+"/panic")
			}
		}
	}
}

// ---- C33 part -------------------------------------------------------------------------

type vnDecoder struct {
	name   string
	decode func(b []byte) (any, error)
	encode func(m any) ([]byte, error)
}

// receivers that are reused from case to case; primed with a long message so that a shorter one follows
var vnUsedResp = vnPrimedResp()
var vnUsedReq = vnPrimedReq()

func vnPrimedResp() *messages.BlockResponseMessage {
	m := &messages.BlockResponseMessage{}
	for i := 0; i < 5; i++ {
		h := types.NewEmptyHeader()
		h.Number = uint(100 + i)
		body := types.Body{types.Extrinsic{byte(i), 0xaa}}
		just := []byte{0xee, byte(i)}
		m.BlockData = append(m.BlockData, &types.BlockData{Hash: h.Hash(), Header: h, Body: &body, Justification: &just})
	}
	enc, err := m.Encode()
	if err != nil {
		panic("VERIF-INFRA primed response: " + err.Error())
	}
	out := new(messages.BlockResponseMessage)
	if err := out.Decode(enc); err != nil {
		panic("VERIF-INFRA primed response decode: " + err.Error())
	}
	return out
}

func vnPrimedReq() *messages.BlockRequestMessage {
	max := uint32(77)
	m := messages.NewBlockRequest(*messages.NewFromBlock(uint(123456)), max, messages.BootstrapRequestData|messages.RequestedDataJustification, messages.Descending)
	enc, err := m.Encode()
	if err != nil {
		panic("VERIF-INFRA primed request: " + err.Error())
	}
	out := new(messages.BlockRequestMessage)
	if err := out.Decode(enc); err != nil {
		panic("VERIF-INFRA primed request decode: " + err.Error())
	}
	return out
}

func vnDecoders() map[string]vnDecoder {
	return map[string]vnDecoder{
		"announce": {"announce", func(b []byte) (any, error) { return decodeBlockAnnounceMessage(b) },
			func(m any) ([]byte, error) { return m.(*BlockAnnounceMessage).Encode() }},
		"handshake": {"handshake", func(b []byte) (any, error) { return decodeBlockAnnounceHandshake(b) },
			func(m any) ([]byte, error) { return m.(*BlockAnnounceHandshake).Encode() }},
		"txmsg": {"txmsg", func(b []byte) (any, error) { return decodeTransactionMessage(b) },
			func(m any) ([]byte, error) { return m.(*TransactionMessage).Encode() }},
		"body": {"body", func(b []byte) (any, error) {
			if len(b) == 0 {
				return nil, fmt.Errorf("empty input is not a SCALE vector") // NewBodyFromBytes special-cases it
			}
			return types.NewBodyFromBytes(b)
		}, func(m any) ([]byte, error) { return scaleMarshalBody(m.(*types.Body)) }},
		// protobuf layouts: the verdict and the canonical re-encoding come from CtPbDec
		"blockrequest": {"blockrequest", func(b []byte) (any, error) { m := new(messages.BlockRequestMessage); err := m.Decode(b); return m, err },
			func(m any) ([]byte, error) { return m.(*messages.BlockRequestMessage).Encode() }},
		"blockresponse": {"blockresponse", func(b []byte) (any, error) { m := new(messages.BlockResponseMessage); err := m.Decode(b); return m, err },
			func(m any) ([]byte, error) { return m.(*messages.BlockResponseMessage).Encode() }},
	}
}

func vnGuarded(dec func([]byte) (any, error), b []byte) (m any, err error, pm string, timeout bool, alloc uint64) {
	in := append([]byte(nil), b...)
	pm, timeout = vGuard(20*time.Second, func() {
		alloc = vnAllocDuring(func() { m, err = dec(in) })
	})
	return
}

func TestVerifNetMsgDec(t *testing.T) {
	res := vNewResult("C33")
	defer res.Write(t)
	behs := vnLoad(t)
	res.Behaviours = len(behs)
	decs := vnDecoders()
	for bi, bh := range behs {
		for si, raw := range bh.Steps {
			var c vnCase
			if err := json.Unmarshal(raw, &c); err != nil {
				t.Fatalf("VERIF-INFRA case json: %v", err)
			}
			d, ok := decs[c.O.Ty]
			bodyCount := c.O.Ty == "bodycount" && c.O.Op == "dec"
			if bodyCount { // a valid block response whose extrinsic count sits on a compact-mode boundary
				d, ok = decs["blockresponse"], true
			}
			if c.O.Op != "dec" || !ok {
				continue
			}
			prefix := json.RawMessage("[" + string(raw) + "]")
			b := c.O.B.Bytes()
			if bodyCount {
				b = c.Res.Pb.Bytes()
				c.Res.N = len(b)
				c.Res.Enc = nil
				var v struct{ N, Len int }
				_ = json.Unmarshal(c.O.V, &v)
				c.O.Ty = fmt.Sprintf("bodycount/%d", v.N)
				if v.Len > 1 {
					c.O.Ty = fmt.Sprintf("bodycount/%dx%d", v.N, v.Len)
				}
			}
			key := ""
			if c.Res.Ok || c.Res.Why != "short" {
				key = c.O.Ty + vHex(b)
			}
			res.Case(c.O.Ty+"/"+c.O.Mut, key)
			if bi < 3 {
				res.Sample(json.RawMessage(raw))
			}
			where := c.O.Ty
			spec := "accept"
			if !c.Res.Ok {
				where = c.O.Ty + "/" + c.Res.At + "/" + c.Res.Why
				spec = "reject(" + c.Res.At + "/" + c.Res.Why + ")"
			}
			fail := func(field, e, g, sig string) { res.Fail(bi, si, c.O.Ty, field, e, g, sig, prefix) }
			m, err, pm, to, alloc := vnGuarded(d.decode, b)
			res.Cmp()
			switch {
			case to:
				fail("decode", spec, "timeout", "C33/timeout/"+where)
				continue
			case pm != "":
				fail("decode", spec, pm, "C33/panic/"+where)
				continue
			}
			isPb := c.O.Ty == "blockrequest" || c.O.Ty == "blockresponse" || bodyCount
			budget := vnBudget(len(b))
			if isPb {
				budget += 1 << 20
			}
			if alloc > budget {
				fail("allocation", fmt.Sprintf("<= %d bytes for %d input bytes", budget, len(b)), fmt.Sprint(alloc), "C33/alloc/"+where)
			}
			if err != nil {
				if c.Res.Ok {
					cl := "other"
					if strings.Contains(err.Error(), "unknown prefix for compact uint") {
						cl = "compact-uint-prefix-unknown"
					}
					fail("decode", spec, "error: "+err.Error(), "C33/"+c.O.Ty+"/rejects-valid/"+cl)
				}
				continue
			}
			if !c.Res.Ok {
				fail("decode", spec, fmt.Sprintf("accepted: %v", m), "C33/"+where+"/accepted")
				continue
			}
			// accepted by both: "Successfully decoded messages re-encode to equal messages"
			re, err := d.encode(m)
			res.Cmp()
			want := b[:c.Res.N]
			if isPb { // protobuf: unknown fields and repeated scalars are dropped; the canonical encoding of the value
				want = c.Res.Enc.Bytes()
				if bodyCount {
					want = b
					re = vnPbNorm("blockresponse", re)
				} else {
					re = vnPbNorm(c.O.Ty, re)
				}
			}
			if err != nil || !bytes.Equal(re, want) {
				fail("re-encode", vHex(want), vHex(re)+fmt.Sprint(err), "C33/"+c.O.Ty+"/reencode")
			}
		}
	}
	vnCrafted(res, decs)
	vnSeeded(res)
}

// vnCrafted: "crafted length prefixes" with controlled sizes: one extrinsic declaring 2^20 / 2^22 bytes.
func vnCrafted(res *vResult, decs map[string]vnDecoder) {
	for _, ty := range []string{"txmsg", "body"} {
		// a huge declared LENGTH of the first element, and a huge declared COUNT of elements (below every constant cap a
		// decoder may have: what bounds the work is the number of bytes received)
		var inputs [][]byte
		what := map[string]string{}
		for _, head := range [][]byte{{2, 0, 64, 0}, {2, 0, 0, 1}} {
			in := append(append([]byte{4}, head...), 1, 2, 3)
			inputs = append(inputs, in)
			what[string(in)] = "declared-length"
		}
		for _, count := range [][]byte{{2, 0, 0, 4}, {2, 0, 0, 1}, {2, 0, 64, 0}, {254, 255, 255, 3}} {
			for _, in := range [][]byte{append([]byte{}, count...), append(append([]byte{}, count...), 4, 9), append(append([]byte{}, count...), 4, 9, 4, 9, 4, 9, 4, 9)} {
				inputs = append(inputs, in)
				what[string(in)] = "declared-count"
			}
		}
		for _, b := range inputs {
			ty := ty + "/" + what[string(b)]
			raw := json.RawMessage(vJSON([]any{map[string]any{"o": map[string]any{"op": "crafted", "ty": ty, "b": b}}}))
			res.Case("crafted/"+ty, vHex(b))
			m, err, pm, to, alloc := vnGuarded(decs[strings.SplitN(ty, "/", 2)[0]].decode, b)
			res.Cmp()
			switch {
			case to || pm != "":
				res.Fail(-1, 0, ty, "decode", "error", fmt.Sprint("timeout=", to, " ", pm), "C33/crafted/"+ty+"/panic-or-timeout", raw)
			case alloc > vnBudget(len(b)):
				res.Fail(-1, 0, ty, "allocation", fmt.Sprintf("<= %d bytes for %d input bytes", vnBudget(len(b)), len(b)), fmt.Sprint(alloc), "C33/crafted/"+ty+"/alloc", raw)
			}
			if err == nil && pm == "" && !to {
				res.Fail(-1, 0, ty, "decode", "error (declared length exceeds input)", fmt.Sprintf("accepted %T", m), "C33/crafted/"+ty+"/accepted", raw)
			}
		}
	}
}

// vnSeeded drives the decoders that have no modelled layout with seeded mutations of valid messages.
func vnSeeded(res *vResult) {
	rng := rand.New(rand.NewSource(vSeed()))
	h := common.Hash{1, 2, 3}
	type target struct {
		name   string
		valid  [][]byte
		extra  [][]byte // well-formed at the protobuf layer but odd: mutation bases, not required to decode
		decode func(b []byte) (any, error)
		encode func(m any) ([]byte, error)
	}
	must := func(b []byte, err error) []byte {
		if err != nil {
			panic("VERIF-INFRA seed encode: " + err.Error())
		}
		return b
	}
	var targets []target
	// block request / response (protobuf)
	{
		var valid [][]byte
		for _, r := range []*messages.BlockRequestMessage{
			messages.NewBlockRequest(*messages.NewFromBlock(uint(1)), 1, messages.BootstrapRequestData, messages.Ascending),
			messages.NewBlockRequest(*messages.NewFromBlock(h), 128, messages.RequestedDataHeader, messages.Descending),
			messages.NewBlockRequest(*messages.NewFromBlock(uint(1<<40)), 0, 0xff, messages.Ascending),
		} {
			valid = append(valid, must(r.Encode()))
		}
		// what a peer can send: a syntactically fine protobuf whose number / hash field has any length
		var extra [][]byte
		for _, n := range []int{0, 1, 3, 5, 8} {
			extra = append(extra, must(proto.Marshal(&pb.BlockRequest{Fields: 1 << 24, FromBlock: &pb.BlockRequest_Number{Number: make([]byte, n)}, MaxBlocks: 1})))
			extra = append(extra, must(proto.Marshal(&pb.BlockRequest{Fields: 3 << 24, FromBlock: &pb.BlockRequest_Hash{Hash: make([]byte, n)}})))
		}
		extra = append(extra, must(proto.Marshal(&pb.BlockRequest{Fields: 1})))
		targets = append(targets, target{"blockrequest", valid, extra,
			func(b []byte) (any, error) { m := new(messages.BlockRequestMessage); err := m.Decode(b); return m, err },
			func(m any) ([]byte, error) { return m.(*messages.BlockRequestMessage).Encode() }})
		hdr := types.NewHeader(h, h, h, 7, types.NewDigest())
		body := types.NewBody([]types.Extrinsic{{1, 2}, {}})
		just := []byte{9, 9}
		resp := &messages.BlockResponseMessage{BlockData: []*types.BlockData{
			{Hash: hdr.Hash(), Header: hdr, Body: body, Justification: &just},
			{Hash: h},
		}}
		respExtra := [][]byte{
			must(proto.Marshal(&pb.BlockResponse{Blocks: []*pb.BlockData{{Hash: []byte{1}, Header: []byte{1, 2}, Body: [][]byte{{}}}}})),
			must(proto.Marshal(&pb.BlockResponse{Blocks: []*pb.BlockData{{}, nil}})),
			must(proto.Marshal(&pb.BlockResponse{Blocks: []*pb.BlockData{{Hash: make([]byte, 32), Header: must(resp.Encode())[:40], IsEmptyJustification: true}}})),
		}
		targets = append(targets, target{"blockresponse", [][]byte{must(resp.Encode()), must((&messages.BlockResponseMessage{}).Encode())}, respExtra,
			func(b []byte) (any, error) { m := new(messages.BlockResponseMessage); err := m.Decode(b); return m, err },
			func(m any) ([]byte, error) { return m.(*messages.BlockResponseMessage).Encode() }})
	}
	// warp proof request, consensus message, light request / response
	targets = append(targets, target{"warpproofrequest", [][]byte{must((&messages.WarpProofRequest{Begin: h}).Encode())}, nil,
		func(b []byte) (any, error) { m := new(messages.WarpProofRequest); err := m.Decode(b); return m, err },
		func(m any) ([]byte, error) { return m.(*messages.WarpProofRequest).Encode() }})
	targets = append(targets, target{"consensus", [][]byte{{1, 2, 3}, {}}, nil,
		func(b []byte) (any, error) { m := new(ConsensusMessage); err := m.Decode(b); return m, err },
		func(m any) ([]byte, error) { return m.(*ConsensusMessage).Encode() }})
	{
		lr := NewLightRequest()
		lr.RemoteCallRequest.Block = []byte{1}
		lr.RemoteReadRequest.Keys = [][]byte{{1}, {4, 5}}
		lresp := NewLightResponse()
		lresp.RemoteReadResponse.Proof = []byte{4, 5}
		targets = append(targets, target{"lightrequest", [][]byte{must(lr.Encode()), must(NewLightRequest().Encode())}, nil,
			func(b []byte) (any, error) { return newLightRequestFromBytes(b) },
			func(m any) ([]byte, error) { return m.(*LightRequest).Encode() }})
		// a response that carries headers, and header lists with absent (Option::None) entries: a peer chooses the bytes
		lhdr := NewLightResponse()
		lhdr.RemoteHeaderResponse.Header = []*types.Header{types.NewEmptyHeader(), types.NewEmptyHeader()}
		lightExtra := [][]byte{{0, 0, 4, 0, 0, 0, 0, 0}, {0, 0, 8, 0, 0, 0, 0, 0, 0}, {0, 0, 12, 0, 0, 0, 0, 0, 0, 0}}
		if enc, err := lhdr.Encode(); err == nil {
			lightExtra = append(lightExtra, enc)
		}
		targets = append(targets, target{"lightresponse", [][]byte{must(lresp.Encode()), must(NewLightResponse().Encode())}, lightExtra,
			func(b []byte) (any, error) { return newLightResponseFromBytes(b) },
			func(m any) ([]byte, error) { return m.(*LightResponse).Encode() }})
	}
	per := 300
	if vThorough() {
		per = 6000
	}
	small := []byte{0, 1, 2, 3, 4, 8, 10, 16, 18, 26, 0x7f, 0x80, 0xff}
	for _, tg := range targets {
		for i := 0; i < per; i++ {
			bases := append(append([][]byte(nil), tg.valid...), tg.extra...)
			vi := rng.Intn(len(bases))
			if i < len(bases) {
				vi = i // every base once, unmodified
			}
			v := bases[vi]
			b := append([]byte(nil), v...)
			k := rng.Intn(6)
			if i < len(bases) {
				k = 5
			}
			switch {
			case k == 0 && len(b) > 0:
				b = b[:rng.Intn(len(b))]
			case k <= 2 && len(b) > 0:
				b[rng.Intn(len(b))] = small[rng.Intn(len(small))]
			case k == 3 && len(b) > 0:
				p := rng.Intn(len(b))
				b = append(b[:p], b[p+1:]...)
			case k == 4:
				p := rng.Intn(len(b) + 1)
				b = append(b[:p], append([]byte{small[rng.Intn(len(small))]}, b[p:]...)...)
			default:
				if i >= len(bases) && i%50 != 0 { // keep the bases themselves and some more unmodified copies
					n := rng.Intn(12)
					b = make([]byte, n)
					for j := range b {
						b[j] = small[rng.Intn(len(small))]
					}
				}
			}
			// a SCALE length prefix in 4-byte or big-integer mode can declare gigabytes, which the SCALE
			// library allocates up front (recorded under C12, probed below with controlled sizes): keep
			// such bytes out of the seeded inputs of SCALE-decoded targets
			if tg.name == "lightrequest" || tg.name == "lightresponse" || tg.name == "consensus" {
				for j := range b {
					if b[j]&3 >= 2 {
						b[j] &^= 2
					}
				}
			}
			res.Case("seeded/"+tg.name, "")
			raw := json.RawMessage(vJSON([]any{map[string]any{"o": map[string]any{"op": "seeded", "ty": tg.name, "b": b}}}))
			m, err, pm, to, alloc := vnGuarded(tg.decode, b)
			res.Cmp()
			switch {
			case to:
				res.Fail(-1, i, tg.name, "decode", "message or error", "timeout", "C33/seeded/"+tg.name+"/timeout", raw)
				continue
			case pm != "":
				res.Fail(-1, i, tg.name, "decode", "message or error", pm, "C33/seeded/"+tg.name+"/panic", raw)
				continue
			}
			if alloc > vnBudget(len(b))+1<<20 {
				res.Fail(-1, i, tg.name, "allocation", fmt.Sprint("<= ", vnBudget(len(b))+1<<20), fmt.Sprint(alloc), "C33/seeded/"+tg.name+"/alloc", raw)
			}
			if err != nil {
				if vi < len(tg.valid) && bytes.Equal(b, v) {
					res.Fail(-1, i, tg.name, "decode(valid)", "message", "error: "+err.Error(), "C33/seeded/"+tg.name+"/rejects-valid", raw)
				}
				continue
			}
			// accepted: re-encode, decode again, must be the same message
			var re []byte
			var m2 any
			var err2 error
			if pm := vTry(func() {
				re, err2 = tg.encode(m)
				if err2 == nil {
					m2, err2 = tg.decode(re)
				}
			}); pm != "" {
				res.Fail(-1, i, tg.name, "re-encode", "equal message", pm, "C33/seeded/"+tg.name+"/reencode-panic", raw)
				continue
			}
			res.Cmp()
			if err2 != nil {
				res.Fail(-1, i, tg.name, "re-encode", "equal message", "error: "+err2.Error(), "C33/seeded/"+tg.name+"/reencode-error", raw)
			} else if fmt.Sprint(m2) != fmt.Sprint(m) {
				res.Fail(-1, i, tg.name, "re-encode", fmt.Sprint(m), fmt.Sprint(m2), "C33/seeded/"+tg.name+"/reencode-differs", raw)
			}
		}
	}
}

func scaleMarshalBody(b *types.Body) ([]byte, error) { return scale.Marshal(*b) }
