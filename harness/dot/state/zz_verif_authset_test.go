//go:build verif

// Conformance harness for C23 (specs/AuthoritySet.tla): TLC-generated behaviours (Import / Finalise over a
// growing block tree with scheduled and forced authority-set change announcements) are replayed on the real
// BlockState + GrandpaState in the order dot/core.handleBlock and dot/digest.Handler use them:
//
//	Import:   BlockState.AddBlock, GrandpaState.HandleGRANDPADigest, GrandpaState.ApplyForcedChanges
//	Finalise: BlockState.SetFinalisedHash, GrandpaState.ApplyScheduledChanges
//
// After every step the harness compares the step result, GetCurrentSetID, GetAuthorities(s) for every set,
// GetSetIDByBlockNumber(n) for every block number and NextGrandpaAuthorityChange for every live block with
// what the specification prescribes.  After a disagreement the real GrandpaState is re-synchronised with the
// specification state so that one finding does not hide the rest of the behaviour.
package state

import (
	"encoding/json"
	"errors"
	"fmt"
	"sort"
	"strings"
	"testing"
	"time"

	"github.com/ChainSafe/gossamer/dot/types"
	"github.com/ChainSafe/gossamer/internal/database"
	"github.com/ChainSafe/gossamer/lib/common"
	"github.com/ChainSafe/gossamer/pkg/scale"
	"github.com/ChainSafe/gossamer/pkg/trie"
)

type vasNoTelemetry struct{}

func (vasNoTelemetry) SendMessage(json.Marshaler) {}

type vasAnn struct {
	K string `json:"k"`
	D int    `json:"d"`
	A int    `json:"a"`
	M int    `json:"m"`
}

type vasOp struct {
	Op string `json:"op"`
	P  int    `json:"p"`
	B  int    `json:"b"`
	A  vasAnn `json:"a"`
}

type vasObs struct {
	SetID   int      `json:"setId"`
	Auths   []int    `json:"auths"`
	LastOf  []int    `json:"lastOf"`
	Wf      bool     `json:"wf"`
	SetIDAt []int    `json:"setIdAt"`
	Limits  [][2]int `json:"limits"`
	Fin     int      `json:"fin"`
	Pstd    []int    `json:"pstd"`
	Pfor    []int    `json:"pfor"`
}

type vasStep struct {
	O   vasOp  `json:"o"`
	Res string `json:"res"`
	Cls string `json:"cls"`
	Obs vasObs `json:"obs"`
}

// vasAuthsRaw maps an abstract authority-list id to a concrete list (id+1 authorities, distinct keys/weights).
func vasAuthsRaw(id int) []types.GrandpaAuthoritiesRaw {
	out := make([]types.GrandpaAuthoritiesRaw, id+1)
	for i := range out {
		var k [32]byte
		for j := range k {
			k[j] = byte(17*id + 3*i + j + 1)
		}
		out[i] = types.GrandpaAuthoritiesRaw{Key: k, ID: uint64(10*id + i + 1)}
	}
	return out
}

func vasVoters(t testing.TB, id int) []types.GrandpaVoter {
	v, err := types.NewGrandpaVotersFromAuthoritiesRaw(vasAuthsRaw(id))
	if err != nil {
		t.Fatalf("VERIF-INFRA voters: %v", err)
	}
	return v
}

// vasWorld is the real state under test plus the harness' own copy of the forest.
type vasWorld struct {
	t      testing.TB
	db     database.Database
	bs     *BlockState
	gs     *GrandpaState
	hdr    []*types.Header // by spec block id
	par    []int
	num    []int
	ann    []vasAnn
	byHash map[common.Hash]int
	round  uint64
}

func vasBabeDigest(t testing.TB, slot uint64) any {
	pd, err := types.NewBabeSecondaryPlainPreDigest(0, slot).ToPreRuntimeDigest()
	if err != nil {
		t.Fatalf("VERIF-INFRA babe digest: %v", err)
	}
	return *pd
}

func vasNewWorld(t testing.TB) *vasWorld {
	db, err := database.NewPebble(t.TempDir(), true)
	if err != nil {
		t.Fatalf("VERIF-INFRA db: %v", err)
	}
	tries := NewTries()
	tries.SetEmptyTrie()
	gen := types.NewHeader(common.Hash{}, trie.EmptyHash, trie.EmptyHash, 0, types.NewDigest())
	bs, err := NewBlockStateFromGenesis(db, tries, gen, vasNoTelemetry{})
	if err != nil {
		t.Fatalf("VERIF-INFRA block state: %v", err)
	}
	gs, err := NewGrandpaStateFromGenesis(db, bs, vasVoters(t, 0), vasNoTelemetry{})
	if err != nil {
		t.Fatalf("VERIF-INFRA grandpa state: %v", err)
	}
	w := &vasWorld{t: t, db: db, bs: bs, gs: gs, hdr: []*types.Header{gen}, par: []int{-1}, num: []int{0},
		ann: []vasAnn{{K: "N"}}, byHash: map[common.Hash]int{gen.Hash(): 0}}
	return w
}

func (w *vasWorld) close() { _ = w.db.Close() }

func (w *vasWorld) anc(a, b int) bool { // strict
	for b > 0 {
		b = w.par[b]
		if b == a {
			return true
		}
	}
	return false
}

func (w *vasWorld) ancEq(a, b int) bool { return a == b || w.anc(a, b) }

func (w *vasWorld) eff(b int) int { return w.num[b] + w.ann[b].D }

func (w *vasWorld) grandpaDigest(a vasAnn) (types.GrandpaConsensusDigest, bool) {
	d := types.NewGrandpaConsensusDigest()
	var err error
	switch a.K {
	case "S":
		err = d.SetValue(types.GrandpaScheduledChange{Auths: vasAuthsRaw(a.A), Delay: uint32(a.D)})
	case "F":
		err = d.SetValue(types.GrandpaForcedChange{BestFinalizedBlock: uint32(a.M), Auths: vasAuthsRaw(a.A), Delay: uint32(a.D)})
	default:
		return d, false
	}
	if err != nil {
		w.t.Fatalf("VERIF-INFRA grandpa digest: %v", err)
	}
	return d, true
}

func vasErrClass(err error) string {
	switch {
	case err == nil:
		return "ok"
	case errors.Is(err, errAlreadyHasForcedChange):
		return "err-forced-pending"
	case errors.Is(err, errPendingScheduledChanges):
		return "err-forced-dependency"
	case errors.Is(err, errUnfinalizedAncestor):
		return "err-unfinalized-ancestor"
	case errors.Is(err, errDuplicateHashes):
		return "err-duplicate"
	case strings.Contains(err.Error(), "ancestry") || strings.Contains(err.Error(), "getting header"):
		return "err-pruned-ancestry"
	}
	return "err-other"
}

// importBlock mirrors dot/core.(*Service).handleBlock for the parts that concern the authority set.
func (w *vasWorld) importBlock(p int, a vasAnn) (string, string) {
	b := len(w.hdr)
	digest := types.NewDigest()
	if err := digest.Add(vasBabeDigest(w.t, uint64(b))); err != nil {
		w.t.Fatalf("VERIF-INFRA digest add: %v", err)
	}
	gd, has := w.grandpaDigest(a)
	if has {
		enc, err := scale.Marshal(gd)
		if err != nil {
			w.t.Fatalf("VERIF-INFRA marshal: %v", err)
		}
		if err := digest.Add(types.ConsensusDigest{ConsensusEngineID: types.GrandpaEngineID, Data: enc}); err != nil {
			w.t.Fatalf("VERIF-INFRA digest add: %v", err)
		}
	}
	var salt common.Hash
	salt[0], salt[1] = byte(b), byte(b>>8)
	salt[31] = 0xb1
	h := types.NewHeader(w.hdr[p].Hash(), trie.EmptyHash, salt, uint(w.num[p]+1), digest)
	w.hdr = append(w.hdr, h)
	w.par = append(w.par, p)
	w.num = append(w.num, w.num[p]+1)
	w.ann = append(w.ann, a)
	w.byHash[h.Hash()] = b
	blk := &types.Block{Header: *h, Body: types.Body{}}
	if err := w.bs.AddBlockWithArrivalTime(blk, time.Unix(int64(1000+b), 0)); err != nil {
		w.t.Fatalf("VERIF-INFRA AddBlock: %v", err)
	}
	if has {
		// round trip through the wire form, as dot/digest.BlockImportHandler does
		enc, _ := scale.Marshal(gd)
		dec := types.NewGrandpaConsensusDigest()
		if err := scale.Unmarshal(enc, &dec); err != nil {
			w.t.Fatalf("VERIF-INFRA unmarshal: %v", err)
		}
		if err := w.gs.HandleGRANDPADigest(h, dec); err != nil {
			return vasErrClass(err), err.Error()
		}
	}
	if err := w.gs.ApplyForcedChanges(h); err != nil {
		return vasErrClass(err), err.Error()
	}
	return "ok", ""
}

func (w *vasWorld) finalise(b int, setID int) (string, string) {
	w.round++
	if err := w.bs.SetFinalisedHash(w.hdr[b].Hash(), w.round, uint64(setID)); err != nil {
		w.t.Fatalf("VERIF-INFRA SetFinalisedHash(%d): %v", b, err)
	}
	if err := w.gs.ApplyScheduledChanges(w.hdr[b]); err != nil {
		return vasErrClass(err), err.Error()
	}
	return "ok", ""
}

// pending projects the real pending sets to spec block ids (-1 = unknown hash).
func (w *vasWorld) pending() (std, forced []int) {
	var walk func(n *pendingChangeNode)
	walk = func(n *pendingChangeNode) {
		id, ok := w.byHash[n.change.announcingHeader.Hash()]
		if !ok {
			id = -1
		}
		std = append(std, id)
		for _, c := range n.nodes {
			walk(c)
		}
	}
	for _, r := range *w.gs.scheduledChangeRoots {
		walk(r)
	}
	for _, c := range *w.gs.forcedChanges {
		id, ok := w.byHash[c.announcingHeader.Hash()]
		if !ok {
			id = -1
		}
		forced = append(forced, id)
	}
	sort.Ints(std)
	sort.Ints(forced)
	return
}

func (w *vasWorld) mkChange(b int) *pendingChange {
	auths, err := types.GrandpaAuthoritiesRawToAuthorities(vasAuthsRaw(w.ann[b].A))
	if err != nil {
		w.t.Fatalf("VERIF-INFRA auths: %v", err)
	}
	return &pendingChange{bestFinalizedNumber: uint32(w.ann[b].M), delay: uint32(w.ann[b].D),
		nextAuthorities: auths, announcingHeader: w.hdr[b]}
}

// resync forces the real GrandpaState into the specification state o.
func (w *vasWorld) resync(o vasObs) {
	live := func(b int) bool { return w.ancEq(o.Fin, b) || w.anc(b, o.Fin) }
	nodes := map[int]*pendingChangeNode{}
	roots := changeTree{}
	for _, b := range o.Pstd { // ascending ids = parent first
		if !live(b) {
			continue // lazily pruned by the specification; unreachable from any root the code looks at
		}
		n := &pendingChangeNode{change: w.mkChange(b)}
		nodes[b] = n
		best := -1
		for a := range nodes {
			if a != b && w.anc(a, b) && (best < 0 || w.num[a] > w.num[best]) {
				best = a
			}
		}
		if best >= 0 {
			nodes[best].nodes = append(nodes[best].nodes, n)
		} else {
			roots = append(roots, n)
		}
	}
	*w.gs.scheduledChangeRoots = roots
	fc := orderedPendingChanges{}
	for _, b := range o.Pfor {
		if live(b) {
			fc = append(fc, *w.mkChange(b))
		}
	}
	sort.SliceStable(fc, func(i, j int) bool {
		if fc[i].effectiveNumber() != fc[j].effectiveNumber() {
			return fc[i].effectiveNumber() < fc[j].effectiveNumber()
		}
		return fc[i].announcingHeader.Number < fc[j].announcingHeader.Number
	})
	*w.gs.forcedChanges = fc
	must := func(err error) {
		if err != nil {
			w.t.Fatalf("VERIF-INFRA resync: %v", err)
		}
	}
	must(w.gs.setCurrentSetID(uint64(o.SetID)))
	for s, a := range o.Auths {
		must(w.gs.setAuthorities(uint64(s), vasVoters(w.t, a)))
	}
	must(w.gs.setChangeSetIDAtBlock(0, 0))
	for s, n := range o.LastOf {
		must(w.gs.setChangeSetIDAtBlock(uint64(s+1), uint(n)))
	}
	for s := o.SetID + 1; s <= o.SetID+2; s++ {
		must(w.gs.db.Del(setIDChangeKey(uint64(s))))
		must(w.gs.db.Del(authoritiesKey(uint64(s))))
	}
}

func vasInts(a []int) string { return fmt.Sprint(a) }

func vasMissing(spec, real []int) []int {
	in := map[int]bool{}
	for _, x := range real {
		in[x] = true
	}
	var out []int
	for _, x := range spec {
		if !in[x] {
			out = append(out, x)
		}
	}
	return out
}

func TestVerifAuthoritySet(t *testing.T) {
	res := vNewResult(vEnvStr("VERIF_PROP", "C23"))
	defer res.Write(t)
	behs := vLoad(t, vIn(t, "behaviours.txt"))
	res.Behaviours = len(behs)
	lostTotal := 0
	for _, b := range behs {
		w := vasNewWorld(t)
		var prefix []json.RawMessage
		lostCause := ""
		curSet := 0
		for si, raw := range b.Steps {
			var s vasStep
			if err := json.Unmarshal(raw, &s); err != nil {
				t.Fatalf("VERIF-INFRA step json: %v", err)
			}
			prefix = append(prefix, raw)
			if si == 0 {
				res.Sample(b.Steps)
			}
			res.Case(s.O.Op, fmt.Sprintf("%s|%v|%d|%v|%v", s.Cls, s.O.A, s.Obs.SetID, s.Obs.Pstd, s.Obs.Pfor))
			failed := false
			fail := func(field, exp, got, fclass string) {
				failed = true
				res.Fail(b.ID, si, s.O.Op, field, exp, got, "C23/"+s.O.Op+"/"+s.Cls+"/"+field+"/"+fclass, prefix)
			}
			cause := func() string {
				if lostCause != "" {
					return "after-lost-pending@" + lostCause
				}
				return "direct"
			}
			var got, detail string
			pm := vTry(func() {
				if s.O.Op == "Import" {
					got, detail = w.importBlock(s.O.P, s.O.A)
				} else {
					got, detail = w.finalise(s.O.B, curSet)
				}
			})
			if pm != "" {
				got, detail = "panic", pm
			}
			res.Cmp()
			if got != s.Res {
				fc := got
				if got == "ok" || strings.HasPrefix(s.Res, "err") && got != "err-pruned-ancestry" {
					fc = got + "-instead-of-" + s.Res
				}
				if lostCause != "" && got != "err-pruned-ancestry" {
					fc += "/" + cause()
				}
				fail("res", s.Res, got+" "+detail, fc)
			}
			if s.Res != "ok" && !failed {
				// Substrate rejects the block and rolls the authority set back; gossamer keeps the block and,
				// for a failed dependency check, the announcement: mirror the rejection
				w.resync(s.Obs)
			}
			if !failed && lostCause == "" {
				// diagnosis only (names the cause in later signatures): a change the specification still holds
				// on the finalised chain or a live fork that the code no longer has
				std, _ := w.pending()
				var want []int
				for _, x := range s.Obs.Pstd {
					if w.ancEq(s.Obs.Fin, x) || w.anc(x, s.Obs.Fin) {
						want = append(want, x)
					}
				}
				if m := vasMissing(want, std); len(m) > 0 {
					lostCause = s.O.Op + ":" + s.Cls
					lostTotal++
				}
			}
			// ---- observations -------------------------------------------------------------
			pm = vTry(func() {
				if !failed {
					res.Cmp()
					id, err := w.gs.GetCurrentSetID()
					if err != nil || int(id) != s.Obs.SetID {
						fail("setId", fmt.Sprint(s.Obs.SetID), fmt.Sprintf("%d err=%v", id, err), cause())
					}
				}
				if !failed {
					for sid, a := range s.Obs.Auths {
						res.Cmp()
						v, err := w.gs.GetAuthorities(uint64(sid))
						exp := vasVoters(t, a)
						if err != nil || fmt.Sprint(v) != fmt.Sprint(exp) {
							fail("auths", fmt.Sprintf("set %d = list %d", sid, a), fmt.Sprintf("%v err=%v", v, err), cause())
							break
						}
					}
				}
				if !failed && s.Obs.Wf {
					for n, exp := range s.Obs.SetIDAt {
						res.Cmp()
						id, err := w.gs.GetSetIDByBlockNumber(uint(n))
						if err != nil || int(id) != exp {
							fail("setIdAt", fmt.Sprintf("block %d in set %d (last blocks of sets: %v)", n, exp, s.Obs.LastOf),
								fmt.Sprintf("%d err=%v", id, err), cause())
							break
						}
					}
				}
				if !failed {
					for _, l := range s.Obs.Limits {
						x, lim := l[0], l[1]
						if lim == -2 {
							continue
						}
						res.Cmp()
						n, err := w.gs.NextGrandpaAuthorityChange(w.hdr[x].Hash(), uint(w.num[x]))
						g := int(n)
						if errors.Is(err, ErrNoNextAuthorityChange) {
							g, err = -1, nil
						}
						if err != nil {
							fail("limit", fmt.Sprintf("block %d: %d", x, lim), "error "+err.Error(), vasErrClass(err))
							break
						}
						if g != lim {
							fail("limit", fmt.Sprintf("block %d: %d", x, lim), fmt.Sprint(g), cause())
							break
						}
					}
				}
			})
			if pm != "" {
				fail("observe", "no panic", pm, "panic")
			}
			curSet = s.Obs.SetID
			if failed {
				w.resync(s.Obs)
				lostCause = ""
			}
		}
		w.close()
	}
	res.Extra["behaviours_with_silently_lost_pending_change"] = lostTotal
}
