//go:build verif

// Conformance harness for C34 at the dot/state level (specs/TxState.tla): TLC-generated sequences of
// Push / AddToPool / Pop / Peek / RemoveExtrinsic / RemoveExtrinsicFromPool / Exists are replayed on a real
// TransactionState (real PriorityQueue + real Pool); every result and, after every step, Pending() (pop order)
// and PendingInPool() (as sets) are compared with the specification.
package state

import (
	"encoding/json"
	"fmt"
	"sort"
	"testing"

	"github.com/ChainSafe/gossamer/dot/types"
	"github.com/ChainSafe/gossamer/lib/transaction"
)

type vtsStep struct {
	O struct {
		Op   string `json:"op"`
		Tx   int    `json:"tx"`
		Prio uint64 `json:"prio"`
	} `json:"o"`
	Res int `json:"res"`
	Obs struct {
		Ready []struct {
			Tx   int    `json:"tx"`
			Prio uint64 `json:"prio"`
		} `json:"ready"`
		Pool []int `json:"pool"`
	} `json:"obs"`
}

// order-preserving map of the specification's priorities onto the whole uint64 range
func vtsPrio(p uint64) uint64 {
	switch p {
	case 0:
		return 0
	case 1:
		return 1
	case 2:
		return 1 << 62
	case 3:
		return 1<<63 + 5
	}
	return ^uint64(0)
}

func vtsExt(id int) types.Extrinsic { return types.Extrinsic{0x7e, byte(id), byte(id >> 8), 0x51} }

func vtsID(e types.Extrinsic) int {
	if len(e) != 4 || e[0] != 0x7e {
		return -1
	}
	return int(e[1]) | int(e[2])<<8
}

func TestVerifTxState(t *testing.T) {
	res := vNewResult(vEnvStr("VERIF_PROP", "C34"))
	defer res.Write(t)
	behs := vLoad(t, vIn(t, "txstate.txt"))
	res.Behaviours = len(behs)
	for _, b := range behs {
		ts := NewTransactionState(vstNopTelemetry{})
		var prefix []json.RawMessage
		for si, raw := range b.Steps {
			var s vtsStep
			if err := json.Unmarshal(raw, &s); err != nil {
				t.Fatalf("VERIF-INFRA step json: %v", err)
			}
			prefix = append(prefix, raw)
			if si == 0 {
				res.Sample(b.Steps)
			}
			o := s.O
			failed := false
			fail := func(field, exp, got, sig string) {
				failed = true
				res.Fail(b.ID, si, o.Op, field, exp, got, "C34/state/"+sig, prefix)
			}
			// where the transaction is before the step (classifies the step)
			where := "absent"
			if o.Tx != 0 && si > 0 {
				var ps vtsStep
				_ = json.Unmarshal(prefix[si-1], &ps)
				inQ, inP := false, false
				for _, e := range ps.Obs.Ready {
					inQ = inQ || e.Tx == o.Tx
				}
				for _, p := range ps.Obs.Pool {
					inP = inP || p == o.Tx
				}
				switch {
				case inQ && inP:
					where = "in-queue-and-pool"
				case inQ:
					where = "in-queue"
				case inP:
					where = "in-pool"
				}
			}
			res.Case(o.Op, where)
			got := 0
			pm := vTry(func() {
				vt := transaction.NewValidTransaction(vtsExt(o.Tx), &transaction.Validity{Priority: vtsPrio(o.Prio)})
				switch o.Op {
				case "Push":
					if _, err := ts.Push(vt); err == nil {
						got = 1
					}
				case "AddToPool":
					ts.AddToPool(vt)
				case "Pop":
					if x := ts.Pop(); x != nil {
						got = vtsID(x.Extrinsic)
					}
				case "Peek":
					if x := ts.Peek(); x != nil {
						got = vtsID(x.Extrinsic)
					}
				case "RemoveExtrinsic":
					ts.RemoveExtrinsic(vtsExt(o.Tx))
				case "RemoveExtrinsicFromPool":
					ts.RemoveExtrinsicFromPool(vtsExt(o.Tx))
				case "Exists":
					if ts.Exists(vtsExt(o.Tx)) {
						got = 1
					}
				default:
					t.Fatalf("VERIF-INFRA unknown op %q", o.Op)
				}
			})
			res.Cmp()
			if pm != "" {
				fail("panic", "no panic", pm, o.Op+"/"+where+"/panic")
			} else if got != s.Res {
				fail("result", fmt.Sprint(s.Res), fmt.Sprint(got), o.Op+"/"+where+"/result")
			}
			if failed {
				break
			}
			// Pending() = the ready queue (heap array, no promised order) followed by the pool; the yield order is observed
			// through Pop / Peek, so identities are compared as a multiset
			var ready, want []string
			for _, e := range ts.Pending() {
				ready = append(ready, fmt.Sprint(vtsID(e.Extrinsic)))
			}
			for _, e := range s.Obs.Ready {
				want = append(want, fmt.Sprint(e.Tx))
			}
			for _, p := range s.Obs.Pool {
				want = append(want, fmt.Sprint(p))
			}
			sort.Strings(ready)
			sort.Strings(want)
			res.Cmp()
			if fmt.Sprint(ready) != fmt.Sprint(want) {
				fail("Pending()", fmt.Sprint(want), fmt.Sprint(ready), o.Op+"/"+where+"/pending")
				break
			}
			var pool []int
			for _, e := range ts.PendingInPool() {
				pool = append(pool, vtsID(e.Extrinsic))
			}
			sort.Ints(pool)
			res.Cmp()
			if fmt.Sprint(pool) != fmt.Sprint(append([]int{}, s.Obs.Pool...)) {
				fail("PendingInPool()", fmt.Sprint(s.Obs.Pool), fmt.Sprint(pool), o.Op+"/"+where+"/pool")
				break
			}
		}
	}
}
