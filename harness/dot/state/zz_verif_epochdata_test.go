//go:build verif

// Conformance harness for specs/EpochData.tla (C26).  Builds the generated block tree in a real
// BlockState + EpochState (in-memory database), feeds every announcement through
// HandleBABEDigest, then asks GetEpochDataRaw / GetConfigData for EVERY (epoch, block) -- from
// the imported block's header and from the header of a not yet imported child of it (the way
// BABE verification asks) -- under a watchdog, and compares with the specification's Lookup.

package state

import (
	"encoding/json"
	"fmt"
	"testing"
	"time"

	"github.com/ChainSafe/gossamer/dot/types"
	"github.com/ChainSafe/gossamer/lib/common"
)

type vedStep struct {
	O struct {
		Op string `json:"op"`
		B  int    `json:"b"`
		P  int    `json:"p"`
		N  uint   `json:"n"`
		E  uint64 `json:"e"`
		Ed bool   `json:"ed"`
		Cd bool   `json:"cd"`
	} `json:"o"`
	Obs []struct {
		B  int    `json:"b"`
		E  uint64 `json:"e"`
		D  int    `json:"d"`
		C  int    `json:"c"`
		Dn int    `json:"dn"`
		Cn int    `json:"cn"`
	} `json:"obs"`
}

const (
	vedEpochLen  = 10
	vedFirstSlot = 1000
	vedBudget    = 1500 * time.Millisecond
)

func vedEpochData(id int) types.NextEpochData {
	var r [types.RandomnessLength]byte
	r[0], r[1] = byte(id), 0x5a
	var k [32]byte
	k[0] = byte(id)
	return types.NextEpochData{Authorities: []types.AuthorityRaw{{Key: k, Weight: 1}}, Randomness: r}
}

func vedConfig(id int) types.NextConfigDataV1 {
	return types.NextConfigDataV1{C1: uint64(1000 + id), C2: 5000, SecondarySlots: 1}
}

func vedDataID(d *types.EpochDataRaw) int {
	if d == nil || d.Randomness[1] != 0x5a {
		return -9
	}
	return int(d.Randomness[0])
}

func vedConfigID(c *types.ConfigData) int {
	if c == nil || c.C2 != 5000 {
		return -9
	}
	return int(c.C1) - 1000
}

func TestVerifEpochData(t *testing.T) {
	res := vNewResult(vEnvStr("VERIF_PROP", "C26"))
	defer res.Write(t)
	behs := vLoad(t, vIn(t, "behaviours.txt"))
	res.Behaviours = len(behs)
	hangs := map[string]int{} // signature -> watchdog expiries so far (each leaks a spinning goroutine)
	skipped := 0

	for _, b := range behs {
		db := vstDB(t)
		gen := vstHeader(common.Hash{}, 0, 0, false, -1, 0)
		bs, err := NewBlockStateFromGenesis(db, NewTries(), gen, vstNopTelemetry{})
		if err != nil {
			t.Fatalf("VERIF-INFRA NewBlockStateFromGenesis: %v", err)
		}
		g0 := vedEpochData(0)
		c0 := vedConfig(0)
		es, err := NewEpochStateFromGenesis(db, bs, &types.BabeConfiguration{SlotDuration: 6000, EpochLength: vedEpochLen,
			C1: c0.C1, C2: c0.C2, GenesisAuthorities: g0.Authorities, Randomness: g0.Randomness, SecondarySlots: 1})
		if err != nil {
			t.Fatalf("VERIF-INFRA NewEpochStateFromGenesis: %v", err)
		}
		hdr := map[int]*types.Header{0: gen}
		num := map[int]uint{0: 0}
		epochOf := map[int]uint64{0: 0}
		var prefix []json.RawMessage
		poisoned := false // a lookup hung while holding the epoch state's read lock
		for si, raw := range b.Steps {
			if poisoned {
				break
			}
			var s vedStep
			if err := json.Unmarshal(raw, &s); err != nil {
				t.Fatalf("VERIF-INFRA step json: %v", err)
			}
			prefix = append(prefix, raw)
			o := s.O
			fail := func(op, field, exp, got, sig string) {
				res.Fail(b.ID, si, op, field, exp, got, "C26/"+sig, prefix)
			}
			res.Case("Add", fmt.Sprintf("%d|%d|%d|%v|%v", o.B, o.P, o.E, o.Ed, o.Cd))
			slot := uint64(vedFirstSlot + o.E*vedEpochLen + uint64(o.N))
			hd := vstHeader(hdr[o.P].Hash(), o.N, o.B, true, -1, slot)
			if err := bs.AddBlockWithArrivalTime(&types.Block{Header: *hd, Body: types.Body{}}, time.Unix(int64(1_700_000_000+si), 0)); err != nil {
				t.Fatalf("VERIF-INFRA AddBlock: %v", err)
			}
			hdr[o.B], num[o.B], epochOf[o.B] = hd, o.N, o.E
			announce := func(kind string, v any) bool {
				d := types.NewBabeConsensusDigest()
				if err := d.SetValue(v); err != nil {
					t.Fatalf("VERIF-INFRA digest: %v", err)
				}
				var herr error
				pm, to := vGuard(10*time.Second, func() { herr = es.HandleBABEDigest(hd, d) })
				res.Cmp()
				if pm != "" || to || herr != nil {
					fail("HandleBABEDigest", kind, "stored", fmt.Sprint(pm, to, herr), "HandleBABEDigest/"+kind+"/error")
					return false
				}
				return true
			}
			if o.Ed && !announce("next-epoch-data", vedEpochData(o.B)) {
				break
			}
			if o.Cd {
				vc := types.NewVersionedNextConfigData()
				if err := vc.SetValue(vedConfig(o.B)); err != nil {
					t.Fatalf("VERIF-INFRA config digest: %v", err)
				}
				if !announce("next-config-data", vc) {
					break
				}
			}
			if len(s.Obs) == 0 {
				continue
			}
			if si == len(b.Steps)-1 {
				res.Sample(map[string]any{"behaviour": b.ID, "blocks": len(hdr), "lookups": len(s.Obs)})
			}
			// ---- every (epoch, block) lookup -----------------------------------------------
			cnOf := map[uint64]int{}
			for _, q := range s.Obs {
				cnOf[q.E] = q.Cn
			}
			parentOf := map[int]int{}
			for _, pr := range prefix {
				var ps vedStep
				_ = json.Unmarshal(pr, &ps)
				parentOf[ps.O.B] = ps.O.P
			}
			phase := ""
			var liveOnly func(b int) bool
			lookups := func() {
				for _, q := range s.Obs {
					if poisoned {
						break
					}
					if liveOnly != nil && !liveOnly(q.B) {
						continue
					}
					for _, virtual := range []bool{false, true} {
						from := hdr[q.B]
						depth := num[q.B]
						via := "imported-block"
						if virtual {
							// header of a child of q.B that is not imported (and announces nothing)
							from = vstHeader(hdr[q.B].Hash(), num[q.B]+1, 200+q.B, true, -1, uint64(vedFirstSlot+q.E*vedEpochLen+9))
							depth++
							via = "unimported-child"
						}
						dcls := "depth-ge-2"
						if depth < 2 {
							dcls = "depth-lt-2"
						}
						// --- epoch data
						acls := "announced-on-ancestry"
						if q.D == -1 {
							acls = "nothing-announced-for-epoch"
							if q.Dn > 0 {
								acls = "announced-on-other-fork-only"
							}
						}
						sigBase := "GetEpochDataRaw/" + acls + "/" + dcls + phase
						if hangs[sigBase+"/hang"] >= 2 {
							skipped++
						} else {
							var got *types.EpochDataRaw
							var gerr error
							pm, to := vGuard(vedBudget, func() { got, gerr = es.GetEpochDataRaw(q.E, from) })
							res.Case("GetEpochDataRaw", fmt.Sprintf("%s|%s|%s", acls, dcls, via))
							res.Cmp()
							switch {
							case to:
								hangs[sigBase+"/hang"]++
								poisoned = true
								fail("GetEpochDataRaw", fmt.Sprintf("epoch %d from block %d (%s)", q.E, q.B, via), fmt.Sprintf("returns within %s (expected announcer: %d)", vedBudget, q.D), "no return (watchdog)", sigBase+"/hang")
							case pm != "":
								fail("GetEpochDataRaw", fmt.Sprintf("epoch %d from block %d (%s)", q.E, q.B, via), "no panic", pm, sigBase+"/panic")
							case q.D == -1 && gerr == nil:
								fail("GetEpochDataRaw", fmt.Sprintf("epoch %d from block %d (%s)", q.E, q.B, via), "error (nothing announced on the ancestry)", fmt.Sprintf("data of %d", vedDataID(got)), sigBase+"/returned-foreign-data")
							case q.D != -1 && (gerr != nil || vedDataID(got) != q.D):
								fail("GetEpochDataRaw", fmt.Sprintf("epoch %d from block %d (%s)", q.E, q.B, via), fmt.Sprintf("data of %d", q.D), fmt.Sprint(vedDataID(got), gerr), sigBase+"/wrong-data")
							}
						}
						if poisoned {
							break
						}
						// --- configuration: announced on the ancestry for the epoch, else latest earlier, else genesis
						// class: where the walk from epoch q.E down to the expected configuration's epoch
						// passes an epoch whose configuration was announced on OTHER forks only
						ccls := "config-announced-on-ancestry"
						if q.E == 0 {
							ccls = "epoch-0"
						} else if q.C == 0 || epochOf[q.C]+1 != q.E {
							ccls = "falls-back-to-earlier-config"
							low := uint64(1)
							if q.C != 0 {
								low = epochOf[q.C] + 2
							}
							for e := low; e <= q.E; e++ {
								if cnOf[e] > 0 {
									ccls = "passes-epoch-announced-on-other-fork-only"
								}
							}
						}
						csig := "GetConfigData/" + ccls + "/" + dcls + phase
						if hangs[csig+"/hang"] >= 2 {
							skipped++
							continue
						}
						var gotc *types.ConfigData
						var cerr error
						pm, to := vGuard(vedBudget, func() { gotc, cerr = es.GetConfigData(q.E, from) })
						res.Case("GetConfigData", fmt.Sprintf("%s|%s|%s", ccls, dcls, via))
						res.Cmp()
						switch {
						case to:
							hangs[csig+"/hang"]++
							poisoned = true
							fail("GetConfigData", fmt.Sprintf("epoch %d from block %d (%s)", q.E, q.B, via), fmt.Sprintf("returns within %s (expected config of %d)", vedBudget, q.C), "no return (watchdog)", csig+"/hang")
						case pm != "":
							fail("GetConfigData", fmt.Sprintf("epoch %d from block %d (%s)", q.E, q.B, via), "no panic", pm, csig+"/panic")
						case cerr != nil:
							fail("GetConfigData", fmt.Sprintf("epoch %d from block %d (%s)", q.E, q.B, via), fmt.Sprintf("config of %d", q.C), cerr.Error(), csig+"/error")
						case vedConfigID(gotc) != q.C:
							fail("GetConfigData", fmt.Sprintf("epoch %d from block %d (%s)", q.E, q.B, via), fmt.Sprintf("config of %d", q.C), fmt.Sprintf("config of %d", vedConfigID(gotc)), csig+"/wrong-config")
						}
					}
				}
			}
			lookups()
			// "queried from every block" also after the tree was pruned: at the end of the behaviour the first block of the
			// largest first-level subtree is finalised (BlockState.SetFinalisedHash prunes the competing forks; their
			// announcements stay in the epoch state's memory) and every live block is asked again -- what its own ancestry
			// announced has not changed
			if si == len(b.Steps)-1 && !poisoned {
				size := map[int]int{}
				rootOf := func(x int) int {
					for x != 0 && parentOf[x] != 0 {
						x = parentOf[x]
					}
					return x
				}
				for x := range hdr {
					if x != 0 {
						size[rootOf(x)]++
					}
				}
				fin, best := 0, 0
				for r, n := range size {
					if n > best || n == best && r < fin {
						fin, best = r, n
					}
				}
				if fin != 0 && len(size) > 1 {
					if err := bs.SetFinalisedHash(hdr[fin].Hash(), 1, 0); err != nil {
						t.Fatalf("VERIF-INFRA SetFinalisedHash(%d): %v", fin, err)
					}
					phase = "/after-pruning"
					liveOnly = func(x int) bool { return x != 0 && rootOf(x) == fin }
					lookups()
					// ... and after the node's finalisation handler ran for that block (dot/digest.Handler calls these two for every
					// finalised header): only an announcement made ON THE FINALISED CHAIN may be made the stored definition of the next
					// epoch; announcements of still-competing forks below the finalised block stay what they are, each visible to its
					// own descendants only.  (Finding nothing to persist is an answer, not a failure: the result is not compared.)
					pm := vTry(func() {
						_ = es.FinalizeBABENextEpochData(hdr[fin])
						_ = es.FinalizeBABENextConfigData(hdr[fin])
					})
					if pm != "" {
						res.Fail(b.ID, si, "Finalize", "FinalizeBABENext*", "no panic", pm, "C26/Finalize/panic", prefix)
					} else {
						phase = "/after-finalising-epoch-data"
						lookups()
					}
				}
			}
		}
		if !poisoned {
			_ = db.Close()
		}
	}
	if skipped > 0 {
		res.Notes = append(res.Notes, fmt.Sprintf("%d lookups of a class that already hung twice were not issued (each hang leaks a spinning goroutine holding the epoch state's read lock)", skipped))
	}
}
