//go:build verif

// Helpers shared by the dot/state conformance harnesses (C17 Finality, C26 EpochData,
// C27 SlotEquivocation): in-memory database, synthetic headers, no-op telemetry.

package state

import (
	"encoding/json"
	"testing"

	"github.com/ChainSafe/gossamer/dot/types"
	"github.com/ChainSafe/gossamer/internal/database"
	"github.com/ChainSafe/gossamer/lib/common"
	"github.com/ChainSafe/gossamer/pkg/scale"
)

type vstNopTelemetry struct{}

func (vstNopTelemetry) SendMessage(json.Marshaler) {}

func vstDB(t *testing.T) database.Database {
	db, err := database.LoadDatabase(t.TempDir(), true)
	if err != nil {
		t.Fatalf("VERIF-INFRA in-memory database: %v", err)
	}
	return db
}

func vstPreDigest(primary bool, slot uint64) types.Digest {
	bd := types.NewBabeDigest()
	var err error
	if primary {
		err = bd.SetValue(types.BabePrimaryPreDigest{AuthorityIndex: 0, SlotNumber: slot})
	} else {
		err = bd.SetValue(types.BabeSecondaryPlainPreDigest{AuthorityIndex: 0, SlotNumber: slot})
	}
	if err != nil {
		panic(err)
	}
	enc, err := scale.Marshal(bd)
	if err != nil {
		panic(err)
	}
	d := types.NewDigest()
	if err := d.Add(types.PreRuntimeDigest{ConsensusEngineID: types.BabeEngineID, Data: enc}); err != nil {
		panic(err)
	}
	return d
}

// vstStateRoot is the distinct synthetic state root of block id.
func vstStateRoot(id int) common.Hash {
	var sr common.Hash
	sr[0], sr[1], sr[2] = byte(id), 0xb7, 0x51
	return sr
}

// vstHeader builds a header for block id; rank >= 0 grinds the hash so that hash[0]>>4 == rank.
func vstHeader(parent common.Hash, number uint, id int, primary bool, rank int, slot uint64) *types.Header {
	for nonce := 0; ; nonce++ {
		var er common.Hash
		er[0], er[1], er[2] = byte(nonce), byte(nonce>>8), byte(nonce>>16)
		h := types.NewHeader(parent, vstStateRoot(id), er, number, vstPreDigest(primary, slot))
		if rank < 0 || int(h.Hash()[0]>>4) == rank%16 {
			return h
		}
	}
}

func vstUnknownHash(id int) common.Hash {
	var u common.Hash
	for i := range u {
		u[i] = 0xfe
	}
	u[31] = byte(id)
	return u
}
