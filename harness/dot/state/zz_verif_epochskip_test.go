//go:build verif

// Conformance harness for C26 with skipped epochs (specs/EpochSkip.tla).
//
// TLC-generated block trees in which a block may lie several epochs after its parent, with next-epoch data /
// configuration announcements, are replayed on the real BlockState + EpochState in the order the node uses them:
//
//	Add    lib/babe.VerifyBlock's lookups for the not yet imported header (GetEpochDataRaw / GetConfigData for the epoch
//	       AskOf(parent, epoch)); dot/core.HandleBlockImport's UpdateSkippedEpochDefinitions(parentEpoch+1, epoch, header)
//	       when epochs were skipped (BEFORE the block is added, as in the code); BlockState.AddBlock; HandleBABEDigest
//	Start  lib/babe.Service.initiateEpoch's GetSkippedEpochDataRaw / GetSkippedConfigData(parentEpoch+1, cur, best)
//
// and after every step every lookup that is USED for some block of the tree (own: (e(b), b) after import; child: the
// verifier's lookup for a child of p in every epoch a child may lie in) is issued and compared with the specification.
// Nothing is finalised (in-memory, fork-aware maps only).  Every call runs under a watchdog.
package state

import (
	"encoding/json"
	"fmt"
	"sort"
	"testing"
	"time"

	"github.com/ChainSafe/gossamer/dot/types"
	"github.com/ChainSafe/gossamer/lib/common"
)

type vesObs struct {
	Kind string `json:"kind"`
	B    int    `json:"b"`
	X    uint64 `json:"x"`
	Ask  uint64 `json:"ask"`
	D    int    `json:"d"`
	C    int    `json:"c"`
	Gd   []int  `json:"gd"`
	Gc   []int  `json:"gc"`
}

type vesStep struct {
	O struct {
		Op  string `json:"op"`
		B   int    `json:"b"`
		P   int    `json:"p"`
		N   uint   `json:"n"`
		E   uint64 `json:"e"`
		Ed  bool   `json:"ed"`
		Cd  bool   `json:"cd"`
		Cur uint64 `json:"cur"`
	} `json:"o"`
	Res struct {
		D       int   `json:"d"`
		C       int   `json:"c"`
		Skipped bool  `json:"skipped"`
		Gd      []int `json:"gd"`
		Gc      []int `json:"gc"`
	} `json:"res"`
	Obs []vesObs `json:"obs"`
}

func TestVerifEpochSkip(t *testing.T) {
	res := vNewResult(vEnvStr("VERIF_PROP", "C26"))
	defer res.Write(t)
	behs := vLoad(t, vIn(t, "skips.txt"))
	res.Behaviours = len(behs)
	hung := 0

	for _, b := range behs {
		if hung >= 3 {
			break
		}
		db := vstDB(t)
		gen := vstHeader(common.Hash{}, 0, 0, false, -1, 0)
		bs, err := NewBlockStateFromGenesis(db, NewTries(), gen, vstNopTelemetry{})
		if err != nil {
			t.Fatalf("VERIF-INFRA NewBlockStateFromGenesis: %v", err)
		}
		g0 := vedEpochData(0)
		c0 := vedConfig(0)
		es, err := NewEpochStateFromGenesis(db, bs, &types.BabeConfiguration{SlotDuration: 6000, EpochLength: vedEpochLen,
			C1: c0.C1, C2: c0.C2, GenesisAuthorities: g0.Authorities, Randomness: g0.Randomness, SecondarySlots: 1})
		if err != nil {
			t.Fatalf("VERIF-INFRA NewEpochStateFromGenesis: %v", err)
		}
		hdr := map[int]*types.Header{0: gen}
		num := map[int]uint{0: 0}
		epochOf := map[int]uint64{0: 0}
		var prefix []json.RawMessage
		poisoned := false
		for si, raw := range b.Steps {
			if poisoned {
				break
			}
			var s vesStep
			if err := json.Unmarshal(raw, &s); err != nil {
				t.Fatalf("VERIF-INFRA step json: %v", err)
			}
			prefix = append(prefix, raw)
			o := s.O
			if si == 0 {
				res.Sample(b.Steps)
			}
			// dev names the kind of a disagreement with the property: the result is what the implementation's re-indexing
			// design yields (specification: GossamerReindex, Code* operators) or it is neither
			dev := func(got int, design []int) string {
				for _, g := range design {
					if g == got {
						return "as-reindexing-design"
					}
				}
				return "direct"
			}
			fail := func(op, field, exp, got, sig string) {
				res.Fail(b.ID, si, op, field, exp, got, "C26/skip/"+sig, prefix)
			}
			// one data + one configuration lookup, classified; reports whether the data lookup returned an error
			lookup := func(op, what string, d, c int, gd, gc []int, data func() (*types.EpochDataRaw, error), conf func() (*types.ConfigData, error), cls string, confAfterErr bool) {
				if poisoned {
					return
				}
				var got *types.EpochDataRaw
				var gerr error
				pm, to := vGuard(vedBudget, func() { got, gerr = data() })
				res.Case(op+"/data", cls)
				res.Cmp()
				acls := "announced"
				if d == -1 {
					acls = "nothing-announced"
				}
				g := -1
				if gerr == nil {
					g = vedDataID(got)
				}
				switch {
				case to:
					poisoned = true
					hung++
					fail(op, what, fmt.Sprintf("returns within %s", vedBudget), "no return (watchdog)", op+"/data/"+acls+"/"+cls+"/hang")
				case pm != "":
					fail(op, what, "no panic", pm, op+"/data/"+acls+"/"+cls+"/panic")
				case d == -1 && gerr == nil:
					fail(op, what, "error (the ancestry announces nothing that governs this epoch)", fmt.Sprintf("data of %d (design: %v)", g, gd), op+"/data/"+acls+"/"+cls+"/returned-foreign-data/"+dev(g, gd))
				case d != -1 && gerr != nil:
					fail(op, what, fmt.Sprintf("data of %d", d), fmt.Sprintf("%v (design: %v)", gerr, gd), op+"/data/"+acls+"/"+cls+"/error/"+dev(g, gd))
				case d != -1 && g != d:
					fail(op, what, fmt.Sprintf("data of %d", d), fmt.Sprintf("data of %d (design: %v)", g, gd), op+"/data/"+acls+"/"+cls+"/wrong-data/"+dev(g, gd))
				}
				if poisoned || conf == nil || (gerr != nil && !confAfterErr) {
					return
				}
				var gotc *types.ConfigData
				var cerr error
				pm, to = vGuard(vedBudget, func() { gotc, cerr = conf() })
				res.Case(op+"/config", cls)
				res.Cmp()
				switch {
				case to:
					poisoned = true
					hung++
					fail(op, what, fmt.Sprintf("returns within %s", vedBudget), "no return (watchdog)", op+"/config/"+cls+"/hang")
				case pm != "":
					fail(op, what, "no panic", pm, op+"/config/"+cls+"/panic")
				case cerr != nil:
					fail(op, what, fmt.Sprintf("config of %d", c), cerr.Error(), op+"/config/"+cls+"/error/direct")
				case vedConfigID(gotc) != c:
					fail(op, what, fmt.Sprintf("config of %d", c), fmt.Sprintf("config of %d (design: %v)", vedConfigID(gotc), gc), op+"/config/"+cls+"/wrong-config/"+dev(vedConfigID(gotc), gc))
				}
			}
			childHeader := func(p int, x uint64, id int) *types.Header {
				return vstHeader(hdr[p].Hash(), num[p]+1, id, true, -1, uint64(vedFirstSlot+x*vedEpochLen+uint64(num[p])+1))
			}
			ask := func(p int, x uint64) uint64 {
				if num[p] != 0 && x > epochOf[p]+1 {
					return epochOf[p] + 1
				}
				return x
			}

			switch o.Op {
			case "Add":
				hd := childHeader(o.P, o.E, o.B)
				a := ask(o.P, o.E)
				cls := "next-or-same"
				if s.Res.Skipped {
					cls = "skipping"
				}
				// 1. the verifier's view of the incoming block
				lookup("verify", fmt.Sprintf("block %d (child of %d) in epoch %d asks epoch %d", o.B, o.P, o.E, a), s.Res.D, s.Res.C, s.Res.Gd, s.Res.Gc,
					func() (*types.EpochDataRaw, error) { return es.GetEpochDataRaw(a, hd) },
					func() (*types.ConfigData, error) { return es.GetConfigData(a, hd) }, cls, true)
				if poisoned {
					break
				}
				// 2. the importer re-indexes the skipped definitions before the block is added
				if s.Res.Skipped {
					var uerr error
					pm, to := vGuard(vedBudget, func() { uerr = es.UpdateSkippedEpochDefinitions(epochOf[o.P]+1, o.E, hd) })
					res.Case("UpdateSkipped", cls)
					res.Cmp()
					what := fmt.Sprintf("UpdateSkippedEpochDefinitions(%d, %d, block %d)", epochOf[o.P]+1, o.E, o.B)
					switch {
					case to:
						poisoned = true
						hung++
						fail("UpdateSkipped", what, fmt.Sprintf("returns within %s", vedBudget), "no return (watchdog)", "UpdateSkipped/"+cls+"/hang")
					case pm != "":
						fail("UpdateSkipped", what, "no panic", pm, "UpdateSkipped/"+cls+"/panic")
					case s.Res.D != -1 && uerr != nil:
						g := 0 // the design's verdict on the call: error iff no entry of the ancestry is filed under the skipped epoch
						if len(s.Res.Gd) == 1 && s.Res.Gd[0] == -1 {
							g = -1
						}
						fail("UpdateSkipped", what, "nil (the description that governs the block exists)", fmt.Sprintf("%v (design: %v)", uerr, s.Res.Gd), "UpdateSkipped/"+cls+"/error/"+dev(-1, []int{g}))
					}
				}
				if poisoned {
					break
				}
				if err := bs.AddBlockWithArrivalTime(&types.Block{Header: *hd, Body: types.Body{}}, time.Unix(int64(1_700_000_000+si), 0)); err != nil {
					t.Fatalf("VERIF-INFRA AddBlock: %v", err)
				}
				hdr[o.B], num[o.B], epochOf[o.B] = hd, o.N, o.E
				announce := func(kind string, v any) bool {
					d := types.NewBabeConsensusDigest()
					if err := d.SetValue(v); err != nil {
						t.Fatalf("VERIF-INFRA digest: %v", err)
					}
					var herr error
					pm, to := vGuard(10*time.Second, func() { herr = es.HandleBABEDigest(hd, d) })
					res.Cmp()
					if pm != "" || to || herr != nil {
						if to {
							poisoned = true
							hung++
						}
						fail("HandleBABEDigest", kind, "stored", fmt.Sprint(pm, to, herr), "HandleBABEDigest/"+kind+"/error")
						return false
					}
					return true
				}
				if o.Ed && !announce("next-epoch-data", vedEpochData(o.B)) {
					poisoned = true
				}
				if !poisoned && o.Cd {
					vc := types.NewVersionedNextConfigData()
					if err := vc.SetValue(vedConfig(o.B)); err != nil {
						t.Fatalf("VERIF-INFRA config digest: %v", err)
					}
					if !announce("next-config-data", vc) {
						poisoned = true
					}
				}
			case "Start":
				sk := epochOf[o.P] + 1
				lookup("start", fmt.Sprintf("node on block %d (epoch %d) starts epoch %d: GetSkipped*(%d, %d)", o.P, epochOf[o.P], o.Cur, sk, o.Cur), s.Res.D, s.Res.C, s.Res.Gd, s.Res.Gc,
					func() (*types.EpochDataRaw, error) { return es.GetSkippedEpochDataRaw(sk, o.Cur, hdr[o.P]) },
					func() (*types.ConfigData, error) { return es.GetSkippedConfigData(sk, o.Cur, hdr[o.P]) }, "gap", false)
			default:
				t.Fatalf("VERIF-INFRA unknown op %q", o.Op)
			}
			if poisoned {
				break
			}
			// ---- every used lookup of the tree ----
			obs := append([]vesObs{}, s.Obs...)
			sort.Slice(obs, func(i, j int) bool {
				if obs[i].B != obs[j].B {
					return obs[i].B < obs[j].B
				}
				if obs[i].Kind != obs[j].Kind {
					return obs[i].Kind > obs[j].Kind
				}
				return obs[i].X < obs[j].X
			})
			for _, q := range obs {
				if poisoned {
					break
				}
				q := q
				from := hdr[q.B]
				rel := "same-epoch"
				if q.Kind == "child" {
					from = childHeader(q.B, q.X, 200+q.B)
					switch {
					case q.X == epochOf[q.B]:
					case q.X == epochOf[q.B]+1:
						rel = "next-epoch"
					default:
						rel = "skipping"
					}
				} else if q.B > 0 {
					// own: how the block itself entered its epoch
					p := -1
					for id, h := range hdr {
						if h.Hash() == hdr[q.B].ParentHash {
							p = id
						}
					}
					switch {
					case p < 0 || epochOf[p] == q.X:
					case q.X == epochOf[p]+1:
						rel = "next-epoch"
					default:
						rel = "skipping"
					}
				}
				cls := q.Kind + "/" + rel
				lookup("used", fmt.Sprintf("%s lookup of block %d for epoch %d (asks %d)", q.Kind, q.B, q.X, q.Ask), q.D, q.C, q.Gd, q.Gc,
					func() (*types.EpochDataRaw, error) { return es.GetEpochDataRaw(q.Ask, from) },
					func() (*types.ConfigData, error) { return es.GetConfigData(q.Ask, from) }, cls, true)
			}
		}
		if !poisoned {
			_ = db.Close()
		}
	}
	if hung > 0 {
		res.Notes = append(res.Notes, fmt.Sprintf("%d calls did not return within the watchdog budget; the behaviour was abandoned each time (the goroutine keeps the epoch state's lock)", hung))
	}
}
