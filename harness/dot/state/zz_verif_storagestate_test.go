//go:build verif

// Conformance harness for specs/TrieStore.tla and specs/TrieChildStore.tla through dot/state (C04):
// "... written to the database (including incremental writes of successive block states), reloading it
// by root hash gives the same root, entries and child tries.  Reading a single key directly from the
// database by root hash returns the same value as the in-memory state, and absent keys read as absent."
//
// The TLC-generated behaviours of BOTH specifications (one step format: the child specification's is a
// superset) are replayed on a real InmemoryStorageState over a real BlockState and an in-memory database:
//   - the working state is a storage.TrieState obtained from InmemoryStorageState.TrieState(parent root)
//     (no open transaction: operations go straight to the trie, the overlay is C08's subject),
//   - Commit = StoreTrie(ts, header) + AddBlock of a header carrying the state root: a chain of block states,
//   - after every Commit the Tries cache is EMPTIED and the state is read back through the database:
//     GetStorage / GetStorageByBlockHash for every probe key (present and absent), GetStateRootFromBlock,
//     LoadFromDB by root (root, entries, child tries), Entries, GetStorageChild / GetStorageFromChild for
//     every child and child probe key; the same for every EARLIER block state of the behaviour,
//   - the next block continues alternately on the cached trie and on a trie reloaded from the database;
//     Reopen always continues on a reloaded one.
//   - C03 through dot/state: next to the working TrieState a SIBLING TrieState of the same root is taken; after
//     every operation on the working one the sibling, GetStorage / Entries by root (served from the Tries
//     cache) and a further TrieState(&root) must still show the specification's COMMITTED state
//     (TrieChildStore!CommittedStable), both when the root was cached and when it was loaded on a cache miss.
// Expected values are the specification's maps.  Reads input childbeh.txt and, when present, the file named by
// VSS_EXTRA (default behaviours.txt).

package state

import (
	"bytes"
	"encoding/json"
	"fmt"
	"os"
	"sort"
	"strings"
	"testing"
	"time"

	"github.com/ChainSafe/gossamer/dot/types"
	"github.com/ChainSafe/gossamer/lib/common"
	"github.com/ChainSafe/gossamer/lib/runtime/storage"
	"github.com/ChainSafe/gossamer/pkg/trie"
	inmemory_trie "github.com/ChainSafe/gossamer/pkg/trie/inmemory"
)

type vssOp struct {
	Op string  `json:"op"`
	K  VB      `json:"k"`
	V  VB      `json:"v"`
	C  VB      `json:"c"`
	E  [][2]VB `json:"e"`
}

type vssChild struct {
	Name    VB      `json:"name"`
	Root    VB      `json:"root"`
	Entries [][2]VB `json:"entries"`
}

type vssObs struct {
	Root      VB         `json:"root"`
	V1        bool       `json:"v1"`
	Entries   [][2]VB    `json:"entries"`
	Children  []vssChild `json:"children"`
	CRoot     VB         `json:"croot"`
	CEntries  [][2]VB    `json:"centries"`
	CChildren []vssChild `json:"cchildren"`
}

type vssStep struct {
	O   vssOp  `json:"o"`
	Obs vssObs `json:"obs"`
}

type vssState struct {
	main     map[string][]byte
	children map[string]map[string][]byte
	croots   map[string][]byte
	v1       bool
}

func vssMap(es [][2]VB) map[string][]byte {
	m := map[string][]byte{}
	for _, e := range es {
		v := e[1].Bytes()
		if v == nil {
			v = []byte{}
		}
		m[string(e[0].Bytes())] = v
	}
	return m
}

func vssStateOf(entries [][2]VB, children []vssChild, v1 bool) vssState {
	s := vssState{main: vssMap(entries), children: map[string]map[string][]byte{}, croots: map[string][]byte{}, v1: v1}
	for _, c := range children {
		n := string(c.Name.Bytes())
		s.children[n] = vssMap(c.Entries)
		s.croots[n] = c.Root.Bytes()
	}
	return s
}

func (s vssState) names() []string {
	ns := make([]string, 0, len(s.children))
	for n := range s.children {
		ns = append(ns, n)
	}
	sort.Strings(ns)
	return ns
}

func (s vssState) class() string {
	ver := "v0"
	if s.v1 {
		ver = "v1"
		for _, x := range s.main {
			if len(x) > 32 {
				ver = "v1-hashed-values"
			}
		}
	}
	switch {
	case len(s.children) == 0:
		return ver + "/no-children"
	case len(s.main) == 1:
		return ver + "/main-root-is-leaf-child-pointer"
	}
	return ver + "/children"
}

func vssEntriesString(m map[string][]byte) string {
	var b bytes.Buffer
	for _, k := range vSortedKeys(m) {
		fmt.Fprintf(&b, "%x=%x;", k, m[k])
	}
	return b.String()
}

func vssChildKey(name []byte) []byte {
	return append(append([]byte{}, inmemory_trie.ChildStorageKeyPrefix...), name...)
}

func vssVariants(k []byte, add func([]byte)) {
	add(k)
	add(append(append([]byte{}, k...), 0))
	if len(k) > 0 {
		add(k[:len(k)-1])
		f := append([]byte{}, k...)
		f[len(f)-1] ^= 0x01
		add(f)
	}
}

func vssSortedSet(set map[string]struct{}) [][]byte {
	ks := make([]string, 0, len(set))
	for k := range set {
		ks = append(ks, k)
	}
	sort.Strings(ks)
	out := make([][]byte, len(ks))
	for i, k := range ks {
		out[i] = []byte(k)
	}
	return out
}

func vssProbes(steps []vssStep) (mainP, childP [][]byte) {
	ms, cs := map[string]struct{}{}, map[string]struct{}{}
	addM := func(k []byte) { ms[string(k)] = struct{}{} }
	addC := func(k []byte) { cs[string(k)] = struct{}{} }
	for _, s := range steps {
		switch s.O.Op {
		case "Put", "Delete":
			vssVariants(s.O.K.Bytes(), addM)
		case "PutChild", "ClearChild":
			vssVariants(s.O.K.Bytes(), addC)
			vssVariants(vssChildKey(s.O.C.Bytes()), addM)
		case "SetChild":
			for _, e := range s.O.E {
				vssVariants(e[0].Bytes(), addC)
			}
			vssVariants(vssChildKey(s.O.C.Bytes()), addM)
		case "DeleteChild":
			vssVariants(vssChildKey(s.O.C.Bytes()), addM)
		}
	}
	return vssSortedSet(ms), vssSortedSet(cs)
}

// vssCompareTrie compares entries and child tries of a real trie with a specification state.
func vssCompareTrie(res *vResult, tr trie.Trie, st vssState) (field, exp, got, cls string) {
	var gotE map[string][]byte
	if pm := vTry(func() { gotE = tr.Entries() }); pm != "" {
		return "panic", "no panic", pm, "observe-panic"
	}
	res.Cmp()
	if ge, ee := vssEntriesString(gotE), vssEntriesString(st.main); ge != ee {
		return "entries", ee, ge, "entries"
	}
	for _, n := range st.names() {
		var child trie.Trie
		var err error
		if pm := vTry(func() { child, err = tr.GetChild([]byte(n)) }); pm != "" {
			return "panic", "no panic", pm, "child-observe-panic"
		}
		res.Cmp()
		if err != nil || child == nil {
			return "child", fmt.Sprintf("child %x present", n), fmt.Sprintf("child=%v err=%v", child != nil, err), "child-missing"
		}
		var ce map[string][]byte
		var ch common.Hash
		if pm := vTry(func() { ce = child.Entries(); ch = child.MustHash() }); pm != "" {
			return "panic", "no panic", pm, "child-observe-panic"
		}
		res.Cmp()
		if ge, ee := vssEntriesString(ce), vssEntriesString(st.children[n]); ge != ee {
			return "child-entries", fmt.Sprintf("child %x: %s", n, ee), ge, "child-entries"
		}
		res.Cmp()
		if !bytes.Equal(ch.ToBytes(), st.croots[n]) {
			return "child-root", fmt.Sprintf("child %x: %x", n, st.croots[n]), ch.String(), "child-root"
		}
	}
	return "", "", "", ""
}

func vssNewChild(entries map[string][]byte, v1 bool) (*inmemory_trie.InMemoryTrie, error) {
	child := inmemory_trie.NewEmptyTrie()
	if v1 {
		child.SetVersion(trie.V1)
	}
	for _, k := range vSortedKeys(entries) {
		if err := child.Put([]byte(k), entries[k]); err != nil {
			return nil, err
		}
	}
	return child, nil
}

// vssBuild builds a specification state in memory (re-synchronisation, reference runs).
func vssBuild(st vssState) (*inmemory_trie.InMemoryTrie, error) {
	ct := inmemory_trie.NewEmptyTrie()
	if st.v1 {
		ct.SetVersion(trie.V1)
	}
	for _, k := range vSortedKeys(st.main) {
		if bytes.HasPrefix([]byte(k), inmemory_trie.ChildStorageKeyPrefix) {
			continue
		}
		if err := ct.Put([]byte(k), st.main[k]); err != nil {
			return nil, err
		}
	}
	for _, n := range st.names() {
		child, err := vssNewChild(st.children[n], st.v1)
		if err != nil {
			return nil, err
		}
		if err := ct.SetChild([]byte(n), child); err != nil {
			return nil, err
		}
	}
	return ct, nil
}

type vssBlock struct {
	hash common.Hash
	root common.Hash
	st   vssState
}

func TestVerifStorageState(t *testing.T) {
	res := vNewResult(vEnvStr("VERIF_PROP", "C04"))
	defer res.Write(t)
	behs := vLoad(t, vIn(t, "childbeh.txt"))
	nChild := len(behs)
	if extra := vEnvStr("VSS_EXTRA", "behaviours.txt"); extra != "-" {
		p := vIn(t, extra)
		if _, err := os.Stat(p); err == nil {
			more := vLoad(t, p)
			stride := vEnvInt("VSS_STRIDE", 1)
			for i, b := range more {
				if (i+int(vSeed()))%stride == 0 {
					b.ID = nChild + i
					behs = append(behs, b)
				}
			}
		}
	}
	res.Behaviours = len(behs)
	for _, b := range behs {
		steps := make([]vssStep, len(b.Steps))
		for i, raw := range b.Steps {
			if err := json.Unmarshal(raw, &steps[i]); err != nil {
				t.Fatalf("VERIF-INFRA step json: %v", err)
			}
		}
		if len(steps) == 0 {
			continue
		}
		if len(res.Samples) < 1 {
			res.Sample(b.Steps)
		}
		mainP, childP := vssProbes(steps)

		db := vstDB(t)
		tries := NewTries()
		gen := types.NewHeader(common.Hash{}, trie.EmptyHash, common.Hash{}, 0, vstPreDigest(true, 1))
		bs, err := NewBlockStateFromGenesis(db, tries, gen, vstNopTelemetry{})
		if err != nil {
			t.Fatalf("VERIF-INFRA NewBlockStateFromGenesis: %v", err)
		}
		ss, err := NewStorageState(db, bs, tries)
		if err != nil {
			t.Fatalf("VERIF-INFRA NewStorageState: %v", err)
		}
		parent := gen.Hash()
		number := uint(0)
		lastRoot := trie.EmptyHash
		var chain []vssBlock
		roots := map[common.Hash]struct{}{trie.EmptyHash: {}}
		emptyCache := func() {
			for r := range roots {
				ss.tries.delete(r)
			}
		}
		v1 := false
		// acquire the working TrieState of the next block on top of the state with the given root, and a
		// SIBLING TrieState of the same root that is never written (C03: both must be isolated snapshots,
		// whether the root was in the Tries cache or had to be loaded from the database)
		var ts, sib *storage.TrieState
		var sibRoot common.Hash
		sibPath := ""
		acquire := func(root common.Hash, ver bool) error {
			var nts, nsib *storage.TrieState
			var aerr error
			path := "root-cached"
			if ss.tries.get(root) == nil {
				path = "root-loaded-on-cache-miss"
			}
			if pm := vTry(func() { nts, aerr = ss.TrieState(&root) }); pm != "" {
				return fmt.Errorf("%s", pm)
			}
			if aerr != nil {
				return aerr
			}
			if pm := vTry(func() { nsib, aerr = ss.TrieState(&root) }); pm != "" || aerr != nil {
				nsib = nil
			}
			if ver {
				nts.SetVersion(trie.V1)
			}
			ts, sib, sibRoot, sibPath = nts, nsib, root, path
			return nil
		}
		if err := acquire(lastRoot, false); err != nil {
			t.Fatalf("VERIF-INFRA TrieState(empty root): %v", err)
		}
		prev := vssStateOf(nil, nil, false)
		brokenCommit := false
		var prefix []json.RawMessage

		for si, s := range steps {
			prefix = append(prefix, b.Steps[si])
			o := s.O
			k, v, c := o.K.Bytes(), o.V.Bytes(), o.C.Bytes()
			if v == nil {
				v = []byte{}
			}
			if si == 0 && s.Obs.V1 && o.Op != "SetVersion" {
				v1 = true
				ts.SetVersion(trie.V1)
			}
			if o.Op == "SetVersion" {
				v1 = true
			}
			work := vssStateOf(s.Obs.Entries, s.Obs.Children, s.Obs.V1)
			comm := vssStateOf(s.Obs.CEntries, s.Obs.CChildren, s.Obs.V1)
			failed := false
			soft := false
			fail := func(owner, field, exp, got, sig string) {
				res.Fail(b.ID, si, o.Op, field, exp, got, owner+"/state/"+sig, prefix)
				if !soft {
					failed = true
				}
			}
			res.Case(o.Op, fmt.Sprintf("%x|%x|%d|%d|%d|%v", c, k, len(v), len(work.main), len(work.children), s.Obs.V1))

			keyClass := func(pk []byte, m map[string][]byte, ver bool) string {
				var fs []string
				if len(pk) == 0 {
					fs = append(fs, "empty-key")
				}
				exp, present := m[string(pk)]
				if present && ver && len(exp) > 32 {
					fs = append(fs, "hashed-value")
				}
				if present && len(exp) == 0 {
					fs = append(fs, "empty-value")
				}
				if present && bytes.HasPrefix(pk, inmemory_trie.ChildStorageKeyPrefix) {
					fs = append(fs, "child-pointer")
				}
				if !present {
					fs = append(fs, "absent")
				}
				if len(fs) == 0 {
					return "plain"
				}
				return strings.Join(fs, "+")
			}
			cmpRead := func(api, who string, pk []byte, m map[string][]byte, ver bool, gv []byte, gerr error, pm string) {
				res.Cmp()
				exp, present := m[string(pk)]
				kc := keyClass(pk, m, ver)
				if api == "GetStorageFromChild" && len(pk) == 0 && !present && pm == "" && gerr == nil {
					// answered by the in-memory Get of the loaded child trie, whose Get("") matches any root
					// node (recorded under C02, pinned by upstream tests); not a persistence matter
					if gv != nil {
						fail("C02", "found", "false key=", fmt.Sprintf("true (%x)", gv), who+"/"+api+"/"+kc+"/absent-key-read-as-present")
					}
					return
				}
				switch {
				case pm != "":
					fail("C04", "panic", fmt.Sprintf("no panic key=%x", pk), pm, who+"/"+api+"/"+kc+"/panic")
				case gerr != nil:
					fail("C04", "err", fmt.Sprintf("nil key=%x", pk), gerr.Error(), who+"/"+api+"/"+kc+"/error")
				case present != (gv != nil):
					kind := "absent-key-read-as-present"
					if present {
						kind = "present-key-read-as-absent"
					}
					fail("C04", "found", fmt.Sprintf("%v key=%x", present, pk), fmt.Sprintf("%v (%x)", gv != nil, gv), who+"/"+api+"/"+kc+"/"+kind)
				case present && !bytes.Equal(gv, exp):
					fail("C04", "value", fmt.Sprintf("key=%x %x", pk, exp), vHex(gv), who+"/"+api+"/"+kc+"/wrong-value")
				}
			}

			// readBack: block blk (state st under root) read through the database with the cache emptied
			readBack := func(blk vssBlock, who string) {
				st, root, bh := blk.st, blk.root, blk.hash
				cls := st.class()
				emptyCache()
				// whole state by root
				var lt trie.Trie
				var lerr error
				if pm := vTry(func() { lt, lerr = ss.LoadFromDB(root) }); pm != "" {
					fail("C04", "panic", "no panic", pm, who+"/LoadFromDB/"+cls+"/panic")
					return
				}
				if lerr != nil {
					fail("C04", "err", "nil", lerr.Error(), who+"/LoadFromDB/"+cls+"/error")
					return
				}
				if field, exp, got, fc := vssCompareTrie(res, lt, st); field != "" {
					fail("C04", field, exp, got, who+"/LoadFromDB/"+cls+"/"+fc)
					return
				}
				res.Cmp()
				if lr := lt.MustHash(); lr != root {
					fail("C04", "root", root.String(), lr.String(), who+"/LoadFromDB/"+cls+"/root-after-reload")
					return
				}
				want := map[common.Hash]struct{}{}
				for _, cr := range st.croots {
					want[common.BytesToHash(cr)] = struct{}{}
				}
				res.Cmp()
				if kids := lt.GetChildTries(); len(kids) != len(want) {
					fail("C04", "child-set", fmt.Sprintf("%d distinct child tries", len(want)), fmt.Sprintf("%d", len(kids)), who+"/LoadFromDB/"+cls+"/child-set")
					return
				}
				soft = true
				defer func() { soft = false }()
				// the state root of the block
				emptyCache()
				var sr *common.Hash
				var serr error
				pm := vTry(func() { sr, serr = ss.GetStateRootFromBlock(&bh) })
				res.Cmp()
				if pm != "" || serr != nil || sr == nil || *sr != root {
					fail("C04", "state-root", root.String(), fmt.Sprintf("%v err=%v %s", sr, serr, pm), who+"/GetStateRootFromBlock/"+cls+"/wrong")
				}
				// single keys straight from the database
				for _, pk := range mainP {
					var gv []byte
					var gerr error
					emptyCache()
					pm := vTry(func() { gv, gerr = ss.GetStorage(&root, pk) })
					cmpRead("GetStorage", who, pk, st.main, st.v1, gv, gerr, pm)
					pm = vTry(func() { gv, gerr = ss.GetStorageByBlockHash(&bh, pk) })
					cmpRead("GetStorageByBlockHash", who, pk, st.main, st.v1, gv, gerr, pm)
				}
				// entries and child tries through the loading readers
				emptyCache()
				var ge map[string][]byte
				var gerr error
				pm = vTry(func() { ge, gerr = ss.Entries(&root) })
				res.Cmp()
				if pm != "" || gerr != nil {
					fail("C04", "err", "nil", fmt.Sprintf("%v %s", gerr, pm), who+"/Entries/"+cls+"/error")
				} else if g, e := vssEntriesString(ge), vssEntriesString(st.main); g != e {
					fail("C04", "entries", e, g, who+"/Entries/"+cls+"/entries")
				}
				for _, n := range st.names() {
					emptyCache()
					var ct trie.Trie
					var cerr error
					pm := vTry(func() { ct, cerr = ss.GetStorageChild(&root, []byte(n)) })
					res.Cmp()
					if pm != "" || cerr != nil || ct == nil {
						fail("C04", "child", fmt.Sprintf("child %x", n), fmt.Sprintf("child=%v err=%v %s", ct != nil, cerr, pm), who+"/GetStorageChild/"+cls+"/error")
						continue
					}
					if g, e := vssEntriesString(ct.Entries()), vssEntriesString(st.children[n]); g != e {
						fail("C04", "child-entries", e, g, who+"/GetStorageChild/"+cls+"/child-entries")
					}
					for _, ck := range childP {
						var gv []byte
						var gerr error
						emptyCache()
						pm := vTry(func() { gv, gerr = ss.GetStorageFromChild(&root, []byte(n), ck) })
						cmpRead("GetStorageFromChild", who, ck, st.children[n], st.v1, gv, gerr, pm)
					}
				}
				emptyCache()
			}

			mutate := func(x interface {
				Put(k, v []byte) error
				Delete(k []byte) error
			}, tr trie.Trie, setVersion func()) error {
				switch o.Op {
				case "Put":
					return x.Put(k, v)
				case "Delete":
					return x.Delete(k)
				case "SetVersion":
					setVersion()
				case "PutChild":
					return tr.PutIntoChild(c, k, v)
				case "ClearChild":
					if err := tr.ClearFromChild(c, k); err != nil {
						if _, ok := prev.children[string(c)]; ok {
							return err
						}
					}
				case "SetChild":
					child, err := vssNewChild(vssMap(o.E), v1)
					if err != nil {
						return err
					}
					return tr.(*inmemory_trie.InMemoryTrie).SetChild(c, child)
				case "DeleteChild":
					return tr.DeleteChild(c)
				}
				return nil
			}
			// same differential attribution as in the pkg/trie/inmemory harness: the operation applied to a
			// state built purely in memory decides whether the in-memory trie / child API (C02 / C08) or the
			// state that came through the database (C04) is at fault
			mutationOwner := func() string {
				foreign := "C02"
				if strings.Contains(o.Op, "Child") {
					foreign = "C08"
				}
				owner := "C04"
				if pm := vTry(func() {
					ref, err := vssBuild(prev)
					if err != nil || mutate(ref, ref, func() { ref.SetVersion(trie.V1) }) != nil {
						owner = foreign
						return
					}
					if field, _, _, _ := vssCompareTrie(res, ref, work); field != "" {
						owner = foreign
					}
				}); pm != "" {
					owner = foreign
				}
				return owner
			}

			pm := vTry(func() {
				switch o.Op {
				case "Put", "Delete", "SetVersion", "PutChild", "ClearChild", "SetChild", "DeleteChild":
					var merr error
					switch o.Op {
					case "Put":
						merr = ts.Put(k, v)
					case "Delete":
						merr = ts.Delete(k)
					case "SetVersion":
						ts.SetVersion(trie.V1)
					case "PutChild":
						merr = ts.SetChildStorage(c, k, v)
					case "ClearChild":
						if err := ts.ClearChildStorage(c, k); err != nil {
							if _, ok := prev.children[string(c)]; ok {
								merr = err
							}
						}
					case "SetChild":
						merr = mutate(ts, ts.Trie(), nil)
					case "DeleteChild":
						merr = ts.DeleteChild(c)
					}
					if merr != nil {
						fail(mutationOwner(), "err", "nil", merr.Error(), o.Op+"/error")
					}
				case "Commit":
					var root common.Hash
					root = ts.Trie().MustHash()
					if er := s.Obs.CRoot.Bytes(); len(er) > 0 {
						res.Cmp()
						if !bytes.Equal(er, root.ToBytes()) {
							fail("C01", "root", vHex(er), root.String(), "Commit/self/root")
							return
						}
					}
					number++
					var er common.Hash
					er[0], er[1], er[2], er[3] = byte(si), byte(b.ID), byte(b.ID>>8), byte(number)
					hd := types.NewHeader(parent, root, er, number, vstPreDigest(true, uint64(number)+1))
					if int(number)%3 == 0 {
						// the state is already tracked by the Tries cache when it is stored (as the genesis state is after
						// Tries.SetTrie): StoreTrie still has to write it
						ss.tries.SetTrie(ts.Trie())
					}
					if err := ss.StoreTrie(ts, hd); err != nil {
						fail("C04", "err", "nil", err.Error(), "Commit/StoreTrie/"+comm.class()+"/error")
						return
					}
					if err := bs.AddBlockWithArrivalTime(&types.Block{Header: *hd, Body: types.Body{}}, time.Unix(int64(1_700_000_000+si), 0)); err != nil {
						t.Fatalf("VERIF-INFRA AddBlock: %v", err)
					}
					parent = hd.Hash()
					lastRoot = root
					roots[root] = struct{}{}
					brokenCommit = false
					blk := vssBlock{hash: parent, root: root, st: comm}
					readBack(blk, "latest")
					for i := len(chain) - 1; i >= 0 && !failed; i-- {
						readBack(chain[i], "earlier")
					}
					chain = append(chain, blk)
					if failed {
						return
					}
					// the next block: alternately on the cached trie (as after an import) and on a reloaded one
					if len(chain)%2 == 1 {
						ss.tries.softSet(root, ts.Trie())
					}
					if err := acquire(root, s.Obs.V1); err != nil {
						fail("C04", "err", "nil", err.Error(), "Commit/TrieState/"+comm.class()+"/error")
					}
				case "Reopen":
					if brokenCommit {
						nt, err := vssBuild(comm)
						if err != nil {
							panic(fmt.Sprintf("rebuild: %v", err))
						}
						ts, sib = storage.NewTrieState(nt), nil
						return
					}
					emptyCache()
					if err := acquire(lastRoot, s.Obs.V1); err != nil {
						fail("C04", "err", "nil", err.Error(), "Reopen/TrieState/"+comm.class()+"/error")
					}
				default:
					t.Fatalf("VERIF-INFRA unknown op %q", o.Op)
				}
			})
			if pm != "" {
				fail("C04", "panic", "no panic", pm, o.Op+"/panic")
			}
			if !failed {
				if field, exp, got, fc := vssCompareTrie(res, ts.Trie(), work); field != "" {
					owner := "C04"
					if o.Op != "Reopen" && o.Op != "Commit" {
						owner = mutationOwner()
					}
					fail(owner, field, exp, got, o.Op+"/working/"+work.class()+"/"+fc)
				}
			}
			if !failed && sib != nil && o.Op != "Reopen" && o.Op != "Commit" {
				// C03 through dot/state: the operation went to the working TrieState only.  The state committed
				// under sibRoot (the specification's cm / cch, unchanged by the step: CommittedStable) must still
				// be what the sibling TrieState, the Tries cache (GetStorage / Entries by root without a database
				// read) and a further TrieState(&root) show.
				soft = true
				iso := func(field, exp, got, what string) {
					fail("C03", field, exp, got, "isolation/"+sibPath+"/"+o.Op+"/"+what)
				}
				if field, exp, got, fc := vssCompareTrie(res, sib.Trie(), comm); field != "" {
					iso(field, exp, got, "sibling-TrieState/"+fc)
				} else if r := sib.Trie().MustHash(); r != sibRoot {
					iso("root", sibRoot.String(), r.String(), "sibling-TrieState/root-changed")
				}
				for _, pk := range mainP {
					exp, present := comm.main[string(pk)]
					if len(pk) == 0 && !present {
						continue // the in-memory Get("") matches any root node (recorded under C02)
					}
					var gv []byte
					var gerr error
					pm := vTry(func() { gv, gerr = ss.GetStorage(&sibRoot, pk) })
					res.Cmp()
					if pm != "" || gerr != nil {
						iso("err", fmt.Sprintf("value of key=%x", pk), fmt.Sprintf("%v %s", gerr, pm), "GetStorage-by-root/error")
					} else if present != (gv != nil) || (present && !bytes.Equal(gv, exp)) {
						iso("value", fmt.Sprintf("key=%x present=%v %x", pk, present, exp), fmt.Sprintf("present=%v %x", gv != nil, gv), "GetStorage-by-root/wrong-value")
					}
				}
				var ge map[string][]byte
				var gerr error
				pm := vTry(func() { ge, gerr = ss.Entries(&sibRoot) })
				res.Cmp()
				if pm != "" || gerr != nil {
					iso("err", "entries", fmt.Sprintf("%v %s", gerr, pm), "Entries-by-root/error")
				} else if g, e := vssEntriesString(ge), vssEntriesString(comm.main); g != e {
					iso("entries", e, g, "Entries-by-root/entries")
				}
				var third *storage.TrieState
				pm = vTry(func() { third, gerr = ss.TrieState(&sibRoot) })
				res.Cmp()
				if pm != "" || gerr != nil {
					iso("err", "a TrieState of the committed root", fmt.Sprintf("%v %s", gerr, pm), "TrieState-by-root/error")
				} else if field, exp, got, fc := vssCompareTrie(res, third.Trie(), comm); field != "" {
					iso(field, exp, got, "TrieState-by-root/"+fc)
				}
				soft = false
			}
			if failed {
				// re-synchronise on the specification's states: the committed state is stored as a new block
				// built in memory, the working state continues in memory
				abandon := false
				if pm := vTry(func() {
					ct, err := vssBuild(comm)
					if err != nil {
						panic(fmt.Sprintf("resync build: %v", err))
					}
					number++
					var er common.Hash
					er[0], er[1], er[2], er[3], er[4] = byte(si), byte(b.ID), byte(b.ID>>8), byte(number), 0xff
					root := ct.MustHash()
					hd := types.NewHeader(parent, root, er, number, vstPreDigest(true, uint64(number)+1))
					emptyCache()
					if err := ss.StoreTrie(storage.NewTrieState(ct), hd); err != nil {
						panic(fmt.Sprintf("resync store: %v", err))
					}
					if err := bs.AddBlockWithArrivalTime(&types.Block{Header: *hd, Body: types.Body{}}, time.Unix(int64(1_700_000_000+si), 1)); err != nil {
						panic(fmt.Sprintf("resync AddBlock: %v", err))
					}
					parent = hd.Hash()
					lastRoot = root
					roots[root] = struct{}{}
					chain = nil
					emptyCache()
					if _, err := ss.LoadFromDB(root); err != nil {
						brokenCommit = true
					}
					emptyCache()
					wt, err := vssBuild(work)
					if err != nil {
						panic(fmt.Sprintf("resync build working: %v", err))
					}
					ts, sib = storage.NewTrieState(wt), nil
				}); pm != "" {
					res.Fail(b.ID, si, o.Op, "panic", "state rebuilt", pm, "C04/state/resync/panic", nil)
					abandon = true
				}
				if abandon {
					break
				}
			}
			prev = work
		}
		_ = db.Close()
	}
}
