//go:build verif

// Conformance harness for specs/SlotEquivocation.tla (C27).  Replays TLC-generated sequences
// of CheckEquivocation(slotNow, slot, header, signer) against the real SlotState on the
// in-memory database and compares the returned proof (presence, offender, slot, both headers)
// and, after every step, the stored slot_header_start and the stored (header, signer) records
// of every slot.

package state

import (
	"encoding/binary"
	"encoding/json"
	"errors"
	"fmt"
	"testing"

	"github.com/ChainSafe/gossamer/dot/types"
	"github.com/ChainSafe/gossamer/internal/database"
	"github.com/ChainSafe/gossamer/lib/common"
	"github.com/ChainSafe/gossamer/pkg/scale"
)

type vseRec struct {
	H int `json:"h"`
	G int `json:"g"`
}

type vseStep struct {
	O struct {
		Op   string `json:"op"`
		Now  uint64 `json:"now"`
		Slot uint64 `json:"slot"`
		H    int    `json:"h"`
		G    int    `json:"g"`
	} `json:"o"`
	Res struct {
		Proof  bool `json:"proof"`
		First  int  `json:"first"`
		Second int  `json:"second"`
	} `json:"res"`
	Obs struct {
		Start int64 `json:"start"`
		Rec   []struct {
			Slot uint64   `json:"slot"`
			Hs   []vseRec `json:"hs"`
		} `json:"rec"`
	} `json:"obs"`
}

func vseSigner(g int) types.AuthorityID {
	var a types.AuthorityID
	a[0], a[1] = byte(g), 0x77
	return a
}

// header h for slot: distinct headers for distinct (slot, h)
func vseHeader(slot uint64, h int) *types.Header {
	var parent common.Hash
	parent[0] = byte(h)
	return vstHeader(parent, uint(10+h), h, false, -1, slot)
}

func vseStored(ss *SlotState, slot uint64) ([]headerAndSigner, error) {
	k := make([]byte, 8)
	binary.LittleEndian.PutUint64(k, slot)
	enc, err := ss.db.Get(append(append([]byte{}, slotHeaderMapKey...), k...))
	if errors.Is(err, database.ErrNotFound) || (err == nil && len(enc) == 0) {
		return nil, nil
	}
	if err != nil {
		return nil, err
	}
	var items [][]byte
	if err := scale.Unmarshal(enc, &items); err != nil {
		return nil, err
	}
	var out []headerAndSigner
	for _, it := range items {
		hs := headerAndSigner{Header: types.NewEmptyHeader()}
		if err := scale.Unmarshal(it, &hs); err != nil {
			return nil, err
		}
		out = append(out, hs)
	}
	return out, nil
}

func TestVerifSlotEquivocation(t *testing.T) {
	res := vNewResult(vEnvStr("VERIF_PROP", "C27"))
	defer res.Write(t)
	behs := vLoad(t, vIn(t, "behaviours.txt"))
	res.Behaviours = len(behs)
	for _, b := range behs {
		db := vstDB(t)
		ss := NewSlotState(db)
		slotsSeen := map[uint64]bool{}
		var prefix []json.RawMessage
		for si, raw := range b.Steps {
			var s vseStep
			if err := json.Unmarshal(raw, &s); err != nil {
				t.Fatalf("VERIF-INFRA step json: %v", err)
			}
			prefix = append(prefix, raw)
			if si == len(b.Steps)-1 {
				res.Sample(map[string]any{"behaviour": b.ID, "steps": len(b.Steps), "last": s.O, "res": s.Res, "start": s.Obs.Start})
			}
			o := s.O
			slotsSeen[o.Slot] = true
			cls := "in-capacity"
			if o.Now > o.Slot && o.Now-o.Slot > 1000 {
				cls = "older-than-capacity"
			} else if o.Now < o.Slot {
				cls = "future-slot"
			}
			fail := func(field, exp, got, sig string) {
				res.Fail(b.ID, si, "Check", field, exp, got, "C27/CheckEquivocation/"+cls+"/"+sig, prefix)
			}
			res.Case("Check", fmt.Sprintf("%d|%d|%d|%d|%v|%d", o.Now, o.Slot, o.H, o.G, s.Res.Proof, s.Obs.Start))
			hd := vseHeader(o.Slot, o.H)
			var proof *types.BabeEquivocationProof
			var err error
			pm, timedOut := vGuard(20_000_000_000, func() { proof, err = ss.CheckEquivocation(o.Now, o.Slot, hd, vseSigner(o.G)) })
			res.Cmp()
			if pm != "" || timedOut {
				fail("call", "returns", fmt.Sprint(pm, " timeout=", timedOut), "panic-or-hang")
				break
			}
			if err != nil {
				fail("err", "nil", err.Error(), "error")
				break
			}
			switch {
			case s.Res.Proof && proof == nil:
				fail("proof", fmt.Sprintf("proof(first=%d, second=%d)", s.Res.First, s.Res.Second), "none", "equivocation-missed")
			case !s.Res.Proof && proof != nil:
				sig := "spurious-proof"
				if proof.FirstHeader.Hash() == proof.SecondHeader.Hash() {
					sig = "spurious-proof/identical-header"
				}
				fail("proof", "none", fmt.Sprintf("proof(slot=%d)", proof.Slot), sig)
			case s.Res.Proof:
				res.Cmp()
				f, g := vseHeader(o.Slot, s.Res.First), vseHeader(o.Slot, s.Res.Second)
				if proof.FirstHeader.Hash() != f.Hash() || proof.SecondHeader.Hash() != g.Hash() {
					fail("proof headers", fmt.Sprintf("first=%d second=%d", s.Res.First, s.Res.Second),
						fmt.Sprintf("first=%x second=%x", proof.FirstHeader.Hash().ToBytes()[:4], proof.SecondHeader.Hash().ToBytes()[:4]), "proof-wrong-headers")
				}
				if proof.Slot != o.Slot || proof.Offender != vseSigner(o.G) {
					fail("proof slot/offender", fmt.Sprint(o.Slot, o.G), fmt.Sprint(proof.Slot, proof.Offender[0]), "proof-wrong-slot-or-offender")
				}
			}
			// ---- stored state ------------------------------------------------------------
			st, gerr := ss.db.Get(slotHeaderStartKey)
			res.Cmp()
			switch {
			case s.Obs.Start < 0:
				if gerr == nil && len(st) > 0 {
					fail("slot_header_start", "unset", fmt.Sprint(binary.LittleEndian.Uint64(st)), "start")
				}
			case gerr != nil || len(st) != 8 || binary.LittleEndian.Uint64(st) != uint64(s.Obs.Start):
				fail("slot_header_start", fmt.Sprint(s.Obs.Start), fmt.Sprintf("%x %v", st, gerr), "start")
			}
			exp := map[uint64][]vseRec{}
			for _, r := range s.Obs.Rec {
				exp[r.Slot] = r.Hs
			}
			for slot := range slotsSeen {
				got, err := vseStored(ss, slot)
				res.Cmp()
				if err != nil {
					fail(fmt.Sprintf("records[%d]", slot), "decodable", err.Error(), "records-undecodable")
					continue
				}
				ok := len(got) == len(exp[slot])
				for i := 0; ok && i < len(got); i++ {
					ok = got[i].Header.Hash() == vseHeader(slot, exp[slot][i].H).Hash() && got[i].Signer == vseSigner(exp[slot][i].G)
				}
				if !ok {
					sig := "records"
					if len(got) > len(exp[slot]) && len(exp[slot]) == 0 {
						sig = "records/not-pruned"
					}
					fail(fmt.Sprintf("records[%d]", slot), fmt.Sprint(exp[slot]), fmt.Sprintf("%d records", len(got)), sig)
				}
			}
		}
		_ = db.Close()
	}
}
