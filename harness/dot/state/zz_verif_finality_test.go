//go:build verif

// Conformance harness for specs/BlockTree.tla + specs/Finality.tla, projection "state" (C17).
// Replays TLC-generated behaviours against the real BlockState (NewBlockStateFromGenesis on
// the in-memory database, synthetic blocks with a distinct state root each, every state root
// registered in Tries) and compares after every step: the finalised head and its round / set
// id, the persisted hash-by-number of every finalised-chain block, which blocks can still be
// retrieved as unfinalised blocks, which state tries are kept, and that abandoned blocks are
// gone.  A failing request must leave the whole projection unchanged.

package state

import (
	"encoding/json"
	"fmt"
	"sort"
	"testing"
	"time"

	"github.com/ChainSafe/gossamer/dot/types"
	"github.com/ChainSafe/gossamer/lib/common"
	inmemory_trie "github.com/ChainSafe/gossamer/pkg/trie/inmemory"
)

type vfiOp struct {
	Op   string `json:"op"`
	B    int    `json:"b"`
	P    int    `json:"p"`
	N    uint   `json:"n"`
	Prim bool   `json:"prim"`
	Arr  int64  `json:"arr"`
	Hr   int    `json:"hr"`
	R    uint64 `json:"r"`
	S    uint64 `json:"s"`
}

type vfiObs struct {
	Head  int    `json:"head"`
	R     uint64 `json:"r"`
	S     uint64 `json:"s"`
	Chain []int  `json:"chain"`
	Unfin []int  `json:"unfin"`
	Tries []int  `json:"tries"`
	Gone  []int  `json:"gone"`
	Best  int    `json:"best"`
}

type vfiStep struct {
	O   vfiOp `json:"o"`
	Res struct {
		Ok     bool  `json:"ok"`
		Pruned []int `json:"pruned"`
		Lowset bool  `json:"lowset"`
	} `json:"res"`
	Obs vfiObs `json:"obs"`
}

type vfiWorld struct {
	bs       *BlockState
	hdr      map[int]*types.Header
	hash     map[int]common.Hash
	parent   map[int]int
	known    []int
	prunedAt map[int]int
	maxNum   uint
}

func (w *vfiWorld) h(id int) common.Hash {
	if h, ok := w.hash[id]; ok {
		return h
	}
	return vstUnknownHash(id)
}

func vfiIn(a []int, x int) bool {
	for _, y := range a {
		if y == x {
			return true
		}
	}
	return false
}

// projection: everything the observation looks at, as a string (used to require that a
// failing request changes nothing)
func (w *vfiWorld) projection() string {
	bs := w.bs
	var out []string
	hh, err := bs.GetHighestFinalisedHash()
	r, s, err2 := bs.GetHighestRoundAndSetID()
	out = append(out, fmt.Sprintf("head=%x/%v rs=%d,%d/%v last=%x lr=%d ls=%d root=%x", hh[:4], err, r, s, err2, bs.lastFinalised[:4], bs.lastRound, bs.lastSetID, bs.bt.GetAllBlocks()[0][:4]))
	ids := append([]int{}, w.known...)
	sort.Ints(ids)
	for _, id := range ids {
		has, _ := bs.HasHeader(w.h(id))
		indb, _ := bs.HasHeaderInDatabase(w.h(id))
		body, _ := bs.HasBlockBody(w.h(id))
		out = append(out, fmt.Sprintf("%d:has=%v,db=%v,body=%v,unfin=%v,trie=%v", id, has, indb, body,
			bs.unfinalisedBlocks.getBlock(w.h(id)) != nil, bs.tries.get(vstStateRoot(id)) != nil))
	}
	for n := uint(0); n <= w.maxNum; n++ {
		v, err := bs.db.Get(headerHashKey(uint64(n)))
		out = append(out, fmt.Sprintf("n%d=%x/%v", n, v, err != nil))
	}
	out = append(out, fmt.Sprintf("tries=%d blocks=%d", bs.tries.len(), len(bs.bt.GetAllBlocks())))
	return fmt.Sprint(out)
}

// after-pruned-sibling: x is, or descends from, a block inserted after a sibling that was
// abandoned by the same finalisation (the blocks BlockTree.Prune fails to report, see C15)
func (w *vfiWorld) afterPrunedSibling(x int) bool {
	step, ok := w.prunedAt[x]
	if !ok {
		return false
	}
	for y := x; y > 0; y = w.parent[y] {
		for z, st := range w.prunedAt {
			if st == step && z < y && w.parent[z] == w.parent[y] {
				return true
			}
		}
	}
	return false
}

func TestVerifFinality(t *testing.T) {
	prop := vEnvStr("VERIF_PROP", "C17")
	res := vNewResult(prop)
	defer res.Write(t)
	behs := vLoad(t, vIn(t, "behaviours.txt"))
	res.Behaviours = len(behs)
	base := time.Unix(1_700_000_000, 0)

	for _, b := range behs {
		db := vstDB(t)
		gen := vstHeader(common.Hash{}, 0, 0, false, 3, 0)
		tries := NewTries()
		bs, err := NewBlockStateFromGenesis(db, tries, gen, vstNopTelemetry{})
		if err != nil {
			t.Fatalf("VERIF-INFRA NewBlockStateFromGenesis: %v", err)
		}
		tries.softSet(gen.StateRoot, inmemory_trie.NewEmptyTrie())
		w := &vfiWorld{bs: bs, hdr: map[int]*types.Header{0: gen}, hash: map[int]common.Hash{0: gen.Hash()},
			parent: map[int]int{0: -1}, known: []int{0}, prunedAt: map[int]int{}}
		var prefix []json.RawMessage
		for si, raw := range b.Steps {
			var s vfiStep
			if err := json.Unmarshal(raw, &s); err != nil {
				t.Fatalf("VERIF-INFRA step json: %v", err)
			}
			prefix = append(prefix, raw)
			if si == len(b.Steps)-1 {
				res.Sample(map[string]any{"behaviour": b.ID, "last_step": s.O, "res": s.Res, "obs": s.Obs})
			}
			o := s.O
			fail := func(owner, field, exp, got, sig string) {
				res.Fail(b.ID, si, o.Op, field, exp, got, owner+"/"+sig, prefix)
			}
			res.Case(o.Op, fmt.Sprintf("%d|%d|%v|%v|%v", o.B, o.P, s.Res.Ok, s.Obs.Unfin, s.Obs.Chain))
			stop := false
			pm := vTry(func() {
				switch o.Op {
				case "Add", "AddOrphan", "AddWrongNum", "AddNoDigest":
					hd := vstHeader(w.h(o.P), o.N, o.B, o.Prim, o.Hr, uint64(1000+o.N))
					if o.Op == "AddNoDigest" {
						hd = types.NewHeader(hd.ParentHash, hd.StateRoot, hd.ExtrinsicsRoot, hd.Number, types.NewDigest())
					}
					blk := &types.Block{Header: *hd, Body: types.Body{}}
					err := bs.AddBlockWithArrivalTime(blk, base.Add(time.Duration(o.Arr)*time.Second))
					res.Cmp()
					if o.Op == "Add" {
						if err != nil {
							fail("C17", "err", "nil", err.Error(), "AddBlock/parent-unfinalised-or-head/error")
							stop = true
							return
						}
						tries.softSet(hd.StateRoot, inmemory_trie.NewEmptyTrie())
						w.hdr[o.B], w.hash[o.B], w.parent[o.B] = hd, hd.Hash(), o.P
						w.known = append(w.known, o.B)
						if o.N > w.maxNum {
							w.maxNum = o.N
						}
					} else if err == nil {
						fail("C17", "err", "an error (block must be rejected)", "nil", "AddBlock/"+o.Op+"/accepted")
						stop = true
					}
				case "AddDup":
					blk := &types.Block{Header: *w.hdr[o.B], Body: types.Body{}}
					if err := bs.AddBlockWithArrivalTime(blk, base); err == nil {
						fail("C17", "err", "an error (block already known)", "nil", "AddBlock/AddDup/accepted")
						stop = true
					}
				case "Finalise":
					cls := "unknown"
					switch {
					case si > 0 && func() bool { var ps vfiStep; _ = json.Unmarshal(prefix[si-1], &ps); return o.B == ps.Obs.Head }(), si == 0 && o.B == 0:
						cls = "head"
					case s.Res.Ok:
						cls = "descendant"
					case vfiIn(s.Obs.Chain, o.B):
						cls = "stale-ancestor"
					case vfiIn(s.Obs.Gone, o.B):
						cls = "abandoned"
					}
					if s.Res.Lowset {
						cls += "-under-lower-set-id"
					}
					before := w.projection()
					err := bs.SetFinalisedHash(w.h(o.B), o.R, o.S)
					res.Cmp()
					if s.Res.Ok && err != nil {
						fail("C17", "err", "nil", err.Error(), "SetFinalisedHash/"+cls+"/error")
						stop = true
						return
					}
					if !s.Res.Ok {
						if err == nil {
							fail("C17", "err", "an error (target is not a known descendant of the finalised head)", "nil", "SetFinalisedHash/"+cls+"/accepted")
							stop = true
							return
						}
						res.Cmp()
						if after := w.projection(); after != before {
							fail("C17", "state", before, after, "SetFinalisedHash/"+cls+"/failed-but-changed-state")
						}
						if _, err := bs.GetFinalisedHash(o.R, o.S); err == nil {
							fail("C17", "finalisedHash[r,s]", "absent", "present", "SetFinalisedHash/"+cls+"/failed-but-recorded-round")
						}
					} else {
						for _, x := range s.Res.Pruned {
							w.prunedAt[x] = si
						}
						fh, err := bs.GetFinalisedHash(o.R, o.S)
						res.Cmp()
						if err != nil || fh != w.h(o.B) {
							fail("C17", "finalisedHash[r,s]", fmt.Sprint(o.B), fmt.Sprintf("%x %v", fh[:4], err), "SetFinalisedHash/"+cls+"/round-not-recorded")
						}
					}
				default:
					t.Fatalf("VERIF-INFRA unknown op %q", o.Op)
				}
			})
			if pm != "" {
				fail("C17", "panic", "no panic", pm, o.Op+"/panic")
				break
			}
			if stop {
				break
			}

			// ---- observation after the step ------------------------------------------------
			ob := s.Obs
			pm = vTry(func() {
				hh, err := bs.GetHighestFinalisedHash()
				res.Cmp()
				if err != nil || hh != w.h(ob.Head) || bs.lastFinalised != w.h(ob.Head) {
					fail("C17", "finalised head", fmt.Sprint(ob.Head), fmt.Sprintf("%x %v", hh[:4], err), "head/"+o.Op)
					stop = true
				}
				r, sid, err := bs.GetHighestRoundAndSetID()
				res.Cmp()
				if err != nil || r != ob.R || sid != ob.S {
					fail("C17", "highest round/set", fmt.Sprint(ob.R, ob.S), fmt.Sprint(r, sid, err), "round-set/"+o.Op)
				}
				// every finalised-chain block can be looked up by number from persistent storage
				for i, id := range ob.Chain {
					v, err := bs.db.Get(headerHashKey(uint64(i)))
					res.Cmp()
					if err != nil || common.NewHash(v) != w.h(id) {
						fail("C17", fmt.Sprintf("db hashByNumber[%d]", i), fmt.Sprint(id), fmt.Sprintf("%x %v", v, err), "finalised-chain/hash-by-number-not-persisted")
					}
					hn, err := bs.GetHashByNumber(uint(i))
					if err != nil || hn != w.h(id) {
						fail("C17", fmt.Sprintf("GetHashByNumber(%d)", i), fmt.Sprint(id), fmt.Sprintf("%x %v", hn[:4], err), "finalised-chain/GetHashByNumber")
					}
					indb, err := bs.HasHeaderInDatabase(w.h(id))
					if err != nil || !indb {
						fail("C17", fmt.Sprintf("HasHeaderInDatabase(%d)", id), "true", fmt.Sprint(indb, err), "finalised-chain/header-not-persisted")
					}
					if hd, err := bs.GetHeader(w.h(id)); err != nil || hd.Hash() != w.h(id) {
						fail("C17", fmt.Sprintf("GetHeader(%d)", id), "header", fmt.Sprint(err), "finalised-chain/GetHeader")
					}
					if bs.unfinalisedBlocks.getBlock(w.h(id)) != nil {
						fail("C17", fmt.Sprintf("unfinalisedBlocks[%d]", id), "absent", "present", "finalised-chain/still-unfinalised")
					}
				}
				for _, id := range w.known {
					hx := w.h(id)
					unf := bs.unfinalisedBlocks.getBlock(hx) != nil
					has, _ := bs.HasHeader(hx)
					_, gerr := bs.GetHeader(hx)
					tr := bs.tries.get(vstStateRoot(id)) != nil
					res.Cmp()
					cls := "other"
					if w.afterPrunedSibling(id) {
						cls = "after-pruned-sibling"
					}
					if vfiIn(ob.Gone, id) {
						// "No block from an abandoned fork can still be retrieved as an unfinalised
						// block or keeps its state trie in memory."
						if unf || has || gerr == nil {
							fail("C17", fmt.Sprintf("block %d (abandoned) retrievable", id), "gone", fmt.Sprintf("unfinalised=%v HasHeader=%v GetHeader err=%v", unf, has, gerr), "abandoned/still-retrievable/"+cls)
						}
						if tr {
							fail("C17", fmt.Sprintf("trie of block %d (abandoned)", id), "dropped", "kept", "abandoned/trie-kept/"+cls)
						}
						continue
					}
					if unf != vfiIn(ob.Unfin, id) {
						fail("C17", fmt.Sprintf("unfinalisedBlocks[%d]", id), fmt.Sprint(vfiIn(ob.Unfin, id)), fmt.Sprint(unf), "unfinalised-set/"+o.Op)
					}
					if !has || gerr != nil {
						fail("C17", fmt.Sprintf("GetHeader(%d)", id), "header", fmt.Sprint(has, gerr), "kept-block/not-retrievable")
					}
					if tr != vfiIn(ob.Tries, id) {
						sig := "trie/kept-for-finalised-ancestor"
						if !tr {
							sig = "trie/dropped-for-live-block"
						}
						fail("C17", fmt.Sprintf("trie of block %d", id), fmt.Sprint(vfiIn(ob.Tries, id)), fmt.Sprint(tr), sig)
					}
				}
				res.Cmp()
				if n := bs.tries.len(); n != len(ob.Tries) {
					cls := "other"
					for _, id := range ob.Gone {
						if bs.tries.get(vstStateRoot(id)) != nil && w.afterPrunedSibling(id) {
							cls = "after-pruned-sibling"
						}
					}
					fail("C17", "Tries.len", fmt.Sprint(len(ob.Tries)), fmt.Sprint(n), "tries-len/"+cls)
				}
				if best := bs.BestBlockHash(); best != w.h(ob.Best) {
					fail("C16", "BlockState.BestBlockHash", fmt.Sprint(ob.Best), fmt.Sprintf("%x", best[:4]), "BlockState.BestBlockHash/wrong")
				}
			})
			if pm != "" {
				fail("C17", "panic", "no panic", pm, "observe/panic")
				break
			}
			if stop {
				break
			}
		}
		_ = db.Close()
	}
}
