//go:build verif

// Conformance harness for specs/ChainTypes.tla (C14), dot/types part: headers with every digest item
// kind, BABE pre-digests, BABE and GRANDPA consensus digests (next epoch / on-disabled / next config;
// scheduled / forced change, on-disabled, pause, resume), GRANDPA votes, bodies.  The expected bytes come from the TLA+ layouts
// (an encoder independent of pkg/scale); the header hash is the resolved BLAKE2b-256 token.
package types

import (
	"bytes"
	"encoding/json"
	"fmt"
	"strings"
	"testing"

	"github.com/ChainSafe/gossamer/lib/common"
	"github.com/ChainSafe/gossamer/pkg/scale"
)

type vcCase struct {
	O struct {
		Op string          `json:"op"`
		Ty string          `json:"ty"`
		V  json.RawMessage `json:"v"`
	} `json:"o"`
	Res struct {
		Enc  VB `json:"enc"`
		Hash VB `json:"hash"`
		Item VB `json:"item"`
		// bodycount: expected bytes as head + unit repeated n times + tail
		Scale vcDesc `json:"scale"`
	} `json:"res"`
}

type vcDesc struct {
	Head VB  `json:"head"`
	Unit VB  `json:"unit"`
	N    int `json:"n"`
	Tail VB  `json:"tail"`
}

func (d vcDesc) Bytes() []byte {
	out := append([]byte(nil), d.Head.Bytes()...)
	out = append(out, bytes.Repeat(d.Unit.Bytes(), d.N)...)
	return append(out, d.Tail.Bytes()...)
}

func vcList(raw json.RawMessage) []json.RawMessage {
	s := strings.TrimSpace(string(raw))
	if s == "{}" || s == "null" || s == "" {
		return nil
	}
	var l []json.RawMessage
	if err := json.Unmarshal(raw, &l); err != nil {
		panic("VERIF-INFRA list: " + err.Error() + " " + s)
	}
	return l
}

func vcBytes(raw json.RawMessage) []byte {
	l := vcList(raw)
	b := make([]byte, len(l))
	for i, x := range l {
		var n int
		if err := json.Unmarshal(x, &n); err != nil {
			panic("VERIF-INFRA byte: " + err.Error())
		}
		b[i] = byte(n)
	}
	return b
}

func vcUint(raw json.RawMessage) uint64 {
	b := vcBytes(raw)
	var x uint64
	for i := len(b) - 1; i >= 0; i-- {
		x = x<<8 | uint64(b[i])
	}
	return x
}

type vcItem struct {
	I int             `json:"i"`
	V json.RawMessage `json:"v"`
}

// vcDigest builds the digest; ok=false when an item kind has no Go representation.
func vcDigest(raw json.RawMessage) (d Digest, unrepresentable string) {
	d = NewDigest()
	for _, x := range vcList(raw) {
		var it vcItem
		if err := json.Unmarshal(x, &it); err != nil {
			panic("VERIF-INFRA item: " + err.Error())
		}
		var err error
		switch it.I {
		case 4, 5, 6:
			p := vcList(it.V)
			var id ConsensusEngineID
			copy(id[:], vcBytes(p[0]))
			data := vcBytes(p[1])
			switch it.I {
			case 4:
				err = d.Add(ConsensusDigest{ConsensusEngineID: id, Data: data})
			case 5:
				err = d.Add(SealDigest{ConsensusEngineID: id, Data: data})
			case 6:
				err = d.Add(PreRuntimeDigest{ConsensusEngineID: id, Data: data})
			}
		case 8:
			err = d.Add(RuntimeEnvironmentUpdated{})
		default:
			return d, fmt.Sprintf("digest item index %d", it.I)
		}
		if err != nil {
			panic("VERIF-INFRA digest add: " + err.Error())
		}
	}
	return d, ""
}

func vcHeader(raw json.RawMessage) (*Header, string) {
	f := vcList(raw)
	d, un := vcDigest(f[4])
	h := &Header{Number: uint(vcUint(f[1])), Digest: d}
	copy(h.ParentHash[:], vcBytes(f[0]))
	copy(h.StateRoot[:], vcBytes(f[2]))
	copy(h.ExtrinsicsRoot[:], vcBytes(f[3]))
	return h, un
}

func vcHeaderString(h *Header) string {
	var items []string
	for _, it := range h.Digest {
		items = append(items, it.String())
	}
	return fmt.Sprintf("parent=%x number=%d state=%x ext=%x digest=[%s]", h.ParentHash, h.Number, h.StateRoot, h.ExtrinsicsRoot, strings.Join(items, "; "))
}

func vcNumClass(n uint) string {
	if uint64(n) >= 1<<32 && uint64(n) < 1<<56 {
		return "number-5-7-byte-compact"
	}
	return "plain"
}

type vcKept struct {
	d    *PreRuntimeDigest
	want []byte
}

var vcKeptPre []vcKept

func TestVerifChainTypes(t *testing.T) {
	res := vNewResult("C14")
	defer res.Write(t)
	behs := vLoad(t, vIn(t, "behaviours.txt"))
	res.Behaviours = len(behs)
	for bi, bh := range behs {
		for si, raw := range bh.Steps {
			var c vcCase
			if err := json.Unmarshal(raw, &c); err != nil {
				t.Fatalf("VERIF-INFRA case json: %v", err)
			}
			if c.O.Op != "enc" {
				continue
			}
			prefix := json.RawMessage("[" + string(raw) + "]")
			exp := c.Res.Enc.Bytes()
			fail := func(field, e, g, sig string) { res.Fail(bi, si, c.O.Ty, field, e, g, sig, prefix) }
			cmpBytes := func(field string, got []byte, err error, sig string) {
				res.Cmp()
				if err != nil {
					fail(field, vHex(exp), "error: "+err.Error(), sig+"/error")
				} else if !bytes.Equal(got, exp) {
					fail(field, vHex(exp), vHex(got), sig+"/bytes")
				}
			}
			handled := true
			pm := vTry(func() {
				switch c.O.Ty {
				case "header":
					h, un := vcHeader(c.O.V)
					if un != "" {
						// the specification's value has no Go representation: the bytes must at least decode
						res.Case("header", "other:"+string(c.O.V))
						res.Cmp()
						dec := NewEmptyHeader()
						err := scale.Unmarshal(exp, dec)
						if err != nil && strings.Contains(err.Error(), "unknown prefix for compact uint") {
							fail("Unmarshal(header)", "a header", "error: "+err.Error(), "C14/header/decode-error/number-5-7-byte-compact")
						} else if err != nil {
							fail("Unmarshal(header with Other digest item)", "a header", "error: "+err.Error(), "C14/header/digest-other/decode-error")
						} else if enc, err2 := scale.Marshal(*dec); err2 != nil || !bytes.Equal(enc, exp) {
							fail("Marshal(Unmarshal(header with Other digest item))", vHex(exp), vHex(enc), "C14/header/digest-other/reencode")
						}
						return
					}
					res.Case("header", string(c.O.V))
					cl := vcNumClass(h.Number)
					enc, err := scale.Marshal(*h)
					cmpBytes("Marshal(header)", enc, err, "C14/header/encode")
					res.Cmp()
					wantHash := c.Res.Hash.Bytes()
					if got := h.Hash(); !bytes.Equal(got[:], wantHash) {
						fail("Header.Hash", vHex(wantHash), vHex(got[:]), "C14/header/hash")
					}
					// the hash is cached: a changed copy must hash to BLAKE2b of ITS encoding
					cp, err := h.DeepCopy()
					if err != nil {
						fail("DeepCopy", "copy", err.Error(), "C14/header/deepcopy")
					} else {
						cp.Number = h.Number ^ 1
						cpEnc, _ := scale.Marshal(*cp)
						res.Cmp()
						if got := cp.Hash(); !bytes.Equal(got[:], vBlake(cpEnc)) {
							fail("DeepCopy+mutate Hash", vHex(vBlake(cpEnc)), vHex(got[:]), "C14/header/hash-cache")
						}
						if got := h.Hash(); !bytes.Equal(got[:], wantHash) {
							fail("Hash after copy mutated", vHex(wantHash), vHex(got[:]), "C14/header/hash-aliasing")
						}
					}
					dec := NewEmptyHeader()
					res.Cmp()
					if err := scale.Unmarshal(exp, dec); err != nil {
						fail("Unmarshal(header)", vcHeaderString(h), "error: "+err.Error(), "C14/header/decode-error/"+cl)
					} else {
						if vcHeaderString(dec) != vcHeaderString(h) {
							fail("Unmarshal(header)", vcHeaderString(h), vcHeaderString(dec), "C14/header/decode-value")
						}
						if got := dec.Hash(); !bytes.Equal(got[:], wantHash) {
							fail("decoded Header.Hash", vHex(wantHash), vHex(got[:]), "C14/header/decoded-hash")
						}
					}
				case "digestitem":
					d, un := vcDigest(json.RawMessage("[" + string(c.O.V) + "]"))
					if un != "" {
						res.Case("digestitem", "other:"+string(c.O.V))
						res.Cmp()
						it := NewDigestItem()
						if err := scale.Unmarshal(exp, &it); err != nil {
							fail("Unmarshal(Other digest item)", "a digest item", "error: "+err.Error(), "C14/digestitem/other/decode-error")
						}
						return
					}
					res.Case("digestitem", string(c.O.V))
					enc, err := scale.Marshal(d[0])
					cmpBytes("Marshal(digest item)", enc, err, "C14/digestitem/encode")
					it := NewDigestItem()
					res.Cmp()
					if err := scale.Unmarshal(exp, &it); err != nil {
						fail("Unmarshal(digest item)", d[0].String(), "error: "+err.Error(), "C14/digestitem/decode-error")
					} else if it.String() != d[0].String() {
						fail("Unmarshal(digest item)", d[0].String(), it.String(), "C14/digestitem/decode-value")
					}
				case "babepre":
					var it vcItem
					if err := json.Unmarshal(c.O.V, &it); err != nil {
						panic("VERIF-INFRA babepre")
					}
					res.Case("babepre", string(c.O.V))
					p := vcList(it.V)
					var val any
					switch it.I {
					case 1, 3:
						var out [32]byte
						var proof [64]byte
						copy(out[:], vcBytes(p[2]))
						copy(proof[:], vcBytes(p[3]))
						if it.I == 1 {
							val = BabePrimaryPreDigest{AuthorityIndex: uint32(vcUint(p[0])), SlotNumber: vcUint(p[1]), VRFOutput: out, VRFProof: proof}
						} else {
							val = BabeSecondaryVRFPreDigest{AuthorityIndex: uint32(vcUint(p[0])), SlotNumber: vcUint(p[1]), VrfOutput: out, VrfProof: proof}
						}
					case 2:
						val = BabeSecondaryPlainPreDigest{AuthorityIndex: uint32(vcUint(p[0])), SlotNumber: vcUint(p[1])}
					}
					bd := NewBabeDigest()
					if err := bd.SetValue(val); err != nil {
						panic("VERIF-INFRA babe SetValue: " + err.Error())
					}
					enc, err := scale.Marshal(bd)
					cmpBytes("Marshal(BabeDigest)", enc, err, "C14/babepre/encode")
					res.Cmp()
					got, err := DecodeBabePreDigest(exp)
					if err != nil {
						fail("DecodeBabePreDigest", fmt.Sprint(val), "error: "+err.Error(), "C14/babepre/decode-error")
					} else if fmt.Sprintf("%T%v", got, got) != fmt.Sprintf("%T%v", val, val) {
						fail("DecodeBabePreDigest", fmt.Sprintf("%T%v", val, val), fmt.Sprintf("%T%v", got, got), "C14/babepre/decode-value")
					}
					// and through the pre-runtime digest wrapper
					if prd, err := toPreRuntimeDigest(val); err != nil || !bytes.Equal(prd.Data, exp) || prd.ConsensusEngineID != BabeEngineID {
						fail("ToPreRuntimeDigest", vHex(exp), fmt.Sprint(prd, err), "C14/babepre/to-pre-runtime")
					} else {
						// a digest stays what it was: every pre-runtime digest produced so far (they live in headers while the
						// next slot's is being built) still holds its own bytes
						vcKeptPre = append(vcKeptPre, vcKept{prd, append([]byte(nil), exp...)})
						for i, k := range vcKeptPre {
							res.Cmp()
							if !bytes.Equal(k.d.Data, k.want) {
								fail("earlier PreRuntimeDigest", vHex(k.want), vHex(k.d.Data), "C14/babepre/earlier-digest-changed")
								vcKeptPre = append(vcKeptPre[:i], vcKeptPre[i+1:]...)
								break
							}
						}
						if len(vcKeptPre) > 64 {
							vcKeptPre = vcKeptPre[len(vcKeptPre)-64:]
						}
					}
				case "babecons", "grandpacons":
					var it vcItem
					if err := json.Unmarshal(c.O.V, &it); err != nil {
						panic("VERIF-INFRA consensus digest")
					}
					res.Case(c.O.Ty, string(c.O.V))
					ty := c.O.Ty
					auths := func(raw json.RawMessage) (b []AuthorityRaw, g []GrandpaAuthoritiesRaw) {
						for _, x := range vcList(raw) {
							f := vcList(x)
							var k [32]byte
							copy(k[:], vcBytes(f[0]))
							b = append(b, AuthorityRaw{Key: k, Weight: vcUint(f[1])})
							g = append(g, GrandpaAuthoritiesRaw{Key: k, ID: vcUint(f[1])})
						}
						return
					}
					var val any
					var enc []byte
					var err error
					var decode func() (any, error)
					var engine ConsensusEngineID
					if ty == "babecons" {
						engine = BabeEngineID
						switch it.I {
						case 1:
							f := vcList(it.V)
							a, _ := auths(f[0])
							ned := NextEpochData{Authorities: a}
							copy(ned.Randomness[:], vcBytes(f[1]))
							val = ned
						case 2:
							val = BABEOnDisabled{ID: uint32(vcUint(it.V))}
						case 3:
							var ver vcItem
							if err := json.Unmarshal(it.V, &ver); err != nil || ver.I != 1 {
								panic("VERIF-INFRA next config version")
							}
							f := vcList(ver.V)
							var slots vcItem
							if err := json.Unmarshal(f[2], &slots); err != nil {
								panic("VERIF-INFRA allowed slots")
							}
							v := NewVersionedNextConfigData()
							if err := v.SetValue(NextConfigDataV1{C1: vcUint(f[0]), C2: vcUint(f[1]), SecondarySlots: byte(slots.I)}); err != nil {
								panic("VERIF-INFRA next config SetValue: " + err.Error())
							}
							val = v
						}
						d := NewBabeConsensusDigest()
						if err := d.SetValue(val); err != nil {
							panic("VERIF-INFRA babe consensus SetValue: " + err.Error())
						}
						enc, err = scale.Marshal(d)
						decode = func() (any, error) {
							back := NewBabeConsensusDigest()
							if err := scale.Unmarshal(exp, &back); err != nil {
								return nil, err
							}
							return back.Value()
						}
					} else {
						engine = GrandpaEngineID
						switch it.I {
						case 1:
							f := vcList(it.V)
							_, g := auths(f[0])
							val = GrandpaScheduledChange{Auths: g, Delay: uint32(vcUint(f[1]))}
						case 2:
							f := vcList(it.V)
							_, g := auths(f[1])
							val = GrandpaForcedChange{BestFinalizedBlock: uint32(vcUint(f[0])), Auths: g, Delay: uint32(vcUint(f[2]))}
						case 3:
							val = GrandpaOnDisabled{ID: vcUint(it.V)}
						case 4:
							val = GrandpaPause{Delay: uint32(vcUint(it.V))}
						case 5:
							val = GrandpaResume{Delay: uint32(vcUint(it.V))}
						}
						d := NewGrandpaConsensusDigest()
						if err := d.SetValue(val); err != nil {
							panic("VERIF-INFRA grandpa consensus SetValue: " + err.Error())
						}
						enc, err = scale.Marshal(d)
						decode = func() (any, error) {
							back := NewGrandpaConsensusDigest()
							if err := scale.Unmarshal(exp, &back); err != nil {
								return nil, err
							}
							return back.Value()
						}
					}
					kind := fmt.Sprintf("%s/variant-%d", ty, it.I)
					cmpBytes("Marshal("+kind+")", enc, err, "C14/"+kind+"/encode")
					res.Cmp()
					got, err := decode()
					if err != nil {
						fail("Unmarshal("+kind+")", fmt.Sprintf("%T%+v", val, val), "error: "+err.Error(), "C14/"+kind+"/decode-error")
					} else if fmt.Sprintf("%T%+v", got, got) != fmt.Sprintf("%T%+v", val, val) {
						fail("Unmarshal("+kind+")", fmt.Sprintf("%T%+v", val, val), fmt.Sprintf("%T%+v", got, got), "C14/"+kind+"/decode-value")
					}
					// the log travels as the payload of a Consensus digest item under the engine's id
					dg := NewDigest()
					if err := dg.Add(ConsensusDigest{ConsensusEngineID: engine, Data: exp}); err != nil {
						panic("VERIF-INFRA digest add: " + err.Error())
					}
					ienc, err := scale.Marshal(dg[0])
					res.Cmp()
					if wantItem := c.Res.Item.Bytes(); err != nil || !bytes.Equal(ienc, wantItem) {
						fail("Marshal(Consensus digest item carrying "+kind+")", vHex(wantItem), vHex(ienc)+fmt.Sprint(err), "C14/"+kind+"/as-digest-item")
					}
				case "vote", "signedvote":
					res.Case(c.O.Ty, string(c.O.V))
					mk := func(raw json.RawMessage) GrandpaVote {
						f := vcList(raw)
						v := GrandpaVote{Number: uint32(vcUint(f[1]))}
						copy(v.Hash[:], vcBytes(f[0]))
						return v
					}
					if c.O.Ty == "vote" {
						v := mk(c.O.V)
						enc, err := scale.Marshal(v)
						cmpBytes("Marshal(GrandpaVote)", enc, err, "C14/vote/encode")
						var back GrandpaVote
						res.Cmp()
						if err := scale.Unmarshal(exp, &back); err != nil || back != v {
							fail("Unmarshal(GrandpaVote)", fmt.Sprint(v), fmt.Sprint(back, err), "C14/vote/decode")
						}
					} else {
						f := vcList(c.O.V)
						sv := GrandpaSignedVote{Vote: mk(f[0])}
						copy(sv.Signature[:], vcBytes(f[1]))
						copy(sv.AuthorityID[:], vcBytes(f[2]))
						enc, err := scale.Marshal(sv)
						cmpBytes("Marshal(GrandpaSignedVote)", enc, err, "C14/signedvote/encode")
						var back GrandpaSignedVote
						res.Cmp()
						if err := scale.Unmarshal(exp, &back); err != nil || back != sv {
							fail("Unmarshal(GrandpaSignedVote)", fmt.Sprint(sv), fmt.Sprint(back, err), "C14/signedvote/decode")
						}
					}
				case "bodycount":
					// bodies whose extrinsic COUNT sits on a compact-mode boundary (0, 1, 63, 64, 65, 16383, 16384, 16385)
					var v struct{ N, Fill, Len int }
					if err := json.Unmarshal(c.O.V, &v); err != nil {
						panic("VERIF-INFRA bodycount value")
					}
					if v.Len == 0 {
						v.Len = 1
					}
					one := bytes.Repeat([]byte{byte(v.Fill)}, v.Len)
					oneEnc, _ := scale.Marshal(one)
					res.Case("bodycount", string(c.O.V))
					want := c.Res.Scale.Bytes()
					sig := fmt.Sprintf("C14/bodycount/%d", v.N)
					if v.Len > 1 {
						sig = fmt.Sprintf("C14/bodycount/%dx%d", v.N, v.Len)
					}
					exts := make([]Extrinsic, v.N)
					strs := make([]string, v.N)
					for i := range exts {
						exts[i] = Extrinsic(one)
						strs[i] = "0x" + vHex(one)
					}
					same := func(b *Body) bool {
						if b == nil || len(*b) != v.N {
							return false
						}
						for _, e := range *b {
							if !bytes.Equal(e, one) {
								return false
							}
						}
						return true
					}
					show := func(b *Body, err error) string {
						if err != nil {
							return "error: " + err.Error()
						}
						if b == nil {
							return "nil body"
						}
						return fmt.Sprintf("%d extrinsics", len(*b))
					}
					body := NewBody(exts)
					enc, err := scale.Marshal(*body)
					res.Cmp()
					if err != nil || !bytes.Equal(enc, want) {
						g := vHex(enc)
						if len(g) > 40 {
							g = g[:40] + fmt.Sprintf("... (%d bytes)", len(enc))
						}
						fail("Marshal(Body)", fmt.Sprintf("%s... (%d bytes)", vHex(want[:min(len(want), 20)]), len(want)), g+fmt.Sprint(err), sig+"/encode")
					}
					res.Cmp()
					if back, err := NewBodyFromBytes(want); err != nil || !same(back) {
						fail("NewBodyFromBytes", fmt.Sprintf("%d extrinsics", v.N), show(back, err), sig+"/decode")
					}
					// the per-extrinsic encodings (block response, storage) and back
					encExts, err := body.AsEncodedExtrinsics()
					res.Cmp()
					okEnc := err == nil && len(encExts) == v.N
					for i := 0; okEnc && i < v.N; i++ {
						okEnc = bytes.Equal(encExts[i], oneEnc)
					}
					if !okEnc {
						fail("Body.AsEncodedExtrinsics", fmt.Sprintf("%d times 04%02x", v.N, v.Fill), fmt.Sprint(len(encExts), " ", err), sig+"/as-encoded-extrinsics")
					} else {
						res.Cmp()
						if back, err := NewBodyFromEncodedBytes(ExtrinsicsArrayToBytesArray(encExts)); err != nil || !same(back) {
							fail("NewBodyFromEncodedBytes", fmt.Sprintf("%d extrinsics", v.N), show(back, err), sig+"/from-encoded-bytes")
						}
					}
					res.Cmp()
					if back, err := NewBodyFromExtrinsicStrings(strs); err != nil || !same(back) {
						fail("NewBodyFromExtrinsicStrings", fmt.Sprintf("%d extrinsics", v.N), show(back, err), sig+"/from-strings")
					}
				case "body":
					res.Case("body", string(c.O.V))
					var exts []Extrinsic
					for _, x := range vcList(c.O.V) {
						exts = append(exts, Extrinsic(vcBytes(x)))
					}
					body := NewBody(exts)
					enc, err := scale.Marshal(*body)
					cmpBytes("Marshal(Body)", enc, err, "C14/body/encode")
					res.Cmp()
					back, err := NewBodyFromBytes(exp)
					if err != nil {
						fail("NewBodyFromBytes", fmt.Sprint(exts), "error: "+err.Error(), "C14/body/decode-error")
					} else {
						ok := len(*back) == len(exts)
						for i := 0; ok && i < len(exts); i++ {
							ok = bytes.Equal((*back)[i], exts[i])
						}
						if !ok {
							fail("NewBodyFromBytes", fmt.Sprintf("%x", exts), fmt.Sprintf("%x", *back), "C14/body/decode-value")
						}
					}
				default:
					handled = false
				}
			})
			if pm != "" {
				if strings.Contains(pm, "VERIF-INFRA") {
					t.Fatalf("%s on %s", pm, raw)
				}
				fail("panic", "no panic", pm, "C14/"+c.O.Ty+"/panic")
			}
			if handled && bi < 3 {
				res.Sample(json.RawMessage(raw))
			}
		}
	}
	_ = common.Hash{}
}
