//go:build verif

// Conformance harness for C32 (specs/FullSyncOps.tla, FullSyncMonitor*.tla), engine V.
//
// TestVerifFullSyncRecord feeds TLC-generated delivery scenarios (block tree + batches of
// responses: split, reordered, duplicated, forked, disconnected, with forged stated hashes,
// broken links, empty responses) to the REAL FullSyncStrategy.Process.  The strategy runs with
// the real blockImporter over a real dot/state.BlockState; only the leaves of the import path are
// stubs (empty-trie storage, a runtime whose ExecuteBlock succeeds, an import handler that adds
// the block to the BlockState).  Every importBlock call is recorded through a wrapper of the
// strategy's importer field, mapped back to abstract block ids, and written with the deliveries
// to trace.ndjson, which FullSyncMonitor_Trace judges in TLC.
//
// TestVerifFullSyncVerdicts turns TLC's verdict lines into results (classifier signatures are
// computed by the specification).

package sync

import (
	"strings"
	"errors"
	"bufio"
	"encoding/json"
	"fmt"
	"os"
	"path/filepath"
	stdsync "sync"
	"testing"
	"time"

	"github.com/ChainSafe/gossamer/dot/network/messages"
	"github.com/ChainSafe/gossamer/dot/state"
	"github.com/ChainSafe/gossamer/dot/types"
	"github.com/ChainSafe/gossamer/lib/common"
	"github.com/ChainSafe/gossamer/lib/runtime"
	rtstorage "github.com/ChainSafe/gossamer/lib/runtime/storage"
	"github.com/ChainSafe/gossamer/pkg/trie/inmemory"
	"github.com/libp2p/go-libp2p/core/peer"
)

type vfsEntry struct {
	B  int `json:"b"`
	St int `json:"st"`
	Rl int `json:"rl"` // 1: header relinked to the hash stated for the previous entry; 2: header with the all-zero parent hash
}

type vfsResp struct {
	Dir string     `json:"dir"`
	Es  []vfsEntry `json:"es"`
}

type vfsStep struct {
	Batch []vfsResp `json:"batch"`
}

type vfsScenario struct {
	Par   []int             `json:"par"`
	Steps []json.RawMessage `json:"steps"`
}

// one NDJSON line; every line carries every field (the TLC trace reader needs uniform records)
type vfsEvent struct {
	Ev    string    `json:"ev"`
	Sc    int       `json:"sc"`
	Par   []int     `json:"par"`
	Batch []vfsResp `json:"batch"`
	B     int       `json:"b"`
	St    int       `json:"st"`
	Res   string    `json:"res"`
	Why   string    `json:"why"`
}

type vfsStorage struct{ stdsync.Mutex }

func (*vfsStorage) TrieState(*common.Hash) (*rtstorage.TrieState, error) {
	return rtstorage.NewTrieState(inmemory.NewEmptyTrie()), nil
}

type vfsTxState struct{}

func (vfsTxState) RemoveExtrinsic(types.Extrinsic) {}

type vfsBabe struct{}

func (vfsBabe) VerifyBlock(*types.Header) error { return nil }

type vfsFinality struct{}

// Two kinds of justification are attached to delivered entries (see below): 0xaa.. on the first delivery of some
// honest entries -- it verifies, so the importer finalises the block and the competing forks are pruned inside the
// Process call; 0xbb.. on entries of blocks that were delivered before -- it does not verify, so a block that is
// processed with it is refused, and a block the node already holds is not processed at all ("never twice").
func (vfsFinality) VerifyBlockJustification(_ common.Hash, number uint, just []byte) (uint64, uint64, error) {
	if len(just) > 0 && just[0] == 0xaa {
		return uint64(number), 0, nil
	}
	return 0, 0, errors.New("harness: justification cannot be verified")
}

type vfsRuntime struct{ runtime.Instance }

func (vfsRuntime) SetContextStorage(runtime.Storage)               {}
func (vfsRuntime) ExecuteBlock(*types.Block) ([]byte, error)       { return nil, nil }
func (vfsRuntime) Stop()                                           {}

type vfsHandler struct{ bs *state.BlockState }

func (h vfsHandler) HandleBlockImport(block *types.Block, _ *rtstorage.TrieState, _ bool) error {
	return h.bs.AddBlock(block)
}

// vfsImporter wraps the strategy's real importer and records every call.
type vfsImporter struct {
	inner     importer
	f         *vsfForest
	emit      func(b, st int, res string)
	finalised func() // reports a move of the finalised head
}

func (w *vfsImporter) importBlock(bd *types.BlockData, o BlockOrigin) (bool, error) {
	id, st := -2, -1
	if bd.Header != nil {
		if x, ok := w.f.ByHash[bd.Header.Hash()]; ok {
			id = x
		}
	}
	if x, ok := w.f.ByHash[bd.Hash]; ok {
		st = x
	}
	imported, err := w.inner.importBlock(bd, o)
	res := "skipped"
	switch {
	case err != nil:
		res = "error"
	case imported:
		res = "imported"
	}
	w.emit(id, st, res)
	if w.finalised != nil {
		w.finalised()
	}
	return imported, err
}

func TestVerifFullSyncRecord(t *testing.T) {
	vsfQuiet()
	res := vNewResult(vEnvStr("VERIF_PROP", "C32"))
	defer res.Write(t)
	behs := vLoad(t, vIn(t, "behaviours.txt"))
	res.Behaviours = len(behs)
	fh, err := os.Create(filepath.Join(os.Getenv("VERIF_OUT"), "trace.ndjson"))
	if err != nil {
		t.Fatalf("VERIF-INFRA create trace: %v", err)
	}
	defer fh.Close()
	w := bufio.NewWriter(fh)
	defer w.Flush()
	lines := 0
	write := func(e vfsEvent) {
		if e.Par == nil {
			e.Par = []int{}
		}
		if e.Batch == nil {
			e.Batch = []vfsResp{}
		}
		for i := range e.Batch {
			if e.Batch[i].Es == nil {
				e.Batch[i].Es = []vfsEntry{}
			}
		}
		js, _ := json.Marshal(e)
		w.Write(js)
		w.WriteByte('\n')
		lines++
	}
	counts := map[string]int{}
scenarios:
	for bi, b := range behs {
		var sc vfsScenario
		if err := json.Unmarshal(b.Raw, &sc); err != nil {
			t.Fatalf("VERIF-INFRA scenario json: %v", err)
		}
		if bi < 2 {
			res.Sample(json.RawMessage(b.Raw))
		}
		f := vsfBuild(t, sc.Par, uint64(bi+1))
		bs := vsfNewBlockState(t, f)
		bs.StoreRuntime(f.Hash[0], vfsRuntime{})
		cfg := &FullSyncConfig{
			StorageState:       &vfsStorage{},
			TransactionState:   vfsTxState{},
			BabeVerifier:       vfsBabe{},
			FinalityGadget:     vfsFinality{},
			BlockImportHandler: vfsHandler{bs},
			Telemetry:          vsfTelemetry{},
			BlockState:         bs,
		}
		fs := NewFullSyncStrategy(cfg)
		lastFin := uint(0)
		fs.blockImporter = &vfsImporter{inner: fs.blockImporter, f: f, emit: func(id, st int, r string) {
			write(vfsEvent{Ev: "import", Sc: bi, B: id, St: st, Res: r})
			counts["import-"+r]++
		}, finalised: func() {
			h, err := bs.GetHighestFinalisedHeader()
			if err != nil || h.Number == lastFin {
				return
			}
			lastFin = h.Number
			if id, ok := f.ByHash[h.Hash()]; ok {
				write(vfsEvent{Ev: "final", Sc: bi, B: id})
				counts["finalised"]++
			}
		}}
		write(vfsEvent{Ev: "reset", Sc: bi, Par: sc.Par})
		redelivered := map[int]bool{} // blocks that appeared in an earlier batch of this scenario
		var delivered []int
		for si, raw := range sc.Steps {
			var s vfsStep
			if err := json.Unmarshal(raw, &s); err != nil {
				t.Fatalf("VERIF-INFRA step json: %v", err)
			}
			var results []*SyncTaskResult
			for _, x := range delivered {
				redelivered[x] = true
			}
			delivered = delivered[:0]
			for ri, r := range s.Batch {
				data := make([]*types.BlockData, 0, len(r.Es))
				for _, e := range r.Es {
					if e.B < 1 || e.B > len(sc.Par) {
						t.Fatalf("VERIF-INFRA entry block %d", e.B)
					}
					var stated common.Hash
					switch {
					case e.St < 0:
						stated = common.Hash{0xf0, 0x0d, byte(bi), byte(si), byte(ri), byte(e.B)}
					default:
						stated = f.Hash[e.St]
					}
					body := types.Body{}
					hdr := f.vsfCopyHeader(e.B)
					if e.Rl == 1 && len(data) > 0 {
						// a different header: child of whatever hash was stated for the previous entry
						hdr = types.NewHeader(data[len(data)-1].Hash, hdr.StateRoot, hdr.ExtrinsicsRoot, hdr.Number, hdr.Digest)
						stated = hdr.Hash()
					}
					if e.Rl == 2 {
						// a different header: same number, the all-zero parent hash, honestly stated
						hdr = types.NewHeader(common.Hash{}, hdr.StateRoot, hdr.ExtrinsicsRoot, hdr.Number, hdr.Digest)
						stated = hdr.Hash()
					}
					bd := &types.BlockData{Hash: stated, Header: hdr, Body: &body}
					// a block delivered again (another peer answering the same request, an overlapping range) may now carry the
					// justification the first response lacked
					if redelivered[e.B] && e.Rl == 0 && e.St == e.B && (e.B+si)%2 == 0 {
						just := []byte{0xbb, byte(e.B)}
						bd.Justification = &just
						counts["entries-with-unverifiable-justification"]++
					} else if !redelivered[e.B] && e.Rl == 0 && e.St == e.B && (e.B+bi)%4 == 0 {
						// finality moves while the remaining fragments of this Process call are still waiting
						just := []byte{0xaa, byte(e.B)}
						bd.Justification = &just
						counts["entries-with-verifying-justification"]++
					}
					delivered = append(delivered, e.B)
					data = append(data, bd)
				}
				dir := messages.Ascending
				if r.Dir == "desc" {
					// Process reverses the data of a descending request back into ascending order
					dir = messages.Descending
					for i, j := 0, len(data)-1; i < j; i, j = i+1, j-1 {
						data[i], data[j] = data[j], data[i]
					}
				}
				var from *messages.FromBlock
				if len(data) > 0 {
					from = messages.NewFromBlock(data[0].Hash)
				} else {
					from = messages.NewFromBlock(uint(1))
				}
				results = append(results, &SyncTaskResult{
					who:       peer.ID(fmt.Sprintf("peer-%d", ri)),
					completed: true,
					request:   messages.NewBlockRequest(*from, messages.MaxBlocksInResponse, messages.BootstrapRequestData, dir),
					response:  &messages.BlockResponseMessage{BlockData: data},
				})
				counts["responses"]++
			}
			write(vfsEvent{Ev: "deliver", Sc: bi, Batch: s.Batch})
			res.Case("Process", fmt.Sprintf("%d|%d", len(s.Batch), si))
			var perr error
			pm, to := vGuard(30*time.Second, func() { _, _, _, perr = fs.Process(results) })
			switch {
			case to:
				res.Fail(bi, si, "Process", "timeout", "return", "no return within 30s", "C32/Process/hang", json.RawMessage(b.Raw))
				write(vfsEvent{Ev: "return", Sc: bi, Res: "error"})
				continue scenarios
			case pm != "":
				why := "other"
				if strings.Contains(pm, "issues/3066") {
					// BlockState.GetRuntime panics when asked for a block that is not in the block tree (finalised chain below
					// the root, or a pruned fork): the importer asks for the PARENT's runtime
					why = "runtime-of-block-outside-the-tree"
				}
				write(vfsEvent{Ev: "return", Sc: bi, Res: "panic", Why: why})
				counts["return-panic"]++
				if _, seen := res.Extra["first_panic"]; !seen {
					res.Extra["first_panic"] = pm
				}
			case perr != nil:
				write(vfsEvent{Ev: "return", Sc: bi, Res: "error"})
				counts["return-error"]++
			default:
				write(vfsEvent{Ev: "return", Sc: bi, Res: "ok"})
				counts["return-ok"]++
			}
		}
	}
	res.Extra["trace_lines"] = lines
	res.Extra["events"] = counts
	if counts["import-imported"] == 0 {
		t.Fatalf("VERIF-INFRA vacuous run: no block was ever imported")
	}
}

func TestVerifFullSyncVerdicts(t *testing.T) {
	res := vNewResult(vEnvStr("VERIF_PROP", "C32"))
	defer res.Write(t)
	bad, consumed, total, found := vsfVerdicts(t, "FullSyncMonitor")
	if !found {
		t.Fatalf("VERIF-INFRA no TLC output of the monitor found")
	}
	if consumed != total {
		t.Fatalf("VERIF-INFRA monitor consumed %d of %d trace lines", consumed, total)
	}
	var lines []vfsEvent
	fh, err := os.Open(vIn(t, "trace.ndjson"))
	if err != nil {
		t.Fatalf("VERIF-INFRA open trace: %v", err)
	}
	sc := bufio.NewScanner(fh)
	sc.Buffer(make([]byte, 1<<20), 1<<26)
	for sc.Scan() {
		var e vfsEvent
		if err := json.Unmarshal(sc.Bytes(), &e); err != nil {
			t.Fatalf("VERIF-INFRA trace json: %v", err)
		}
		lines = append(lines, e)
	}
	fh.Close()
	behs := vLoad(t, vIn(t, "behaviours.txt"))
	res.Behaviours = len(behs)
	for _, e := range lines {
		key := ""
		if e.Ev == "import" {
			key = fmt.Sprintf("%d|%d|%s", e.B, e.St, e.Res)
		}
		res.Case("Monitor/"+e.Ev, key)
		res.Cmp()
	}
	for _, b := range bad {
		if b.Line < 1 || b.Line > len(lines) {
			t.Fatalf("VERIF-INFRA verdict for line %d of %d", b.Line, len(lines))
		}
		e := lines[b.Line-1]
		// the scenario up to the offending batch is the replayable prefix
		var prefix any
		if e.Sc < len(behs) {
			prefix = json.RawMessage(behs[e.Sc].Raw)
		}
		step := 0
		for i := b.Line - 1; i >= 0 && lines[i].Ev != "reset"; i-- {
			if lines[i].Ev == "deliver" {
				step++
			}
		}
		res.Fail(e.Sc, step-1, "Monitor/"+e.Ev, fmt.Sprintf("trace line %d", b.Line),
			"an event the monitor FullSyncMonitor allows", vJSON(e)+" : "+b.Why, b.Sig, prefix)
	}
}
