//go:build verif

// Shared helpers of the sync family (C31 BlockRequests, C32 FullSyncMonitor):
// abstract block trees (parent sequences, see specs/lib/SyncForest.tla) are turned into real
// headers and a real dot/state.BlockState; TLC verdict lines are turned into results.

package sync

import (
	"bufio"
	"encoding/json"
	"fmt"
	"os"
	"path/filepath"
	"strconv"
	"strings"
	"testing"

	"github.com/ChainSafe/gossamer/dot/state"
	"github.com/ChainSafe/gossamer/dot/types"
	"github.com/ChainSafe/gossamer/internal/database"
	"github.com/ChainSafe/gossamer/internal/log"
	"github.com/ChainSafe/gossamer/lib/common"
	"github.com/ChainSafe/gossamer/pkg/trie"
)

type vsfTelemetry struct{}

func (vsfTelemetry) SendMessage(json.Marshaler) {}

// vsfForest holds the real headers of an abstract forest; block 0 is genesis.
type vsfForest struct {
	Par    []int // Par[b-1] = parent of block b (b >= 1)
	Hdr    []*types.Header
	Hash   []common.Hash
	Num    []uint
	ByHash map[common.Hash]int
}

// vsfBuild creates headers: block b has number = depth, parent hash = hash of its parent's header,
// the empty-trie state root and a BABE secondary-plain pre-digest with slot 1000*salt+b, which
// makes sibling headers (and the forests of different scenarios) distinct.
func vsfBuild(t testing.TB, par []int, salt uint64) *vsfForest {
	n := len(par)
	f := &vsfForest{Par: par, Hdr: make([]*types.Header, n+1), Hash: make([]common.Hash, n+1),
		Num: make([]uint, n+1), ByHash: map[common.Hash]int{}}
	f.Hdr[0] = types.NewHeader(common.Hash{}, trie.EmptyHash, trie.EmptyHash, 0, types.NewDigest())
	f.Hash[0] = f.Hdr[0].Hash()
	f.ByHash[f.Hash[0]] = 0
	for b := 1; b <= n; b++ {
		p := par[b-1]
		if p < 0 || p >= b {
			t.Fatalf("VERIF-INFRA forest: parent of %d is %d", b, p)
		}
		digest := types.NewDigest()
		di, err := types.NewBabeSecondaryPlainPreDigest(0, 1000*salt+uint64(b)).ToPreRuntimeDigest()
		if err != nil {
			t.Fatalf("VERIF-INFRA digest: %v", err)
		}
		if err := digest.Add(*di); err != nil {
			t.Fatalf("VERIF-INFRA digest add: %v", err)
		}
		f.Num[b] = f.Num[p] + 1
		f.Hdr[b] = types.NewHeader(f.Hash[p], trie.EmptyHash, trie.EmptyHash, f.Num[b], digest)
		f.Hash[b] = f.Hdr[b].Hash()
		f.ByHash[f.Hash[b]] = b
	}
	return f
}

// vsfCopyHeader returns a fresh header equal to block b's (the code under test may cache in it).
func (f *vsfForest) vsfCopyHeader(b int) *types.Header {
	h := f.Hdr[b]
	c := types.NewHeader(h.ParentHash, h.StateRoot, h.ExtrinsicsRoot, h.Number, h.Digest)
	return c
}

func (f *vsfForest) Block(b int) *types.Block {
	return &types.Block{Header: *f.vsfCopyHeader(b), Body: types.Body{}}
}

// vsfNewBlockState creates a real BlockState (in-memory pebble) whose genesis is block 0.
func vsfNewBlockState(t testing.TB, f *vsfForest) *state.BlockState {
	db, err := database.NewPebble("", true)
	if err != nil {
		t.Fatalf("VERIF-INFRA pebble: %v", err)
	}
	bs, err := state.NewBlockStateFromGenesis(db, state.NewTries(), f.vsfCopyHeader(0), vsfTelemetry{})
	if err != nil {
		t.Fatalf("VERIF-INFRA block state: %v", err)
	}
	return bs
}

func vsfQuiet() {
	logger.Patch(log.SetLevel(log.Critical))
}

// ---- TLC verdict lines -------------------------------------------------------------
//
// A trace specification of this family consumes every line of the trace and reports the
// lines it cannot explain as  <<"VERIF-BAD", "<json>">>  with json = {"line","sig","why"}
// (signature computed by the specification).  vsfVerdicts collects them from every TLC
// output file of the run.

type vsfBad struct {
	Line int    `json:"line"`
	Sig  string `json:"sig"`
	Why  string `json:"why"`
}

func vsfVerdicts(t testing.TB, family string) (bad []vsfBad, consumed, total int, found bool) {
	dir := os.Getenv("VERIF_IN")
	files, _ := filepath.Glob(filepath.Join(dir, "tlc_*.out"))
	for _, fn := range files {
		fh, err := os.Open(fn)
		if err != nil {
			t.Fatalf("VERIF-INFRA open %s: %v", fn, err)
		}
		sc := bufio.NewScanner(fh)
		sc.Buffer(make([]byte, 1<<20), 1<<28)
		var fb []vsfBad
		mine := false
		c, n := 0, 0
		for sc.Scan() {
			line := strings.TrimSpace(sc.Text())
			switch {
			case strings.HasPrefix(line, `<<"VERIF-BAD", "`):
				q := strings.TrimSuffix(strings.TrimPrefix(line, `<<"VERIF-BAD", `), ">>")
				s, err := strconv.Unquote(q)
				if err != nil {
					t.Fatalf("VERIF-INFRA unquote verdict: %v", err)
				}
				var b vsfBad
				if err := json.Unmarshal([]byte(s), &b); err != nil {
					t.Fatalf("VERIF-INFRA verdict json: %v", err)
				}
				fb = append(fb, b)
			case strings.HasPrefix(line, `<<"VERIF-FAMILY", "`+family+`"`):
				mine = true
			case strings.HasPrefix(line, `<<"VERIF-TRACE", `):
				fmt.Sscanf(strings.NewReplacer(",", " ", ">", " ").Replace(strings.TrimPrefix(line, `<<"VERIF-TRACE", `)), "%d %d", &c, &n)
			}
		}
		fh.Close()
		if mine {
			bad = append(bad, fb...)
			consumed, total, found = c, n, true
		}
	}
	return
}
