//go:build verif

// Recorder for C35 on the request de-duplication cache of the sync service (specs/SyncDedup_Trace.tla): a FRESH service
// (NewSyncService, as the node builds it) is hit by several peers at once, each peer repeating its own request five times
// on its stream; the third repetition is the last one served.  Call / return events are stamped by one atomic counter; the
// verdict is TLC's (stage V-dedup): the history must be linearisable against ONE map shared by all streams from the first
// request on.  The race detector watches the same run.
package sync

import (
	"encoding/json"
	"errors"
	"fmt"
	"os"
	"path/filepath"
	"sort"
	gosync "sync"
	"sync/atomic"
	"testing"

	"github.com/ChainSafe/gossamer/dot/network/messages"
	"github.com/ChainSafe/gossamer/dot/peerset"
	"github.com/libp2p/go-libp2p/core/peer"
)

type vsdEv struct {
	Seq int64  `json:"-"`
	Ev  string `json:"ev"`
	ID  int    `json:"id"`
	Op  string `json:"op"`
	K   int    `json:"k"`
	Res int    `json:"res"`
	Max int    `json:"max"`
}

type vsdNetwork struct{ Network }

func (vsdNetwork) ReportPeer(peerset.ReputationChange, peer.ID) {}

func TestVerifSyncDedupConc(t *testing.T) {
	vsfQuiet()
	res := vNewResult(vEnvStr("VERIF_PROP", "C35"))
	defer res.Write(t)
	out := os.Getenv("VERIF_OUT")
	if out == "" {
		t.Skip("VERIF_OUT not set")
	}
	fh, err := os.Create(filepath.Join(out, "dedup.ndjson"))
	if err != nil {
		t.Fatalf("VERIF-INFRA %v", err)
	}
	defer fh.Close()
	enc := json.NewEncoder(fh)
	nhist := vEnvInt("VERIF_SD_HISTORIES", 150)
	f := vsfBuild(t, []int{0, 1, 2}, 77)
	bs := vsfNewBlockState(t, f)
	for b := 1; b <= 3; b++ {
		if err := bs.AddBlock(f.Block(b)); err != nil {
			t.Fatalf("VERIF-INFRA AddBlock %d: %v", b, err)
		}
	}
	id := 0
	for h := 0; h < nhist; h++ {
		svc := NewSyncService(WithBlockState(bs))
		svc.network = vsdNetwork{}
		peers := 2 + h%7
		const reps = 5
		var ctr atomic.Int64
		evs := make([][]vsdEv, peers)
		var wg gosync.WaitGroup
		var ready atomic.Int32
		start := make(chan struct{})
		for p := 0; p < peers; p++ {
			wg.Add(1)
			first := id + 1
			id += reps
			go func(p, first int) {
				defer wg.Done()
				from := peer.ID(fmt.Sprintf("peer-%d-%d", h, p))
				max := uint32(2)
				req := &messages.BlockRequestMessage{RequestedData: 1, StartingBlock: *messages.NewFromBlock(uint(1)), Direction: messages.Ascending, Max: &max}
				ready.Add(1)
				<-start
				for i := 0; i < reps; i++ {
					s1 := ctr.Add(1)
					_, err := svc.CreateBlockResponse(from, req)
					s2 := ctr.Add(1)
					r := 0
					switch {
					case err == nil:
					case errors.Is(err, errMaxNumberOfSameRequest):
						r = 1
					default:
						r = 2 // an answer the specification does not know: rejected by the trace specification
					}
					evs[p] = append(evs[p], vsdEv{Seq: s1, Ev: "call", ID: first + i, Op: "Req", K: p + 1}, vsdEv{Seq: s2, Ev: "ret", ID: first + i, Res: r})
				}
			}(p, first)
		}
		for int(ready.Load()) < peers {
		}
		close(start)
		wg.Wait()
		var all []vsdEv
		for _, e := range evs {
			all = append(all, e...)
		}
		sort.Slice(all, func(i, j int) bool { return all[i].Seq < all[j].Seq })
		enc.Encode(vsdEv{Ev: "reset", Max: int(maxNumberOfSameRequestPerPeer)})
		for _, e := range all {
			enc.Encode(e)
		}
		res.Case("history", fmt.Sprintf("%d|%d", peers, h))
		if h < 2 {
			res.Sample(all)
		}
	}
	res.Behaviours = nhist
}
