//go:build verif

// Conformance harness for C31 (specs/BlockRequestsOps.tla, BlockRequests_Gen.tla, BlockRequests_Trace.tla).
//
// Serving (engine G): every TLC-generated scenario (block tree, finalised block, stored
// justifications, requests) is built as a REAL dot/state.BlockState; every request goes through
// SyncService.CreateBlockResponse and the served blocks, mapped back to abstract block ids, must be
// a member of the set of acceptable responses the specification computed (Acc) or, when nothing
// is served, the specification must allow a refusal (MayRefuse).  Field presence is compared per block.
//
// Planning (engine V): messages.NewAscendingBlockRequests is run over a grid of ranges and every
// result is written to plans.ndjson; TLC evaluates the statement's predicate IsPlan on every line.

package sync

import (
	"bufio"
	"encoding/json"
	"fmt"
	"math/big"
	"os"
	"path/filepath"
	"testing"
	"time"

	"github.com/ChainSafe/gossamer/dot/network/messages"
	"github.com/ChainSafe/gossamer/lib/common"
	"github.com/libp2p/go-libp2p/core/peer"
)

type vbrReq struct {
	By     string `json:"by"`
	Start  int    `json:"start"`
	Dir    string `json:"dir"`
	Max    int    `json:"max"`
	Fields int    `json:"fields"`
}

type vbrExp struct {
	Best   int     `json:"best"`
	Acc    [][]int `json:"acc"`
	Refuse bool    `json:"refuse"`
}

type vbrStep struct {
	O  vbrReq `json:"o"`
	Fl struct {
		H  bool `json:"h"`
		B  bool `json:"b"`
		Rc bool `json:"rc"`
		Mq bool `json:"mq"`
		J  bool `json:"j"`
	} `json:"fl"`
	Exp []vbrExp `json:"exp"`
}

type vbrScenario struct {
	Par   []int             `json:"par"`
	Fin   int               `json:"fin"`
	J     []int             `json:"J"`
	K     []int             `json:"K"`
	Steps []json.RawMessage `json:"steps"`
}

func vbrSeqEq(a, b []int) bool {
	if len(a) != len(b) {
		return false
	}
	for i := range a {
		if a[i] != b[i] {
			return false
		}
	}
	return true
}

func vbrIsPrefix(p, s []int) bool { return len(p) <= len(s) && vbrSeqEq(p, s[:len(p)]) }

func (f *vsfForest) isAnc(a, b int) bool {
	for {
		if a == b {
			return true
		}
		if b == 0 {
			return false
		}
		b = f.Par[b-1]
	}
}

func vbrMaxClass(m int) string {
	switch {
	case m < 0:
		return "max-absent"
	case m == 0:
		return "max-0"
	case m > 128:
		return "max-over-128"
	}
	return "max-n"
}

func TestVerifBlockRequests(t *testing.T) {
	vsfQuiet()
	res := vNewResult(vEnvStr("VERIF_PROP", "C31"))
	defer res.Write(t)
	behs := vLoad(t, vIn(t, "behaviours.txt"))
	res.Behaviours = len(behs)
	for bi, b := range behs {
		var sc vbrScenario
		if err := json.Unmarshal(b.Raw, &sc); err != nil {
			t.Fatalf("VERIF-INFRA scenario json: %v", err)
		}
		vbrServeScenario(t, res, bi, &sc)
	}
	vbrPlans(t, res)
}

func vbrServeScenario(t *testing.T, res *vResult, bi int, sc *vbrScenario) {
	f := vsfBuild(t, sc.Par, uint64(bi+1))
	bs := vsfNewBlockState(t, f)
	hdr := map[string]any{"par": sc.Par, "fin": sc.Fin, "J": sc.J, "K": sc.K}
	prefix := func(step json.RawMessage) any {
		return map[string]any{"family": "BlockRequests", "par": sc.Par, "fin": sc.Fin, "J": sc.J, "K": sc.K,
			"steps": []json.RawMessage{step}}
	}
	// the service answers requests WHILE the chain grows and re-organises (blocks arrive in id order, so the best chain of
	// the moment changes as forks overtake each other): a by-number request is answered from the best chain of the moment,
	// whatever was served before.  The same service then serves the scenario's steps.
	svc := NewSyncService(WithBlockState(bs))
	for b := 1; b <= len(sc.Par); b++ {
		if err := bs.AddBlock(f.Block(b)); err != nil {
			t.Fatalf("VERIF-INFRA AddBlock %d: %v", b, err)
		}
		if b > 12 && b%16 != 0 {
			continue
		}
		bestNow, ok := f.ByHash[bs.BestBlockHash()]
		if !ok {
			t.Fatalf("VERIF-INFRA best block unknown to the harness")
		}
		var chain []int // best chain of the moment, numbers 1..
		for x := bestNow; x != 0; x = f.Par[x-1] {
			chain = append([]int{x}, chain...)
		}
		if len(chain) > 128 {
			chain = chain[:128]
		}
		req := &messages.BlockRequestMessage{RequestedData: 1, StartingBlock: *messages.NewFromBlock(uint(1)), Direction: messages.Ascending}
		var resp *messages.BlockResponseMessage
		var err error
		pm, to := vGuard(20*time.Second, func() { resp, err = svc.CreateBlockResponse(peer.ID(fmt.Sprintf("grow-%d-%d", bi, b)), req) })
		res.Case("Serve-while-growing", fmt.Sprintf("%d|%d", len(chain), b))
		res.Cmp()
		var got []int
		if resp != nil {
			for _, bd := range resp.BlockData {
				id, known := f.ByHash[bd.Hash]
				if !known {
					id = -1
				}
				got = append(got, id)
			}
		}
		if to || pm != "" || err != nil || !vbrSeqEq(got, chain) {
			res.Fail(bi, 0, "Serve/num-asc/while-chain-grows", "blocks", fmt.Sprint(chain), fmt.Sprintf("%v err=%v panic=%s timeout=%v (after block %d arrived)", got, err, pm, to, b),
				"C31/Serve/num-asc/while-chain-grows/blocks", hdr)
			return
		}
	}
	// "exactly the requested fields": receipts are stored for odd blocks, message queues for blocks that are not
	// multiples of three, each with bytes that name the field and the block
	hasRc := func(b int) bool { return b%2 == 1 }
	hasMq := func(b int) bool { return b%3 != 0 }
	for b := 1; b <= len(sc.Par); b++ {
		if hasRc(b) {
			if err := bs.SetReceipt(f.Hash[b], []byte{0xbb, byte(b)}); err != nil {
				t.Fatalf("VERIF-INFRA SetReceipt: %v", err)
			}
		}
		if hasMq(b) {
			if err := bs.SetMessageQueue(f.Hash[b], []byte{0xcc, byte(b), 0x01}); err != nil {
				t.Fatalf("VERIF-INFRA SetMessageQueue: %v", err)
			}
		}
	}
	inJ := map[int]bool{}
	for _, b := range sc.J {
		inJ[b] = true
		if err := bs.SetJustification(f.Hash[b], []byte{0xaa, byte(b)}); err != nil {
			t.Fatalf("VERIF-INFRA SetJustification: %v", err)
		}
	}
	if sc.Fin > 0 {
		var ferr error
		pm := vTry(func() { ferr = bs.SetFinalisedHash(f.Hash[sc.Fin], 1, 1) })
		if pm != "" || ferr != nil {
			res.Fail(bi, 0, "Finalise", "err", "nil", fmt.Sprint(pm, ferr), "C17/sync-harness/finalise-failed", hdr)
			return
		}
	}
	inK := map[int]bool{}
	for _, b := range sc.K {
		inK[b] = true
	}
	for b := 0; b <= len(sc.Par); b++ {
		has, _ := bs.HasHeader(f.Hash[b])
		if has != inK[b] {
			// pruning at finalisation is C17's business; this scenario's node view is not the specified one
			res.Fail(bi, 0, "Finalise", fmt.Sprintf("known(%d)", b), fmt.Sprint(inK[b]), fmt.Sprint(has),
				"C17/sync-harness/known-set-after-finalisation", hdr)
			return
		}
	}
	best, ok := f.ByHash[bs.BestBlockHash()]
	if !ok {
		t.Fatalf("VERIF-INFRA best block unknown to the harness")
	}
	for si, raw := range sc.Steps {
		var s vbrStep
		if err := json.Unmarshal(raw, &s); err != nil {
			t.Fatalf("VERIF-INFRA step json: %v", err)
		}
		var exp *vbrExp
		for i := range s.Exp {
			if s.Exp[i].Best == best {
				exp = &s.Exp[i]
			}
		}
		if exp == nil {
			res.Fail(bi, si, "Best", "best", "a deepest leaf", fmt.Sprint(best), "C16/sync-harness/best-not-a-deepest-leaf", hdr)
			return
		}
		if bi < 2 && si == 0 {
			res.Sample(prefix(raw))
		}
		o := s.O
		var from *messages.FromBlock
		startClass := "num"
		if o.By == "num" {
			from = messages.NewFromBlock(uint(o.Start))
			switch {
			case o.Start == 0:
				startClass = "num-0"
			case uint(o.Start) > f.Num[best]:
				startClass = "num-above-best"
			}
		} else {
			switch {
			case o.Start < 0:
				from = messages.NewFromBlock(common.Hash{0xde, 0xad, byte(bi), byte(si)})
				startClass = "hash-unknown"
			case !inK[o.Start]:
				from = messages.NewFromBlock(f.Hash[o.Start])
				startClass = "hash-pruned"
			default:
				from = messages.NewFromBlock(f.Hash[o.Start])
				switch {
				case o.Start == 0:
					startClass = "hash-genesis"
				case f.isAnc(o.Start, best):
					startClass = "hash-on-best-chain"
				default:
					startClass = "hash-off-best-chain"
				}
			}
		}
		req := &messages.BlockRequestMessage{RequestedData: byte(o.Fields), StartingBlock: *from}
		if o.Dir == "desc" {
			req.Direction = messages.Descending
		}
		lim := 128
		if o.Max >= 0 {
			m := uint32(o.Max)
			req.Max = &m
			if o.Max < 128 {
				lim = o.Max
			}
		}
		res.Case("Serve", fmt.Sprintf("%s|%s|%s|%s|%d|%d", o.By, o.Dir, startClass, vbrMaxClass(o.Max), o.Fields, len(exp.Acc)))
		op := "Serve/" + o.By + "-" + o.Dir + "/" + startClass
		var resp *messages.BlockResponseMessage
		var err error
		pm, to := vGuard(20*time.Second, func() {
			resp, err = svc.CreateBlockResponse(peer.ID(fmt.Sprintf("peer-%d-%d", bi, si)), req)
		})
		if to {
			res.Fail(bi, si, op, "timeout", "a response", "no return within 20s", "C31/"+op+"/hang", prefix(raw))
			return // the goroutine still holds the service
		}
		if pm != "" {
			res.Fail(bi, si, op, "panic", "no panic", pm, "C31/"+op+"/panic", prefix(raw))
			continue
		}
		res.Cmp()
		var got []int
		if err == nil && resp != nil {
			for _, bd := range resp.BlockData {
				if bd == nil {
					got = append(got, -3)
					continue
				}
				id, ok := f.ByHash[bd.Hash]
				if !ok {
					id = -2
				}
				got = append(got, id)
			}
		}
		if len(got) == 0 {
			if !exp.Refuse {
				res.Fail(bi, si, op, "response", "one of "+vJSON(exp.Acc), fmt.Sprintf("nothing served (err=%v)", err),
					"C31/"+op+"/refused", prefix(raw))
			}
			continue
		}
		member := false
		for _, a := range exp.Acc {
			if vbrSeqEq(a, got) {
				member = true
			}
		}
		if !member {
			cls := "other"
			chain := true
			for i := 0; i+1 < len(got); i++ {
				var c, p int
				if o.Dir == "asc" {
					p, c = got[i], got[i+1]
				} else {
					c, p = got[i], got[i+1]
				}
				if c < 1 || p < 0 || f.Par[c-1] != p {
					chain = false
				}
			}
			startOK := false
			short := false
			for _, a := range exp.Acc {
				if len(a) > 0 && a[0] == got[0] {
					startOK = true
				}
				if vbrIsPrefix(got, a) {
					short = true
				}
			}
			switch {
			case len(got) > lim:
				cls = "longer-than-maximum"
			case !chain:
				cls = "not-a-gap-free-chain"
			case !startOK:
				cls = "wrong-start-block"
			case short:
				cls = "shorter-than-available"
			}
			res.Fail(bi, si, op, "response", "one of "+vJSON(exp.Acc), vJSON(got), "C31/"+op+"/"+cls, prefix(raw))
		}
		// fields, block by block
		for i, bd := range resp.BlockData {
			if bd == nil || got[i] < 0 {
				continue
			}
			id := got[i]
			res.Cmp()
			bad := ""
			switch {
			case (bd.Header != nil) != s.Fl.H:
				bad = "header-presence"
			case bd.Header != nil && bd.Header.Hash() != f.Hash[id]:
				bad = "header-of-other-block"
			case (bd.Body != nil) != s.Fl.B:
				bad = "body-presence"
			case (bd.Justification != nil) != (s.Fl.J && inJ[id]):
				bad = "justification-presence"
			case bd.Justification != nil && string(*bd.Justification) != string([]byte{0xaa, byte(id)}):
				bad = "justification-of-other-block"
			case (bd.Receipt != nil) != (s.Fl.Rc && hasRc(id) && id > 0):
				bad = "receipt-presence"
			case bd.Receipt != nil && string(*bd.Receipt) != string([]byte{0xbb, byte(id)}):
				bad = "receipt-is-other-data"
			case (bd.MessageQueue != nil) != (s.Fl.Mq && hasMq(id) && id > 0):
				bad = "message-queue-presence"
			case bd.MessageQueue != nil && string(*bd.MessageQueue) != string([]byte{0xcc, byte(id), 0x01}):
				bad = "message-queue-is-other-data"
			}
			if bad != "" {
				res.Fail(bi, si, op, "fields of block "+fmt.Sprint(id),
					fmt.Sprintf("header=%v body=%v justification=%v", s.Fl.H, s.Fl.B, s.Fl.J && inJ[id]),
					fmt.Sprintf("header=%v body=%v justification=%v", bd.Header != nil, bd.Body != nil, bd.Justification != nil),
					"C31/Serve/fields/"+bad, prefix(raw))
				break
			}
		}
	}
}

// ---- planning ----------------------------------------------------------------------

type vbrPlanLine struct {
	Base string      `json:"base"`
	A    int64       `json:"a"`
	B    int64       `json:"b"`
	Rs   []vbrPlanRq `json:"rs"`
	Note string      `json:"note"`
}

type vbrPlanRq struct {
	S int64 `json:"s"`
	M int64 `json:"m"`
}

func vbrPlans(t *testing.T, res *vResult) {
	out := os.Getenv("VERIF_OUT")
	fh, err := os.Create(filepath.Join(out, "plans.ndjson"))
	if err != nil {
		t.Fatalf("VERIF-INFRA create plans: %v", err)
	}
	defer fh.Close()
	w := bufio.NewWriter(fh)
	defer w.Flush()
	span := int64(270)
	as := []int64{0, 1, 2, 3, 127, 128, 129, 255, 256, 257}
	if vThorough() {
		span = 700
		as = append(as, 5, 64, 100, 126, 130, 200, 254, 258, 383, 384, 385, 500, 511, 512, 513)
	}
	bases := []string{"0", "2147483648", "4294967040", "1099511627776"}
	n := 0
	for bi, base := range bases {
		bb, _ := new(big.Int).SetString(base, 10)
		base64 := bb.Uint64()
		for _, a := range as {
			if bi > 0 && a != 0 && a != 1 && a != 128 && (a != 256 || !vThorough()) {
				continue
			}
			for b := a - 2; b <= a+span; b++ {
				if b < 0 {
					continue
				}
				line := vbrPlanLine{Base: base, A: a, B: b, Rs: []vbrPlanRq{}}
				var reqs []*messages.BlockRequestMessage
				pm := vTry(func() {
					reqs = messages.NewAscendingBlockRequests(uint(base64)+uint(a), uint(base64)+uint(b), messages.BootstrapRequestData)
				})
				if pm != "" {
					res.Fail(n, 0, "Plan", "panic", "no panic", pm, "C31/Plan/panic", line)
					continue
				}
				for _, r := range reqs {
					st, ok := r.StartingBlock.RawValue().(uint)
					mx := int64(-1)
					if r.Max != nil {
						mx = int64(*r.Max)
					}
					if !ok || r.Direction != messages.Ascending || r.RequestedData != messages.BootstrapRequestData || r.Max == nil {
						line.Note = "request is not an ascending by-number request with the given fields and a maximum"
						mx = -1
					}
					rel := int64(uint64(st) - base64)
					if rel > 1<<30 || rel < -(1<<30) {
						rel = -(1 << 30)
					}
					line.Rs = append(line.Rs, vbrPlanRq{S: rel, M: mx})
				}
				js, _ := json.Marshal(line)
				w.Write(js)
				w.WriteByte('\n')
				res.Case("Plan", fmt.Sprintf("%s|%d|%d", base, a, len(reqs)))
				n++
			}
		}
	}
	res.Extra["plan_cases_written"] = n
}
