//go:build verif

// Recorder for C23's finalisation hand-over (specs/FinalityFeed.tla, evaluated by specs/FinalityFeed_Eval.tla).
//
// Runs driver schedules on the real pipeline
//
//	BlockState.SetFinalisedHash -> notifyFinalized (one goroutine per notification, non-blocking send, channel of 128)
//	   -> digest.Handler.handleBlockFinalisation -> GrandpaState.ApplyScheduledChanges
//
// over a linear chain with scheduled authority-set changes every 6 blocks (delay 2), and writes one line per
// schedule to feed.ndjson: the block numbers in the order the handler applied them, the highest number of
// finalisations the driver let be outstanding at once, and the set id reached at quiescence.  The driver controls
// only what a node's environment controls: when finalisations are issued and how slow the handler is (a gate in
// front of ApplyScheduledChanges).  The verdict is TLC's (stage V-feed).
package digest

import (
	"encoding/json"
	"os"
	"path/filepath"
	"testing"
	"time"

	"github.com/ChainSafe/gossamer/dot/types"
)

type vffGrandpa struct {
	*vdlGrandpa
	gate chan struct{} // receives one token per call it lets through while gated
	open chan struct{} // closed = every call passes
	seen chan uint
}

func (g *vffGrandpa) ApplyScheduledChanges(h *types.Header) error {
	select {
	case <-g.open:
	case <-g.gate:
	}
	err := g.vdlGrandpa.GrandpaState.ApplyScheduledChanges(h)
	g.seen <- h.Number
	return err
}

type vffRecord struct {
	Scenario  string `json:"scenario"`
	N         int    `json:"n"`
	MaxOut    int    `json:"maxout"`
	D         []int  `json:"d"`
	SetID     int    `json:"setid"`
	WantSetID int    `json:"wantsetid"`
}

func vffRun(t *testing.T, scenario string, n int, prompt, gated bool) vffRecord {
	w := vdlNewWorld(t)
	_ = w.hd.Stop() // the world's own handler; this scenario installs one with a gate
	g := &vffGrandpa{vdlGrandpa: w.gs, gate: make(chan struct{}), open: make(chan struct{}), seen: make(chan uint, 4*n+16)}
	if !gated {
		close(g.open)
	}
	imp := NewBlockImportHandler(w.ep, g)
	hd, err := NewHandler(w.bs, w.ep, g)
	if err != nil {
		t.Fatalf("VERIF-INFRA handler: %v", err)
	}
	if err := hd.Start(); err != nil {
		t.Fatalf("VERIF-INFRA handler start: %v", err)
	}
	defer func() {
		_ = hd.Stop()
		_ = w.db.Close()
	}()
	w.imp = imp
	want := 0
	for b := 1; b <= n; b++ {
		items := []vdlItem{{T: "O", K: "N"}}
		if b%6 == 3 {
			items = append(items, vdlItem{T: "S", K: "S", D: 2, A: 1 + (b/6)%3})
			if b+2 <= n {
				want++
			}
		}
		if got, detail := w.importBlock(b-1, items); got != "ok" {
			t.Fatalf("VERIF-INFRA import of block %d: %s %s", b, got, detail)
		}
	}
	rec := vffRecord{Scenario: scenario, N: n, WantSetID: want, D: []int{}}
	collect := func(wait time.Duration) bool {
		select {
		case x := <-g.seen:
			rec.D = append(rec.D, int(x))
			return true
		case <-time.After(wait):
			return false
		}
	}
	curSet := func() uint64 {
		id, err := w.gs.GetCurrentSetID()
		if err != nil {
			t.Fatalf("VERIF-INFRA set id: %v", err)
		}
		return id
	}
	switch {
	case prompt:
		rec.MaxOut = 1
		for b := 1; b <= n; b++ {
			if err := w.bs.SetFinalisedHash(w.hdr[b].Hash(), uint64(b), curSet()); err != nil {
				t.Fatalf("VERIF-INFRA SetFinalisedHash(%d): %v", b, err)
			}
			if !collect(60 * time.Second) {
				break // a lost notification in the prompt schedule: the record shows it
			}
		}
	default:
		rec.MaxOut = n
		for b := 1; b <= n; b++ {
			if err := w.bs.SetFinalisedHash(w.hdr[b].Hash(), uint64(b), curSet()); err != nil {
				t.Fatalf("VERIF-INFRA SetFinalisedHash(%d): %v", b, err)
			}
		}
		if gated {
			// the handler is stuck in front of its first ApplyScheduledChanges while every sender goroutine runs
			deadline := time.Now().Add(30 * time.Second)
			last, stable := -1, 0
			for time.Now().Before(deadline) && stable < 20 {
				time.Sleep(25 * time.Millisecond)
				if l := len(hd.finalised); l == last {
					stable++
				} else {
					last, stable = l, 0
				}
			}
			close(g.open)
		}
	}
	// quiescence: nothing applied for three seconds and the channel is empty
	for {
		if collect(3 * time.Second) {
			continue
		}
		if len(hd.finalised) == 0 {
			break
		}
	}
	rec.SetID = int(curSet())
	return rec
}

func TestVerifFinalityFeed(t *testing.T) {
	res := vNewResult(vEnvStr("VERIF_PROP", "C23"))
	defer res.Write(t)
	out := filepath.Join(filepath.Dir(vIn(t, "behaviours.txt")), "feed.ndjson")
	f, err := os.Create(out)
	if err != nil {
		t.Fatalf("VERIF-INFRA create %s: %v", out, err)
	}
	defer f.Close()
	type sc struct {
		name          string
		n             int
		prompt, gated bool
	}
	scs := []sc{{"prompt", 40, true, false}, {"slow-handler-20", 20, false, true}, {"slow-handler-200", 200, false, true}, {"burst-200", 200, false, false}}
	if vThorough() {
		scs = append(scs, sc{"prompt-long", 300, true, false}, sc{"slow-handler-129", 129, false, true}, sc{"slow-handler-400", 400, false, true}, sc{"burst-1000", 1000, false, false})
	}
	enc := json.NewEncoder(f)
	for _, s := range scs {
		rec := vffRun(t, s.name, s.n, s.prompt, s.gated)
		if err := enc.Encode(rec); err != nil {
			t.Fatalf("VERIF-INFRA write: %v", err)
		}
		res.Behaviours++
		res.Case("feed", s.name)
		res.Cmp()
		res.Sample(map[string]any{"scenario": rec.Scenario, "n": rec.N, "applied": len(rec.D), "setid": rec.SetID, "wantsetid": rec.WantSetID})
	}
}
