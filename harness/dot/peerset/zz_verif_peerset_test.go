//go:build verif

// Conformance harness for specs/PeerSet.tla / specs/PeerSet_Trace.tla (C30), engine V.
//
//   TestVerifPeerSetRecord   drives seeded operation histories against the REAL PeerSet by calling its
//                            methods directly (no peerset goroutine; resultMsgCh is drained after every
//                            call), with time pinned (latestTimeUpdate = now before every call, so that no
//                            decay happens inside an operation; Tick(k) moves latestTimeUpdate back k seconds
//                            and calls updateTime).  After every call one NDJSON event is written:
//                            operation, arguments, emitted messages, full projected state.  A call that
//                            does not return (goroutine parked on a lock that nobody can release) or that
//                            panics is an observation; the history ends there.
//   TestVerifPeerSetVerdict  runs after TLC validated the trace (specs/PeerSet_Trace.tla prints one
//                            VERIF-REJECT line per transition that the specification does not allow) and
//                            turns those lines into classified disagreements.  bin/check itself only
//                            knows "trace rejected at line n"; this stage exists to give every defect its
//                            own signature and to keep validating after a known one.  Under
//                            `bin/check C30 --replay <file>` (no TLC output, the input is the history of a
//                            reported disagreement) it re-executes that history 20 times on the real peer
//                            set, runs TLC on the new recordings itself and reports whether the last step
//                            is rejected again.

package peerset

import (
	"bufio"
	"encoding/json"
	"fmt"
	"io"
	"math"
	"math/rand"
	"os"
	"os/exec"
	"path/filepath"
	"regexp"
	"runtime"
	"strconv"
	"strings"
	"testing"
	"time"

	"github.com/ChainSafe/gossamer/internal/log"
	"github.com/libp2p/go-libp2p/core/peer"
)

const vpsN = 5 // peer population

type vpsMsg struct {
	K string `json:"k"`
	P int    `json:"p"`
}

type vpsCfg struct {
	MaxIn  int   `json:"maxIn"`
	MaxOut int   `json:"maxOut"`
	Ro     bool  `json:"ro"`
	Thr    int64 `json:"thr"`
	Pen    int64 `json:"pen"`
	Min    int64 `json:"min"`
	Max    int64 `json:"max"`
	N      int   `json:"n"`
}

type vpsEvent struct {
	Ev     string   `json:"ev"`
	H      int      `json:"h"`
	I      int      `json:"i"`
	Op     string   `json:"op"`
	Ps     []int    `json:"ps"`
	D      int64    `json:"d"`
	Msgs   []vpsMsg `json:"msgs"`
	Hang   bool     `json:"hang"`
	Panic  string   `json:"panic"`
	Err    string   `json:"err"`
	St     []string `json:"st"`
	Rep    []int64  `json:"rep"`
	Res    []bool   `json:"res"`
	NoSlot []bool   `json:"noslot"`
	Mem    []bool   `json:"mem"`
	Nin    int64    `json:"nin"`
	Nout   int64    `json:"nout"`
	Cfg    vpsCfg   `json:"cfg"`
}

func vpsPeer(i int) peer.ID { return peer.ID(fmt.Sprintf("verif-peer-%d", i)) }

func vpsIdx(p peer.ID) int {
	n, err := strconv.Atoi(strings.TrimPrefix(string(p), "verif-peer-"))
	if err != nil {
		return 0
	}
	return n
}

// vpsProject reads the state of the real peer set (single-threaded driver: no locks are taken, so that a
// lock leaked by the code under test cannot block the harness).
func vpsProject(ps *PeerSet, e *vpsEvent) {
	e.St, e.Rep, e.Res, e.NoSlot, e.Mem = make([]string, vpsN), make([]int64, vpsN), make([]bool, vpsN), make([]bool, vpsN), make([]bool, vpsN)
	for i := 1; i <= vpsN; i++ {
		id := vpsPeer(i)
		e.St[i-1] = "unknown"
		if n, ok := ps.peerState.nodes[id]; ok && n != nil {
			e.Mem[i-1] = true
			e.Rep[i-1] = int64(n.reputation)
			switch n.state[0] {
			case ingoing:
				e.St[i-1] = "in"
			case outgoing:
				e.St[i-1] = "out"
			case notConnected:
				e.St[i-1] = "notConnected"
			}
		}
		_, e.Res[i-1] = ps.reservedNode[id]
		_, e.NoSlot[i-1] = ps.peerState.sets[0].noSlotNodes[id]
	}
	e.Nin = int64(ps.peerState.sets[0].numIn)
	e.Nout = int64(ps.peerState.sets[0].numOut)
	// uint32 wrap-around of a counter would not fit a TLC integer
	if e.Nin > 1<<20 {
		e.Nin = -1
	}
	if e.Nout > 1<<20 {
		e.Nout = -1
	}
}

func vpsDrain(ps *PeerSet) []vpsMsg {
	out := []vpsMsg{}
	for {
		select {
		case m := <-ps.resultMsgCh:
			k := map[Status]string{Connect: "Connect", Drop: "Drop", Accept: "Accept", Reject: "Reject"}[m.Status]
			out = append(out, vpsMsg{K: k, P: vpsIdx(m.PeerID)})
		default:
			return out
		}
	}
}

var vpsHdr = regexp.MustCompile(`^goroutine (\d+) \[([^\],]+)`)
var vpsGid = regexp.MustCompile(`^goroutine (\d+) `)

// vpsRunOp is the frame the watchdog looks for in the goroutine dump.
//
//go:noinline
func vpsRunOp(f func() error, done chan<- [2]string, gid chan<- string) {
	hb := make([]byte, 64)
	hb = hb[:runtime.Stack(hb, false)]
	if m := vpsGid.FindSubmatch(hb); m != nil {
		gid <- string(m[1])
	} else {
		gid <- "?"
	}
	defer func() {
		if x := recover(); x != nil {
			done <- [2]string{fmt.Sprintf("panic: %v", x), ""}
		}
	}()
	err := f()
	es := ""
	if err != nil {
		es = err.Error()
	}
	done <- [2]string{"", es}
}

// vpsGuard runs f in a goroutine.  hang = the goroutine was found PARKED on a lock / channel in
// consecutive inspections (the driver is the only other goroutine using the peer set, so nobody can
// wake it), or did not finish within 30 s.  A goroutine that is merely slow is waited for.
func vpsGuard(f func() error) (panicMsg, errMsg string, hang bool) {
	done := make(chan [2]string, 1)
	gidc := make(chan string, 1)
	go vpsRunOp(f, done, gidc)
	gid := <-gidc
	select {
	case r := <-done:
		return r[0], r[1], false
	case <-time.After(100 * time.Millisecond):
	}
	parked := 0
	deadline := time.Now().Add(30 * time.Second)
	buf := make([]byte, 1<<20)
	for time.Now().Before(deadline) {
		select {
		case r := <-done:
			return r[0], r[1], false
		case <-time.After(50 * time.Millisecond):
		}
		n := runtime.Stack(buf, true)
		isParked := false
		for _, blk := range strings.Split(string(buf[:n]), "\n\n") {
			if !strings.Contains(blk, "vpsRunOp") {
				continue
			}
			if m := vpsHdr.FindStringSubmatch(blk); m != nil && m[1] == gid {
				st := m[2]
				if strings.HasPrefix(st, "sync.") || strings.HasPrefix(st, "semacquire") || strings.HasPrefix(st, "chan ") || st == "select" {
					isParked = true
				}
			}
		}
		if isParked {
			parked++
			if parked >= 3 {
				return "", "", true
			}
		} else {
			parked = 0
		}
	}
	return "", "", true
}

func vpsPick(rng *rand.Rand, n int, pref func(int) bool) []int {
	// n distinct peers; peers satisfying pref are preferred 4:1
	perm := rng.Perm(vpsN)
	var a, b []int
	for _, x := range perm {
		if pref == nil || pref(x+1) {
			a = append(a, x+1)
		} else {
			b = append(b, x+1)
		}
	}
	out := []int{}
	for len(out) < n && (len(a) > 0 || len(b) > 0) {
		if len(a) > 0 && (len(b) == 0 || rng.Intn(5) != 0) {
			out, a = append(out, a[0]), a[1:]
		} else {
			out, b = append(out, b[0]), b[1:]
		}
	}
	return out
}

func vpsIDs(ps []int) []peer.ID {
	out := make([]peer.ID, len(ps))
	for i, p := range ps {
		out[i] = vpsPeer(p)
	}
	return out
}

// vpsCall is the real call for a logged operation.
func vpsCall(ps *PeerSet, e *vpsEvent) func() error {
	switch e.Op {
	case "AddPeer":
		return func() error { return ps.addPeer(0, vpsIDs(e.Ps)) }
	case "RemovePeer":
		return func() error { return ps.removePeer(0, vpsIDs(e.Ps)...) }
	case "AddReserved":
		return func() error { return ps.addReservedPeers(0, vpsIDs(e.Ps)...) }
	case "RemoveReserved":
		return func() error { return ps.removeReservedPeers(0, vpsIDs(e.Ps)...) }
	case "SetReserved":
		return func() error { return ps.setReservedPeer(0, vpsIDs(e.Ps)...) }
	case "Report":
		return func() error {
			return ps.reportPeer(ReputationChange{Value: Reputation(e.D), Reason: "verif"}, vpsIDs(e.Ps)...)
		}
	case "Incoming":
		return func() error { return ps.incoming(0, vpsIDs(e.Ps)...) }
	case "Disconnect":
		return func() error { return ps.disconnect(0, UnknownDrop, vpsIDs(e.Ps)...) }
	case "Tick":
		return func() error {
			ps.latestTimeUpdate = time.Now().Add(-time.Duration(e.D)*time.Second - time.Millisecond)
			return ps.updateTime()
		}
	case "Alloc":
		return func() error { return ps.allocSlots(0) }
	}
	return nil
}

func vpsNewSet(t *testing.T, cfg vpsCfg, h int) (*PeerSet, vpsEvent) {
	ps, err := newPeerSet(NewConfigSet(uint32(cfg.MaxIn), uint32(cfg.MaxOut), cfg.Ro, time.Hour))
	if err != nil {
		t.Fatalf("VERIF-INFRA newPeerSet: %v", err)
	}
	ps.resultMsgCh = make(chan Message, 1<<14)
	ev := vpsEvent{Ev: "reset", H: h, Op: "Reset", Ps: []int{}, Msgs: []vpsMsg{}, Cfg: cfg}
	vpsProject(ps, &ev)
	return ps, ev
}

// vpsExec performs the call of e on the real peer set with time pinned and fills in the observation.
// stalled = the process was stalled so long that a second may have passed inside the call: nothing is
// concluded from the history any more.
func vpsExec(ps *PeerSet, e *vpsEvent, prev *vpsEvent) (stalled bool) {
	call := vpsCall(ps, e)
	t0 := time.Now()
	ps.latestTimeUpdate = t0
	pm, em, hang := vpsGuard(call)
	if !hang && time.Since(t0) > 400*time.Millisecond {
		return true
	}
	e.Panic, e.Err, e.Hang = pm, em, hang
	if hang {
		e.St, e.Rep, e.Res, e.NoSlot, e.Mem, e.Nin, e.Nout = prev.St, prev.Rep, prev.Res, prev.NoSlot, prev.Mem, prev.Nin, prev.Nout
	} else {
		e.Msgs = vpsDrain(ps)
		vpsProject(ps, e)
	}
	return false
}

func TestVerifPeerSetRecord(t *testing.T) {
	res := vNewResult("C30")
	defer res.Write(t)
	out := os.Getenv("VERIF_OUT")
	if out == "" {
		t.Skip("VERIF_OUT not set")
	}
	logger.Patch(log.SetWriter(io.Discard))
	nhist := vEnvInt("VERIF_HISTORIES", 200)
	depth := vEnvInt("VERIF_DEPTH", 30)
	rng := rand.New(rand.NewSource(vSeed()))
	f, err := os.Create(filepath.Join(out, "trace.ndjson"))
	if err != nil {
		t.Fatalf("VERIF-INFRA %v", err)
	}
	defer f.Close()
	w := bufio.NewWriter(f)
	defer w.Flush()
	enc := json.NewEncoder(w)

	thr := int64(BannedThresholdValue)
	deltas := []int64{math.MinInt32, math.MaxInt32, thr, thr + 1, -thr, -thr - 1, -(1 << 30), 1 << 30, -(1 << 20), 1 << 20,
		-256, -255, -1, 1, 16, 0, int64(BadMessageValue), int64(GoodTransactionValue)}
	stalls, hangs, lines := 0, 0, 0

	for h := 0; h < nhist; h++ {
		cfg := vpsCfg{MaxIn: rng.Intn(4), MaxOut: rng.Intn(4), Ro: rng.Intn(4) == 0, Thr: thr, Pen: int64(disconnectReputationChange),
			Min: math.MinInt32, Max: math.MaxInt32, N: vpsN}
		ps, ev := vpsNewSet(t, cfg, h)
		enc.Encode(ev)
		lines++
		prev := ev
		for i := 1; i <= depth; i++ {
			e := vpsEvent{Ev: "op", H: h, I: i, Ps: []int{}, Msgs: []vpsMsg{}, Cfg: cfg}
			nl := 1
			if r := rng.Intn(10); r >= 8 {
				nl = 3
			} else if r >= 5 {
				nl = 2
			}
			connected := func(p int) bool { return prev.St[p-1] == "in" || prev.St[p-1] == "out" }
			inMap := func(p int) bool { return prev.Mem[p-1] }
			reserved := func(p int) bool { return prev.Res[p-1] }
			switch r := rng.Intn(100); {
			case r < 14:
				e.Op, e.Ps = "AddPeer", vpsPick(rng, nl, nil)
			case r < 22:
				e.Op, e.Ps = "RemovePeer", vpsPick(rng, nl, inMap)
			case r < 32:
				e.Op, e.Ps = "AddReserved", vpsPick(rng, nl, nil)
			case r < 40:
				e.Op, e.Ps = "RemoveReserved", vpsPick(rng, nl, reserved)
			case r < 44:
				e.Op, e.Ps = "SetReserved", vpsPick(rng, rng.Intn(4), nil)
			case r < 64:
				// a report for a peer without a node is kept rare: on the pinned tree it never returns
				e.Op, e.D = "Report", deltas[rng.Intn(len(deltas))]
				if rng.Intn(25) == 0 {
					e.Ps = vpsPick(rng, nl, nil)
				} else {
					for _, p := range vpsPick(rng, nl, inMap) {
						if inMap(p) {
							e.Ps = append(e.Ps, p)
						}
					}
					if len(e.Ps) == 0 {
						e.Op, e.D, e.Ps = "AddPeer", 0, vpsPick(rng, nl, nil)
						break
					}
				}
			case r < 78:
				e.Op, e.Ps = "Incoming", vpsPick(rng, nl, func(p int) bool { return !connected(p) })
			case r < 88:
				e.Op, e.Ps = "Disconnect", vpsPick(rng, nl, connected)
			case r < 95:
				ks := []int64{1, 1, 2, 3, 10, 60, 700}
				e.Op, e.D = "Tick", ks[rng.Intn(len(ks))]
			default:
				e.Op = "Alloc"
			}
			if vpsExec(ps, &e, &prev) {
				stalls++
				break
			}
			hang, pm := e.Hang, e.Panic
			if hang {
				hangs++
			}
			enc.Encode(e)
			lines++
			cls := 0
			for _, p := range e.Ps {
				cls = cls*7 + map[string]int{"unknown": 0, "notConnected": 1, "in": 2, "out": 3}[prev.St[p-1]]*2 + map[bool]int{false: 0, true: 1}[prev.Res[p-1]]
			}
			res.Case(e.Op, fmt.Sprintf("%d|%d|%v|%d|%d|%d|%d|%d", cfg.MaxIn, cfg.MaxOut, cfg.Ro, len(e.Ps), cls, prev.Nin, prev.Nout, len(e.Msgs)))
			if h == 0 && i <= 3 {
				res.Sample(e)
			}
			if hang || pm != "" {
				break
			}
			prev = e
		}
	}
	res.Behaviours = nhist
	res.Extra["trace_lines"] = lines
	res.Extra["histories_cut_by_stall"] = stalls
	res.Extra["calls_that_never_returned"] = hangs
}

var vpsReject = regexp.MustCompile(`^<<"VERIF-REJECT", (".*")>>$`)
var vpsSummary = regexp.MustCompile(`^<<"VERIF-SUMMARY", (\d+), (\d+), (\d+)>>`)

func TestVerifPeerSetVerdict(t *testing.T) {
	res := vNewResult("C30")
	defer res.Write(t)
	in := os.Getenv("VERIF_IN")
	if in == "" {
		t.Skip("VERIF_IN not set")
	}
	var tlcOut string
	outs, _ := filepath.Glob(filepath.Join(in, "tlc_*.out"))
	for _, p := range outs {
		b, err := os.ReadFile(p)
		if err == nil && strings.Contains(string(b), `"VERIF-SUMMARY"`) {
			tlcOut = string(b)
		}
	}
	if tlcOut == "" {
		// bin/check --replay: the input is the history of a reported disagreement
		if lines, out, last, ok := vpsReplay(t, in); ok {
			vpsJudge(t, res, out, lines, last)
			return
		}
		t.Fatalf("VERIF-INFRA no TLC trace-validation output with a VERIF-SUMMARY line in %s (this stage follows the tlc_trace stage)", in)
	}
	lines := vpsReadLines(t, filepath.Join(in, "trace.ndjson"))
	vpsJudge(t, res, tlcOut, lines, -1)
}

func vpsReadLines(t *testing.T, path string) []string {
	tf, err := os.Open(path)
	if err != nil {
		t.Fatalf("VERIF-INFRA %v", err)
	}
	defer tf.Close()
	var lines []string
	sc := bufio.NewScanner(tf)
	sc.Buffer(make([]byte, 1<<20), 1<<28)
	for sc.Scan() {
		lines = append(lines, sc.Text())
	}
	return lines
}

// vpsReplay re-executes the operations of a reported history on the real peer set (20 times: the
// outcome of a call may depend on Go's map iteration order) and has TLC validate the new recordings
// with specs/PeerSet_Trace.tla.  The location of /verif is taken from the overlay file of this stage.
func vpsReplay(t *testing.T, in string) (lines []string, tlcOut string, lastStep int, ok bool) {
	raw, err := os.ReadFile(filepath.Join(in, "trace.ndjson"))
	if err != nil || !strings.HasPrefix(strings.TrimSpace(string(raw)), "[") {
		return nil, "", 0, false
	}
	var hist []vpsEvent
	if err := json.Unmarshal(raw, &hist); err != nil || len(hist) < 2 {
		t.Fatalf("VERIF-INFRA replay input: %v", err)
	}
	logger.Patch(log.SetWriter(io.Discard))
	root := ""
	ovs, _ := filepath.Glob(filepath.Join(os.Getenv("VERIF_OUT"), "overlay_*.json"))
	for _, o := range ovs {
		b, _ := os.ReadFile(o)
		var ov struct{ Replace map[string]string }
		if json.Unmarshal(b, &ov) == nil {
			for _, src := range ov.Replace {
				if i := strings.Index(src, "/harness/dot/peerset/"); i > 0 {
					root = src[:i]
				}
			}
		}
	}
	if root == "" {
		t.Fatalf("VERIF-INFRA replay: cannot locate the verification tree from the overlay files")
	}
	dir, err := os.MkdirTemp(os.Getenv("VERIF_OUT"), "replay-")
	if err != nil {
		t.Fatalf("VERIF-INFRA %v", err)
	}
	for _, pat := range []string{"specs/PeerSet_Trace.tla", "specs/PeerSet_Trace.cfg", "specs/lib/PeerSetOps.tla"} {
		b, err := os.ReadFile(filepath.Join(root, pat))
		if err != nil {
			t.Fatalf("VERIF-INFRA replay: %v", err)
		}
		os.WriteFile(filepath.Join(dir, filepath.Base(pat)), b, 0o644)
	}
	var sb strings.Builder
	for a := 0; a < 20; a++ {
		ps, ev := vpsNewSet(t, hist[0].Cfg, a)
		b, _ := json.Marshal(ev)
		lines = append(lines, string(b))
		prev := ev
		for i, src := range hist[1:] {
			e := vpsEvent{Ev: "op", H: a, I: i + 1, Op: src.Op, Ps: src.Ps, D: src.D, Msgs: []vpsMsg{}, Cfg: hist[0].Cfg}
			if e.Ps == nil {
				e.Ps = []int{}
			}
			if vpsExec(ps, &e, &prev) {
				break
			}
			b, _ := json.Marshal(e)
			lines = append(lines, string(b))
			if e.Hang || e.Panic != "" {
				break
			}
			prev = e
		}
	}
	for _, l := range lines {
		sb.WriteString(l + "\n")
	}
	os.WriteFile(filepath.Join(dir, "trace.ndjson"), []byte(sb.String()), 0o644)
	jar := vEnvStr("VERIF_TLA_JAR", "/opt/veriftools/tla/tla2tools.jar:/opt/veriftools/tla/CommunityModules-deps.jar")
	cmd := exec.Command("java", "-XX:+UseParallelGC", "-Xss64m", "-cp", jar, "tlc2.TLC", "-workers", "1",
		"-metadir", filepath.Join(dir, "md"), "-config", "PeerSet_Trace.cfg", "PeerSet_Trace")
	cmd.Dir = dir
	outb, err := cmd.CombinedOutput()
	if !strings.Contains(string(outb), `"VERIF-SUMMARY"`) {
		t.Fatalf("VERIF-INFRA replay: TLC gave no verdict (%v): %s", err, string(outb[max(0, len(outb)-1500):]))
	}
	return lines, string(outb), len(hist) - 1, true
}

// onlyStep >= 0 (replay): only a rejection of that step of a history is the replayed disagreement; the
// steps before it are the way there.
func vpsJudge(t *testing.T, res *vResult, tlcOut string, lines []string, onlyStep int) {
	nrej, consumed, total, seen := -1, -1, -1, 0
	for _, ln := range strings.Split(tlcOut, "\n") {
		ln = strings.TrimSpace(ln)
		if m := vpsSummary.FindStringSubmatch(ln); m != nil {
			consumed, _ = strconv.Atoi(m[1])
			nrej, _ = strconv.Atoi(m[2])
			total, _ = strconv.Atoi(m[3])
			continue
		}
		m := vpsReject.FindStringSubmatch(ln)
		if m == nil {
			if strings.Contains(ln, "VERIF-REJECT") {
				t.Fatalf("VERIF-INFRA unparsable reject line: %s", ln)
			}
			continue
		}
		seen++
		js, err := strconv.Unquote(m[1])
		if err != nil {
			t.Fatalf("VERIF-INFRA unquote reject line: %v: %s", err, ln)
		}
		var rj []any
		if err := json.Unmarshal([]byte(js), &rj); err != nil || len(rj) != 8 {
			t.Fatalf("VERIF-INFRA reject line json: %v: %s", err, js)
		}
		lno, h, step := int(rj[0].(float64)), int(rj[1].(float64)), int(rj[2].(float64))
		op, cls, why := rj[3].(string), rj[4].(string), rj[7].(string)
		for _, fl := range []string{rj[5].(string), rj[6].(string)} {
			if fl != "-" {
				cls += "+" + fl
			}
		}
		sig := "C30/" + op + "/" + cls + "/" + why
		if onlyStep >= 0 && step != onlyStep {
			continue
		}
		if lno < 1 || lno > len(lines) {
			t.Fatalf("VERIF-INFRA reject line %d outside the trace (%d lines)", lno, len(lines))
		}
		// the history up to the rejected line
		first := lno
		for first > 1 && !strings.Contains(lines[first-1], `"ev":"reset"`) {
			first--
		}
		hist := make([]json.RawMessage, 0, lno-first+1)
		for _, s := range lines[first-1 : lno] {
			hist = append(hist, json.RawMessage(s))
		}
		pre := ""
		if lno >= 2 {
			pre = lines[lno-2]
		}
		res.Fail(h, step, op, why, "a transition allowed by PeerSetOps.Outcomes from "+pre, lines[lno-1], sig, hist)
	}
	if total != len(lines) || consumed != total || nrej != seen {
		t.Fatalf("VERIF-INFRA trace validation incomplete: summary consumed=%d rejected=%d total=%d, trace has %d lines, %d reject lines parsed",
			consumed, nrej, total, len(lines), seen)
	}
	res.Behaviours = 0
	for _, s := range lines {
		if strings.Contains(s, `"ev":"reset"`) {
			continue
		}
		res.Cmp()
	}
	res.Extra["trace_lines_validated_by_tlc"] = total
	res.Extra["trace_lines_rejected"] = nrej
}
