//go:build verif

// Conformance harness for specs/PeerSet.tla / specs/PeerSet_Trace.tla (C30), engine V.
//
//   TestVerifPeerSetRecord   drives seeded operation histories against the REAL PeerSet by calling its
//                            methods directly (no peerset goroutine; resultMsgCh is drained after every
//                            call), with time pinned (latestTimeUpdate = now before every call, so that no
//                            decay happens inside an operation; Tick(k) moves latestTimeUpdate back k seconds
//                            and calls updateTime).  After every call one NDJSON event is written:
//                            operation, arguments, emitted messages, full projected state.  A call that
//                            does not return (goroutine parked on a lock that nobody can release) or that
//                            panics is an observation; the history ends there.
//   TestVerifPeerSetVerdict  runs after TLC validated the trace (specs/PeerSet_Trace.tla prints one
//                            VERIF-REJECT line per transition that the specification does not allow) and
//                            turns those lines into classified disagreements.  bin/check itself only
//                            knows "trace rejected at line n"; this stage exists to give every defect its
//                            own signature and to keep validating after a known one.

package peerset

import (
	"bufio"
	"encoding/json"
	"fmt"
	"io"
	"math"
	"math/rand"
	"os"
	"path/filepath"
	"regexp"
	"runtime"
	"strconv"
	"strings"
	"testing"
	"time"

	"github.com/ChainSafe/gossamer/internal/log"
	"github.com/libp2p/go-libp2p/core/peer"
)

const vpsN = 5 // peer population

type vpsMsg struct {
	K string `json:"k"`
	P int    `json:"p"`
}

type vpsCfg struct {
	MaxIn  int   `json:"maxIn"`
	MaxOut int   `json:"maxOut"`
	Ro     bool  `json:"ro"`
	Thr    int64 `json:"thr"`
	Pen    int64 `json:"pen"`
	Min    int64 `json:"min"`
	Max    int64 `json:"max"`
	N      int   `json:"n"`
}

type vpsEvent struct {
	Ev     string   `json:"ev"`
	H      int      `json:"h"`
	I      int      `json:"i"`
	Op     string   `json:"op"`
	Ps     []int    `json:"ps"`
	D      int64    `json:"d"`
	Msgs   []vpsMsg `json:"msgs"`
	Hang   bool     `json:"hang"`
	Panic  string   `json:"panic"`
	Err    string   `json:"err"`
	St     []string `json:"st"`
	Rep    []int64  `json:"rep"`
	Res    []bool   `json:"res"`
	NoSlot []bool   `json:"noslot"`
	Mem    []bool   `json:"mem"`
	Nin    int64    `json:"nin"`
	Nout   int64    `json:"nout"`
	Cfg    vpsCfg   `json:"cfg"`
}

func vpsPeer(i int) peer.ID { return peer.ID(fmt.Sprintf("verif-peer-%d", i)) }

func vpsIdx(p peer.ID) int {
	n, err := strconv.Atoi(strings.TrimPrefix(string(p), "verif-peer-"))
	if err != nil {
		return 0
	}
	return n
}

// vpsProject reads the state of the real peer set (single-threaded driver: no locks are taken, so that a
// lock leaked by the code under test cannot block the harness).
func vpsProject(ps *PeerSet, e *vpsEvent) {
	e.St, e.Rep, e.Res, e.NoSlot, e.Mem = make([]string, vpsN), make([]int64, vpsN), make([]bool, vpsN), make([]bool, vpsN), make([]bool, vpsN)
	for i := 1; i <= vpsN; i++ {
		id := vpsPeer(i)
		e.St[i-1] = "unknown"
		if n, ok := ps.peerState.nodes[id]; ok && n != nil {
			e.Mem[i-1] = true
			e.Rep[i-1] = int64(n.reputation)
			switch n.state[0] {
			case ingoing:
				e.St[i-1] = "in"
			case outgoing:
				e.St[i-1] = "out"
			case notConnected:
				e.St[i-1] = "notConnected"
			}
		}
		_, e.Res[i-1] = ps.reservedNode[id]
		_, e.NoSlot[i-1] = ps.peerState.sets[0].noSlotNodes[id]
	}
	e.Nin = int64(ps.peerState.sets[0].numIn)
	e.Nout = int64(ps.peerState.sets[0].numOut)
	// uint32 wrap-around of a counter would not fit a TLC integer
	if e.Nin > 1<<20 {
		e.Nin = -1
	}
	if e.Nout > 1<<20 {
		e.Nout = -1
	}
}

func vpsDrain(ps *PeerSet) []vpsMsg {
	out := []vpsMsg{}
	for {
		select {
		case m := <-ps.resultMsgCh:
			k := map[Status]string{Connect: "Connect", Drop: "Drop", Accept: "Accept", Reject: "Reject"}[m.Status]
			out = append(out, vpsMsg{K: k, P: vpsIdx(m.PeerID)})
		default:
			return out
		}
	}
}

var vpsHdr = regexp.MustCompile(`^goroutine (\d+) \[([^\],]+)`)
var vpsGid = regexp.MustCompile(`^goroutine (\d+) `)

// vpsRunOp is the frame the watchdog looks for in the goroutine dump.
//
//go:noinline
func vpsRunOp(f func() error, done chan<- [2]string, gid chan<- string) {
	hb := make([]byte, 64)
	hb = hb[:runtime.Stack(hb, false)]
	if m := vpsGid.FindSubmatch(hb); m != nil {
		gid <- string(m[1])
	} else {
		gid <- "?"
	}
	defer func() {
		if x := recover(); x != nil {
			done <- [2]string{fmt.Sprintf("panic: %v", x), ""}
		}
	}()
	err := f()
	es := ""
	if err != nil {
		es = err.Error()
	}
	done <- [2]string{"", es}
}

// vpsGuard runs f in a goroutine.  hang = the goroutine was found PARKED on a lock / channel in
// consecutive inspections (the driver is the only other goroutine using the peer set, so nobody can
// wake it), or did not finish within 30 s.  A goroutine that is merely slow is waited for.
func vpsGuard(f func() error) (panicMsg, errMsg string, hang bool) {
	done := make(chan [2]string, 1)
	gidc := make(chan string, 1)
	go vpsRunOp(f, done, gidc)
	gid := <-gidc
	select {
	case r := <-done:
		return r[0], r[1], false
	case <-time.After(100 * time.Millisecond):
	}
	parked := 0
	deadline := time.Now().Add(30 * time.Second)
	buf := make([]byte, 1<<20)
	for time.Now().Before(deadline) {
		select {
		case r := <-done:
			return r[0], r[1], false
		case <-time.After(50 * time.Millisecond):
		}
		n := runtime.Stack(buf, true)
		isParked := false
		for _, blk := range strings.Split(string(buf[:n]), "\n\n") {
			if !strings.Contains(blk, "vpsRunOp") {
				continue
			}
			if m := vpsHdr.FindStringSubmatch(blk); m != nil && m[1] == gid {
				st := m[2]
				if strings.HasPrefix(st, "sync.") || strings.HasPrefix(st, "semacquire") || strings.HasPrefix(st, "chan ") || st == "select" {
					isParked = true
				}
			}
		}
		if isParked {
			parked++
			if parked >= 3 {
				return "", "", true
			}
		} else {
			parked = 0
		}
	}
	return "", "", true
}

func vpsPick(rng *rand.Rand, n int, pref func(int) bool) []int {
	// n distinct peers; peers satisfying pref are preferred 4:1
	perm := rng.Perm(vpsN)
	var a, b []int
	for _, x := range perm {
		if pref == nil || pref(x+1) {
			a = append(a, x+1)
		} else {
			b = append(b, x+1)
		}
	}
	out := []int{}
	for len(out) < n && (len(a) > 0 || len(b) > 0) {
		if len(a) > 0 && (len(b) == 0 || rng.Intn(5) != 0) {
			out, a = append(out, a[0]), a[1:]
		} else {
			out, b = append(out, b[0]), b[1:]
		}
	}
	return out
}

func vpsIDs(ps []int) []peer.ID {
	out := make([]peer.ID, len(ps))
	for i, p := range ps {
		out[i] = vpsPeer(p)
	}
	return out
}

func TestVerifPeerSetRecord(t *testing.T) {
	res := vNewResult("C30")
	defer res.Write(t)
	out := os.Getenv("VERIF_OUT")
	if out == "" {
		t.Skip("VERIF_OUT not set")
	}
	logger.Patch(log.SetWriter(io.Discard))
	nhist := vEnvInt("VERIF_HISTORIES", 200)
	depth := vEnvInt("VERIF_DEPTH", 30)
	rng := rand.New(rand.NewSource(vSeed()))
	f, err := os.Create(filepath.Join(out, "trace.ndjson"))
	if err != nil {
		t.Fatalf("VERIF-INFRA %v", err)
	}
	defer f.Close()
	w := bufio.NewWriter(f)
	defer w.Flush()
	enc := json.NewEncoder(w)

	thr := int64(BannedThresholdValue)
	deltas := []int64{math.MinInt32, math.MaxInt32, thr, thr + 1, -thr, -thr - 1, -(1 << 30), 1 << 30, -(1 << 20), 1 << 20,
		-256, -255, -1, 1, 16, 0, int64(BadMessageValue), int64(GoodTransactionValue)}
	stalls, hangs, lines := 0, 0, 0

	for h := 0; h < nhist; h++ {
		cfg := vpsCfg{MaxIn: rng.Intn(4), MaxOut: rng.Intn(4), Ro: rng.Intn(4) == 0, Thr: thr, Pen: int64(disconnectReputationChange),
			Min: math.MinInt32, Max: math.MaxInt32, N: vpsN}
		ps, err := newPeerSet(NewConfigSet(uint32(cfg.MaxIn), uint32(cfg.MaxOut), cfg.Ro, time.Hour))
		if err != nil {
			t.Fatalf("VERIF-INFRA newPeerSet: %v", err)
		}
		ps.resultMsgCh = make(chan Message, 1<<14)
		ev := vpsEvent{Ev: "reset", H: h, Op: "Reset", Ps: []int{}, Msgs: []vpsMsg{}, Cfg: cfg}
		vpsProject(ps, &ev)
		enc.Encode(ev)
		lines++
		prev := ev
		for i := 1; i <= depth; i++ {
			e := vpsEvent{Ev: "op", H: h, I: i, Ps: []int{}, Msgs: []vpsMsg{}, Cfg: cfg}
			nl := 1
			if r := rng.Intn(10); r >= 8 {
				nl = 3
			} else if r >= 5 {
				nl = 2
			}
			connected := func(p int) bool { return prev.St[p-1] == "in" || prev.St[p-1] == "out" }
			inMap := func(p int) bool { return prev.Mem[p-1] }
			reserved := func(p int) bool { return prev.Res[p-1] }
			var call func() error
			switch r := rng.Intn(100); {
			case r < 14:
				e.Op, e.Ps = "AddPeer", vpsPick(rng, nl, nil)
				call = func() error { return ps.addPeer(0, vpsIDs(e.Ps)) }
			case r < 22:
				e.Op, e.Ps = "RemovePeer", vpsPick(rng, nl, inMap)
				call = func() error { return ps.removePeer(0, vpsIDs(e.Ps)...) }
			case r < 32:
				e.Op, e.Ps = "AddReserved", vpsPick(rng, nl, nil)
				call = func() error { return ps.addReservedPeers(0, vpsIDs(e.Ps)...) }
			case r < 40:
				e.Op, e.Ps = "RemoveReserved", vpsPick(rng, nl, reserved)
				call = func() error { return ps.removeReservedPeers(0, vpsIDs(e.Ps)...) }
			case r < 44:
				e.Op, e.Ps = "SetReserved", vpsPick(rng, rng.Intn(4), nil)
				call = func() error { return ps.setReservedPeer(0, vpsIDs(e.Ps)...) }
			case r < 64:
				// a report for a peer without a node is kept rare: on the pinned tree it never returns
				e.Op, e.D = "Report", deltas[rng.Intn(len(deltas))]
				if rng.Intn(25) == 0 {
					e.Ps = vpsPick(rng, nl, nil)
				} else {
					for _, p := range vpsPick(rng, nl, inMap) {
						if inMap(p) {
							e.Ps = append(e.Ps, p)
						}
					}
					if len(e.Ps) == 0 {
						e.Op, e.D, e.Ps = "AddPeer", 0, vpsPick(rng, nl, nil)
						call = func() error { return ps.addPeer(0, vpsIDs(e.Ps)) }
						break
					}
				}
				call = func() error {
					return ps.reportPeer(ReputationChange{Value: Reputation(e.D), Reason: "verif"}, vpsIDs(e.Ps)...)
				}
			case r < 78:
				e.Op, e.Ps = "Incoming", vpsPick(rng, nl, func(p int) bool { return !connected(p) })
				call = func() error { return ps.incoming(0, vpsIDs(e.Ps)...) }
			case r < 88:
				e.Op, e.Ps = "Disconnect", vpsPick(rng, nl, connected)
				call = func() error { return ps.disconnect(0, UnknownDrop, vpsIDs(e.Ps)...) }
			case r < 95:
				ks := []int64{1, 1, 2, 3, 10, 60, 700}
				e.Op, e.D = "Tick", ks[rng.Intn(len(ks))]
				call = func() error {
					ps.latestTimeUpdate = time.Now().Add(-time.Duration(e.D)*time.Second - time.Millisecond)
					return ps.updateTime()
				}
			default:
				e.Op = "Alloc"
				call = func() error { return ps.allocSlots(0) }
			}
			t0 := time.Now()
			ps.latestTimeUpdate = t0
			pm, em, hang := vpsGuard(call)
			el := time.Since(t0)
			if !hang && el > 400*time.Millisecond {
				// the process was stalled: a second may have passed inside the call; nothing is
				// concluded from this history any more
				stalls++
				break
			}
			e.Panic, e.Err, e.Hang = pm, em, hang
			if hang {
				hangs++
				e.St, e.Rep, e.Res, e.NoSlot, e.Mem, e.Nin, e.Nout = prev.St, prev.Rep, prev.Res, prev.NoSlot, prev.Mem, prev.Nin, prev.Nout
			} else {
				e.Msgs = vpsDrain(ps)
				vpsProject(ps, &e)
			}
			enc.Encode(e)
			lines++
			cls := 0
			for _, p := range e.Ps {
				cls = cls*7 + map[string]int{"unknown": 0, "notConnected": 1, "in": 2, "out": 3}[prev.St[p-1]]*2 + map[bool]int{false: 0, true: 1}[prev.Res[p-1]]
			}
			res.Case(e.Op, fmt.Sprintf("%d|%d|%v|%d|%d|%d|%d|%d", cfg.MaxIn, cfg.MaxOut, cfg.Ro, len(e.Ps), cls, prev.Nin, prev.Nout, len(e.Msgs)))
			if h == 0 && i <= 3 {
				res.Sample(e)
			}
			if hang || pm != "" {
				break
			}
			prev = e
		}
	}
	res.Behaviours = nhist
	res.Extra["trace_lines"] = lines
	res.Extra["histories_cut_by_stall"] = stalls
	res.Extra["calls_that_never_returned"] = hangs
}

var vpsReject = regexp.MustCompile(`^<<"VERIF-REJECT", (".*")>>$`)
var vpsSummary = regexp.MustCompile(`^<<"VERIF-SUMMARY", (\d+), (\d+), (\d+)>>`)

func TestVerifPeerSetVerdict(t *testing.T) {
	res := vNewResult("C30")
	defer res.Write(t)
	in := os.Getenv("VERIF_IN")
	if in == "" {
		t.Skip("VERIF_IN not set")
	}
	var tlcOut string
	outs, _ := filepath.Glob(filepath.Join(in, "tlc_*.out"))
	for _, p := range outs {
		b, err := os.ReadFile(p)
		if err == nil && strings.Contains(string(b), `"VERIF-SUMMARY"`) {
			tlcOut = string(b)
		}
	}
	if tlcOut == "" {
		t.Fatalf("VERIF-INFRA no TLC trace-validation output with a VERIF-SUMMARY line in %s (this stage follows the tlc_trace stage; a --replay of its findings is not supported: see trace_prefix in the replay file)", in)
	}
	tf, err := os.Open(filepath.Join(in, "trace.ndjson"))
	if err != nil {
		t.Fatalf("VERIF-INFRA %v", err)
	}
	defer tf.Close()
	var lines []string
	sc := bufio.NewScanner(tf)
	sc.Buffer(make([]byte, 1<<20), 1<<26)
	for sc.Scan() {
		lines = append(lines, sc.Text())
	}
	nrej, consumed, total, seen := -1, -1, -1, 0
	for _, ln := range strings.Split(tlcOut, "\n") {
		ln = strings.TrimSpace(ln)
		if m := vpsSummary.FindStringSubmatch(ln); m != nil {
			consumed, _ = strconv.Atoi(m[1])
			nrej, _ = strconv.Atoi(m[2])
			total, _ = strconv.Atoi(m[3])
			continue
		}
		m := vpsReject.FindStringSubmatch(ln)
		if m == nil {
			if strings.Contains(ln, "VERIF-REJECT") {
				t.Fatalf("VERIF-INFRA unparsable reject line: %s", ln)
			}
			continue
		}
		seen++
		js, err := strconv.Unquote(m[1])
		if err != nil {
			t.Fatalf("VERIF-INFRA unquote reject line: %v: %s", err, ln)
		}
		var rj []any
		if err := json.Unmarshal([]byte(js), &rj); err != nil || len(rj) != 8 {
			t.Fatalf("VERIF-INFRA reject line json: %v: %s", err, js)
		}
		lno, h, step := int(rj[0].(float64)), int(rj[1].(float64)), int(rj[2].(float64))
		op, cls, why := rj[3].(string), rj[4].(string), rj[7].(string)
		for _, fl := range []string{rj[5].(string), rj[6].(string)} {
			if fl != "-" {
				cls += "+" + fl
			}
		}
		sig := "C30/" + op + "/" + cls + "/" + why
		if lno < 1 || lno > len(lines) {
			t.Fatalf("VERIF-INFRA reject line %d outside the trace (%d lines)", lno, len(lines))
		}
		// the history up to the rejected line
		first := lno
		for first > 1 && !strings.Contains(lines[first-1], `"ev":"reset"`) {
			first--
		}
		hist := make([]json.RawMessage, 0, lno-first+1)
		for _, s := range lines[first-1 : lno] {
			hist = append(hist, json.RawMessage(s))
		}
		pre := ""
		if lno >= 2 {
			pre = lines[lno-2]
		}
		res.Fail(h, step, op, why, "a transition allowed by PeerSetOps.Outcomes from "+pre, lines[lno-1], sig, hist)
	}
	if total != len(lines) || consumed != total || nrej != seen {
		t.Fatalf("VERIF-INFRA trace validation incomplete: summary consumed=%d rejected=%d total=%d, trace has %d lines, %d reject lines parsed",
			consumed, nrej, total, len(lines), seen)
	}
	res.Behaviours = 0
	for _, s := range lines {
		if strings.Contains(s, `"ev":"reset"`) {
			continue
		}
		res.Cmp()
	}
	res.Extra["trace_lines_validated_by_tlc"] = total
	res.Extra["trace_lines_rejected"] = nrej
}
