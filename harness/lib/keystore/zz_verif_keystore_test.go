//go:build verif

// Conformance harness for specs/Keystore.tla (C37).
//
// Every TLC-enumerated case [api, scheme, mlen, pw, dpw, mut] is executed on the real code:
// encrypt a fresh (seeded) private key / message with password class pw, apply the mutation
// to the stored ciphertext, decrypt with the password dpw, all under recover, and compare
// with the verdict of the ideal-AEAD specification: "key" (no error, the same key bytes) or
// "error" (an error, no key, no panic).

package keystore

import (
	"strings"
	"bytes"
	"encoding/json"
	"fmt"
	"math/rand"
	"os"
	"path/filepath"
	"testing"

	"github.com/ChainSafe/gossamer/lib/crypto"
	"github.com/ChainSafe/gossamer/lib/crypto/ed25519"
	"github.com/ChainSafe/gossamer/lib/crypto/secp256k1"
	"github.com/ChainSafe/gossamer/lib/crypto/sr25519"
)

type vksCase struct {
	O struct {
		API    string `json:"api"`
		Scheme string `json:"scheme"`
		Mlen   int    `json:"mlen"`
		Pw     string `json:"pw"`
		Dpw    string `json:"dpw"`
		Mut    struct {
			K   string `json:"k"`
			Pos int    `json:"pos"`
			Bit uint   `json:"bit"`
			N   int    `json:"n"`
		} `json:"mut"`
	} `json:"o"`
	Res struct {
		Verdict string `json:"verdict"`
		Class   string `json:"class"`
	} `json:"res"`
}

func vksPassword(class string) []byte {
	switch class {
	case "empty":
		return []byte{}
	case "ascii":
		return []byte("correct horse battery staple")
	case "long":
		b := make([]byte, 1024)
		for i := range b {
			b[i] = byte('a' + i%26)
		}
		return b
	case "unicode":
		return []byte("пароль-密码-🔑 é")
	}
	panic("VERIF-INFRA unknown password class " + class)
}

func vksDecryptPassword(pw []byte, kind string) []byte {
	switch kind {
	case "same":
		return append([]byte{}, pw...)
	case "other":
		return []byte("not the password")
	case "append0":
		return append(append([]byte{}, pw...), 0)
	case "droplast":
		return append([]byte{}, pw[:len(pw)-1]...)
	case "empty":
		return []byte{}
	case "appendnl":
		return append(append([]byte{}, pw...), '\n')
	case "appendcrlf":
		return append(append([]byte{}, pw...), '\r', '\n')
	case "appendspace":
		return append(append([]byte{}, pw...), ' ')
	case "prependspace":
		return append([]byte{' '}, pw...)
	}
	panic("VERIF-INFRA unknown decrypt password kind " + kind)
}

func vksKeys(t *testing.T, rng *rand.Rand, scheme string, n int) []crypto.PrivateKey {
	var out []crypto.PrivateKey
	for len(out) < n {
		seed := make([]byte, 32)
		rng.Read(seed)
		var pk crypto.PrivateKey
		var err error
		switch scheme {
		case "sr25519":
			var kp *sr25519.Keypair
			if kp, err = sr25519.NewKeypairFromSeed(seed); err == nil {
				pk = kp.Private()
			}
		case "ed25519":
			var kp *ed25519.Keypair
			if kp, err = ed25519.NewKeypairFromSeed(seed); err == nil {
				pk = kp.Private()
			}
		case "secp256k1":
			seed[0] &= 0x7f // below the group order
			seed[31] |= 1   // non-zero
			pk, err = secp256k1.NewPrivateKey(seed)
		}
		if err != nil || pk == nil {
			t.Fatalf("VERIF-INFRA key generation %s: %v", scheme, err)
		}
		out = append(out, pk)
	}
	return out
}

func vksMutate(data []byte, c *vksCase) []byte {
	d := append([]byte{}, data...)
	switch c.O.Mut.K {
	case "none":
	case "flip":
		d[c.O.Mut.Pos-1] ^= 1 << c.O.Mut.Bit
	case "trunc":
		d = d[:c.O.Mut.N]
	case "extend":
		for i := 0; i < c.O.Mut.N; i++ {
			d = append(d, 0xaa)
		}
	default:
		panic("VERIF-INFRA unknown mutation " + c.O.Mut.K)
	}
	return d
}

func TestVerifKeystore(t *testing.T) {
	res := vNewResult(vEnvStr("VERIF_PROP", "C37"))
	defer res.Write(t)
	behs := vLoad(t, vIn(t, "behaviours.txt"))
	res.Behaviours = len(behs)
	rng := rand.New(rand.NewSource(vSeed()))
	const nKeys = 6
	keys := map[string][]crypto.PrivateKey{}
	for _, s := range []string{"sr25519", "ed25519", "secp256k1"} {
		keys[s] = vksKeys(t, rng, s, nKeys)
	}
	dir := t.TempDir()
	classes := map[string]int{}
	for bi, b := range behs {
		for si, raw := range b.Steps {
			var c vksCase
			if err := json.Unmarshal(raw, &c); err != nil {
				t.Fatalf("VERIF-INFRA case json: %v", err)
			}
			if bi < 3 {
				res.Sample(c)
			}
			api, class := c.O.API, c.Res.Class
			res.Case(api, fmt.Sprintf("%s|%s|%s|%s", class, c.O.Scheme, c.O.Pw, c.O.Dpw))
			classes[api+"/"+class]++
			fail := func(field, exp, got, what string) {
				res.Fail(b.ID, si, api, field, exp, got, "C37/"+api+"/"+class+"/"+what, []json.RawMessage{raw})
			}
			pw := vksPassword(c.O.Pw)
			dpw := vksDecryptPassword(pw, c.O.Dpw)
			var (
				want    []byte // the plaintext: message or encoded key
				pk      crypto.PrivateKey
				stored  []byte
				gotKey  []byte
				gotSome bool
				decErr  error
				path    string
			)
			if api == "raw" {
				want = make([]byte, c.O.Mlen)
				rng.Read(want)
			} else {
				pk = keys[c.O.Scheme][rng.Intn(nKeys)]
				want = pk.Encode()
				if len(want) != c.O.Mlen {
					fail("layout", fmt.Sprint(c.O.Mlen), fmt.Sprint(len(want)), "encoded-key-length")
					continue
				}
			}
			// ---- encrypt
			pm := vTry(func() {
				var err error
				switch api {
				case "raw":
					stored, err = Encrypt(want, pw)
				case "key":
					stored, err = EncryptPrivateKey(pk, pw)
				case "file":
					path = filepath.Join(dir, fmt.Sprintf("k%d.json", bi%64))
					if err = EncryptAndWriteToFile(path, pk, pw); err == nil {
						var fb []byte
						if fb, err = os.ReadFile(path); err == nil {
							ks := new(EncryptedKeystore)
							if err = json.Unmarshal(fb, ks); err == nil {
								stored = ks.Ciphertext
								if ks.Type != c.O.Scheme {
									err = fmt.Errorf("stored type %q", ks.Type)
								}
							}
						}
					}
				}
				if err != nil {
					panic("encrypt error: " + err.Error())
				}
			})
			res.Cmp()
			if pm != "" {
				fail("encrypt", "ciphertext", pm, "encrypt-failed")
				continue
			}
			if len(stored) != 12+c.O.Mlen+16 {
				fail("layout", fmt.Sprint(12+c.O.Mlen+16), fmt.Sprint(len(stored)), "stored-length")
				continue
			}
			mutated := vksMutate(stored, &c)
			mutatedBefore := append([]byte{}, mutated...)
			storedBefore := append([]byte{}, stored...)
			// ---- decrypt
			pm = vTry(func() {
				switch api {
				case "raw":
					var pt []byte
					pt, decErr = Decrypt(mutated, dpw)
					gotKey, gotSome = pt, decErr == nil
				case "key":
					var k crypto.PrivateKey
					k, decErr = DecryptPrivateKey(mutated, dpw, c.O.Scheme)
					if k != nil && decErr == nil {
						gotKey, gotSome = k.Encode(), true
					}
				case "file":
					fb, err := os.ReadFile(path)
					if err != nil {
						panic("VERIF-INFRA " + err.Error())
					}
					ks := new(EncryptedKeystore)
					if err := json.Unmarshal(fb, ks); err != nil {
						panic("VERIF-INFRA " + err.Error())
					}
					ks.Ciphertext = mutated
					out, _ := json.MarshalIndent(ks, "", "\t")
					if err := os.WriteFile(path, append(out, '\n'), 0o600); err != nil {
						panic("VERIF-INFRA " + err.Error())
					}
					var k crypto.PrivateKey
					k, decErr = ReadFromFileAndDecrypt(path, dpw)
					if k != nil && decErr == nil {
						gotKey, gotSome = k.Encode(), true
					}
				}
			})
			res.Cmp()
			if pm != "" {
				if bytes.Contains([]byte(pm), []byte("VERIF-INFRA")) {
					t.Fatalf("%s", pm)
				}
				fail("panic", c.Res.Verdict+", no panic", pm, "panic")
				continue
			}
			switch c.Res.Verdict {
			case "key":
				if decErr != nil {
					fail("err", "nil", decErr.Error(), "round-trip-error")
				} else if !gotSome && api != "raw" {
					fail("key", "the key", "nil key without error", "round-trip-nil")
				} else if !bytes.Equal(gotKey, want) {
					fail("key", vHex(want), vHex(gotKey), "round-trip-different-key")
				}
			case "error":
				if decErr == nil {
					w := "accepted-same-key"
					if !bytes.Equal(gotKey, want) {
						w = "accepted-different-key"
					}
					fail("err", "error", "nil, key "+vHex(gotKey), w)
				} else if gotSome {
					fail("key", "no key", vHex(gotKey), "key-with-error")
				}
			default:
				t.Fatalf("VERIF-INFRA unknown verdict %q", c.Res.Verdict)
			}
			// ---- the STORED ciphertext stays what it was: an attempt (failed or not) neither
			// ---- changes the bytes it was given nor the stored bytes, and the stored ciphertext
			// ---- still decrypts to the same key with the same password, every time
			if api != "file" {
				res.Cmp()
				if !bytes.Equal(mutated, mutatedBefore) || !bytes.Equal(stored, storedBefore) {
					fail("ciphertext", "unchanged by Decrypt", "overwritten", "ciphertext-overwritten")
					stored = append([]byte{}, storedBefore...)
				}
				for rep := 0; rep < 2; rep++ {
					var again []byte
					var err error
					buf := stored // same stored buffer both times
					pm := vTry(func() {
						if api == "raw" {
							again, err = Decrypt(buf, pw)
						} else {
							var k crypto.PrivateKey
							k, err = DecryptPrivateKey(buf, pw, c.O.Scheme)
							if k != nil && err == nil {
								again = k.Encode()
							}
						}
					})
					res.Cmp()
					if pm != "" || err != nil || !bytes.Equal(again, want) {
						fail("redecrypt", "the key, again", fmt.Sprintf("attempt %d: err=%v panic=%q key=%s", rep+1, err, pm, vHex(again)), "stored-ciphertext-no-longer-decrypts")
						break
					}
				}
			}
		}
	}
	res.Extra["classes"] = classes
	vksUnlock(t, res, rng, keys)
}

type vksInserter struct{ kps []KeyPair }

func (i *vksInserter) Insert(kp KeyPair) error { i.kps = append(i.kps, kp); return nil }

// vksUnlock: the round trip as a node makes it at start-up: several accounts stored with EncryptAndWriteToFile, unlocked by ONE
// UnlockKeys call (every scheme, every order, a wrong password on the last account).  Every account handed to the key store
// holds, at the end of the call, exactly the key that was stored for it; an account whose password was wrong is not handed
// over and does not change the ones before it.
func vksUnlock(t *testing.T, res *vResult, rng *rand.Rand, keys map[string][]crypto.PrivateKey) {
	schemes := []string{"ed25519", "sr25519", "secp256k1", "ed25519", "sr25519"}
	for trial := 0; trial < 12; trial++ {
		base := t.TempDir()
		if err := os.Mkdir(filepath.Join(base, "keystore"), 0o700); err != nil {
			t.Fatalf("VERIF-INFRA mkdir: %v", err)
		}
		perm := rng.Perm(len(schemes))
		var stored []crypto.PrivateKey
		var pws []string
		for fi, si := range perm {
			pk := keys[schemes[si]][rng.Intn(len(keys[schemes[si]]))]
			pw := fmt.Sprintf("pw-%d-%d", trial, fi)
			if err := EncryptAndWriteToFile(filepath.Join(base, "keystore", fmt.Sprintf("k%02d.key", fi)), pk, []byte(pw)); err != nil {
				t.Fatalf("VERIF-INFRA write key file: %v", err)
			}
			stored = append(stored, pk)
			pws = append(pws, pw)
		}
		order := rng.Perm(len(stored))
		wrongLast := trial%3 == 2
		var idx, pw []string
		for oi, fi := range order {
			idx = append(idx, fmt.Sprint(fi))
			if wrongLast && oi == len(order)-1 {
				pw = append(pw, "not-"+pws[fi])
			} else {
				pw = append(pw, pws[fi])
			}
		}
		ins := &vksInserter{}
		var err error
		pm := vTry(func() { err = UnlockKeys(ins, base, strings.Join(idx, ","), strings.Join(pw, ",")) })
		cls := "all-passwords-right"
		if wrongLast {
			cls = "last-password-wrong"
		}
		res.Case("unlock", fmt.Sprintf("%s|%v|%v", cls, perm, order))
		fail := func(field, exp, got, what string) {
			res.Fail(1000+trial, 0, "unlock", field, exp, got, "C37/unlock/"+cls+"/"+what, nil)
		}
		res.Cmp()
		if pm != "" {
			fail("panic", "no panic", pm, "panic")
			continue
		}
		wantN := len(order)
		if wrongLast {
			wantN--
			if err == nil {
				fail("err", "error (wrong password)", "nil", "accepted-wrong-password")
			}
		} else if err != nil {
			fail("err", "nil", err.Error(), "round-trip-error")
			continue
		}
		res.Cmp()
		if len(ins.kps) != wantN {
			fail("accounts", fmt.Sprint(wantN), fmt.Sprint(len(ins.kps)), "account-count")
			continue
		}
		for oi, kp := range ins.kps {
			want := stored[order[oi]]
			res.Cmp()
			pr, ok := kp.(Privater)
			if !ok {
				t.Fatalf("VERIF-INFRA key pair %T has no private key accessor", kp)
			}
			if got := pr.Private().Encode(); !bytes.Equal(got, want.Encode()) {
				fail(fmt.Sprintf("account %d (file %d, %s) unlocked %d-th of %d", oi, order[oi], kp.Type(), oi+1, len(order)), vHex(want.Encode()), vHex(got), "round-trip-different-key")
				break
			}
		}
	}
}
