//go:build verif

// Conformance harness for specs/BabeVerify.tla (C24).
//
// Every TLC-enumerated case of the decision table (how a block was made: configuration, claim kind,
// claimed index, origin of the VRF output/proof, below/above the threshold, origin of the seal,
// digest layout) is realised with real sr25519 keys in one or more "worlds" (authority set,
// randomness, epoch, c1/c2) and handed to the REAL VerificationManager.VerifyBlock (which derives the
// verifier from the epoch configuration and calls verifier.verifyAuthorshipRight).  The verdict
// (error == nil) is compared with the specification's Accept.  Lottery inputs ("claim" operation) are
// realised by searching a slot with the required attributes and running the REAL claimSlot; a produced
// claim is sealed and must pass VerifyBlock (S6).
//
// Independence: transcripts, the secondary slot author, the below-threshold attribute and the seal
// pre-image are computed here from merlin / BLAKE2b / big.Int directly, not with the functions under
// test (makeTranscript, getSecondarySlotAuthor, checkPrimaryThreshold, buildBlockSeal).

package babe

import (
	"math"
	"encoding/binary"
	"encoding/json"
	"errors"
	"fmt"
	"math/big"
	"math/rand"
	"testing"
	"time"

	"github.com/ChainSafe/gossamer/dot/types"
	"github.com/ChainSafe/gossamer/lib/common"
	"github.com/ChainSafe/gossamer/lib/crypto/sr25519"
	"github.com/ChainSafe/gossamer/pkg/scale"
	"github.com/gtank/merlin"
)

type vbvOp struct {
	Op       string `json:"op"`
	Cfg      string `json:"cfg"`
	Kind     string `json:"kind"`
	Idx      string `json:"idx"`
	Vrf      string `json:"vrf"`
	Below    bool   `json:"below"`
	Seal     string `json:"seal"`
	Layout   string `json:"layout"`
	Assigned bool   `json:"assigned"`
	Wins     bool   `json:"wins"`
}

type vbvStep struct {
	O   vbvOp `json:"o"`
	Res struct {
		Accept bool   `json:"accept"`
		Reason string `json:"reason"`
		Kind   string `json:"kind"`
	} `json:"res"`
}

// ---- stub chain state (only what VerifyBlock needs; anything else panics = observation) ----

type vbvBlockState struct {
	BlockState
	parent *types.Header
}

func (s *vbvBlockState) GetHeader(h common.Hash) (*types.Header, error) {
	if h == s.parent.Hash() {
		return s.parent, nil
	}
	return nil, errors.New("vbv: unknown header")
}
func (s *vbvBlockState) GenesisHash() common.Hash { return s.parent.Hash() }

type vbvSlotState struct{}

func (vbvSlotState) CheckEquivocation(slotNow, slot uint64, header *types.Header,
	signer types.AuthorityID) (*types.BabeEquivocationProof, error) {
	return nil, nil
}

type vbvEpochState struct {
	EpochState
	epoch uint64
	data  *types.EpochDataRaw
	cfg   *types.ConfigData
}

func (s *vbvEpochState) GetEpochForBlock(*types.Header) (uint64, error) { return s.epoch, nil }
func (s *vbvEpochState) GetSlotDuration() (time.Duration, error)         { return 6 * time.Second, nil }
func (s *vbvEpochState) GetEpochDataRaw(e uint64, _ *types.Header) (*types.EpochDataRaw, error) {
	if e != s.epoch {
		return nil, fmt.Errorf("vbv: epoch %d asked, %d expected", e, s.epoch)
	}
	return s.data, nil
}
func (s *vbvEpochState) GetConfigData(e uint64, _ *types.Header) (*types.ConfigData, error) {
	if e != s.epoch {
		return nil, fmt.Errorf("vbv: epoch %d asked, %d expected", e, s.epoch)
	}
	return s.cfg, nil
}

// ---- world -------------------------------------------------------------------------------

type vbvVrf struct {
	out   [sr25519.VRFOutputLength]byte
	proof [sr25519.VRFProofLength]byte
}

type vbvWorld struct {
	n      int
	kps    []*sr25519.Keypair
	pubs   []*sr25519.PublicKey
	auths  []types.AuthorityRaw
	rnd    Randomness
	epoch  uint64
	c1, c2 uint64
	thr    *big.Int
	thrU   *scale.Uint128
	base   uint64
	window int
	cache  map[[2]uint64]vbvVrf
	parent *types.Header
	rng    *rand.Rand
}

func vbvTranscript(rnd Randomness, slot, epoch uint64) *merlin.Transcript {
	t := merlin.NewTranscript("BABE")
	b := make([]byte, 8)
	binary.LittleEndian.PutUint64(b, slot)
	t.AppendMessage([]byte("slot number"), b)
	b2 := make([]byte, 8)
	binary.LittleEndian.PutUint64(b2, epoch)
	t.AppendMessage([]byte("current epoch"), b2)
	t.AppendMessage([]byte("chain randomness"), rnd[:])
	return t
}

func vbvNewWorld(t *testing.T, rng *rand.Rand, n int, c1, c2 uint64) *vbvWorld {
	w := &vbvWorld{n: n, c1: c1, c2: c2, cache: map[[2]uint64]vbvVrf{}, rng: rng, window: 96}
	for i := 0; i < n; i++ {
		seed := make([]byte, 32)
		rng.Read(seed)
		kp, err := sr25519.NewKeypairFromSeed(seed)
		if err != nil {
			t.Fatalf("VERIF-INFRA keypair: %v", err)
		}
		w.kps = append(w.kps, kp)
		w.pubs = append(w.pubs, kp.Public().(*sr25519.PublicKey))
		w.auths = append(w.auths, *types.NewAuthority(kp.Public(), uint64(1+rng.Intn(3))).ToRaw())
	}
	rng.Read(w.rnd[:])
	w.epoch = uint64(rng.Intn(1000))
	w.base = uint64(rng.Int63n(1 << 40))
	thr, err := CalculateThreshold(c1, c2, n)
	if err != nil {
		t.Fatalf("VERIF-INFRA threshold: %v", err)
	}
	w.thrU = thr // what the node hands to its own lottery
	// the `below` attribute is decided against the threshold of the property text, computed here with 512-bit
	// arithmetic and without the code under test: 2^128 * (1 - (1 - c1/c2)^(1/n))
	w.thr = vbvThreshold(c1, c2, n)
	if w.thr.BitLen() <= 120 {
		w.window = 8192 // winning slots are rare: search further
	}
	w.parent = types.NewEmptyHeader()
	return w
}

// vbvThreshold is floor(2^128 * (1 - (1 - c1/c2)^(1/n))), saturated to 2^128 - 1; Newton iteration on 512-bit floats.
func vbvThreshold(c1, c2 uint64, n int) *big.Int {
	const prec = 512
	max := new(big.Int).Sub(new(big.Int).Lsh(big.NewInt(1), 128), big.NewInt(1))
	if c1 >= c2 || n == 0 {
		return max
	}
	f := func(x float64) *big.Float { return new(big.Float).SetPrec(prec).SetFloat64(x) }
	x := new(big.Float).SetPrec(prec).Quo(f(float64(c2-c1)), f(float64(c2))) // 1 - c
	xf, _ := x.Float64()
	r := f(math.Pow(xf, 1/float64(n)))
	pow := func(b *big.Float, e int) *big.Float {
		out := f(1)
		for i := 0; i < e; i++ {
			out.Mul(out, b)
		}
		return out
	}
	for i := 0; i < 12; i++ {
		num := new(big.Float).SetPrec(prec).Sub(pow(r, n), x)
		den := new(big.Float).SetPrec(prec).Mul(f(float64(n)), pow(r, n-1))
		r.Sub(r, new(big.Float).SetPrec(prec).Quo(num, den))
	}
	p := new(big.Float).SetPrec(prec).Sub(f(1), r)
	p.Mul(p, new(big.Float).SetPrec(prec).SetInt(new(big.Int).Lsh(big.NewInt(1), 128)))
	out, _ := p.Int(nil)
	if out.Cmp(max) > 0 {
		return max
	}
	return out
}

// vbvThresholdAgrees: the code's threshold for (c1, c2, n) lies within 2^82 of the property's (f64 rounding, see C25)
func vbvThresholdAgrees(c1, c2 uint64, n int) (ok bool, got, want *big.Int) {
	thr, err := CalculateThreshold(c1, c2, n)
	if err != nil {
		return false, nil, nil
	}
	got = new(big.Int).Lsh(new(big.Int).SetUint64(thr.Upper), 64)
	got.Add(got, new(big.Int).SetUint64(thr.Lower))
	want = vbvThreshold(c1, c2, n)
	d := new(big.Int).Sub(got, want)
	return d.Abs(d).Cmp(new(big.Int).Lsh(big.NewInt(1), 82)) <= 0, got, want
}

func (w *vbvWorld) vrf(t *testing.T, key int, slot uint64) vbvVrf {
	k := [2]uint64{uint64(key), slot}
	if v, ok := w.cache[k]; ok {
		return v
	}
	out, proof, err := w.kps[key].VrfSign(vbvTranscript(w.rnd, slot, w.epoch))
	if err != nil {
		t.Fatalf("VERIF-INFRA vrf sign: %v", err)
	}
	v := vbvVrf{out, proof}
	w.cache[k] = v
	return v
}

// secondary slot author, from the property text: BE(BLAKE2b-256(randomness || slot LE)) mod n
func (w *vbvWorld) secAuthor(slot uint64) int {
	b := make([]byte, 8)
	binary.LittleEndian.PutUint64(b, slot)
	h := vBlake(append(append([]byte{}, w.rnd[:]...), b...))
	return int(new(big.Int).Mod(new(big.Int).SetBytes(h), big.NewInt(int64(w.n))).Int64())
}

// below: u128 LE of make_bytes(16, "substrate-babe-vrf") of (output, key, transcript) < threshold
func (w *vbvWorld) below(out [sr25519.VRFOutputLength]byte, key int, slot uint64) (below, valid bool) {
	io, err := sr25519.AttachInput(out, w.pubs[key], vbvTranscript(w.rnd, slot, w.epoch))
	if err != nil {
		return false, false
	}
	b, err := io.MakeBytes(16, []byte("substrate-babe-vrf"))
	if err != nil || len(b) != 16 {
		return false, false
	}
	be := make([]byte, 16)
	for i := range b {
		be[15-i] = b[i]
	}
	return new(big.Int).SetBytes(be).Cmp(w.thr) < 0, true
}

func vbvCfgByte(cfg string) byte {
	switch cfg {
	case "primary":
		return 0
	case "plain":
		return 1
	}
	return 2
}

func (w *vbvWorld) verify(cfg string, header *types.Header) (accept bool, errText string, panicMsg string) {
	bs := &vbvBlockState{parent: w.parent}
	es := &vbvEpochState{epoch: w.epoch,
		data: &types.EpochDataRaw{Authorities: w.auths, Randomness: w.rnd},
		cfg:  &types.ConfigData{C1: w.c1, C2: w.c2, SecondarySlots: vbvCfgByte(cfg)}}
	vm := NewVerificationManager(bs, vbvSlotState{}, es)
	var err error
	panicMsg = vTry(func() { err = vm.VerifyBlock(header) })
	if panicMsg != "" {
		return false, "", panicMsg
	}
	if err != nil {
		return false, err.Error(), ""
	}
	return true, "", ""
}

func vbvErrClass(errText, panicMsg string) string {
	if panicMsg != "" {
		return "panic"
	}
	for _, e := range []error{ErrBadSlotClaim, ErrBadSecondarySlotClaim, ErrVRFOutputOverThreshold, ErrBadSignature,
		ErrInvalidBlockProducerIndex, errMissingDigestItems, errLastDigestItemNotSeal, types.ErrNoFirstPreDigest,
		ErrProducerEquivocated} {
		if e != nil && len(errText) > 0 && vbvContains(errText, e.Error()) {
			return vbvSlug(e.Error())
		}
	}
	return "other-error"
}

func vbvContains(s, sub string) bool {
	for i := 0; i+len(sub) <= len(s); i++ {
		if s[i:i+len(sub)] == sub {
			return true
		}
	}
	return false
}

func vbvSlug(s string) string {
	b := []byte(s)
	for i, c := range b {
		if !(c >= 'a' && c <= 'z' || c >= 'A' && c <= 'Z' || c >= '0' && c <= '9') {
			b[i] = '-'
		}
	}
	if len(b) > 40 {
		b = b[:40]
	}
	return string(b)
}

// seal pre-image: BLAKE2b-256 of the SCALE encoding of the header as it stands (without seal)
func vbvSealHash(t *testing.T, h *types.Header) []byte {
	enc, err := scale.Marshal(*h)
	if err != nil {
		t.Fatalf("VERIF-INFRA encode header: %v", err)
	}
	return vBlake(enc)
}

type vbvBuilt struct {
	header *types.Header
	desc   map[string]any
}

// realise builds a header for case o in world w; ok=false when the world has no slot with the
// required attributes (e.g. below=false under the maximum threshold).
func (w *vbvWorld) realise(t *testing.T, o vbvOp) (*vbvBuilt, bool) {
	rng := w.rng
	if w.n < 2 {
		// "other"/"otherkey" need a second authority
		if o.Idx == "other" || o.Vrf == "otherkey" || o.Seal == "otherkey" {
			return nil, false
		}
	}
	start := rng.Intn(w.window)
	for k := 0; k < w.window; k++ {
		slot := w.base + uint64((start+k)%w.window)
		other := slot + 1000 + uint64(rng.Intn(50))
		sec := w.secAuthor(slot)
		var idx uint32
		switch o.Idx {
		case "assigned":
			idx = uint32(sec)
		case "other":
			idx = uint32((sec + 1 + rng.Intn(w.n-1)) % w.n)
		default: // out
			switch rng.Intn(3) {
			case 0:
				idx = uint32(w.n)
			case 1:
				idx = uint32(w.n + 1 + rng.Intn(1000))
			default:
				idx = ^uint32(0) - uint32(rng.Intn(4))
			}
		}
		ki := int(idx % uint32(w.n))
		kj := ki
		if w.n > 1 {
			kj = (ki + 1 + rng.Intn(w.n-1)) % w.n
		}
		var v vbvVrf
		if o.Kind != "plain" {
			hon := w.vrf(t, ki, slot)
			switch o.Vrf {
			case "ok":
				v = hon
			case "otherkey":
				v = w.vrf(t, kj, slot)
			case "otherslot":
				v = w.vrf(t, ki, other)
			case "badproof":
				v = vbvVrf{hon.out, w.vrf(t, ki, other).proof}
			case "badoutput":
				v = vbvVrf{w.vrf(t, ki, other).out, hon.proof}
			default:
				t.Fatalf("VERIF-INFRA vrf class %q", o.Vrf)
			}
			if o.Idx != "out" {
				bl, valid := w.below(v.out, ki, slot)
				if !valid {
					t.Fatalf("VERIF-INFRA cannot attach VRF output")
				}
				if bl != o.Below {
					continue
				}
			}
		}
		// ---- header ----
		h := types.NewEmptyHeader()
		h.ParentHash = w.parent.Hash()
		h.Number = 1
		rng.Read(h.StateRoot[:])
		rng.Read(h.ExtrinsicsRoot[:])
		var pre *types.PreRuntimeDigest
		var err error
		switch o.Kind {
		case "primary":
			pre, err = types.NewBabePrimaryPreDigest(idx, slot, v.out, v.proof).ToPreRuntimeDigest()
		case "plain":
			pre, err = types.NewBabeSecondaryPlainPreDigest(idx, slot).ToPreRuntimeDigest()
		case "vrf":
			pre, err = types.NewBabeSecondaryVRFPreDigest(idx, slot, v.out, v.proof).ToPreRuntimeDigest()
		}
		if err != nil {
			t.Fatalf("VERIF-INFRA pre-digest: %v", err)
		}
		if o.Layout == "bad-pre" {
			var data []byte
			// (a TRUNCATED claim is not used: whether the SCALE decoder rejects short input is C12's
			// subject; with a zero-filling decoder a truncated claim is simply a claim for another slot)
			switch rng.Intn(3) {
			case 0:
				data = []byte{}
			case 1:
				data = append([]byte{4 + byte(rng.Intn(250))}, pre.Data[1:]...) // unknown claim kind >= 4
			default:
				data = append([]byte{0}, pre.Data[1:]...) // unknown claim kind 0
			}
			pre = &types.PreRuntimeDigest{ConsensusEngineID: types.BabeEngineID, Data: data}
		}
		x := types.ConsensusDigest{ConsensusEngineID: types.GrandpaEngineID, Data: []byte{byte(rng.Intn(256)), 2, 3}}
		var items []any
		withSeal := true
		switch o.Layout {
		case "pre-seal", "bad-pre":
			items = []any{*pre}
		case "pre-x-seal":
			items = []any{*pre, x}
		case "pre-s-seal":
			stray := make([]byte, 64)
			rng.Read(stray)
			items = []any{*pre, types.SealDigest{ConsensusEngineID: types.BabeEngineID, Data: stray}}
		case "only-pre":
			items, withSeal = []any{*pre}, false
		case "no-seal":
			items, withSeal = []any{*pre, x}, false
		case "no-pre":
			items = []any{x}
		case "only-seal":
			items = nil
		default:
			t.Fatalf("VERIF-INFRA layout %q", o.Layout)
		}
		for _, it := range items {
			if err := h.Digest.Add(it); err != nil {
				t.Fatalf("VERIF-INFRA digest add: %v", err)
			}
		}
		sealVariant := ""
		if withSeal {
			msg := vbvSealHash(t, h)
			signer := ki
			switch o.Seal {
			case "ok":
			case "otherkey":
				signer = kj
			case "otherheader":
				h2, err := h.DeepCopy()
				if err != nil {
					t.Fatalf("VERIF-INFRA deep copy: %v", err)
				}
				variant := rng.Intn(4)
				if o.Layout == "pre-s-seal" {
					variant = 4
				}
				switch variant {
				case 4:
					// signed over the header WITHOUT the stray seal item (i.e. with every seal item removed)
					h3 := types.NewHeader(h.ParentHash, h.StateRoot, h.ExtrinsicsRoot, h.Number, types.NewDigest())
					_ = h3.Digest.Add(*pre)
					sealVariant = "without-stray-seal"
					msg = vbvSealHash(t, h3)
				case 0:
					h2.Number++
					sealVariant = "number"
					msg = vbvSealHash(t, h2)
				case 1:
					h2.StateRoot[rng.Intn(32)] ^= 1 << uint(rng.Intn(8))
					sealVariant = "stateroot"
					msg = vbvSealHash(t, h2)
				case 2:
					// signed over the header INCLUDING a (dummy) seal
					_ = h2.Digest.Add(types.SealDigest{ConsensusEngineID: types.BabeEngineID, Data: make([]byte, 64)})
					sealVariant = "with-seal"
					msg = vbvSealHash(t, h2)
				default:
					// signed over the encoding itself, not its hash
					sealVariant = "unhashed"
					msg, _ = scale.Marshal(*h)
				}
			}
			sig, err := w.kps[signer].Sign(msg)
			if err != nil {
				t.Fatalf("VERIF-INFRA sign: %v", err)
			}
			if o.Seal == "mangled" {
				sig = append([]byte{}, sig...)
				bit := rng.Intn(len(sig) * 8)
				sig[bit/8] ^= 1 << uint(bit%8)
				sealVariant = fmt.Sprintf("bit%d", bit)
			}
			if err := h.Digest.Add(types.SealDigest{ConsensusEngineID: types.BabeEngineID, Data: sig}); err != nil {
				t.Fatalf("VERIF-INFRA digest add seal: %v", err)
			}
		}
		return &vbvBuilt{header: h, desc: map[string]any{"n": w.n, "c1": w.c1, "c2": w.c2, "epoch": w.epoch, "slot": slot,
			"secAuthor": sec, "idx": idx, "sealVariant": sealVariant, "randomness": vHex(w.rnd[:])}}, true
	}
	return nil, false
}

func vbvKindOfDigest(pre *types.PreRuntimeDigest) string {
	d, err := types.DecodeBabePreDigest(pre.Data)
	if err != nil {
		return "undecodable"
	}
	switch d.(type) {
	case types.BabePrimaryPreDigest:
		return "primary"
	case types.BabeSecondaryPlainPreDigest:
		return "plain"
	case types.BabeSecondaryVRFPreDigest:
		return "vrf"
	}
	return "undecodable"
}

// claim realises a lottery input: finds (authority, slot) with the attributes, runs the real
// claimSlot, seals a block around the claim and verifies it.
func (w *vbvWorld) claim(t *testing.T, o vbvOp) (kind string, verdict bool, errText, panicMsg string, desc map[string]any, ok bool) {
	rng := w.rng
	a := rng.Intn(w.n)
	start := rng.Intn(w.window)
	for k := 0; k < w.window; k++ {
		slot := w.base + uint64((start+k)%w.window)
		sec := w.secAuthor(slot)
		if (sec == a) != o.Assigned {
			continue
		}
		bl, valid := w.below(w.vrf(t, a, slot).out, a, slot)
		if !valid || bl != o.Wins {
			continue
		}
		ed := &epochData{randomness: w.rnd, authorityIndex: uint32(a), authorities: w.auths, threshold: w.thrU,
			allowedSlots: types.AllowedSlots(vbvCfgByte(o.Cfg))}
		var pre *types.PreRuntimeDigest
		var err error
		pm := vTry(func() { pre, err = claimSlot(w.epoch, slot, ed, w.kps[a]) })
		desc = map[string]any{"n": w.n, "c1": w.c1, "c2": w.c2, "epoch": w.epoch, "slot": slot, "secAuthor": sec, "authority": a}
		if pm != "" {
			return "panic", false, "", pm, desc, true
		}
		if err != nil || pre == nil {
			return "none", false, fmt.Sprint(err), "", desc, true
		}
		kind = vbvKindOfDigest(pre)
		h := types.NewEmptyHeader()
		h.ParentHash = w.parent.Hash()
		h.Number = 1
		rng.Read(h.StateRoot[:])
		rng.Read(h.ExtrinsicsRoot[:])
		if err := h.Digest.Add(*pre); err != nil {
			t.Fatalf("VERIF-INFRA digest add: %v", err)
		}
		sig, err := w.kps[a].Sign(vbvSealHash(t, h))
		if err != nil {
			t.Fatalf("VERIF-INFRA sign: %v", err)
		}
		if err := h.Digest.Add(types.SealDigest{ConsensusEngineID: types.BabeEngineID, Data: sig}); err != nil {
			t.Fatalf("VERIF-INFRA digest add seal: %v", err)
		}
		verdict, errText, panicMsg = w.verify(o.Cfg, h)
		return kind, verdict, errText, panicMsg, desc, true
	}
	return "", false, "", "", nil, false
}

func TestVerifBabeVerify(t *testing.T) {
	res := vNewResult(vEnvStr("VERIF_PROP", "C24"))
	defer res.Write(t)
	behs := vLoad(t, vIn(t, vEnvStr("VERIF_INPUT", "behaviours.txt")))
	res.Behaviours = len(behs)
	rng := rand.New(rand.NewSource(vSeed()*7919 + 24))

	// worlds: (n, c1, c2).  c = 1/2 gives every authority a 20-30 % primary chance, so both values of
	// `below` are found quickly; the c1 = c2 world has the maximum threshold (everything is below).
	type wspec struct {
		n      int
		c1, c2 uint64
	}
	// the same c with different authority counts, and a saturated threshold in between: the epoch threshold is a
	// function of (c, n) alone, whatever was computed before
	// ... and a small c: the threshold is below 2^120 (its top byte is zero), as with many authorities on a real network
	specs := []wspec{{3, 1, 2}, {2, 1, 1}, {2, 1, 2}, {2, 1, 400}}
	reps := vEnvInt("VERIF_BABE_WORLDS", 0)
	for i := 0; i < reps; i++ {
		c2 := uint64(2 + rng.Intn(6))
		specs = append(specs, wspec{2 + rng.Intn(5), uint64(1 + rng.Intn(int(c2)-1)), c2})
	}
	if reps > 0 {
		specs = append(specs, wspec{1, 1, 2}, wspec{7, 3, 4})
	}
	var worlds []*vbvWorld
	for _, s := range specs {
		worlds = append(worlds, vbvNewWorld(t, rng, s.n, s.c1, s.c2))
	}
	// after all worlds exist (every (c, n) has been asked once, in this order), and again in reverse order
	for pass := 0; pass < 2; pass++ {
		for i := range specs {
			s := specs[i]
			if pass == 1 {
				s = specs[len(specs)-1-i]
			}
			res.Case("threshold", fmt.Sprintf("%d|%d|%d", s.n, s.c1, s.c2))
			res.Cmp()
			if ok, got, want := vbvThresholdAgrees(s.c1, s.c2, s.n); !ok {
				res.Fail(-1, pass, "threshold", "CalculateThreshold", fmt.Sprint(want), fmt.Sprint(got),
					"C24/threshold/not-a-function-of-c-and-n", map[string]any{"n": s.n, "c1": s.c1, "c2": s.c2, "pass": pass})
			}
		}
	}

	unrealised := 0
	lotTable := map[string]string{} // "cfg|assigned|wins" -> claim kind the specification prescribes
	for _, b := range behs {
		for si, raw := range b.Steps {
			var st vbvStep
			if err := json.Unmarshal(raw, &st); err != nil {
				t.Fatalf("VERIF-INFRA step json: %v", err)
			}
			o := st.O
			realisedOnce := false
			for wi, w := range worlds {
				switch o.Op {
				case "verify":
					built, ok := w.realise(t, o)
					if !ok {
						continue
					}
					realisedOnce = true
					got, errText, pm := w.verify(o.Cfg, built.header)
					key := ""
					if wi == 0 {
						key = fmt.Sprintf("%s|%s|%s|%s|%v|%s|%s", o.Cfg, o.Kind, o.Idx, o.Vrf, o.Below, o.Seal, o.Layout)
					}
					res.Case("verify", key)
					res.Cmp()
					if wi == 0 && (st.Res.Accept || res.Steps%500 == 1) {
						res.Sample(map[string]any{"case": o, "expected_accept": st.Res.Accept, "got_accept": got, "error": errText, "world": built.desc})
					}
					if got != st.Res.Accept {
						var sig string
						if got {
							sig = fmt.Sprintf("C24/verify/cfg=%s,kind=%s/accepted-unauthorised/%s", o.Cfg, o.Kind, st.Res.Reason)
						} else {
							sig = fmt.Sprintf("C24/verify/cfg=%s,kind=%s/rejected-authorised/%s", o.Cfg, o.Kind, vbvErrClass(errText, pm))
						}
						res.Fail(b.ID, si, "verify", "accept", fmt.Sprintf("%v (%s)", st.Res.Accept, st.Res.Reason),
							fmt.Sprintf("%v err=%q %s world=%s", got, errText, pm, vJSON(built.desc)), sig, []json.RawMessage{raw})
					} else if pm != "" {
						res.Extra["panics_on_rejected_blocks"] = pm
					}
				case "claim":
					lotTable[fmt.Sprintf("%s|%v|%v", o.Cfg, o.Assigned, o.Wins)] = st.Res.Kind
					kind, verdict, errText, pm, desc, ok := w.claim(t, o)
					if !ok {
						continue
					}
					realisedOnce = true
					key := ""
					if wi == 0 {
						key = fmt.Sprintf("%s|%v|%v", o.Cfg, o.Assigned, o.Wins)
					}
					res.Case("claim", key)
					res.Cmp()
					if wi == 0 && len(res.Samples) < 3 && kind != "none" {
						res.Sample(map[string]any{"lottery": o, "expected_kind": st.Res.Kind, "claimed": kind, "verified": verdict, "world": desc})
					}
					if kind == "panic" {
						res.Fail(b.ID, si, "claim", "claimSlot", st.Res.Kind, pm,
							fmt.Sprintf("C24/claim/cfg=%s/panic", o.Cfg), []json.RawMessage{raw})
						continue
					}
					if kind != "none" && kind != st.Res.Kind {
						// the node claims a slot the specification gives it no right to (S1 and S6 cannot both hold)
						res.Fail(b.ID, si, "claim", "kind", st.Res.Kind, fmt.Sprintf("%s world=%s", kind, vJSON(desc)),
							fmt.Sprintf("C24/claim/cfg=%s,expected=%s,claimed=%s/unauthorised-own-claim", o.Cfg, st.Res.Kind, kind),
							[]json.RawMessage{raw})
					}
					if kind == "none" && st.Res.Kind != "none" {
						// not claiming is not a violation of C24 (no block, nothing to verify); counted only
						n, _ := res.Extra["lottery_missed_claims"].(int)
						res.Extra["lottery_missed_claims"] = n + 1
					}
					if kind != "none" {
						res.Cmp()
						if !verdict {
							res.Fail(b.ID, si, "claim", "own claim verifies", "true",
								fmt.Sprintf("false err=%q %s world=%s", errText, pm, vJSON(desc)),
								fmt.Sprintf("C24/claim/cfg=%s,kind=%s/own-claim-rejected/%s", o.Cfg, kind, vbvErrClass(errText, pm)),
								[]json.RawMessage{raw})
						}
					}
				default:
					t.Fatalf("VERIF-INFRA unknown op %q", o.Op)
				}
			}
			if !realisedOnce {
				unrealised++
				if unrealised <= 3 {
					res.Notes = append(res.Notes, "case not realisable in any world: "+string(raw))
				}
			}
		}
	}
	// (S6) sweep: EVERY (configuration, authority, slot) of the slot window of a world goes through the
	// real claimSlot; what it claims is compared with the specification's lottery table (collected above
	// from the TLC-generated "claim" cases) and every produced claim is sealed and verified.
	if len(lotTable) == 12 {
		sweepWorlds := worlds[:1]
		if vThorough() {
			sweepWorlds = worlds
		}
		claimed := map[string]int{}
		for _, w := range sweepWorlds {
			for _, cfg := range []string{"primary", "plain", "vrf"} {
				for a := 0; a < w.n; a++ {
					for k := 0; k < w.window; k++ {
						slot := w.base + uint64(k)
						sec := w.secAuthor(slot)
						bl, valid := w.below(w.vrf(t, a, slot).out, a, slot)
						if !valid {
							t.Fatalf("VERIF-INFRA cannot attach own VRF output")
						}
						exp := lotTable[fmt.Sprintf("%s|%v|%v", cfg, sec == a, bl)]
						ed := &epochData{randomness: w.rnd, authorityIndex: uint32(a), authorities: w.auths, threshold: w.thrU,
							allowedSlots: types.AllowedSlots(vbvCfgByte(cfg))}
						var pre *types.PreRuntimeDigest
						var err error
						pm := vTry(func() { pre, err = claimSlot(w.epoch, slot, ed, w.kps[a]) })
						res.Case("claim-sweep", "")
						res.Cmp()
						desc := map[string]any{"n": w.n, "c1": w.c1, "c2": w.c2, "epoch": w.epoch, "slot": slot, "secAuthor": sec, "authority": a, "below": bl}
						if pm != "" {
							res.Fail(-1, 0, "claim-sweep", "claimSlot", exp, pm, fmt.Sprintf("C24/claim/cfg=%s/panic", cfg), desc)
							continue
						}
						if err != nil || pre == nil {
							if exp != "none" {
								n, _ := res.Extra["lottery_missed_claims"].(int)
								res.Extra["lottery_missed_claims"] = n + 1
							}
							continue
						}
						kind := vbvKindOfDigest(pre)
						claimed[cfg+"/"+kind]++
						if kind != exp {
							res.Fail(-1, 0, "claim-sweep", "kind", exp, fmt.Sprintf("%s world=%s", kind, vJSON(desc)),
								fmt.Sprintf("C24/claim/cfg=%s,expected=%s,claimed=%s/unauthorised-own-claim", cfg, exp, kind), desc)
						}
						h := types.NewEmptyHeader()
						h.ParentHash = w.parent.Hash()
						h.Number = 1
						rng.Read(h.StateRoot[:])
						if err := h.Digest.Add(*pre); err != nil {
							t.Fatalf("VERIF-INFRA digest add: %v", err)
						}
						sig, err := w.kps[a].Sign(vbvSealHash(t, h))
						if err != nil {
							t.Fatalf("VERIF-INFRA sign: %v", err)
						}
						if err := h.Digest.Add(types.SealDigest{ConsensusEngineID: types.BabeEngineID, Data: sig}); err != nil {
							t.Fatalf("VERIF-INFRA digest add seal: %v", err)
						}
						verdict, errText, pm2 := w.verify(cfg, h)
						res.Cmp()
						if !verdict {
							res.Fail(-1, 0, "claim-sweep", "own claim verifies", "true",
								fmt.Sprintf("false err=%q %s world=%s", errText, pm2, vJSON(desc)),
								fmt.Sprintf("C24/claim/cfg=%s,kind=%s/own-claim-rejected/%s", cfg, kind, vbvErrClass(errText, pm2)), desc)
						}
					}
				}
			}
		}
		res.Extra["sweep_claims_by_cfg_kind"] = claimed
	}
	res.Extra["worlds"] = len(worlds)
	res.Extra["unrealised_cases"] = unrealised
	if unrealised > 0 {
		t.Fatalf("VERIF-INFRA %d cases could not be realised in any world", unrealised)
	}
}
