//go:build verif

// C27 through its caller in lib/babe (specs/SlotEquivocation.tla): the TLC-generated CheckEquivocation histories
// (now, slot, header, signer) are replayed through the real verifier.verifyBlockEquivocation over a real
// dot/state SlotState.  "now" is the wall-clock slot: the verifier's slot duration is chosen per step so that
// time.Now() falls into slot `now` (no clock is stubbed).  Compared per step: whether an equivocation was found
// and reported to the runtime.
package babe

import (
	"encoding/json"
	"errors"
	"fmt"
	"testing"
	"time"

	"github.com/ChainSafe/gossamer/dot/state"
	"github.com/ChainSafe/gossamer/dot/types"
	"github.com/ChainSafe/gossamer/internal/database"
	"github.com/ChainSafe/gossamer/lib/common"
	"github.com/ChainSafe/gossamer/lib/runtime"
)

type vscStep struct {
	O struct {
		Op   string `json:"op"`
		Now  uint64 `json:"now"`
		Slot uint64 `json:"slot"`
		H    int    `json:"h"`
		G    int    `json:"g"`
	} `json:"o"`
	Res struct {
		Proof bool `json:"proof"`
	} `json:"res"`
}

type vscRuntime struct {
	runtime.Instance
	reports int
}

func (r *vscRuntime) BabeGenerateKeyOwnershipProof(uint64, [32]byte) (types.OpaqueKeyOwnershipProof, error) {
	return types.OpaqueKeyOwnershipProof{1}, nil
}
func (r *vscRuntime) BabeSubmitReportEquivocationUnsignedExtrinsic(types.BabeEquivocationProof, types.OpaqueKeyOwnershipProof) error {
	r.reports++
	return nil
}

type vscBlockState struct {
	BlockState
	rt *vscRuntime
}

func (vscBlockState) GenesisHash() common.Hash                               { return common.Hash{0x9e} }
func (vscBlockState) BestBlockHash() common.Hash                             { return common.Hash{0xbe} }
func (s vscBlockState) GetRuntime(common.Hash) (runtime.Instance, error)     { return s.rt, nil }

func TestVerifSlotEquivocationCaller(t *testing.T) {
	res := vNewResult(vEnvStr("VERIF_PROP", "C27"))
	defer res.Write(t)
	behs := vLoad(t, vIn(t, "behaviours.txt"))
	res.Behaviours = len(behs)
	var auths []types.AuthorityRaw
	for g := 0; g < 8; g++ {
		var a types.AuthorityRaw
		a.Key[0], a.Key[1] = byte(g), 0x77
		a.Weight = 1
		auths = append(auths, a)
	}
	for _, b := range behs {
		db, err := database.LoadDatabase(t.TempDir(), true)
		if err != nil {
			t.Fatalf("VERIF-INFRA db: %v", err)
		}
		ss := state.NewSlotState(db)
		rt := &vscRuntime{}
		var prefix []json.RawMessage
		for si, raw := range b.Steps {
			var s vscStep
			if err := json.Unmarshal(raw, &s); err != nil {
				t.Fatalf("VERIF-INFRA step json: %v", err)
			}
			prefix = append(prefix, raw)
			o := s.O
			if o.G < 0 || o.G >= len(auths) || o.Now == 0 {
				t.Fatalf("VERIF-INFRA step out of the harness's range: %s", string(raw))
			}
			cls := "in-capacity"
			if o.Now > o.Slot && o.Now-o.Slot > 1000 {
				cls = "older-than-capacity"
			} else if o.Now < o.Slot {
				cls = "future-slot"
			}
			res.Case("verifyBlockEquivocation", fmt.Sprintf("%s|%v", cls, s.Res.Proof))
			// the slot duration that puts time.Now() in the middle of slot o.Now
			nowNs := uint64(time.Now().UnixNano())
			dur := time.Duration(nowNs / o.Now)
			dur -= time.Duration(uint64(dur) / (2 * (o.Now + 1)))
			if got := getCurrentSlot(dur); got != o.Now {
				t.Fatalf("VERIF-INFRA could not place the clock in slot %d (got %d)", o.Now, got)
			}
			v := &verifier{blockState: vscBlockState{rt: rt}, slotState: ss, authorities: auths, slotDuration: dur}
			pre, err := types.NewBabeSecondaryPlainPreDigest(uint32(o.G), o.Slot).ToPreRuntimeDigest()
			if err != nil {
				t.Fatalf("VERIF-INFRA predigest: %v", err)
			}
			dg := types.NewDigest()
			if err := dg.Add(*pre); err != nil {
				t.Fatalf("VERIF-INFRA digest: %v", err)
			}
			hd := types.NewHeader(common.Hash{byte(o.H)}, common.Hash{}, common.Hash{byte(o.H), 0x5e}, uint(10+o.H), dg)
			before := rt.reports
			var eq bool
			var verr error
			pm, timedOut := vGuard(20*time.Second, func() { eq, verr = v.verifyBlockEquivocation(hd) })
			res.Cmp()
			sig := ""
			switch {
			case pm != "" || timedOut:
				sig = "panic-or-hang"
			case verr != nil && !errors.Is(verr, database.ErrNotFound):
				sig = "error"
			case eq != s.Res.Proof && s.Res.Proof:
				sig = "equivocation-missed"
			case eq != s.Res.Proof:
				sig = "spurious-equivocation"
			case eq && rt.reports != before+1:
				sig = "not-reported"
			}
			if sig != "" {
				res.Fail(b.ID, si, "verifyBlockEquivocation", "equivocation", fmt.Sprint(s.Res.Proof), fmt.Sprintf("%v err=%v %s reports=%d", eq, verr, pm, rt.reports-before),
					"C27/verifyBlockEquivocation/"+cls+"/"+sig, prefix)
				break
			}
		}
		_ = db.Close()
	}
}
