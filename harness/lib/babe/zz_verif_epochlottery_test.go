//go:build verif

// Conformance harness for C24 (S6) over epoch histories (specs/EpochLottery.tla).
//
// Every TLC-enumerated history of Produce(cur) steps is replayed with the REAL node-side and verifier-side code:
//
//	node      Service.initiateEpoch(cur)  ->  newEpochHandler(descriptor)  (the slot lottery of the whole epoch:
//	          claimSlot for every slot, for every authority acting as "the node")
//	verifier  VerificationManager.VerifyBlock(header) for a sealed block around EVERY claim the lottery produced
//
// over stub block/epoch states that implement what the specification says about stored epoch descriptions
// (Stored(e): the governing description of an epoch that has a block, the announced one for the epoch after the
// last block; the skipped-epoch lookups return the description announced for the first skipped epoch).  Every
// description id has its own randomness, its own authority ORDER (so a stale description changes the node's
// authority index) and the configuration the specification gives it.  Compared per step: the epoch index in
// the descriptor (the one bound into the VRF transcript), the description the descriptor was built from, the
// configuration, and that every own claim passes verification.  The first claimed slot after the best block
// becomes the next block of the chain.
package babe

import (
	"encoding/binary"
	"encoding/json"
	"errors"
	"fmt"
	"math/rand"
	"sort"
	"testing"
	"time"

	"github.com/ChainSafe/gossamer/dot/types"
	"github.com/ChainSafe/gossamer/lib/common"
	"github.com/ChainSafe/gossamer/lib/crypto/sr25519"
)

type velView struct {
	Te   int `json:"te"`
	Data int `json:"data"`
}

type velStep struct {
	O struct {
		Op   string `json:"op"`
		Cur  int    `json:"cur"`
		Last int    `json:"last"`
	} `json:"o"`
	Res struct {
		Lottery   velView `json:"lottery"`
		Verifier  velView `json:"verifier"`
		Cfg       string  `json:"cfg"`
		Skipped   bool    `json:"skipped"`
		Announces int     `json:"announces"`
	} `json:"res"`
}

const velEpochLength = 64

// velChain is the stub chain: block and epoch state in one, holding what the specification calls
// chain / gov / ann, and nothing else.
type velChain struct {
	BlockState
	EpochState
	t        *testing.T
	genesis  *types.Header
	headers  map[common.Hash]*types.Header
	best     *types.Header
	epochs   []int // epoch of block i+1
	gov      map[int]int
	ann      int
	first    uint64 // slot of block 1
	kps      []*sr25519.Keypair
	seed     int64
	c1, c2   uint64
	dataSeen []int // description ids handed out since the last reset (diagnosis)
}

func (c *velChain) last() int {
	if len(c.epochs) == 0 {
		return -1
	}
	return c.epochs[len(c.epochs)-1]
}

func (c *velChain) stored(e int) int {
	if id, ok := c.gov[e]; ok {
		return id
	}
	if len(c.epochs) > 0 && e == c.last()+1 {
		return c.ann
	}
	return -1
}

// description id -> concrete epoch description
func (c *velChain) randomness(id int) (r Randomness) {
	rng := rand.New(rand.NewSource(c.seed*1000003 + int64(id)*7919 + 13))
	rng.Read(r[:])
	return r
}

func (c *velChain) order(id int) []int {
	n := len(c.kps)
	o := make([]int, n)
	for i := range o {
		o[i] = (i + id) % n
	}
	// the first authority's session key is registered under a second entry as well: a key listed twice holds two places in
	// the secondary rotation and one identity in the node (seed C24e)
	return append(o, o[0])
}

func (c *velChain) dataRaw(id int) *types.EpochDataRaw {
	var auths []types.AuthorityRaw
	for _, k := range c.order(id) {
		auths = append(auths, *types.NewAuthority(c.kps[k].Public(), 1).ToRaw())
	}
	return &types.EpochDataRaw{Authorities: auths, Randomness: c.randomness(id)}
}

func velCfgName(id int) string { return []string{"primary", "plain", "vrf"}[id%3] }

func (c *velChain) cfgData(id int) *types.ConfigData {
	return &types.ConfigData{C1: c.c1, C2: c.c2, SecondarySlots: vbvCfgByte(velCfgName(id))}
}

// ---- BlockState ----
func (c *velChain) BestBlockHeader() (*types.Header, error) { return c.best, nil }
func (c *velChain) BestBlockHash() common.Hash              { return c.best.Hash() }
func (c *velChain) GenesisHash() common.Hash                { return c.genesis.Hash() }
func (c *velChain) GetHeader(h common.Hash) (*types.Header, error) {
	if hd, ok := c.headers[h]; ok {
		return hd, nil
	}
	return nil, errors.New("vel: unknown header")
}

// ---- EpochState ----
func (c *velChain) GetEpochLength() uint64                  { return velEpochLength }
func (c *velChain) GetSlotDuration() (time.Duration, error) { return 6 * time.Second, nil }
func (c *velChain) GetEpochForBlock(h *types.Header) (uint64, error) {
	if h.Number <= 1 {
		return 0, nil
	}
	slot, err := h.SlotNumber()
	if err != nil {
		return 0, err
	}
	return (slot - c.first) / velEpochLength, nil
}
func (c *velChain) lookup(e uint64) (int, error) {
	id := c.stored(int(e))
	if id < 0 {
		return 0, fmt.Errorf("vel: no description stored for epoch %d (last block in epoch %d)", e, c.last())
	}
	c.dataSeen = append(c.dataSeen, id)
	return id, nil
}
func (c *velChain) GetEpochDataRaw(e uint64, _ *types.Header) (*types.EpochDataRaw, error) {
	id, err := c.lookup(e)
	if err != nil {
		return nil, err
	}
	return c.dataRaw(id), nil
}
func (c *velChain) GetConfigData(e uint64, _ *types.Header) (*types.ConfigData, error) {
	id, err := c.lookup(e)
	if err != nil {
		return nil, err
	}
	return c.cfgData(id), nil
}
func (c *velChain) GetSkippedEpochDataRaw(skipped, _ uint64, _ *types.Header) (*types.EpochDataRaw, error) {
	return c.GetEpochDataRaw(skipped, nil)
}
func (c *velChain) GetSkippedConfigData(skipped, _ uint64, _ *types.Header) (*types.ConfigData, error) {
	return c.GetConfigData(skipped, nil)
}
func (c *velChain) GetStartSlotForEpoch(e uint64, _ common.Hash) (uint64, error) {
	return c.first + e*velEpochLength, nil
}

func velNewChain(t *testing.T, seed int64) *velChain {
	rng := rand.New(rand.NewSource(seed))
	c := &velChain{t: t, genesis: types.NewEmptyHeader(), headers: map[common.Hash]*types.Header{}, gov: map[int]int{0: 0},
		ann: -1, seed: seed, c1: 1, c2: 2}
	c.headers[c.genesis.Hash()] = c.genesis
	c.best = c.genesis
	for i := 0; i < 3; i++ {
		s := make([]byte, 32)
		rng.Read(s)
		kp, err := sr25519.NewKeypairFromSeed(s)
		if err != nil {
			t.Fatalf("VERIF-INFRA keypair: %v", err)
		}
		c.kps = append(c.kps, kp)
	}
	return c
}

func velSlotOf(pre *types.PreRuntimeDigest) uint64 {
	h := types.NewEmptyHeader()
	_ = h.Digest.Add(*pre)
	s, _ := h.SlotNumber()
	return s
}

type velClaim struct {
	node int
	slot uint64
	pre  *types.PreRuntimeDigest
}

func (c *velChain) seal(node int, pre *types.PreRuntimeDigest, salt uint64) *types.Header {
	h := types.NewEmptyHeader()
	h.ParentHash = c.best.Hash()
	h.Number = c.best.Number + 1
	binary.LittleEndian.PutUint64(h.StateRoot[:], salt)
	if err := h.Digest.Add(*pre); err != nil {
		c.t.Fatalf("VERIF-INFRA digest add: %v", err)
	}
	sig, err := c.kps[node].Sign(vbvSealHash(c.t, h))
	if err != nil {
		c.t.Fatalf("VERIF-INFRA sign: %v", err)
	}
	if err := h.Digest.Add(types.SealDigest{ConsensusEngineID: types.BabeEngineID, Data: sig}); err != nil {
		c.t.Fatalf("VERIF-INFRA digest add seal: %v", err)
	}
	return h
}

func TestVerifEpochLottery(t *testing.T) {
	res := vNewResult(vEnvStr("VERIF_PROP", "C24"))
	defer res.Write(t)
	behs := vLoad(t, vIn(t, "histories.txt"))
	res.Behaviours = len(behs)
	kinds := map[string]int{}
	for _, b := range behs {
		c := velNewChain(t, vSeed()*7907+int64(b.ID))
		var prefix []json.RawMessage
		for si, raw := range b.Steps {
			var s velStep
			if err := json.Unmarshal(raw, &s); err != nil {
				t.Fatalf("VERIF-INFRA step json: %v", err)
			}
			prefix = append(prefix, raw)
			if si == 0 {
				res.Sample(b.Steps)
			}
			if s.O.Last != c.last() {
				t.Fatalf("VERIF-INFRA behaviour %d step %d: harness chain ends in epoch %d, specification in %d", b.ID, si, c.last(), s.O.Last)
			}
			hist := "same"
			switch {
			case s.O.Last < 0:
				hist = "genesis"
			case s.Res.Skipped:
				hist = "skipped"
			case s.O.Cur == s.O.Last+1:
				hist = "next"
			}
			res.Case("Produce", fmt.Sprintf("%s|%s|%d|%d", hist, s.Res.Cfg, s.O.Cur-s.O.Last, s.Res.Lottery.Data%3))
			failed := false
			fail := func(field, exp, got, fclass string) {
				failed = true
				res.Fail(b.ID, si, "Produce", field, exp, got, "C24/lottery/"+hist+"/cfg="+s.Res.Cfg+"/"+field+"/"+fclass, prefix)
			}
			if s.Res.Verifier != s.Res.Lottery {
				t.Fatalf("VERIF-INFRA behaviour %d step %d: specification views differ", b.ID, si)
			}
			var claims []velClaim
			consts := constants{slotDuration: 6 * time.Second, epochLength: velEpochLength}
			for node := range c.kps {
				svc := &Service{authority: true, blockState: c, epochState: c, keypair: c.kps[node], constants: consts}
				var desc *epochDescriptor
				var eh *epochHandler
				var err error
				c.dataSeen = nil
				pm := vTry(func() { desc, err = svc.initiateEpoch(uint64(s.O.Cur)) })
				res.Cmp()
				if pm != "" || err != nil || desc == nil {
					fail("initiateEpoch", "descriptor", fmt.Sprintf("err=%v panic=%s", err, pm), "error")
					break
				}
				res.Cmp()
				if int(desc.epoch) != s.Res.Lottery.Te {
					fail("transcript-epoch", fmt.Sprint(s.Res.Lottery.Te), fmt.Sprint(desc.epoch), "wrong-epoch")
					break
				}
				want := c.dataRaw(s.Res.Lottery.Data)
				res.Cmp()
				if desc.data == nil || desc.data.randomness != want.Randomness || fmt.Sprint(desc.data.authorities) != fmt.Sprint(want.Authorities) {
					fail("description", fmt.Sprintf("id %d", s.Res.Lottery.Data), fmt.Sprintf("ids looked up %v", c.dataSeen), "wrong-description")
					break
				}
				res.Cmp()
				if int(desc.data.allowedSlots) != int(vbvCfgByte(s.Res.Cfg)) {
					fail("allowed-slots", s.Res.Cfg, fmt.Sprint(desc.data.allowedSlots), "wrong-config")
					break
				}
				// an entry of the list that carries the node's key (a key listed twice has two)
				ord := c.order(s.Res.Lottery.Data)
				res.Cmp()
				if ai := int(desc.data.authorityIndex); ai < 0 || ai >= len(ord) || ord[ai] != node {
					fail("authority-index", fmt.Sprintf("an index of node %d in %v", node, ord), fmt.Sprint(desc.data.authorityIndex), "wrong-index")
					break
				}
				if s.O.Last >= 0 {
					res.Cmp()
					if exp := c.first + uint64(s.O.Cur)*velEpochLength; desc.startSlot != exp || desc.endSlot != exp+velEpochLength {
						fail("slots", fmt.Sprintf("[%d,%d)", exp, exp+velEpochLength), fmt.Sprintf("[%d,%d)", desc.startSlot, desc.endSlot), "wrong-range")
						break
					}
				}
				pm = vTry(func() { eh, err = newEpochHandler(desc, consts, nil, c.kps[node]) })
				res.Cmp()
				if pm != "" || err != nil {
					fail("newEpochHandler", "lottery", fmt.Sprintf("err=%v panic=%s", err, pm), "error")
					break
				}
				for slot, pre := range eh.slotToPreRuntimeDigest {
					claims = append(claims, velClaim{node, slot, pre})
				}
			}
			if failed {
				break
			}
			sort.Slice(claims, func(i, j int) bool {
				if claims[i].slot != claims[j].slot {
					return claims[i].slot < claims[j].slot
				}
				return claims[i].node < claims[j].node
			})
			// every own claim passes verification (S6)
			vm := NewVerificationManager(c, vbvSlotState{}, c)
			bestSlot := uint64(0)
			if c.best.Number > 0 {
				bestSlot, _ = c.best.SlotNumber()
			}
			var next *types.Header
			var nextSlot uint64
			for i, cl := range claims {
				h := c.seal(cl.node, cl.pre, uint64(i))
				kind := vbvKindOfDigest(cl.pre)
				kinds[s.Res.Cfg+"/"+kind]++
				var err error
				c.dataSeen = nil
				pm := vTry(func() { err = vm.VerifyBlock(h) })
				res.Cmp()
				if pm != "" || err != nil {
					fail("own-claim-verifies", "accepted", fmt.Sprintf("node %d slot %d kind %s: err=%v panic=%s (verifier looked up ids %v)",
						cl.node, cl.slot, kind, err, pm, c.dataSeen), "own-claim-rejected/kind="+kind+"/"+vbvErrClass(fmt.Sprint(err), pm))
					break
				}
				if next == nil && cl.slot > bestSlot {
					next, nextSlot = h, cl.slot
				}
			}
			if failed {
				break
			}
			if next == nil {
				t.Fatalf("VERIF-INFRA behaviour %d step %d: no claimed slot after the best block in epoch %d", b.ID, si, s.O.Cur)
			}
			// the block becomes the best block; the stub state moves as the specification's
			if c.best.Number == 0 {
				c.first = nextSlot
			}
			c.headers[next.Hash()] = next
			c.best = next
			newEpoch := s.O.Cur != s.O.Last
			if _, has := c.gov[s.O.Cur]; newEpoch && !has {
				c.gov[s.O.Cur] = s.Res.Lottery.Data
			}
			if s.Res.Announces >= 0 {
				c.ann = s.Res.Announces
			}
			c.epochs = append(c.epochs, s.O.Cur)
			e, err := c.GetEpochForBlock(next)
			if err != nil || int(e) != s.O.Cur {
				t.Fatalf("VERIF-INFRA behaviour %d step %d: authored block lies in epoch %d (err %v), specification %d", b.ID, si, e, err, s.O.Cur)
			}
		}
	}
	res.Extra["verified_own_claims_by_cfg_kind"] = kinds
}
