//go:build verif

// Harness for specs/BabeMath*.tla (C25, partial).
//
// Reads TLC-chosen inputs (BabeMath_Gen), runs the REAL CalculateThreshold and
// getSecondarySlotAuthor on them and logs the results to $VERIF_OUT/trace.ndjson; the TLC stage
// BabeMath_Trace then decides every logged line (threshold bracket with exact big naturals,
// saturation, monotonicity, secondary author = BE(digest) mod n).  The digest logged for a "sec"
// line is NOT taken from the code under test: it is BLAKE2b-256 (x/crypto) of the byte string the
// specification prescribes (token H(randomness || slot LE), resolved by vlib).
//
// Decided here directly (needs no arithmetic): an error or a panic for an input inside the
// property's domain (0 < c1 <= c2, n >= 1), and a nil result.

package babe

import (
	"bufio"
	"encoding/json"
	"fmt"
	"math/big"
	"os"
	"path/filepath"
	"testing"

	"github.com/ChainSafe/gossamer/pkg/scale"
)

type vbmOp struct {
	Op    string `json:"op"`
	C1    uint64 `json:"c1"`
	C2    uint64 `json:"c2"`
	N     int    `json:"n"`
	Rnd   VB     `json:"rnd"`
	Limbs []int  `json:"limbs"`
	Pre   VB     `json:"pre"`
}

type vbmLine struct {
	Ev     string `json:"ev"`
	C1     uint64 `json:"c1"`
	C2     uint64 `json:"c2"`
	N      int    `json:"n"`
	T      []int  `json:"t"`
	Digest []int  `json:"digest"`
	Idx    int    `json:"idx"`
}

// little-endian base-2^15 digits, normalised (zero = empty)
func vbmDigits(x *big.Int) []int {
	out := []int{}
	v := new(big.Int).Set(x)
	base := big.NewInt(32768)
	m := new(big.Int)
	for v.Sign() > 0 {
		v.DivMod(v, base, m)
		out = append(out, int(m.Int64()))
	}
	return out
}

func vbmU128(u *scale.Uint128) *big.Int {
	x := new(big.Int).Lsh(new(big.Int).SetUint64(u.Upper), 64)
	return x.Add(x, new(big.Int).SetUint64(u.Lower))
}

func TestVerifBabeMath(t *testing.T) {
	res := vNewResult(vEnvStr("VERIF_PROP", "C25"))
	defer res.Write(t)
	behs := vLoad(t, vIn(t, vEnvStr("VERIF_INPUT", "inputs.txt")))
	res.Behaviours = len(behs)
	out := os.Getenv("VERIF_OUT")
	f, err := os.Create(filepath.Join(out, "trace.ndjson"))
	if err != nil {
		t.Fatalf("VERIF-INFRA create trace: %v", err)
	}
	defer f.Close()
	w := bufio.NewWriter(f)
	defer w.Flush()
	emit := func(l vbmLine) {
		if l.T == nil {
			l.T = []int{}
		}
		if l.Digest == nil {
			l.Digest = []int{}
		}
		b, _ := json.Marshal(l)
		w.Write(b)
		w.WriteByte('\n')
	}
	// before anything else has been computed in this process: fixed inputs, then saturated thresholds, then the same
	// inputs again (a value computed once and kept -- a constant, a memo -- must not depend on what was asked before)
	{
		fixed := [][3]uint64{{1, 2, 3}, {1, 4, 1}, {3, 7, 5}, {1, 2, 2}}
		var first []*big.Int
		for _, x := range fixed {
			thr, err := CalculateThreshold(x[0], x[1], int(x[2]))
			if err != nil {
				t.Fatalf("VERIF-INFRA CalculateThreshold%v: %v", x, err)
			}
			first = append(first, vbmU128(thr))
		}
		for _, x := range [][3]uint64{{1, 1, 1}, {5, 5, 3}, {1, 2, 0}} {
			_, _ = CalculateThreshold(x[0], x[1], int(x[2]))
		}
		for i := len(fixed) - 1; i >= 0; i-- {
			x := fixed[i]
			thr, err := CalculateThreshold(x[0], x[1], int(x[2]))
			res.Case("thr-order", fmt.Sprint(x))
			res.Cmp()
			if err != nil || vbmU128(thr).Cmp(first[i]) != 0 {
				res.Fail(-1, i, "thr", "repeat", first[i].String(), fmt.Sprintf("%v err=%v", thr, err), "C25/thr/c<1/not-a-function-of-its-arguments", map[string]any{"c1": x[0], "c2": x[1], "n": x[2]})
			}
		}
	}
	lines := 0
	for _, b := range behs {
		emit(vbmLine{Ev: "reset"})
		lines++
		for si, raw := range b.Steps {
			var st struct {
				O vbmOp `json:"o"`
			}
			if err := json.Unmarshal(raw, &st); err != nil {
				t.Fatalf("VERIF-INFRA step json: %v", err)
			}
			o := st.O
			switch o.Op {
			case "thr":
				var thr *scale.Uint128
				var cerr error
				pm := vTry(func() { thr, cerr = CalculateThreshold(o.C1, o.C2, o.N) })
				cls := "c<1"
				if o.C1 == o.C2 {
					cls = "c=1"
				}
				res.Case("thr", fmt.Sprintf("%d/%d/%d", o.C1, o.C2, o.N))
				res.Cmp()
				if pm != "" || cerr != nil || thr == nil {
					res.Fail(b.ID, si, "thr", "result", "a threshold", fmt.Sprintf("err=%v %s", cerr, pm),
						fmt.Sprintf("C25/thr/%s/%s", cls, map[bool]string{true: "panic", false: "error"}[pm != ""]), []json.RawMessage{raw})
					continue
				}
				T := vbmU128(thr)
				// the threshold is a FUNCTION of (c1, c2, n): ask again after a saturated one (c = 1), after the same c
				// with another authority count, and once more; bit-exact agreement, whatever the tolerance of the
				// numeric bracket TLC checks on the logged value
				var again *scale.Uint128
				pm = vTry(func() {
					_, _ = CalculateThreshold(o.C2, o.C2, o.N)
					_, _ = CalculateThreshold(o.C1, o.C2, o.N+1)
					_, _ = CalculateThreshold(1, 1, 1)
					again, cerr = CalculateThreshold(o.C1, o.C2, o.N)
				})
				res.Cmp()
				if pm != "" || cerr != nil || again == nil || vbmU128(again).Cmp(T) != 0 {
					got := "?"
					if again != nil {
						got = vbmU128(again).String()
					}
					res.Fail(b.ID, si, "thr", "repeat", T.String(), fmt.Sprintf("%s err=%v %s", got, cerr, pm), "C25/thr/"+cls+"/not-a-function-of-its-arguments", []json.RawMessage{raw})
				}
				if lines < 40 {
					res.Sample(map[string]any{"c1": o.C1, "c2": o.C2, "n": o.N, "threshold": T.String()})
				}
				emit(vbmLine{Ev: "thr", C1: o.C1, C2: o.C2, N: o.N, T: vbmDigits(T)})
				lines++
			case "sec":
				if len(o.Limbs) != 4 || len(o.Rnd) != 32 {
					t.Fatalf("VERIF-INFRA sec input shape")
				}
				var slot uint64
				for i, l := range o.Limbs {
					slot |= uint64(l) << (16 * uint(i))
				}
				var rnd Randomness
				copy(rnd[:], o.Rnd.Bytes())
				digest := o.Pre.Bytes() // BLAKE2b-256 of the prescribed preimage, by x/crypto
				if len(digest) != 32 {
					t.Fatalf("VERIF-INFRA token did not resolve to 32 bytes")
				}
				var idx uint32
				var cerr error
				pm := vTry(func() {
					// the author is a FUNCTION of (randomness, slot, n): first ask for the same slot and
					// authority count under another randomness (another fork's epoch), then for the case
					// itself, twice; what is logged for TLC is the last answer, and the two must agree
					other := rnd
					other[0] ^= 0x5a
					other[31] ^= 0xa5
					_, _ = getSecondarySlotAuthor(slot, o.N, other)
					first, e1 := getSecondarySlotAuthor(slot, o.N, rnd)
					idx, cerr = getSecondarySlotAuthor(slot, o.N, rnd)
					if (e1 == nil) != (cerr == nil) || first != idx {
						res.Fail(b.ID, si, "SecondaryAuthor", "repeat", fmt.Sprint(first, e1), fmt.Sprint(idx, cerr), "C25/SecondaryAuthor/not-a-function-of-its-arguments", nil)
					}
				})
				res.Case("sec", fmt.Sprintf("%x/%d/%d", o.Rnd.Bytes()[:4], slot, o.N))
				res.Cmp()
				if pm != "" || cerr != nil {
					res.Fail(b.ID, si, "sec", "result", "an index", fmt.Sprintf("err=%v %s", cerr, pm),
						fmt.Sprintf("C25/sec/%s", map[bool]string{true: "panic", false: "error"}[pm != ""]), []json.RawMessage{raw})
					continue
				}
				d := make([]int, 32)
				for i, x := range digest {
					d[i] = int(x)
				}
				if len(res.Samples) < 3 && si > 0 {
					res.Sample(map[string]any{"randomness": vHex(rnd[:]), "slot": slot, "n": o.N, "digest": vHex(digest), "idx": idx})
				}
				li := int(idx)
				if idx > 1<<30 {
					li = 1 << 30 // keep the trace readable by TLC (32-bit integers); still wrong for every n used
				}
				emit(vbmLine{Ev: "sec", N: o.N, Digest: d, Idx: li})
				lines++
			default:
				t.Fatalf("VERIF-INFRA unknown op %q", o.Op)
			}
		}
	}
	res.Extra["trace_lines"] = lines
}
