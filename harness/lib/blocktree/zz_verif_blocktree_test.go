//go:build verif

// Conformance harness for specs/BlockTree.tla, projection "tree" (C15 block tree structure,
// C16 fork choice).  Replays TLC-generated behaviours against lib/blocktree.BlockTree with
// synthetic headers (BABE pre-digest = primary mark, header hash ground to the hash rank the
// specification prescribes) and compares, after every step, the call's result and EVERY query:
// root, blocks, leaves, best block, and for every pair / number IsDescendantOf,
// LowestCommonAncestor, Range, RangeInMemory, GetHashByNumber, GetHashesAtNumber,
// GetAllDescendants; pruned / unknown hashes must be reported as absent.

package blocktree

import (
	"encoding/json"
	"fmt"
	"sort"
	"strings"
	"testing"
	"time"

	"github.com/ChainSafe/gossamer/dot/types"
	"github.com/ChainSafe/gossamer/lib/common"
	"github.com/ChainSafe/gossamer/lib/runtime"
	"github.com/ChainSafe/gossamer/pkg/scale"
)

// vbtGate is a runtime instance whose only live method is Stop: Prune's one call into foreign code (it stops the
// runtimes of abandoned forks), used as a scheduler gate to start a block import while a finalisation is under way.
type vbtGate struct {
	runtime.Instance
	stop func()
}

func (g *vbtGate) Stop() {
	if g.stop != nil {
		g.stop()
	}
}

// vbtConcurrent: the specification's Finalise and Add are atomic actions; a finalisation and the import of a block
// that overlap in time are therefore one of the two orders, and for an accepted block both orders end in the same
// tree, the one the specification shows after the two steps.  A twin of the tree (same accepted steps) runs
// Prune with an AddBlock started from inside it, and must then show that tree.
func vbtConcurrent(res *vResult, b vBehaviour, si int, prefix []json.RawMessage, base time.Time) {
	var fin, add vbtStep
	if json.Unmarshal(b.Steps[si], &fin) != nil || json.Unmarshal(b.Steps[si+1], &add) != nil {
		return
	}
	gen := vbtHeader(common.Hash{}, 0, 0, false, 3)
	w := &vbtWorld{bt: NewBlockTreeFromRoot(gen), hdr: map[int]*types.Header{0: gen},
		hash: map[int]common.Hash{0: gen.Hash()}, id: map[common.Hash]int{gen.Hash(): 0},
		parent: map[int]int{0: -1}, arrival: map[int]time.Time{}}
	for _, raw := range b.Steps[:si] {
		var s vbtStep
		if json.Unmarshal(raw, &s) != nil {
			return
		}
		switch s.O.Op {
		case "Add":
			hd := vbtHeader(w.h(s.O.P), s.O.N, s.O.B, s.O.Prim, s.O.Hr)
			if w.bt.AddBlock(hd, base.Add(time.Duration(s.O.Arr)*time.Second)) != nil {
				return
			}
			w.hdr[s.O.B], w.hash[s.O.B], w.id[hd.Hash()], w.parent[s.O.B] = hd, hd.Hash(), s.O.B, s.O.P
		case "Finalise":
			w.bt.Prune(w.h(s.O.B))
		}
	}
	o := add.O
	hd := vbtHeader(w.h(o.P), o.N, o.B, o.Prim, o.Hr)
	w.hdr[o.B], w.hash[o.B], w.id[hd.Hash()], w.parent[o.B] = hd, hd.Hash(), o.B, o.P
	done := make(chan error, 1)
	started := false
	gate := &vbtGate{stop: func() {
		if started {
			return
		}
		started = true
		fin := make(chan struct{})
		go func() {
			done <- w.bt.AddBlock(hd, base.Add(time.Duration(o.Arr)*time.Second))
			close(fin)
		}()
		select {
		case <-fin:
		case <-time.After(25 * time.Millisecond):
		}
	}}
	w.bt.StoreRuntime(w.h(fin.O.B), &vbtGate{})
	var other common.Hash
	other[0], other[31] = 0xfd, 0x01
	w.bt.StoreRuntime(other, gate)
	pm := vTry(func() { w.bt.Prune(w.h(fin.O.B)) })
	if pm != "" || !started {
		return // nothing to finalise (root / unknown target): no overlap was produced
	}
	var aerr error
	select {
	case aerr = <-done:
	case <-time.After(10 * time.Second):
		panic("VERIF-INFRA AddBlock started inside Prune did not return")
	}
	pf := append(append([]json.RawMessage{}, prefix...), b.Steps[si+1])
	fail := func(owner, field, exp, got, sig string) {
		res.Fail(b.ID, si+1, "Finalise||Add", field, exp, got, owner+"/"+sig, pf)
	}
	res.Case("Finalise||Add", fmt.Sprintf("%d|%d|%d", fin.O.B, o.B, o.P))
	ob := add.Obs
	res.Cmp()
	if aerr != nil {
		fail("C15", "AddBlock during Prune", "nil", aerr.Error(), "concurrent/Prune-AddBlock/error")
		return
	}
	if all := w.ids(w.bt.GetAllBlocks()); !vbtEq(vbtSorted(all), ob.Live) {
		fail("C15", "GetAllBlocks", fmt.Sprint(ob.Live), fmt.Sprint(vbtSorted(all)), "concurrent/Prune-AddBlock/blocks")
	}
	res.Cmp()
	if lv := w.ids(w.bt.Leaves()); !vbtEq(vbtSorted(lv), ob.Leaves) {
		fail("C15", "Leaves", fmt.Sprint(ob.Leaves), fmt.Sprint(vbtSorted(lv)), "concurrent/Prune-AddBlock/leaves")
	}
	res.Cmp()
	if best := w.bt.BestBlockHash(); best != w.h(ob.Best) {
		cls := "wrong-leaf"
		if id, ok := w.id[best]; !ok || !vbtIn(ob.Leaves, id) {
			cls = "not-a-leaf"
		}
		fail("C16", "BestBlockHash", fmt.Sprint(ob.Best), fmt.Sprint(w.ids([]common.Hash{best})), "concurrent/Prune-AddBlock/BestBlockHash/"+cls)
	}
}

type vbtOp struct {
	Op   string `json:"op"`
	B    int    `json:"b"`
	P    int    `json:"p"`
	N    uint   `json:"n"`
	Prim bool   `json:"prim"`
	Arr  int64  `json:"arr"`
	Hr   int    `json:"hr"`
	R    uint64 `json:"r"`
	S    uint64 `json:"s"`
}

type vbtPair struct {
	A int   `json:"a"`
	B int   `json:"b"`
	D bool  `json:"d"`
	L int   `json:"l"`
	R []int `json:"r"`
}

type vbtObs struct {
	Root    int       `json:"root"`
	RootNum uint      `json:"rootnum"`
	Live    []int     `json:"live"`
	Leaves  []int     `json:"leaves"`
	Best    int       `json:"best"`
	Q       []vbtPair `json:"q"`
	Byn     []int     `json:"byn"`
	Atn     [][]int   `json:"atn"`
	Ds      [][]int   `json:"ds"`
}

type vbtStep struct {
	O   vbtOp `json:"o"`
	Res struct {
		Ok     bool  `json:"ok"`
		Pruned []int `json:"pruned"`
	} `json:"res"`
	Obs vbtObs `json:"obs"`
}

const vbtUnknown = 99

func vbtDigest(primary bool, slot uint64) types.Digest {
	bd := types.NewBabeDigest()
	var err error
	switch {
	case primary:
		err = bd.SetValue(types.BabePrimaryPreDigest{AuthorityIndex: 0, SlotNumber: slot})
	case slot%2 == 0: // "not primary" is either kind of secondary claim
		err = bd.SetValue(types.BabeSecondaryVRFPreDigest{AuthorityIndex: 0, SlotNumber: slot})
	default:
		err = bd.SetValue(types.BabeSecondaryPlainPreDigest{AuthorityIndex: 0, SlotNumber: slot})
	}
	if err != nil {
		panic(err)
	}
	enc, err := scale.Marshal(bd)
	if err != nil {
		panic(err)
	}
	d := types.NewDigest()
	if err := d.Add(types.PreRuntimeDigest{ConsensusEngineID: types.BabeEngineID, Data: enc}); err != nil {
		panic(err)
	}
	return d
}

// vbtHeader builds a header whose hash has hash[0]>>4 == rank, so that the order of the
// hashes of one behaviour is the order of the ranks the specification chose.
func vbtHeader(parent common.Hash, number uint, id int, primary bool, rank int) *types.Header {
	for nonce := 0; ; nonce++ {
		var sr, er common.Hash
		sr[0], sr[1] = byte(id), 0xb7
		er[0], er[1], er[2] = byte(nonce), byte(nonce>>8), byte(nonce>>16)
		h := types.NewHeader(parent, sr, er, number, vbtDigest(primary, uint64(1000+number)))
		if int(h.Hash()[0]>>4) == rank%16 {
			return h
		}
	}
}

type vbtWorld struct {
	bt      *BlockTree
	hdr     map[int]*types.Header
	hash    map[int]common.Hash
	id      map[common.Hash]int
	parent  map[int]int
	arrival map[int]time.Time
}

func (w *vbtWorld) h(id int) common.Hash {
	if h, ok := w.hash[id]; ok {
		return h
	}
	var u common.Hash
	for i := range u {
		u[i] = 0xfe
	}
	u[31] = byte(id)
	return u
}

func (w *vbtWorld) ids(hs []common.Hash) []int {
	out := make([]int, 0, len(hs))
	for _, h := range hs {
		if id, ok := w.id[h]; ok {
			out = append(out, id)
		} else {
			out = append(out, -7)
		}
	}
	return out
}

func vbtSorted(a []int) []int {
	b := append([]int{}, a...)
	sort.Ints(b)
	return b
}

func vbtEq(a, b []int) bool {
	if len(a) != len(b) {
		return false
	}
	for i := range a {
		if a[i] != b[i] {
			return false
		}
	}
	return true
}

func vbtHasDup(a []int) bool {
	s := vbtSorted(a)
	for i := 1; i < len(s); i++ {
		if s[i] == s[i-1] {
			return true
		}
	}
	return false
}

func vbtIn(a []int, x int) bool {
	for _, y := range a {
		if y == x {
			return true
		}
	}
	return false
}

// vbtPruneClass classifies a wrong Prune report.  "after-pruned-sibling": every block that
// is missing from / repeated in the report is, or descends from, a block (abandoned or kept)
// that was inserted after an abandoned sibling -- the shape produced by removing entries from
// a children slice while ranging over it (the next sibling is skipped with its subtree, the
// last one is visited again).
func (w *vbtWorld) vbtPruneClass(exp, got []int) string {
	expS := map[int]bool{}
	for _, x := range exp {
		expS[x] = true
	}
	cnt := map[int]int{}
	for _, x := range got {
		cnt[x]++
	}
	var missing, dup, extra []int
	for _, x := range exp {
		if cnt[x] == 0 {
			missing = append(missing, x)
		}
	}
	for x, c := range cnt {
		if !expS[x] {
			extra = append(extra, x)
		} else if c > 1 {
			dup = append(dup, x)
		}
	}
	afterPrunedSibling := func(x int) bool {
		for y := x; y > 0; y = w.parent[y] {
			for z := range expS {
				if z < y && w.parent[z] == w.parent[y] {
					return true
				}
			}
		}
		return false
	}
	all := func(xs []int) string {
		for _, x := range xs {
			if !afterPrunedSibling(x) {
				return "other"
			}
		}
		return "after-pruned-sibling"
	}
	switch {
	case len(extra) > 0:
		return "reported-kept-or-unknown-block"
	case len(missing) > 0 && len(dup) > 0:
		return "missing-and-duplicate/" + all(append(missing, dup...))
	case len(missing) > 0:
		return "missing/" + all(missing)
	case len(dup) > 0:
		return "duplicate/" + all(dup)
	}
	return "order-only"
}

func TestVerifBlockTree(t *testing.T) {
	prop := vEnvStr("VERIF_PROP", "C15")
	res := vNewResult(prop)
	defer res.Write(t)
	behs := vLoad(t, vIn(t, "behaviours.txt"))
	res.Behaviours = len(behs)
	base := time.Unix(1_700_000_000, 0)
	concurrentBudget := 120
	if vEnvStr("VERIF_TIER", "quick") == "thorough" {
		concurrentBudget = 2000
	}

	for _, b := range behs {
		gen := vbtHeader(common.Hash{}, 0, 0, false, 3)
		w := &vbtWorld{bt: NewBlockTreeFromRoot(gen), hdr: map[int]*types.Header{0: gen},
			hash: map[int]common.Hash{0: gen.Hash()}, id: map[common.Hash]int{gen.Hash(): 0},
			parent: map[int]int{0: -1}, arrival: map[int]time.Time{}}
		var prefix []json.RawMessage
		known := []int{0}
		abandon, abandonLate := false, false
		for si, raw := range b.Steps {
			if abandon || abandonLate {
				break
			}
			var s vbtStep
			if err := json.Unmarshal(raw, &s); err != nil {
				t.Fatalf("VERIF-INFRA step json: %v", err)
			}
			prefix = append(prefix, raw)
			if si == len(b.Steps)-1 {
				res.Sample(map[string]any{"behaviour": b.ID, "last_step": s.O, "res": s.Res, "live": s.Obs.Live, "best": s.Obs.Best})
			}
			o := s.O
			if o.Op == "Finalise" && si+1 < len(b.Steps) && concurrentBudget > 0 {
				var nx vbtStep
				if json.Unmarshal(b.Steps[si+1], &nx) == nil && nx.O.Op == "Add" {
					concurrentBudget--
					vbtConcurrent(res, b, si, prefix, base)
				}
			}
			fail := func(owner, field, exp, got, sig string) {
				res.Fail(b.ID, si, o.Op, field, exp, got, owner+"/"+sig, prefix)
			}
			res.Case(o.Op, fmt.Sprintf("%d|%d|%v|%d|%v|%v", o.B, o.P, o.Prim, o.Arr, s.Obs.Live, s.Res.Pruned))

			// ---- the call ------------------------------------------------------------
			pm := vTry(func() {
				switch o.Op {
				case "Add", "AddOrphan", "AddWrongNum", "AddNoDigest":
					hd := vbtHeader(w.h(o.P), o.N, o.B, o.Prim, o.Hr)
					if o.Op == "AddNoDigest" {
						hd = types.NewHeader(hd.ParentHash, hd.StateRoot, hd.ExtrinsicsRoot, hd.Number, types.NewDigest())
					}
					at := base.Add(time.Duration(o.Arr) * time.Second)
					err := w.bt.AddBlock(hd, at)
					res.Cmp()
					if o.Op == "Add" {
						if err != nil {
							fail("C15", "err", "nil", err.Error(), "AddBlock/parent-in-tree/error")
							abandon = true
							return
						}
						w.hdr[o.B], w.hash[o.B], w.id[hd.Hash()], w.parent[o.B], w.arrival[o.B] = hd, hd.Hash(), o.B, o.P, at
						known = append(known, o.B)
					} else if err == nil {
						cls := "parent-not-in-tree"
						if o.Op == "AddWrongNum" {
							cls = "wrong-number"
						} else if o.Op == "AddNoDigest" {
							cls = "no-babe-pre-digest"
						}
						fail("C15", "err", "an error (block must be rejected)", "nil", "AddBlock/"+cls+"/accepted")
						abandon = true
					} else {
						// "must keep no trace of it": a refused block is not reachable from the root, whatever the leaf set says
						// (a trace only shows later, when Prune rebuilds the leaves from the structure)
						res.Cmp()
						traced := w.bt.root.getNode(hd.Hash()) != nil
						for _, h := range w.bt.GetAllBlocks() {
							if h == hd.Hash() {
								traced = true
							}
						}
						if traced {
							// it breaks "holds exactly the added blocks" (C15) and, once the leaves are rebuilt, "the best block is a
							// leaf of the accepted blocks" (C16): reported under whichever of the two is being checked
							owner := vEnvStr("VERIF_PROP", "C15")
							if owner != "C16" {
								owner = "C15"
							}
							fail(owner, "tree", "refused block not in the tree", "refused block is linked under its parent", "AddBlock/"+strings.TrimPrefix(o.Op, "Add")+"/refused-but-linked")
							abandon = true
						}
					}
				case "AddDup":
					// the same block delivered again, LATER than every arrival so far (a second peer announcing it)
					err := w.bt.AddBlock(w.hdr[o.B], base.Add(time.Duration(100000+si)*time.Second))
					res.Cmp()
					if err == nil {
						fail("C15", "err", "an error (block is already in the tree)", "nil", "AddBlock/duplicate/accepted")
						// the tree is observed once more before the behaviour is given up: a block that is already there keeps its
						// first arrival, so the fork choice does not move (C16)
						abandonLate = true
					}
				case "Finalise":
					cls := "not-in-tree"
					if pi := len(prefix); pi > 0 {
						// class of the target in the tree BEFORE the step: root / leaf / inner
						if si > 0 {
							var ps vbtStep
							_ = json.Unmarshal(prefix[si-1], &ps)
							if o.B == ps.Obs.Root {
								cls = "root"
							} else if vbtIn(ps.Obs.Leaves, o.B) {
								cls = "leaf"
							} else if vbtIn(ps.Obs.Live, o.B) {
								cls = "inner"
							}
						} else if o.B == 0 {
							cls = "root"
						}
					}
					got := w.ids(w.bt.Prune(w.h(o.B)))
					res.Cmp()
					if !vbtEq(vbtSorted(got), vbtSorted(s.Res.Pruned)) {
						fail("C15", "pruned", fmt.Sprint(s.Res.Pruned), fmt.Sprint(got),
							"Prune/"+cls+"/"+w.vbtPruneClass(s.Res.Pruned, got))
					}
				default:
					t.Fatalf("VERIF-INFRA unknown op %q", o.Op)
				}
			})
			if pm != "" {
				fail("C15", "panic", "no panic", pm, o.Op+"/panic")
				abandon = true
				break
			}
			if abandon {
				break
			}

			// ---- every query after the step ---------------------------------------------
			ob := s.Obs
			structural := false
			sfail := func(owner, field, exp, got, sig string) {
				fail(owner, field, exp, got, sig)
				// a by-number listing that is merely incomplete does not invalidate the rest
				if owner == "C15" && !strings.HasPrefix(sig, "GetHashesAtNumber/above-best-number") {
					structural = true
				}
			}
			pm = vTry(func() {
				bt := w.bt
				res.Cmp()
				if bt.root.hash != w.h(ob.Root) {
					sfail("C15", "root", fmt.Sprint(ob.Root), fmt.Sprint(w.ids([]common.Hash{bt.root.hash})), "root/"+o.Op)
				}
				if bt.root.number != ob.RootNum {
					sfail("C15", "root.number", fmt.Sprint(ob.RootNum), fmt.Sprint(bt.root.number), "root-number/"+o.Op)
				}
				all := w.ids(bt.GetAllBlocks())
				res.Cmp()
				if !vbtEq(vbtSorted(all), ob.Live) {
					sfail("C15", "GetAllBlocks", fmt.Sprint(ob.Live), fmt.Sprint(vbtSorted(all)), "blocks/"+o.Op)
				}
				lv := w.ids(bt.Leaves())
				res.Cmp()
				if !vbtEq(vbtSorted(lv), ob.Leaves) {
					sfail("C15", "Leaves", fmt.Sprint(ob.Leaves), fmt.Sprint(vbtSorted(lv)), "leaves/"+o.Op)
				}
				best := bt.BestBlockHash()
				res.Cmp()
				if best != w.h(ob.Best) {
					cls := "wrong-leaf"
					if id, ok := w.id[best]; !ok || !vbtIn(ob.Leaves, id) {
						cls = "not-a-leaf"
					}
					fail("C16", "BestBlockHash", fmt.Sprint(ob.Best), fmt.Sprint(w.ids([]common.Hash{best})), "BestBlockHash/"+cls)
				}
				for _, q := range ob.Q {
					ha, hb := w.h(q.A), w.h(q.B)
					d, err := bt.IsDescendantOf(ha, hb)
					res.Cmp()
					if err != nil || d != q.D {
						sfail("C15", fmt.Sprintf("IsDescendantOf(%d,%d)", q.A, q.B), fmt.Sprint(q.D), fmt.Sprint(d, err), "IsDescendantOf/in-tree")
					}
					l, err := bt.LowestCommonAncestor(ha, hb)
					res.Cmp()
					if err != nil || l != w.h(q.L) {
						sfail("C15", fmt.Sprintf("LowestCommonAncestor(%d,%d)", q.A, q.B), fmt.Sprint(q.L), fmt.Sprint(w.ids([]common.Hash{l}), err), "LowestCommonAncestor/in-tree")
					}
					if q.D {
						r1, err1 := bt.Range(ha, hb)
						r2, err2 := bt.RangeInMemory(ha, hb)
						res.Cmp()
						if err1 != nil || !vbtEq(w.ids(r1), q.R) {
							sfail("C15", fmt.Sprintf("Range(%d,%d)", q.A, q.B), fmt.Sprint(q.R), fmt.Sprint(w.ids(r1), err1), "Range/ancestor-to-descendant")
						}
						if err2 != nil || !vbtEq(w.ids(r2), q.R) {
							sfail("C15", fmt.Sprintf("RangeInMemory(%d,%d)", q.A, q.B), fmt.Sprint(q.R), fmt.Sprint(w.ids(r2), err2), "RangeInMemory/ancestor-to-descendant")
						}
					} else {
						// start is not an ancestor of end: the statement does not say what a range is
						// then; only panics are observations.
						_, _ = bt.Range(ha, hb)
						_, _ = bt.RangeInMemory(ha, hb)
					}
				}
				// by number, on the best chain
				for i, id := range ob.Byn {
					h, err := bt.GetHashByNumber(ob.RootNum + uint(i))
					res.Cmp()
					if err != nil || h != w.h(id) {
						sfail("C15", fmt.Sprintf("GetHashByNumber(%d)", ob.RootNum+uint(i)), fmt.Sprint(id), fmt.Sprint(w.ids([]common.Hash{h}), err), "GetHashByNumber/on-best-chain")
					}
				}
				if _, err := bt.GetHashByNumber(ob.RootNum + uint(len(ob.Byn))); err == nil {
					sfail("C15", "GetHashByNumber(best+1)", "error", "nil", "GetHashByNumber/above-best/no-error")
				}
				if ob.RootNum > 0 {
					if _, err := bt.GetHashByNumber(ob.RootNum - 1); err == nil {
						sfail("C15", "GetHashByNumber(root-1)", "error", "nil", "GetHashByNumber/below-root/no-error")
					}
				}
				bestNum := ob.RootNum + uint(len(ob.Byn)) - 1
				for i, exp := range ob.Atn {
					n := ob.RootNum + uint(i)
					got := w.ids(bt.GetHashesAtNumber(n))
					res.Cmp()
					if !vbtEq(vbtSorted(got), exp) {
						cls := "upto-best-number"
						if n > bestNum {
							cls = "above-best-number"
						}
						sfail("C15", fmt.Sprintf("GetHashesAtNumber(%d)", n), fmt.Sprint(exp), fmt.Sprint(vbtSorted(got)), "GetHashesAtNumber/"+cls)
					}
				}
				if got := bt.GetHashesAtNumber(ob.RootNum + uint(len(ob.Atn))); len(got) != 0 {
					sfail("C15", "GetHashesAtNumber(max+1)", "[]", fmt.Sprint(w.ids(got)), "GetHashesAtNumber/above-highest")
				}
				for i, exp := range ob.Ds {
					d, err := bt.GetAllDescendants(w.h(ob.Live[i]))
					res.Cmp()
					if err != nil || !vbtEq(vbtSorted(w.ids(d)), exp) {
						sfail("C15", fmt.Sprintf("GetAllDescendants(%d)", ob.Live[i]), fmt.Sprint(exp), fmt.Sprint(vbtSorted(w.ids(d)), err), "GetAllDescendants/in-tree")
					}
				}
				for _, id := range ob.Live {
					if id == 0 {
						continue
					}
					at, err := bt.GetArrivalTime(w.h(id))
					res.Cmp()
					if err != nil || !at.Equal(w.arrival[id]) {
						sfail("C15", fmt.Sprintf("GetArrivalTime(%d)", id), fmt.Sprint(w.arrival[id]), fmt.Sprint(at, err), "GetArrivalTime/in-tree")
					}
				}
				// blocks that are not (or no longer) in the tree must be reported absent
				probe := ob.Live[len(ob.Live)-1]
				for _, x := range append(append([]int{}, known...), vbtUnknown) {
					if vbtIn(ob.Live, x) {
						continue
					}
					hx, hp := w.h(x), w.h(probe)
					res.Cmp()
					if _, err := bt.IsDescendantOf(hx, hp); err == nil {
						sfail("C15", fmt.Sprintf("IsDescendantOf(%d,%d)", x, probe), "error", "nil", "IsDescendantOf/not-in-tree/no-error")
					}
					if _, err := bt.IsDescendantOf(hp, hx); err == nil {
						sfail("C15", fmt.Sprintf("IsDescendantOf(%d,%d)", probe, x), "error", "nil", "IsDescendantOf/not-in-tree/no-error")
					}
					if _, err := bt.LowestCommonAncestor(hx, hp); err == nil {
						sfail("C15", fmt.Sprintf("LowestCommonAncestor(%d,%d)", x, probe), "error", "nil", "LowestCommonAncestor/not-in-tree/no-error")
					}
					if _, err := bt.RangeInMemory(hx, hp); err == nil {
						sfail("C15", fmt.Sprintf("RangeInMemory(%d,%d)", x, probe), "error", "nil", "RangeInMemory/not-in-tree/no-error")
					}
					if _, err := bt.Range(hp, hx); err == nil {
						sfail("C15", fmt.Sprintf("Range(%d,%d)", probe, x), "error", "nil", "Range/end-not-in-tree/no-error")
					}
					if _, err := bt.GetAllDescendants(hx); err == nil {
						sfail("C15", fmt.Sprintf("GetAllDescendants(%d)", x), "error", "nil", "GetAllDescendants/not-in-tree/no-error")
					}
					if _, err := bt.GetArrivalTime(hx); err == nil {
						sfail("C15", fmt.Sprintf("GetArrivalTime(%d)", x), "error", "nil", "GetArrivalTime/not-in-tree/no-error")
					}
				}
			})
			if pm != "" {
				fail("C15", "panic", "no panic", pm, "query/panic/"+o.Op)
				abandon = true
			}
			if structural {
				// the tree itself disagrees with the specification: later steps of this behaviour
				// would only repeat the disagreement
				abandon = true
			}
		}
	}
}
