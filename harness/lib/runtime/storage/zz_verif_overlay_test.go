//go:build verif

// Conformance harness for specs/Overlay.tla (C08).
// Replays TLC-generated behaviours against a real TrieState over a real InMemoryTrie.
// After EVERY step it compares the call's result and the whole readable state
// (TrieEntries of main storage, every key of every child trie through GetChildStorage);
// whenever no transaction is open it also compares the entries of the underlying trie
// (including the child-root entries), every child root and the state root.
// After a disagreement the real object is rebuilt from the specification's state
// (backend + the exact overlay diffs of every open transaction) so that one recorded
// finding does not hide the rest of the behaviour.

package storage

import (
	"bytes"
	"encoding/binary"
	"encoding/json"
	"errors"
	"fmt"
	"sort"
	"strings"
	"testing"
	"time"

	"github.com/ChainSafe/gossamer/pkg/trie"
	inmemory_trie "github.com/ChainSafe/gossamer/pkg/trie/inmemory"
	"golang.org/x/crypto/blake2b"
)

type voOp struct {
	Op string `json:"op"`
	K  VB     `json:"k"`
	V  VB     `json:"v"`
	P  VB     `json:"p"`
	C  VB     `json:"c"`
	N  uint32 `json:"n"`
}

type voChildJ struct {
	C   VB      `json:"c"`
	E   [][2]VB `json:"e"`
	Set [][2]VB `json:"set"`
	Del []VB    `json:"del"`
}

type voStateJ struct {
	M [][2]VB    `json:"m"`
	K []voChildJ `json:"k"`
}

type voDiffJ struct {
	Mset [][2]VB    `json:"mset"`
	Mdel []VB       `json:"mdel"`
	K    []voChildJ `json:"k"`
}

type voObs struct {
	Nest  int       `json:"nest"`
	Base  voStateJ  `json:"base"`
	Diffs []voDiffJ `json:"diffs"`
	Roots struct {
		Root   VB   `json:"root"`
		Croots []VB `json:"croots"`
	} `json:"roots"`
}

type voStep struct {
	O   voOp `json:"o"`
	Res struct {
		Found      bool `json:"found"`
		V          VB   `json:"v"`
		K          VB   `json:"k"`
		Keys       []VB `json:"keys"`
		Deleted    int  `json:"deleted"`
		AllDeleted bool `json:"allDeleted"`
	} `json:"res"`
	Obs voObs `json:"obs"`
}

// ---- plain Go mirror of the specification's state -----------------------------------

type voMap map[string][]byte

type voState struct {
	m voMap
	k map[string]voMap
}

type voDiff struct {
	mset voMap
	mdel map[string]bool
	kset map[string]voMap
	kdel map[string]map[string]bool
}

func voEntries(e [][2]VB) voMap {
	m := voMap{}
	for _, p := range e {
		v := p[1].Bytes()
		if v == nil {
			v = []byte{}
		}
		m[string(p[0].Bytes())] = v
	}
	return m
}

func voKeySet(ks []VB) map[string]bool {
	m := map[string]bool{}
	for _, k := range ks {
		m[string(k.Bytes())] = true
	}
	return m
}

func voStateOf(j voStateJ) voState {
	s := voState{m: voEntries(j.M), k: map[string]voMap{}}
	for _, c := range j.K {
		s.k[string(c.C.Bytes())] = voEntries(c.E)
	}
	return s
}

func voDiffOf(j voDiffJ) voDiff {
	d := voDiff{mset: voEntries(j.Mset), mdel: voKeySet(j.Mdel), kset: map[string]voMap{}, kdel: map[string]map[string]bool{}}
	for _, c := range j.K {
		d.kset[string(c.C.Bytes())] = voEntries(c.Set)
		d.kdel[string(c.C.Bytes())] = voKeySet(c.Del)
	}
	return d
}

func voOver(b voMap, set voMap, del map[string]bool) voMap {
	out := voMap{}
	for k, v := range b {
		if !del[k] {
			out[k] = v
		}
	}
	for k, v := range set {
		out[k] = v
	}
	return out
}

// voView is what reads must observe: backend seen through the innermost diff.
func voView(o voObs) voState {
	b := voStateOf(o.Base)
	if len(o.Diffs) == 0 {
		return b
	}
	d := voDiffOf(o.Diffs[len(o.Diffs)-1])
	v := voState{m: voOver(b.m, d.mset, d.mdel), k: map[string]voMap{}}
	for c, bm := range b.k {
		v.k[c] = voOver(bm, d.kset[c], d.kdel[c])
	}
	return v
}

func voTopDiff(o voObs) voDiff {
	if len(o.Diffs) == 0 {
		return voDiff{mset: voMap{}, mdel: map[string]bool{}, kset: map[string]voMap{}, kdel: map[string]map[string]bool{}}
	}
	return voDiffOf(o.Diffs[len(o.Diffs)-1])
}

func voMapString(m voMap) string {
	ks := make([]string, 0, len(m))
	for k := range m {
		ks = append(ks, k)
	}
	sort.Strings(ks)
	var b strings.Builder
	for _, k := range ks {
		fmt.Fprintf(&b, "%x=%x;", k, m[k])
	}
	return b.String()
}

func voSorted(m map[string]voMap) []string {
	ks := make([]string, 0, len(m))
	for k := range m {
		ks = append(ks, k)
	}
	sort.Strings(ks)
	return ks
}

func voMatching(m voMap, p []byte) []string {
	var out []string
	for k := range m {
		if bytes.HasPrefix([]byte(k), p) {
			out = append(out, k)
		}
	}
	sort.Strings(out)
	return out
}

// ---- token resolution with child-root placeholders ----------------------------------

// voResolve is vResolve plus substitution of the placeholders Rep(32, 240+i) by the
// expected child roots, applied at every level BEFORE hashing.
func voResolve(s []int, subst map[byte][]byte) []byte {
	out := make([]byte, 0, len(s))
	i := 0
	for i < len(s) {
		if s[i] == -1 {
			n := s[i+1]
			inner := voResolve(s[i+2:i+2+n], subst)
			h := blake2b.Sum256(inner)
			out = append(out, h[:]...)
			i += 2 + n
			continue
		}
		b := byte(s[i])
		if r, ok := subst[b]; ok && i+32 <= len(s) {
			run := true
			for j := i; j < i+32; j++ {
				if s[j] != int(b) {
					run = false
					break
				}
			}
			if run {
				out = append(out, r...)
				i += 32
				continue
			}
		}
		out = append(out, b)
		i++
	}
	return out
}

// ---- driving the real object ----------------------------------------------------------

type voReal struct {
	ts    *TrieState
	names []string // child names
	ckeys []string // child key alphabet
}

// voBuild creates a TrieState holding exactly the specification's state: backend put
// directly into a fresh trie, then one StartTransaction per open transaction followed by
// the basic operations that produce that transaction's cumulative diff.
func voBuild(o voObs) (*TrieState, error) {
	tr := inmemory_trie.NewEmptyTrie()
	b := voStateOf(o.Base)
	for k, v := range b.m {
		if err := tr.Put([]byte(k), v); err != nil {
			return nil, err
		}
	}
	for _, c := range voSorted(b.k) {
		for k, v := range b.k[c] {
			if err := tr.PutIntoChild([]byte(c), []byte(k), v); err != nil {
				return nil, err
			}
		}
	}
	ts := NewTrieState(tr)
	for _, dj := range o.Diffs {
		d := voDiffOf(dj)
		ts.StartTransaction()
		// main namespace first: storageDiff.delete(k) also drops pending changes of a child named k
		for k, v := range d.mset {
			if err := ts.Put([]byte(k), v); err != nil {
				return nil, err
			}
		}
		for k := range d.mdel {
			if err := ts.Delete([]byte(k)); err != nil {
				return nil, err
			}
		}
		for _, c := range voSorted(d.kset) {
			for k, v := range d.kset[c] {
				if err := ts.SetChildStorage([]byte(c), []byte(k), v); err != nil {
					return nil, err
				}
			}
			for k := range d.kdel[c] {
				if err := ts.ClearChildStorage([]byte(c), []byte(k)); err != nil {
					return nil, err
				}
			}
		}
	}
	return ts, nil
}

func voIsChildKey(k string) bool {
	return strings.HasPrefix(k, string(inmemory_trie.ChildStorageKeyPrefix))
}

// voProject reads the whole observable state of the real object.
func (r *voReal) project() (main voMap, kids map[string]voMap, err string) {
	kids = map[string]voMap{}
	pm := vTry(func() {
		main = voMap{}
		for k, v := range r.ts.TrieEntries() {
			if voIsChildKey(k) {
				continue
			}
			if v == nil {
				v = []byte{}
			}
			main[k] = v
		}
		for _, c := range r.names {
			cm := voMap{}
			for _, k := range r.ckeys {
				v, e := r.ts.GetChildStorage([]byte(c), []byte(k))
				if e != nil && !errors.Is(e, trie.ErrChildTrieDoesNotExist) {
					panic(fmt.Sprintf("GetChildStorage(%x,%x): %v", c, k, e))
				}
				if v != nil {
					cm[k] = v
				}
			}
			kids[c] = cm
		}
	})
	return main, kids, pm
}

func voHasPrefixKey(set voMap, p []byte) bool {
	for k := range set {
		if bytes.HasPrefix([]byte(k), p) {
			return true
		}
	}
	return false
}

// voClass computes the input class of an operation from the specification's state
// BEFORE the step.  Each feature names one mechanism of storageDiff / TrieState that the
// operation touches; "plain" = none of them.
func voClass(o voOp, pre voObs, reset bool) (ctx string, class string) {
	ctx = "direct"
	if pre.Nest > 0 {
		ctx = "in-tx"
	}
	base := voStateOf(pre.Base)
	view := voView(pre)
	d := voTopDiff(pre)
	k, p, c := string(o.K.Bytes()), o.P.Bytes(), string(o.C.Bytes())
	var f []string
	add := func(cond bool, name string) {
		if cond {
			f = append(f, name)
		}
	}
	childHasOverlay := func(name string) bool { return len(d.kset[name])+len(d.kdel[name]) > 0 }
	_, isChildName := base.k[k]
	limitClass := func(b voMap, set voMap, pfx []byte, n uint32) {
		_, eq := b[string(pfx)]
		_, ups := set[string(pfx)]
		add(eq && !ups && len(pfx) > 0, "backend-key-eq-prefix")
		if o.Op == "ClearPrefixLimit" || o.Op == "CClearPrefixLimit" || o.Op == "DeleteChildLimit" {
			add(voHasPrefixKey(set, pfx) && int(n) <= len(voMatching(b, pfx)), "overlay-upsert-matches+limit-binds")
		}
	}
	switch o.Op {
	case "Delete":
		add(pre.Nest > 0 && isChildName && childHasOverlay(k), "key-names-child-with-overlay")
	case "ClearPrefix", "ClearPrefixLimit":
		if pre.Nest > 0 {
			limitClass(base.m, d.mset, p, o.N)
			hit := false
			for name := range base.k {
				if bytes.HasPrefix([]byte(name), p) && childHasOverlay(name) {
					hit = true
				}
			}
			add(hit, "clears-key-naming-child-with-overlay")
		}
	case "CSet":
		_, inBase := base.m[c]
		add(pre.Nest > 0 && d.mdel[c] && inBase, "name-tombstoned-in-main")
	case "CClearPrefix", "CClearPrefixLimit":
		if pre.Nest > 0 {
			limitClass(base.k[c], d.kset[c], p, o.N)
		} else {
			add(len(base.k[c]) > 0, "child-in-backend")
		}
	case "DeleteChild", "DeleteChildAll":
		if pre.Nest > 0 {
			_, isMain := view.m[c]
			add(isMain, "name-is-main-key")
			add(len(base.k[c]) > 0, "child-in-backend")
		}
	case "DeleteChildLimit":
		if pre.Nest > 0 {
			limitClass(base.k[c], d.kset[c], nil, o.N)
		} else {
			add(len(base.k[c]) > 0, "child-in-backend")
		}
	case "CNextKey", "CGet":
		add(pre.Nest > 0 && d.mdel[c], "name-tombstoned-in-main")
	case "CKeys":
		add(pre.Nest > 0 && d.mdel[c], "name-tombstoned-in-main")
		add(pre.Nest > 0 && len(base.k[c]) > 0 && childHasOverlay(c), "child-in-backend+child-has-overlay")
	case "Commit":
		if pre.Nest == 1 {
			ctx = "outermost"
			hit := false
			for name := range base.k {
				if d.mdel[name] && len(view.k[name]) > 0 {
					hit = true
				}
			}
			add(hit, "main-tombstone-names-live-child")
			// storageDiff.upsertChild leaves the key in the child's `deletes`; applyToTrie
			// puts the value and then clears it again
			add(reset, "child-key-deleted-then-set")
		} else {
			ctx = "nested"
		}
	case "Start", "Rollback":
		ctx = fmt.Sprintf("nest-%d", pre.Nest)
	}
	// two child tries with equal non-empty contents (before or after the step) share one
	// entry of InMemoryTrie.childTries, which is keyed by the child root
	if len(f) == 0 {
		return ctx, "plain"
	}
	return ctx, strings.Join(f, "+")
}

func voEqualChildren(s voState) bool {
	seen := map[string]bool{}
	for _, m := range s.k {
		if len(m) == 0 {
			continue
		}
		e := voMapString(m)
		if seen[e] {
			return true
		}
		seen[e] = true
	}
	return false
}

func voLimitBytes(n uint32) *[]byte {
	b := make([]byte, 4)
	binary.LittleEndian.PutUint32(b, n)
	return &b
}

func TestVerifOverlay(t *testing.T) {
	res := vNewResult("C08")
	defer res.Write(t)
	behs := vLoad(t, vIn(t, "behaviours.txt"))
	res.Behaviours = len(behs)
	abandoned := 0
	for _, b := range behs {
		steps := make([]voStep, len(b.Steps))
		for i, raw := range b.Steps {
			if err := json.Unmarshal(raw, &steps[i]); err != nil {
				t.Fatalf("VERIF-INFRA step json: %v", err)
			}
		}
		if len(steps) == 0 {
			continue
		}
		// alphabets of this behaviour
		r := &voReal{}
		for _, c := range steps[0].Obs.Base.K {
			r.names = append(r.names, string(c.C.Bytes()))
		}
		ck := map[string]bool{}
		for _, s := range steps {
			switch s.O.Op {
			case "CSet", "CClear", "CGet", "CNextKey":
				ck[string(s.O.K.Bytes())] = true
			}
		}
		for k := range ck {
			r.ckeys = append(r.ckeys, k)
		}
		sort.Strings(r.ckeys)
		r.ts = NewTrieState(inmemory_trie.NewEmptyTrie())

		pre := voObs{}
		for _, c := range steps[0].Obs.Base.K { // the initial state: every child trie empty
			pre.Base.K = append(pre.Base.K, voChildJ{C: c.C})
		}
		var prefix []json.RawMessage
		var reset []map[string]bool // per open transaction: "child|key" tombstoned, then set again
		for si, s := range steps {
			prefix = append(prefix, b.Steps[si])
			if si == 0 {
				res.Sample(b.Steps[:min(len(b.Steps), 8)])
			}
			o := s.O
			// mirror of "key is in both upserts and deletes of a child diff", per open transaction
			if pre.Nest > 0 && len(reset) != pre.Nest {
				t.Fatalf("VERIF-INFRA reset stack %d nest %d", len(reset), pre.Nest)
			}
			topReset := false
			if pre.Nest > 0 {
				topReset = len(reset[pre.Nest-1]) > 0
			}
			ctx, class := voClass(o, pre, topReset)
			expView := voView(s.Obs)
			if voEqualChildren(expView) || voEqualChildren(voView(pre)) || voEqualChildren(voStateOf(s.Obs.Base)) {
				class += "+equal-children"
			}
			sigBase := "C08/" + o.Op + "/" + ctx + "/" + class + "/"
			failed := false
			fail := func(field, exp, got, fieldClass string) {
				if failed {
					return // one disagreement per step: the first observation that differs
				}
				res.Fail(b.ID, si, o.Op, field, exp, got, sigBase+fieldClass, prefix)
				failed = true
			}
			failForeign := func(field, exp, got, sig string) {
				if failed {
					return
				}
				res.Fail(b.ID, si, o.Op, field, exp, got, sig, prefix)
				failed = true
			}
			k, v, p, c := o.K.Bytes(), o.V.Bytes(), o.P.Bytes(), o.C.Bytes()
			if v == nil {
				v = []byte{}
			}
			if k == nil {
				k = []byte{}
			}
			if p == nil {
				p = []byte{}
			}
			preView := voView(pre)
			res.Case(o.Op, fmt.Sprintf("%s|%s|%x|%x|%x|%x|%d|%s", ctx, class, k, v, p, c, o.N, voMapString(preView.m)))
			checkErr := func(err error) {
				if err != nil {
					fail("err", "nil", err.Error(), "error")
				}
			}
			// result of a limited clear: compared only with no open transaction (C02 semantics)
			checkLimit := func(del uint32, all bool, err error, childExists bool) {
				if err != nil {
					if errors.Is(err, trie.ErrChildTrieDoesNotExist) && !childExists {
						return // absent child trie: error-versus-empty is not pinned down
					}
					fail("err", "nil", err.Error(), "error")
					return
				}
				if pre.Nest > 0 {
					return
				}
				res.Cmp()
				if int(del) != s.Res.Deleted || all != s.Res.AllDeleted {
					fail("result", fmt.Sprintf("%d %v", s.Res.Deleted, s.Res.AllDeleted), fmt.Sprintf("%d %v", del, all), "result")
				}
			}
			ts := r.ts
			pm, hung := vGuard(20*time.Second, func() {
				switch o.Op {
				case "Start":
					ts.StartTransaction()
				case "Commit":
					ts.CommitTransaction()
				case "Rollback":
					ts.RollbackTransaction()
				case "Put":
					checkErr(ts.Put(k, v))
				case "Delete":
					checkErr(ts.Delete(k))
				case "ClearPrefix":
					checkErr(ts.ClearPrefix(p))
				case "ClearPrefixLimit":
					del, all, err := ts.ClearPrefixLimit(p, o.N)
					checkLimit(del, all, err, true)
				case "CSet":
					checkErr(ts.SetChildStorage(c, k, v))
				case "CClear":
					err := ts.ClearChildStorage(c, k)
					if err != nil && !(errors.Is(err, trie.ErrChildTrieDoesNotExist) && len(preView.k[string(c)]) == 0) {
						checkErr(err)
					}
				case "CClearPrefix":
					err := ts.ClearPrefixInChild(c, p)
					if err != nil && !(errors.Is(err, trie.ErrChildTrieDoesNotExist) && len(preView.k[string(c)]) == 0) {
						checkErr(err)
					}
				case "CClearPrefixLimit":
					del, all, err := ts.ClearPrefixInChildWithLimit(c, p, o.N)
					if pre.Nest == 0 && len(preView.k[string(c)]) == 0 {
						break // absent child trie: (0, false, nil) or an error; not pinned down
					}
					checkLimit(del, all, err, len(preView.k[string(c)]) > 0)
				case "DeleteChild":
					checkErr(ts.DeleteChild(c))
				case "DeleteChildAll":
					_, _, err := ts.DeleteChildLimit(c, nil)
					if err != nil && !(errors.Is(err, trie.ErrChildTrieDoesNotExist) && len(preView.k[string(c)]) == 0) {
						checkErr(err)
					}
				case "DeleteChildLimit":
					del, all, err := ts.DeleteChildLimit(c, voLimitBytes(o.N))
					checkLimit(del, all, err, len(preView.k[string(c)]) > 0)
				case "Get":
					got := ts.Get(k)
					res.Cmp()
					if s.Res.Found != (got != nil) || (s.Res.Found && !bytes.Equal(got, s.Res.V.Bytes())) {
						fail("value", fmt.Sprintf("%v %x", s.Res.Found, s.Res.V.Bytes()), fmt.Sprintf("%v %x", got != nil, got), "result")
					}
				case "NextKey":
					got := ts.NextKey(k)
					res.Cmp()
					if s.Res.Found != (got != nil) || (s.Res.Found && !bytes.Equal(got, s.Res.K.Bytes())) {
						fail("next", fmt.Sprintf("%v %x", s.Res.Found, s.Res.K.Bytes()), fmt.Sprintf("%v %x", got != nil, got), "result")
					}
				case "CGet":
					got, err := ts.GetChildStorage(c, k)
					if err != nil && !errors.Is(err, trie.ErrChildTrieDoesNotExist) {
						checkErr(err)
						break
					}
					res.Cmp()
					if s.Res.Found != (got != nil) || (s.Res.Found && !bytes.Equal(got, s.Res.V.Bytes())) {
						fail("value", fmt.Sprintf("%v %x", s.Res.Found, s.Res.V.Bytes()), fmt.Sprintf("%v %x", got != nil, got), "result")
					}
				case "CNextKey":
					got, err := ts.GetChildNextKey(c, k)
					if err != nil && !errors.Is(err, trie.ErrChildTrieDoesNotExist) {
						checkErr(err)
						break
					}
					res.Cmp()
					if s.Res.Found != (got != nil) || (s.Res.Found && !bytes.Equal(got, s.Res.K.Bytes())) {
						fail("next", fmt.Sprintf("%v %x", s.Res.Found, s.Res.K.Bytes()), fmt.Sprintf("%v %x err=%v", got != nil, got, err), "result")
					}
				case "CKeys":
					got, err := ts.GetKeysWithPrefixFromChild(c, p)
					if err != nil && !errors.Is(err, trie.ErrChildTrieDoesNotExist) {
						checkErr(err)
						break
					}
					res.Cmp()
					// the order of a child key listing is not pinned down: compared as a set
					var gs, es []string
					for _, g := range got {
						gs = append(gs, fmt.Sprintf("%x", g))
					}
					for _, e := range s.Res.Keys {
						es = append(es, fmt.Sprintf("%x", e.Bytes()))
					}
					sort.Strings(gs)
					sort.Strings(es)
					if strings.Join(gs, ",") != strings.Join(es, ",") {
						fail("keys", strings.Join(es, ","), strings.Join(gs, ",")+fmt.Sprintf(" err=%v", err), "result")
					}
				default:
					panic("VERIF-INFRA unknown op " + o.Op)
				}
			})
			if hung {
				t.Fatalf("VERIF-INFRA step did not return within 20 s: behaviour %d step %d op %s", b.ID, si, o.Op)
			}
			if strings.Contains(pm, "VERIF-INFRA") {
				t.Fatalf("%s", pm)
			}
			if pm != "" {
				fail("panic", "no panic", pm, "panic")
			}

			// ---- the whole readable state, after every step ----
			if !failed {
				main, kids, ppm := r.project()
				if ppm != "" {
					fail("panic", "no panic", ppm, "observe-panic")
				} else {
					res.Cmp()
					if g, e := voMapString(main), voMapString(expView.m); g != e {
						// with no open transaction a limited main clear is C02's operation
						if pre.Nest == 0 && o.Op == "ClearPrefixLimit" && len(main) == len(expView.m) {
							failForeign("main", e, g, "C02/ClearPrefixLimit/self/order/not-smallest-first")
						} else {
							fail("main", e, g, "main")
						}
					}
					for _, c := range r.names {
						res.Cmp()
						if g, e := voMapString(kids[c]), voMapString(expView.k[c]); g != e {
							if pre.Nest == 0 && o.Op == "CClearPrefixLimit" && len(kids[c]) == len(expView.k[c]) {
								failForeign("child", e, g, "C02/ClearPrefixLimit/self/order/not-smallest-first")
							} else {
								fail(fmt.Sprintf("child %x", c), e, g, "child")
							}
						}
					}
				}
			}
			// ---- iteration order of the readable state: NextKey from every key (and from the ----
			// ---- empty key) must walk the specification's view in order; the key index of   ----
			// ---- the diffs is separate from their contents, so reads alone do not cover it  ----
			if !failed {
				sweep := func(name string, view voMap, next func(k []byte) ([]byte, error)) {
					ks := make([]string, 0, len(view))
					for k := range view {
						ks = append(ks, k)
					}
					sort.Strings(ks)
					probes := append([]string{""}, ks...)
					for _, pk := range probes {
						exp := ""
						found := false
						for _, k := range ks {
							if k > pk {
								exp, found = k, true
								break
							}
						}
						var got []byte
						var err error
						if pm := vTry(func() { got, err = next([]byte(pk)) }); pm != "" {
							fail("panic", "no panic", pm, "sweep-"+name+"-panic")
							return
						}
						if err != nil {
							continue // "child does not exist" and friends are compared by the CNextKey operation itself
						}
						res.Cmp()
						if found != (got != nil) || (found && string(got) != exp) {
							fail(fmt.Sprintf("%s NextKey(%x)", name, pk), fmt.Sprintf("%v %x", found, exp), fmt.Sprintf("%v %x", got != nil, got), "sweep-"+name+"-nextkey")
							return
						}
					}
				}
				if pre.Nest > 0 || s.Obs.Nest > 0 { // outside transactions NextKey is the trie's own (C02)
					sweep("main", expView.m, func(k []byte) ([]byte, error) {
						// child-trie root entries live in the main key space; the view has no such keys
						n := r.ts.NextKey(k)
						for n != nil && voIsChildKey(string(n)) {
							n = r.ts.NextKey(n)
						}
						return n, nil
					})
					for _, c := range r.names {
						if failed {
							break
						}
						cc := c
						if len(expView.k[cc]) == 0 {
							continue
						}
						sweep("child", expView.k[cc], func(k []byte) ([]byte, error) { return r.ts.GetChildNextKey([]byte(cc), k) })
					}
				}
			}
			// ---- committed state: trie entries, child roots, state root ----
			if !failed && s.Obs.Nest == 0 && len(s.Obs.Roots.Root) > 0 {
				subst := map[byte][]byte{}
				exp := voMap{}
				for k2, v2 := range expView.m {
					exp[k2] = v2
				}
				for i, cr := range s.Obs.Roots.Croots {
					if len(cr) == 0 {
						continue
					}
					h := cr.Bytes()
					subst[byte(240+i+1)] = h
					exp[string(inmemory_trie.ChildStorageKeyPrefix)+r.names[i]] = h
				}
				var got voMap
				var root []byte
				ppm := vTry(func() {
					got = voMap{}
					for k2, v2 := range r.ts.Trie().Entries() {
						got[k2] = v2
					}
					// the value under a child-root key must be the root of the child trie it designates
					for _, name := range r.names {
						ch, err := r.ts.Trie().GetChild([]byte(name))
						if err != nil || ch == nil {
							continue
						}
						hh, err := ch.Hash()
						if err != nil {
							panic(err)
						}
						got[string(inmemory_trie.ChildStorageKeyPrefix)+name+"#actual-child-root"] = hh.ToBytes()
						exp[string(inmemory_trie.ChildStorageKeyPrefix)+name+"#actual-child-root"] = exp[string(inmemory_trie.ChildStorageKeyPrefix)+name]
					}
					hh, err := r.ts.Trie().Hash()
					if err != nil {
						panic(err)
					}
					root = hh.ToBytes()
				})
				if ppm != "" {
					fail("panic", "no panic", ppm, "observe-panic")
				} else {
					res.Cmp()
					if g, e := voMapString(got), voMapString(exp); g != e {
						fail("trie entries", e, g, "top")
					}
					res.Cmp()
					er := voResolve([]int(s.Obs.Roots.Root), subst)
					if !bytes.Equal(er, root) {
						fail("root", vHex(er), vHex(root), "root")
					}
				}
			}
			if !failed {
				ck := string(o.C.Bytes()) + "|" + string(o.K.Bytes())
				switch {
				case o.Op == "Start":
					cp := map[string]bool{}
					if len(reset) > 0 {
						for x := range reset[len(reset)-1] {
							cp[x] = true
						}
					}
					reset = append(reset, cp)
				case o.Op == "Rollback":
					reset = reset[:len(reset)-1]
				case o.Op == "Commit":
					top := reset[len(reset)-1]
					reset = reset[:len(reset)-1]
					if len(reset) > 0 {
						reset[len(reset)-1] = top
					}
				case pre.Nest > 0 && o.Op == "CSet":
					if voTopDiff(pre).kdel[string(o.C.Bytes())][string(o.K.Bytes())] || reset[len(reset)-1][ck] {
						reset[len(reset)-1][ck] = true
					}
				case pre.Nest > 0 && o.Op == "CClear":
					delete(reset[len(reset)-1], ck)
				case pre.Nest > 0 && (o.Op == "CClearPrefix" || o.Op == "CClearPrefixLimit" || o.Op == "DeleteChild" || o.Op == "DeleteChildAll" || o.Op == "DeleteChildLimit"):
					// keys the specification tombstones now are consistent again (delete() drops the upsert)
					post := voTopDiff(s.Obs)
					for x := range reset[len(reset)-1] {
						parts := strings.SplitN(x, "|", 2)
						if parts[0] == string(o.C.Bytes()) && post.kdel[parts[0]][parts[1]] {
							delete(reset[len(reset)-1], x)
						}
					}
				}
			}
			// A step of a non-plain class touched a mechanism with a recorded finding.  Even
			// when nothing observable differed, the real overlay may now hold other entries
			// than the specification's (e.g. Delete(k) silently dropped the pending changes of
			// the child named k, which happened to equal the backend's): rebuild it, so that a
			// LATER plain step is not blamed for it.
			if failed || class != "plain" {
				reset = make([]map[string]bool, s.Obs.Nest)
				for i := range reset {
					reset[i] = map[string]bool{}
				}
				nts, err := voBuild(s.Obs)
				ok := err == nil
				if ok {
					r.ts = nts
					main, kids, ppm := r.project()
					ok = ppm == "" && voMapString(main) == voMapString(expView.m)
					for _, c := range r.names {
						ok = ok && voMapString(kids[c]) == voMapString(expView.k[c])
					}
				}
				if !ok {
					// the specification's state cannot be reproduced with basic operations
					// (itself a consequence of a recorded finding): the rest is not replayed
					abandoned++
					break
				}
			}
			pre = s.Obs
		}
	}
	res.Extra["behaviours_cut_short_after_a_finding"] = abandoned
}
