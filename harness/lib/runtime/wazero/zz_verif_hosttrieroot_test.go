//go:build verif

// Conformance harness for specs/HostTrieRoot.tla (C10).
// Every case is an input byte string (SCALE list, possibly damaged), a function
// (ext_trie_blake2_256_root / ordered_root, version_1 / version_2) and a state version.
// The bytes are written to guest memory with the real allocator, the host function is
// called directly, and either 0 (failure) or a pointer to 32 bytes is expected; the 32
// bytes are compared with the specification's root (hash tokens resolved with BLAKE2b-256).

package wazero_runtime

import (
	"bytes"
	"encoding/json"
	"fmt"
	"testing"
)

type vtrCase struct {
	O struct {
		Kind string `json:"kind"`
		Fn   int    `json:"fn"`
		Ver  uint32 `json:"ver"`
		Dmg  string `json:"dmg"`
		N    int    `json:"n"`
		Data VB     `json:"data"`
	} `json:"o"`
	Res struct {
		Ok   bool `json:"ok"`
		Root VB   `json:"root"`
	} `json:"res"`
}

func vtrSizeClass(n int) string {
	switch {
	case n == 0:
		return "empty-list"
	case n <= 64:
		return "indices-one-byte"
	}
	return "indices-two-byte"
}

func TestVerifHostTrieRoot(t *testing.T) {
	res := vNewResult("C10")
	defer res.Write(t)
	behs := vLoad(t, vIn(t, "behaviours.txt"))
	res.Behaviours = len(behs)
	g := vhNewGuest(t)
	defer g.close()
	for _, b := range behs {
		var prefix []json.RawMessage
		for si, raw := range b.Steps {
			var c vtrCase
			if err := json.Unmarshal(raw, &c); err != nil {
				t.Fatalf("VERIF-INFRA case json: %v", err)
			}
			prefix = []json.RawMessage{raw} // cases are independent
			if len(res.Samples) < 2 && c.O.N <= 3 {
				res.Sample(raw)
			}
			data := c.O.Data.Bytes()
			op := fmt.Sprintf("%s_version_%d", c.O.Kind, c.O.Fn)
			verClass := "version-0-1"
			if c.O.Fn == 2 && c.O.Ver > 1 {
				verClass = "version-unknown"
			}
			res.Case(op, fmt.Sprintf("%d|%s|%x", c.O.Ver, c.O.Dmg, data))
			g.reset()
			var ptr uint32
			pm := vTry(func() {
				span := g.put(t, data)
				switch {
				case c.O.Kind == "root" && c.O.Fn == 1:
					ptr = ext_trie_blake2_256_root_version_1(g.ctx, g.mod, span)
				case c.O.Kind == "root":
					ptr = ext_trie_blake2_256_root_version_2(g.ctx, g.mod, span, c.O.Ver)
				case c.O.Fn == 1:
					ptr = ext_trie_blake2_256_ordered_root_version_1(g.ctx, g.mod, span)
				default:
					ptr = ext_trie_blake2_256_ordered_root_version_2(g.ctx, g.mod, span, c.O.Ver)
				}
			})
			res.Cmp()
			sig := fmt.Sprintf("C10/%s/%s/input-%s/%s/", op, verClass, c.O.Dmg, vtrSizeClass(c.O.N))
			in := fmt.Sprintf("ver=%d data=%x", c.O.Ver, data)
			if pm != "" {
				res.Fail(b.ID, si, op, in, "no panic", pm, sig+"panic", prefix)
				continue
			}
			if !c.Res.Ok {
				if ptr != 0 {
					got, _ := g.mod.Memory().Read(ptr, 32)
					res.Fail(b.ID, si, op, in, "failure (0)", fmt.Sprintf("root %x", got), sig+"accepted", prefix)
				}
				continue
			}
			if ptr == 0 {
				res.Fail(b.ID, si, op, in, vHex(c.Res.Root.Bytes()), "failure (0)", sig+"rejected", prefix)
				continue
			}
			got, ok := g.mod.Memory().Read(ptr, 32)
			if !ok {
				res.Fail(b.ID, si, op, in, vHex(c.Res.Root.Bytes()), fmt.Sprintf("pointer %d outside memory", ptr), sig+"bad-pointer", prefix)
				continue
			}
			if exp := c.Res.Root.Bytes(); !bytes.Equal(exp, got) {
				res.Fail(b.ID, si, op, in, vHex(exp), vHex(got), sig+"wrong-root", prefix)
			}
		}
	}
}
