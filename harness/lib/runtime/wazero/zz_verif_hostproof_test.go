//go:build verif

// Conformance harness for specs/TrieProof.tla through the HOST FUNCTIONS (C05):
//   ext_trie_blake2_256_verify_proof_version_1(root, proof, key, value)
//   ext_trie_blake2_256_verify_proof_version_2(root, proof, key, value, state version)
// "Verification never confirms a key/value pair that is absent from the state with that root,
//  whatever proof nodes are supplied" / "lets a verifier confirm exactly the values present".
// The SAME TLC-generated cases as the pkg/trie/inmemory/proof stage are used: every supply (honest proof,
// honest + foreign state's blobs, foreign blobs + root node, honest + value digests, honest minus one blob)
// is SCALE-encoded as Vec<Vec<u8>> and written to guest memory with the real allocator together with the
// root, the key and the value of every query; the host function is called directly, the way wazero calls it
// for the runtime, and its verdict (1 = confirmed, 0 = not) is compared with VerifySpec's:
//   1 for a pair that does not hold in the state  -> soundness violation (whatever the supply),
//   0 where VerifySpec accepts                    -> completeness violation,
//   a panic                                       -> observation.
// Signatures are "C05/Verify/host-v<N>/<supply>/<query class>/<failure>" so that the findings already
// recorded for proof.Verify (the function both host functions delegate to) are recognised.
// Shares the guest of zz_verif_hostcommon_test.go.

package wazero_runtime

import (
	"bytes"
	"encoding/json"
	"fmt"
	"testing"

	"github.com/ChainSafe/gossamer/pkg/scale"
)

type vhpQuery struct {
	K      VB   `json:"k"`
	V      VB   `json:"v"`
	Accept bool `json:"accept"`
	Holds  bool `json:"holds"`
}

type vhpSupply struct {
	Name    string     `json:"name"`
	Nodes   []VB       `json:"nodes"`
	Queries []vhpQuery `json:"queries"`
}

type vhpCase struct {
	Entries  [][2]VB     `json:"entries"`
	V1       bool        `json:"v1"`
	Root     VB          `json:"root"`
	Supplies []vhpSupply `json:"supplies"`
}

func vhpValueClass(m map[string][]byte, v1 bool, k, v []byte) string {
	mv, present := m[string(k)]
	switch {
	case len(m) == 0:
		return "empty-state"
	case present && v1 && len(mv) > 32:
		if len(v) == 0 {
			return "present-hashed-value/query-empty-value"
		}
		if bytes.Equal(v, vBlake(mv)) {
			// the node holding the value is a branch when another key extends k (the in-memory Get reads
			// leaf and branch values through different code)
			for o := range m {
				if len(o) > len(k) && o[:len(k)] == string(k) {
					return "present-hashed-value/query-value-digest/branch-node"
				}
			}
			return "present-hashed-value/query-value-digest/leaf-node"
		}
		return "present-hashed-value"
	case present && len(mv) == 0:
		return "present-empty-value"
	case present && len(v) == 0:
		return "present-key/query-empty-value"
	case present:
		return "present-key"
	case len(k) == 0:
		return "absent-empty-key"
	}
	return "absent-key"
}

func TestVerifHostVerifyProof(t *testing.T) {
	res := vNewResult(vEnvStr("VERIF_PROP", "C05"))
	defer res.Write(t)
	behs := vLoad(t, vIn(t, "cases.txt"))
	res.Behaviours = len(behs)
	g := vhNewGuest(t)
	defer g.close()
	// every stride-th query goes through both host functions (the verdict logic is proof.Verify's, which the
	// proof stage exercises on every query; what is specific here is the marshalling and the version argument)
	stride := vEnvInt("VHP_STRIDE", 1)
	n := int(vSeed())
	for _, b := range behs {
		for si, raw := range b.Steps {
			var c vhpCase
			if err := json.Unmarshal(raw, &c); err != nil {
				t.Fatalf("VERIF-INFRA case json: %v", err)
			}
			m := map[string][]byte{}
			for _, e := range c.Entries {
				v := e[1].Bytes()
				if v == nil {
					v = []byte{}
				}
				m[string(e[0].Bytes())] = v
			}
			root := c.Root.Bytes()
			ver := uint32(0)
			if c.V1 {
				ver = 1
			}
			res.Case("case", fmt.Sprintf("%d|%v|%x", len(m), c.V1, root[:4]))
			for i, sup := range c.Supplies {
				name := sup.Name
				if name == "" {
					name = fmt.Sprintf("supply-%d", i)
				}
				nodes := make([][]byte, 0, len(sup.Nodes))
				for _, nd := range sup.Nodes {
					nodes = append(nodes, nd.Bytes())
				}
				enc, err := scale.Marshal(nodes)
				if err != nil {
					t.Fatalf("VERIF-INFRA scale: %v", err)
				}
				g.reset()
				proofSpan := g.put(t, enc)
				rootPtr, _ := splitPointerSize(g.put(t, root))
				for _, q := range sup.Queries {
					n++
					if n%stride != 0 {
						continue
					}
					kb, vb := q.K.Bytes(), q.V.Bytes()
					if vb == nil {
						vb = []byte{}
					}
					cls := vhpValueClass(m, c.V1, kb, vb)
					for fn := 1; fn <= 2; fn++ {
						var ret uint32
						pm := vTry(func() {
							keySpan, valSpan := g.put(t, kb), g.put(t, vb)
							if fn == 1 {
								ret = ext_trie_blake2_256_verify_proof_version_1(g.ctx, g.mod, rootPtr, proofSpan, keySpan, valSpan)
							} else {
								ret = ext_trie_blake2_256_verify_proof_version_2(g.ctx, g.mod, rootPtr, proofSpan, keySpan, valSpan, ver)
							}
						})
						op := fmt.Sprintf("host-v%d", fn)
						res.Cmp()
						res.Case(op, "")
						fail := func(field, exp, got, failure string) {
							res.Fail(b.ID, si, op, field, exp, got, "C05/Verify/"+op+"/"+name+"/"+cls+"/"+failure, []json.RawMessage{raw})
						}
						switch {
						case pm != "":
							fail("panic", "no panic", pm, "panic")
							g.reset() // the heap may be in any state
							proofSpan = g.put(t, enc)
							rootPtr, _ = splitPointerSize(g.put(t, root))
						case ret > 1:
							fail("result", "0 or 1", fmt.Sprint(ret), "result-not-boolean")
						case ret == 1 && !q.Holds:
							fail("reject", fmt.Sprintf("0 for key=%x value=%x (not in the state)", kb, vb), "1", "soundness-accepted-absent-pair")
						case ret == 0 && q.Accept:
							fail("accept", fmt.Sprintf("1 for key=%x value=%x", kb, vb), "0", "completeness-rejected")
						}
					}
				}
				// an unknown state version is refused by version_2 whatever the proof says (never a confirmation)
				if len(sup.Queries) > 0 && i == 0 {
					q := sup.Queries[0]
					var ret uint32
					pm := vTry(func() {
						ret = ext_trie_blake2_256_verify_proof_version_2(g.ctx, g.mod, rootPtr, proofSpan, g.put(t, q.K.Bytes()), g.put(t, q.V.Bytes()), 7)
					})
					res.Cmp()
					if pm != "" {
						res.Fail(b.ID, si, "host-v2", "panic", "no panic", pm, "C05/Verify/host-v2/"+name+"/unknown-state-version/panic", []json.RawMessage{raw})
					} else if ret == 1 && !q.Holds {
						res.Fail(b.ID, si, "host-v2", "reject", "0", "1", "C05/Verify/host-v2/"+name+"/unknown-state-version/soundness-accepted-absent-pair", []json.RawMessage{raw})
					}
				}
			}
		}
	}
}
