//go:build verif

// Shared by the C09 and C10 harnesses: a guest consisting of nothing but one exported
// linear memory (25-byte hand-assembled Wasm module), the REAL freeing-bump allocator, and a
// runtime.Context carried in the call context exactly as Instance.Exec does.  Host functions
// are then called directly, the way wazero would call them for the runtime.

package wazero_runtime

import (
	"context"
	"testing"

	"github.com/ChainSafe/gossamer/lib/runtime"
	"github.com/ChainSafe/gossamer/lib/runtime/allocator"
	"github.com/ChainSafe/gossamer/lib/runtime/storage"
	inmemory_trie "github.com/ChainSafe/gossamer/pkg/trie/inmemory"
	"github.com/tetratelabs/wazero"
	"github.com/tetratelabs/wazero/api"
)

// (module (memory (export "memory") 1))
var vhMemoryModule = []byte{
	0x00, 0x61, 0x73, 0x6d, 0x01, 0x00, 0x00, 0x00,
	0x05, 0x03, 0x01, 0x00, 0x01,
	0x07, 0x0a, 0x01, 0x06, 'm', 'e', 'm', 'o', 'r', 'y', 0x02, 0x00,
}

type vhGuest struct {
	rt    wazero.Runtime
	mod   api.Module
	ctx   context.Context
	rtCtx *runtime.Context
}

func vhNewGuest(t *testing.T) *vhGuest {
	bg := context.Background()
	rt := wazero.NewRuntime(bg)
	mod, err := rt.Instantiate(bg, vhMemoryModule)
	if err != nil {
		t.Fatalf("VERIF-INFRA instantiate memory module: %v", err)
	}
	g := &vhGuest{rt: rt, mod: mod}
	g.reset()
	return g
}

// reset gives the guest a fresh heap and fresh storage (memory contents are irrelevant).
func (g *vhGuest) reset() {
	g.rtCtx = &runtime.Context{
		Allocator: allocator.NewFreeingBumpHeapAllocator(1024),
		Storage:   storage.NewTrieState(inmemory_trie.NewEmptyTrie()),
	}
	g.ctx = context.WithValue(context.Background(), runtimeContextKey, g.rtCtx)
}

func (g *vhGuest) close() { _ = g.rt.Close(context.Background()) }

// put copies data into guest memory through the real allocator and returns the pointer-size.
func (g *vhGuest) put(t *testing.T, data []byte) uint64 {
	span, err := write(g.mod, g.rtCtx.Allocator, data)
	if err != nil {
		t.Fatalf("VERIF-INFRA guest write: %v", err)
	}
	return span
}
