//go:build verif

// Conformance harness for specs/StorageAppend.tla (C09).
// Every step of a behaviour is either Set (store / remove the value) or Append; Append is
// executed on a real TrieState in three ways, all compared with the specification's bytes:
//   - storageAppend(storage, key, item) with no open transaction,
//   - the same inside a storage transaction (block execution always runs in one),
//   - the host function ext_storage_append_version_1 called with key and item in guest
//     memory, the way the runtime calls it.

package wazero_runtime

import (
	"bytes"
	"encoding/json"
	"fmt"
	"testing"

	"github.com/ChainSafe/gossamer/lib/runtime/storage"
	inmemory_trie "github.com/ChainSafe/gossamer/pkg/trie/inmemory"
)

type vsaVal struct {
	Present bool `json:"present"`
	V       VB   `json:"v"`
}

type vsaStep struct {
	O struct {
		Op   string `json:"op"`
		X    vsaVal `json:"x"`
		Item VB     `json:"item"`
	} `json:"o"`
	Pre vsaVal `json:"pre"`
	Res vsaVal `json:"res"`
}

// vsaClass: the input class of the stored value, by the shape of its length prefix.
func vsaClass(v vsaVal) string {
	if !v.Present {
		return "absent"
	}
	b := v.V.Bytes()
	if len(b) == 0 {
		return "empty"
	}
	mode := b[0] & 3
	switch mode {
	case 0:
		return "mode0"
	case 1:
		if len(b) < 2 {
			return "mode1-truncated"
		}
		if n := int(b[0]>>2) + int(b[1])<<6; n < 64 {
			return "mode1-noncanonical"
		}
		return "mode1"
	case 2:
		if len(b) < 4 {
			return "mode2-truncated"
		}
		if n := int(b[0]>>2) + int(b[1])<<6 + int(b[2])<<14 + int(b[3])<<22; n < 1<<14 {
			return "mode2-noncanonical"
		}
		return "mode2"
	}
	nb := int(b[0]>>2) + 4
	if len(b) < 1+nb {
		return "bigint-truncated"
	}
	if nb > 4 {
		return "bigint-longer-than-u32"
	}
	if b[4] < 64 {
		return "bigint-noncanonical"
	}
	if bytes.Equal(b[1:5], []byte{255, 255, 255, 255}) {
		return "bigint-u32-max"
	}
	return "bigint"
}

func vsaShow(present bool, b []byte) string {
	if !present {
		return "absent"
	}
	return vHex(b)
}

func TestVerifStorageAppend(t *testing.T) {
	res := vNewResult("C09")
	defer res.Write(t)
	behs := vLoad(t, vIn(t, "behaviours.txt"))
	res.Behaviours = len(behs)
	g := vhNewGuest(t)
	defer g.close()
	key := []byte("verif:list")
	for _, b := range behs {
		var prefix []json.RawMessage
		for si, raw := range b.Steps {
			var s vsaStep
			if err := json.Unmarshal(raw, &s); err != nil {
				t.Fatalf("VERIF-INFRA step json: %v", err)
			}
			prefix = append(prefix, raw)
			if s.O.Op != "Append" {
				res.Case("Set", "")
				continue
			}
			if len(res.Samples) < 3 {
				res.Sample(b.Steps)
			}
			old := s.Pre.V.Bytes()
			item := s.O.Item.Bytes()
			if item == nil {
				item = []byte{}
			}
			exp := s.Res.V.Bytes()
			class := vsaClass(s.Pre)
			res.Case("Append", fmt.Sprintf("%s|%x|%x", class, old, item))
			for _, via := range []string{"direct", "in-transaction", "host-function"} {
				ts := storage.NewTrieState(inmemory_trie.NewEmptyTrie())
				if s.Pre.Present {
					if err := ts.Put(key, append([]byte{}, old...)); err != nil {
						t.Fatalf("VERIF-INFRA put: %v", err)
					}
				}
				var got []byte
				var callErr error
				pm := vTry(func() {
					switch via {
					case "direct":
						callErr = storageAppend(ts, key, append([]byte{}, item...))
					case "in-transaction":
						ts.StartTransaction()
						callErr = storageAppend(ts, key, append([]byte{}, item...))
						ts.CommitTransaction()
					case "host-function":
						g.reset()
						g.rtCtx.Storage = ts
						ext_storage_append_version_1(g.ctx, g.mod, g.put(t, key), g.put(t, item))
					}
					got = ts.Get(key)
				})
				res.Cmp()
				sig := "C09/append/" + class + "/"
				switch {
				case pm != "":
					res.Fail(b.ID, si, "Append", via, vHex(exp), pm, sig+"panic", prefix)
				case callErr != nil:
					res.Fail(b.ID, si, "Append", via, vHex(exp), "error: "+callErr.Error(), sig+"error", prefix)
				case !bytes.Equal(got, exp):
					fc := "wrong-bytes"
					if len(exp) == 1+len(item) && exp[0] == 4 && bytes.Equal(exp[1:], item) {
						fc = "not-replaced" // the specification replaces the value by a one-item list
					}
					res.Fail(b.ID, si, "Append", via+" old="+vsaShow(s.Pre.Present, old)+" item="+vHex(item), vHex(exp), vHex(got), sig+fc, prefix)
				}
			}
			// an append writes the NEW value of this view and nothing else: the value it started from, still held by an enclosing
			// transaction layer, by the state the transaction was opened on, or by the trie a snapshot was taken of, keeps its
			// bytes; after a rollback the next append starts from them again
			if s.Pre.Present {
				for _, via := range []string{"rolled-back-over-trie", "rolled-back-over-layer", "snapshot", "rolled-back-over-deletion"} {
					base := inmemory_trie.NewEmptyTrie()
					var seen, again, other []byte
					var callErr error
					pm := vTry(func() {
						switch via {
						case "rolled-back-over-trie":
							ts := storage.NewTrieState(base)
							_ = ts.Put(key, append([]byte{}, old...))
							ts.StartTransaction()
							callErr = storageAppend(ts, key, append([]byte{}, item...))
							seen = append([]byte{}, ts.Get(key)...)
							ts.RollbackTransaction()
							other = append([]byte{}, ts.Get(key)...)
							if err := storageAppend(ts, key, append([]byte{}, item...)); err != nil && callErr == nil {
								callErr = err
							}
							again = ts.Get(key)
						case "rolled-back-over-layer":
							ts := storage.NewTrieState(base)
							ts.StartTransaction()
							_ = ts.Put(key, append([]byte{}, old...))
							ts.StartTransaction()
							callErr = storageAppend(ts, key, append([]byte{}, item...))
							seen = append([]byte{}, ts.Get(key)...)
							ts.RollbackTransaction()
							other = append([]byte{}, ts.Get(key)...)
							if err := storageAppend(ts, key, append([]byte{}, item...)); err != nil && callErr == nil {
								callErr = err
							}
							again = ts.Get(key)
							ts.CommitTransaction()
						case "rolled-back-over-deletion":
							// the list exists in the state, the enclosing transaction cleared it (a tombstone in its layer), the append of a
							// nested transaction starts a one-item list and is rolled back: the key is absent again, the next append starts
							// the same one-item list
							_ = base.Put(key, append([]byte{}, old...))
							ts := storage.NewTrieState(base)
							ts.StartTransaction()
							_ = ts.Delete(key)
							ts.StartTransaction()
							callErr = storageAppend(ts, key, append([]byte{}, item...))
							seen = append([]byte{}, ts.Get(key)...)
							ts.RollbackTransaction()
							other = ts.Get(key)
							if err := storageAppend(ts, key, append([]byte{}, item...)); err != nil && callErr == nil {
								callErr = err
							}
							again = ts.Get(key)
							ts.CommitTransaction()
						case "snapshot":
							_ = base.Put(key, append([]byte{}, old...))
							ts := storage.NewTrieState(base.Snapshot())
							callErr = storageAppend(ts, key, append([]byte{}, item...))
							seen = append([]byte{}, ts.Get(key)...)
							other = append([]byte{}, base.Get(key)...)
							ts2 := storage.NewTrieState(base.Snapshot())
							if err := storageAppend(ts2, key, append([]byte{}, item...)); err != nil && callErr == nil {
								callErr = err
							}
							again = ts2.Get(key)
						}
					})
					res.Cmp()
					sig := "C09/append/" + class + "/"
					if via == "rolled-back-over-deletion" {
						one := append([]byte{4}, item...) // Compact(1) ++ item: the append to an absent key
						switch {
						case pm != "":
							res.Fail(b.ID, si, "Append", via, vHex(one), pm, sig+"panic", prefix)
						case callErr != nil:
							res.Fail(b.ID, si, "Append", via, vHex(one), "error: "+callErr.Error(), sig+"error", prefix)
						case !bytes.Equal(seen, one):
							res.Fail(b.ID, si, "Append", via+" item="+vHex(item), vHex(one), vHex(seen), sig+"wrong-bytes", prefix)
						case other != nil:
							res.Fail(b.ID, si, "Append", via+": the key the enclosing transaction cleared, after the nested append was rolled back", "absent", vHex(other), sig+"other-view-changed", prefix)
						case !bytes.Equal(again, one):
							res.Fail(b.ID, si, "Append", via+": the same append again", vHex(one), vHex(again), sig+"other-view-changed", prefix)
						}
						continue
					}
					switch {
					case pm != "":
						res.Fail(b.ID, si, "Append", via, vHex(exp), pm, sig+"panic", prefix)
					case callErr != nil:
						res.Fail(b.ID, si, "Append", via, vHex(exp), "error: "+callErr.Error(), sig+"error", prefix)
					case !bytes.Equal(seen, exp):
						res.Fail(b.ID, si, "Append", via+" old="+vsaShow(true, old)+" item="+vHex(item), vHex(exp), vHex(seen), sig+"wrong-bytes", prefix)
					case !bytes.Equal(other, old):
						res.Fail(b.ID, si, "Append", via+": the value the append started from, read through the other view", vHex(old), vHex(other), sig+"other-view-changed", prefix)
					case !bytes.Equal(again, exp):
						res.Fail(b.ID, si, "Append", via+": the same append from the same starting value again", vHex(exp), vHex(again), sig+"other-view-changed", prefix)
					}
				}
			}
		}
	}
}
