//go:build verif

// Conformance harness for specs/Allocator.tla (C28).
//
// Replays TLC-generated allocate/free sequences against the real
// FreeingBumpHeapAllocator over a sparse fake runtime.Memory (4 KiB chunks allocated on
// first write, so a 4 GiB linear memory costs nothing).  Only the exported API is used
// (NewFreeingBumpHeapAllocator, Allocate, Deallocate).  After every step it compares
//   - success/failure and the exact pointer with the specification,
//   - the number of pages of the linear memory with the specification,
// and checks, independently of the specification's pointer choice, the sentences of the
// property on the real results: 8-byte alignment, block above the heap base, whole
// rounded-up block inside linear memory, no overlap with any live allocation, pages
// <= 65536, and that the pattern written into every live allocation is still intact.
// The pattern uses even bytes only (bit 32 of every 8-byte window is clear), see the
// idealisation note in the module header of Allocator.tla.

package allocator

import (
	"encoding/binary"
	"encoding/json"
	"fmt"
	"testing"
)

// ---- sparse linear memory ----------------------------------------------------------

const valChunk = 4096

type valMem struct {
	pages    uint32
	maxPages uint32
	chunks   map[uint32]*[valChunk]byte
	grows    int
	maxSeen  uint64 // largest pages+delta ever requested
}

func valNewMem(pages, maxPages uint32) *valMem {
	return &valMem{pages: pages, maxPages: maxPages, chunks: map[uint32]*[valChunk]byte{}}
}

func (m *valMem) Size() uint64 { return uint64(m.pages) * PageSize }

func (m *valMem) Grow(delta uint32) (uint32, bool) {
	want := uint64(m.pages) + uint64(delta)
	if want > m.maxSeen {
		m.maxSeen = want
	}
	if want > uint64(m.maxPages) {
		return 0, false
	}
	prev := m.pages
	m.pages = uint32(want)
	m.grows++
	return prev, true
}

func (m *valMem) inRange(off uint32, n uint64) bool { return uint64(off)+n <= m.Size() }

func (m *valMem) get(a uint64) byte {
	c := m.chunks[uint32(a/valChunk)]
	if c == nil {
		return 0
	}
	return c[a%valChunk]
}

func (m *valMem) put(a uint64, v byte) {
	k := uint32(a / valChunk)
	c := m.chunks[k]
	if c == nil {
		if v == 0 {
			return
		}
		c = new([valChunk]byte)
		m.chunks[k] = c
	}
	c[a%valChunk] = v
}

func (m *valMem) ReadByte(off uint32) (byte, bool) { //nolint:govet
	if !m.inRange(off, 1) {
		return 0, false
	}
	return m.get(uint64(off)), true
}

func (m *valMem) WriteByte(off uint32, v byte) bool { //nolint:govet
	if !m.inRange(off, 1) {
		return false
	}
	m.put(uint64(off), v)
	return true
}

func (m *valMem) ReadUint64Le(off uint32) (uint64, bool) {
	if !m.inRange(off, 8) {
		return 0, false
	}
	var b [8]byte
	for i := range b {
		b[i] = m.get(uint64(off) + uint64(i))
	}
	return binary.LittleEndian.Uint64(b[:]), true
}

func (m *valMem) WriteUint64Le(off uint32, v uint64) bool {
	if !m.inRange(off, 8) {
		return false
	}
	var b [8]byte
	binary.LittleEndian.PutUint64(b[:], v)
	for i := range b {
		m.put(uint64(off)+uint64(i), b[i])
	}
	return true
}

func (m *valMem) Read(off uint32, n uint64) ([]byte, bool) {
	if !m.inRange(off, n) || n > 1<<26 {
		return nil, false
	}
	out := make([]byte, n)
	for i := range out {
		out[i] = m.get(uint64(off) + uint64(i))
	}
	return out, true
}

func (m *valMem) Write(off uint32, v []byte) bool {
	if !m.inRange(off, uint64(len(v))) {
		return false
	}
	for i, x := range v {
		m.put(uint64(off)+uint64(i), x)
	}
	return true
}

// ---- behaviours --------------------------------------------------------------------

// valSize is a request size; the specification writes sizes from 2^31 up as negative numbers (size - 2^32)
type valSize uint32

func (v *valSize) UnmarshalJSON(b []byte) error {
	var x int64
	if err := json.Unmarshal(b, &x); err != nil {
		return err
	}
	*v = valSize(uint32(x))
	return nil
}

type valStep struct {
	O struct {
		Op     string `json:"op"`
		Size   valSize `json:"size"`
		U      uint64 `json:"u"`
		B      uint64 `json:"b"`
		Bu     uint64 `json:"bu"`
		Bb     uint64 `json:"bb"`
		Pages  uint32 `json:"pages"`
		Memmax uint32 `json:"memmax"`
	} `json:"o"`
	R struct {
		Ok  bool   `json:"ok"`
		P   uint64 `json:"p"`
		Cls string `json:"cls"`
	} `json:"r"`
	S struct {
		Poisoned bool   `json:"poisoned"`
		Pages    uint32 `json:"pages"`
		Bumper   uint64 `json:"bumper"`
		Nlive    int    `json:"nlive"`
	} `json:"s"`
}

type valSpan struct{ off, n uint64 }

type valLive struct {
	ptr     uint64
	rounded uint64
	id      int
	spans   []valSpan
}

func valRounded(size uint32) uint64 {
	r := uint64(8)
	for r < uint64(size) {
		r <<= 1
	}
	return r
}

// valSpans: where the pattern is written inside a block of `rounded` bytes: everything for
// blocks up to 256 bytes, else the first and last 64 bytes and 16 bytes around every
// power-of-two offset (where headers of smaller blocks would land).
func valSpans(rounded uint64) []valSpan {
	if rounded <= 256 {
		return []valSpan{{0, rounded}}
	}
	sp := []valSpan{{0, 64}, {rounded - 64, 64}}
	for o := uint64(128); o < rounded; o <<= 1 {
		sp = append(sp, valSpan{o - 8, 16})
		if o+o/2 < rounded-64 {
			sp = append(sp, valSpan{o + o/2, 8})
		}
	}
	return sp
}

// even bytes only; the last four bytes of every block are zero (plain caller data as well)
func valPat(id int, i, rounded uint64) byte {
	if i+4 >= rounded {
		return 0
	}
	return byte((uint64(id)*37+i*11+5)&0x7f) << 1
}

func valSizeClass(size uint32) string {
	switch {
	case size > MaxPossibleAllocations:
		return "oversize"
	case size <= 8:
		return "min"
	case size&(size-1) == 0:
		return "pow2"
	case (size-1)&(size-2) == 0:
		return "pow2+1"
	case (size+1)&size == 0:
		return "pow2-1"
	}
	return "mid"
}

func TestVerifAllocator(t *testing.T) {
	res := vNewResult(vEnvStr("VERIF_PROP", "C28"))
	defer res.Write(t)
	behs := vLoad(t, vIn(t, "behaviours.txt"))
	res.Behaviours = len(behs)
	clsSeen := map[string]int{}
	for _, b := range behs {
		var (
			mem    *valMem
			a      *FreeingBumpHeapAllocator
			base   uint64 // heap base as passed to the constructor
			live   = map[uint64]*valLive{}
			prefix []json.RawMessage
			nextID int
		)
	steps:
		for si, raw := range b.Steps {
			var s valStep
			if err := json.Unmarshal(raw, &s); err != nil {
				t.Fatalf("VERIF-INFRA step json: %v", err)
			}
			prefix = append(prefix, raw)
			if si == 1 {
				res.Sample(b.Steps)
			}
			op := s.O.Op
			cls := s.R.Cls
			stop := false
			fail := func(field, exp, got, what string) {
				res.Fail(b.ID, si, op, field, exp, got, "C28/"+op+"/"+cls+"/"+what, prefix)
				stop = true
			}
			switch op {
			case "New":
				base = 8*s.O.Bu + s.O.Bb
				if base > 0xffffffff {
					t.Fatalf("VERIF-INFRA heap base out of range")
				}
				mem = valNewMem(s.O.Pages, s.O.Memmax)
				if pm := vTry(func() { a = NewFreeingBumpHeapAllocator(uint32(base)) }); pm != "" {
					fail("panic", "no panic", pm, "panic")
				}
				res.Case(op, fmt.Sprintf("%d|%d|%d", base, s.O.Pages, s.O.Memmax))
			case "Allocate":
				var ptr uint32
				var err error
				pm := vTry(func() { ptr, err = a.Allocate(mem, uint32(s.O.Size)) })
				res.Case(op, fmt.Sprintf("%s|%s|%d", cls, valSizeClass(uint32(s.O.Size)), s.S.Nlive))
				clsSeen[op+"/"+cls]++
				res.Cmp()
				if pm != "" {
					fail("panic", "no panic", pm, "panic")
					break
				}
				if err != nil {
					if s.R.Ok && cls == "bump-top" {
						// a block ending exactly at 4 GiB may be refused (TopFits in the specification);
						// what follows a failed allocation is unspecified: the behaviour ends here
						clsSeen["Allocate/bump-top/refused"]++
						break steps
					}
					if s.R.Ok {
						fail("err", fmt.Sprintf("ptr %d", 8*s.R.P), "error: "+err.Error(), "unexpected-error")
					}
					break
				}
				// the real call succeeded: sentences of the property on the real pointer
				p := uint64(ptr)
				rounded := valRounded(uint32(s.O.Size))
				bad := ""
				switch {
				case uint32(s.O.Size) > MaxPossibleAllocations:
					bad = "oversize-accepted"
				case p%8 != 0:
					bad = "misaligned"
				case p < base:
					bad = "below-heap-base"
				case p+rounded > mem.Size():
					bad = "block-outside-memory"
				case mem.pages > MaxWasmPages:
					bad = "memory-past-4GiB"
				}
				if bad == "" {
					for _, l := range live {
						if p < l.ptr+l.rounded && l.ptr < p+rounded {
							bad = "overlaps-live"
							break
						}
					}
				}
				if !s.R.Ok {
					w := "unexpected-success"
					if bad != "" {
						w += "/" + bad
					}
					fail("ok", "error ("+cls+")", fmt.Sprintf("ptr %d", p), w)
					break
				}
				if bad != "" {
					fail("ptr", fmt.Sprintf("ptr %d", 8*s.R.P), fmt.Sprintf("ptr %d size %d rounded %d memsize %d base %d", p, s.O.Size, rounded, mem.Size(), base), bad)
					break
				}
				res.Cmp()
				if p != 8*s.R.P {
					fail("ptr", fmt.Sprint(8*s.R.P), fmt.Sprint(p), "pointer-differs")
					break
				}
				l := &valLive{ptr: p, rounded: rounded, id: nextID, spans: valSpans(rounded)}
				nextID++
				for _, sp := range l.spans {
					for i := uint64(0); i < sp.n; i++ {
						mem.put(p+sp.off+i, valPat(l.id, sp.off+i, l.rounded))
					}
				}
				live[p] = l
			case "Deallocate":
				p := 8*s.O.U + s.O.B
				if p > 0xffffffff {
					t.Fatalf("VERIF-INFRA pointer out of range")
				}
				var err error
				pm := vTry(func() { err = a.Deallocate(mem, uint32(p)) })
				res.Case(op, fmt.Sprintf("%s|%d|%d", cls, s.O.B, s.S.Nlive))
				clsSeen[op+"/"+cls]++
				res.Cmp()
				if pm != "" {
					fail("panic", "no panic", pm, "panic")
					break
				}
				if s.R.Ok && err != nil {
					fail("err", "nil", err.Error(), "unexpected-error")
				} else if !s.R.Ok && err == nil {
					fail("err", "error ("+cls+") and poisoned", "nil", "invalid-free-accepted")
				} else if err == nil {
					delete(live, p)
				}
			default:
				t.Fatalf("VERIF-INFRA unknown op %q", op)
			}
			if stop {
				break steps
			}
			// after every step: size of the linear memory, and every live pattern
			res.Cmp()
			if mem.pages > MaxWasmPages {
				fail("pages", "<= 65536", fmt.Sprintf("pages %d", mem.pages), "memory-past-4GiB")
				break steps
			}
			if mem.pages != s.S.Pages {
				fail("pages", fmt.Sprint(s.S.Pages), fmt.Sprint(mem.pages), "pages-differ")
				break steps
			}
			if len(live) != s.S.Nlive {
				t.Fatalf("VERIF-INFRA live count: spec %d harness %d", s.S.Nlive, len(live))
			}
			for _, l := range live {
				for _, sp := range l.spans {
					for i := uint64(0); i < sp.n; i++ {
						if g := mem.get(l.ptr + sp.off + i); g != valPat(l.id, sp.off+i, l.rounded) {
							fail("data", fmt.Sprintf("byte %d of live allocation %d = %#x", sp.off+i, l.ptr, valPat(l.id, sp.off+i, l.rounded)),
								fmt.Sprintf("%#x", g), "live-data-changed")
							break steps
						}
					}
				}
			}
		}
	}
	res.Extra["classes"] = clsSeen
}
