//go:build verif

// C13 on the genesis path (lib/genesis/helpers.go is one of the property's anchors): the specification's 128-bit values
// (specs/U128Views.tla: 16 bytes, decimal form, little-endian form) written in their JSON form as Staking.CanceledPayout of a
// human-readable chain spec must arrive as the same number in the decoded genesis structure and as the same 16 little-endian
// bytes in the raw genesis storage: JSON form, Uint128 and SCALE bytes denote one value.
package genesis

import (
	"encoding/binary"
	"encoding/json"
	"fmt"
	"os"
	"path/filepath"
	"testing"

	"github.com/ChainSafe/gossamer/lib/common"
)

// Staking.CanceledPayout storage key: twox128("Staking") ++ twox128("CanceledPayout")
const vugKey = "0x7bbd1b4c54319a153cc9fdbd5792e707d32c6475a1afd11c5d3645883a408350"

type vugCase struct {
	O struct {
		V []int `json:"v"`
	} `json:"o"`
	Res struct {
		Dec []int `json:"dec"`
	} `json:"res"`
}

func vugBytes(x []int) []byte {
	b := make([]byte, len(x))
	for i, v := range x {
		b[i] = byte(v)
	}
	return b
}

func TestVerifU128Genesis(t *testing.T) {
	res := vNewResult(vEnvStr("VERIF_PROP", "C13"))
	defer res.Write(t)
	behs := vLoad(t, vIn(t, "behaviours.txt"))
	res.Behaviours = len(behs)
	dir := t.TempDir()
	seen := map[string]bool{}
	calibrated := false
	for bi, bh := range behs {
		for si, raw := range bh.Steps {
			var c vugCase
			if err := json.Unmarshal(raw, &c); err != nil || len(c.O.V) != 16 {
				t.Fatalf("VERIF-INFRA case json: %v %s", err, raw)
			}
			v := vugBytes(c.O.V)
			dec := string(vugBytes(c.Res.Dec))
			if seen[dec] {
				continue
			}
			seen[dec] = true
			prefix := json.RawMessage("[" + string(raw) + "]")
			cl := "below-2^53"
			switch {
			case binary.LittleEndian.Uint64(v[8:]) != 0:
				cl = "above-2^64"
			case binary.LittleEndian.Uint64(v[:8]) >= 1<<53:
				cl = "2^53-to-2^64"
			}
			res.Case("genesis", cl+"|"+dec)
			spec := fmt.Sprintf(`{"name":"verif","id":"verif","genesis":{"runtime":{"staking":{`+
				`"validatorCount":2,"minimumValidatorCount":1,"invulnerables":[],`+
				`"forceEra":"NotForcing","slashRewardFraction":100000000,`+
				`"canceledPayout":%s,"minNominatorBond":0,"minValidatorBond":0}}}}`, dec)
			file := filepath.Join(dir, fmt.Sprintf("spec-%d-%d.json", bi, si))
			if err := os.WriteFile(file, []byte(spec), 0o600); err != nil {
				t.Fatalf("VERIF-INFRA write spec: %v", err)
			}
			var gen *Genesis
			var err error
			pm := vTry(func() { gen, err = NewGenesisFromJSON(file, 0) })
			_ = os.Remove(file)
			res.Cmp()
			fail := func(field, exp, got, what string) {
				res.Fail(bi, si, "genesis", field, exp, got, "C13/genesis/"+what+"/"+cl, prefix)
			}
			if pm != "" || err != nil || gen == nil {
				fail("NewGenesisFromJSON", "a genesis", fmt.Sprintf("err=%v panic=%s", err, pm), "build-error")
				continue
			}
			res.Cmp()
			if u := gen.Genesis.Runtime.Staking.CanceledPayout; u == nil || u.String() != dec {
				fail("Staking.CanceledPayout", dec, fmt.Sprint(u), "decoded-value")
				continue
			}
			rawHex, ok := gen.Genesis.Raw["top"][vugKey]
			if !ok {
				if !calibrated {
					t.Fatalf("VERIF-INFRA no Staking.CanceledPayout entry under %s in the raw genesis", vugKey)
				}
				fail("raw genesis", vHex(v), "no entry", "raw-entry-missing")
				continue
			}
			calibrated = true
			rawb, derr := common.HexToBytes(rawHex)
			res.Cmp()
			if derr != nil || vHex(rawb) != vHex(v) {
				fail("raw Staking.CanceledPayout", vHex(v), fmt.Sprintf("%s err=%v", rawHex, derr), "raw-bytes")
			}
		}
	}
}
