//go:build verif

// Conformance harness for specs/TxQueue.tla and specs/TxQueue_Trace.tla (C34).

package transaction

import (
	"encoding/json"
	"fmt"
	"math/rand"
	"os"
	"path/filepath"
	"sort"
	"sync"
	"sync/atomic"
	"testing"
	"time"

	"github.com/ChainSafe/gossamer/dot/types"
)

type vtqOp struct {
	Op   string `json:"op"`
	Tx   int    `json:"tx"`
	Prio int    `json:"prio"`
}

type vtqStep struct {
	O   vtqOp `json:"o"`
	Res int   `json:"res"`
	Obs []struct {
		Tx   int `json:"tx"`
		Prio int `json:"prio"`
	} `json:"obs"`
}

func vtqExt(tx int) types.Extrinsic { return types.Extrinsic{byte(tx), 0xaa} }

func vtqID(v *ValidTransaction) int {
	if v == nil {
		return 0
	}
	return int(v.Extrinsic[0])
}

// vtqDo applies one abstract operation to the real queue and returns the integer result
func vtqDo(q *PriorityQueue, o vtqOp) int {
	switch o.Op {
	case "Push":
		_, err := q.Push(NewValidTransaction(vtqExt(o.Tx), &Validity{Priority: vtqPrio(o.Prio)}))
		if err != nil {
			return 0
		}
		return 1
	case "Pop":
		return vtqID(q.Pop())
	case "Peek":
		return vtqID(q.Peek())
	case "Exists":
		if q.Exists(vtqExt(o.Tx).Hash()) {
			return 1
		}
		return 0
	case "Len":
		return q.Len()
	case "Remove":
		q.RemoveExtrinsic(vtqExt(o.Tx))
		return 0
	case "PopT":
		// the timer is one poll interval: it fires together with the first look at the queue
		return vtqID(q.PopWithTimer(time.After(q.pollInterval)))
	}
	panic("unknown op " + o.Op)
}

// vtqPrio maps the specification's small priorities onto the whole uint64 range, order preserving: neighbours are 2^62
// and more apart, the top one is TransactionPriority::MAX (what the runtime gives operational extrinsics)
func vtqPrio(p int) uint64 {
	switch {
	case p <= 0:
		return 0
	case p == 1:
		return 1
	case p == 2:
		return 1 << 62
	case p == 3:
		return 1<<63 + 5
	}
	return ^uint64(0) - uint64(10-min(p, 10))
}

func vtqPrioBack(x uint64) int {
	for p := 0; p <= 10; p++ {
		if vtqPrio(p) == x {
			return p
		}
	}
	return -1
}

func vtqProject(q *PriorityQueue) string {
	items := append([]*Item(nil), q.pq...)
	sort.Slice(items, func(i, j int) bool {
		if items[i].priority != items[j].priority {
			return items[i].priority > items[j].priority
		}
		return items[i].order < items[j].order
	})
	s := ""
	for _, it := range items {
		s += fmt.Sprintf("%d:%d ", vtqID(it.data), vtqPrioBack(it.priority))
	}
	return fmt.Sprintf("%s|map=%d", s, len(q.txs))
}

func TestVerifTxQueueSeq(t *testing.T) {
	res := vNewResult("C34")
	defer res.Write(t)
	behs := vLoad(t, vIn(t, "behaviours.txt"))
	res.Behaviours = len(behs)
	for _, b := range behs {
		q := NewPriorityQueue()
		if b.ID == 0 {
			res.Sample(b.Steps)
		}
		for si, raw := range b.Steps {
			var s vtqStep
			if err := json.Unmarshal(raw, &s); err != nil {
				t.Fatalf("VERIF-INFRA %v", err)
			}
			res.Case(s.O.Op, fmt.Sprintf("%d|%d|%s", s.O.Tx, s.O.Prio, vtqProject(q)))
			var got int
			pm := vTry(func() { got = vtqDo(q, s.O) })
			if pm != "" {
				res.Fail(b.ID, si, s.O.Op, "panic", "none", pm, "C34/seq/"+s.O.Op+"/panic", b.Steps[:si+1])
				break
			}
			res.Cmp()
			if got != s.Res {
				res.Fail(b.ID, si, s.O.Op, "result", fmt.Sprint(s.Res), fmt.Sprint(got), "C34/seq/"+s.O.Op+"/result", b.Steps[:si+1])
				break
			}
			exp := ""
			for _, e := range s.Obs {
				exp += fmt.Sprintf("%d:%d ", e.Tx, e.Prio)
			}
			exp = fmt.Sprintf("%s|map=%d", exp, len(s.Obs))
			res.Cmp()
			if g := vtqProject(q); g != exp {
				res.Fail(b.ID, si, s.O.Op, "state", exp, g, "C34/seq/"+s.O.Op+"/state", b.Steps[:si+1])
				break
			}
		}
		// drain: the real queue must yield exactly the specification's order
	}
}

type vtqEv struct {
	Seq  int64  `json:"-"`
	Ev   string `json:"ev"`
	ID   int    `json:"id"`
	Op   string `json:"op"`
	Tx   int    `json:"tx"`
	Prio int    `json:"prio"`
	Res  int    `json:"res"`
}

func TestVerifTxQueueConc(t *testing.T) {
	res := vNewResult("C34")
	defer res.Write(t)
	out := os.Getenv("VERIF_OUT")
	if out == "" {
		t.Skip("VERIF_OUT not set")
	}
	nhist := vEnvInt("VERIF_HISTORIES", 200)
	rng := rand.New(rand.NewSource(vSeed()))
	f, err := os.Create(filepath.Join(out, "trace.ndjson"))
	if err != nil {
		t.Fatalf("VERIF-INFRA %v", err)
	}
	defer f.Close()
	enc := json.NewEncoder(f)
	kinds := []string{"Push", "Push", "Push", "Pop", "Pop", "Peek", "Exists", "Len", "Remove"}
	id := 0
	for h := 0; h < nhist; h++ {
		q := NewPriorityQueue()
		ng := 2 + rng.Intn(3)
		nops := 2 + rng.Intn(3)
		// every third history is "primed": the harness holds the queue mutex while the goroutines
		// start, long enough (> 1 ms) for sync.Mutex to enter starvation mode, so the lock is then
		// handed FIFO from one caller's critical section to the next caller's.  A check-then-act
		// split over two critical sections becomes visible almost deterministically.
		primed := h%3 == 0
		if primed {
			nops = 2
		}
		var ctr atomic.Int64
		evs := make([][]vtqEv, ng)
		var wg sync.WaitGroup
		start := make(chan struct{})
		for g := 0; g < ng; g++ {
			type job struct {
				id int
				o  vtqOp
			}
			ops := make([]job, nops)
			for i := range ops {
				id++
				o := vtqOp{Op: kinds[rng.Intn(len(kinds))]}
				if o.Op == "Push" || o.Op == "Exists" || o.Op == "Remove" {
					o.Tx = 1 + rng.Intn(3)
				}
				if o.Op == "Push" {
					o.Prio = 1 + rng.Intn(2)
				}
				if primed && i == 0 {
					// contention primer: every goroutine starts by pushing the SAME transaction
					o = vtqOp{Op: "Push", Tx: 1, Prio: 1 + rng.Intn(2)}
				}
				ops[i] = job{id, o}
			}
			wg.Add(1)
			go func(g int) {
				defer wg.Done()
				<-start
				for _, j := range ops {
					s1 := ctr.Add(1)
					r := vtqDo(q, j.o)
					s2 := ctr.Add(1)
					evs[g] = append(evs[g], vtqEv{Seq: s1, Ev: "call", ID: j.id, Op: j.o.Op, Tx: j.o.Tx, Prio: j.o.Prio},
						vtqEv{Seq: s2, Ev: "ret", ID: j.id, Res: r})
				}
			}(g)
		}
		if primed {
			q.Lock()
		}
		close(start)
		if primed {
			time.Sleep(3 * time.Millisecond)
			q.Unlock()
		}
		wg.Wait()
		var all []vtqEv
		for _, e := range evs {
			all = append(all, e...)
		}
		sort.Slice(all, func(i, j int) bool { return all[i].Seq < all[j].Seq })
		enc.Encode(vtqEv{Ev: "reset"})
		for _, e := range all {
			enc.Encode(e)
		}
		res.Case("history", fmt.Sprintf("%d|%d|%d", ng, nops, h))
		if h < 2 {
			res.Sample(all)
		}
	}
	// timer histories: PopWithTimer on an empty queue with a timer of one poll interval, a Push arriving just before the
	// timer and the first poll fire; then, the dust settled, the queue is read back (Len, Exists, Pop, Len).  Whatever
	// PopWithTimer answered, the pushed transaction was either yielded by it or is still there.
	ntimer := nhist / 4
	for h := 0; h < ntimer; h++ {
		q := NewPriorityQueue()
		var ctr atomic.Int64
		var mu sync.Mutex
		var all []vtqEv
		do := func(o vtqOp) {
			mu.Lock()
			id++
			my := id
			mu.Unlock()
			s1 := ctr.Add(1)
			r := vtqDo(q, o)
			s2 := ctr.Add(1)
			mu.Lock()
			all = append(all, vtqEv{Seq: s1, Ev: "call", ID: my, Op: o.Op, Tx: o.Tx, Prio: o.Prio}, vtqEv{Seq: s2, Ev: "ret", ID: my, Res: r})
			mu.Unlock()
		}
		lead := q.pollInterval - time.Duration(rng.Intn(1500))*time.Microsecond
		var wg sync.WaitGroup
		wg.Add(2)
		go func() { defer wg.Done(); do(vtqOp{Op: "PopT"}) }()
		go func() { defer wg.Done(); time.Sleep(lead); do(vtqOp{Op: "Push", Tx: 1, Prio: 1}) }()
		wg.Wait()
		time.Sleep(2 * q.pollInterval)
		for _, o := range []vtqOp{{Op: "Len"}, {Op: "Exists", Tx: 1}, {Op: "Pop"}, {Op: "Len"}} {
			do(o)
		}
		sort.Slice(all, func(i, j int) bool { return all[i].Seq < all[j].Seq })
		enc.Encode(vtqEv{Ev: "reset"})
		for _, e := range all {
			enc.Encode(e)
		}
		res.Case("timer-history", fmt.Sprint(h))
	}
	res.Behaviours = nhist + ntimer
}
