//go:build verif

// Conformance harness for C18 over an authority-set change (specs/CommitLifecycle.tla).
//
// One real lib/grandpa.Service (authority 3, a member of both sets) over real dot/state BlockState + GrandpaState.
// A linear chain whose block ChangeAt carries a scheduled change (delay 0) from set 0 = {1,2,3,4} to
// set 1 = {3,4,5,6}; the change is enacted by GrandpaState.ApplyScheduledChanges when that block is finalised
// (what digest.Handler does on the finalisation notification).  TLC-generated histories of
//
//	Commit         Service.handleCommitMessage with real ed25519 precommits signed for (round, claimed set)
//	SyncFinalise   BlockState.SetFinalisedHash + ApplyScheduledChanges without the voter (a justified block imported by sync)
//	InitiateRound  Service.initiateRound
//
// are replayed; after every Commit the finalised head says whether the commit was accepted.
package grandpa

import (
	"encoding/json"
	"fmt"
	"testing"
	"time"

	"github.com/ChainSafe/gossamer/dot/state"
	"github.com/ChainSafe/gossamer/dot/types"
	"github.com/ChainSafe/gossamer/internal/database"
	"github.com/ChainSafe/gossamer/internal/log"
	"github.com/ChainSafe/gossamer/lib/common"
	"github.com/ChainSafe/gossamer/lib/crypto/ed25519"
	"github.com/ChainSafe/gossamer/pkg/scale"
	"github.com/ChainSafe/gossamer/pkg/trie"
	"go.uber.org/mock/gomock"
)

type vclStep struct {
	O struct {
		Op      string `json:"op"`
		Signers string `json:"signers"`
		Cs      uint64 `json:"cs"`
		Target  int    `json:"target"`
		Round   uint64 `json:"round"`
	} `json:"o"`
	Res struct {
		Accept    bool `json:"accept"`
		Fresh     bool `json:"fresh"`
		Supported bool `json:"supported"`
	} `json:"res"`
	Obs struct {
		Fin  int    `json:"fin"`
		Gset uint64 `json:"gset"`
	} `json:"obs"`
}

var vclSigners = map[string][]int{"old": {1, 2, 3}, "new": {4, 5, 6}, "mixed": {2, 3, 4}, "few": {3, 4}}

type vclWorld struct {
	t    *testing.T
	keys []*ed25519.Keypair
	hdr  []*types.Header
	bs   *state.BlockState
	gs   *state.GrandpaState
	s    *Service
}

func vclVoters(keys []*ed25519.Keypair, ids []int) []types.GrandpaVoter {
	var out []types.GrandpaVoter
	for _, i := range ids {
		out = append(out, types.GrandpaVoter{Key: *keys[i-1].Public().(*ed25519.PublicKey), ID: 1})
	}
	return out
}

func vclNewWorld(t *testing.T, maxBlock, changeAt int) *vclWorld {
	w := &vclWorld{t: t}
	for i := 1; i <= 6; i++ {
		seed := make([]byte, 32)
		seed[0], seed[1] = byte(i), 0x5c
		kp, err := ed25519.NewKeypairFromSeed(seed)
		if err != nil {
			t.Fatalf("VERIF-INFRA key: %v", err)
		}
		w.keys = append(w.keys, kp)
	}
	set0 := vclVoters(w.keys, []int{1, 2, 3, 4})
	set1 := vclVoters(w.keys, []int{3, 4, 5, 6})
	gen := types.NewHeader(common.Hash{}, trie.EmptyHash, trie.EmptyHash, 0, types.NewDigest())
	w.hdr = []*types.Header{gen}
	var change types.GrandpaConsensusDigest
	for b := 1; b <= maxBlock; b++ {
		dg := types.NewDigest()
		pre, err := types.NewBabeSecondaryPlainPreDigest(0, uint64(1000+b)).ToPreRuntimeDigest()
		if err != nil {
			t.Fatalf("VERIF-INFRA predigest: %v", err)
		}
		if err := dg.Add(*pre); err != nil {
			t.Fatalf("VERIF-INFRA digest: %v", err)
		}
		if b == changeAt {
			var raw []types.GrandpaAuthoritiesRaw
			for _, v := range set1 {
				raw = append(raw, types.GrandpaAuthoritiesRaw{Key: v.Key.AsBytes(), ID: v.ID})
			}
			change = types.NewGrandpaConsensusDigest()
			if err := change.SetValue(types.GrandpaScheduledChange{Auths: raw, Delay: 0}); err != nil {
				t.Fatalf("VERIF-INFRA change digest: %v", err)
			}
			enc, err := scale.Marshal(change)
			if err != nil {
				t.Fatalf("VERIF-INFRA marshal: %v", err)
			}
			if err := dg.Add(types.ConsensusDigest{ConsensusEngineID: types.GrandpaEngineID, Data: enc}); err != nil {
				t.Fatalf("VERIF-INFRA digest: %v", err)
			}
		}
		w.hdr = append(w.hdr, types.NewHeader(w.hdr[b-1].Hash(), trie.EmptyHash, common.Hash{byte(b), 0xc1}, uint(b), dg))
	}
	db, err := database.LoadDatabase(t.TempDir(), true)
	if err != nil {
		t.Fatalf("VERIF-INFRA db: %v", err)
	}
	tries := state.NewTries()
	tries.SetEmptyTrie()
	w.bs, err = state.NewBlockStateFromGenesis(db, tries, gen, vgpTelemetry{})
	if err != nil {
		t.Fatalf("VERIF-INFRA blockstate: %v", err)
	}
	rt := NewMockInstance(gomock.NewController(t))
	rt.EXPECT().GrandpaGenerateKeyOwnershipProof(gomock.Any(), gomock.Any()).AnyTimes().
		Return(types.GrandpaOpaqueKeyOwnershipProof(nil), fmt.Errorf("no key ownership proof in the harness"))
	rt.EXPECT().Stop().AnyTimes()
	w.bs.StoreRuntime(gen.Hash(), rt)
	w.gs, err = state.NewGrandpaStateFromGenesis(db, w.bs, set0, vgpTelemetry{})
	if err != nil {
		t.Fatalf("VERIF-INFRA grandpastate: %v", err)
	}
	for b := 1; b <= maxBlock; b++ {
		if err := w.bs.AddBlockWithArrivalTime(&types.Block{Header: *w.hdr[b], Body: types.Body{}}, time.Unix(int64(1_700_000_000+b), 0)); err != nil {
			t.Fatalf("VERIF-INFRA AddBlock %d: %v", b, err)
		}
		if b == changeAt {
			if err := w.gs.HandleGRANDPADigest(w.hdr[b], change); err != nil {
				t.Fatalf("VERIF-INFRA HandleGRANDPADigest: %v", err)
			}
		}
	}
	vs := make([]Voter, len(set0))
	for i, gv := range set0 {
		vs[i] = Voter{Key: gv.Key, ID: gv.ID}
	}
	w.s, err = NewService(&Config{LogLvl: log.Critical, BlockState: w.bs, GrandpaState: w.gs, Network: vgpNetwork{},
		Voters: vs, Keypair: w.keys[2], Authority: true, Interval: time.Second, Telemetry: vgpTelemetry{}})
	if err != nil {
		t.Fatalf("VERIF-INFRA service: %v", err)
	}
	if err := w.s.initiateRound(); err != nil {
		t.Fatalf("VERIF-INFRA initiateRound: %v", err)
	}
	return w
}

func (w *vclWorld) finNumber() int {
	h, err := w.bs.GetHighestFinalisedHeader()
	if err != nil {
		w.t.Fatalf("VERIF-INFRA finalised header: %v", err)
	}
	return int(h.Number)
}

func (w *vclWorld) commit(round, cs uint64, target int, signers []int) *CommitMessage {
	v := NewVoteFromHeader(w.hdr[target])
	cm := &CommitMessage{Round: round, SetID: cs, Vote: *v}
	msg, err := scale.Marshal(FullVote{Stage: precommit, Vote: *v, Round: round, SetID: cs})
	if err != nil {
		w.t.Fatalf("VERIF-INFRA encode vote: %v", err)
	}
	for _, id := range signers {
		kp := w.keys[id-1]
		sig, err := kp.Sign(msg)
		if err != nil {
			w.t.Fatalf("VERIF-INFRA sign: %v", err)
		}
		cm.Precommits = append(cm.Precommits, *v)
		cm.AuthData = append(cm.AuthData, AuthData{Signature: ed25519.NewSignatureBytes(sig), AuthorityID: kp.Public().(*ed25519.PublicKey).AsBytes()})
	}
	return cm
}

// enact is what digest.Handler does when it learns of a finalised block
func (w *vclWorld) enact(b int) {
	if err := w.gs.ApplyScheduledChanges(w.hdr[b]); err != nil {
		w.t.Fatalf("VERIF-INFRA ApplyScheduledChanges(%d): %v", b, err)
	}
}

func TestVerifCommitLifecycle(t *testing.T) {
	res := vNewResult(vEnvStr("VERIF_PROP", "C18"))
	defer res.Write(t)
	behs := vLoad(t, vIn(t, "lifecycle.txt"))
	res.Behaviours = len(behs)
	maxBlock, changeAt := vEnvInt("VCL_MAXBLOCK", 6), vEnvInt("VCL_CHANGEAT", 2)
	for _, b := range behs {
		w := vclNewWorld(t, maxBlock, changeAt)
		var prefix []json.RawMessage
		for si, raw := range b.Steps {
			var st vclStep
			if err := json.Unmarshal(raw, &st); err != nil {
				t.Fatalf("VERIF-INFRA step json: %v", err)
			}
			prefix = append(prefix, raw)
			if si == 0 {
				res.Sample(b.Steps)
			}
			o := st.O
			failed := false
			fail := func(field, exp, got, sig string) {
				failed = true
				res.Fail(b.ID, si, o.Op, field, exp, got, "C18/lifecycle/"+sig, prefix)
			}
			view := "fresh-view"
			if !st.Res.Fresh {
				view = "stale-view"
			}
			switch o.Op {
			case "Commit":
				claimed := "claims-voters-set"
				if o.Cs != w.s.state.setID {
					claimed = "claims-other-set"
				}
				cls := fmt.Sprintf("Commit/%s/%s/%s", o.Signers, claimed, view)
				res.Case("Commit", fmt.Sprintf("%s|%v|%v", cls, st.Res.Accept, st.Res.Supported))
				before := w.finNumber()
				if before != o.Target-1 {
					t.Fatalf("VERIF-INFRA behaviour %d step %d: finalised head %d, specification %d", b.ID, si, before, o.Target-1)
				}
				if w.s.state.round != o.Round {
					fail("round", fmt.Sprint(o.Round), fmt.Sprint(w.s.state.round), cls+"/voter-round-differs")
					break
				}
				cm := w.commit(o.Round, o.Cs, o.Target, vclSigners[o.Signers])
				var err error
				pm := vTry(func() { err = w.s.handleCommitMessage(cm) })
				res.Cmp()
				after := w.finNumber()
				switch {
				case pm != "":
					fail("panic", "no panic", pm, cls+"/panic")
				case after != before && after != o.Target:
					fail("finalised", fmt.Sprint(o.Target), fmt.Sprint(after), cls+"/finalised-something-else")
				case after == o.Target && !st.Res.Accept:
					why := "not-supported-by-the-current-set"
					if st.Res.Supported {
						why = "closed-round-or-other-set"
					}
					fail("accepted", "rejected, nothing finalised", fmt.Sprintf("block %d finalised (err=%v)", after, err), cls+"/accepted/"+why)
				case after == before && st.Res.Accept:
					fail("accepted", fmt.Sprintf("block %d finalised", o.Target), fmt.Sprintf("nothing finalised (err=%v)", err), cls+"/rejected-although-supported")
				}
				if after == o.Target {
					w.enact(o.Target)
					if err := w.s.initiateRound(); err != nil {
						fail("initiateRound", "next round", err.Error(), "InitiateRound/after-commit/error")
					}
				}
			case "SyncFinalise":
				res.Case("SyncFinalise", fmt.Sprintf("%d|%s", o.Cs, view))
				if err := w.bs.SetFinalisedHash(w.hdr[o.Target].Hash(), o.Round, o.Cs); err != nil {
					t.Fatalf("VERIF-INFRA SetFinalisedHash(%d, round %d, set %d): %v [hashes: %v %v %v fin=%d]", o.Target, o.Round, o.Cs, err, w.hdr[o.Target-1].Hash(), w.hdr[o.Target].Hash(), w.hdr[min(o.Target+1, len(w.hdr)-1)].Hash(), w.finNumber())
				}
				w.enact(o.Target)
			case "InitiateRound":
				res.Case("InitiateRound", view)
				var err error
				pm := vTry(func() { err = w.s.initiateRound() })
				res.Cmp()
				if pm != "" || err != nil {
					fail("initiateRound", "next round", fmt.Sprint(pm, err), "InitiateRound/"+view+"/error")
					break
				}
				res.Cmp()
				if w.s.state.setID != st.Obs.Gset {
					fail("set id", fmt.Sprint(st.Obs.Gset), fmt.Sprint(w.s.state.setID), "InitiateRound/"+view+"/set-id")
				} else if w.s.state.round != o.Round {
					fail("round", fmt.Sprint(o.Round), fmt.Sprint(w.s.state.round), "InitiateRound/"+view+"/round")
				}
			default:
				t.Fatalf("VERIF-INFRA unknown op %q", o.Op)
			}
			if failed {
				break
			}
			// the chain state itself
			if fin := w.finNumber(); fin != st.Obs.Fin {
				fail("finalised head", fmt.Sprint(st.Obs.Fin), fmt.Sprint(fin), o.Op+"/finalised-head")
				break
			}
			if id, err := w.gs.GetCurrentSetID(); err != nil || id != st.Obs.Gset {
				t.Fatalf("VERIF-INFRA behaviour %d step %d: current set id %d (err %v), specification %d", b.ID, si, id, err, st.Obs.Gset)
			}
		}
	}
}
