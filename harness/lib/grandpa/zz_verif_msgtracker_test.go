//go:build verif

// Conformance harness for specs/MsgTracker.tla (extension family X01, beyond the listed properties): TLC-generated
// behaviours are replayed on the real votesTracker (keys block x authority) and commitsTracker (keys block) of lib/grandpa
// and after every step the tracked messages of every block, all tracked messages and the length of the internal list are
// compared with the specification.  The payload of a message is carried in its Number / Round field.
package grandpa

import (
	"encoding/json"
	"fmt"
	"sort"
	"testing"

	"github.com/ChainSafe/gossamer/lib/common"
	"github.com/ChainSafe/gossamer/lib/crypto/ed25519"
	"github.com/libp2p/go-libp2p/core/peer"
)

type vmtEntry struct {
	B int `json:"b"`
	A int `json:"a"`
	P int `json:"p"`
}

type vmtStep struct {
	O struct {
		Op string `json:"op"`
		B  int    `json:"b"`
		A  int    `json:"a"`
	} `json:"o"`
	P   int `json:"p"`
	Obs struct {
		Len int        `json:"len"`
		All []vmtEntry `json:"all"`
	} `json:"obs"`
}

func vmtHash(b int) common.Hash { return common.Hash{0xb0, byte(b)} }
func vmtAuth(a int) (id ed25519.PublicKeyBytes) {
	id[0], id[1] = 0xa0, byte(a)
	return id
}

func vmtString(es []vmtEntry) string {
	sort.Slice(es, func(i, j int) bool {
		if es[i].B != es[j].B {
			return es[i].B < es[j].B
		}
		return es[i].A < es[j].A
	})
	return fmt.Sprint(es)
}

func TestVerifMsgTracker(t *testing.T) {
	res := vNewResult(vEnvStr("VERIF_PROP", "X01"))
	defer res.Write(t)
	behs := vLoad(t, vIn(t, "behaviours.txt"))
	res.Behaviours = len(behs)
	for _, b := range behs {
		// the constants of the generating configuration are read off the behaviour: one authority 0 = commit tracker
		commits := true
		maxLen := 0
		var steps []vmtStep
		for _, raw := range b.Steps {
			var s vmtStep
			if err := json.Unmarshal(raw, &s); err != nil {
				t.Fatalf("VERIF-INFRA step json: %v", err)
			}
			if s.O.Op == "Add" && s.O.A != 0 {
				commits = false
			}
			if s.Obs.Len > maxLen {
				maxLen = s.Obs.Len
			}
			steps = append(steps, s)
		}
		capacity := vEnvInt("VERIF_TRACKER_CAP", 0)
		if capacity == 0 {
			capacity = maxLen // generated behaviours fill the store
		}
		vt := newVotesTracker(capacity)
		ct := newCommitsTracker(capacity)
		blocks := map[int]bool{}
		var prefix []json.RawMessage
		kind := "votes"
		if commits {
			kind = "commits"
		}
		for si, s := range steps {
			prefix = append(prefix, b.Steps[si])
			blocks[s.O.B] = true
			full := "not-full"
			if si > 0 && steps[si-1].Obs.Len >= capacity {
				full = "full"
			}
			res.Case(kind+"/"+s.O.Op, fmt.Sprintf("%d|%d|%s|%d", s.O.B, s.O.A, full, s.Obs.Len))
			pm := vTry(func() {
				switch {
				case s.O.Op == "Add" && commits:
					ct.add(&CommitMessage{Round: uint64(s.P), Vote: Vote{Hash: vmtHash(s.O.B), Number: uint32(s.O.B)}})
				case s.O.Op == "Add":
					vt.add(peer.ID(fmt.Sprintf("p%d", s.P)), &VoteMessage{Round: uint64(s.P), Message: SignedMessage{BlockHash: vmtHash(s.O.B), Number: uint32(s.P), AuthorityID: vmtAuth(s.O.A)}})
				case commits:
					ct.delete(vmtHash(s.O.B))
				default:
					vt.delete(vmtHash(s.O.B))
				}
			})
			sig := "X01/" + kind + "/" + s.O.Op + "/" + full + "/"
			if pm != "" {
				res.Fail(b.ID, si, s.O.Op, "panic", "no panic", pm, sig+"panic", prefix)
				break
			}
			var got []vmtEntry
			gotLen := 0
			perBlockOK := true
			if commits {
				gotLen = ct.linkedList.Len()
				ct.forEach(func(cm *CommitMessage) { got = append(got, vmtEntry{B: int(cm.Vote.Number), A: 0, P: int(cm.Round)}) })
				for blk := range blocks {
					m := ct.message(vmtHash(blk))
					want := false
					for _, e := range s.Obs.All {
						if e.B == blk {
							want = true
							if m == nil || int(m.Round) != e.P {
								perBlockOK = false
							}
						}
					}
					if !want && m != nil {
						perBlockOK = false
					}
				}
			} else {
				gotLen = vt.linkedList.Len()
				for _, m := range vt.networkVoteMessages() {
					got = append(got, vmtEntry{B: int(m.msg.Message.BlockHash[1]), A: int(m.msg.Message.AuthorityID[1]), P: int(m.msg.Round)})
				}
				for blk := range blocks {
					var mine, want []vmtEntry
					for _, m := range vt.messages(vmtHash(blk)) {
						mine = append(mine, vmtEntry{B: blk, A: int(m.msg.Message.AuthorityID[1]), P: int(m.msg.Round)})
					}
					for _, e := range s.Obs.All {
						if e.B == blk {
							want = append(want, e)
						}
					}
					if vmtString(mine) != vmtString(want) {
						perBlockOK = false
					}
				}
			}
			res.Cmp()
			exp := vmtString(append([]vmtEntry{}, s.Obs.All...))
			if gs := vmtString(got); gs != exp {
				res.Fail(b.ID, si, s.O.Op, "tracked messages", exp, gs, sig+"tracked-set", prefix)
				break
			}
			res.Cmp()
			if !perBlockOK {
				res.Fail(b.ID, si, s.O.Op, "messages of a block", exp, "per-block lookup differs from the listing", sig+"per-block", prefix)
				break
			}
			res.Cmp()
			if gotLen != s.Obs.Len {
				res.Fail(b.ID, si, s.O.Op, "entries held (linked list)", fmt.Sprint(s.Obs.Len), fmt.Sprint(gotLen), sig+"list-length", prefix)
				break
			}
		}
	}
}
