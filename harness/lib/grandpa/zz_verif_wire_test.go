//go:build verif

// Conformance harness for the GRANDPA wire layouts of specs/ChainTypes.tla (CtGrandpaMsg, CtCommit,
// CtJustification), lib/grandpa part.
//
//	C14 (TestVerifWireEnc): vote / commit / neighbour / catch-up request / catch-up response messages, and the
//	     Commit / Justification structures, encode (ToConsensusMessage, scale.Marshal) to the bytes the TLA+
//	     layouts prescribe and decode back (decodeMessage, scale.Unmarshal) to the same value.
//	     The warp sync proof (lib/grandpa/warp_sync.go WarpSyncProof: fragments of header + justification)
//	     is compared with the CtWarpProof layout, whose block numbers are 4 bytes as on Polkadot.
//	C33 (TestVerifWireDec): for every TLC-generated input (EVERY truncation of a valid message, each
//	     discriminant and each length prefix perturbed: +-1, widened, huge) the verdict of the real
//	     decodeMessage is ScDec's, an accepted message re-encodes to the consumed prefix; no panic, bounded
//	     time and allocation.  Seeded random edits of the valid messages are judged by the declarative form
//	     of the same rule (an accepted input starts with the re-encoding of what was decoded).
package grandpa

import (
	"bytes"
	"encoding/json"
	"fmt"
	"math/rand"
	"reflect"
	"runtime"
	"strings"
	"testing"
	"time"

	"github.com/ChainSafe/gossamer/dot/network"
	"github.com/ChainSafe/gossamer/dot/types"
	clientgrandpa "github.com/ChainSafe/gossamer/internal/client/consensus/grandpa"
	primgrandpa "github.com/ChainSafe/gossamer/internal/primitives/consensus/grandpa"
	"github.com/ChainSafe/gossamer/internal/primitives/core/hash"
	primruntime "github.com/ChainSafe/gossamer/internal/primitives/runtime"
	"github.com/ChainSafe/gossamer/internal/primitives/runtime/generic"
	"github.com/ChainSafe/gossamer/lib/common"
	finality "github.com/ChainSafe/gossamer/pkg/finality-grandpa"
	"github.com/ChainSafe/gossamer/pkg/scale"
)

type vwCase struct {
	O struct {
		Op  string          `json:"op"`
		Ty  string          `json:"ty"`
		V   json.RawMessage `json:"v"`
		B   VB              `json:"b"`
		Mut string          `json:"mut"`
	} `json:"o"`
	Res struct {
		Enc VB     `json:"enc"`
		Alt VB     `json:"alt"`
		Ok  bool   `json:"ok"`
		N   int    `json:"n"`
		At  string `json:"at"`
		Why string `json:"why"`
	} `json:"res"`
}

type vwEnum struct {
	I int             `json:"i"`
	V json.RawMessage `json:"v"`
}

func vwList(raw json.RawMessage) []json.RawMessage {
	s := strings.TrimSpace(string(raw))
	if s == "{}" || s == "null" || s == "" {
		return nil
	}
	var l []json.RawMessage
	if err := json.Unmarshal(raw, &l); err != nil {
		panic("VERIF-INFRA list: " + err.Error() + " " + s)
	}
	return l
}

func vwBytes(raw json.RawMessage) []byte {
	l := vwList(raw)
	b := make([]byte, len(l))
	for i, x := range l {
		var n int
		if err := json.Unmarshal(x, &n); err != nil {
			panic("VERIF-INFRA byte: " + err.Error())
		}
		b[i] = byte(n)
	}
	return b
}

func vwUint(raw json.RawMessage) uint64 {
	b := vwBytes(raw)
	var x uint64
	for i := len(b) - 1; i >= 0; i-- {
		x = x<<8 | uint64(b[i])
	}
	return x
}

func vwEnumOf(raw json.RawMessage) vwEnum {
	var e vwEnum
	if err := json.Unmarshal(raw, &e); err != nil {
		panic("VERIF-INFRA enum: " + err.Error() + " " + string(raw))
	}
	return e
}

func vwVote(raw json.RawMessage) Vote {
	f := vwList(raw)
	v := Vote{Number: uint32(vwUint(f[1]))}
	copy(v.Hash[:], vwBytes(f[0]))
	return v
}

func vwSignedVote(raw json.RawMessage) SignedVote {
	f := vwList(raw)
	sv := SignedVote{Vote: vwVote(f[0])}
	copy(sv.Signature[:], vwBytes(f[1]))
	copy(sv.AuthorityID[:], vwBytes(f[2]))
	return sv
}

func vwSignedVotes(raw json.RawMessage) []SignedVote {
	var out []SignedVote
	for _, x := range vwList(raw) {
		out = append(out, vwSignedVote(x))
	}
	return out
}

// vwMessage builds the Go message of a gossip value [i |-> variant, v |-> fields].
func vwMessage(raw json.RawMessage) GrandpaMessage {
	e := vwEnumOf(raw)
	switch e.I {
	case 0:
		f := vwList(e.V)
		s := vwList(f[2])
		sm := SignedMessage{Stage: Subround(vwUint(s[0])), Number: uint32(vwUint(s[2]))}
		copy(sm.BlockHash[:], vwBytes(s[1]))
		copy(sm.Signature[:], vwBytes(s[3]))
		copy(sm.AuthorityID[:], vwBytes(s[4]))
		return &VoteMessage{Round: vwUint(f[0]), SetID: vwUint(f[1]), Message: sm}
	case 1:
		f := vwList(e.V)
		m := &CommitMessage{Round: vwUint(f[0]), SetID: vwUint(f[1]), Vote: vwVote(f[2])}
		for _, x := range vwList(f[3]) {
			m.Precommits = append(m.Precommits, vwVote(x))
		}
		for _, x := range vwList(f[4]) {
			a := vwList(x)
			var ad AuthData
			copy(ad.Signature[:], vwBytes(a[0]))
			copy(ad.AuthorityID[:], vwBytes(a[1]))
			m.AuthData = append(m.AuthData, ad)
		}
		return m
	case 2:
		ver := vwEnumOf(e.V)
		if ver.I != 1 {
			panic("VERIF-INFRA neighbour version")
		}
		f := vwList(ver.V)
		return &NeighbourPacketV1{Round: vwUint(f[0]), SetID: vwUint(f[1]), Number: uint32(vwUint(f[2]))}
	case 3:
		f := vwList(e.V)
		return &CatchUpRequest{Round: vwUint(f[0]), SetID: vwUint(f[1])}
	case 4:
		f := vwList(e.V)
		m := &CatchUpResponse{SetID: vwUint(f[0]), Round: vwUint(f[1]), PreVoteJustification: vwSignedVotes(f[2]),
			PreCommitJustification: vwSignedVotes(f[3]), Number: uint32(vwUint(f[5]))}
		copy(m.Hash[:], vwBytes(f[4]))
		return m
	}
	panic("VERIF-INFRA gossip variant")
}

// vwNorm makes empty slices nil so that reflect.DeepEqual compares values, not allocation history.
func vwNorm(m any) any {
	switch x := m.(type) {
	case *CommitMessage:
		c := *x
		if len(c.Precommits) == 0 {
			c.Precommits = nil
		}
		if len(c.AuthData) == 0 {
			c.AuthData = nil
		}
		return &c
	case *CatchUpResponse:
		c := *x
		if len(c.PreVoteJustification) == 0 {
			c.PreVoteJustification = nil
		}
		if len(c.PreCommitJustification) == 0 {
			c.PreCommitJustification = nil
		}
		return &c
	case Commit:
		if len(x.Precommits) == 0 {
			x.Precommits = nil
		}
		return x
	case Justification:
		if len(x.Commit.Precommits) == 0 {
			x.Commit.Precommits = nil
		}
		return x
	}
	return m
}

func vwShow(m any) string { return fmt.Sprintf("%T%+v", m, reflect.Indirect(reflect.ValueOf(m)).Interface()) }

var vwVariants = []string{"gvote", "gcommit", "gneighbour", "gcatchupreq", "gcatchupresp"}

func vwGossip(ty string) bool {
	switch ty {
	case "gvote", "gcommit", "gneighbour", "gcatchupreq", "gcatchupresp":
		return true
	}
	return false
}

// vwHeader builds a dot/types header from a header value (parent, number, state root, extrinsics root, digest).
func vwHeader(raw json.RawMessage) types.Header {
	f := vwList(raw)
	d := types.NewDigest()
	for _, x := range vwList(f[4]) {
		it := vwEnumOf(x)
		var err error
		switch it.I {
		case 4, 5, 6:
			p := vwList(it.V)
			var id types.ConsensusEngineID
			copy(id[:], vwBytes(p[0]))
			data := vwBytes(p[1])
			switch it.I {
			case 4:
				err = d.Add(types.ConsensusDigest{ConsensusEngineID: id, Data: data})
			case 5:
				err = d.Add(types.SealDigest{ConsensusEngineID: id, Data: data})
			case 6:
				err = d.Add(types.PreRuntimeDigest{ConsensusEngineID: id, Data: data})
			}
		case 8:
			err = d.Add(types.RuntimeEnvironmentUpdated{})
		default:
			panic("VERIF-INFRA warp fragment header with an unrepresentable digest item")
		}
		if err != nil {
			panic("VERIF-INFRA digest add: " + err.Error())
		}
	}
	return *types.NewHeader(common.BytesToHash(vwBytes(f[0])), common.BytesToHash(vwBytes(f[2])), common.BytesToHash(vwBytes(f[3])), uint(vwUint(f[1])), d)
}

// vwWarpProof builds the proof; the Go type fixes the block number type of the justification (uint64).
func vwWarpProof(raw json.RawMessage) WarpSyncProof {
	top := vwList(raw)
	w := NewWarpSyncProof()
	if err := json.Unmarshal(top[1], &w.IsFinished); err != nil {
		panic("VERIF-INFRA is-finished")
	}
	for _, fr := range vwList(top[0]) {
		ff := vwList(fr)
		jf := vwList(ff[1])
		cf := vwList(jf[1])
		j := primgrandpa.GrandpaJustification[hash.H256, uint64]{Round: vwUint(jf[0])}
		j.Commit.TargetHash = hash.H256(vwBytes(cf[0]))
		j.Commit.TargetNumber = vwUint(cf[1])
		for _, x := range vwList(cf[2]) {
			sv := vwList(x)
			v := vwList(sv[0])
			sp := finality.SignedPrecommit[hash.H256, uint64, primgrandpa.AuthoritySignature, primgrandpa.AuthorityID]{
				Precommit: finality.Precommit[hash.H256, uint64]{TargetHash: hash.H256(vwBytes(v[0])), TargetNumber: vwUint(v[1])}}
			copy(sp.Signature[:], vwBytes(sv[1]))
			copy(sp.ID[:], vwBytes(sv[2]))
			j.Commit.Precommits = append(j.Commit.Precommits, sp)
		}
		j.VoteAncestries = make([]primruntime.Header[uint64, hash.H256], 0)
		for _, x := range vwList(jf[2]) {
			h := vwList(x)
			j.VoteAncestries = append(j.VoteAncestries, generic.NewHeader[uint64, hash.H256, primruntime.BlakeTwo256](
				vwUint(h[1]), hash.H256(vwBytes(h[3])), hash.H256(vwBytes(h[2])), hash.H256(vwBytes(h[0])), primruntime.Digest{}))
		}
		w.Proofs = append(w.Proofs, WarpSyncFragment{Header: vwHeader(ff[0]),
			Justification: clientgrandpa.GrandpaJustification[hash.H256, uint64]{Justification: j}})
	}
	return w
}

// ---- C14 ------------------------------------------------------------------------------------

func TestVerifWireEnc(t *testing.T) {
	res := vNewResult("C14")
	defer res.Write(t)
	behs := vLoad(t, vIn(t, "behaviours.txt"))
	res.Behaviours = len(behs)
	for bi, bh := range behs {
		for si, raw := range bh.Steps {
			var c vwCase
			if err := json.Unmarshal(raw, &c); err != nil {
				t.Fatalf("VERIF-INFRA case json: %v", err)
			}
			if c.O.Op != "enc" || !(vwGossip(c.O.Ty) || c.O.Ty == "gcommitj" || c.O.Ty == "gjust" || c.O.Ty == "warpproof") {
				continue
			}
			prefix := json.RawMessage("[" + string(raw) + "]")
			exp := c.Res.Enc.Bytes()
			ty := c.O.Ty
			fail := func(field, e, g, sig string) { res.Fail(bi, si, ty, field, e, g, sig, prefix) }
			res.Case(ty, string(c.O.V))
			if len(res.Samples) < 3 {
				res.Sample(json.RawMessage(raw))
			}
			pm := vTry(func() {
				switch {
				case vwGossip(ty):
					m := vwMessage(c.O.V)
					cm, err := m.ToConsensusMessage()
					res.Cmp()
					if err != nil {
						fail("ToConsensusMessage", vHex(exp), "error: "+err.Error(), "C14/"+ty+"/encode/error")
					} else if !bytes.Equal(cm.Data, exp) {
						fail("ToConsensusMessage", vHex(exp), vHex(cm.Data), "C14/"+ty+"/encode/bytes")
					}
					// the consensus message is the bytes themselves on the wire
					if cm != nil {
						w, err := cm.Encode()
						res.Cmp()
						if err != nil || !bytes.Equal(w, exp) {
							fail("ConsensusMessage.Encode", vHex(exp), vHex(w)+fmt.Sprint(err), "C14/"+ty+"/encode/consensus-wrapper")
						}
					}
					// decode the specification's bytes: network layer, then the GRANDPA layer
					var s *Service
					nm, err := s.decodeMessage(append([]byte(nil), exp...))
					res.Cmp()
					if err != nil {
						fail("Service.decodeMessage", "a consensus message", "error: "+err.Error(), "C14/"+ty+"/decode/consensus-wrapper")
						return
					}
					back, err := decodeMessage(nm.(*network.ConsensusMessage))
					res.Cmp()
					if err != nil {
						fail("decodeMessage", vwShow(m), "error: "+err.Error(), "C14/"+ty+"/decode/error")
					} else if !reflect.DeepEqual(vwNorm(back), vwNorm(m)) {
						fail("decodeMessage", vwShow(m), vwShow(back), "C14/"+ty+"/decode/value")
					}
				case ty == "warpproof":
					w := vwWarpProof(c.O.V)
					cls := fmt.Sprintf("%d-fragments", len(w.Proofs))
					if len(w.Proofs) > 0 {
						cls = "with-fragments"
					}
					enc, err := scale.Marshal(w)
					res.Cmp()
					switch {
					case err != nil:
						fail("Marshal(WarpSyncProof)", vHex(exp), "error: "+err.Error(), "C14/warpproof/"+cls+"/encode/error")
					case bytes.Equal(enc, exp):
					case bytes.Equal(enc, c.Res.Alt.Bytes()):
						fail("Marshal(WarpSyncProof)", vHex(exp), vHex(enc), "C14/warpproof/"+cls+"/encode/block-number-8-bytes")
					default:
						fail("Marshal(WarpSyncProof)", vHex(exp), vHex(enc), "C14/warpproof/"+cls+"/encode/bytes")
					}
					// what this node wrote it must be able to read (WarpSyncProofProvider.Verify starts with this)
					if err == nil {
						var back WarpSyncProof
						var derr error
						res.Cmp()
						if pm := vTry(func() { derr = scale.Unmarshal(enc, &back) }); pm != "" {
							fail("Unmarshal(Marshal(WarpSyncProof))", "the proof", pm, "C14/warpproof/"+cls+"/decode-own/panic")
						} else if derr != nil {
							fail("Unmarshal(Marshal(WarpSyncProof))", "the proof", "error: "+derr.Error(), "C14/warpproof/"+cls+"/decode-own/error")
						} else if re, err := scale.Marshal(back); err != nil || !bytes.Equal(re, enc) {
							fail("Marshal(Unmarshal(Marshal(WarpSyncProof)))", vHex(enc), vHex(re)+fmt.Sprint(err), "C14/warpproof/"+cls+"/decode-own/value")
						}
					}
				case ty == "gcommitj":
					f := vwList(c.O.V)
					cmt := Commit{Number: uint32(vwUint(f[1])), Precommits: vwSignedVotes(f[2])}
					copy(cmt.Hash[:], vwBytes(f[0]))
					enc, err := scale.Marshal(cmt)
					res.Cmp()
					if err != nil || !bytes.Equal(enc, exp) {
						fail("Marshal(Commit)", vHex(exp), vHex(enc)+fmt.Sprint(err), "C14/gcommitj/encode")
					}
					var back Commit
					res.Cmp()
					if err := scale.Unmarshal(exp, &back); err != nil {
						fail("Unmarshal(Commit)", vwShow(cmt), "error: "+err.Error(), "C14/gcommitj/decode/error")
					} else if !reflect.DeepEqual(vwNorm(back), vwNorm(cmt)) {
						fail("Unmarshal(Commit)", vwShow(cmt), vwShow(back), "C14/gcommitj/decode/value")
					}
				case ty == "gjust":
					f := vwList(c.O.V)
					cf := vwList(f[1])
					var h common.Hash
					copy(h[:], vwBytes(cf[0]))
					j := *newJustification(vwUint(f[0]), h, uint32(vwUint(cf[1])), vwSignedVotes(cf[2]))
					enc, err := scale.Marshal(j)
					res.Cmp()
					if err != nil || !bytes.Equal(enc, exp) {
						fail("Marshal(Justification)", vHex(exp), vHex(enc)+fmt.Sprint(err), "C14/gjust/encode")
					}
					var back Justification
					res.Cmp()
					if err := scale.Unmarshal(exp, &back); err != nil {
						fail("Unmarshal(Justification)", vwShow(j), "error: "+err.Error(), "C14/gjust/decode/error")
					} else if !reflect.DeepEqual(vwNorm(back), vwNorm(j)) {
						fail("Unmarshal(Justification)", vwShow(j), vwShow(back), "C14/gjust/decode/value")
					}
					// a commit message is the justification's votes and signatures regrouped
					pcs, ads := justificationToCompact(j.Commit.Precommits)
					again, err := compactToJustification(pcs, ads)
					res.Cmp()
					if err != nil || !reflect.DeepEqual(vwNorm(Commit{Precommits: again}), vwNorm(Commit{Precommits: j.Commit.Precommits})) {
						fail("compactToJustification(justificationToCompact)", fmt.Sprint(j.Commit.Precommits), fmt.Sprint(again, err), "C14/gjust/compact-roundtrip")
					}
				}
			})
			if pm != "" {
				if strings.Contains(pm, "VERIF-INFRA") {
					t.Fatalf("%s on %s", pm, raw)
				}
				fail("panic", "no panic", pm, "C14/"+ty+"/panic")
			}
		}
	}
}

// ---- C33 ------------------------------------------------------------------------------------

func vwAllocDuring(f func()) uint64 {
	var m0, m1 runtime.MemStats
	runtime.ReadMemStats(&m0)
	f()
	runtime.ReadMemStats(&m1)
	return m1.TotalAlloc - m0.TotalAlloc
}

func vwBudget(n int) uint64 { return 256<<10 + 1024*uint64(n) }

// vwDecode is the path peer bytes take: Service.decodeMessage (network layer), then decodeMessage.
func vwDecode(b []byte) (GrandpaMessage, error) {
	var s *Service
	nm, err := s.decodeMessage(b)
	if err != nil {
		return nil, err
	}
	return decodeMessage(nm.(*network.ConsensusMessage))
}

func vwGuarded(b []byte) (m GrandpaMessage, err error, pm string, timeout bool, alloc uint64) {
	in := append([]byte(nil), b...)
	pm, timeout = vGuard(20*time.Second, func() {
		alloc = vwAllocDuring(func() { m, err = vwDecode(in) })
	})
	return
}

func vwZeroFilled(b, re []byte) bool {
	if len(re) <= len(b) || !bytes.Equal(re[:len(b)], b) {
		return false
	}
	for _, x := range re[len(b):] {
		if x != 0 {
			return false
		}
	}
	return true
}

func TestVerifWireDec(t *testing.T) {
	res := vNewResult("C33")
	defer res.Write(t)
	behs := vLoad(t, vIn(t, "behaviours.txt"))
	res.Behaviours = len(behs)
	var valid [][]byte
	for bi, bh := range behs {
		for si, raw := range bh.Steps {
			var c vwCase
			if err := json.Unmarshal(raw, &c); err != nil {
				t.Fatalf("VERIF-INFRA case json: %v", err)
			}
			if c.O.Op != "dec" || !vwGossip(c.O.Ty) {
				continue
			}
			prefix := json.RawMessage("[" + string(raw) + "]")
			b := c.O.B.Bytes()
			ty := c.O.Ty
			if c.O.Mut == "valid" {
				valid = append(valid, b)
			}
			key := ""
			if c.Res.Ok || c.Res.Why != "short" {
				key = vHex(b)
			}
			res.Case(ty+"/"+c.O.Mut, key)
			if len(res.Samples) < 3 && c.O.Mut != "trunc" {
				res.Sample(json.RawMessage(raw))
			}
			// signatures name the variant the INPUT announces in its first byte (a mutation may turn one
			// message into another), falling back to the variant the mutation started from
			vt := ty
			if len(b) > 0 && int(b[0]) < len(vwVariants) {
				vt = vwVariants[b[0]]
			}
			where := vt
			spec := "accept"
			if !c.Res.Ok {
				where = vt + "/" + c.Res.At + "/" + c.Res.Why
				spec = "reject(" + c.Res.At + "/" + c.Res.Why + ")"
			}
			fail := func(field, e, g, sig string) { res.Fail(bi, si, ty, field, e, g, sig, prefix) }
			m, err, pm, to, alloc := vwGuarded(b)
			res.Cmp()
			switch {
			case to:
				fail("decode", spec, "timeout", "C33/timeout/"+where)
				continue
			case pm != "":
				fail("decode", spec, pm, "C33/panic/"+where)
				continue
			}
			if alloc > vwBudget(len(b)) {
				fail("allocation", fmt.Sprintf("<= %d bytes for %d input bytes", vwBudget(len(b)), len(b)), fmt.Sprint(alloc), "C33/alloc/"+where)
			}
			if err != nil {
				if c.Res.Ok {
					fail("decode", spec, "error: "+err.Error(), "C33/"+vt+"/rejects-valid/"+c.O.Mut)
				}
				continue
			}
			var re []byte
			if pm := vTry(func() {
				cm, e2 := m.ToConsensusMessage()
				if e2 != nil {
					panic("re-encode error: " + e2.Error())
				}
				re = cm.Data
			}); pm != "" {
				fail("re-encode", "bytes", pm, "C33/"+vt+"/reencode-panic")
				continue
			}
			if !c.Res.Ok {
				// the pinned tree zero-fills a fixed-width integer cut short at the very end of the input
				// (C12: decodeState ignores the byte count of Read); anything else is a different defect
				sig := "C33/" + where + "/accepted"
				if !(c.Res.Why == "short" && vwZeroFilled(b, re)) {
					sig += "-unexplained"
				}
				fail("decode", spec, "accepted: "+vwShow(m), sig)
				continue
			}
			// accepted by both: "Successfully decoded messages re-encode to equal messages"
			res.Cmp()
			if !bytes.Equal(re, b[:c.Res.N]) {
				fail("re-encode", vHex(b[:c.Res.N]), vHex(re), "C33/"+vt+"/reencode")
			}
		}
	}
	vwSeeded(res, valid)
	vwSeededWarp(res)
}

// vwSeededWarp: the warp sync proof decoder (the first statement of WarpSyncProofProvider.Verify is
// scale.Unmarshal into WarpSyncProof) on seeded edits of proofs in the layout this node itself writes
// (8-byte block numbers, see C14), with 0, 1 and 2 ancestry headers.  Declarative rules only.
func vwSeededWarp(res *vResult) {
	hdr := func(n byte) []byte {
		h := append(append(bytes.Repeat([]byte{n}, 32), n<<2), bytes.Repeat([]byte{n + 1}, 64)...)
		return append(h, 0)
	}
	var bases [][]byte
	for anc := 0; anc <= 2; anc++ {
		b := []byte{4}
		b = append(b, hdr(7)...)
		b = append(b, 1, 0, 0, 0, 0, 0, 0, 0)             // round
		b = append(b, bytes.Repeat([]byte{9}, 32)...)     // commit target hash
		b = append(b, 7, 0, 0, 0, 0, 0, 0, 0)             // commit target number
		b = append(b, 4)                                  // one precommit
		b = append(b, bytes.Repeat([]byte{9}, 32)...)     //   target hash
		b = append(b, 7, 0, 0, 0, 0, 0, 0, 0)             //   target number
		b = append(b, bytes.Repeat([]byte{3}, 64+32)...)  //   signature, id
		b = append(b, byte(anc<<2))
		for i := 0; i < anc; i++ {
			b = append(b, hdr(byte(5+i))...)
		}
		bases = append(bases, append(b, 1))
	}
	rng := rand.New(rand.NewSource(vSeed() + 77))
	n := 600
	if vThorough() {
		n = 12000
	}
	small := []byte{0, 1, 2, 3, 4, 5, 8, 12, 16, 0x7f, 0x80, 0xfc, 0xfd, 0xfe, 0xff}
	for i := 0; i < n; i++ {
		b := append([]byte(nil), bases[i%len(bases)]...)
		if i >= len(bases) {
			switch k := rng.Intn(5); {
			case k == 0:
				b = b[:rng.Intn(len(b))]
			case k <= 2:
				b[rng.Intn(len(b))] = small[rng.Intn(len(small))]
			case k == 3:
				p := rng.Intn(len(b))
				b = append(b[:p], b[p+1:]...)
			default:
				p := rng.Intn(len(b) + 1)
				b = append(b[:p], append([]byte{small[rng.Intn(len(small))]}, b[p:]...)...)
			}
		}
		// the headers hold byte strings (digest items): a length prefix in 4-byte or big-integer mode can declare
		// gigabytes which the SCALE library allocates up front (recorded under C12): keep such bytes out
		for j := range b {
			if b[j]&3 >= 2 {
				b[j] &^= 2
			}
		}
		res.Case("seeded/warpproof", "")
		raw := json.RawMessage(vJSON([]any{map[string]any{"o": map[string]any{"op": "seeded", "ty": "warpproof", "b": b}}}))
		var p WarpSyncProof
		var err error
		var alloc uint64
		in := append([]byte(nil), b...)
		pm, to := vGuard(20*time.Second, func() { alloc = vwAllocDuring(func() { err = scale.Unmarshal(in, &p) }) })
		res.Cmp()
		switch {
		case to:
			res.Fail(-1, i, "warpproof", "decode", "proof or error", "timeout", "C33/seeded/warpproof/timeout", raw)
			continue
		case pm != "":
			cl := "other"
			if strings.Contains(pm, "nil pointer dereference") {
				cl = "nil-pointer"
			}
			res.Fail(-1, i, "warpproof", "decode", "proof or error", pm, "C33/seeded/warpproof/panic/"+cl, raw)
			continue
		}
		if alloc > vwBudget(len(b))+1<<20 {
			res.Fail(-1, i, "warpproof", "allocation", fmt.Sprint("<= ", vwBudget(len(b))+1<<20), fmt.Sprint(alloc), "C33/seeded/warpproof/alloc", raw)
		}
		if err != nil {
			if i < len(bases) {
				res.Fail(-1, i, "warpproof", "decode(valid)", "proof", "error: "+err.Error(), "C33/seeded/warpproof/rejects-valid", raw)
			}
			continue
		}
		re, err2 := scale.Marshal(p)
		res.Cmp()
		switch {
		case err2 != nil:
			res.Fail(-1, i, "warpproof", "re-encode", "bytes", "error: "+err2.Error(), "C33/seeded/warpproof/reencode-error", raw)
		case vwZeroFilled(b, re):
			res.Fail(-1, i, "warpproof", "decode", "error (input ends inside a fixed-width integer)", "accepted", "C33/seeded/warpproof/zero-filled", raw)
		case !bytes.HasPrefix(b, re):
			res.Fail(-1, i, "warpproof", "decode", "accepted input starts with the encoding of the decoded proof", vHex(re), "C33/seeded/warpproof/not-canonical-prefix", raw)
		}
	}
}

// vwSeeded: seeded random edits of the valid messages, judged declaratively: no panic, bounded time and
// allocation, and an accepted input starts with the re-encoding of the decoded message (SCALE is
// canonical: the consumed prefix IS the encoding), which decodes to the same message again.
func vwSeeded(res *vResult, valid [][]byte) {
	if len(valid) == 0 {
		return
	}
	rng := rand.New(rand.NewSource(vSeed()))
	n := 3000
	if vThorough() {
		n = 60000
	}
	small := []byte{0, 1, 2, 3, 4, 5, 8, 12, 16, 0x7f, 0x80, 0xfc, 0xfd, 0xfe, 0xff}
	for i := 0; i < n; i++ {
		b := append([]byte(nil), valid[rng.Intn(len(valid))]...)
		for edits := 1 + rng.Intn(3); edits > 0; edits-- {
			switch k := rng.Intn(7); {
			case k == 0 && len(b) > 0:
				b = b[:rng.Intn(len(b))]
			case k <= 2 && len(b) > 0:
				b[rng.Intn(len(b))] = small[rng.Intn(len(small))]
			case k == 3 && len(b) > 0:
				b[rng.Intn(len(b))] = byte(rng.Intn(256))
			case k == 4 && len(b) > 0:
				p := rng.Intn(len(b))
				b = append(b[:p], b[p+1:]...)
			case k == 5:
				p := rng.Intn(len(b) + 1)
				b = append(b[:p], append([]byte{small[rng.Intn(len(small))]}, b[p:]...)...)
			default:
				// splice the tail of another valid message behind a prefix of this one
				o := valid[rng.Intn(len(valid))]
				if len(b) > 0 && len(o) > 0 {
					b = append(b[:rng.Intn(len(b))], o[rng.Intn(len(o)):]...)
				}
			}
		}
		res.Case("seeded/gossip", "")
		raw := json.RawMessage(vJSON([]any{map[string]any{"o": map[string]any{"op": "seeded", "ty": "gossip", "b": b}}}))
		m, err, pm, to, alloc := vwGuarded(b)
		res.Cmp()
		switch {
		case to:
			res.Fail(-1, i, "gossip", "decode", "message or error", "timeout", "C33/seeded/gossip/timeout", raw)
			continue
		case pm != "":
			res.Fail(-1, i, "gossip", "decode", "message or error", pm, "C33/seeded/gossip/panic", raw)
			continue
		}
		if alloc > vwBudget(len(b)) {
			res.Fail(-1, i, "gossip", "allocation", fmt.Sprint("<= ", vwBudget(len(b))), fmt.Sprint(alloc), "C33/seeded/gossip/alloc", raw)
		}
		if err != nil {
			continue
		}
		var re []byte
		var m2 GrandpaMessage
		var err2 error
		if pm := vTry(func() {
			var cm *ConsensusMessage
			cm, err2 = m.ToConsensusMessage()
			if err2 == nil {
				re = cm.Data
				m2, err2 = vwDecode(append([]byte(nil), re...))
			}
		}); pm != "" {
			res.Fail(-1, i, "gossip", "re-encode", "equal message", pm, "C33/seeded/gossip/reencode-panic", raw)
			continue
		}
		res.Cmp()
		switch {
		case err2 != nil:
			res.Fail(-1, i, "gossip", "re-encode", "equal message", "error: "+err2.Error(), "C33/seeded/gossip/reencode-error", raw)
		case !reflect.DeepEqual(vwNorm(m2), vwNorm(m)):
			res.Fail(-1, i, "gossip", "re-encode", vwShow(m), vwShow(m2), "C33/seeded/gossip/reencode-differs", raw)
		case vwZeroFilled(b, re):
			res.Fail(-1, i, "gossip", "decode", "error (input ends inside a fixed-width integer)", "accepted: "+vwShow(m), "C33/seeded/gossip/zero-filled", raw)
		case !bytes.HasPrefix(b, re):
			res.Fail(-1, i, "gossip", "decode", "accepted input starts with the encoding of the decoded message", vHex(re), "C33/seeded/gossip/not-canonical-prefix", raw)
		}
	}
}
