//go:build verif

// Conformance harness for specs/CommitAccept.tla (C18) and specs/VoterChoice.tla (C21).
// A real Service (struct built in-package) over a REAL dot/state BlockState holding the
// case's block tree; deterministic ed25519 keypairs; real signatures over
// FullVote{stage, vote, round, setID}.  Invalid signature kinds are realised by signing
// another round / another set id / flipping one signature bit.
//
// C18: handleCommitMessage(commit) -- observed: SetFinalisedHash calls on the block state.
//      Checked: finalised  =>  specification's CAEnough.
// C21: validateVoteMessage for every message, then per-block totals of both stages,
//      determinePreCommit, attemptToFinalize (finalised hash observed on the block state).

package grandpa

import (
	"encoding/json"
	"errors"
	"fmt"
	"io"
	"math/rand"
	"sync"
	"testing"

	"github.com/ChainSafe/gossamer/dot/network"
	"github.com/ChainSafe/gossamer/dot/state"
	"github.com/ChainSafe/gossamer/dot/types"
	"github.com/ChainSafe/gossamer/internal/database"
	"github.com/ChainSafe/gossamer/internal/log"
	"github.com/ChainSafe/gossamer/lib/common"
	"github.com/ChainSafe/gossamer/lib/crypto/ed25519"
	"github.com/ChainSafe/gossamer/pkg/scale"
	"github.com/ChainSafe/gossamer/pkg/trie"
	"github.com/libp2p/go-libp2p/core/peer"
	"github.com/libp2p/go-libp2p/core/protocol"
	"go.uber.org/mock/gomock"
)

const (
	vgpRound = 1
	vgpSetID = 0
)

type vgpTelemetry struct{}

func (vgpTelemetry) SendMessage(json.Marshaler) {}

// vgpBlockState records SetFinalisedHash calls made by the service under test.
type vgpBlockState struct {
	*state.BlockState
	finalised []common.Hash
}

func (b *vgpBlockState) SetFinalisedHash(h common.Hash, round, setID uint64) error {
	err := b.BlockState.SetFinalisedHash(h, round, setID)
	if err == nil {
		b.finalised = append(b.finalised, h)
	}
	return err
}

// vgpGrandpaState is an in-memory GrandpaState; change is the block number of the pending
// authority change (0 = none).
type vgpGrandpaState struct{ change uint }

func (g *vgpGrandpaState) GetCurrentSetID() (uint64, error)                    { return vgpSetID, nil }
func (g *vgpGrandpaState) GetAuthorities(uint64) ([]types.GrandpaVoter, error) { return nil, nil }
func (g *vgpGrandpaState) GetSetIDByBlockNumber(uint) (uint64, error)          { return vgpSetID, nil }
func (g *vgpGrandpaState) SetLatestRound(uint64) error                         { return nil }
func (g *vgpGrandpaState) GetLatestRound() (uint64, error)                     { return vgpRound, nil }
func (g *vgpGrandpaState) SetPrevotes(uint64, uint64, []SignedVote) error      { return nil }
func (g *vgpGrandpaState) SetPrecommits(uint64, uint64, []SignedVote) error    { return nil }
func (g *vgpGrandpaState) GetPrevotes(uint64, uint64) ([]SignedVote, error)    { return nil, nil }
func (g *vgpGrandpaState) GetPrecommits(uint64, uint64) ([]SignedVote, error) {
	return nil, nil
}
func (g *vgpGrandpaState) NextGrandpaAuthorityChange(common.Hash, uint) (uint, error) {
	if g.change == 0 {
		return 0, state.ErrNoNextAuthorityChange
	}
	return g.change, nil
}
func (g *vgpGrandpaState) GetAuthoritiesChangesFromBlock(uint) ([]uint, error) { return nil, nil }

type vgpNetwork struct{}

func (vgpNetwork) GossipMessage(NotificationsMessage)              {}
func (vgpNetwork) SendMessage(peer.ID, NotificationsMessage) error { return nil }
func (vgpNetwork) RegisterNotificationsProtocol(protocol.ID, network.MessageType, network.HandshakeGetter,
	network.HandshakeDecoder, network.HandshakeValidator, network.MessageDecoder,
	network.NotificationsMessageHandler, network.NotificationsMessageBatchHandler, uint64) error {
	return nil
}

var (
	vgpKeyMu sync.Mutex
	vgpKeys  = map[int]*ed25519.Keypair{}
)

func vgpKey(id int) *ed25519.Keypair {
	vgpKeyMu.Lock()
	defer vgpKeyMu.Unlock()
	if k, ok := vgpKeys[id]; ok {
		return k
	}
	seed := make([]byte, 32)
	for i := range seed {
		seed[i] = byte(id*7 + i)
	}
	k, err := ed25519.NewKeypairFromSeed(seed)
	if err != nil {
		panic(err)
	}
	vgpKeys[id] = k
	return k
}

type vgpEnv struct {
	svc     *Service
	bs      *vgpBlockState
	headers []*types.Header // index b-1
	hashes  []common.Hash
	db      database.Database
}

func (e *vgpEnv) close() { _ = e.db.Close() }

func (e *vgpEnv) blockOf(h common.Hash) int {
	for i, x := range e.hashes {
		if x == h {
			return i + 1
		}
	}
	return 0
}

func vgpDigest(slot uint64) types.Digest {
	bd := types.NewBabeDigest()
	if err := bd.SetValue(types.BabePrimaryPreDigest{AuthorityIndex: 0, SlotNumber: slot}); err != nil {
		panic(err)
	}
	enc, err := scale.Marshal(bd)
	if err != nil {
		panic(err)
	}
	d := types.NewDigest()
	if err := d.Add(types.PreRuntimeDigest{ConsensusEngineID: types.BabeEngineID, Data: enc}); err != nil {
		panic(err)
	}
	return d
}

// vgpNewEnv builds the tree in a fresh real BlockState (root = genesis, number 0), finalises
// block head when it is not the root, and builds a Service whose n voters are remote.
func vgpNewEnv(t *testing.T, par []int, n int, head int, change uint) *vgpEnv {
	db, err := database.LoadDatabase(t.TempDir(), true)
	if err != nil {
		t.Fatalf("VERIF-INFRA db: %v", err)
	}
	genesis := types.NewHeader(common.Hash{}, trie.EmptyHash, trie.EmptyHash, 0, types.NewDigest())
	rbs, err := state.NewBlockStateFromGenesis(db, state.NewTries(), genesis, vgpTelemetry{})
	if err != nil {
		t.Fatalf("VERIF-INFRA block state: %v", err)
	}
	e := &vgpEnv{bs: &vgpBlockState{BlockState: rbs}, db: db}
	e.headers = append(e.headers, genesis)
	e.hashes = append(e.hashes, genesis.Hash())
	// a node always has a runtime for its blocks; equivocation reports go to this stub
	// (the package's generated gomock Instance)
	rt := NewMockInstance(gomock.NewController(t))
	rt.EXPECT().GrandpaGenerateKeyOwnershipProof(gomock.Any(), gomock.Any()).
		Return(types.GrandpaOpaqueKeyOwnershipProof{1}, nil).AnyTimes()
	rt.EXPECT().GrandpaSubmitReportEquivocationUnsignedExtrinsic(gomock.Any(), gomock.Any()).Return(nil).AnyTimes()
	rbs.StoreRuntime(genesis.Hash(), rt)
	for i := 1; i < len(par); i++ {
		p := e.headers[par[i]-1]
		h := types.NewHeader(p.Hash(), trie.EmptyHash, trie.EmptyHash, p.Number+1, vgpDigest(uint64(100+i)))
		if err := rbs.AddBlock(&types.Block{Header: *h, Body: types.Body{}}); err != nil {
			t.Fatalf("VERIF-INFRA add block: %v", err)
		}
		rbs.StoreRuntime(h.Hash(), rt)
		e.headers = append(e.headers, h)
		e.hashes = append(e.hashes, h.Hash())
	}
	if head != 1 {
		if err := rbs.SetFinalisedHash(e.hashes[head-1], 0, 0); err != nil {
			t.Fatalf("VERIF-INFRA finalise head: %v", err)
		}
	}
	voters := make([]Voter, n)
	for i := 1; i <= n; i++ {
		voters[i-1] = Voter{Key: *vgpKey(i).Public().(*ed25519.PublicKey), ID: uint64(i)}
	}
	s := &Service{
		state:              NewState(voters, vgpSetID, vgpRound),
		blockState:         e.bs,
		grandpaState:       &vgpGrandpaState{change: change},
		keypair:            vgpKey(99), // the node itself is not one of the n voters
		authority:          false,
		prevotes:           new(sync.Map),
		precommits:         new(sync.Map),
		pvEquivocations:    make(map[ed25519.PublicKeyBytes][]*SignedVote),
		pcEquivocations:    make(map[ed25519.PublicKeyBytes][]*SignedVote),
		preVotedBlock:      make(map[uint64]*Vote),
		bestFinalCandidate: make(map[uint64]*Vote),
		head:               e.headers[head-1],
		resumed:            make(chan struct{}),
		network:            vgpNetwork{},
		telemetry:          vgpTelemetry{},
	}
	s.messageHandler = NewMessageHandler(s, e.bs, vgpTelemetry{})
	s.tracker = newTracker(e.bs, s.messageHandler)
	s.paused.Store(false)
	e.svc = s
	return e
}

// vgpSign signs FullVote{stage, vote, round, set}; kind != "ok" makes the signature invalid
// for (vgpRound, vgpSetID).
func vgpSign(id int, stage Subround, v Vote, kind string) [64]byte {
	round, set := uint64(vgpRound), uint64(vgpSetID)
	flip := false
	switch kind {
	case "ok":
	case "wronground":
		round += 1
	case "wrongset":
		set += 1
	case "badsig":
		flip = true
	default: // "bad": pick one of the three deterministically
		switch (id + int(v.Number)) % 3 {
		case 0:
			round += 1
		case 1:
			set += 1
		default:
			flip = true
		}
	}
	msg, err := scale.Marshal(FullVote{Stage: stage, Vote: v, Round: round, SetID: set})
	if err != nil {
		panic(err)
	}
	sb, err := vgpKey(id).Sign(msg)
	if err != nil {
		panic(err)
	}
	var sig [64]byte
	copy(sig[:], sb)
	if flip {
		sig[9] ^= 0x04
	}
	return sig
}

func vgpQuiet() {
	log.Patch(log.SetLevel(log.Critical), log.SetWriter(io.Discard))
	logger.Patch(log.SetLevel(log.Critical), log.SetWriter(io.Discard))
}

// ------------------------------------------------------------------------------------
// C18

type vcaEntry struct {
	ID  int    `json:"id"`
	B   int    `json:"b"`
	Sig string `json:"sig"`
}

type vcaCase struct {
	O struct {
		N      int        `json:"n"`
		T      []int      `json:"t"`
		Es     []vcaEntry `json:"es"`
		Target int        `json:"target"`
	} `json:"o"`
	Res struct {
		Enough    bool `json:"enough"`
		Weight    int  `json:"weight"`
		OffByOne  bool `json:"offByOne"`
		Impl      bool `json:"impl"`
		ImplCount int  `json:"implCount"`
	} `json:"res"`
}

// vcaSubmit realises the entry set in the given order (each entry repeated `rep` times) and
// hands the commit to a fresh service; returns the finalised blocks and the error.
func vcaSubmit(t *testing.T, cs *vcaCase, order []int, rep int) (fin []int, err error, pm string) {
	e := vgpNewEnv(t, cs.O.T, cs.O.N, 1, 0)
	defer e.close()
	cm := &CommitMessage{
		Round: vgpRound, SetID: vgpSetID,
		Vote: Vote{Hash: e.hashes[cs.O.Target-1], Number: uint32(e.headers[cs.O.Target-1].Number)},
	}
	for _, i := range order {
		en := cs.O.Es[i]
		v := Vote{Hash: e.hashes[en.B-1], Number: uint32(e.headers[en.B-1].Number)}
		sig := vgpSign(en.ID, precommit, v, en.Sig)
		if en.Sig != "ok" && (i+rep)%2 == 0 {
			// another way for a signature to be invalid: the genuine signature of ANOTHER
			// authority for the same vote, replayed under this entry's id
			for _, d := range cs.O.Es {
				if d.Sig == "ok" && d.B == en.B && d.ID != en.ID {
					sig = vgpSign(d.ID, precommit, v, "ok")
					break
				}
			}
		}
		for k := 0; k < rep; k++ {
			cm.Precommits = append(cm.Precommits, v)
			cm.AuthData = append(cm.AuthData, AuthData{Signature: sig, AuthorityID: vgpKey(en.ID).Public().(*ed25519.PublicKey).AsBytes()})
		}
	}
	pm = vTry(func() { err = e.svc.handleCommitMessage(cm) })
	for _, h := range e.bs.finalised {
		fin = append(fin, e.blockOf(h))
	}
	return
}

func TestVerifCommitAccept(t *testing.T) {
	vgpQuiet()
	res := vNewResult("C18")
	defer res.Write(t)
	behs := vLoad(t, vIn(t, "behaviours.txt"))
	res.Behaviours = len(behs)
	rng := rand.New(rand.NewSource(vSeed()))
	nOrders := 2
	if vThorough() {
		nOrders = 6
	}
	for _, b := range behs {
		for ci, raw := range b.Steps {
			var cs vcaCase
			if err := json.Unmarshal(raw, &cs); err != nil {
				t.Fatalf("VERIF-INFRA case json: %v", err)
			}
			if b.ID == 0 && ci < 2 {
				res.Sample(raw)
			}
			key := ""
			if cs.Res.Weight > 0 {
				key = string(raw)
			}
			res.Case("handleCommitMessage", key)
			n := len(cs.O.Es)
			ident := make([]int, n)
			for i := range ident {
				ident[i] = i
			}
			orders := [][]int{ident}
			for i := 0; i < nOrders; i++ {
				orders = append(orders, rng.Perm(n))
			}
			plainFinalised := false
			report := func(class, got string) {
				res.Fail(b.ID, ci, "handleCommitMessage", "finalised", "nothing (commit falls short: weight "+
					fmt.Sprintf("%d of %d", cs.Res.Weight, cs.O.N)+")", got, "C18/handleCommitMessage/"+class, []json.RawMessage{raw})
			}
			for oi, ord := range orders {
				fin, err, pm := vcaSubmit(t, &cs, ord, 1)
				res.Cmp()
				if pm != "" {
					res.Fail(b.ID, ci, "handleCommitMessage", "panic", "no panic", pm, "C18/handleCommitMessage/panic", []json.RawMessage{raw})
					break
				}
				for _, f := range fin {
					if f != cs.O.Target {
						res.Fail(b.ID, ci, "handleCommitMessage", "finalised", fmt.Sprintf("only the target b%d", cs.O.Target), fmt.Sprintf("b%d", f),
							"C18/handleCommitMessage/finalised-other-block", []json.RawMessage{raw})
					}
				}
				if len(fin) > 0 && err != nil {
					// finalised and reported an error afterwards: still a finalisation
					_ = err
				}
				if len(fin) > 0 && !cs.Res.Enough {
					plainFinalised = true
					class := "short-commit-finalised/unexplained"
					switch {
					case cs.Res.OffByOne && cs.Res.ImplCount == cs.Res.Weight:
						// the correct weight reaches floor(2n/3) but not more than two thirds, and no
						// other counting deviation is in play (raw tally = correct weight)
						class = "short-commit-finalised/weight-equals-floor-two-thirds"
					case cs.Res.Impl:
						// only explained by counting ids with two differing raw entries as equivocators
						class = "short-commit-finalised/raw-authdata-equivocators"
					}
					report(class, fmt.Sprintf("finalised b%v (order %v)", fin, ord))
					break
				}
				_ = oi
			}
			// ---- repeated entries: each entry twice, then three times ------------------
			if !plainFinalised && !cs.Res.Enough && n > 0 {
				for rep := 2; rep <= 3; rep++ {
					fin, _, pm := vcaSubmit(t, &cs, ident, rep)
					res.Cmp()
					if pm != "" {
						res.Fail(b.ID, ci, "handleCommitMessage", "panic", "no panic", pm, "C18/handleCommitMessage/panic", []json.RawMessage{raw})
						break
					}
					if len(fin) > 0 {
						report("short-commit-finalised/repeated-entries-counted", fmt.Sprintf("finalised b%v with every entry sent %d times", fin, rep))
						break
					}
				}
			}
		}
	}
}

// ------------------------------------------------------------------------------------
// C21

type vvcMsg struct {
	ID    int    `json:"id"`
	Stage string `json:"stage"`
	B     int    `json:"b"`
	Sig   string `json:"sig"`
	Num   string `json:"num"`
}

type vvcCase struct {
	O struct {
		N      int      `json:"n"`
		T      []int    `json:"t"`
		Head   int      `json:"head"`
		Change uint     `json:"change"`
		Ms     []vvcMsg `json:"ms"`
	} `json:"o"`
	Res struct {
		PvTotals       []int `json:"pvTotals"`
		PcTotals       []int `json:"pcTotals"`
		GhostSpecified bool  `json:"ghostSpecified"`
		Ghost          int   `json:"ghost"`
		Target         int   `json:"target"`
		MayFinalise    []int `json:"mayFinalise"`
		PcSuper        []int `json:"pcSuper"`
		Tolerant       bool  `json:"tolerant"`
	} `json:"res"`
}

func vvcKinds(cs *vvcCase) string {
	// which malformed kinds occur in the case (for the classifier signature)
	bad := map[string]bool{}
	for _, m := range cs.O.Ms {
		switch {
		case m.Sig != "ok":
			bad["bad-signature"] = true
		case m.ID > cs.O.N:
			bad["non-authority"] = true
		case m.B == 0:
			bad["unknown-block"] = true
		case m.Num != "ok":
			bad["wrong-number"] = true
		}
	}
	for _, k := range []string{"wrong-number", "bad-signature", "non-authority", "unknown-block"} {
		if bad[k] {
			return k
		}
	}
	return "wellformed"
}

func TestVerifVoterChoice(t *testing.T) {
	vgpQuiet()
	res := vNewResult("C21")
	defer res.Write(t)
	behs := vLoad(t, vIn(t, "behaviours.txt"))
	res.Behaviours = len(behs)
	rng := rand.New(rand.NewSource(vSeed()))
	nOrders := 3
	if vThorough() {
		nOrders = 8
	}
	for _, b := range behs {
		for ci, raw := range b.Steps {
			var cs vvcCase
			if err := json.Unmarshal(raw, &cs); err != nil {
				t.Fatalf("VERIF-INFRA case json: %v", err)
			}
			if b.ID == 0 && ci < 2 {
				res.Sample(raw)
			}
			key := ""
			if cs.Res.GhostSpecified || len(cs.Res.PcSuper) > 0 {
				key = string(raw)
			}
			res.Case("VoterChoice", key)
			kinds := vvcKinds(&cs)
			eqcls := "tolerant"
			if !cs.Res.Tolerant {
				eqcls = "intolerant-equivocation"
			}
			n := len(cs.O.Ms)
			ident := make([]int, n)
			for i := range ident {
				ident[i] = i
			}
			orders := [][]int{ident}
			for i := 0; i < nOrders; i++ {
				orders = append(orders, rng.Perm(n))
			}
			seen := map[string]bool{}
			fail := func(op, field, exp, got, class string) {
				sig := "C21/" + op + "/" + class
				if seen[sig] {
					return // one report per case and signature, whatever the order
				}
				seen[sig] = true
				res.Fail(b.ID, ci, op, field, exp, got, sig, []json.RawMessage{raw})
			}
			for _, ord := range orders {
				vvcRunOrder(t, res, &cs, ord, kinds, eqcls, fail)
			}
		}
	}
}

var vvcRuns int

// vvcPreamble puts the service into round vgpRound-1 and feeds two different valid prevotes and two different valid precommits
// of voter 1 for that round (blocks of the head's subtree); false when the tree has no two such blocks.
func vvcPreamble(t *testing.T, e *vgpEnv, cs *vvcCase) bool {
	var blocks []int
	for bi := range cs.O.T {
		b := bi + 1
		for x := b; x != 0; x = cs.O.T[x-1] {
			if x == cs.O.Head {
				if b != cs.O.Head {
					blocks = append(blocks, b)
				}
				break
			}
		}
	}
	if len(blocks) < 2 || cs.O.N < 1 {
		return false
	}
	s := e.svc
	s.state.round = vgpRound - 1
	for _, stage := range []Subround{prevote, precommit} {
		for _, b := range blocks[:2] {
			v := Vote{Hash: e.hashes[b-1], Number: uint32(e.headers[b-1].Number)}
			msg, err := scale.Marshal(FullVote{Stage: stage, Vote: v, Round: vgpRound - 1, SetID: vgpSetID})
			if err != nil {
				t.Fatalf("VERIF-INFRA preamble encode: %v", err)
			}
			sb, err := vgpKey(1).Sign(msg)
			if err != nil {
				t.Fatalf("VERIF-INFRA preamble sign: %v", err)
			}
			var sig [64]byte
			copy(sig[:], sb)
			vm := &VoteMessage{Round: vgpRound - 1, SetID: vgpSetID, Message: SignedMessage{Stage: stage, BlockHash: v.Hash, Number: v.Number,
				Signature: sig, AuthorityID: vgpKey(1).Public().(*ed25519.PublicKey).AsBytes()}}
			_ = vTry(func() { _, _ = s.validateVoteMessage(peer.ID("p"), vm) })
		}
	}
	return true
}

func vvcRunOrder(t *testing.T, res *vResult, cs *vvcCase, ord []int, kinds, eqcls string,
	fail func(op, field, exp, got, class string)) {
	e := vgpNewEnv(t, cs.O.T, cs.O.N, cs.O.Head, cs.O.Change)
	defer e.close()
	s := e.svc
	// every other run starts one round earlier: in round vgpRound-1 voter 1 equivocates in both subrounds, then the voter's
	// own initiateRound opens round vgpRound.  A round's tallies are the round's: nothing of the earlier round may count.
	vvcRuns++
	if vvcRuns%2 == 0 && vvcPreamble(t, e, cs) {
		if err := s.initiateRound(); err != nil {
			fail("initiateRound", "err", "nil", err.Error(), "preamble/initiateRound-error")
			return
		}
		if s.state.round != vgpRound {
			t.Fatalf("VERIF-INFRA preamble: voter is in round %d, expected %d", s.state.round, vgpRound)
		}
		kinds += "+after-equivocating-round"
	}
	inSubtree := func(b int) bool { // b descends from (or is) head
		for x := b; x != 0; x = cs.O.T[x-1] {
			if x == cs.O.Head {
				return true
			}
		}
		return false
	}
	// ---- feed the messages ---------------------------------------------------------
	for _, i := range ord {
		m := cs.O.Ms[i]
		stage := prevote
		if m.Stage == "precommit" {
			stage = precommit
		}
		var v Vote
		if m.B == 0 {
			v = Vote{Hash: common.Hash{0xee, byte(m.ID), 0x01}, Number: 2}
		} else {
			v = Vote{Hash: e.hashes[m.B-1], Number: uint32(e.headers[m.B-1].Number)}
		}
		if m.Num != "ok" {
			v.Number += 3
		}
		sig := vgpSign(m.ID, stage, v, m.Sig)
		if m.Sig != "ok" && (m.ID+m.B+vvcRuns)%2 == 0 {
			// another way for a signature to be invalid: the SAME authority's genuine signature of this round, taken from another
			// of its votes in the case (another block or the other stage) and replayed under this vote
			for _, d := range cs.O.Ms {
				if d.ID == m.ID && d.Sig == "ok" && d.Num == "ok" && d.B != 0 && (d.B != m.B || d.Stage != m.Stage) {
					ds := prevote
					if d.Stage == "precommit" {
						ds = precommit
					}
					sig = vgpSign(d.ID, ds, Vote{Hash: e.hashes[d.B-1], Number: uint32(e.headers[d.B-1].Number)}, "ok")
					break
				}
			}
		}
		vm := &VoteMessage{Round: vgpRound, SetID: vgpSetID, Message: SignedMessage{
			Stage: stage, BlockHash: v.Hash, Number: v.Number,
			Signature:   sig,
			AuthorityID: vgpKey(m.ID).Public().(*ed25519.PublicKey).AsBytes(),
		}}
		if pm := vTry(func() { _, _ = s.validateVoteMessage(peer.ID("p"), vm) }); pm != "" {
			fail("validateVoteMessage", "panic", "no panic", pm, "panic/"+kinds)
			return
		}
	}
	// ---- totals: "never counted", "counting descendants and equivocators" -----------
	for bi := range cs.O.T {
		blk := bi + 1
		if !inSubtree(blk) {
			continue // pruned or below the head: the node has no tally for it
		}
		for _, st := range []struct {
			stage Subround
			name  string
			exp   []int
		}{{prevote, "prevote", cs.Res.PvTotals}, {precommit, "precommit", cs.Res.PcTotals}} {
			var got uint64
			var err error
			if pm := vTry(func() { got, err = s.getTotalVotesForBlock(e.hashes[bi], st.stage) }); pm != "" {
				fail("getTotalVotesForBlock", "panic", "no panic", pm, "panic")
				return
			}
			res.Cmp()
			if err != nil {
				fail("getTotalVotesForBlock", "error", "nil", err.Error(), "error")
				continue
			}
			if int(got) != st.exp[bi] {
				dir := "undercounted"
				if int(got) > st.exp[bi] {
					dir = "overcounted"
				}
				fail("getTotalVotesForBlock", fmt.Sprintf("%s total of b%d (order %v)", st.name, blk, ord),
					fmt.Sprint(st.exp[bi]), fmt.Sprint(got), "totals/"+dir+"/"+kinds)
			}
		}
	}
	// ---- the precommit choice ---------------------------------------------------------
	var pc *Vote
	var err error
	if pm := vTry(func() { pc, err = s.determinePreCommit() }); pm != "" {
		fail("determinePreCommit", "panic", "no panic", pm, "panic")
		return
	}
	if cs.Res.GhostSpecified {
		res.Cmp()
		capcls := "no-change"
		if cs.O.Change != 0 {
			capcls = "pending-change"
		}
		if cs.Res.Target != cs.Res.Ghost {
			capcls = "capped"
		}
		switch {
		case err != nil:
			fail("determinePreCommit", "error", fmt.Sprintf("b%d", cs.Res.Target), err.Error(), "error/"+capcls+"/"+kinds)
		case e.blockOf(pc.Hash) != cs.Res.Target:
			got := e.blockOf(pc.Hash)
			rel := "other-fork"
			switch {
			case got != 0 && vvcAnc(cs.O.T, cs.Res.Target, got):
				rel = "below-target"
				// symptom of getPossibleSelectedBlocks returning as soon as some DIRECTLY voted
				// block has more than two thirds: the answer is a directly prevoted block that
				// itself has the supermajority, although a higher block (not voted for directly)
				// has it too
				for _, m := range cs.O.Ms {
					if m.Stage == "prevote" && m.B == got && m.Sig == "ok" && m.Num == "ok" && m.ID <= cs.O.N &&
						3*cs.Res.PvTotals[got-1] > 2*cs.O.N {
						rel = "below-target-directly-voted-block"
					}
				}
			case got != 0 && vvcAnc(cs.O.T, got, cs.Res.Target):
				rel = "above-target"
			}
			fail("determinePreCommit", fmt.Sprintf("precommit target (order %v)", ord), fmt.Sprintf("b%d", cs.Res.Target),
				fmt.Sprintf("b%d", got), "target/"+rel+"/"+capcls+"/"+kinds)
		case int(pc.Number) != int(e.headers[cs.Res.Target-1].Number):
			fail("determinePreCommit", "number", fmt.Sprint(e.headers[cs.Res.Target-1].Number), fmt.Sprint(pc.Number), "target-number/"+kinds)
		}
	}
	// ---- finalisation -----------------------------------------------------------------
	before := len(e.bs.finalised)
	var ok bool
	if pm := vTry(func() { ok, err = s.attemptToFinalize() }); pm != "" {
		fail("attemptToFinalize", "panic", "no panic", pm, "panic")
		return
	}
	_ = ok
	for _, h := range e.bs.finalised[before:] {
		f := e.blockOf(h)
		res.Cmp()
		may := false
		for _, x := range cs.Res.MayFinalise {
			if x == f {
				may = true
			}
		}
		if !may {
			super := false
			for _, x := range cs.Res.PcSuper {
				if x == f {
					super = true
				}
			}
			class := "finalised-without-precommit-supermajority"
			if super {
				class = "finalised-block-not-ancestor-of-ghost"
			}
			fail("attemptToFinalize", fmt.Sprintf("finalised (order %v)", ord), fmt.Sprintf("one of %v or nothing", cs.Res.MayFinalise),
				fmt.Sprintf("b%d", f), class+"/"+eqcls+"/"+kinds)
		}
	}
	if err != nil && !errors.Is(err, ErrNoGHOST) && !errors.Is(err, errBeforeFinalizedBlock) {
		// errors are not compared (the statement only restricts what may be finalised)
		_ = err
	}
}

// vvcAnc: a is b or an ancestor of b
func vvcAnc(par []int, b, a int) bool {
	for x := b; x != 0; x = par[x-1] {
		if x == a {
			return true
		}
	}
	return false
}
