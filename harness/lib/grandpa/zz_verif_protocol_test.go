//go:build verif

// Conformance harness for specs/GrandpaProtocol.tla (C22).
//
// Every TLC-generated behaviour of the protocol model is replayed against REAL voters: one
// lib/grandpa Service per honest voter, each over its own real dot/state BlockState and
// GrandpaState on an in-memory database, real ed25519 keys and signatures.  The harness is the
// network and the round driver: it calls the Service's own step functions in the order of the
// behaviour (determinePreVote, validateVoteMessage, determinePreCommit, attemptToFinalize,
// handleCommitMessage, initiateRound) and compares what the real voter chose / finalised with
// what the model prescribes.  A behaviour that the model marks unsafe counts as a safety
// violation only if two REAL block states end up with finalised blocks on different forks.

package grandpa

import (
	"encoding/json"
	"fmt"
	"testing"
	"time"

	"github.com/ChainSafe/gossamer/dot/network"
	"github.com/ChainSafe/gossamer/dot/state"
	"github.com/ChainSafe/gossamer/dot/types"
	"github.com/ChainSafe/gossamer/internal/database"
	"github.com/ChainSafe/gossamer/internal/log"
	"github.com/ChainSafe/gossamer/lib/common"
	"github.com/ChainSafe/gossamer/lib/crypto/ed25519"
	"github.com/ChainSafe/gossamer/pkg/scale"
	"github.com/ChainSafe/gossamer/pkg/trie"
	"github.com/libp2p/go-libp2p/core/peer"
	"github.com/libp2p/go-libp2p/core/protocol"
	"go.uber.org/mock/gomock"
)

type vgpTelemetry struct{}

func (vgpTelemetry) SendMessage(json.Marshaler) {}

type vgpNetwork struct{}

func (vgpNetwork) GossipMessage(network.NotificationsMessage)                {}
func (vgpNetwork) SendMessage(peer.ID, NotificationsMessage) error            { return nil }
func (vgpNetwork) SendBlockReqestByHash(common.Hash)                          {}
func (vgpNetwork) SendJustificationRequest(peer.ID, uint32)                   {}
func (vgpNetwork) RegisterNotificationsProtocol(protocol.ID, network.MessageType, network.HandshakeGetter,
	network.HandshakeDecoder, network.HandshakeValidator, network.MessageDecoder,
	network.NotificationsMessageHandler, network.NotificationsMessageBatchHandler, uint64) error {
	return nil
}

type vgpStep struct {
	A string  `json:"a"`
	V int     `json:"v"`
	R uint64  `json:"r"`
	B int     `json:"b"`
	D [][2]int `json:"d"`
}

type vgpBehaviour struct {
	Safe      bool      `json:"safe"`
	NV        int       `json:"nv"`
	Byz       []int     `json:"byz"`
	Parent    []int     `json:"parent"`
	CommitMin int       `json:"commitMin"`
	Steps     []vgpStep `json:"steps"`
}

type vgpWorld struct {
	t       *testing.T
	nv      int
	parent  []int
	headers []*types.Header // by abstract block id
	ids     map[common.Hash]int
	keys    []*ed25519.Keypair // index voter-1
	svc     map[int]*Service
	bs      map[int]*state.BlockState
	clock   time.Time
	// signed votes created by honest voters: [voter][round][stage]
	sent map[string]*VoteMessage
}

func vgpHeight(parent []int, b int) int {
	h := 0
	for b != 0 {
		b = parent[b-1]
		h++
	}
	return h
}

func vgpNewWorld(t *testing.T, beh *vgpBehaviour) *vgpWorld {
	w := &vgpWorld{t: t, nv: beh.NV, parent: beh.Parent, ids: map[common.Hash]int{}, svc: map[int]*Service{},
		bs: map[int]*state.BlockState{}, sent: map[string]*VoteMessage{}, clock: time.Unix(1_700_000_000, 0)}
	// headers
	gen := types.NewHeader(common.Hash{}, trie.EmptyHash, trie.EmptyHash, 0, types.NewDigest())
	w.headers = []*types.Header{gen}
	w.ids[gen.Hash()] = 0
	for b := 1; b <= len(beh.Parent); b++ {
		p := w.headers[beh.Parent[b-1]]
		num := uint(vgpHeight(beh.Parent, b))
		dg := types.NewDigest()
		pre, err := types.NewBabeSecondaryPlainPreDigest(0, uint64(1000+num)).ToPreRuntimeDigest()
		if err != nil {
			t.Fatalf("VERIF-INFRA predigest: %v", err)
		}
		if err := dg.Add(*pre); err != nil {
			t.Fatalf("VERIF-INFRA digest: %v", err)
		}
		h := types.NewHeader(p.Hash(), trie.EmptyHash, common.Hash{byte(b), 0xb1}, num, dg)
		w.headers = append(w.headers, h)
		w.ids[h.Hash()] = b
	}
	var voters []types.GrandpaVoter
	for i := 1; i <= beh.NV; i++ {
		seed := make([]byte, 32)
		seed[0], seed[1] = byte(i), 0x77
		kp, err := ed25519.NewKeypairFromSeed(seed)
		if err != nil {
			t.Fatalf("VERIF-INFRA key: %v", err)
		}
		w.keys = append(w.keys, kp)
		voters = append(voters, types.GrandpaVoter{Key: *kp.Public().(*ed25519.PublicKey), ID: uint64(i)})
	}
	byz := map[int]bool{}
	for _, b := range beh.Byz {
		byz[b] = true
	}
	for v := 1; v <= beh.NV; v++ {
		if byz[v] {
			continue
		}
		db, err := database.LoadDatabase(t.TempDir(), true)
		if err != nil {
			t.Fatalf("VERIF-INFRA db: %v", err)
		}
		tries := state.NewTries()
		tries.SetEmptyTrie()
		bs, err := state.NewBlockStateFromGenesis(db, tries, gen, vgpTelemetry{})
		if err != nil {
			t.Fatalf("VERIF-INFRA blockstate: %v", err)
		}
		// a node always has a runtime for its chain; equivocation reports go through it
		rt := NewMockInstance(gomock.NewController(t))
		rt.EXPECT().GrandpaGenerateKeyOwnershipProof(gomock.Any(), gomock.Any()).AnyTimes().
			Return(types.GrandpaOpaqueKeyOwnershipProof(nil), fmt.Errorf("no key ownership proof in the harness"))
		rt.EXPECT().Stop().AnyTimes()
		bs.StoreRuntime(gen.Hash(), rt)
		gs, err := state.NewGrandpaStateFromGenesis(db, bs, voters, vgpTelemetry{})
		if err != nil {
			t.Fatalf("VERIF-INFRA grandpastate: %v", err)
		}
		vs := make([]Voter, len(voters))
		for i, gv := range voters {
			vs[i] = Voter{Key: gv.Key, ID: gv.ID}
		}
		s, err := NewService(&Config{LogLvl: log.Critical, BlockState: bs, GrandpaState: gs, Network: vgpNetwork{},
			Voters: vs, Keypair: w.keys[v-1], Authority: true, Interval: time.Second, Telemetry: vgpTelemetry{}})
		if err != nil {
			t.Fatalf("VERIF-INFRA service: %v", err)
		}
		// what Service.Start -> initiate -> initiateRound does first
		if err := s.initiateRound(); err != nil {
			t.Fatalf("VERIF-INFRA initiateRound: %v", err)
		}
		w.svc[v], w.bs[v] = s, bs
	}
	return w
}

func (w *vgpWorld) vote(b int) *Vote { return NewVoteFromHeader(w.headers[b]) }

// sign builds the vote message voter `from` would send for (round, stage, block)
func (w *vgpWorld) sign(from int, round uint64, stage Subround, b int) *VoteMessage {
	v := w.vote(b)
	msg, err := scaleFullVote(stage, *v, round, 0)
	if err != nil {
		w.t.Fatalf("VERIF-INFRA encode: %v", err)
	}
	kp := w.keys[from-1]
	sig, err := kp.Sign(msg)
	if err != nil {
		w.t.Fatalf("VERIF-INFRA sign: %v", err)
	}
	pk := kp.Public().(*ed25519.PublicKey).AsBytes()
	return &VoteMessage{Round: round, SetID: 0, Message: SignedMessage{Stage: stage, BlockHash: v.Hash, Number: v.Number,
		Signature: ed25519.NewSignatureBytes(sig), AuthorityID: pk}}
}

func (w *vgpWorld) blockOf(h common.Hash) int {
	if b, ok := w.ids[h]; ok {
		return b
	}
	return -1
}

// deliver feeds the votes D (sender, block) of the given stage to voter v through the real validation
func (w *vgpWorld) deliver(v int, round uint64, stage Subround, D [][2]int) {
	s := w.svc[v]
	for _, d := range D {
		key := fmt.Sprintf("%d/%d/%d/%d", d[0], round, stage, d[1])
		m, ok := w.sent[key]
		if !ok {
			m = w.sign(d[0], round, stage, d[1])
		}
		_, _ = s.validateVoteMessage(peer.ID(fmt.Sprintf("p%d", d[0])), m)
	}
}

func (w *vgpWorld) commit(round uint64, target int, S [][2]int) *CommitMessage {
	cm := &CommitMessage{Round: round, SetID: 0, Vote: *w.vote(target)}
	for _, d := range S {
		m, ok := w.sent[fmt.Sprintf("%d/%d/%d/%d", d[0], round, precommit, d[1])]
		if !ok {
			m = w.sign(d[0], round, precommit, d[1])
		}
		cm.Precommits = append(cm.Precommits, *NewVote(m.Message.BlockHash, m.Message.Number))
		cm.AuthData = append(cm.AuthData, AuthData{Signature: m.Message.Signature, AuthorityID: m.Message.AuthorityID})
	}
	return cm
}

func (w *vgpWorld) finalisedOf(v int) []int {
	var out []int
	seen := map[int]bool{}
	for r := uint64(0); r <= 8; r++ {
		h, err := w.bs[v].GetFinalisedHash(r, 0)
		if err != nil {
			continue
		}
		if b := w.blockOf(h); b >= 0 && !seen[b] {
			seen[b] = true
			out = append(out, b)
		}
	}
	return out
}

func (w *vgpWorld) isAnc(a, b int) bool { // a ancestor-or-equal of b
	for {
		if a == b {
			return true
		}
		if b == 0 {
			return false
		}
		b = w.parent[b-1]
	}
}

func TestVerifGrandpaProtocol(t *testing.T) {
	res := vNewResult("C22")
	defer res.Write(t)
	behs := vLoad(t, vIn(t, "behaviours.txt"))
	res.Behaviours = len(behs)
	unsafeModel, unsafeReal, diverged := 0, 0, 0
	for _, b := range behs {
		var beh vgpBehaviour
		if err := json.Unmarshal(b.Raw, &beh); err != nil {
			t.Fatalf("VERIF-INFRA json: %v", err)
		}
		if b.ID < 2 {
			res.Sample(json.RawMessage(b.Raw))
		}
		w := vgpNewWorld(t, &beh)
		if !beh.Safe {
			unsafeModel++
		}
		ok := true
		viaAncestorCommit := false
		ghostOf := map[string]int{} // "v/r" -> precommitted block
		for si, st := range beh.Steps {
			if st.A == "Skip" {
				continue
			}
			s := w.svc[st.V]
			// the model follows lib/grandpa's own tally / choice / commit-acceptance rules (C21's and
			// C18's ideal statements are checked by their own specifications); any step where a real
			// voter does something else than the model breaks the safety argument made on the model
			failTo := func(owner, field, exp, got, sig string) {
				res.Fail(b.ID, si, st.A, field, exp, got, owner+"/"+sig, map[string]any{"safe": beh.Safe, "nv": beh.NV, "byz": beh.Byz,
					"parent": beh.Parent, "commitMin": beh.CommitMin, "steps": beh.Steps[:si+1]})
				ok = false
			}
			fail := func(field, exp, got, sig string) { failTo("C22", field, exp, got, sig) }
			res.Case(st.A, fmt.Sprintf("%d|%d|%d|%v", st.V, st.R, st.B, st.D))
			pm := vTry(func() {
				switch st.A {
				case "Learn":
					w.clock = w.clock.Add(time.Second)
					blk := &types.Block{Header: *w.headers[st.B], Body: types.Body{}}
					if err := w.bs[st.V].AddBlockWithArrivalTime(blk, w.clock); err != nil {
						fail("err", "block added", err.Error(), "Learn/add-block")
					}
				case "RecvPV":
					w.deliver(st.V, st.R, prevote, st.D)
				case "Prevote":
					if s.state.round != st.R {
						fail("round", fmt.Sprint(st.R), fmt.Sprint(s.state.round), "Prevote/round")
						return
					}
					v, err := s.determinePreVote()
					if err != nil {
						fail("err", "a prevote", err.Error(), "Prevote/error")
						return
					}
					res.Cmp()
					if got := w.blockOf(v.Hash); got != st.B {
						fail("block", fmt.Sprint(st.B), fmt.Sprint(got), "Prevote/choice")
						return
					}
					sv, vm, err := s.createSignedVoteAndVoteMessage(v, prevote)
					if err != nil {
						fail("err", "signed", err.Error(), "Prevote/sign")
						return
					}
					s.prevotes.Store(s.publicKeyBytes(), sv)
					w.sent[fmt.Sprintf("%d/%d/%d/%d", st.V, st.R, prevote, st.B)] = vm
				case "Precommit":
					w.deliver(st.V, st.R, prevote, st.D)
					v, err := s.determinePreCommit()
					if err != nil {
						fail("err", fmt.Sprintf("precommit for %d", st.B), err.Error(), "Precommit/error")
						return
					}
					res.Cmp()
					if got := w.blockOf(v.Hash); got != st.B {
						failTo("C22", "block", fmt.Sprint(st.B), fmt.Sprint(got), "protocol/Precommit/ghost")
						return
					}
					sv, vm, err := s.createSignedVoteAndVoteMessage(v, precommit)
					if err != nil {
						fail("err", "signed", err.Error(), "Precommit/sign")
						return
					}
					s.precommits.Store(s.publicKeyBytes(), sv)
					w.sent[fmt.Sprintf("%d/%d/%d/%d", st.V, st.R, precommit, st.B)] = vm
					ghostOf[fmt.Sprintf("%d/%d", st.V, st.R)] = st.B
				case "Finalise":
					w.deliver(st.V, st.R, precommit, st.D)
					fin, err := s.attemptToFinalize()
					res.Cmp()
					if err != nil || !fin {
						failTo("C22", "finalised", fmt.Sprintf("block %d finalised", st.B), fmt.Sprintf("finalizable=%v err=%v", fin, err), "protocol/Finalise/refused")
						return
					}
					h, err := w.bs[st.V].GetFinalisedHash(st.R, 0)
					if err != nil || w.blockOf(h) != st.B {
						failTo("C22", "block", fmt.Sprint(st.B), fmt.Sprintf("%d err=%v", w.blockOf(h), err), "protocol/Finalise/block")
					}
				case "AcceptCommit":
					cm := w.commit(st.R, st.B, st.D)
					err := s.handleCommitMessage(cm)
					res.Cmp()
					h, herr := w.bs[st.V].GetFinalisedHash(st.R, 0)
					if err != nil || herr != nil || w.blockOf(h) != st.B {
						failTo("C22", "accepted", fmt.Sprintf("commit for block %d round %d accepted", st.B, st.R),
							fmt.Sprintf("err=%v finalised=%d (%v)", err, w.blockOf(h), herr), "protocol/AcceptCommit/refused")
						return
					}
					for _, d := range st.D {
						if d[1] != st.B && w.isAnc(st.B, d[1]) {
							viaAncestorCommit = true
						}
					}
				case "RejectCommit":
					before := fmt.Sprint(w.finalisedOf(st.V))
					cm := w.commit(st.R, st.B, st.D)
					err := s.handleCommitMessage(cm)
					res.Cmp()
					after := fmt.Sprint(w.finalisedOf(st.V))
					if err == nil || before != after {
						failTo("C22", "rejected", "commit one precommit short of a supermajority is refused and finalises nothing",
							fmt.Sprintf("err=%v finalised before=%s after=%s", err, before, after), "protocol/RejectCommit/accepted")
					}
				case "NextRound":
					if err := s.initiateRound(); err != nil {
						fail("err", "round started", err.Error(), "NextRound/error")
						return
					}
					res.Cmp()
					if s.state.round != st.R || w.blockOf(s.head.Hash()) != st.B {
						fail("round/head", fmt.Sprintf("round %d head %d", st.R, st.B),
							fmt.Sprintf("round %d head %d", s.state.round, w.blockOf(s.head.Hash())), "NextRound/state")
					}
				default:
					t.Fatalf("VERIF-INFRA unknown step %q", st.A)
				}
			})
			if pm != "" {
				fail("panic", "no panic", pm, st.A+"/panic")
			}
			if !ok {
				diverged++
				break
			}
		}
		if !ok {
			continue
		}
		// the safety statement itself, on the REAL block states
		conflict := ""
		var vs []int
		for v := range w.svc {
			vs = append(vs, v)
		}
		for _, a := range vs {
			for _, c := range vs {
				for _, x := range w.finalisedOf(a) {
					for _, y := range w.finalisedOf(c) {
						if !w.isAnc(x, y) && !w.isAnc(y, x) {
							conflict = fmt.Sprintf("voter %d finalised block %d, voter %d finalised block %d", a, x, c, y)
						}
					}
				}
			}
		}
		res.Cmp()
		if conflict != "" {
			unsafeReal++
			cls := "conflicting-finality/other"
			if viaAncestorCommit {
				cls = "conflicting-finality/commit-for-ancestor-then-prevote-off-estimate"
			} else {
				cls = "conflicting-finality/prevote-off-estimate"
			}
			res.Fail(b.ID, len(beh.Steps)-1, "Safety", "finalised blocks", "all finalised blocks on one chain", conflict,
				"C22/safety/"+cls, map[string]any{"safe": beh.Safe, "nv": beh.NV, "byz": beh.Byz, "parent": beh.Parent,
					"commitMin": beh.CommitMin, "steps": beh.Steps})
		} else if !beh.Safe {
			res.Fail(b.ID, len(beh.Steps)-1, "Safety", "model", "model behaviour ends unsafe", "real voters stayed safe",
				"C22/model-unsafe-real-safe", nil)
		}
	}
	res.Extra["unsafe_model_behaviours"] = unsafeModel
	res.Extra["unsafe_reproduced_on_real_voters"] = unsafeReal
	res.Extra["diverged_behaviours"] = diverged
	vgpRoundChangeProbe(t, res)
}

// vgpGateBS is the voter's real block state; HasHeader (the first thing the validation of a vote asks, after the vote was
// found to be of the current round) is the scheduler gate at which another goroutine of the node opens the next round.
type vgpGateBS struct {
	BlockState
	gate func()
}

func (g *vgpGateBS) HasHeader(h common.Hash) (bool, error) {
	if g.gate != nil {
		f := g.gate
		g.gate = nil
		f()
	}
	return g.BlockState.HasHeader(h)
}

// vgpRoundChangeProbe: "any message delay": in the specification a vote of round r that reaches a voter is either taken into
// round r's tallies (the voter is still in r) or dropped (it has moved on); delivery and the voter's step to round r+1 are
// atomic actions, so when they overlap in time one of the two orders happened -- and in both, round r+1 starts with no
// vote of round r in its tallies.  Four voters, voter 1 in round 1; while it validates voter k's round-1 vote, its own
// initiateRound runs.
func vgpRoundChangeProbe(t *testing.T, res *vResult) {
	for trial, stage := range []Subround{prevote, precommit, prevote, precommit} {
		beh := &vgpBehaviour{Safe: true, NV: 4, Parent: []int{0, 1}}
		w := vgpNewWorld(t, beh)
		s := w.svc[1]
		for b := 1; b <= 2; b++ {
			blk := &types.Block{Header: *w.headers[b], Body: types.Body{}}
			if err := w.bs[1].AddBlockWithArrivalTime(blk, w.clock); err != nil {
				t.Fatalf("VERIF-INFRA probe AddBlock: %v", err)
			}
		}
		round := s.state.round
		done := make(chan error, 1)
		gbs := &vgpGateBS{BlockState: s.blockState}
		gbs.gate = func() {
			fin := make(chan struct{})
			go func() { done <- s.initiateRound(); close(fin) }()
			select {
			case <-fin:
			case <-time.After(30 * time.Millisecond):
			}
		}
		s.blockState = gbs
		from := 2 + trial%3
		m := w.sign(from, round, stage, 1+trial%2)
		pm := vTry(func() { _, _ = s.validateVoteMessage(peer.ID("probe"), m) })
		var ierr error
		select {
		case ierr = <-done:
		case <-time.After(20 * time.Second):
			t.Fatalf("VERIF-INFRA probe: initiateRound started during a vote validation did not return")
		}
		res.Case("RoundChange||Deliver", fmt.Sprintf("%d|%d", stage, from))
		res.Cmp()
		np, nc := 0, 0
		s.prevotes.Range(func(_, _ any) bool { np++; return true })
		s.precommits.Range(func(_, _ any) bool { nc++; return true })
		switch {
		case pm != "" || ierr != nil:
			res.Fail(9000+trial, 0, "RoundChange||Deliver", "result", "no panic, no error", fmt.Sprintf("panic=%s initiateRound=%v", pm, ierr),
				"C22/concurrent/vote-validation-during-round-change/error", nil)
		case s.state.round != round+1:
			t.Fatalf("VERIF-INFRA probe: voter is in round %d, expected %d", s.state.round, round+1)
		case np != 0 || nc != 0 || len(s.pvEquivocations) != 0 || len(s.pcEquivocations) != 0:
			res.Fail(9000+trial, 0, "RoundChange||Deliver", fmt.Sprintf("tallies of round %d right after it was opened", round+1), "empty",
				fmt.Sprintf("%d prevotes, %d precommits, %d+%d equivocators (a round-%d vote of voter %d was being validated when the round changed)",
					np, nc, len(s.pvEquivocations), len(s.pcEquivocations), round, from),
				"C22/concurrent/vote-validation-during-round-change/counted-in-next-round", nil)
		}
	}
}

func scaleFullVote(stage Subround, v Vote, round, setID uint64) ([]byte, error) {
	return scale.Marshal(FullVote{Stage: stage, Vote: v, Round: round, SetID: setID})
}
