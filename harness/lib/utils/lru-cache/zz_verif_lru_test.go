//go:build verif

// Conformance harness for specs/LRU.tla and specs/LRU_Trace.tla (C35).
//   TestVerifLRUSeq  replays TLC-generated sequential behaviours and compares every Get result and
//                    the projected internal state (recency order and values) after every step.
//   TestVerifLRUConc runs seeded concurrent histories against the real cache, stamps call/return
//                    events with one atomic counter and writes them as NDJSON for TLC (linearizability).

package lrucache

import (
	"encoding/json"
	"fmt"
	"math/rand"
	"os"
	"path/filepath"
	"sort"
	"sync"
	"sync/atomic"
	"testing"
	"time"
)

type vlruStep struct {
	O struct {
		Op string `json:"op"`
		K  int    `json:"k"`
		V  int    `json:"v"`
	} `json:"o"`
	Res int `json:"res"`
	Obs struct {
		Order []int `json:"order"`
		Vals  []int `json:"vals"`
	} `json:"obs"`
}

func vlruProject(c *LRUCache[int, int]) (order, vals []int) {
	order, vals = []int{}, []int{}
	for e := c.lruList.Front(); e != nil; e = e.Next() {
		en := e.Value.(*Entry[int, int])
		order = append(order, en.key)
		vals = append(vals, en.value)
	}
	return
}

func TestVerifLRUSeq(t *testing.T) {
	res := vNewResult("C35")
	defer res.Write(t)
	behs := vLoad(t, vIn(t, "behaviours.txt"))
	res.Behaviours = len(behs)
	for _, b := range behs {
		var hdr struct {
			Cap   uint              `json:"cap"`
			Steps []json.RawMessage `json:"steps"`
		}
		if err := json.Unmarshal(b.Raw, &hdr); err != nil {
			t.Fatalf("VERIF-INFRA %v", err)
		}
		c := NewLRUCache[int, int](hdr.Cap)
		if b.ID == 0 {
			res.Sample(json.RawMessage(b.Raw))
		}
		for si, raw := range hdr.Steps {
			var s vlruStep
			if err := json.Unmarshal(raw, &s); err != nil {
				t.Fatalf("VERIF-INFRA %v", err)
			}
			pre, _ := vlruProject(c)
			res.Case(s.O.Op, fmt.Sprintf("%d|%d|%v", hdr.Cap, s.O.K, pre))
			var got int
			pm := vTry(func() {
				if s.O.Op == "Get" {
					got = c.Get(s.O.K)
				} else {
					c.Put(s.O.K, s.O.V)
				}
			})
			if pm != "" {
				res.Fail(b.ID, si, s.O.Op, "panic", "none", pm, "C35/seq/"+s.O.Op+"/panic", hdr.Steps[:si+1])
				break
			}
			res.Cmp()
			if s.O.Op == "Get" && got != s.Res {
				res.Fail(b.ID, si, s.O.Op, "result", fmt.Sprint(s.Res), fmt.Sprint(got), "C35/seq/Get/result", map[string]any{"cap": hdr.Cap, "steps": hdr.Steps[:si+1]})
				break
			}
			order, vals := vlruProject(c)
			res.Cmp()
			if fmt.Sprint(order) != fmt.Sprint(s.Obs.Order) || fmt.Sprint(vals) != fmt.Sprint(s.Obs.Vals) || len(c.cache) != len(order) {
				cls := "order"
				if len(order) != len(s.Obs.Order) {
					cls = "size"
				}
				res.Fail(b.ID, si, s.O.Op, "state", fmt.Sprint(s.Obs.Order, s.Obs.Vals), fmt.Sprint(order, vals, len(c.cache)),
					"C35/seq/"+s.O.Op+"/state-"+cls, map[string]any{"cap": hdr.Cap, "steps": hdr.Steps[:si+1]})
				break
			}
		}
	}
}

type vlruEv struct {
	Seq int64  `json:"-"`
	Ev  string `json:"ev"`
	ID  int    `json:"id"`
	Op  string `json:"op"`
	K   int    `json:"k"`
	V   int    `json:"v"`
	Res int    `json:"res"`
	Cap int    `json:"cap"`
}

// vlruDirected records one directed history (see the call site); returns the last operation id used.
func vlruDirected(enc *json.Encoder, idp *int, capa, getters int) int {
	id := *idp
	c := NewLRUCache[int, int](uint(capa))
	var ctr atomic.Int64
	var all []vlruEv
	seq := func(op string, k, v int) {
		id++
		s1 := ctr.Add(1)
		r := 0
		if op == "Get" {
			r = c.Get(k)
		} else {
			c.Put(k, v)
		}
		s2 := ctr.Add(1)
		all = append(all, vlruEv{Seq: s1, Ev: "call", ID: id, Op: op, K: k, V: v}, vlruEv{Seq: s2, Ev: "ret", ID: id, Res: r})
	}
	for k := 1; k <= capa; k++ { // key 1 ends up least recently used
		seq("Put", k, k)
	}
	var mu sync.Mutex
	var wg sync.WaitGroup
	start := make(chan struct{})
	conc := func(op string, k, v int) {
		id++
		oid := id
		wg.Add(1)
		go func() {
			defer wg.Done()
			<-start
			s1 := ctr.Add(1)
			r := 0
			if op == "Get" {
				r = c.Get(k)
			} else {
				c.Put(k, v)
			}
			s2 := ctr.Add(1)
			mu.Lock()
			all = append(all, vlruEv{Seq: s1, Ev: "call", ID: oid, Op: op, K: k, V: v}, vlruEv{Seq: s2, Ev: "ret", ID: oid, Res: r})
			mu.Unlock()
		}()
	}
	for g := 0; g < getters; g++ {
		conc("Get", 1, 0)
	}
	conc("Put", capa+1, 3)
	c.Lock()
	close(start)
	time.Sleep(3 * time.Millisecond)
	c.Unlock()
	wg.Wait()
	for k := 1; k <= capa+1; k++ { // what is left, least suspicious first: looking a key up refreshes it but evicts nothing
		seq("Get", k, 0)
	}
	sort.Slice(all, func(i, j int) bool { return all[i].Seq < all[j].Seq })
	enc.Encode(vlruEv{Ev: "reset", Cap: capa})
	for _, e := range all {
		enc.Encode(e)
	}
	return id
}

func TestVerifLRUConc(t *testing.T) {
	res := vNewResult("C35")
	defer res.Write(t)
	out := os.Getenv("VERIF_OUT")
	if out == "" {
		t.Skip("VERIF_OUT not set")
	}
	nhist := vEnvInt("VERIF_HISTORIES", 200)
	rng := rand.New(rand.NewSource(vSeed()))
	f, err := os.Create(filepath.Join(out, "trace.ndjson"))
	if err != nil {
		t.Fatalf("VERIF-INFRA %v", err)
	}
	defer f.Close()
	enc := json.NewEncoder(f)
	id := 0
	for h := 0; h < nhist; h++ {
		if h%5 == 4 {
			// directed history: a full cache, then a Get of the least recently used key races with Puts of new keys while
			// the harness holds the write lock (the readers are released first, the writers after them).  Whatever the
			// order, "the Get saw the key" and "the key was the next one evicted" cannot both be true.
			id = vlruDirected(enc, &id, 2+h%2, 1+(h/5)%3)
			res.Case("history-directed", fmt.Sprintf("%d|%d", 2+h%2, 1+(h/5)%3))
			continue
		}
		capa := 1 + rng.Intn(3)
		c := NewLRUCache[int, int](uint(capa))
		ng := 2 + rng.Intn(3)
		nops := 2 + rng.Intn(3)
		var ctr atomic.Int64
		evs := make([][]vlruEv, ng)
		var wg sync.WaitGroup
		start := make(chan struct{})
		for g := 0; g < ng; g++ {
			type op struct {
				id, k, v int
				get      bool
			}
			ops := make([]op, nops)
			for i := range ops {
				id++
				ops[i] = op{id: id, k: 1 + rng.Intn(3), v: 1 + rng.Intn(3), get: rng.Intn(2) == 0}
			}
			wg.Add(1)
			go func(g int) {
				defer wg.Done()
				<-start
				for _, o := range ops {
					if o.get {
						s1 := ctr.Add(1)
						r := c.Get(o.k)
						s2 := ctr.Add(1)
						evs[g] = append(evs[g], vlruEv{Seq: s1, Ev: "call", ID: o.id, Op: "Get", K: o.k}, vlruEv{Seq: s2, Ev: "ret", ID: o.id, Res: r})
					} else {
						s1 := ctr.Add(1)
						c.Put(o.k, o.v)
						s2 := ctr.Add(1)
						evs[g] = append(evs[g], vlruEv{Seq: s1, Ev: "call", ID: o.id, Op: "Put", K: o.k, V: o.v}, vlruEv{Seq: s2, Ev: "ret", ID: o.id})
					}
				}
			}(g)
		}
		// every third history is primed: the harness holds the write lock while the goroutines start
		// (> 1 ms: starvation mode, FIFO hand-off), see the transaction-queue harness
		primed := h%3 == 0
		if primed {
			c.Lock()
		}
		close(start)
		if primed {
			time.Sleep(3 * time.Millisecond)
			c.Unlock()
		}
		wg.Wait()
		var all []vlruEv
		for _, e := range evs {
			all = append(all, e...)
		}
		sort.Slice(all, func(i, j int) bool { return all[i].Seq < all[j].Seq })
		enc.Encode(vlruEv{Ev: "reset", Cap: capa})
		for _, e := range all {
			enc.Encode(e)
		}
		res.Case("history", fmt.Sprintf("%d|%d|%d|%d", capa, ng, nops, h))
		if h < 2 {
			res.Sample(all)
		}
	}
	res.Behaviours = nhist
}
