---------------------------- MODULE BabeMath_Gen ----------------------------
(***************************************************************************)
(* Engine G half of C25: TLC chooses the INPUTS the real functions are run *)
(* on (and, for the secondary author, the exact byte layout of the hashed  *)
(* input as a BLAKE2b-256 token, (S4) "randomness || slot as u64 LE").     *)
(* The Go harness runs CalculateThreshold / getSecondarySlotAuthor on them *)
(* and logs the results; BabeMath_Trace (engine V) then decides them.      *)
(*   op "thr": [c1, c2, n]                 1 <= c1 <= c2 <= 2^30, n >= 1   *)
(*   op "sec": [rnd (32 bytes), limbs (slot as four 16-bit limbs, least    *)
(*              significant first), n, pre (token H(rnd \o LE8(slot)))]    *)
(* GridInit: one behaviour per n holding ALL ratios c1/c2 with c2 <= GridC *)
(* (so that the monotonicity check sees complete families, including       *)
(* equal ratios like 1/2 and 2/4); NextRand: seeded random cases from wide *)
(* value sets (ratios next to 0 and to 1, c2 up to 2^30, slots at limb     *)
(* boundaries, authority counts that are not powers of two).               *)
(***************************************************************************)
EXTENDS BabeMath, Json

CONSTANTS GridC, GridN, MaxN, Depth

VARIABLES hist, done
gvars == <<hist, done>>

ThrStep(c1, c2, n) == [o |-> [op |-> "thr", c1 |-> c1, c2 |-> c2, n |-> n]]
SecStep(rnd, limbs, n) ==
  [o |-> [op |-> "sec", rnd |-> rnd, limbs |-> limbs, n |-> n, pre |-> BmSecToken(rnd, limbs)]]

(* ---- grid ---- *)
GridPairs == SelectSeq([k \in 1..(GridC * GridC) |-> <<((k - 1) % GridC) + 1, ((k - 1) \div GridC) + 1>>],
                       LAMBDA p : p[1] <= p[2])
GridInit == /\ done = FALSE
            /\ \E n \in 1..GridN : hist = [k \in 1..Len(GridPairs) |-> ThrStep(GridPairs[k][1], GridPairs[k][2], n)]

(* ---- random ---- *)
C2Vals == {1, 2, 3, 4, 5, 6, 7, 8, 9, 10, 12, 16, 25, 64, 100, 1000, 4096, 9000, 65535, 65536,
           1000000, 16777216, 1073741824}
(* every RandomElement argument depends on hist: TLC caches constant-level expressions *)
Rnd(S) == RandomElement({e \in S : Len(hist) >= 0})
C1For(c2) == LET cand == {1, 2, 3, c2 \div 4, c2 \div 3, c2 \div 2, c2 - 2, c2 - 1, c2,
                          Rnd(1..(IF c2 > 1000 THEN 1000 ELSE c2)), Rnd(1..(IF c2 > 1000 THEN 1000 ELSE c2))}
             IN Rnd({c \in cand : c >= 1 /\ c <= c2})
LimbVals == {0, 1, 255, 256, 32767, 32768, 65535}
RndLimb == IF Rnd(1..3) = 1 THEN Rnd(LimbVals) ELSE Rnd(0..255) * 256 + Rnd(0..255)
SecNs == {1, 2, 3, 4, 5, 6, 7, 10, 16, 17, 100, 255, 256, 257, 1000, 65535, 65536, 100000}
PickCase ==
  IF Rnd(1..3) = 1
  THEN SecStep([i \in 1..32 |-> Rnd(0..255)], <<RndLimb, RndLimb, RndLimb, RndLimb>>, Rnd(SecNs))
  ELSE LET c2 == Rnd(C2Vals) IN ThrStep(C1For(c2), c2, Rnd(1..MaxN))

RandInit == done = FALSE /\ hist = <<>>
Step(s) == ~done /\ Len(hist) < Depth /\ hist' = Append(hist, s) /\ UNCHANGED done
Finish == ~done /\ Len(hist) = Depth /\ done' = TRUE /\ UNCHANGED hist
NextRand == (\E s \in {PickCase} : Step(s)) \/ Finish
GridFinish == ~done /\ done' = TRUE /\ UNCHANGED hist

SpecGrid == GridInit /\ [][GridFinish]_gvars
SpecRand == RandInit /\ [][NextRand]_gvars

Dump == done => PrintT(<<"TRACE", ToJson(hist)>>)
=============================================================================
