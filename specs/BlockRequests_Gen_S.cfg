SPECIFICATION SpecRand
CONSTANTS
  Trunk = 0
  NBlocks = 8
  NReq = 30
  TipW = 1
INVARIANT Dump
CHECK_DEADLOCK FALSE
