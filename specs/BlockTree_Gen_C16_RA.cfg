SPECIFICATION SpecRand
CONSTANTS
  MaxAdd = 7
  Prims <- BothPrims
  Arrivals <- ThreeArrivals
  HashRank <- GHashRank
  FreeIds = FALSE
  OpKinds <- AllKinds
  PhaseAdds = 0
  ObsKind = "tree"
  Depth = 9
INVARIANT Dump
CHECK_DEADLOCK FALSE
