-------------------------- MODULE SlotEquivocation --------------------------
(***************************************************************************)
(* C27 "Slot equivocations are detected exactly" -- dot/state/slot.go      *)
(* SlotState.CheckEquivocation, i.e. Substrate's check_equivocation, as a  *)
(* state machine.                                                          *)
(*   start   first slot for which records are retained (slot_header_start),*)
(*           NoStart until the first record is written                     *)
(*   rec[s]  the (header, signer) pairs recorded for slot s, in order      *)
(* One action: Check(now, slot, h, g) = CheckEquivocation(slotNow, slot,   *)
(* header h, signer g).  Cap = 1000 (retention), Bound = 2000 (pruning     *)
(* trigger) are the code's constants; Slots is a small set of slot numbers *)
(* placed around those bounds.                                             *)
(***************************************************************************)
EXTENDS Integers, Sequences, FiniteSets, TLC, Json

CONSTANTS Slots, Signers, Hids, Cap, Bound, Depth
VARIABLES start, rec, hist, done
vars == <<start, rec, hist, done>>

NoStart == -1
SatSub(a, b) == IF a > b THEN a - b ELSE 0

Ops == {[op |-> "Check", now |-> n, slot |-> s, h |-> h, g |-> g] : n \in Slots, s \in Slots, h \in Hids, g \in Signers}

First(o) == IF start = NoStart THEN o.slot ELSE start
(* "within the retained window": the header is not older than Cap slots    *)
(* and the clock is not before the first retained slot                     *)
InWindow(o) == SatSub(o.now, o.slot) <= Cap /\ o.now >= First(o)
Prior(o) == {i \in 1..Len(rec[o.slot]) : rec[o.slot][i].g = o.g}
FirstPrior(o) == CHOOSE i \in Prior(o) : \A j \in Prior(o) : i <= j

(* "an equivocation proof is returned exactly when the same signer already *)
(* had a different header recorded for that slot within the retained       *)
(* window, and the proof carries both headers"                             *)
Equivocates(o) == InWindow(o) /\ Prior(o) # {} /\ rec[o.slot][FirstPrior(o)].h # o.h
Result(o) == IF Equivocates(o)
             THEN [proof |-> TRUE, first |-> rec[o.slot][FirstPrior(o)].h, second |-> o.h]
             ELSE [proof |-> FALSE, first |-> 0, second |-> 0]

(* a check records its header iff it is in the window and the signer has   *)
(* nothing recorded for the slot yet; recording may prune [start, now-Cap) *)
Records(o) == InWindow(o) /\ Prior(o) = {}
NewStart(o) == IF o.now - First(o) >= Bound THEN SatSub(o.now, Cap) ELSE First(o)

RecObs(r) ==
  LET S == {s \in Slots : r[s] # <<>>}
      RECURSIVE srt(_)
      srt(T) == IF T = {} THEN <<>> ELSE LET m == CHOOSE x \in T : \A y \in T : x <= y IN <<m>> \o srt(T \ {m})
      L == srt(S)
  IN [i \in 1..Len(L) |-> [slot |-> L[i], hs |-> r[L[i]]]]

Step(o) ==
  /\ ~done /\ Len(hist) < Depth
  /\ IF Records(o)
       THEN /\ start' = NewStart(o)
            /\ rec' = [s \in Slots |-> IF s >= First(o) /\ s < NewStart(o) THEN <<>>
                                       ELSE IF s = o.slot THEN Append(rec[s], [h |-> o.h, g |-> o.g])
                                       ELSE rec[s]]
       ELSE UNCHANGED <<start, rec>>
  /\ hist' = Append(hist, [o |-> o, res |-> Result(o), obs |-> [start |-> start', rec |-> RecObs(rec')]])
  /\ UNCHANGED done

Finish == /\ ~done /\ Len(hist) = Depth /\ done' = TRUE /\ UNCHANGED <<start, rec, hist>>
Init == start = NoStart /\ rec = [s \in Slots |-> <<>>] /\ hist = <<>> /\ done = FALSE

NextAll == (\E o \in Ops : Step(o)) \/ Finish
(* generator: the clock mostly moves forward, headers mostly hit slots     *)
(* that already have records (duplicates and conflicts)                    *)
PickOp ==
  LET k == RandomElement({i \in 1..10 : Len(hist) >= 0})
      used == {s \in Slots : rec[s] # <<>>}
      cand == IF k <= 5 /\ used # {} THEN {o \in Ops : o.slot \in used /\ SatSub(o.now, o.slot) <= Cap}
              ELSE IF k <= 8 THEN {o \in Ops : o.now >= o.slot}
              ELSE Ops
  IN RandomElement(cand)
NextRand == (\E o \in {PickOp} : Step(o)) \/ Finish

SpecAll == Init /\ [][NextAll]_vars
SpecRand == Init /\ [][NextRand]_vars
Dump == done => PrintT(<<"TRACE", ToJson(hist)>>)

--------------------------------------------------------------------------
(* ---- properties (engine M) --------------------------------------------- *)
TypeOK == /\ start \in Slots \cup {NoStart} \cup {SatSub(n, Cap) : n \in Slots}
          /\ \A s \in Slots : \A i \in 1..Len(rec[s]) : rec[s][i].h \in Hids /\ rec[s][i].g \in Signers
(* a signer has at most one header recorded per slot: so "the first record *)
(* of the signer differs" and "some record of the signer differs" coincide *)
OnePerSigner == \A s \in Slots : \A i, j \in 1..Len(rec[s]) : rec[s][i].g = rec[s][j].g => i = j

Last == hist'[Len(hist')]
Stepped == Len(hist') > Len(hist)
(* the statement, read off the state BEFORE the check                      *)
ProofExact ==
  [][Stepped =>
       LET o == Last.o IN
       Last.res.proof <=> (InWindow(o) /\ \E i \in 1..Len(rec[o.slot]) : rec[o.slot][i].g = o.g /\ rec[o.slot][i].h # o.h)]_vars
ProofCarriesBoth ==
  [][(Stepped /\ Last.res.proof) =>
       LET o == Last.o IN
       /\ Last.res.second = o.h /\ Last.res.first # o.h
       /\ \E i \in 1..Len(rec[o.slot]) : rec[o.slot][i] = [h |-> Last.res.first, g |-> o.g]]_vars
(* "Re-checking an identical header never yields a proof."                 *)
IdenticalNeverProof ==
  [][Stepped =>
       LET o == Last.o IN
       (\E i \in 1..Len(rec[o.slot]) : rec[o.slot][i] = [h |-> o.h, g |-> o.g]) => ~Last.res.proof]_vars
(* a check that yields a proof, or is outside the window, changes nothing  *)
NoRecordOnProof == [][(Stepped /\ (Last.res.proof \/ ~InWindow(Last.o))) => UNCHANGED <<start, rec>>]_vars

View == <<start, rec>>
=============================================================================
