SPECIFICATION SpecAll
CONSTANTS
  Olds <- MOlds
  Items <- MItems
  Shape = "free"
  Depth = 3
INVARIANTS AppendLaws
VIEW View
CHECK_DEADLOCK FALSE
