SPECIFICATION CSpecAll
CONSTANTS
  CsKeys <- CmKeys
  CsVals <- CmVals
  CsProbe <- CmProbe
  CsNames <- CmNames
  CsCKeys <- CmCKeys
  CsCVals <- CmCVals
  CsCProbe <- CmCProbe
  CsSetSeq <- CmSetSeq
  CsOpKinds <- CcAllKinds
  CsV1 = TRUE
  CsMaxCommits = 2
  CsDepth = 3
INVARIANTS CTypeOK CReadBack CHistory RootCommits EncAgree CStoredRoundTrip
PROPERTY CommittedStable
VIEW CView
CHECK_DEADLOCK FALSE
