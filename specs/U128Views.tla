----------------------------- MODULE U128Views -----------------------------
(***************************************************************************)
(* C13 "128-bit integers have consistent numeric views" (pkg/scale/        *)
(* uint128.go).  A value is its 16 little-endian bytes v.  The views:      *)
(*   UvDec(v)  decimal string (ASCII), also the JSON form                  *)
(*             -- "its decimal string, JSON form"                          *)
(*   UvLE(v)   little-endian bytes, most significant zero bytes trimmed    *)
(*   UvBE(v)   big-endian bytes, leading zero bytes trimmed                *)
(*             -- "little- and big-endian byte forms"                      *)
(* all "denote the same number" (law SameNumber, checked by TLC), and      *)
(* "JSON-decoding its JSON form gives back the original value" (law        *)
(* JsonRoundTrip).  Compare(a, b) is the order of the numbers.             *)
(* A behaviour is a sequence of independent cases                          *)
(*   [o |-> [op |-> "views", v |-> v, w |-> w],                            *)
(*    res |-> [dec, le, be, cmp]]                                          *)
(* replayed by harness/pkg/scale/zz_verif_u128views_test.go against        *)
(* Uint128.String / MarshalJSON / UnmarshalJSON / Bytes / NewUint128 /     *)
(* Compare.                                                                *)
(***************************************************************************)
EXTENDS Bytes, BigNat, TLC, Json

CONSTANTS Depth, ByteVals, Universe   \* Universe: "cover" (structured set) or "tiny"
VARIABLES hist, done, part
vars == <<hist, done, part>>

UvNum(v) == BnTrim(v)                       \* the number a value denotes
UvDec(v) == BnToDecimalAscii(UvNum(v))
UvLE(v) == BnToBytesLE(UvNum(v))
UvBE(v) == BnToBytesBE(UvNum(v))
UvCmp(v, w) == BnCmp(v, w)
UvFromNum(d) == BnPad(d, 16)

(* ---- value universe: "All 128-bit values, concentrated at byte boundaries" *)
Single(p, b) == [i \in 1..16 |-> IF i = p THEN b ELSE 0]                 \* one set byte
LowRun(n, b) == [i \in 1..16 |-> IF i <= n THEN b ELSE 0]                \* 2^(8n)-1 for b = 255
Ramp(n) == [i \in 1..16 |-> IF i <= n THEN i ELSE 0]                     \* non-palindromic 01 02 03 ..
Boundary(n) == {LowRun(n, 255), Single(n + 1, 1), [i \in 1..16 |-> IF i = 1 \/ i = n + 1 THEN 1 ELSE 0]}
Cover == {Single(p, b) : p \in 1..16, b \in {1, 127, 128, 255}}
         \cup {LowRun(n, b) : n \in 0..16, b \in {1, 255}}
         \cup {Ramp(n) : n \in 1..16}
         \cup UNION {Boundary(n) : n \in 1..15}
         \cup {[i \in 1..16 |-> IF i % 2 = 1 THEN 0 ELSE 255], [i \in 1..16 |-> 17 - i], [i \in 1..16 |-> IF i <= 8 THEN 0 ELSE i]}
Tiny == {LowRun(n, 255) : n \in 0..3} \cup {Single(p, b) : p \in 1..3, b \in {1, 128}} \cup {Ramp(2), Ramp(3), Ramp(16)}
Vals == IF Universe = "tiny" THEN Tiny ELSE Cover

RE(S, z) == RandomElement({x \in S : z >= 0})
RandV(z) == LET c == RE(1..4, z)
                n == RE(0..16, z)
            IN IF c = 1 THEN RE(Cover, z)
               ELSE IF c = 2 THEN [i \in 1..16 |-> RE(ByteVals, z)]
               ELSE [i \in 1..16 |-> IF i <= n THEN RE(0..255, z) ELSE 0]

Result(o) == [dec |-> UvDec(o.v), le |-> UvLE(o.v), be |-> UvBE(o.v), cmp |-> UvCmp(o.v, o.w)]
Case(v, w) == [op |-> "views", v |-> v, w |-> w]

Step(o) == /\ hist' = Append(hist, [o |-> o, res |-> Result(o)])
           /\ UNCHANGED <<done, part>>
Finish == /\ ~done /\ Len(hist) = Depth /\ done' = TRUE /\ UNCHANGED <<hist, part>>
InitAll == hist = <<>> /\ done = FALSE /\ part \in Vals
InitRand == hist = <<>> /\ done = FALSE /\ part = LowRun(0, 0)
(* exhaustive: every value, paired with its successor-in-set and with a fixed pivot *)
NextAll == \/ /\ ~done /\ Len(hist) < Depth
              /\ \E w \in {part, LowRun(8, 255), Single(9, 1), Ramp(16)} : Step(Case(part, w))
           \/ Finish
NextRand == \/ /\ ~done /\ Len(hist) < Depth
               /\ \E o \in {Case(RandV(Len(hist)), RandV(Len(hist) + 1000))} : Step(o)
            \/ Finish
SpecAll == InitAll /\ [][NextAll]_vars
SpecRand == InitRand /\ [][NextRand]_vars
Dump == done => PrintT(<<"TRACE", ToJson(hist)>>)

(* ---- laws (engine M) ------------------------------------------------------*)
(* "its decimal string, JSON form, big-integer conversion and little- and     *)
(* big-endian byte forms denote the same number"                              *)
(* (s is UvDec(v), passed in so that TLC converts once per case)                *)
SameNumber(v, s) ==
  /\ BnFromDecimal([i \in 1..Len(s) |-> s[i] - 48]) = UvNum(v)
  /\ BnFromBytesLE(UvLE(v)) = UvNum(v)
  /\ BnFromBytesBE(UvBE(v)) = UvNum(v)
  /\ Len(UvLE(v)) = Len(UvBE(v))
(* decimal form is canonical: digits only, no leading zero except for zero itself *)
DecCanonical(s) ==
  /\ Len(s) >= 1 /\ \A i \in 1..Len(s) : s[i] \in 48..57
  /\ (Len(s) > 1 => s[1] # 48) /\ Len(s) <= 39
(* "JSON-decoding its JSON form gives back the original value" *)
JsonRoundTrip(v, s) == UvFromNum(BnFromDecimal([i \in 1..Len(s) |-> s[i] - 48])) = v
(* the order of values is the order of the numbers, hence of (length, text) of the decimal forms *)
DecLess(a, b) == Len(a) < Len(b) \/ (Len(a) = Len(b) /\ LexLess(a, b))
OrderAgrees(v, w, s, sw) == (UvCmp(v, w) = -1) <=> DecLess(s, sw)

Laws == \A i \in 1..Len(hist) : LET o == hist[i].o
                                     s == hist[i].res.dec
                                     sw == UvDec(o.w)
                                 IN SameNumber(o.v, s) /\ DecCanonical(s) /\ JsonRoundTrip(o.v, s) /\ OrderAgrees(o.v, o.w, s, sw)
TypeOK == Len(hist) <= Depth /\ done \in BOOLEAN
=============================================================================
