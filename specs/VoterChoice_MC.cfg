SPECIFICATION SpecAll
CONSTANTS
  Trees <- MTrees
  Ns <- N4
  MaxMsgs = 2
  CasesPerBehaviour = 0
  MHeads = {1, 2}
  MChanges = {0, 1}
INVARIANTS MalformedNeverCounted GhostWellDefined TargetCapped FinalisableChain
PROPERTY Monotone
VIEW View
CHECK_DEADLOCK FALSE
