SPECIFICATION SpecAll
CONSTANTS
  Trees <- MTrees
  Ns <- N4
  MaxMsgs = 2
  CasesPerBehaviour = 0
INVARIANTS MalformedNeverCounted GhostWellDefined TargetCapped FinalisableChain
PROPERTY Monotone
VIEW View
CHECK_DEADLOCK FALSE
