----------------------------- MODULE EpochSkip -----------------------------
(***************************************************************************)
(* C26 with SKIPPED EPOCHS -- dot/state/epoch.go: GetSkippedEpochDataRaw / *)
(* GetSkippedConfigData / UpdateSkippedEpochDefinitions (nextEpochMap.     *)
(* RetrieveAndUpdate) next to GetEpochDataRaw / GetConfigData, used by     *)
(* dot/core.HandleBlockImport, lib/babe.VerifyBlock and                    *)
(* lib/babe.Service.initiateEpoch.                                         *)
(*                                                                         *)
(* EpochData.tla lets the epoch grow by at most one per block.  Here a     *)
(* block may lie more than one epoch after its parent.  BABE's rule: the   *)
(* description announced in epoch E (for "E + 1") governs the NEXT EPOCH   *)
(* THAT HAS A BLOCK on that chain, whatever its index.  So on a chain the  *)
(* epoch an announcement is effective for depends on the chain:            *)
(*    Eff(a, b) = epoch of the first block after a's epoch on the path     *)
(*                a -> b, or e(a) + 1 while there is none yet.             *)
(* "The epoch data and configuration USED for a block equal those          *)
(* announced on that block's own ancestry" -- the lookups that are used:   *)
(*   own     after import, (e(b), b)                                       *)
(*   child   verification of a not yet imported child of p lying in epoch  *)
(*           x: VerifyBlock asks for epoch (x > e(p)+1 ? e(p)+1 : x)       *)
(*   start   a node on best block p starts epoch cur > e(p)+1:             *)
(*           GetSkipped*(e(p)+1, cur, p)                                   *)
(* None of them may depend on what other forks did, on which epochs nodes  *)
(* started, or on the order of those events (the statement quantifies over *)
(* block trees, not over histories): `start` and `import` are reads of the *)
(* abstract state.  The code implements the re-indexing by MOVING map      *)
(* entries; that is an implementation choice the specification does not    *)
(* share.                                                                  *)
(***************************************************************************)
EXTENDS Forest, TLC, Json

CONSTANTS MaxAdd, MaxEpoch, MaxSkip, Depth
VARIABLES info,   \* id -> [p, n, e, ed, cd]
          loc,    \* the implementation's index of the announcements (see GossamerReindex below)
          hist, done
vars == <<info, loc, hist, done>>

Known == DOMAIN info
NotFound == -1

(* all definitions over an explicit info function so that they can be evaluated on info' *)
ParOf(inf) == [b \in DOMAIN inf |-> inf[b].p]
AncOf(inf, b) == FAncSelf(ParOf(inf), b)

EffOf(inf, a, b) ==
  LET later == {x \in AncOf(inf, b) : x # a /\ a \in AncOf(inf, x) /\ inf[x].e > inf[a].e}
  IN IF later = {} THEN inf[a].e + 1
     ELSE inf[CHOOSE x \in later : \A y \in later : inf[x].n <= inf[y].n].e

DataOf(inf, e, b) ==
  IF e = 0 THEN 0
  ELSE LET A == {a \in AncOf(inf, b) : inf[a].ed /\ EffOf(inf, a, b) = e}
       IN IF A = {} THEN NotFound ELSE CHOOSE a \in A : TRUE
ConfOf(inf, e, b) ==
  LET A == {a \in AncOf(inf, b) : inf[a].cd /\ EffOf(inf, a, b) <= e}
  IN IF A = {} THEN 0 ELSE CHOOSE a \in A : \A y \in A : inf[y].n <= inf[a].n

Eff(a, b) == EffOf(info, a, b)
DataFor(e, b) == DataOf(info, e, b)
ConfFor(e, b) == ConfOf(info, e, b)

(* epochs a child of p may lie in *)
ChildEpochsOf(inf, p) == {x \in inf[p].e..(inf[p].e + 1 + MaxSkip) : x <= MaxEpoch /\ (inf[p].n = 0 => x = 0)}
(* the epoch the verifier / importer asks for when a child of p lies in epoch x *)
AskOf(inf, p, x) == IF inf[p].n # 0 /\ x > inf[p].e + 1 THEN inf[p].e + 1 ELSE x
(* what governs a child of p in epoch x: p's own epoch description, or what is pending after p *)
ChildDataOf(inf, p, x) == IF x = inf[p].e THEN DataOf(inf, x, p) ELSE DataOf(inf, inf[p].e + 1, p)
ChildConfOf(inf, p, x) == IF x = inf[p].e THEN ConfOf(inf, x, p) ELSE ConfOf(inf, inf[p].e + 1, p)

NewId == Cardinality(Known)
AddOps ==
  IF NewId > MaxAdd THEN {}
  ELSE UNION {{[op |-> "Add", b |-> NewId, p |-> p, n |-> info[p].n + 1, e |-> e, ed |-> ed, cd |-> cd, cur |-> 0] :
                 e \in ChildEpochsOf(info, p), ed \in BOOLEAN, cd \in BOOLEAN} : p \in Known}
(* at most one announcer per chain and epoch *)
Legal(o) ==
  /\ o.ed => ~\E a \in AncOf(info, o.p) : info[a].ed /\ info[a].e = o.e
  /\ o.cd => ~\E a \in AncOf(info, o.p) : info[a].cd /\ info[a].e = o.e
StartOps == UNION {{[op |-> "Start", b |-> 0, p |-> p, n |-> 0, e |-> 0, ed |-> FALSE, cd |-> FALSE, cur |-> cur] :
                      cur \in {x \in (info[p].e + 2)..(info[p].e + 1 + MaxSkip) : x <= MaxEpoch}} : p \in {q \in Known : info[q].n >= 1}}

(* ---- GossamerReindex: a named deviation of the implementation ----------------------------------- *)
(* The code keeps announcements in maps indexed by the epoch they were announced FOR and implements   *)
(* "governs the next epoch that has a block" by MOVING the entry to the new index: when a block that  *)
(* skips epochs is imported (UpdateSkippedEpochDefinitions) and when a node starts an epoch after a   *)
(* gap (GetSkipped..).  The maps are shared by all forks, so a move made for one fork, or for an      *)
(* epoch that was merely started, re-indexes the entry for every other block that has the announcer   *)
(* on its ancestry, and a later move can take an entry that an earlier move put there for another     *)
(* fork (pinned TestRetrieveAndUpdate asserts the move).  `loc` is that index: loc[a].d / loc[a].c =  *)
(* the epoch under which a's data / configuration announcement is filed (-1: a announces none).       *)
(* Code* below are the implementation's lookups as functions of (info, loc): SETS of possible         *)
(* results, because findAncestor ranges over a Go map and returns the first entry that is an ancestor *)
(* -- with two entries of one chain under the same index the result depends on map order.  Histories  *)
(* in which a MOVE would be ambiguous are not generated (Deterministic); an ambiguous READ is accepted *)
(* with any of its results.  The property is stated for all lookups (d, c); where the code's design   *)
(* gives something else (gd, gc) the disagreement is the recorded finding, and a result that is       *)
(* neither is a violation of its own.                                                                 *)
GD(inf, lc, idx, A) == {a \in A : inf[a].ed /\ lc[a].d = idx}
GC(inf, lc, idx, A) == {a \in A : inf[a].cd /\ lc[a].c = idx}
CodeData(inf, lc, e, A) == IF e = 0 THEN {0} ELSE IF GD(inf, lc, e, A) = {} THEN {NotFound} ELSE GD(inf, lc, e, A)
CodeConf(inf, lc, e, A) ==
  LET T == {t \in 1..e : GC(inf, lc, t, A) # {}}
  IN IF T = {} THEN {0} ELSE GC(inf, lc, CHOOSE t \in T : \A u \in T : u <= t, A)
MoveD(inf, lc, sk, cur, A) == LET S == GD(inf, lc, sk, A) IN IF S = {} THEN lc ELSE [lc EXCEPT ![CHOOSE x \in S : TRUE].d = cur]
MoveC(inf, lc, sk, cur, A) == LET S == GC(inf, lc, sk, A) IN IF S = {} THEN lc ELSE [lc EXCEPT ![CHOOSE x \in S : TRUE].c = cur]
(* UpdateSkippedEpochDefinitions / GetSkippedEpochDataRaw + GetSkippedConfigData: data first; nothing else happens if that fails *)
Reindex(inf, lc, sk, cur, A) == IF GD(inf, lc, sk, A) = {} THEN lc ELSE MoveC(inf, MoveD(inf, lc, sk, cur, A), sk, cur, A)
Deterministic(inf, lc, sk, A) == Cardinality(GD(inf, lc, sk, A)) <= 1 /\ Cardinality(GC(inf, lc, sk, A)) <= 1
(* what GetSkippedConfigData returns: the moved entry, else the latest earlier configuration *)
CodeSkippedConf(inf, lc, sk, A) == IF GC(inf, lc, sk, A) # {} THEN GC(inf, lc, sk, A) ELSE CodeConf(inf, lc, sk - 1, A)

Skips(o) == o.op = "Add" /\ info[o.p].n # 0 /\ o.e > info[o.p].e + 1
OpDeterministic(o) == (o.op = "Start" \/ Skips(o)) => Deterministic(info, loc, info[o.p].e + 1, AncOf(info, o.p))
Ops == {o \in {x \in AddOps : Legal(x)} \cup StartOps : OpDeterministic(o)}

(* the used lookups of a tree *)
ObsOf(inf, lc) ==
  LET K == DOMAIN inf
      own == {[kind |-> "own", b |-> b, x |-> inf[b].e, ask |-> inf[b].e, d |-> DataOf(inf, inf[b].e, b), c |-> ConfOf(inf, inf[b].e, b),
               gd |-> CodeData(inf, lc, inf[b].e, AncOf(inf, b)), gc |-> CodeConf(inf, lc, inf[b].e, AncOf(inf, b))] :
                b \in {q \in K : inf[q].n >= 1}}
      child == UNION {{[kind |-> "child", b |-> p, x |-> x, ask |-> AskOf(inf, p, x), d |-> ChildDataOf(inf, p, x), c |-> ChildConfOf(inf, p, x),
                        gd |-> CodeData(inf, lc, AskOf(inf, p, x), AncOf(inf, p)), gc |-> CodeConf(inf, lc, AskOf(inf, p, x), AncOf(inf, p))] :
                         x \in ChildEpochsOf(inf, p)} : p \in K}
  IN own \cup child

ResOf(o) ==
  LET A == AncOf(info, o.p)
      sk == info[o.p].e + 1
  IN IF o.op = "Start"
     THEN [d |-> DataFor(sk, o.p), c |-> ConfFor(sk, o.p), skipped |-> FALSE,
           gd |-> CodeData(info, loc, sk, A), gc |-> CodeSkippedConf(info, loc, sk, A)]
     ELSE [d |-> ChildDataOf(info, o.p, o.e), c |-> ChildConfOf(info, o.p, o.e), skipped |-> Skips(o),
           gd |-> CodeData(info, loc, AskOf(info, o.p, o.e), A), gc |-> CodeConf(info, loc, AskOf(info, o.p, o.e), A)]

Step(o) ==
  /\ ~done /\ Len(hist) < Depth
  /\ info' = IF o.op = "Add"
             THEN [x \in Known \cup {o.b} |-> IF x = o.b THEN [p |-> o.p, n |-> o.n, e |-> o.e, ed |-> o.ed, cd |-> o.cd] ELSE info[x]]
             ELSE info
  /\ loc' = LET A == AncOf(info, o.p)
                sk == info[o.p].e + 1
                l1 == IF o.op = "Start" THEN Reindex(info, loc, sk, o.cur, A)
                      ELSE IF Skips(o) THEN Reindex(info, loc, sk, o.e, A) ELSE loc
            IN IF o.op = "Add"
               THEN [x \in Known \cup {o.b} |-> IF x = o.b THEN [d |-> IF o.ed THEN o.e + 1 ELSE -1, c |-> IF o.cd THEN o.e + 1 ELSE -1] ELSE l1[x]]
               ELSE l1
  /\ hist' = Append(hist, [o |-> o, res |-> ResOf(o), obs |-> ObsOf(info', loc')])
  /\ UNCHANGED done
Finish == /\ ~done /\ (IF Len(hist) = Depth THEN TRUE ELSE Ops = {}) /\ done' = TRUE /\ UNCHANGED <<info, loc, hist>>

Init == /\ info = (0 :> [p |-> NoBlock, n |-> 0, e |-> 0, ed |-> FALSE, cd |-> FALSE])
        /\ loc = (0 :> [d |-> -1, c |-> -1]) /\ hist = <<>> /\ done = FALSE
NextAll == (\E o \in Ops : Step(o)) \/ Finish
(* generator: announcements, skips and forks are frequent *)
PickOp ==
  LET k == RandomElement({i \in 1..12 : Len(hist) >= 0})
      A == {o \in Ops : o.op = "Add"}
      (* chains on which the first block of every epoch announces (as BABE runtimes do) *)
      G == {o \in A : (o.e > info[o.p].e \/ o.n = 1) => o.ed}
      cand == IF k <= 3 THEN {o \in G : o.e > info[o.p].e + 1}
              ELSE IF k <= 5 THEN {o \in G : o.e = info[o.p].e + 1}
              ELSE IF k <= 7 THEN {o \in Ops : o.op = "Start"}
              ELSE IF k <= 10 THEN G
              ELSE Ops
  IN IF cand = {} THEN RandomElement(Ops) ELSE RandomElement(cand)
NextRand == (~done /\ Ops # {} /\ \E o \in {PickOp} : Step(o)) \/ Finish
SpecAll == Init /\ [][NextAll]_vars
SpecRand == Init /\ [][NextRand]_vars
Dump == done => PrintT(<<"TRACE", ToJson(hist)>>)
View == <<info, loc>>

--------------------------------------------------------------------------
(* ---- properties (engine M) --------------------------------------------- *)
Par == ParOf(info)
TypeOK == /\ FIsTree(Par) /\ FRoots(Par) = {0}
          /\ \A b \in Known \ {0} : /\ info[b].e >= info[info[b].p].e /\ info[b].e <= info[info[b].p].e + 1 + MaxSkip
                                    /\ info[b].n = info[info[b].p].n + 1
(* an announcement is effective for exactly one epoch of a chain, and no two announcements of a chain for the same one *)
UniqueOnChain ==
  \A b \in Known : \A a1, a2 \in AncOf(info, b) :
     (a1 # a2 /\ info[a1].ed /\ info[a2].ed) => Eff(a1, b) # Eff(a2, b)
(* fork awareness: a used lookup returns an announcement of the block's own ancestry made in an EARLIER epoch of the chain, *)
(* and the latest such for data: nothing of the chain lies between the announcer's epoch and the epoch it governs            *)
ForkAware ==
  \A b \in Known \ {0} :
    LET d == DataFor(info[b].e, b) IN
    (d # NotFound /\ info[b].e # 0) =>
       /\ d \in AncOf(info, b) /\ info[d].ed /\ info[d].e < info[b].e
       /\ ~\E x \in AncOf(info, b) : info[x].e > info[d].e /\ info[x].e < info[b].e
(* a chain on which the first block of every epoch announces never lacks a description *)
FirstOfEpoch(b) == b # 0 /\ info[info[b].p].e < info[b].e
Complete(b) == \A x \in AncOf(info, b) : (FirstOfEpoch(x) \/ info[x].n = 1) => info[x].ed
CompleteChainsServed == \A b \in Known \ {0} : Complete(b) => DataFor(info[b].e, b) # NotFound
(* blocks of one epoch on one chain use the same description *)
SameEpochSameData == \A b \in Known \ {0} : info[info[b].p].e = info[b].e /\ info[b].p # 0 =>
                        DataFor(info[b].e, b) = DataFor(info[b].e, info[b].p)
(* what the verifier derives for a child before import is what the child uses after import *)
VerifierAgreesWithImport ==
  [][\A o \in Ops : (o.op = "Add" /\ info' # info /\ o.b \in DOMAIN info' /\ info'[o.b] = [p |-> o.p, n |-> o.n, e |-> o.e, ed |-> o.ed, cd |-> o.cd])
        => /\ DataOf(info', o.e, o.b) = ChildDataOf(info, o.p, o.e)
           /\ ConfOf(info', o.e, o.b) = ChildConfOf(info, o.p, o.e)]_vars
(* no step changes what an existing block uses: forks, started epochs and their order are invisible *)
UseStable == [][\A b \in Known \ {0} : /\ DataOf(info', info[b].e, b) = DataFor(info[b].e, b)
                                       /\ ConfOf(info', info[b].e, b) = ConfFor(info[b].e, b)]_vars
(* on a chain without forks on which no epoch was started ahead of its blocks the design gives what the property demands: *)
(* the deviation needs a fork at or after the announcer, or a started epoch                                                  *)
IsLinear == \A x, y \in Known : x \in AncOf(info, y) \/ y \in AncOf(info, x)
NoStart == \A i \in 1..Len(hist) : hist[i].o.op # "Start"
DesignRightOnLinearChains ==
  (IsLinear /\ NoStart) =>
     \A b \in Known \ {0} : /\ CodeData(info, loc, info[b].e, AncOf(info, b)) = {DataFor(info[b].e, b)}
                              /\ CodeConf(info, loc, info[b].e, AncOf(info, b)) = {ConfFor(info[b].e, b)}
=============================================================================
