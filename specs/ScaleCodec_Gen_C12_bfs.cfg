SPECIFICATION SpecAll
CONSTANTS
  Types <- DTypes
  CaseKinds <- OnlyDec
  Depth = 1
  RandDepth = 1
INVARIANT Dump
CHECK_DEADLOCK FALSE
