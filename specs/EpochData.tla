----------------------------- MODULE EpochData -----------------------------
(***************************************************************************)
(* C26 "BABE epoch data is taken from the block's own fork" --             *)
(* dot/state/epoch.go: HandleBABEDigest (announcements), GetEpochDataRaw / *)
(* GetConfigData (lookups through nextEpochMap.Retrieve / findAncestor).   *)
(*                                                                         *)
(* State: a block tree (Forest) in which every block b lies in an epoch    *)
(* e(b) (non-decreasing along parent links, blocks 0 and 1 are in epoch 0) *)
(* and may announce next-epoch DATA and / or next-epoch CONFIGURATION for  *)
(* epoch e(b) + 1.  The announced value is identified by the announcing    *)
(* block's id; 0 stands for the genesis descriptor.  As in BABE, at most   *)
(* one block per chain and epoch announces (generator constraint; two      *)
(* announcers for one epoch on one chain are outside the statement).       *)
(*                                                                         *)
(* Nothing is finalised here, so every lookup goes through the in-memory,  *)
(* fork-aware maps.                                                        *)
(***************************************************************************)
EXTENDS Forest, TLC, Json

CONSTANTS MaxAdd, MaxEpoch, Depth
VARIABLES info,   \* id -> [p, n, e, ed, cd]
          hist, done
vars == <<info, hist, done>>

Known == DOMAIN info
Par == [b \in Known |-> info[b].p]
NotFound == -1

(* announcers of data / configuration FOR epoch e                           *)
AnnD(e) == {a \in Known : info[a].ed /\ info[a].e + 1 = e}
AnnC(e) == {a \in Known : info[a].cd /\ info[a].e + 1 = e}

(* "the epoch data ... used for a block equal those announced on that      *)
(* block's own ancestry"; "A lookup for a block whose ancestry announces   *)
(* nothing for that epoch fails promptly instead of returning another      *)
(* fork's data or hanging": Lookup is a total function, NotFound included  *)
LookupData(e, b) ==
  IF e = 0 THEN 0
  ELSE LET A == AnnD(e) \cap FAncSelf(Par, b)
       IN IF A = {} THEN NotFound ELSE CHOOSE a \in A : TRUE
(* "(or the latest earlier configuration)": the configuration announced    *)
(* for the latest epoch <= e on the block's ancestry, else genesis         *)
LookupConfig(e, b) ==
  LET E == {x \in 1..e : AnnC(x) \cap FAncSelf(Par, b) # {}}
  IN IF E = {} THEN 0
     ELSE LET m == CHOOSE x \in E : \A y \in E : y <= x
          IN CHOOSE a \in AnnC(m) \cap FAncSelf(Par, b) : TRUE

(* the same lookup as the parent-by-parent walk the code performs; it is   *)
(* evaluated by TLC on every reachable state, so the walk terminates on    *)
(* every tree in scope (the depth of the current block strictly decreases) *)
RECURSIVE WalkData(_, _)
WalkData(e, b) == IF b \in AnnD(e) THEN b
                  ELSE IF info[b].p \notin Known THEN NotFound
                  ELSE WalkData(e, info[b].p)

NewId == Cardinality(Known)
EpochsAfter(p) == {x \in {info[p].e, info[p].e + 1} : x <= MaxEpoch /\ (info[p].n = 0 => x = 0)}
AddOps ==
  IF NewId > MaxAdd THEN {}
  ELSE UNION {{[op |-> "Add", b |-> NewId, p |-> p, n |-> info[p].n + 1, e |-> e, ed |-> ed, cd |-> cd] :
                 e \in EpochsAfter(p), ed \in BOOLEAN, cd \in BOOLEAN} : p \in Known}
(* at most one announcer per chain and epoch                               *)
Legal(o) ==
  /\ o.ed => ~\E a \in FAncSelf(Par, o.p) : info[a].ed /\ info[a].e = o.e
  /\ o.cd => ~\E a \in FAncSelf(Par, o.p) : info[a].cd /\ info[a].e = o.e
Ops == {o \in AddOps : Legal(o)}

(* every (block, epoch) lookup after the step                              *)
ObsOf(inf) ==
  LET K == DOMAIN inf
      P == [b \in K |-> inf[b].p]
      A == [b \in K |-> FAncSelf(P, b)]
      aD(e) == {a \in K : inf[a].ed /\ inf[a].e + 1 = e}
      aC(e) == {a \in K : inf[a].cd /\ inf[a].e + 1 = e}
      ld(e, b) == IF e = 0 THEN 0 ELSE LET S == aD(e) \cap A[b] IN IF S = {} THEN NotFound ELSE CHOOSE a \in S : TRUE
      lc(e, b) == LET E == {x \in 1..e : aC(x) \cap A[b] # {}}
                  IN IF E = {} THEN 0
                     ELSE LET m == CHOOSE x \in E : \A y \in E : y <= x IN CHOOSE a \in aC(m) \cap A[b] : TRUE
      n == Cardinality(K)
      ne == MaxEpoch + 2
  IN [k \in 1..(n * ne) |->
        LET b == (k - 1) \div ne
            e == (k - 1) % ne
        IN [b |-> b, e |-> e, d |-> ld(e, b), c |-> lc(e, b), dn |-> Cardinality(aD(e)), cn |-> Cardinality(aC(e))]]

Step(o) ==
  /\ ~done /\ Len(hist) < Depth
  /\ info' = [x \in Known \cup {o.b} |-> IF x = o.b THEN [p |-> o.p, n |-> o.n, e |-> o.e, ed |-> o.ed, cd |-> o.cd] ELSE info[x]]
  /\ hist' = Append(hist, [o |-> o, res |-> [ok |-> TRUE], obs |-> IF Len(hist) + 1 = Depth \/ o.b = MaxAdd THEN ObsOf(info') ELSE <<>>])
  /\ UNCHANGED done
(* (IF, not a disjunction: TLC would split a disjunction into two identical successors) *)
Finish == /\ ~done /\ (IF Len(hist) = Depth THEN TRUE ELSE Ops = {}) /\ done' = TRUE /\ UNCHANGED <<info, hist>>

Init == /\ info = (0 :> [p |-> NoBlock, n |-> 0, e |-> 0, ed |-> FALSE, cd |-> FALSE])
        /\ hist = <<>> /\ done = FALSE
NextAll == (\E o \in Ops : Step(o)) \/ Finish
(* generator: announcements are frequent, forks are frequent               *)
PickOp ==
  LET k == RandomElement({i \in 1..10 : Len(hist) >= 0})
      cand == IF k <= 5 THEN {o \in Ops : o.ed \/ o.cd}
              ELSE IF k <= 7 THEN {o \in Ops : o.e > info[o.p].e}
              ELSE Ops
  IN IF cand = {} THEN RandomElement(Ops) ELSE RandomElement(cand)
NextRand == (~done /\ Ops # {} /\ \E o \in {PickOp} : Step(o)) \/ Finish
SpecAll == Init /\ [][NextAll]_vars
SpecRand == Init /\ [][NextRand]_vars
Dump == done => PrintT(<<"TRACE", ToJson(hist)>>)

--------------------------------------------------------------------------
(* ---- properties (engine M) --------------------------------------------- *)
Epochs == 0..(MaxEpoch + 1)
TypeOK == /\ FIsTree(Par) /\ FRoots(Par) = {0}
          /\ \A b \in Known \ {0} : info[b].e \in {info[info[b].p].e, info[info[b].p].e + 1} /\ info[b].n = info[info[b].p].n + 1
(* at most one announcement per epoch is visible from any block            *)
UniqueOnChain == \A b \in Known, e \in Epochs :
                   Cardinality(AnnD(e) \cap FAncSelf(Par, b)) <= 1 /\ Cardinality(AnnC(e) \cap FAncSelf(Par, b)) <= 1
(* fork awareness: what a lookup returns was announced for that epoch by   *)
(* an ancestor-or-self of the block -- never by a block of another fork -- *)
(* and NotFound is returned exactly when the ancestry announces nothing    *)
ForkAware ==
  \A b \in Known, e \in Epochs \ {0} :
    LET d == LookupData(e, b) c == LookupConfig(e, b) IN
    /\ d # NotFound => d \in FAncSelf(Par, b) /\ info[d].ed /\ info[d].e + 1 = e
    /\ d = NotFound <=> ~\E a \in FAncSelf(Par, b) : info[a].ed /\ info[a].e + 1 = e
    /\ c # 0 => /\ c \in FAncSelf(Par, b) /\ info[c].cd /\ info[c].e + 1 <= e
                /\ ~\E a \in FAncSelf(Par, b) : info[a].cd /\ info[a].e + 1 <= e /\ info[a].e > info[c].e
    /\ c = 0 <=> ~\E a \in FAncSelf(Par, b) : info[a].cd /\ info[a].e + 1 <= e
(* descendants inherit: a lookup from a block that announces nothing       *)
(* itself equals the lookup from its parent                                *)
Inherit == \A b \in Known \ {0}, e \in Epochs :
             (~(info[b].ed /\ info[b].e + 1 = e) => LookupData(e, b) = LookupData(e, info[b].p))
(* the walk the code performs computes the same function, and terminates   *)
WalkAgrees == \A b \in Known, e \in Epochs \ {0} : WalkData(e, b) = LookupData(e, b)
ObsAgrees == LET O == ObsOf(info)
             IN \A k \in 1..Len(O) : O[k].d = LookupData(O[k].e, O[k].b) /\ O[k].c = LookupConfig(O[k].e, O[k].b)
View == info
=============================================================================
