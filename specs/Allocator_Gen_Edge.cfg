SPECIFICATION SpecRand
CONSTANTS
  NumOrders = 23
  PageUnits = 8192
  MaxPages = 65536
  Inits <- EdgeInits
  ModelData = FALSE
  AllocFailPoisons <- OnlyTrue
  TopFits <- OnlyTrue
  Depth = 24
INVARIANT Dump
CHECK_DEADLOCK FALSE
