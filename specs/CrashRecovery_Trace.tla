------------------------- MODULE CrashRecovery_Trace -------------------------
(***************************************************************************)
(* Engine V for C36: the database writes recorded from the real scenario   *)
(* (recording database.Database wrapper, harness zz_verif_crash_test.go)   *)
(* must be a behaviour of CrashRecovery: every operation {"ev":"op"} is    *)
(* followed by exactly the writes {"ev":"w","rows":[...]} that OpWritesP   *)
(* prescribes for it, in order, under one of the two write-order policies  *)
(* ("pinned" = order of the pinned code, "required" = pointer last);       *)
(* {"ev":"reset"} separates scenarios and requires that no prescribed      *)
(* write is missing.  Crash/Restart are not part of a recorded run; the    *)
(* crash points are enumerated on the real code by the harness.            *)
(***************************************************************************)
EXTENDS CrashRecovery_Gen

Trace == ndJsonDeserialize("trace.ndjson")

VARIABLE l
tvars == <<l, st, hist, done, db, wq, cur, script, nfin, stable, crashed, whist, dbalt>>

TInit == /\ l = 1 /\ TLCSet(1, 1)
         /\ st = InitState /\ hist = <<>> /\ done = FALSE /\ db = GenesisDb /\ wq = <<>>
         /\ cur = [i |-> 0, o |-> [op |-> "none", p |-> 0, a |-> NoAnn, b |-> 0], alt |-> <<>>] /\ dbalt = GenesisDb
         /\ script = <<>> /\ nfin = 0 /\ stable = 0 /\ crashed = FALSE /\ whist = <<>>

Ev(e) == l <= Len(Trace) /\ Trace[l].ev = e
Frame == UNCHANGED <<hist, done, db, cur, script, stable, crashed, whist, dbalt>>

TReset == /\ Ev("reset") /\ wq = <<>>
          /\ st' = InitState /\ nfin' = 0 /\ wq' = <<>> /\ l' = l + 1 /\ Frame

TOp == /\ Ev("op") /\ wq = <<>>
       /\ LET o == Trace[l].o
              r == CApply(st, o)
              round == IF IsFin(o) THEN nfin + 1 ELSE nfin
          IN /\ OpOK(st, o)
             /\ st' = r.s /\ nfin' = round
             /\ wq' \in {OpWritesP("pinned", st, o, r, round), OpWritesP("required", st, o, r, round)}
       /\ l' = l + 1 /\ Frame

TW == /\ Ev("w") /\ wq # <<>>
      /\ Head(wq) = Trace[l].rows
      /\ wq' = Tail(wq) /\ l' = l + 1 /\ UNCHANGED <<st, nfin>> /\ Frame

TNext == TReset \/ TOp \/ TW
TraceSpec == TInit /\ [][TNext]_tvars

HighWater == TLCSet(1, IF l > TLCGet(1) THEN l ELSE TLCGet(1))
Accepted == PrintT(<<"VERIF-TRACE", TLCGet(1) - 1, Len(Trace)>>)
=============================================================================
