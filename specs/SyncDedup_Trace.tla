--------------------------- MODULE SyncDedup_Trace ---------------------------
(***************************************************************************)
(* C35 for the request de-duplication cache of the sync service            *)
(* (dot/sync/message.go, SyncService.CreateBlockResponse on the shared LRU *)
(* seenBlockSyncRequests): the cache is ONE capacity-bounded map for all   *)
(* the streams a node serves concurrently, from the first request on.      *)
(*                                                                         *)
(* Sequential object (fewer keys than the cache holds: nothing is evicted):*)
(*   n[k] = number of times the request k (peer + request) was served      *)
(*   Req(k)  refused (1) iff n[k] > Max, else served (0) and n[k] := n[k]+1 *)
(* Every key is used by one stream at a time (a stream's requests are      *)
(* sequential; CreateBlockResponse reads and writes the entry in two       *)
(* steps, which the statement does not forbid), different keys overlap     *)
(* freely.  Trace: {"ev":"reset","max":m} | {"ev":"call","id","op","k"} | *)
(* {"ev":"ret","id","res"}, stamped by one atomic counter around the real  *)
(* call; accepted iff the calls can be linearised (internal step TLin).    *)
(***************************************************************************)
EXTENDS Integers, Sequences, FiniteSets, TLC, Json

Trace == ndJsonDeserialize("dedup.ndjson")

VARIABLES l, max, n, pending, lin
tvars == <<l, max, n, pending, lin>>

Count(k) == IF k \in DOMAIN n THEN n[k] ELSE 0

TInit == l = 1 /\ max = 0 /\ n = <<>> /\ pending = {} /\ lin = {} /\ TLCSet(1, 1)
Ev(e) == l <= Len(Trace) /\ Trace[l].ev = e

TReset == /\ Ev("reset") /\ pending = {} /\ lin = {}
          /\ max' = Trace[l].max /\ n' = <<>> /\ l' = l + 1 /\ UNCHANGED <<pending, lin>>
TCall == /\ Ev("call")
         /\ pending' = pending \cup {[id |-> Trace[l].id, op |-> Trace[l].op, k |-> Trace[l].k]}
         /\ l' = l + 1 /\ UNCHANGED <<max, n, lin>>
TLin == \E p \in pending :
         /\ n' = IF Count(p.k) > max THEN n ELSE (p.k :> (Count(p.k) + 1)) @@ n
         /\ lin' = lin \cup {[id |-> p.id, res |-> IF Count(p.k) > max THEN 1 ELSE 0]}
         /\ pending' = pending \ {p} /\ UNCHANGED <<l, max>>
TRet == /\ Ev("ret")
        /\ \E r \in lin : r.id = Trace[l].id /\ r.res = Trace[l].res /\ lin' = lin \ {r}
        /\ l' = l + 1 /\ UNCHANGED <<max, n, pending>>

TNext == TReset \/ TCall \/ TLin \/ TRet
TraceSpec == TInit /\ [][TNext]_tvars

HighWater == TLCSet(1, IF l > TLCGet(1) THEN l ELSE TLCGet(1))
Accepted == PrintT(<<"VERIF-TRACE", TLCGet(1) - 1, Len(Trace)>>)
=============================================================================
