SPECIFICATION SpecRand
CONSTANTS
  Keys <- SKeys
  Vals <- SVals
  Lens <- SLens
  LongLens <- LLens
  Versions <- SVersions
  Damages <- SDamages
  Depth = 20
INVARIANT Dump
CHECK_DEADLOCK FALSE
