SPECIFICATION SpecAll
CONSTANTS
  NumOrders = 3
  PageUnits = 4
  MaxPages = 3
  Inits <- NInits
  ModelData = TRUE
  AllocFailPoisons <- BothBool
  TopFits <- BothBool
  Depth = 100000
INVARIANTS TypeOK NoOverlap AboveBase InsideMem PagesBound DataIntact Structure
PROPERTIES OversizeFails InvalidFreePoisons ValidFree PoisonSticks FreshAllocation DataStable PagesMonotone
VIEW View
CHECK_DEADLOCK FALSE
