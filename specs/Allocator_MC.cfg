SPECIFICATION SpecAll
CONSTANTS
  NumOrders = 4
  PageUnits = 8
  MaxPages = 4
  Inits <- MInits
  Sizes <- MSizes
  ModelData = TRUE
  AllocFailPoisons <- BothBool
  FreeWeight = 0
  InvalidWeight = 0
  Depth = 100000
INVARIANTS TypeOK NoOverlap AboveBase InsideMem PagesBound DataIntact Structure
PROPERTIES OversizeFails InvalidFreePoisons ValidFree PoisonSticks FreshAllocation DataStable PagesMonotone
VIEW View
CHECK_DEADLOCK FALSE
