SPECIFICATION SpecRand
CONSTANTS
  NBlocks = 6
  NResp = 9
  MaxBatch = 4
  MaxLen = 6
  DamagePct = 0
INVARIANT Dump
CHECK_DEADLOCK FALSE
