SPECIFICATION SpecAll
CONSTANTS
  Trees <- MTrees
  VoterLists <- MLists4
  Ids <- MIds4
  Sigs <- JSigs
  MaxEntries = 3
  CasesPerBehaviour = 0
INVARIANTS SafetyCore Nested WeightsSummed InvalidIgnored CompleteShape
PROPERTY Monotone
VIEW View
CHECK_DEADLOCK FALSE
