SPECIFICATION SpecRand
CONSTANTS
  Types <- LeafSet
  CaseKinds <- OnlyDec
  Depth = 20
  RandDepth = 3
INVARIANT Dump
CHECK_DEADLOCK FALSE
