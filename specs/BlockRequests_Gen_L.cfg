SPECIFICATION SpecRand
CONSTANTS
  Trunk = 258
  NBlocks = 8
  NReq = 24
  TipW = 2
INVARIANT Dump
CHECK_DEADLOCK FALSE
