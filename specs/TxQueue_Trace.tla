--------------------------- MODULE TxQueue_Trace ---------------------------
(* Engine V for C34: linearizability of concurrent histories recorded from *)
(* the real PriorityQueue (same event format and acceptance as LRU_Trace). *)
EXTENDS TxQueueOps, TLC, Json

Trace == ndJsonDeserialize("trace.ndjson")
VARIABLES l, c, pending, lin
tvars == <<l, c, pending, lin>>
TInit == l = 1 /\ c = EmptyQ /\ pending = {} /\ lin = {} /\ TLCSet(1, 1)
Ev(e) == l <= Len(Trace) /\ Trace[l].ev = e
TReset == /\ Ev("reset") /\ pending = {} /\ lin = {}
          /\ c' = EmptyQ /\ l' = l + 1 /\ UNCHANGED <<pending, lin>>
TCall == /\ Ev("call")
         /\ pending' = pending \cup {[id |-> Trace[l].id, op |-> Trace[l].op, tx |-> Trace[l].tx, prio |-> Trace[l].prio]}
         /\ l' = l + 1 /\ UNCHANGED <<c, lin>>
(* PopWithTimer ("PopT") is a Pop that may give up: it takes effect either as a Pop of a non-empty queue, or, the timer   *)
(* having fired, as nothing at all -- it answers 0 and the queue is what it was (a transaction pushed meanwhile stays).   *)
TLin == \E p \in pending :
         /\ \/ /\ p.op # "PopT"
               /\ c' = QApply(c, p)
               /\ lin' = lin \cup {[id |-> p.id, res |-> QRes(c, p)]}
            \/ /\ p.op = "PopT" /\ c.q # {}
               /\ c' = QApply(c, [p EXCEPT !.op = "Pop"])
               /\ lin' = lin \cup {[id |-> p.id, res |-> Best(c).tx]}
            \/ /\ p.op = "PopT"
               /\ c' = c
               /\ lin' = lin \cup {[id |-> p.id, res |-> 0]}
         /\ pending' = pending \ {p} /\ UNCHANGED l
TRet == /\ Ev("ret")
        /\ \E r \in lin : r.id = Trace[l].id /\ r.res = Trace[l].res /\ lin' = lin \ {r}
        /\ l' = l + 1 /\ UNCHANGED <<c, pending>>
TNext == TReset \/ TCall \/ TLin \/ TRet
TraceSpec == TInit /\ [][TNext]_tvars
HighWater == TLCSet(1, IF l > TLCGet(1) THEN l ELSE TLCGet(1))
Accepted == PrintT(<<"VERIF-TRACE", TLCGet(1) - 1, Len(Trace)>>)
=============================================================================
