SPECIFICATION SSpecAll
CONSTANTS
  StKeys <- GmKeys
  StVals <- GmVals
  StProbe <- GmProbe
  StOpKinds <- StAllKinds
  StStartV1 = FALSE
  StPrune = {FALSE, TRUE}
  StMaxCommits = 2
  StDepth = 5
INVARIANTS STypeOK ReadBack History StoredNodesRoundTrip RootNamesState
VIEW SView
CHECK_DEADLOCK FALSE
