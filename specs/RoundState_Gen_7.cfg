SPECIFICATION SpecRand
CONSTANTS
  Trees <- GTrees
  Voters <- V7
  W <- UnitW
  EqV <- V7
  LeafBias = FALSE
  PVUnanimous = FALSE
  MaxPV = 2
  MaxPC = 2
  Depth = 24
INVARIANT Dump
CHECK_DEADLOCK FALSE
