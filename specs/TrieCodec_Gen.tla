--------------------------- MODULE TrieCodec_Gen ---------------------------
(***************************************************************************)
(* C07 as a family of PURE-FUNCTION cases over TrieCodec:                  *)
(*  "Every trie node encodes to bytes that decode back to an equivalent    *)
(*   node. This covers leaves and branches, with or without a value,       *)
(*   inline or hashed values, and any partial key length up to 65535       *)
(*   nibbles."            -> cases "rt" (node, EncN(node)), "hdr" (header  *)
(*                           bytes for long partial keys), theorem RtOK    *)
(*  "Decoding any byte string yields a node or an error and never panics   *)
(*   or hangs."           -> cases "dec" (byte string, is it the encoding  *)
(*                           of a node, and of which), theorem DecTotal    *)
(* Engine M enumerates the case universe as initial states and checks the  *)
(* theorems on each; engine G dumps every case for the Go harness.         *)
(***************************************************************************)
EXTENDS TrieCodec, TLC, Json

VARIABLES cs, hist, done
cvars == <<cs, hist, done>>

--------------------------------------------------------------------------
(* ---- the node universe -------------------------------------------------- *)

Pks == { <<>>, <<1>>, <<1, 2>>, <<15, 0, 3>>, <<0, 0, 0, 10>>,
         Rep(14, 5), Rep(15, 5), Rep(16, 5), Rep(30, 6), Rep(31, 6), Rep(32, 6),
         Rep(62, 7), Rep(63, 7), Rep(64, 7), Rep(65, 7) }

LongVal == Rep(33, 9)
Vals == { NoVal, InlineVal(<<>>), InlineVal(<<7>>), InlineVal(Rep(32, 2)), InlineVal(Rep(70, 3)),
          HashedVal(H(LongVal)), HashedVal(H(Rep(40, 1))),
          (* a hashed value whose preimage is SHORT: the in-memory trie never hashes it itself, but a node loaded from a   *)
          (* database or a proof (external input) can carry one; flag and body must still agree (seed C07c)                *)
          HashedVal(H(<<>>)), HashedVal(H(<<7>>)), HashedVal(H(Rep(32, 2))) }

TinyLeaf == EncN(LeafNode(<<>>, InlineVal(<<>>)))              \* 2 bytes
SmallLeaf == EncN(LeafNode(<<1>>, InlineVal(<<7, 7>>)))         \* 5 bytes
Leaf31 == EncN(LeafNode(<<1, 2>>, InlineVal(Rep(28, 4))))      \* 31 bytes: the largest inlined child
InlBranch == EncN(BranchNode(<<>>, NoVal, [c \in 0..15 |-> IF c \in {1, 2} THEN InlineKid(TinyLeaf) ELSE NoKid]))
HashA == H(EncN(LeafNode(<<3>>, InlineVal(Rep(40, 8)))))
HashB == H(Rep(50, 6))

KidSets == {
  [c \in 0..15 |-> IF c = 0 THEN HashKid(HashA) ELSE NoKid],
  [c \in 0..15 |-> IF c = 15 THEN InlineKid(SmallLeaf) ELSE NoKid],
  [c \in 0..15 |-> IF c = 3 THEN HashKid(HashB) ELSE IF c = 8 THEN InlineKid(Leaf31) ELSE IF c = 15 THEN InlineKid(TinyLeaf) ELSE NoKid],
  [c \in 0..15 |-> IF c \in {7, 8} THEN InlineKid(InlBranch) ELSE NoKid],
  [c \in 0..15 |-> HashKid(HashA)],
  [c \in 0..15 |-> IF c % 2 = 0 THEN InlineKid(TinyLeaf) ELSE HashKid(HashB)] }

Leaves == {LeafNode(pk, v) : pk \in Pks, v \in Vals \ {NoVal}}
Branches == {BranchNode(pk, v, ks) : pk \in Pks, v \in Vals, ks \in KidSets}
NodeUniverse == {EmptyNode} \cup Leaves \cup Branches

(* long partial keys: only the header is computed here, the key itself is  *)
(* a (length, fill nibble) descriptor expanded by the harness              *)
LongPkLens == {62, 63, 64, 317, 318, 319, 572, 573, 574, 16382, 65533, 65534, 65535}
ShortHdrLens == {14, 15, 16, 30, 31, 32, 269, 270, 271, 285, 286, 287}
HdrCases ==
  {[t |-> "hdr", kind |-> k, valT |-> vt, pkLen |-> n, fill |-> 5, hdr |-> HeaderFor(k, vt, n)] :
      k \in {"leaf", "branch"}, vt \in {"inline", "hashed"}, n \in LongPkLens \cup ShortHdrLens}
  \cup {[t |-> "hdr", kind |-> "branch", valT |-> "none", pkLen |-> n, fill |-> 5, hdr |-> HeaderFor("branch", "none", n)] :
      n \in LongPkLens}

--------------------------------------------------------------------------
(* ---- byte strings for the decoders -------------------------------------- *)

(* nodes whose encodings are perturbed *)
Seeds == {EmptyNode,
          LeafNode(<<1, 2>>, InlineVal(<<7>>)), LeafNode(Rep(64, 7), InlineVal(<<>>)),
          LeafNode(<<15, 0, 3>>, HashedVal(H(LongVal))), LeafNode(Rep(31, 6), HashedVal(H(LongVal)))}
   \cup {BranchNode(pk, v, ks) : pk \in {<<>>, <<15, 0, 3>>}, v \in {NoVal, InlineVal(<<7>>), HashedVal(H(LongVal))},
                                  ks \in KidSets}

SubstBytes == {0, 1, 2, 3, 4, 15, 16, 17, 31, 32, 33, 63, 64, 65, 127, 128, 129, 191, 192, 193, 252, 253, 254, 255}

(* positions are element positions of the token-bearing sequence; a hash   *)
(* token is never cut in the middle (it stands for 32 opaque bytes)        *)
RECURSIVE CutPoints(_, _)
CutPoints(s, i) ==   \* element indices i such that SubSeq(s,1,i) does not split a token
  IF i > Len(s) THEN {Len(s)}
  ELSE IF s[i] = -1 THEN {i - 1} \cup CutPoints(s, i + 2 + s[i + 1])
  ELSE {i - 1} \cup CutPoints(s, i + 1)

PlainPos(s) == {i \in 1..Len(s) : i - 1 \in CutPoints(s, 1) /\ s[i] >= 0}

Truncations(s) == {SubSeq(s, 1, i) : i \in CutPoints(s, 1)}
Substitutions(s) == {[s EXCEPT ![i] = b] : i \in {p \in PlainPos(s) : p <= 6}, b \in SubstBytes}
Extensions(s) == {s \o <<0>>, s \o <<255, 255>>}

OneByte == {<<b>> : b \in 0..255}
TwoBytes == {<<h, x>> : h \in {1, 16, 31, 32, 63, 64, 65, 127, 128, 129, 191, 192, 255}, x \in {0, 1, 4, 128, 255}}
(* inlined child whose bytes are not a leaf/branch: empty node, reserved   *)
(* header, truncated leaf                                                  *)
OddKids == {EncN(BranchNode(<<1>>, NoVal, [c \in 0..15 |-> IF c = 4 THEN InlineKid(b) ELSE NoKid])) :
              b \in {<<0>>, <<1>>, <<>>, <<65>>, <<2>>, <<128>>, <<128, 1>>}}
(* partial key length continuation running over 65535 *)
Overflow == {<<127>> \o Rep(n, 255) \o <<x>> : n \in {255, 256, 257}, x \in {0, 1, 192, 254}}

DecStrings == UNION {Truncations(EncN(n)) \cup Substitutions(EncN(n)) \cup Extensions(EncN(n)) : n \in Seeds}
              \cup OneByte \cup TwoBytes \cup OddKids \cup Overflow

DecCase(s) == LET e == DeepEncoding(s) IN
  [t |-> "dec", s |-> s, enc |-> e, node |-> IF e THEN NodeJson(DecN(s).node) ELSE NodeJson(EmptyNode)]

RtCase(n) == [t |-> "rt", node |-> NodeJson(n), enc |-> EncN(n)]

--------------------------------------------------------------------------
(* ---- engine M: every case is an initial state --------------------------- *)

MInit == /\ cs \in {[t |-> "rt", n |-> n, s |-> <<>>] : n \in NodeUniverse}
                \cup {[t |-> "dec", n |-> EmptyNode, s |-> s] : s \in DecStrings}
         /\ hist = <<>> /\ done = FALSE
MNext == UNCHANGED cvars
MSpec == MInit /\ [][MNext]_cvars

(* C07 first sentence on the universe *)
RtOK == cs.t = "rt" => WellFormed(cs.n) /\ RoundTrip(cs.n) /\ DeepEncoding(EncN(cs.n))

(* C07 second sentence for the SPECIFICATION decoder: DecN is defined on   *)
(* every string (TLC would stop on an undefined application), what it      *)
(* returns is a well-formed node, and a string is the encoding of at most  *)
(* one node                                                                *)
DecTotal == cs.t = "dec" =>
  LET d == DecN(cs.s) IN
  /\ d.ok \in BOOLEAN
  /\ d.ok => WellFormed(d.node) /\ Len(d.rest) <= Len(cs.s)
  /\ IsEncoding(cs.s) => RoundTrip(DecN(cs.s).node)

(* headers of long partial keys decode to the same kind and length *)
HdrOK == \A c \in HdrCases :
  LET h == TakeHeader(c.hdr) IN h.ok /\ h.kind = c.kind /\ h.valT = c.valT /\ h.pkLen = c.pkLen /\ h.rest = <<>>

--------------------------------------------------------------------------
(* ---- engine G: one behaviour (of one case) per initial state ------------- *)

AllCases == {RtCase(n) : n \in NodeUniverse} \cup HdrCases \cup {DecCase(s) : s \in DecStrings}
GInit == /\ cs = [t |-> "none", n |-> EmptyNode, s |-> <<>>]
         /\ \E c \in AllCases : hist = <<c>>
         /\ done = TRUE
GNext == UNCHANGED cvars
GSpec == GInit /\ [][GNext]_cvars
CDump == done => PrintT(<<"TRACE", ToJson(hist)>>)
=============================================================================
