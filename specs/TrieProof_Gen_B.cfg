SPECIFICATION GPSpec
CONSTANTS
  PKeys <- PbKeys
  PVals <- PbVals
  PProbe <- PbProbe
  PNum = 6
INVARIANT PDump
CHECK_DEADLOCK FALSE
