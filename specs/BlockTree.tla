----------------------------- MODULE BlockTree -----------------------------
(***************************************************************************)
(* State machine behind C15 (block tree structure), C16 (fork choice) and, *)
(* through the projection StateObs and module Finality, C17 (finality).    *)
(*                                                                         *)
(* Code: lib/blocktree (BlockTree.AddBlock / Prune / queries) and          *)
(* dot/state (BlockState.AddBlock / SetFinalisedHash).                     *)
(*                                                                         *)
(* State: every block ever added with its attributes (info), the set of    *)
(* blocks the tree holds (live), the last finalised block (root), the      *)
(* finalised chain genesis..root (chain) and the last successful           *)
(* (round, set id) (rs).  Block ids are integers, genesis is 0.  With      *)
(* FreeIds = FALSE the id of a block is its insertion index, so the        *)
(* labelled trees reached are exactly "every tree shape with every         *)
(* parent-first insertion order" (Forest!FIncreasingTrees).                *)
(*                                                                         *)
(* One action per public call:                                             *)
(*   Add          AddBlock of a block whose parent is in the tree          *)
(*   AddOrphan    AddBlock whose parent is unknown / pruned / finalised    *)
(*                away: must fail and change nothing                       *)
(*   AddDup       AddBlock of a block already in the tree: must fail       *)
(*   AddWrongNum  AddBlock with number # parent number + 1: must fail      *)
(*   AddNoDigest  AddBlock of a header without BABE pre-digest: must fail  *)
(*   Finalise     Prune(b) / SetFinalisedHash(b, r, s); b may be a tree    *)
(*                node (leaf, inner, the root itself), a stale or          *)
(*                abandoned block, or an unknown hash                      *)
(***************************************************************************)
EXTENDS Forest, TLC, Json

CONSTANTS MaxAdd,      \* bound on the number of blocks ever added (genesis excluded)
          Prims,       \* subset of BOOLEAN: primary-slot marks tried for a new block
          Arrivals,    \* finite set of arrival times tried for a new block
          HashRank,    \* id -> rank of the block hash among all hashes (lower = lower hash)
          FreeIds,     \* TRUE: a new block takes any unused id, FALSE: the smallest
          OpKinds,     \* operation names enabled
          PhaseAdds,   \* phased generator: this many Adds first, then one Finalise
          ObsKind,     \* "tree" (lib/blocktree projection), "state" (dot/state projection), "none"
          Depth        \* behaviour length

VARIABLES info,   \* id -> [p, n, prim, arr, hr] for every block ever added (and genesis)
          live,   \* blocks the tree holds
          root,   \* last finalised block
          chain,  \* finalised chain, genesis .. root
          rs,     \* [r, s] of the last successful finalisation
          att,    \* number of finalisation attempts so far (next round = att + 1)
          hist, done

vars == <<info, live, root, chain, rs, att, hist, done>>
Unknown == 99

Known == DOMAIN info
AllPar == [b \in Known |-> info[b].p]          \* every block ever added
Par == [b \in live |-> info[b].p]              \* the tree (root's parent is outside)
Num(b) == info[b].n
Leaves == FLeaves(Par)

--------------------------------------------------------------------------
(* ---- C16: fork choice -------------------------------------------------- *)
(* "the one with the most primary-slot blocks on its chain after the       *)
(* finalised root, ties broken by greater height, then earlier arrival,    *)
(* then lower hash"                                                        *)
BestOf(lv, rt, inf) ==
  LET P == [b \in lv |-> inf[b].p]
      lvs == FLeaves(P)
      pc(l) == Cardinality({x \in FAncSelf(P, l) \ {rt} : inf[x].prim})
      bet(a, b) == \/ pc(a) > pc(b)
                   \/ pc(a) = pc(b) /\ inf[a].n > inf[b].n
                   \/ pc(a) = pc(b) /\ inf[a].n = inf[b].n /\ inf[a].arr < inf[b].arr
                   \/ pc(a) = pc(b) /\ inf[a].n = inf[b].n /\ inf[a].arr = inf[b].arr /\ inf[a].hr < inf[b].hr
  (* "The best block is always a leaf"                                     *)
  IN CHOOSE l \in lvs : \A m \in lvs \ {l} : bet(l, m)
Best == BestOf(live, root, info)
(* the same order, on the current state (used by the properties below)     *)
PrimCount(l) == Cardinality({x \in FAncSelf(Par, l) \ {root} : info[x].prim})
Better(a, b) ==
  LET pa == PrimCount(a) pb == PrimCount(b) IN
  \/ pa > pb
  \/ pa = pb /\ Num(a) > Num(b)
  \/ pa = pb /\ Num(a) = Num(b) /\ info[a].arr < info[b].arr
  \/ pa = pb /\ Num(a) = Num(b) /\ info[a].arr = info[b].arr /\ info[a].hr < info[b].hr

--------------------------------------------------------------------------
(* ---- operations -------------------------------------------------------- *)
Unused == (1..MaxAdd) \ Known
NewIds == IF Unused = {} THEN {}
          ELSE IF FreeIds THEN Unused ELSE {CHOOSE x \in Unused : \A y \in Unused : x <= y}
ScratchId == CHOOSE x \in (1..(MaxAdd + 1)) \ Known : \A y \in (1..(MaxAdd + 1)) \ Known : x <= y

AddOps == {[op |-> "Add", b |-> b, p |-> p, n |-> Num(p) + 1, prim |-> pr, arr |-> a, hr |-> HashRank[b]] :
             b \in NewIds, p \in live, pr \in Prims, a \in Arrivals}
(* a block that is rejected never becomes known; it is built with the scratch id *)
OrphanOps == {[op |-> "AddOrphan", b |-> ScratchId, p |-> p, n |-> IF p \in Known THEN Num(p) + 1 ELSE 1,
               prim |-> FALSE, arr |-> 1, hr |-> HashRank[ScratchId]] : p \in (Known \ live) \cup {Unknown}}
DupOps == {[op |-> "AddDup", b |-> b] : b \in live}
WrongNumOps == {[op |-> "AddWrongNum", b |-> ScratchId, p |-> p, n |-> Num(p) + 2, prim |-> FALSE, arr |-> 1,
                 hr |-> HashRank[ScratchId]] : p \in live}
(* a block whose parent and number are fine but whose header carries no BABE pre-digest: the *)
(* tree cannot classify it (primary / secondary), must refuse it and must keep no trace of it  *)
NoDigestOps == {[op |-> "AddNoDigest", b |-> ScratchId, p |-> p, n |-> Num(p) + 1, prim |-> FALSE, arr |-> 1,
                 hr |-> HashRank[ScratchId]] : p \in live}
(* the set id only matters to the dot/state projection; it never decreases *)
(* in finalisations that succeed; an attempt under a LOWER set id (a voter whose cached set is stale, a late      *)
(* justification of the previous set) is one of the "other attempts": it fails and changes nothing               *)
SetIds == IF ObsKind = "state" THEN {rs.s, IF rs.s < 2 THEN rs.s + 1 ELSE rs.s, IF rs.s > 0 THEN rs.s - 1 ELSE rs.s} ELSE {rs.s}
FinOps == {[op |-> "Finalise", b |-> b, r |-> att + 1, s |-> s] : b \in Known \cup {Unknown}, s \in SetIds}

Ops == {o \in AddOps \cup OrphanOps \cup DupOps \cup WrongNumOps \cup NoDigestOps \cup FinOps : o.op \in OpKinds}

(* "Finalising a block reports as pruned exactly the blocks that are       *)
(* neither its ancestors nor its descendants."                             *)
PrunedBy(f) == FAbandoned(Par, f)

(* C17: "The finalised head only moves to a known descendant of the        *)
(* previous finalised head; any other finalisation attempt fails and       *)
(* changes nothing."  The tree holds exactly the descendants of the head.  *)
FinaliseOk(o) == o.b \in live /\ o.s >= rs.s

Result(o) ==
  CASE o.op = "Add" -> [ok |-> TRUE, pruned |-> <<>>]
    [] o.op = "Finalise" -> [ok |-> FinaliseOk(o), pruned |-> IF FinaliseOk(o) THEN FSorted(PrunedBy(o.b)) ELSE <<>>,
                             lowset |-> o.s < rs.s]
    [] OTHER -> [ok |-> FALSE, pruned |-> <<>>]

--------------------------------------------------------------------------
(* ---- observations ------------------------------------------------------ *)
(* lib/blocktree: "Ancestry, lowest-common-ancestor, range and by-number   *)
(* queries agree with the parent links."  Every query for every pair /     *)
(* number, computed from the parent function by Forest's operators.        *)
(* TreeObsOf is written for speed (ancestor sets are computed once, depths  *)
(* are read off the block numbers); TreeObsSlow is the same observation    *)
(* written with Forest's operators only, and ObsAgree (engine M) checks    *)
(* that the two coincide on every reachable state.                         *)
TreeObsOf(lv, rt, inf) ==
  LET P == [b \in lv |-> inf[b].p]
      A == [b \in lv |-> FAncSelf(P, b)]
      L == FSorted(lv)
      n == Len(L)
      lvs == lv \ {inf[b].p : b \in lv}
      best == BestOf(lv, rt, inf)
      rn == inf[rt].n
      maxn == CHOOSE m \in {inf[b].n : b \in lv} : \A b \in lv : inf[b].n <= m
      lca(a, b) == LET C == A[a] \cap A[b] IN CHOOSE c \in C : \A d \in C : inf[d].n <= inf[c].n
      path(a, b) == IF a \in A[b]
                    THEN [i \in 1..(inf[b].n - inf[a].n + 1) |-> CHOOSE x \in A[b] : inf[x].n = inf[a].n + i - 1]
                    ELSE <<>>
  IN [root |-> rt, rootnum |-> rn, live |-> L, leaves |-> FSorted(lvs), best |-> best,
      q |-> [k \in 1..(n * n) |->
               LET a == L[((k - 1) \div n) + 1]
                   b == L[((k - 1) % n) + 1]
               IN [a |-> a, b |-> b, d |-> a \in A[b], l |-> lca(a, b), r |-> path(a, b)]],
      \* by-number on the best chain, numbers rootnum .. number(best)
      byn |-> path(rt, best),
      \* all blocks at a number, numbers rootnum .. highest number in the tree
      atn |-> [i \in 1..(maxn - rn + 1) |-> FSorted({b \in lv : inf[b].n = rn + i - 1})],
      \* every block with all its descendants (itself included)
      ds |-> [i \in 1..n |-> FSorted({b \in lv : L[i] \in A[b]})]]

TreeObsSlow(lv, rt, inf) ==
  LET P == [b \in lv |-> inf[b].p]
      L == FSorted(lv)
      n == Len(L)
      best == BestOf(lv, rt, inf)
  IN [root |-> rt, rootnum |-> inf[rt].n, live |-> L, leaves |-> FSorted(FLeaves(P)), best |-> best,
      q |-> [k \in 1..(n * n) |->
               LET a == L[((k - 1) \div n) + 1]
                   b == L[((k - 1) % n) + 1]
               IN [a |-> a, b |-> b, d |-> FIsAncSelf(P, a, b), l |-> FLCA(P, a, b), r |-> FPath(P, a, b)]],
      byn |-> [i \in 1..(inf[best].n - inf[rt].n + 1) |-> FAncAtDepth(P, best, i - 1)],
      atn |-> [i \in 1..(FHeight(P) + 1) |-> FSorted(FAtDepth(P, i - 1))],
      ds |-> [i \in 1..n |-> FSorted(FDescSelf(P, L[i]))]]

(* dot/state: what BlockState must show after the step (C17).              *)
(*   head, r, s  finalised head and its round / set id                     *)
(*   chain       "every finalised-chain block can be looked up by number   *)
(*               from persistent storage": chain[i] has number i - 1       *)
(*   unfin       blocks retrievable as unfinalised blocks                  *)
(*   tries       blocks whose state trie is kept in memory                 *)
(*   gone        "No block from an abandoned fork can still be retrieved   *)
(*               as an unfinalised block or keeps its state trie"          *)
StateObsOf(lv, rt, inf, ch, rs0) ==
  [head |-> rt, r |-> rs0.r, s |-> rs0.s, chain |-> ch, unfin |-> FSorted(lv \ {rt}),
   tries |-> FSorted(lv), gone |-> FSorted(DOMAIN inf \ (lv \cup FSeqSet(ch))),
   best |-> BestOf(lv, rt, inf)]

ObsOf(lv, rt, inf, ch, rs0) ==
  IF ObsKind = "tree" THEN TreeObsOf(lv, rt, inf)
  ELSE IF ObsKind = "state" THEN StateObsOf(lv, rt, inf, ch, rs0)
  ELSE [none |-> TRUE]       \* model checking: the history carries operations and results only

--------------------------------------------------------------------------
(* ---- transitions ------------------------------------------------------- *)
Step(o) ==
  /\ ~done
  /\ Len(hist) < Depth
  /\ IF o.op = "Add"
       THEN /\ info' = [x \in Known \cup {o.b} |-> IF x = o.b THEN [p |-> o.p, n |-> o.n, prim |-> o.prim, arr |-> o.arr, hr |-> o.hr] ELSE info[x]]
            /\ live' = live \cup {o.b}
            /\ UNCHANGED <<root, chain, rs, att>>
       ELSE IF o.op = "Finalise"
       THEN /\ att' = att + 1
            /\ IF FinaliseOk(o)
                 THEN /\ live' = FDescSelf(Par, o.b)
                      /\ root' = o.b
                      /\ chain' = chain \o Tail(FPath(Par, root, o.b))
                      /\ rs' = [r |-> o.r, s |-> o.s]
                 ELSE UNCHANGED <<live, root, chain, rs>>
            /\ UNCHANGED info
       ELSE UNCHANGED <<info, live, root, chain, rs, att>>
  /\ hist' = Append(hist, [o |-> o, res |-> Result(o), obs |-> ObsOf(live', root', info', chain', rs')])
  /\ UNCHANGED done

Finish == /\ ~done /\ Len(hist) = Depth /\ done' = TRUE /\ UNCHANGED <<info, live, root, chain, rs, att, hist>>

Init == /\ info = (0 :> [p |-> NoBlock, n |-> 0, prim |-> FALSE, arr |-> 0, hr |-> HashRank[0]])
        /\ live = {0}
        /\ root = 0
        /\ chain = <<0>>
        /\ rs = [r |-> 0, s |-> 0]
        /\ att = 0
        /\ hist = <<>>
        /\ done = FALSE

(* exhaustive: every operation is a successor *)
NextAll == (\E o \in Ops : Step(o)) \/ Finish

(* phased generator (exhaustive, BFS): PhaseAdds additions -- every tree   *)
(* of that size in every parent-first order -- then every finalisation     *)
(* target, then (up to Depth) every further addition / finalisation        *)
NextPhased ==
  \/ /\ Len(hist) < PhaseAdds /\ \E o \in AddOps : Step(o)
  \/ /\ Len(hist) = PhaseAdds /\ \E o \in {x \in FinOps : x.s = rs.s} : Step(o)
  \/ /\ Len(hist) > PhaseAdds /\ \E o \in AddOps \cup {x \in FinOps : x.s = rs.s /\ x.b \in live \ {root}} : Step(o)
  \/ Finish

(* random generator: one operation per step (single successor)             *)
Weighted == <<"Add", "Add", "Add", "Add", "Add", "Add", "Finalise", "Finalise", "FinaliseBad",
              "AddOrphan", "AddDup", "AddWrongNum", "AddNoDigest">>
PickOp ==
  \* the argument of RandomElement must depend on a variable: TLC caches constant-level expressions
  LET kd == Weighted[RandomElement({i \in 1..Len(Weighted) : Len(hist) >= 0})]
      cand == IF kd = "Finalise" THEN {o \in Ops : o.op = "Finalise" /\ o.b \in live \ {root}}
              ELSE IF kd = "FinaliseBad" THEN {o \in Ops : o.op = "Finalise" /\ o.b \notin live \ {root}}
              ELSE {o \in Ops : o.op = kd}
  IN IF cand = {} THEN RandomElement(Ops) ELSE RandomElement(cand)
NextRand == (\E o \in {PickOp} : Step(o)) \/ Finish

SpecAll == Init /\ [][NextAll]_vars
SpecPhased == Init /\ [][NextPhased]_vars
SpecRand == Init /\ [][NextRand]_vars

Dump == done => PrintT(<<"TRACE", ToJson(hist)>>)

--------------------------------------------------------------------------
(* ---- properties of the specification (engine M) ------------------------ *)
TypeOK ==
  /\ 0 \in Known /\ Known \subseteq 0..MaxAdd
  /\ live \subseteq Known /\ root \in live
  /\ \A b \in Known \ {0} : info[b].p \in Known /\ info[b].n = info[info[b].p].n + 1

(* C15 "the in-memory block tree holds exactly the added blocks that       *)
(* descend from the last finalised block"                                  *)
LiveExact == /\ live = FDescSelf(AllPar, root)
             /\ FIsTree(Par) /\ FRoots(Par) = {root}
(* C15 "its leaves are exactly those without children" -- stated against   *)
(* an independent characterisation (no live block names it as parent)      *)
LeavesChildless == Leaves = live \ {info[b].p : b \in live}

(* C15 "Ancestry, lowest-common-ancestor, range and by-number queries      *)
(* agree with the parent links": the laws that pin Forest's operators to   *)
(* the parent function                                                     *)
QueryLaws ==
  \A a \in live, b \in live :
    LET l == FLCA(Par, a, b)
        r == FPath(Par, a, b)
    IN /\ l \in FAncSelf(Par, a) \cap FAncSelf(Par, b)
       /\ \A c \in FChildren(Par, l) : ~(c \in FAncSelf(Par, a) /\ c \in FAncSelf(Par, b))
       /\ l = FLCA(Par, b, a)
       /\ FIsAncSelf(Par, a, b) <=> l = a
       /\ FIsAncSelf(Par, a, b) <=> b \in FDescSelf(Par, a)
       /\ Num(b) = Num(root) + FDepth(Par, b)
       /\ FIsAncSelf(Par, a, b) =>
            /\ Len(r) = Num(b) - Num(a) + 1 /\ r[1] = a /\ r[Len(r)] = b
            /\ \A i \in 1..(Len(r) - 1) : info[r[i + 1]].p = r[i]
       /\ ~FIsAncSelf(Par, a, b) => r = <<>>
       /\ FAncAtDepth(Par, b, FDepth(Par, a)) = a <=> FIsAncSelf(Par, a, b)

(* C15 "Finalising a block reports as pruned exactly the blocks that are   *)
(* neither its ancestors nor its descendants": pruned, kept and the strict *)
(* ancestors partition the previous tree                                   *)
PruneExact ==
  [][(Len(hist') > Len(hist) /\ hist'[Len(hist')].o.op = "Finalise" /\ hist'[Len(hist')].res.ok) =>
       LET f == hist'[Len(hist')].o.b
           pr == FSeqSet(hist'[Len(hist')].res.pruned)
       IN /\ pr \cap live' = {} /\ pr \cap FAnc(Par, f) = {} /\ live' \cap FAnc(Par, f) = {}
          /\ pr \cup live' \cup FAnc(Par, f) = live
          /\ live' = FDescSelf(Par, f) /\ root' = f]_vars

(* C16 "The best block is always a leaf ... " and it is THE maximum of a   *)
(* total order on leaves (hash ranks are distinct), so it is a function    *)
(* of the forest and its marks only: insertion order is not in the state   *)
BestIsBestLeaf ==
  /\ Best \in Leaves
  /\ \A m \in Leaves \ {Best} : Better(Best, m) /\ ~Better(m, Best)
  /\ \A a \in Leaves, b \in Leaves : a # b => (Better(a, b) <=> ~Better(b, a))

(* the fast observation is the Forest-defined observation                  *)
ObsAgree == TreeObsOf(live, root, info) = TreeObsSlow(live, root, info)

View == <<info, live, root, chain, rs, att>>
=============================================================================
