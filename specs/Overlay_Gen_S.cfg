SPECIFICATION SpecRand
CONSTANTS
  MainKeys <- SMainKeys
  MainVals <- SMainVals
  MainPrefixes <- SMainPrefixes
  MainProbes <- SMainProbes
  ChildNames <- SChildNames
  ChildKeys <- SChildKeys
  ChildVals <- SChildVals
  ChildPrefixes <- SChildPrefixes
  Limits <- SLimits
  OpKinds <- AllKinds
  EmitObs = TRUE
  MaxNest = 3
  Depth = 30
INVARIANT Dump
CHECK_DEADLOCK FALSE
