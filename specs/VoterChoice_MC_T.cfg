SPECIFICATION SpecAll
CONSTANTS
  Trees <- MTrees
  Ns <- N4
  MaxMsgs = 3
  CasesPerBehaviour = 0
  MHeads = {1, 2, 3}
  MChanges = {0, 1, 2}
INVARIANTS MalformedNeverCounted GhostWellDefined TargetCapped FinalisableChain
PROPERTY Monotone
VIEW View
CHECK_DEADLOCK FALSE
