SPECIFICATION SpecRand
CONSTANTS
  Types <- LeafSet
  CaseKinds <- OnlyRt
  Depth = 20
  RandDepth = 2
INVARIANT Dump
CHECK_DEADLOCK FALSE
