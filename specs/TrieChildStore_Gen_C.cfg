SPECIFICATION CSpecRand
CONSTANTS
  CsKeys <- CgKeys
  CsVals <- CgVals
  CsProbe <- CgProbe
  CsNames <- CgNames
  CsCKeys <- CgCKeys
  CsCVals <- CgCVals
  CsCProbe <- CgCProbe
  CsSetSeq <- CgSetSeq
  CsOpKinds <- CcChildOnly
  CsV1 = FALSE
  CsMaxCommits = 1000
  CsDepth = 16
INVARIANT CDump
CHECK_DEADLOCK FALSE
