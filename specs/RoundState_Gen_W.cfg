SPECIFICATION SpecRand
CONSTANTS
  Trees <- GTrees
  Voters <- V5
  W <- WMixed
  EqV <- V5
  LeafBias = FALSE
  PVUnanimous = FALSE
  MaxPV = 2
  MaxPC = 2
  Depth = 16
INVARIANT Dump
CHECK_DEADLOCK FALSE
