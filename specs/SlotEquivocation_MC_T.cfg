SPECIFICATION SpecAll
CONSTANTS
  Slots <- MSlots
  Signers <- MSigners
  Hids <- MHids
  Cap = 1000
  Bound = 2000
  Depth = 4
INVARIANTS TypeOK OnePerSigner
PROPERTIES ProofExact ProofCarriesBoth IdenticalNeverProof NoRecordOnProof
VIEW View
CHECK_DEADLOCK FALSE
