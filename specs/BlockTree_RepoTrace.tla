------------------------ MODULE BlockTree_RepoTrace ------------------------
(***************************************************************************)
(* C15 / C17, engine V over traces recorded from THE REPOSITORY'S OWN      *)
(* TESTS.  lib/blocktree carries trace hooks behind the build tag "verif"  *)
(* (lib/blocktree/verif_hook.go): every successful AddBlock, every Prune   *)
(* and every Leaves() call writes one line, at its linearisation point     *)
(* (after the change, under the tree's lock), naming blocks by small       *)
(* integers per tree.  The existing tests of lib/blocktree and dot/state   *)
(* are run with the tag on; whatever trees they build and prune, every     *)
(* line is checked here against the sentences of the property -- also      *)
(* where the tests' own assertions look at something else.                 *)
(*   adopt  t, blocks [[b, parent, number]..]   first sight of a tree      *)
(*   add    t, b, p, n                           block b added under p     *)
(*   prune  t, fin, pruned [..]                  Prune(fin) returned these *)
(*   leaves t, ls [..]                           Leaves() returned these   *)
(*   drop   t                                    tree too large, ignored   *)
(* A line the sentences do not allow is reported as                        *)
(*   <<"VERIF-BAD", {"line","sig","why"}>>                                 *)
(* and the monitor re-synchronises with what the code did.                 *)
(***************************************************************************)
EXTENDS Integers, Sequences, FiniteSets, TLC, Json

Trace == ndJsonDeserialize("repotrace.ndjson")

VARIABLES l, trees     \* trees: tree id -> [par, num, live, root]
tvars == <<l, trees>>

Report(i, sig, why) == PrintT(<<"VERIF-BAD", ToJson([line |-> i, sig |-> sig, why |-> why])>>)
SeqSet(s) == {s[i] : i \in 1..Len(s)}

RECURSIVE AncSelf(_, _)
AncSelf(par, b) == IF b \notin DOMAIN par THEN {} ELSE {b} \cup AncSelf(par, par[b])
DescSelf(tr, f) == {b \in tr.live : f \in AncSelf(tr.par, b)}
LeavesOf(tr) == {b \in tr.live : ~\E c \in tr.live : tr.par[c] = b}

Adopt(e) ==
  LET bs == e.blocks
      ids == {bs[i][1] : i \in 1..Len(bs)}
      row(b) == CHOOSE i \in 1..Len(bs) : bs[i][1] = b
  IN [par |-> [b \in ids |-> bs[row(b)][2]], num |-> [b \in ids |-> bs[row(b)][3]], live |-> ids, root |-> bs[1][1]]

Step(i) ==
  LET e == Trace[i] IN
  CASE e.ev = "adopt" -> trees' = (e.t :> Adopt(e)) @@ trees
    [] e.ev = "drop" -> trees' = [t \in DOMAIN trees \ {e.t} |-> trees[t]]
    [] e.t \notin DOMAIN trees -> UNCHANGED trees
    [] e.ev = "add" ->
         LET tr == trees[e.t]
             bad == IF e.p \notin tr.live THEN "parent-not-in-tree"
                    ELSE IF e.b \in DOMAIN tr.par THEN "block-already-known"
                    ELSE IF e.n # tr.num[e.p] + 1 THEN "number-not-parent-plus-one"
                    ELSE "none"
         IN /\ IF bad = "none" THEN TRUE ELSE Report(i, "C15/repo-trace/AddBlock/" \o bad, ToString(e))
            /\ trees' = [trees EXCEPT ![e.t] = [par |-> (e.b :> e.p) @@ tr.par, num |-> (e.b :> e.n) @@ tr.num,
                                                 live |-> tr.live \cup {e.b}, root |-> tr.root]]
    [] e.ev = "prune" ->
         LET tr == trees[e.t]
             known == e.fin \in tr.live
             keep == IF known THEN DescSelf(tr, e.fin) ELSE tr.live
             want == IF known THEN tr.live \ (keep \cup AncSelf(tr.par, e.fin)) ELSE {}
             got == SeqSet(e.pruned)
             bad == IF ~known THEN "target-not-in-tree"
                    ELSE IF Len(e.pruned) # Cardinality(got) THEN "reported-twice"
                    ELSE IF got \ want # {} /\ (got \ want) \subseteq keep THEN "reported-a-descendant"
                    ELSE IF got \ want # {} THEN "reported-an-ancestor-or-unknown"
                    ELSE IF want \ got # {} THEN "abandoned-block-not-reported"
                    ELSE "none"
         IN /\ IF bad = "none" THEN TRUE ELSE Report(i, "C15/repo-trace/Prune/" \o bad, ToString(e))
            /\ trees' = IF known THEN [trees EXCEPT ![e.t] = [par |-> tr.par, num |-> tr.num, live |-> keep, root |-> e.fin]]
                        ELSE trees
    [] e.ev = "leaves" ->
         LET tr == trees[e.t]
             got == SeqSet(e.ls)
             bad == IF got = LeavesOf(tr) THEN "none"
                    ELSE IF got \ LeavesOf(tr) # {} THEN "lists-a-block-with-children-or-outside-the-tree"
                    ELSE "misses-a-childless-block"
         IN /\ IF bad = "none" THEN TRUE ELSE Report(i, "C15/repo-trace/Leaves/" \o bad, ToString(e))
            /\ UNCHANGED trees
    [] OTHER -> UNCHANGED trees

TInit == l = 1 /\ trees = <<>> /\ TLCSet(1, 1) /\ PrintT(<<"VERIF-FAMILY", "BlockTreeRepoTrace">>)
TNext == l <= Len(Trace) /\ Step(l) /\ l' = l + 1
TraceSpec == TInit /\ [][TNext]_tvars

HighWater == TLCSet(1, IF l > TLCGet(1) THEN l ELSE TLCGet(1))
Accepted == PrintT(<<"VERIF-TRACE", TLCGet(1) - 1, Len(Trace)>>)
=============================================================================
