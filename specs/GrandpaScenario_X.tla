------------------------- MODULE GrandpaScenario_X -------------------------
(* The cross-round schedule of DESIGN.md C22: 3 honest voters (1,2,3) and  *)
(* one Byzantine (4) over  G(0) -> P(1) -> {X(2), Y(3) -> Y2(4)}.          *)
(* Round 1: everybody prevotes and precommits X; voter 1 finalises X.      *)
(* Voters 2 and 3 see only a commit for the ancestor P (built from the     *)
(* honest X precommits), start round 2 with head P, learn Y,Y2 (now the    *)
(* longest chain), prevote Y2 with the Byzantine voter and finalise Y2.    *)
EXTENDS GrandpaScenario
PX == <<0, 1, 1, 3>>
L(v, b) == [a |-> "Learn", v |-> v, b |-> b, r |-> 0, D |-> {}]
PV(v, b) == [a |-> "Prevote", v |-> v, b |-> b, r |-> 0, D |-> {}]
PCm(v, D) == [a |-> "Precommit", v |-> v, b |-> 0, r |-> 0, D |-> D]
FN(v, D) == [a |-> "Finalise", v |-> v, b |-> 0, r |-> 0, D |-> D]
AC(v, r, t) == [a |-> "AcceptCommit", v |-> v, b |-> t, r |-> r, D |-> {}]
NR(v) == [a |-> "NextRound", v |-> v, b |-> 0, r |-> 0, D |-> {}]
ScnX == <<
  L(1, 1), L(1, 2), L(2, 1), L(2, 2), L(3, 1), L(3, 2),
  PV(1, 2), PV(2, 2), PV(3, 2),
  PCm(1, {<<2, 2>>, <<3, 2>>, <<4, 2>>}), PCm(2, {<<1, 2>>, <<3, 2>>, <<4, 2>>}), PCm(3, {<<1, 2>>, <<2, 2>>, <<4, 2>>}),
  FN(1, {<<2, 2>>, <<3, 2>>, <<4, 2>>}),
  AC(2, 1, 1), AC(3, 1, 1),
  L(2, 3), L(2, 4), L(3, 3), L(3, 4),
  NR(2), NR(3),
  PV(2, 4), PV(3, 4),
  PCm(2, {<<3, 4>>, <<4, 4>>}), PCm(3, {<<2, 4>>, <<4, 4>>}),
  FN(2, {<<3, 4>>, <<4, 4>>})
>>
=============================================================================
