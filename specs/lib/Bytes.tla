------------------------------- MODULE Bytes -------------------------------
(***************************************************************************)
(* Byte strings are sequences over 0..255.  A BLAKE2b-256 digest is never  *)
(* computed in TLC: H(s) is the prefix-coded token <<-1, Len(s)>> \o s     *)
(* embedded in the byte sequence.  The Go side resolves tokens innermost   *)
(* first with real BLAKE2b-256.  A token stands for exactly 32 bytes.      *)
(***************************************************************************)
EXTENDS Integers, Sequences, FiniteSets

Byte == 0..255

Rep(n, b) == [i \in 1..n |-> b]

H(s) == <<-1, Len(s)>> \o s

HasToken(s) == \E i \in 1..Len(s) : s[i] = -1

(* Byte length of a sequence with tokens; only used on short sequences.  *)
RECURSIVE BLen(_)
BLen(s) == IF s = <<>> THEN 0
           ELSE IF s[1] = -1 THEN 32 + BLen(SubSeq(s, 3 + s[2], Len(s)))
           ELSE 1 + BLen(Tail(s))

(* "byte length < 32" without walking the sequence: a token alone is 32.  *)
IsShort(s) == Len(s) < 32 /\ ~HasToken(s)

IsPrefixOf(p, s) == Len(p) <= Len(s) /\ \A i \in 1..Len(p) : p[i] = s[i]

(* first index where a and b differ, or 0 if one is a prefix of the other *)
FirstDiff(a, b) ==
  LET n == IF Len(a) < Len(b) THEN Len(a) ELSE Len(b)
      D == {i \in 1..n : a[i] # b[i]}
  IN IF D = {} THEN 0 ELSE CHOOSE i \in D : \A j \in D : i <= j

(* strict lexicographic order on sequences of integers *)
LexLess(a, b) ==
  LET d == FirstDiff(a, b)
  IN IF d = 0 THEN Len(a) < Len(b) ELSE a[d] < b[d]

LexLeq(a, b) == a = b \/ LexLess(a, b)

(* the elements of a finite set of sequences in ascending lexicographic order *)
RECURSIVE SortedSeq(_)
SortedSeq(S) ==
  IF S = {} THEN <<>>
  ELSE LET mn == CHOOSE x \in S : \A y \in S : LexLeq(x, y)
       IN <<mn>> \o SortedSeq(S \ {mn})

LeastOf(S) == CHOOSE x \in S : \A y \in S : LexLeq(x, y)

Pow2(n) == 2 ^ n

(* little-endian bytes of a natural below 2^31, exactly k bytes *)
LE(n, k) == [i \in 1..k |-> (n \div (256 ^ (i - 1))) % 256]

(* SCALE compact encoding of n < 2^30 (TLC integers are 32-bit) *)
Compact(n) ==
  IF n < 64 THEN <<n * 4>>
  ELSE IF n < 16384 THEN <<(n % 64) * 4 + 1, n \div 64>>
  ELSE <<(n % 64) * 4 + 2, (n \div 64) % 256, (n \div 16384) % 256, (n \div 4194304) % 256>>

(* nibbles *)
KeyToNibbles(k) == [i \in 1..(2 * Len(k)) |->
                      IF i % 2 = 1 THEN k[(i + 1) \div 2] \div 16 ELSE k[i \div 2] % 16]

(* packed partial key as the node encoding stores it *)
NibblesToKeyLE(nb) ==
  IF Len(nb) % 2 = 0
  THEN [i \in 1..(Len(nb) \div 2) |-> nb[2 * i - 1] * 16 + nb[2 * i]]
  ELSE <<nb[1]>> \o [i \in 1..(Len(nb) \div 2) |-> nb[2 * i] * 16 + nb[2 * i + 1]]

(* longest common prefix of a non-empty finite set of sequences *)
LCP(S) ==
  LET x == CHOOSE y \in S : TRUE
      L == {n \in 0..Len(x) : \A y \in S : Len(y) >= n /\ SubSeq(y, 1, n) = SubSeq(x, 1, n)}
      mx == CHOOSE n \in L : \A k \in L : k <= n
  IN SubSeq(x, 1, mx)

Drop(s, n) == SubSeq(s, n + 1, Len(s))
=============================================================================
