----------------------------- MODULE PeerSetOps -----------------------------
(***************************************************************************)
(* C30.  "The peer set never exceeds its slots and never connects banned   *)
(* peers" (dot/peerset: peerstate.go, peerset.go, handler.go).             *)
(*                                                                         *)
(* Pure operators (no variables): the abstract peer set as a record and    *)
(* the action relation of every operation as a SET of outcomes.  Shared by *)
(* the generative machine PeerSet (engine M) and by the trace validator    *)
(* PeerSet_Trace (engine V).                                               *)
(*                                                                         *)
(*  configuration  c = [maxIn, maxOut  slot maxima                         *)
(*                      ro             reserved-only mode                  *)
(*                      thr            ban threshold                       *)
(*                      pen            reputation change on a disconnect   *)
(*                      min, max       bounds of the reputation type]      *)
(*  state          s = [st  : peer -> {"unknown","notConnected","in","out"}*)
(*                      rep : peer -> min..max   (0 for a never seen peer) *)
(*                      res : set of reserved peers                        *)
(*                      nin, nout : slot counters, kept INCREMENTALLY so   *)
(*                                  that "counter = number of connected    *)
(*                                  non-reserved peers" is a theorem that  *)
(*                                  TLC checks, not a definition]          *)
(*  execution      x = [s |-> state, out |-> messages emitted so far]      *)
(*  message            [k |-> "Connect"|"Drop"|"Accept"|"Reject", p |-> p] *)
(*                                                                         *)
(* What the statement leaves open is left open here, as a choice:          *)
(*  - slot allocation may connect ANY not-connected, not banned,           *)
(*    non-reserved peer of maximal reputation while an outgoing slot is    *)
(*    free, any reserved peer at any time, and may stop at any point;      *)
(*  - a peer that is mentioned (reported, incoming, reserved) and was not a*)
(*    member may or may not become a not-connected member;                 *)
(*  - an incoming connection may always be rejected;                       *)
(*  - a reserved peer that is connected when its reservation is removed    *)
(*    keeps the connection only if a slot is free (else it is dropped);    *)
(*  - time: reputations move towards zero by any amount, any not-connected *)
(*    peer may be forgotten (the code's rule depends on the wall clock).   *)
(***************************************************************************)
EXTENDS Integers, Sequences, FiniteSets, TLC

PeersOf(s) == DOMAIN s.st
Conn(s, p) == s.st[p] \in {"in", "out"}
Msg(k, p) == [k |-> k, p |-> p]

(* "reputation arithmetic saturates": compare before adding, so that the   *)
(* evaluation itself never leaves the 32-bit range of TLC integers.        *)
SatAdd(c, r, d) ==
  IF d > 0 THEN (IF r > c.max - d THEN c.max ELSE r + d)
           ELSE (IF r < c.min - d THEN c.min ELSE r + d)

(* one second of decay: r - trunc(r / div), at least one unit towards zero *)
TruncDiv(r, dv) == IF r >= 0 \/ r % dv = 0 THEN r \div dv ELSE (r \div dv) + 1
TickOnce(r, dv) ==
  LET q == TruncDiv(r, dv)
      df == IF q = 0 /\ r < 0 THEN -1 ELSE IF q = 0 /\ r > 0 THEN 1 ELSE q
  IN r - df
RECURSIVE TickN(_, _, _)
TickN(r, dv, k) == IF k = 0 \/ r = 0 THEN r ELSE TickN(TickOnce(r, dv), dv, k - 1)

EmptyState(P) == [st |-> [p \in P |-> "unknown"], rep |-> [p \in P |-> 0], res |-> {}, nin |-> 0, nout |-> 0]

(* ---- the clauses of the statement, as predicates on a state ------------ *)
(* "slot-occupying inbound and outbound connections never exceed the       *)
(*  configured maxima"                                                     *)
SlotsInOK(c, s) == s.nin <= c.maxIn
SlotsOutOK(c, s) == s.nout <= c.maxOut
(* "and always equal the number of connected non-reserved peers in each    *)
(*  direction"                                                             *)
CountInOK(s) == s.nin = Cardinality({p \in PeersOf(s) : s.st[p] = "in" /\ p \notin s.res})
CountOutOK(s) == s.nout = Cardinality({p \in PeersOf(s) : s.st[p] = "out" /\ p \notin s.res})
(* "No non-reserved peer with reputation below the ban threshold is        *)
(*  connected"                                                             *)
NoBannedOK(c, s) == \A p \in PeersOf(s) : (Conn(s, p) /\ p \notin s.res) => s.rep[p] >= c.thr
(* "reputation arithmetic saturates": values stay in the type's range      *)
RepRangeOK(c, s) == \A p \in PeersOf(s) : s.rep[p] >= c.min /\ s.rep[p] <= c.max
(* meaning of the reserved-only mode of the quantifier: only reserved      *)
(* peers are connected                                                     *)
ReservedOnlyOK(c, s) == c.ro => \A p \in PeersOf(s) : Conn(s, p) => p \in s.res

(* ---- elementary effects ------------------------------------------------ *)
(* a connection of p in direction dir starts (+1) or stops (-1) occupying  *)
(* a slot; reserved peers never occupy one                                 *)
Bump(s, dir, p, delta) ==
  IF p \in s.res THEN s
  ELSE IF dir = "in" THEN [s EXCEPT !.nin = @ + delta]
  ELSE IF dir = "out" THEN [s EXCEPT !.nout = @ + delta]
  ELSE s

Emit(x, k, p) == [x EXCEPT !.out = Append(@, Msg(k, p))]
DoDrop(x, p) == Emit([x EXCEPT !.s = [Bump(x.s, x.s.st[p], p, -1) EXCEPT !.st[p] = "notConnected"]], "Drop", p)
DoConnect(x, p) == Emit([x EXCEPT !.s = [Bump(x.s, "out", p, 1) EXCEPT !.st[p] = "out"]], "Connect", p)
DoAccept(x, p) == Emit([x EXCEPT !.s = [Bump(x.s, "in", p, 1) EXCEPT !.st[p] = "in"]], "Accept", p)
DoReject(x, p) == Emit(x, "Reject", p)
(* a mentioned non-member may or may not become a not-connected member     *)
Disc(x, p) == IF x.s.st[p] = "unknown" THEN {x, [x EXCEPT !.s.st[p] = "notConnected"]} ELSE {x}

(* "never connects banned peers", slots: when may Connect(p) be emitted    *)
CanConnect(c, s, p) ==
  /\ ~Conn(s, p)
  /\ \/ p \in s.res
     \/ /\ ~c.ro
        /\ s.st[p] = "notConnected"
        /\ s.rep[p] >= c.thr
        /\ s.nout < c.maxOut
        /\ \A q \in PeersOf(s) : (s.st[q] = "notConnected" /\ q \notin s.res) => s.rep[q] <= s.rep[p]
(* "No ... peer below the ban threshold is ... accepted", slots            *)
CanAccept(c, s, p) ==
  /\ ~Conn(s, p)
  /\ \/ p \in s.res
     \/ (~c.ro /\ s.rep[p] >= c.thr /\ s.nin < c.maxIn)

(* ---- guide: the messages logged for the operation (engine V) prune the  *)
(* enumeration to the executions whose output is a prefix of the log       *)
AnyGuide == [any |-> TRUE, m |-> <<>>]
Guide(m) == [any |-> FALSE, m |-> m]
Prune(X, g) ==
  IF g.any THEN X
  ELSE {x \in X : Len(x.out) <= Len(g.m) /\ \A i \in 1..Len(x.out) : x.out[i] = g.m[i]}

(* slot allocation: zero or more legal Connect steps                       *)
RECURSIVE AllocX(_, _, _)
AllocX(c, X, g) ==
  LET Y == Prune(UNION {{DoConnect(x, p) : p \in {q \in PeersOf(x.s) : CanConnect(c, x.s, q)}} : x \in X}, g)
  IN IF Y = {} THEN X ELSE X \cup AllocX(c, Y, g)

(* ---- one listed peer of each operation --------------------------------- *)
AddReserved1(c, x, p) ==
  IF p \in x.s.res THEN {x}
  ELSE Disc([x EXCEPT !.s = [Bump(x.s, x.s.st[p], p, -1) EXCEPT !.res = @ \cup {p}]], p)

RemoveReserved1(c, x, p) ==
  IF p \notin x.s.res THEN {x}
  ELSE IF ~Conn(x.s, p) THEN {[x EXCEPT !.s.res = @ \ {p}]}
  ELSE LET dir == x.s.st[p]
           free == IF dir = "in" THEN x.s.nin < c.maxIn ELSE x.s.nout < c.maxOut
           s0 == [x.s EXCEPT !.res = @ \ {p}]
           y == DoDrop(x, p)    \* dropped while still reserved: no counter involved
       IN (IF ~c.ro /\ free /\ x.s.rep[p] >= c.thr THEN {[x EXCEPT !.s = Bump(s0, dir, p, 1)]} ELSE {})
          \cup {[y EXCEPT !.s.res = @ \ {p}]}

AddPeer1(c, x, p) == IF x.s.st[p] # "unknown" THEN {x} ELSE {[x EXCEPT !.s.st[p] = "notConnected"]}

RemovePeer1(c, x, p) ==
  IF p \in x.s.res \/ x.s.st[p] = "unknown" THEN {x}
  ELSE LET y == IF Conn(x.s, p) THEN DoDrop(x, p) ELSE x IN {[y EXCEPT !.s.st[p] = "unknown"]}

(* "a reputation change reported for several peers applies to each of      *)
(*  them"; a connected peer that falls below the threshold is dropped      *)
Report1(c, x, p, d) ==
  LET r == SatAdd(c, x.s.rep[p], d)
      x1 == [x EXCEPT !.s.rep[p] = r]
  IN IF Conn(x.s, p) /\ r < c.thr
     THEN (IF p \in x.s.res THEN {x1} ELSE {}) \cup {DoDrop(x1, p)}
     ELSE Disc(x1, p)

Incoming1(c, x, p) ==
  IF Conn(x.s, p) THEN {x}
  ELSE UNION {{DoReject(y, p)} \cup (IF CanAccept(c, y.s, p) THEN {DoAccept(y, p)} ELSE {}) : y \in Disc(x, p)}

Disconnect1(c, x, p) == {DoDrop([x EXCEPT !.s.rep[p] = SatAdd(c, @, c.pen)], p)}

Micro(c, x, o, p) ==
  CASE o.op = "AddReserved" -> AddReserved1(c, x, p)
    [] o.op = "RemoveReserved" -> RemoveReserved1(c, x, p)
    [] o.op = "AddPeer" -> AddPeer1(c, x, p)
    [] o.op = "RemovePeer" -> RemovePeer1(c, x, p)
    [] o.op = "Report" -> Report1(c, x, p, o.d)
    [] o.op = "Incoming" -> Incoming1(c, x, p)
    [] o.op = "Disconnect" -> Disconnect1(c, x, p)

(* a list operation = its listed peers one after the other, slot           *)
(* allocation allowed after each.  Disconnect of a peer that is not        *)
(* connected violates the documented precondition of the call: the rest of *)
(* the list may be abandoned or the peer skipped.                          *)
RECURSIVE Fold(_, _, _, _, _)
Fold(c, X, o, ps, g) ==
  IF ps = <<>> \/ X = {} THEN X
  ELSE LET p == Head(ps)
           bad == IF o.op = "Disconnect" THEN {x \in X : ~Conn(x.s, p)} ELSE {}
           good == X \ bad
           Y == Prune(UNION {Micro(c, x, o, p) : x \in good}, g)
       IN bad \cup Fold(c, AllocX(c, Y \cup bad, g), o, Tail(ps), g)

(* SetReserved(S) = reserve the missing ones in list order, then remove    *)
(* the reservations not in S, in any order                                 *)
RECURSIVE RemoveAll(_, _, _, _)
RemoveAll(c, X, R, g) ==
  IF R = {} \/ X = {} THEN X
  ELSE UNION {RemoveAll(c, AllocX(c, Prune(UNION {RemoveReserved1(c, x, p) : x \in X}, g), g), R \ {p}, g) : p \in R}

SeqToSet(q) == {q[i] : i \in 1..Len(q)}

Run(c, s, o, g) ==
  LET x0 == [s |-> s, out |-> <<>>]
  IN CASE o.op = "SetReserved" ->
            RemoveAll(c, Fold(c, {x0}, [op |-> "AddReserved"], SelectSeq(o.ps, LAMBDA p : p \notin s.res), g),
                      s.res \ SeqToSet(o.ps), g)
       [] o.op = "Alloc" -> AllocX(c, {x0}, g)
       [] OTHER -> Fold(c, {x0}, o, o.ps, g)

(* all outcomes [s, out] of operation o in state s (g = AnyGuide), or those *)
(* that emit exactly the logged messages (g = Guide(m))                    *)
Outcomes(c, s, o, g) == {x \in Run(c, s, o, g) : g.any \/ Len(x.out) = Len(g.m)}

(* ---- time --------------------------------------------------------------- *)
(* relation checked on recorded ticks: towards zero, never across; nothing *)
(* is connected or dropped; only not-connected peers may be forgotten      *)
TowardsZero(a, b) == (a >= 0 /\ b >= 0 /\ b <= a) \/ (a <= 0 /\ b <= 0 /\ b >= a)
TickOK(c, s, t) ==
  /\ \A p \in PeersOf(s) :
       /\ TowardsZero(s.rep[p], t.rep[p])
       /\ t.st[p] = s.st[p] \/ (s.st[p] = "notConnected" /\ t.st[p] = "unknown")
  /\ t.res = s.res /\ t.nin = s.nin /\ t.nout = s.nout

(* generative version: the code's decay formula with divisor dv, k seconds, *)
(* then any set of not-connected peers at reputation zero is forgotten     *)
TickGen(c, s, k, dv) ==
  LET s1 == [s EXCEPT !.rep = [p \in PeersOf(s) |-> TickN(s.rep[p], dv, k)]]
      F == {p \in PeersOf(s) : s1.st[p] = "notConnected" /\ s1.rep[p] = 0}
  IN {[s1 EXCEPT !.st = [p \in PeersOf(s) |-> IF p \in G THEN "unknown" ELSE s1.st[p]]] : G \in SUBSET F}

SameState(a, b) ==
  /\ \A p \in PeersOf(a) : a.st[p] = b.st[p] /\ a.rep[p] = b.rep[p]
  /\ a.res = b.res /\ a.nin = b.nin /\ a.nout = b.nout
=============================================================================
