----------------------------- MODULE TxQueueOps -----------------------------
(***************************************************************************)
(* C34.  The ready-transaction queue (lib/transaction/priority_queue.go)   *)
(* as a sequential object: "always yields the highest-priority transaction *)
(* first and, among equal priorities, the earliest inserted; each          *)
(* transaction is yielded or removed at most once, and duplicates are      *)
(* refused".                                                               *)
(*                                                                         *)
(*   q : set of [tx, prio, ord]   (ord = insertion counter, unique)        *)
(*   n : next insertion counter                                            *)
(* Results are integers: Push 1 = accepted, 0 = refused (already queued);  *)
(* Pop / Peek = transaction id or 0 when empty; Exists 1/0; Len = size;    *)
(* Remove 0.                                                               *)
(***************************************************************************)
EXTENDS Integers, Sequences, FiniteSets

EmptyQ == [q |-> {}, n |-> 0]
Has(s, tx) == \E e \in s.q : e.tx = tx
Before(a, b) == a.prio > b.prio \/ (a.prio = b.prio /\ a.ord < b.ord)
Best(s) == CHOOSE e \in s.q : \A f \in s.q : f = e \/ Before(e, f)

QRes(s, o) ==
  CASE o.op = "Push" -> IF Has(s, o.tx) THEN 0 ELSE 1
    [] o.op = "Pop" -> IF s.q = {} THEN 0 ELSE Best(s).tx
    [] o.op = "Peek" -> IF s.q = {} THEN 0 ELSE Best(s).tx
    [] o.op = "Exists" -> IF Has(s, o.tx) THEN 1 ELSE 0
    [] o.op = "Len" -> Cardinality(s.q)
    [] OTHER -> 0

QApply(s, o) ==
  CASE o.op = "Push" -> IF Has(s, o.tx) THEN s
                        ELSE [q |-> s.q \cup {[tx |-> o.tx, prio |-> o.prio, ord |-> s.n]}, n |-> s.n + 1]
    [] o.op = "Pop" -> IF s.q = {} THEN s ELSE [s EXCEPT !.q = s.q \ {Best(s)}]
    [] o.op = "Remove" -> [s EXCEPT !.q = {e \in s.q : e.tx # o.tx}]
    [] OTHER -> s

(* the queue content in pop order *)
RECURSIVE Drain(_)
Drain(s) == IF s.q = {} THEN <<>> ELSE <<[tx |-> Best(s).tx, prio |-> Best(s).prio]>> \o Drain([s EXCEPT !.q = s.q \ {Best(s)}])
=============================================================================
