-------------------------- MODULE CommitAcceptOps --------------------------
(***************************************************************************)
(* C18, pure part (no CONSTANTS / VARIABLES; prefix CA; EXTENDable, e.g.   *)
(* by the protocol model of C22).                                          *)
(*                                                                         *)
(* "A received GRANDPA commit finalises its target only if more than two   *)
(* thirds of the current authority set precommitted to the target or its   *)
(* descendants.  Each precommit must be correctly signed for that round    *)
(* and set by a distinct current authority, and an authority counts as an  *)
(* equivocator only if it signed two different valid precommits."          *)
(*                                                                         *)
(* n        number of current authorities, ids 1..n (any other id is not   *)
(*          an authority)                                                  *)
(* t        block tree (VoteForest)                                        *)
(* es       SET of commit entries [id, b, sig], sig = "ok" means correctly *)
(*          signed for the commit's round and set id; every other value is *)
(*          some kind of invalid signature                                 *)
(***************************************************************************)
EXTENDS GrandpaVotes

(* "correctly signed ... by a ... current authority" *)
CAValid(n, es) == {e \in es : e.id \in 1..n /\ e.sig = "ok"}

(* authority -> set of blocks it validly precommitted to ("distinct":      *)
(* an authority is one element of the domain however many entries it has)  *)
CAVotes(n, es) == [a \in 1..n |-> {e.b : e \in {x \in CAValid(n, es) : x.id = a}}]

(* "more than two thirds of the current authority set precommitted to the  *)
(* target or its descendants", for a vote function S (authority -> set of  *)
(* blocks): an authority with two different valid precommits is an         *)
(* equivocator and counts for every block                                  *)
CAWeightVotes(n, t, S, target) == Cardinality(RSSupp(t, S, target))
CAEnoughVotes(n, t, S, target) == 3 * CAWeightVotes(n, t, S, target) > 2 * n

CAWeight(n, t, es, target) == CAWeightVotes(n, t, CAVotes(n, es), target)
(* the only commits that may finalise their target *)
CAEnough(n, t, es, target) == CAEnoughVotes(n, t, CAVotes(n, es), target)

(* --- named deviations of lib/grandpa (used to CLASSIFY disagreements and *)
(* by the implementation-shaped protocol model; never used as the oracle)  *)

(* the comparison `validAndEqv < threshold` with threshold = floor(2n/3)   *)
(* accepts exactly floor(2n/3)                                             *)
CAOffByOne(n, t, es, target) == CAWeight(n, t, es, target) >= (2 * n) \div 3

(* getEquivocatoryVoters: any id with two entries whose signature bytes    *)
(* differ is an "equivocator", valid or not, authority or not (in a SET of *)
(* entries two entries of one id always differ in block or signature)      *)
CARawEquivocators(es) == {i \in {e.id : e \in es} : Cardinality({e \in es : e.id = i}) >= 2}
CAImplCount(n, t, es, target) ==
  LET raw == CARawEquivocators(es)
  IN Cardinality({e \in CAValid(n, es) : e.id \notin raw /\ VFGeq(t, e.b, target)}) + Cardinality(raw)
CAImplAccepts(n, t, es, target) == CAImplCount(n, t, es, target) >= (2 * n) \div 3
=============================================================================
