--------------------------- MODULE FinalityFeedOps ---------------------------
(* Variable-free operators of the finalisation hand-over (FinalityFeed.tla), shared with the trace *)
(* evaluation FinalityFeed_Eval.tla.                                                                *)
EXTENDS Integers, Sequences, FiniteSets

FfRange(s) == {s[i] : i \in 1..Len(s)}
FfUpto(k) == [i \in 1..k |-> i]

(* the outcome predicate: delivered sequence d of n finalisations of which at most m were ever    *)
(* outstanding at once, over a channel of capacity cap, is an outcome of the implementation model *)
FfPossible(d, n, m, cap) ==
  /\ \A i, j \in 1..Len(d) : i # j => d[i] # d[j]
  /\ FfRange(d) \subseteq 1..n
  /\ m <= cap => Len(d) = n                          \* nothing can be dropped
  /\ m <= 1 => d = FfUpto(n)                          \* nothing can overtake
  /\ Len(d) >= (IF n <= cap THEN n ELSE cap)         \* the first cap senders that run find room
(* what the statement needs *)
FfRequired(d, n) == d = FfUpto(n)
=============================================================================
