--------------------------- MODULE VoterChoiceOps ---------------------------
(***************************************************************************)
(* C21, pure part (no CONSTANTS / VARIABLES; prefix VC; EXTENDable, e.g.   *)
(* by the protocol model of C22).                                          *)
(*                                                                         *)
(* "For every block tree, authority set and set of received votes, the     *)
(* node precommits to the highest block with more than two thirds of       *)
(* prevotes counting descendants and equivocators, capped at a pending     *)
(* authority change.  It finalises only a block with more than two thirds  *)
(* of precommits that is an ancestor of that target.  Votes that are badly *)
(* signed, from non-authorities, for unknown blocks, carry a wrong block   *)
(* number, or do not descend from the finalised head are never counted."   *)
(*                                                                         *)
(* n     number of authorities, ids 1..n                                   *)
(* t     block tree; head = the finalised head (a block of t)              *)
(* ms    SET of received vote messages                                     *)
(*       [id, stage \in {"prevote","precommit"}, b (0 = a block the node   *)
(*        does not know), sig \in {"ok", ...}, num \in {"ok","wrong"}]     *)
(***************************************************************************)
EXTENDS GrandpaVotes

(* the five conditions: well signed, from an authority, for a known block, *)
(* with the block's number, descending from (or equal to) the head         *)
VCCounted(n, t, head, m) ==
  /\ m.sig = "ok"
  /\ m.id \in 1..n
  /\ m.b \in VFBlocks(t)
  /\ m.num = "ok"
  /\ VFGeq(t, m.b, head)

(* vote function of one stage: authority -> set of blocks it validly voted *)
(* for; two different blocks = equivocator (counts for every block)        *)
VCVotes(n, t, head, ms, stage) ==
  [a \in 1..n |-> {m.b : m \in {x \in ms : x.stage = stage /\ x.id = a /\ VCCounted(n, t, head, x)}}]

(* "votes counting descendants and equivocators" for block b *)
VCTotal(t, S, b) == Cardinality(RSSupp(t, S, b))

(* blocks with more than two thirds *)
VCSuper(n, t, S) == {b \in VFBlocks(t) : 3 * VCTotal(t, S, b) > 2 * n}

(* equivocators within what the protocol tolerates: floor((n-1)/3) *)
VCTolerant(n, S) == Cardinality(RSEquiv(S)) <= (n - 1) \div 3

(* the prevote GHOST is specified when some block has more than two thirds *)
(* and the equivocators are tolerated; otherwise the statement is silent   *)
(* (UnspecifiedWhenNoSupermajority: lib/grandpa falls back to "most votes")*)
VCGhostSpecified(n, t, S) == VCSuper(n, t, S) # {} /\ VCTolerant(n, S)
VCGhost(n, t, S) == VFTop(t, VCSuper(n, t, S))

(* "capped at a pending authority change": change = block number of the    *)
(* pending change (0 = none; the root has number 0); the cap is the        *)
(* ancestor of the GHOST with that number                                  *)
VCPrecommitTarget(n, t, S, change) ==
  LET g == VCGhost(n, t, S)
  IN IF change = 0 \/ VFHeight(t, g) <= change THEN g ELSE VFAncestorAt(t, g, change)

(* "finalises only a block with more than two thirds of precommits that is *)
(* an ancestor of that target"                                             *)
VCMayFinalise(n, t, Spv, Spc, f) ==
  /\ 3 * VCTotal(t, Spc, f) > 2 * n
  /\ VCGhostSpecified(n, t, Spv) => VFGeq(t, VCGhost(n, t, Spv), f)
=============================================================================
