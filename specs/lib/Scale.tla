-------------------------------- MODULE Scale --------------------------------
(***************************************************************************)
(* SCALE codec as a pair of pure functions over a type grammar.            *)
(*                                                                         *)
(*   ScEnc(t, v)  the canonical encoding of value v of type t              *)
(*   ScDec(t, s)  TOTAL: [ok |-> TRUE, v |-> value, n |-> bytes consumed]  *)
(*                or ScFailAt(..).  It accepts exactly the canonical encodings:  *)
(*                ScDec(t, s).ok  =>  ScEnc(t, v) = SubSeq(s, 1, n)        *)
(*                                                                         *)
(* Types (records, field k is the kind):                                   *)
(*   ScU(n) ScI(n)   fixed width, n \in {1,2,4,8} bytes                    *)
(*   ScU128          16 bytes                                              *)
(*   ScCompact       Compact<u64>  (Go: uint)                              *)
(*   ScBigInt        Compact<BigUint>, < 2^536 (Go: *big.Int)              *)
(*   ScBool ScBytes ScStr                                                  *)
(*   ScOpt(t) ScRes(a, b) ScEnum(name, vs) ScArr(n, t) ScSlice(t)          *)
(*   ScMap(kt, vt) ScStruct(fs, tags)                                      *)
(* Values:                                                                 *)
(*   fixed width / u128 : the n little-endian bytes (bit pattern)          *)
(*   compact / bigint   : canonical BigNat (LE digits, no trailing zero)   *)
(*   bool : BOOLEAN;  bytes / str : byte sequence                          *)
(*   opt  : <<>> (None) or <<v>> (Some v)                                  *)
(*   res  : [ok |-> BOOLEAN, v |-> payload]                                *)
(*   enum : [i |-> variant index, v |-> payload]                           *)
(*   arr / slice : sequence;  struct : sequence in DECLARATION order       *)
(*   map  : sequence of <<key, value>> pairs, keys strictly ascending in   *)
(*          the key type's order (ScKeyLess; only integer key types)       *)
(* Element types of slices and maps must have non-zero width (a huge       *)
(* declared length is then always longer than the input and fails).        *)
(* Every operator name starts with Sc.  TLC integers are 32-bit, so every  *)
(* number that may exceed 2^31 is a BigNat digit sequence.                 *)
(***************************************************************************)
EXTENDS Bytes, BigNat

ScU(n) == [k |-> "u", n |-> n]
ScI(n) == [k |-> "i", n |-> n]
ScU128 == [k |-> "u128"]
ScCompact == [k |-> "compact"]
ScBigInt == [k |-> "bigint"]
ScBool == [k |-> "bool"]
ScBytes == [k |-> "bytes"]
ScStr == [k |-> "str"]
ScOpt(t) == [k |-> "opt", t |-> t]
ScRes(a, b) == [k |-> "res", a |-> a, b |-> b]
ScEnum(name, vs) == [k |-> "enum", name |-> name, vs |-> vs]   \* vs: sequence of [i |-> index, t |-> type]
ScArr(n, t) == [k |-> "arr", n |-> n, t |-> t]
ScSlice(t) == [k |-> "slice", t |-> t]
ScMap(kt, vt) == [k |-> "map", kt |-> kt, vt |-> vt]
(* fs: field types in declaration order; tags[i] = the field's scale:"n"   *)
(* tag or -1 for none.  Tagged fields come first in ascending tag order,   *)
(* then untagged fields in declaration order (pkg/scale fieldScaleIndices) *)
ScStruct(fs, tags) == [k |-> "struct", fs |-> fs, tags |-> tags]
ScTuple(fs) == ScStruct(fs, [i \in 1..Len(fs) |-> -1])

(* A failure names the leaf kind it arose at and why:                       *)
(*   "short"  the input ends inside a fixed-size part                       *)
(*   "noncanonical"  compact integer not in its shortest mode               *)
(*   "range"  compact integer too wide for the type                         *)
(*   "tag"    bool / option / result / enum discriminant not allowed        *)
(*   "length" declared length exceeds what is left of the input             *)
(*   "order"  map keys not strictly ascending                               *)
ScFailAt(at, why) == [ok |-> FALSE, v |-> <<>>, n |-> 0, at |-> at, why |-> why]
ScOk(v, n) == [ok |-> TRUE, v |-> v, n |-> n, at |-> "", why |-> ""]

ScDrop(s, n) == SubSeq(s, n + 1, Len(s))

--------------------------------------------------------------------------
(* ---- field order --------------------------------------------------------*)
RECURSIVE ScSortIdx(_, _)
ScSortIdx(S, key) ==   \* indices of S ascending by <<key[i], i>>
  IF S = {} THEN <<>>
  ELSE LET mn == CHOOSE i \in S : \A j \in S : key[i] < key[j] \/ (key[i] = key[j] /\ i <= j)
       IN <<mn>> \o ScSortIdx(S \ {mn}, key)
ScFieldOrder(tags) ==
  LET n == Len(tags)
      tagged == {i \in 1..n : tags[i] >= 0}
      plain == (1..n) \ tagged
  IN ScSortIdx(tagged, tags) \o ScSortIdx(plain, [i \in 1..n |-> 0])

ScVariant(t, idx) ==
  LET S == {j \in 1..Len(t.vs) : t.vs[j].i = idx}
  IN IF S = {} THEN [ok |-> FALSE, t |-> ScBool] ELSE [ok |-> TRUE, t |-> t.vs[CHOOSE j \in S : TRUE].t]

--------------------------------------------------------------------------
(* ---- compact integers -----------------------------------------------------*)
(* "Compact/general integers": 1-, 2-, 4-byte modes for values below 2^6,  *)
(* 2^14, 2^30; otherwise big-integer mode: first byte (L-4)*4+3 followed   *)
(* by the L = 4..67 little-endian bytes, the last of which is non-zero.    *)
ScCompactEnc(d) ==   \* d canonical BigNat
  IF d = <<>> THEN <<0>>
  ELSE IF Len(d) = 1 /\ d[1] < 64 THEN <<d[1] * 4>>
  ELSE IF Len(d) = 1 \/ (Len(d) = 2 /\ d[2] < 64)
       THEN LET n == BnToInt(d) IN <<(n % 64) * 4 + 1, n \div 64>>
  ELSE IF Len(d) <= 3 \/ (Len(d) = 4 /\ d[4] < 64)
       THEN LET n == BnToInt(d)
            IN <<(n % 64) * 4 + 2, (n \div 64) % 256, (n \div 16384) % 256, (n \div 4194304) % 256>>
  ELSE <<(Len(d) - 4) * 4 + 3>> \o d

ScCompactInt(n) == ScCompactEnc(BnFromInt(n))   \* lengths

(* maxLen: largest big-integer-mode byte count the type can hold (8 / 67)  *)
ScCompactDec(s, maxLen, at) ==
  IF s = <<>> THEN ScFailAt(at, "short")
  ELSE LET mode == s[1] % 4
           hi == s[1] \div 4
       IN CASE mode = 0 -> ScOk(BnFromInt(hi), 1)
            [] mode = 1 -> IF Len(s) < 2 THEN ScFailAt(at, "short")
                           ELSE LET n == hi + 64 * s[2]
                                IN IF n < 64 THEN ScFailAt(at, "noncanonical") ELSE ScOk(BnFromInt(n), 2)
            [] mode = 2 -> IF Len(s) < 4 THEN ScFailAt(at, "short")
                           ELSE LET n == hi + 64 * s[2] + 16384 * s[3] + 4194304 * s[4]
                                IN IF n < 16384 THEN ScFailAt(at, "noncanonical") ELSE ScOk(BnFromInt(n), 4)
            [] OTHER -> LET L == hi + 4 IN
                        IF L > maxLen THEN ScFailAt(at, "range")
                        ELSE IF Len(s) < 1 + L THEN ScFailAt(at, "short")
                        ELSE LET d == SubSeq(s, 2, 1 + L)
                             IN IF d[L] = 0 \/ (L = 4 /\ d[4] < 64) THEN ScFailAt(at, "noncanonical") ELSE ScOk(d, 1 + L)

(* a length prefix (Compact<u32>) followed by at least that many bytes;     *)
ScLenDec(s, at) ==
  LET r == ScCompactDec(s, 4, "len")
  IN IF ~r.ok THEN r
     \* for why = "length" the field n of the failure carries the DECLARED length (-1: >= 2^31),
     \* so that generators can keep absurd declared lengths away from code that allocates them
     ELSE IF ~BnFitsInt(r.v) THEN [ScFailAt(at, "length") EXCEPT !.n = -1]
     ELSE IF BnToInt(r.v) > Len(s) - r.n THEN [ScFailAt(at, "length") EXCEPT !.n = BnToInt(r.v)]
     ELSE ScOk(BnToInt(r.v), r.n)

(* every encoding of the number d in a LONGER mode than the canonical one   *)
(* (what a lenient decoder would accept); used by the canonicity laws       *)
ScCompactWidened(d) ==
  LET c == ScCompactEnc(d)
      n == IF BnFitsInt(d) THEN BnToInt(d) ELSE 0
      two == IF Len(c) < 2 /\ n < 16384 THEN {<<(n % 64) * 4 + 1, n \div 64>>} ELSE {}
      four == IF Len(c) < 4 /\ BnFitsInt(d) /\ n < 1073741824
              THEN {<<(n % 64) * 4 + 2, (n \div 64) % 256, (n \div 16384) % 256, (n \div 4194304) % 256>>} ELSE {}
      big == {<<(L - 4) * 4 + 3>> \o BnPad(d, L) : L \in {x \in {4, 5, 8, 9} : x >= Len(d) /\ <<(x - 4) * 4 + 3>> \o BnPad(d, x) # c}}
  IN two \cup four \cup big

--------------------------------------------------------------------------
(* ---- key order for maps (integer keys only) -------------------------------*)
ScKeyLess(kt, a, b) ==
  IF kt.k \in {"compact", "bigint", "u", "u128"} THEN BnLess(a, b)
  ELSE LexLess(a, b)      \* not used for other kinds by the generators

--------------------------------------------------------------------------
(* ---- encoder -------------------------------------------------------------*)
RECURSIVE ScEnc(_, _), ScEncSeq(_, _), ScEncPairs(_, _, _), ScEncFields(_, _, _)
ScEncSeq(t, vs) == IF vs = <<>> THEN <<>> ELSE ScEnc(t, vs[1]) \o ScEncSeq(t, Tail(vs))
ScEncPairs(kt, vt, ps) ==
  IF ps = <<>> THEN <<>> ELSE ScEnc(kt, ps[1][1]) \o ScEnc(vt, ps[1][2]) \o ScEncPairs(kt, vt, Tail(ps))
ScEncFields(fs, vs, ord) ==
  IF ord = <<>> THEN <<>> ELSE ScEnc(fs[ord[1]], vs[ord[1]]) \o ScEncFields(fs, vs, Tail(ord))
ScEnc(t, v) ==
  CASE t.k \in {"u", "i", "u128"} -> v
    [] t.k \in {"compact", "bigint"} -> ScCompactEnc(v)
    [] t.k = "bool" -> IF v THEN <<1>> ELSE <<0>>
    [] t.k \in {"bytes", "str"} -> ScCompactInt(Len(v)) \o v
    [] t.k = "opt" -> IF v = <<>> THEN <<0>> ELSE <<1>> \o ScEnc(t.t, v[1])
    [] t.k = "res" -> IF v.ok THEN <<0>> \o ScEnc(t.a, v.v) ELSE <<1>> \o ScEnc(t.b, v.v)
    [] t.k = "enum" -> <<v.i>> \o ScEnc(ScVariant(t, v.i).t, v.v)
    [] t.k = "arr" -> ScEncSeq(t.t, v)
    [] t.k = "slice" -> ScCompactInt(Len(v)) \o ScEncSeq(t.t, v)
    [] t.k = "map" -> ScCompactInt(Len(v)) \o ScEncPairs(t.kt, t.vt, v)
    [] t.k = "struct" -> ScEncFields(t.fs, v, ScFieldOrder(t.tags))

--------------------------------------------------------------------------
(* ---- decoder (total) ------------------------------------------------------*)
RECURSIVE ScDec(_, _), ScDecSeq(_, _, _), ScDecPairs(_, _, _, _), ScDecFields(_, _, _)
(* cnt elements of type t from s: [ok, v = sequence, n] *)
ScDecSeq(t, s, cnt) ==
  IF cnt = 0 THEN ScOk(<<>>, 0)
  ELSE LET r == ScDec(t, s)
       IN IF ~r.ok THEN r
          ELSE LET q == ScDecSeq(t, ScDrop(s, r.n), cnt - 1)
               IN IF ~q.ok THEN q ELSE ScOk(<<r.v>> \o q.v, r.n + q.n)
ScDecPairs(kt, vt, s, cnt) ==
  IF cnt = 0 THEN ScOk(<<>>, 0)
  ELSE LET rk == ScDec(kt, s)
       IN IF ~rk.ok THEN rk
          ELSE LET rv == ScDec(vt, ScDrop(s, rk.n))
               IN IF ~rv.ok THEN rv
                  ELSE LET q == ScDecPairs(kt, vt, ScDrop(s, rk.n + rv.n), cnt - 1)
                       IN IF ~q.ok THEN q
                          \* canonical form: keys strictly ascending (sorted, no duplicates)
                          ELSE IF q.v # <<>> /\ ~ScKeyLess(kt, rk.v, q.v[1][1]) THEN ScFailAt("map", "order")
                          ELSE ScOk(<<<<rk.v, rv.v>>>> \o q.v, rk.n + rv.n + q.n)
(* fields in encoding order ord; v = function field index -> value *)
ScDecFields(fs, s, ord) ==
  IF ord = <<>> THEN ScOk(<<>>, 0)
  ELSE LET r == ScDec(fs[ord[1]], s)
       IN IF ~r.ok THEN r
          ELSE LET q == ScDecFields(fs, ScDrop(s, r.n), Tail(ord))
               IN IF ~q.ok THEN q ELSE ScOk(<<r.v>> \o q.v, r.n + q.n)
ScDec(t, s) ==
  \* a one-byte integer is either there or not; a wider one can be PARTLY there (reported apart: "u8"/"i8" vs "u"/"i")
  CASE t.k \in {"u", "i"} -> IF Len(s) < t.n THEN ScFailAt(IF t.n = 1 THEN t.k \o "8" ELSE t.k, "short") ELSE ScOk(SubSeq(s, 1, t.n), t.n)
    [] t.k = "u128" -> IF Len(s) < 16 THEN ScFailAt("u128", "short") ELSE ScOk(SubSeq(s, 1, 16), 16)
    [] t.k = "compact" -> ScCompactDec(s, 8, "compact")
    [] t.k = "bigint" -> ScCompactDec(s, 67, "bigint")
    [] t.k = "bool" -> IF s = <<>> THEN ScFailAt("bool", "short") ELSE IF s[1] > 1 THEN ScFailAt("bool", "tag") ELSE ScOk(s[1] = 1, 1)
    [] t.k \in {"bytes", "str"} ->
         LET l == ScLenDec(s, t.k) IN IF ~l.ok THEN l ELSE ScOk(SubSeq(s, l.n + 1, l.n + l.v), l.n + l.v)
    [] t.k = "opt" ->
         IF s = <<>> THEN ScFailAt("opt", "short") ELSE IF s[1] > 1 THEN ScFailAt("opt", "tag")
         ELSE IF s[1] = 0 THEN ScOk(<<>>, 1)
         ELSE LET r == ScDec(t.t, Tail(s)) IN IF ~r.ok THEN r ELSE ScOk(<<r.v>>, 1 + r.n)
    [] t.k = "res" ->
         IF s = <<>> THEN ScFailAt("res", "short") ELSE IF s[1] > 1 THEN ScFailAt("res", "tag")
         ELSE LET r == ScDec(IF s[1] = 0 THEN t.a ELSE t.b, Tail(s))
              IN IF ~r.ok THEN r ELSE ScOk([ok |-> s[1] = 0, v |-> r.v], 1 + r.n)
    [] t.k = "enum" ->
         IF s = <<>> THEN ScFailAt("enum", "short") ELSE IF ~ScVariant(t, s[1]).ok THEN ScFailAt("enum", "tag")
         ELSE LET r == ScDec(ScVariant(t, s[1]).t, Tail(s))
              IN IF ~r.ok THEN r ELSE ScOk([i |-> s[1], v |-> r.v], 1 + r.n)
    [] t.k = "arr" -> ScDecSeq(t.t, s, t.n)
    [] t.k = "slice" ->   \* Vec<u8> IS a byte string (and is decoded as one)
         LET l == ScLenDec(s, IF t.t.k = "u" /\ t.t.n = 1 THEN "bytes" ELSE "slice") IN
         IF ~l.ok THEN l
         ELSE LET r == ScDecSeq(t.t, ScDrop(s, l.n), l.v) IN IF ~r.ok THEN r ELSE ScOk(r.v, l.n + r.n)
    [] t.k = "map" ->
         LET l == ScLenDec(s, t.k) IN
         IF ~l.ok THEN l
         ELSE LET r == ScDecPairs(t.kt, t.vt, ScDrop(s, l.n), l.v) IN IF ~r.ok THEN r ELSE ScOk(r.v, l.n + r.n)
    [] t.k = "struct" ->
         LET ord == ScFieldOrder(t.tags)
             r == ScDecFields(t.fs, s, ord)
         IN IF ~r.ok THEN r
            \* r.v is in encoding order; put it back into declaration order
            ELSE ScOk([i \in 1..Len(t.fs) |-> r.v[CHOOSE j \in 1..Len(ord) : ord[j] = i]], r.n)

(* value equality that never compares values of different shapes            *)
ScSame(r, v, n) == r.ok /\ r.n = n /\ r.v = v
=============================================================================
