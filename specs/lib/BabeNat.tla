------------------------------- MODULE BabeNat -------------------------------
(***************************************************************************)
(* Natural numbers of arbitrary size for TLC (whose integers are 32 bit):  *)
(* little-endian digit sequences in base NatBase, normalised (no trailing  *)
(* zero digit; zero is <<>>).  NatBase must satisfy                        *)
(* (NatBase-1)^2 + 2*(NatBase-1) < 2^31, i.e. NatBase <= 2^15, so that     *)
(* one digit product plus a carry plus an accumulator digit never          *)
(* overflows.  Used by BabeMath (C25); BabeNat_MC checks every operator    *)
(* against TLC's own integer arithmetic exhaustively for NatBase = 4.      *)
(***************************************************************************)
EXTENDS Integers, Sequences

CONSTANT NatBase

BnIsNat(a) == /\ \A i \in 1..Len(a) : a[i] \in 0..(NatBase - 1)
              /\ (Len(a) > 0 => a[Len(a)] # 0)

BnZero == <<>>

RECURSIVE BnNorm(_)
BnNorm(a) == IF Len(a) = 0 THEN a
             ELSE IF a[Len(a)] = 0 THEN BnNorm(SubSeq(a, 1, Len(a) - 1)) ELSE a

RECURSIVE BnFromInt(_)
BnFromInt(k) == IF k = 0 THEN <<>> ELSE <<k % NatBase>> \o BnFromInt(k \div NatBase)

(* only for numbers known to fit a TLC integer *)
RECURSIVE BnToInt(_)
BnToInt(a) == IF Len(a) = 0 THEN 0 ELSE a[1] + NatBase * BnToInt(Tail(a))

(* -1, 0, 1 *)
BnCmp(a, b) ==
  IF Len(a) # Len(b) THEN (IF Len(a) < Len(b) THEN -1 ELSE 1)
  ELSE LET RECURSIVE C(_)
           C(i) == IF i = 0 THEN 0
                   ELSE IF a[i] < b[i] THEN -1
                   ELSE IF a[i] > b[i] THEN 1
                   ELSE C(i - 1)
       IN C(Len(a))

BnLe(a, b) == BnCmp(a, b) <= 0
BnLt(a, b) == BnCmp(a, b) < 0

BnDigit(a, i) == IF i <= Len(a) THEN a[i] ELSE 0

BnAdd(a, b) ==
  LET n == IF Len(a) > Len(b) THEN Len(a) ELSE Len(b)
      RECURSIVE G(_, _, _)
      G(i, carry, acc) ==
        IF i > n THEN (IF carry = 0 THEN acc ELSE Append(acc, carry))
        ELSE LET v == BnDigit(a, i) + BnDigit(b, i) + carry
             IN G(i + 1, v \div NatBase, Append(acc, v % NatBase))
  IN G(1, 0, <<>>)

(* a - b for a >= b *)
BnSub(a, b) ==
  LET n == Len(a)
      RECURSIVE G(_, _, _)
      G(i, borrow, acc) ==
        IF i > n THEN acc
        ELSE LET v == a[i] - BnDigit(b, i) - borrow
             IN IF v < 0 THEN G(i + 1, 1, Append(acc, v + NatBase))
                ELSE G(i + 1, 0, Append(acc, v))
  IN BnNorm(G(1, 0, <<>>))

(* a - b, or 0 when b > a *)
BnMonus(a, b) == IF BnLe(b, a) THEN BnSub(a, b) ELSE BnZero

(* a * d for one digit d *)
BnMulDigit(a, d) ==
  IF d = 0 THEN BnZero ELSE
  LET n == Len(a)
      RECURSIVE G(_, _, _)
      G(i, carry, acc) ==
        IF i > n THEN (IF carry = 0 THEN acc ELSE Append(acc, carry))
        ELSE LET v == a[i] * d + carry
             IN G(i + 1, v \div NatBase, Append(acc, v % NatBase))
  IN G(1, 0, <<>>)

(* a * NatBase^k *)
BnShift(a, k) == IF Len(a) = 0 THEN a ELSE [i \in 1..k |-> 0] \o a

BnMul(a, b) ==
  LET RECURSIVE G(_, _)
      G(j, acc) == IF j > Len(b) THEN acc
                   ELSE G(j + 1, BnAdd(acc, BnShift(BnMulDigit(a, b[j]), j - 1)))
  IN G(1, BnZero)

RECURSIVE BnPow(_, _)
BnPow(a, n) == IF n = 0 THEN <<1>> ELSE BnMul(BnPow(a, n - 1), a)

(* value of a big-endian byte string modulo m (Horner); m < 2^23 *)
BnBytesBEMod(bytes, m) ==
  LET RECURSIVE G(_, _)
      G(i, acc) == IF i > Len(bytes) THEN acc ELSE G(i + 1, (acc * 256 + bytes[i]) % m)
  IN G(1, 0)
=============================================================================
