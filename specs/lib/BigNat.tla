------------------------------- MODULE BigNat -------------------------------
(***************************************************************************)
(* Natural numbers beyond TLC's 32-bit integers: a number is its sequence  *)
(* of base-256 digits, least significant first ("LE digits").  The         *)
(* CANONICAL form has no trailing (most significant) zero digit; zero is   *)
(* the empty sequence.  Pure operators only; every name starts with Bn.    *)
(* Small operands (`m`, `a` below) must stay under 2^23 so that every      *)
(* intermediate product fits TLC's integers.                               *)
(***************************************************************************)
EXTENDS Integers, Sequences

BnZero == <<>>

RECURSIVE BnTrim(_)
BnTrim(d) == IF d = <<>> THEN <<>>
             ELSE IF d[Len(d)] = 0 THEN BnTrim(SubSeq(d, 1, Len(d) - 1)) ELSE d

BnIsCanon(d) == d = <<>> \/ d[Len(d)] # 0

(* digits of 0 <= n < 2^31 *)
RECURSIVE BnFromInt(_)
BnFromInt(n) == IF n = 0 THEN <<>> ELSE <<n % 256>> \o BnFromInt(n \div 256)

(* value of a digit sequence; only for values below 2^31 *)
RECURSIVE BnToInt(_)
BnToInt(d) == IF d = <<>> THEN 0 ELSE d[1] + 256 * BnToInt(Tail(d))

BnFitsInt(d) == LET t == BnTrim(d) IN Len(t) <= 3 \/ (Len(t) = 4 /\ t[4] < 128)

(* exactly k digits (value must fit) *)
BnPad(d, k) == [i \in 1..k |-> IF i <= Len(d) THEN d[i] ELSE 0]

(* -1 / 0 / 1 *)
BnCmp(a0, b0) ==
  LET a == BnTrim(a0)
      b == BnTrim(b0)
  IN IF Len(a) # Len(b) THEN (IF Len(a) < Len(b) THEN -1 ELSE 1)
     ELSE LET D == {i \in 1..Len(a) : a[i] # b[i]}
          IN IF D = {} THEN 0
             ELSE LET mx == CHOOSE i \in D : \A j \in D : j <= i
                  IN IF a[mx] < b[mx] THEN -1 ELSE 1

BnLess(a, b) == BnCmp(a, b) = -1
BnLeq(a, b) == BnCmp(a, b) # 1

(* a + b, schoolbook with carry c *)
RECURSIVE BnAddC(_, _, _)
BnAddC(a, b, c) ==
  IF a = <<>> /\ b = <<>> THEN (IF c = 0 THEN <<>> ELSE <<c>>)
  ELSE LET x == (IF a = <<>> THEN 0 ELSE a[1]) + (IF b = <<>> THEN 0 ELSE b[1]) + c
       IN <<x % 256>> \o BnAddC(IF a = <<>> THEN <<>> ELSE Tail(a), IF b = <<>> THEN <<>> ELSE Tail(b), x \div 256)
BnAdd(a, b) == BnTrim(BnAddC(a, b, 0))

(* a - b for a >= b, schoolbook with borrow c *)
RECURSIVE BnSubC(_, _, _)
BnSubC(a, b, c) ==
  IF a = <<>> THEN <<>>
  ELSE LET x == a[1] - (IF b = <<>> THEN 0 ELSE b[1]) - c
       IN <<(x + 256) % 256>> \o BnSubC(Tail(a), IF b = <<>> THEN <<>> ELSE Tail(b), IF x < 0 THEN 1 ELSE 0)
BnSub(a, b) == BnTrim(BnSubC(a, b, 0))

BnSucc(a) == BnAdd(a, <<1>>)
BnPred(a) == BnSub(a, <<1>>)

(* 2^k *)
BnPow2(k) == [i \in 1..(k \div 8) |-> 0] \o <<2 ^ (k % 8)>>

(* d * m + a for small m, a *)
RECURSIVE BnMulSmallC(_, _, _)
BnMulSmallC(d, m, c) ==
  IF d = <<>> THEN BnFromInt(c)
  ELSE LET x == d[1] * m + c IN <<x % 256>> \o BnMulSmallC(Tail(d), m, x \div 256)
BnMulSmallAdd(d, m, a) == BnTrim(BnMulSmallC(d, m, a))

(* schoolbook product *)
RECURSIVE BnMul(_, _)
BnMul(a, b) == IF b = <<>> THEN <<>>
               ELSE BnAdd(BnMulSmallAdd(a, b[1], 0), <<0>> \o BnMul(a, Tail(b)))

(* long division by a small m, from the most significant digit:            *)
(* [q |-> digits (untrimmed, same length), r |-> remainder]                *)
RECURSIVE BnDivModSmallR(_, _, _)
BnDivModSmallR(d, m, r) ==   \* d is MOST significant first here
  IF d = <<>> THEN [q |-> <<>>, r |-> r]
  ELSE LET x == r * 256 + d[1]
           rest == BnDivModSmallR(Tail(d), m, x % m)
       IN [q |-> <<x \div m>> \o rest.q, r |-> rest.r]
BnRev(s) == [i \in 1..Len(s) |-> s[Len(s) + 1 - i]]
BnDivModSmall(d, m) ==
  LET x == BnDivModSmallR(BnRev(d), m, 0) IN [q |-> BnTrim(BnRev(x.q)), r |-> x.r]

(* decimal digits (each 0..9), most significant first; zero is <<0>> *)
RECURSIVE BnToDecimalR(_)
BnToDecimalR(d) == IF d = <<>> THEN <<>>
                   ELSE LET x == BnDivModSmall(d, 10) IN BnToDecimalR(x.q) \o <<x.r>>
BnToDecimal(d) == LET t == BnTrim(d) IN IF t = <<>> THEN <<0>> ELSE BnToDecimalR(t)

(* ASCII text of the decimal form *)
BnToDecimalAscii(d) == LET s == BnToDecimal(d) IN [i \in 1..Len(s) |-> 48 + s[i]]

RECURSIVE BnFromDecimalR(_, _)
BnFromDecimalR(ds, acc) == IF ds = <<>> THEN acc ELSE BnFromDecimalR(Tail(ds), BnMulSmallAdd(acc, 10, ds[1]))
BnFromDecimal(ds) == BnFromDecimalR(ds, <<>>)

(* big-endian / little-endian byte strings *)
BnFromBytesLE(b) == BnTrim(b)
BnFromBytesBE(b) == BnTrim(BnRev(b))
BnToBytesLE(d) == BnTrim(d)
BnToBytesBE(d) == BnRev(BnTrim(d))
=============================================================================
