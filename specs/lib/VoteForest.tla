----------------------------- MODULE VoteForest -----------------------------
(***************************************************************************)
(* Small block trees for the GRANDPA families (C18-C21, reused by C22).    *)
(* A tree is a sequence par: block b is an index 1..Len(par), block 1 is   *)
(* the root (par[1] = 0) and par[b] < b, so every sequence of that shape   *)
(* is a tree and enumeration of all trees is enumeration of such sequences.*)
(* Pure operators only: no CONSTANTS, no VARIABLES; every name starts with *)
(* VF so the module can be EXTENDed anywhere.                              *)
(***************************************************************************)
EXTENDS Integers, Sequences, FiniteSets, FiniteSetsExt

VFBlocks(par) == 1..Len(par)

VFIsTree(par) == /\ Len(par) >= 1
                 /\ par[1] = 0
                 /\ \A b \in 2..Len(par) : par[b] \in 1..(b - 1)

(* ancestors of b including b *)
RECURSIVE VFAnc(_, _)
VFAnc(par, b) == IF b = 0 THEN {} ELSE {b} \cup VFAnc(par, par[b])

(* a >= b in the paper's order: a is b or a descendant of b *)
VFGeq(par, a, b) == b \in VFAnc(par, a)

(* block number relative to the root (root = 0) *)
RECURSIVE VFHeight(_, _)
VFHeight(par, b) == IF par[b] = 0 THEN 0 ELSE 1 + VFHeight(par, par[b])

VFChildren(par, b) == {c \in VFBlocks(par) : par[c] = b}

VFIsChain(par, S) == \A a, b \in S : VFGeq(par, a, b) \/ VFGeq(par, b, a)

(* the highest element of a non-empty set (unique when S is a chain) *)
VFTop(par, S) == CHOOSE b \in S : \A c \in S : VFHeight(par, c) <= VFHeight(par, b)

(* the lowest element of a non-empty set *)
VFBottom(par, S) == CHOOSE b \in S : \A c \in S : VFHeight(par, b) <= VFHeight(par, c)

VFLca(par, a, b) == VFTop(par, VFAnc(par, a) \cap VFAnc(par, b))

(* the ancestor of b with the given height (b itself when it is not higher) *)
VFAncestorAt(par, b, h) ==
  IF VFHeight(par, b) <= h THEN b
  ELSE CHOOSE a \in VFAnc(par, b) : VFHeight(par, a) = h

(* all trees with exactly n blocks, as sequences *)
VFAllTrees(n) == {p \in [1..n -> 0..(n - 1)] : VFIsTree(p)}

(* sum of w[x] over a finite set A *)
VFSum(w, A) == FoldSet(LAMBDA x, acc : w[x] + acc, 0, A)

(* smallest weight that is MORE THAN two thirds of total:                  *)
(* total - floor((total - 1) / 3); for total = 3f + 1 this is the paper's  *)
(* (n + f + 1) / 2 = 2f + 1.                                               *)
VFThreshold(total) == total - ((total - 1) \div 3)

(* weight the protocol tolerates to be faulty *)
VFFaulty(total) == total - VFThreshold(total)
=============================================================================
