----------------------------- MODULE SyncForest -----------------------------
(***************************************************************************)
(* Block trees for the sync family (C31, C32).  Pure operators only.       *)
(*                                                                         *)
(* A block tree is a PARENT SEQUENCE par: the blocks are 0..Len(par),      *)
(* block 0 is genesis, and par[b] \in 0..b-1 is the parent of block b >= 1 *)
(* (ids are a topological order, so every parent-first recursion ends).    *)
(* The block NUMBER (height) is the distance to genesis.                   *)
(***************************************************************************)
EXTENDS Integers, Sequences, FiniteSets

SFIsForest(par) == \A b \in 1..Len(par) : par[b] \in 0..(b - 1)

SFBlocks(par) == 0..Len(par)

RECURSIVE SFNum(_, _)
SFNum(par, b) == IF b = 0 THEN 0 ELSE 1 + SFNum(par, par[b])

(* ancestors of b, b included *)
RECURSIVE SFAnc(_, _)
SFAnc(par, b) == IF b = 0 THEN {0} ELSE {b} \cup SFAnc(par, par[b])

(* a is an ancestor of b (or b itself); ids are a topological order, so the  *)
(* walk towards genesis can stop as soon as it is below a                   *)
RECURSIVE SFIsAnc(_, _, _)
SFIsAnc(par, a, b) == IF a = b THEN TRUE ELSE IF b < a \/ b = 0 THEN FALSE ELSE SFIsAnc(par, a, par[b])

(* the k-th ancestor of b *)
RECURSIVE SFUp(_, _, _)
SFUp(par, b, k) == IF k <= 0 \/ b = 0 THEN b ELSE SFUp(par, par[b], k - 1)

(* children of b among the blocks K *)
SFChildren(par, K, b) == {c \in K \ {0} : par[c] = b}

SFLeaves(par, K) == {b \in K : SFChildren(par, K, b) = {}}

(* the blocks a node knows after finalising f: f's ancestors and descendants *)
SFKnown(par, f) == {b \in SFBlocks(par) : SFIsAnc(par, b, f) \/ SFIsAnc(par, f, b)}

(* the leaves of maximal number among K *)
SFDeepest(par, K) ==
  LET L == SFLeaves(par, K)
  IN {l \in L : \A m \in L : SFNum(par, m) <= SFNum(par, l)}

(* b, parent(b), ... : at most n blocks, ends at genesis *)
RECURSIVE SFDown(_, _, _)
SFDown(par, b, n) ==
  IF n <= 0 THEN <<>>
  ELSE IF b = 0 THEN <<0>>
  ELSE <<b>> \o SFDown(par, par[b], n - 1)

(* every child-path starting at b inside K that has n blocks or ends in a *)
(* block without children in K (it cannot be extended)                    *)
RECURSIVE SFUpPaths(_, _, _, _)
SFUpPaths(par, K, b, n) ==
  IF n <= 0 THEN {<<>>}
  ELSE IF n = 1 THEN {<<b>>}
  ELSE LET C == SFChildren(par, K, b)
       IN IF C = {} THEN {<<b>>}
          ELSE UNION {{<<b>> \o p : p \in SFUpPaths(par, K, c, n - 1)} : c \in C}

(* s is a parent-to-child chain: s[i] is the parent of s[i+1] *)
SFIsUpChain(par, s) == \A i \in 1..(Len(s) - 1) : s[i + 1] # 0 /\ par[s[i + 1]] = s[i]
(* s is a child-to-parent chain *)
SFIsDownChain(par, s) == \A i \in 1..(Len(s) - 1) : s[i] # 0 /\ par[s[i]] = s[i + 1]

(* all parent sequences of length n *)
RECURSIVE SFAllForests(_)
SFAllForests(n) ==
  IF n = 0 THEN {<<>>}
  ELSE {Append(p, q) : p \in SFAllForests(n - 1), q \in 0..(n - 1)}

SFSeqRange(s) == {s[i] : i \in 1..Len(s)}
SFReverse(s) == [i \in 1..Len(s) |-> s[Len(s) + 1 - i]]
=============================================================================
