------------------------------- MODULE PbWire -------------------------------
(***************************************************************************)
(* Protocol Buffers WIRE FORMAT (encoding.md), the part the block request  *)
(* / response schema of dot/network/proto/api.v1.proto uses, written       *)
(* independently of google.golang.org/protobuf:                            *)
(*   varint        base-128, least significant group first, bit 7 = "more" *)
(*   key           varint(field_number * 8 + wire_type)                    *)
(*   wire type 0   varint scalar (uint32, enum, bool)                      *)
(*   wire type 2   length-delimited: varint(length) then the bytes         *)
(*                 (bytes, embedded messages)                              *)
(* proto3: a scalar field holding its default (0, false, empty bytes) is   *)
(* NOT emitted, a member of a oneof IS emitted even when empty, repeated   *)
(* fields are emitted element by element.  The format does NOT fix the     *)
(* order of fields with different numbers (prost writes field-number order,*)
(* google.golang.org/protobuf writes oneof members last): the layouts here *)
(* are in field-number order and the harness compares byte for byte after  *)
(* a stable sort of the real encoder's fields by field number.             *)
(* Numbers are BigNat digit sequences (specs/lib/BigNat.tla): uint32 does  *)
(* not fit TLC's integers.  Every operator name starts with Pb.            *)
(***************************************************************************)
EXTENDS Integers, Sequences, BigNat

RECURSIVE PbVarint(_)
PbVarint(d) ==   \* d: canonical BigNat
  IF d = <<>> THEN <<0>>
  ELSE IF Len(d) = 1 /\ d[1] < 128 THEN <<d[1]>>
  ELSE LET x == BnDivModSmall(d, 128) IN <<128 + x.r>> \o PbVarint(x.q)

PbKey(f, wt) == PbVarint(BnFromInt(f * 8 + wt))
PbVarintField(f, d) == PbKey(f, 0) \o PbVarint(d)
PbLenField(f, b) == PbKey(f, 2) \o PbVarint(BnFromInt(Len(b))) \o b

(* proto3 presence rules *)
PbScalar(f, d) == IF d = <<>> THEN <<>> ELSE PbVarintField(f, d)       \* uint32 / enum / bool
PbBytes(f, b) == IF b = <<>> THEN <<>> ELSE PbLenField(f, b)           \* bytes outside a oneof
RECURSIVE PbRepeated(_, _)
PbRepeated(f, bs) == IF bs = <<>> THEN <<>> ELSE PbLenField(f, bs[1]) \o PbRepeated(f, Tail(bs))

--------------------------------------------------------------------------
(* ---- parser (total): the sequence of (field, wire type, payload) ---------*)
PbFail(why) == [ok |-> FALSE, fs |-> <<>>, why |-> why]

(* varint at the head of s: [ok, v = BigNat, n = bytes used]; at most 10 bytes *)
PbVarintDec(s) ==
  LET E == {i \in 1..Len(s) : s[i] < 128}
  IN IF E = {} THEN [ok |-> FALSE, v |-> <<>>, n |-> 0]
     ELSE LET n == CHOOSE i \in E : \A j \in E : i <= j
              F[i \in 0..n] == IF i = 0 THEN <<>> ELSE BnMulSmallAdd(F[i - 1], 128, s[n + 1 - i] % 128)
          IN IF n > 10 THEN [ok |-> FALSE, v |-> <<>>, n |-> 0] ELSE [ok |-> TRUE, v |-> F[n], n |-> n]

RECURSIVE PbParse(_)
PbParse(s) ==
  IF s = <<>> THEN [ok |-> TRUE, fs |-> <<>>, why |-> ""]
  ELSE LET k == PbVarintDec(s) IN
       IF ~k.ok THEN PbFail("key")
       ELSE IF ~BnFitsInt(k.v) THEN PbFail("key")
       ELSE LET kv == BnToInt(k.v)
                f == kv \div 8
                wt == kv % 8
                rest == SubSeq(s, k.n + 1, Len(s))
            IN IF f = 0 THEN PbFail("field0")
               ELSE IF wt = 0 THEN
                      LET x == PbVarintDec(rest) IN
                      IF ~x.ok THEN PbFail("varint")
                      ELSE LET q == PbParse(SubSeq(rest, x.n + 1, Len(rest)))
                           IN IF ~q.ok THEN q ELSE [ok |-> TRUE, fs |-> <<[f |-> f, wt |-> 0, v |-> x.v]>> \o q.fs, why |-> ""]
               ELSE IF wt = 2 THEN
                      LET l == PbVarintDec(rest) IN
                      IF ~l.ok THEN PbFail("length")
                      ELSE IF ~BnFitsInt(l.v) \/ BnToInt(l.v) > Len(rest) - l.n THEN PbFail("short")
                      ELSE LET ln == BnToInt(l.v)
                               q == PbParse(SubSeq(rest, l.n + ln + 1, Len(rest)))
                           IN IF ~q.ok THEN q
                              ELSE [ok |-> TRUE, fs |-> <<[f |-> f, wt |-> 2, v |-> SubSeq(rest, l.n + 1, l.n + ln)]>> \o q.fs, why |-> ""]
               ELSE IF wt \in {1, 5} THEN
                      LET w == IF wt = 1 THEN 8 ELSE 4 IN
                      IF Len(rest) < w THEN PbFail("short")
                      ELSE LET q == PbParse(SubSeq(rest, w + 1, Len(rest)))
                           IN IF ~q.ok THEN q ELSE [ok |-> TRUE, fs |-> <<[f |-> f, wt |-> wt, v |-> SubSeq(rest, 1, w)]>> \o q.fs, why |-> ""]
               ELSE PbFail("wiretype")

(* re-serialisation of a parsed field list *)
RECURSIVE PbUnparse(_)
PbUnparse(fs) ==
  IF fs = <<>> THEN <<>>
  ELSE LET x == fs[1]
       IN (IF x.wt = 0 THEN PbVarintField(x.f, x.v) ELSE IF x.wt = 2 THEN PbLenField(x.f, x.v) ELSE PbKey(x.f, x.wt) \o x.v)
          \o PbUnparse(Tail(fs))

(* payload of the LAST occurrence of field f with wire type wt, or none *)
PbLast(fs, f, wt) ==
  LET S == {i \in 1..Len(fs) : fs[i].f = f /\ fs[i].wt = wt}
  IN IF S = {} THEN [has |-> FALSE, v |-> <<>>] ELSE [has |-> TRUE, v |-> fs[CHOOSE i \in S : \A j \in S : j <= i].v]
PbAll(fs, f, wt) ==
  LET idx == {i \in 1..Len(fs) : fs[i].f = f /\ fs[i].wt = wt}
      F[i \in 0..Len(fs)] == IF i = 0 THEN <<>> ELSE IF i \in idx THEN Append(F[i - 1], fs[i].v) ELSE F[i - 1]
  IN F[Len(fs)]
PbAscending(fs) == \A i \in 1..(Len(fs) - 1) : fs[i].f <= fs[i + 1].f
=============================================================================
