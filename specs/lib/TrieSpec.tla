------------------------------ MODULE TrieSpec ------------------------------
(***************************************************************************)
(* The Polkadot/Substrate base-16 Merkle-Patricia trie as a FUNCTION OF    *)
(* THE MAP.  Nothing here mentions insertion or deletion: the shape is the *)
(* unique radix-16 tree of the key set, the node encoding follows the node *)
(* grammar of the Polkadot spec (section 2.4), and the root is the hash of *)
(* the root encoding.  Hence every history reaching a map gives the same   *)
(* root by construction (C01), and so do all engines (C06, C10).           *)
(*                                                                         *)
(*   m      : function  byte-string key -> byte-string value               *)
(*   v1     : BOOLEAN   state version 1 (values longer than 32 bytes are   *)
(*                      stored by hash), version 0 inlines every value     *)
(***************************************************************************)
EXTENDS Bytes

EmptyMap == [x \in {} |-> <<>>]

(* re-key a byte-keyed map by nibble sequences *)
NibbleMap(m) ==
  LET D == {KeyToNibbles(k) : k \in DOMAIN m}
  IN [nk \in D |-> m[CHOOSE k \in DOMAIN m : KeyToNibbles(k) = nk]]

(* header: variant bits, then the partial key length in the low bits with  *)
(* 255-continuation bytes                                                  *)
Cont255(r) == Rep(r \div 255, 255) \o <<r % 255>>
Header(bits, maxlen, pkLen) ==
  IF pkLen < maxlen THEN <<bits + pkLen>>
  ELSE <<bits + maxlen>> \o Cont255(pkLen - maxlen)

ValueHashed(v, v1) == v1 /\ Len(v) > 32
EncValue(v, v1) == IF ValueHashed(v, v1) THEN H(v) ELSE Compact(Len(v)) \o v

(* Merkle value of a non-root node: the encoding itself when shorter than  *)
(* 32 bytes, else its hash                                                 *)
MerkleValue(enc) == IF IsShort(enc) THEN enc ELSE H(enc)
ChildRef(enc) == IF IsShort(enc) THEN Compact(Len(enc)) \o enc ELSE Compact(32) \o H(enc)

Bitmap(C) ==
  LET lo == {c \in C : c < 8}
      hi == {c - 8 : c \in {d \in C : d >= 8}}
      RECURSIVE Sum(_)
      Sum(S) == IF S = {} THEN 0 ELSE LET x == CHOOSE y \in S : TRUE IN 2 ^ x + Sum(S \ {x})
  IN <<Sum(lo), Sum(hi)>>

(* kv : non-empty function from nibble sequences to values *)
RECURSIVE EncNode(_, _)
EncNode(kv, v1) ==
  LET K == DOMAIN kv
  IN IF Cardinality(K) = 1
     THEN LET k == CHOOSE x \in K : TRUE
              v == kv[k]
          IN (IF ValueHashed(v, v1) THEN Header(32, 31, Len(k)) ELSE Header(64, 63, Len(k)))
             \o NibblesToKeyLE(k) \o EncValue(v, v1)
     ELSE LET pk == LCP(K)
              n == Len(pk)
              hasV == pk \in K
              C == {k[n + 1] : k \in K \ {pk}}
              Sub(c) == LET Kc == {k \in K : Len(k) > n /\ k[n + 1] = c}
                            D == {Drop(k, n + 1) : k \in Kc}
                        IN [s \in D |-> kv[pk \o <<c>> \o s]]
              hdr == IF ~hasV THEN Header(128, 63, n)
                     ELSE IF ValueHashed(kv[pk], v1) THEN Header(16, 15, n)
                     ELSE Header(192, 63, n)
              RECURSIVE Kids(_)
              Kids(c) == IF c > 15 THEN <<>>
                         ELSE (IF c \in C THEN ChildRef(EncNode(Sub(c), v1)) ELSE <<>>) \o Kids(c + 1)
          IN hdr \o NibblesToKeyLE(pk) \o Bitmap(C)
             \o (IF hasV THEN EncValue(kv[pk], v1) ELSE <<>>) \o Kids(0)

RootEnc(m, v1) == IF DOMAIN m = {} THEN <<0>> ELSE EncNode(NibbleMap(m), v1)
Root(m, v1) == H(RootEnc(m, v1))

(* All node encodings of the trie of m that are stored under their hash    *)
(* (the root always, every other node iff its encoding is >= 32 bytes),    *)
(* i.e. the database rows / proof nodes of the state.                      *)
RECURSIVE HashedNodes(_, _, _)
HashedNodes(kv, v1, isRoot) ==
  LET K == DOMAIN kv
      enc == EncNode(kv, v1)
      self == IF isRoot \/ ~IsShort(enc) THEN {enc} ELSE {}
  IN IF Cardinality(K) = 1 THEN self
     ELSE LET pk == LCP(K)
              n == Len(pk)
              C == {k[n + 1] : k \in K \ {pk}}
              Sub(c) == LET Kc == {k \in K : Len(k) > n /\ k[n + 1] = c}
                            D == {Drop(k, n + 1) : k \in Kc}
                        IN [s \in D |-> kv[pk \o <<c>> \o s]]
          IN self \cup UNION {HashedNodes(Sub(c), v1, FALSE) : c \in C}

StoredNodes(m, v1) == IF DOMAIN m = {} THEN {<<0>>} ELSE HashedNodes(NibbleMap(m), v1, TRUE)
=============================================================================
