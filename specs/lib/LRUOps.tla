------------------------------- MODULE LRUOps -------------------------------
(***************************************************************************)
(* C35.  The shared least-recently-used cache (lib/utils/lru-cache) as a   *)
(* sequential object: "a capacity-bounded map where a get refreshes        *)
(* recency and a put into a full cache evicts the least recently used      *)
(* entry".                                                                 *)
(*                                                                         *)
(*   order : sequence of keys, most recently used first                    *)
(*   val   : function key -> value on the keys of order                    *)
(*                                                                         *)
(* A Get of an absent key returns the zero value 0 (values are >= 1).      *)
(* The pure step functions LGet / LPut are shared by the sequential        *)
(* machine below (engines M and G) and by the linearizability trace        *)
(* specification LRU_Trace (engine V).                                     *)
(***************************************************************************)
EXTENDS Integers, Sequences, FiniteSets, TLC, Json


Without(s, k) == SelectSeq(s, LAMBDA x : x # k)
InSeq(s, k) == \E i \in 1..Len(s) : s[i] = k

EmptyCache(cap) == [cap |-> cap, order |-> <<>>, val |-> [x \in {} |-> 0]]

LGetRes(c, k) == IF InSeq(c.order, k) THEN c.val[k] ELSE 0
LGet(c, k) == IF InSeq(c.order, k) THEN [c EXCEPT !.order = <<k>> \o Without(c.order, k)] ELSE c

LPut(c, k, v) ==
  IF InSeq(c.order, k)
  THEN [c EXCEPT !.order = <<k>> \o Without(c.order, k), !.val = [c.val EXCEPT ![k] = v]]
  ELSE LET kept == IF Len(c.order) >= c.cap THEN SubSeq(c.order, 1, Len(c.order) - 1) ELSE c.order
           ks == {kept[i] : i \in 1..Len(kept)} \cup {k}
       IN [c EXCEPT !.order = <<k>> \o kept, !.val = [x \in ks |-> IF x = k THEN v ELSE c.val[x]]]

=============================================================================
