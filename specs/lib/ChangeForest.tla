---------------------------- MODULE ChangeForest ----------------------------
(***************************************************************************)
(* Pure block-tree operators for the authority-set family (C23, C36).      *)
(*                                                                         *)
(* A forest is a sequence pr of parent ids: block 0 is the genesis block,  *)
(* block i (1 <= i <= Len(pr)) has parent pr[i] < i, so blocks are         *)
(* numbered in a parent-first (import) order.  A "pending set" P is a set  *)
(* of block ids that carry a pending change; Substrate's ForkTree of       *)
(* pending changes is exactly the ancestry relation restricted to P.       *)
(***************************************************************************)
EXTENDS Integers, Sequences, FiniteSets

CFBlocks(pr) == 0..Len(pr)

(* block number = distance from genesis *)
RECURSIVE CFNum(_, _)
CFNum(pr, b) == IF b = 0 THEN 0 ELSE 1 + CFNum(pr, pr[b])

(* a is a STRICT ancestor of b (Substrate is_descendent_of(a, b)) *)
RECURSIVE CFAnc(_, _, _)
CFAnc(pr, a, b) == IF b = 0 \/ a >= b THEN FALSE ELSE pr[b] = a \/ CFAnc(pr, a, pr[b])

CFAncEq(pr, a, b) == a = b \/ CFAnc(pr, a, b)

(* roots of the fork tree induced on P *)
CFRoots(pr, P) == {r \in P : \A x \in P : ~CFAnc(pr, x, r)}

(* the root whose subtree holds x (x \in P) *)
CFRootOf(pr, P, x) == CHOOSE r \in CFRoots(pr, P) : CFAncEq(pr, r, x)

(* subtree of r without r, and r's children in the fork tree *)
CFBelow(pr, P, r) == {x \in P : CFAnc(pr, r, x)}
CFChildren(pr, P, r) == CFRoots(pr, CFBelow(pr, P, r))

(* sorted sequence of a finite set of integers *)
RECURSIVE CFSorted(_)
CFSorted(S) == IF S = {} THEN <<>>
               ELSE LET m == CHOOSE x \in S : \A y \in S : x <= y IN <<m>> \o CFSorted(S \ {m})
=============================================================================
