---------------------------- MODULE GrandpaVotes ----------------------------
(***************************************************************************)
(* GRANDPA paper definitions over a block tree (VoteForest) and a vote     *)
(* function S of one phase: S[v] = set of blocks voter v voted for.        *)
(* Pure operators (no CONSTANTS, no VARIABLES), prefix RS; used by         *)
(* RoundState (C20), Justification (C19) and available to C22.             *)
(* w is the weight function voter -> weight.                               *)
(***************************************************************************)
EXTENDS VoteForest

(* ---- paper definitions (pure; S is one phase's vote function) --------- *)

RSVoted(S) == {v \in DOMAIN S : S[v] # {}}

(* "an equivocator": two different votes in the same phase *)
RSEquiv(S) == {v \in DOMAIN S : Cardinality(S[v]) >= 2}

(* voters counted for block b: "voters who either have a vote for blocks   *)
(* >= B or equivocate in S" -- an equivocator counts towards EVERY block   *)
RSSupp(t, S, b) == LET eq == RSEquiv(S)
                   IN {v \in DOMAIN S : v \in eq \/ \E x \in S[v] : VFGeq(t, x, b)}

RSTotal(w) == VFSum(w, DOMAIN w)
RSThr(w) == VFThreshold(RSTotal(w))
RSFaulty(w) == VFFaulty(RSTotal(w))

(* "S has a supermajority for B" *)
RSHasSM(t, w, S, b) == VFSum(w, RSSupp(t, S, b)) >= RSThr(w)
RSSMBlocks(t, w, S) == LET thr == RSThr(w) IN {b \in VFBlocks(t) : VFSum(w, RSSupp(t, S, b)) >= thr}

(* "S is tolerant": at most f weight equivocates *)
RSTolerant(w, S) == VFSum(w, RSEquiv(S)) <= RSFaulty(w)

(* g(S): "the block of highest block number such that S has a              *)
(* supermajority for it", 0 = nil                                          *)
RSGhostDefined(t, w, S) == VFIsChain(t, RSSMBlocks(t, w, S))
RSGhost(t, w, S) == LET B == RSSMBlocks(t, w, S) IN IF B = {} THEN 0 ELSE VFTop(t, B)

(* "it is possible for S to have a supermajority for B": some tolerant     *)
(* extension of S has one.  sup = voters already counted for B.  Voters    *)
(* that have not voted may all vote for B; voters that voted elsewhere can *)
(* only be won by equivocating, within the tolerated weight.               *)
RSPossibleSup(w, S, sup) ==
  LET voted == RSVoted(S)
      other == voted \ sup                          \* voted, not counted for B, not equivocating (RSEquiv(S) \subseteq sup)
      eqw == VFSum(w, RSEquiv(S))
      base == VFSum(w, sup \cup (DOMAIN S \ voted)) \* already counted, or not voted yet
      f == RSFaulty(w)
      thr == RSThr(w)
  IN \E X \in SUBSET other :                        \* voters that additionally equivocate
        LET x == VFSum(w, X) IN eqw + x <= f /\ base + x >= thr
RSPossible(t, w, S, b) == RSPossibleSup(w, S, RSSupp(t, S, b))
(* a block nobody has voted for yet (e.g. a child of the GHOST not seen)   *)
RSPossibleUnseen(w, S) == RSPossibleSup(w, S, RSEquiv(S))

(* the paper's closed form (stated for n = 3f+1): impossible iff at least  *)
(* a threshold of voters vote for a block not >= B or equivocate           *)
RSImpossiblePaper(t, w, S, b) ==
  VFSum(w, (RSVoted(S) \ RSSupp(t, S, b)) \cup RSEquiv(S)) >= RSThr(w)

(* the arithmetic used by finality-grandpa (round.go possibleToPrecommit)  *)
RSPossibleArith(t, w, S, b) ==
  LET for == VFSum(w, RSSupp(t, S, b))
      cur == VFSum(w, RSVoted(S))
      add == RSFaulty(w) - VFSum(w, RSEquiv(S))
      rem == RSTotal(w) - cur
      eqv == IF cur - for <= add THEN cur - for ELSE add
  IN for + rem + eqv >= RSThr(w)

(* The precommit-side notions depend on the prevotes only through g(V);    *)
(* the ...G forms take g (0 = nil) so that it is computed once.            *)

(* E: "the last block in the chain with head g(V) for which it is possible *)
(* for C to have a supermajority"                                          *)
RSEstimateG(t, w, g, C) ==
  IF g = 0 THEN 0
  ELSE LET P == {b \in VFAnc(t, g) : RSPossible(t, w, C, b)}
       IN IF P = {} THEN 0 ELSE VFTop(t, P)
RSEstimate(t, w, V, C) == RSEstimateG(t, w, RSGhost(t, w, V), C)

(* finalized in the round: highest block <= g(V) with a precommit          *)
(* supermajority                                                           *)
RSFinalizedG(t, w, g, C) ==
  IF g = 0 THEN 0
  ELSE LET F == VFAnc(t, g) \cap RSSMBlocks(t, w, C)
       IN IF F = {} THEN 0 ELSE VFTop(t, F)
RSFinalized(t, w, V, C) == RSFinalizedG(t, w, RSGhost(t, w, V), C)

(* "If either E < g(V) or it is impossible for C to have a supermajority   *)
(* for any children of g(V), then the round is completable"                *)
RSCompletableG(t, w, g, e, C) ==
  /\ g # 0 /\ e # 0
  /\ \/ e # g
     \/ /\ ~RSPossibleUnseen(w, C)
        /\ \A c \in VFChildren(t, g) : ~RSPossible(t, w, C, c)
RSCompletable(t, w, V, C) ==
  LET g == RSGhost(t, w, V) IN RSCompletableG(t, w, g, RSEstimateG(t, w, g, C), C)

RSUnit(w) == \A v \in DOMAIN w : w[v] = 1

(* when estimate / completability are pinned down by the statement         *)
RSEstPinned(t, w, V, C) ==
  /\ RSTolerant(w, V) /\ RSTolerant(w, C) /\ RSUnit(w)
  /\ \/ RSTotal(w) % 3 = 1
     \/ VFSum(w, RSVoted(C)) >= RSThr(w)

RSObs(t, w, V, C) ==
  LET smV == RSSMBlocks(t, w, V)
      smC == RSSMBlocks(t, w, C)
      g == IF smV = {} THEN 0 ELSE VFTop(t, smV)
      e == RSEstimateG(t, w, g, C)
      finset == IF g = 0 THEN {} ELSE VFAnc(t, g) \cap smC
      tolV == RSTolerant(w, V)
      tolC == RSTolerant(w, C)
  IN
  [ghost    |-> g,
   fin      |-> IF finset = {} THEN 0 ELSE VFTop(t, finset),
   est      |-> e,
   comp     |-> RSCompletableG(t, w, g, e, C),
   pcghost  |-> IF smC = {} THEN 0 ELSE VFTop(t, smC),
   cmpGhost |-> tolV,
   cmpFin   |-> tolV /\ tolC,
   cmpPc    |-> tolC,
   cmpEst   |-> /\ tolV /\ tolC /\ RSUnit(w)
                /\ (RSTotal(w) % 3 = 1 \/ VFSum(w, RSVoted(C)) >= RSThr(w)),
   tolV     |-> tolV,
   tolC     |-> tolC]

=============================================================================
