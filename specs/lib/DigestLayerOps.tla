-------------------------- MODULE DigestLayerOps --------------------------
(***************************************************************************)
(* The header-digest layer between a block and the authority-set machine   *)
(* (C23, dot/digest/block_import.go).  A header carries a SEQUENCE of       *)
(* digest items; the authority-set rules speak of THE change a block        *)
(* announces.  Substrate's check_new_change reduces the sequence to one     *)
(* announcement: the first forced change if there is one, whatever its      *)
(* position, otherwise the first scheduled change.  gossamer gets there in  *)
(* two steps: checkForGRANDPAForcedChanges drops every scheduled change of  *)
(* a block that carries a forced change, then every remaining consensus     *)
(* item is handed to GrandpaState.HandleGRANDPADigest / EpochState in order.*)
(*                                                                         *)
(* Item kinds:  S scheduled change   F forced change   P pause   R resume   *)
(*              D on-disabled   E BABE consensus item (on-disabled)         *)
(*              O non-consensus item (pre-runtime)                          *)
(* Pure operators only (no variables): the module is EXTENDed by the        *)
(* AuthoritySet machine and by nothing stateful.                            *)
(***************************************************************************)
EXTENDS Naturals, Sequences

DlNone == [k |-> "N", d |-> 0, a |-> 0, m |-> 0]
DlItem(t, a) == [t |-> t, k |-> a.k, d |-> a.d, a |-> a.a, m |-> a.m]
DlAnnOf(i) == [k |-> i.k, d |-> i.d, a |-> i.a, m |-> i.m]
DlPlain(t) == DlItem(t, DlNone)

(* a scheduled change that must never take effect: immediate, with an authority list no honest *)
(* announcement of the generator uses                                                            *)
DlDecoy == [k |-> "S", d |-> 0, a |-> 4, m |-> 0]

DlHasForced(items) == \E i \in 1..Len(items) : items[i].t = "F"

(* ---- Substrate: check_new_change ------------------------------------- *)
DlFirst(items, t) ==
  LET I == {i \in 1..Len(items) : items[i].t = t}
  IN IF I = {} THEN DlNone ELSE DlAnnOf(items[CHOOSE i \in I : \A j \in I : i <= j])
DlEffective(items) == IF DlHasForced(items) THEN DlFirst(items, "F") ELSE DlFirst(items, "S")

(* ---- gossamer: checkForGRANDPAForcedChanges, then one call per item --- *)
DlKeep(items) == LET forced == DlHasForced(items)
                     Keep(i) == i.t # "O" /\ ~(forced /\ i.t = "S")
                 IN SelectSeq(items, Keep)
DlIsChange(i) == i.t \in {"S", "F"}
DlGrandpaCalls(items) == LET c == SelectSeq(DlKeep(items), DlIsChange) IN [i \in 1..Len(c) |-> DlAnnOf(c[i])]
DlBabeCalls(items) == LET IsE(i) == i.t = "E" IN Len(SelectSeq(DlKeep(items), IsE))

(* ---- layouts: how the one announcement of an Import is dressed -------- *)
(* (every layout starts with the pre-runtime item BlockState.AddBlock insists on) *)
DlLayouts(k) ==
  CASE k = "N" -> {"bare", "pause", "resume", "disabled", "babe", "pause-resume"}
    [] k = "S" -> {"alone", "after-pause", "before-babe", "after-other", "before-disabled"}
    [] k = "F" -> {"alone", "decoy-first", "decoy-last", "decoy-babe-forced", "forced-pause-decoy", "decoys-around"}

DlLayout(a, l) ==
  LET X == DlItem(a.k, a)  S == DlItem("S", DlDecoy)
      P == DlPlain("P")  R == DlPlain("R")  D == DlPlain("D")  E == DlPlain("E")  O == DlPlain("O")
  IN CASE l = "bare" -> <<O>>
       [] l = "pause" -> <<O, P>>
       [] l = "resume" -> <<O, R>>
       [] l = "disabled" -> <<O, D>>
       [] l = "babe" -> <<O, E>>
       [] l = "pause-resume" -> <<O, P, R>>
       [] l = "alone" -> <<O, X>>
       [] l = "after-pause" -> <<O, P, X>>
       [] l = "before-babe" -> <<O, X, E>>
       [] l = "after-other" -> <<O, O, X>>
       [] l = "before-disabled" -> <<O, X, D, O>>
       [] l = "decoy-first" -> <<O, S, X>>
       [] l = "decoy-last" -> <<O, X, S>>
       [] l = "decoy-babe-forced" -> <<O, S, E, X>>
       [] l = "forced-pause-decoy" -> <<O, X, P, S>>
       [] l = "decoys-around" -> <<O, S, X, S>>

(* The law that lets the authority-set machine speak of one announcement per block: whatever the   *)
(* layout, the calls that reach GrandpaState are exactly Substrate's effective announcement, and   *)
(* every BABE consensus item reaches the epoch state.                                              *)
DlLayoutLaw(a) ==
  \A l \in DlLayouts(a.k) :
     LET items == DlLayout(a, l)
         IsE(i) == i.t = "E"
     IN /\ DlEffective(items) = a
        /\ DlGrandpaCalls(items) = IF a.k = "N" THEN <<>> ELSE <<a>>
        /\ DlBabeCalls(items) = Len(SelectSeq(items, IsE))
=============================================================================
