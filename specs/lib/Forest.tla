------------------------------- MODULE Forest -------------------------------
(***************************************************************************)
(* Pure operators on block forests (shared by BlockTree / Finality /       *)
(* EpochData; other families may EXTEND it).                               *)
(*                                                                         *)
(* A forest is a PARENT FUNCTION  par : Blocks -> Int  whose DOMAIN is the *)
(* set of blocks.  A block whose parent is not in the domain is a root     *)
(* (genesis has parent NoBlock; after a finalisation the new root keeps    *)
(* its parent link, which then points outside the domain).  Block ids are  *)
(* integers.  Every operator is total on well-formed forests (FIsForest).  *)
(* All names start with F to stay clear of the CommunityModules.           *)
(***************************************************************************)
EXTENDS Integers, Sequences, FiniteSets

NoBlock == -1

FBlocks(par) == DOMAIN par
FIsRoot(par, b) == b \in DOMAIN par /\ par[b] \notin DOMAIN par
FRoots(par) == {b \in DOMAIN par : par[b] \notin DOMAIN par}
FChildren(par, b) == {c \in DOMAIN par : par[c] = b}
FLeaves(par) == {b \in DOMAIN par : FChildren(par, b) = {}}

(* b and the blocks reached from it over at most fuel parent links (total  *)
(* even on a cyclic par; used to state well-formedness)                    *)
RECURSIVE FReach(_, _, _)
FReach(par, b, fuel) ==
  IF b \notin DOMAIN par \/ fuel = 0 THEN {}
  ELSE {b} \cup FReach(par, par[b], fuel - 1)

(* well-formed: following parent links from any block reaches a root       *)
FIsForest(par) ==
  \A b \in DOMAIN par :
    \E a \in FReach(par, b, Cardinality(DOMAIN par)) : par[a] \notin DOMAIN par
FIsTree(par) == FIsForest(par) /\ Cardinality(FRoots(par)) = 1

(* ancestry: ancestors-or-self, strict ancestors, descendants              *)
RECURSIVE FAncSelf(_, _)
FAncSelf(par, b) == IF b \notin DOMAIN par THEN {} ELSE {b} \cup FAncSelf(par, par[b])
FAnc(par, b) == FAncSelf(par, b) \ {b}
FIsAncSelf(par, a, b) == a \in FAncSelf(par, b)           \* a is b or an ancestor of b
FDescSelf(par, a) == {b \in DOMAIN par : a \in FAncSelf(par, b)}
FDesc(par, a) == FDescSelf(par, a) \ {a}
FRootOf(par, b) == CHOOSE r \in FAncSelf(par, b) : par[r] \notin DOMAIN par

(* number of parent links between b and the root of its tree               *)
FDepth(par, b) == Cardinality(FAncSelf(par, b)) - 1
FAtDepth(par, d) == {b \in DOMAIN par : FDepth(par, b) = d}
FHeight(par) == IF DOMAIN par = {} THEN 0
                ELSE CHOOSE d \in 0..Cardinality(DOMAIN par) :
                       /\ FAtDepth(par, d) # {}
                       /\ \A b \in DOMAIN par : FDepth(par, b) <= d
(* the ancestor-or-self of b at depth d, NoBlock if b is shallower         *)
FAncAtDepth(par, b, d) ==
  LET A == {a \in FAncSelf(par, b) : FDepth(par, a) = d}
  IN IF A = {} THEN NoBlock ELSE CHOOSE a \in A : TRUE

(* lowest common ancestor: the deepest block that is an ancestor-or-self   *)
(* of both; NoBlock when a and b are in different trees                    *)
FLCA(par, a, b) ==
  LET C == FAncSelf(par, a) \cap FAncSelf(par, b)
  IN IF C = {} THEN NoBlock
     ELSE CHOOSE c \in C : \A d \in C : FDepth(par, d) <= FDepth(par, c)

(* the chain a .. b (both inclusive, ascending) when a is an               *)
(* ancestor-or-self of b; <<>> otherwise                                   *)
RECURSIVE FPathUp(_, _, _)
FPathUp(par, a, b) == IF a = b THEN <<a>> ELSE Append(FPathUp(par, a, par[b]), b)
FPath(par, a, b) == IF a \in FAncSelf(par, b) THEN FPathUp(par, a, b) ELSE <<>>

(* restriction of a forest to a set of blocks (parent links are kept, so   *)
(* blocks whose parent is dropped become roots)                            *)
FSub(par, S) == [b \in S \cap DOMAIN par |-> par[b]]
FAddBlock(par, b, p) == [x \in DOMAIN par \cup {b} |-> IF x = b THEN p ELSE par[x]]

(* the blocks that finalising f abandons: neither ancestors nor            *)
(* descendants of f (nor f)                                                *)
FAbandoned(par, f) == DOMAIN par \ (FAncSelf(par, f) \cup FDescSelf(par, f))

(* ascending sequence of a finite set of integers                          *)
RECURSIVE FSorted(_)
FSorted(S) == IF S = {} THEN <<>>
              ELSE LET mn == CHOOSE x \in S : \A y \in S : x <= y
                   IN <<mn>> \o FSorted(S \ {mn})
FSeqSet(s) == {s[i] : i \in 1..Len(s)}

(* parent-first orders: sequences without repetition over all blocks in    *)
(* which every non-root block comes after its parent                       *)
FIsParentFirst(par, s) ==
  /\ FSeqSet(s) = DOMAIN par /\ Len(s) = Cardinality(DOMAIN par)
  /\ \A i \in 1..Len(s) : par[s[i]] \in DOMAIN par => \E j \in 1..(i - 1) : s[j] = par[s[i]]
FParentFirstOrders(par) ==
  {s \in [1..Cardinality(DOMAIN par) -> DOMAIN par] : FIsParentFirst(par, s)}

(* every tree over blocks 0..n with root 0 whose parents have smaller ids  *)
(* (= every tree shape together with every parent-first insertion order)   *)
FIncreasingTrees(n) ==
  {[b \in 0..n |-> IF b = 0 THEN NoBlock ELSE f[b]] : f \in {g \in [1..n -> 0..(n - 1)] : \A i \in 1..n : g[i] < i}}
=============================================================================
