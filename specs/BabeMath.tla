------------------------------ MODULE BabeMath ------------------------------
(***************************************************************************)
(* C25  BABE lottery arithmetic matches the specification  (partial).      *)
(*                                                                         *)
(* Property text (properties.jsonl, C25):                                  *)
(*  (S1) "For every ratio c = c1/c2 in (0,1] and authority count n >= 1,   *)
(*        the primary-slot threshold equals                                *)
(*        floor(2^128 * (1 - (1 - c)^(1/n))) computed as Substrate         *)
(*        computes it,"                                                    *)
(*  (S2) "saturating at the maximum when c = 1,"                           *)
(*  (S3) "and it is monotone in c."                                        *)
(*  (S4) "For every randomness and slot, the secondary-slot author index   *)
(*        equals the big-endian BLAKE2b-256 of (randomness || slot as u64  *)
(*        LE) modulo n."                                                   *)
(*                                                                         *)
(* What is specified here, over exact naturals (module BabeNat):           *)
(*  ThresholdOK  (S1) without an n-th root: with A = 2^W - T and a         *)
(*               tolerance E,                                              *)
(*                  c2*(A-E)^n <= (c2-c1)*2^(W*n) <= c2*(A+E)^n            *)
(*               which says |A - 2^W*(1-c)^(1/n)| <= E.                    *)
(*               "as Substrate computes it" is IEEE double arithmetic      *)
(*               (c = c1/c2, 1-c, powf(1-c, 1/n), 1-x); E bounds its       *)
(*               error for c1 <= c2 < 2^31 (exact conversions): 1-fl(c) is *)
(*               within 2^-52 of 1-c; x |-> x^(1/n) has derivative         *)
(*               (1/n) x^(1/n-1) <= 1/x on (0,1], so that error grows to   *)
(*               at most 2^-52/(1-c); exp(log(x)/n) adds at most           *)
(*               2^-52*(|ln(1-c)|+2) <= 2^-52*(1/(1-c)+2) relative, the    *)
(*               rounding of 1/n at most 2^-49, the final 1-x 2^-54.       *)
(*               With q = ceil(c2/(c2-c1)) >= 1/(1-c) the sum is below     *)
(*               2^-50*q + 2^-47, hence                                    *)
(*                  Tol = 2^(W-47) + 2^(W-50)*q      (W = 128).            *)
(*               For ordinary c (q small) this still decides everything    *)
(*               coarser than 2^-43 relative.  This is why the property is *)
(*               checked PARTIALLY: the last ~47 bits of the 128 are not   *)
(*               pinned by any TLA+ definition.                            *)
(*  Saturated    (S2) c1 = c2 => T = 2^W - 1.                              *)
(*  Monotone     (S3) c <= c' (cross multiplication) => T <= T' for equal  *)
(*               n; in particular equal ratios give equal thresholds.      *)
(*  SecondaryIdx (S4) idx = BE(digest) mod n with digest the BLAKE2b-256   *)
(*               token H(randomness \o LE8(slot)); the hash itself is      *)
(*               resolved by the Go side with x/crypto/blake2b.            *)
(***************************************************************************)
EXTENDS BabeNat, TLC

(* 2^k as a BabeNat number (square and double; any NatBase > 2)            *)
RECURSIVE BmPow2(_)
BmPow2(k) == IF k = 0 THEN <<1>>
             ELSE IF k % 2 = 0 THEN LET h == BmPow2(k \div 2) IN BnMul(h, h)
             ELSE BnMulDigit(BmPow2(k - 1), 2)

(* TLC integer (< 2^31) to BabeNat *)
BmN(k) == BnFromInt(k)

(* tolerance on A = 2^W - T, see header *)
BmTol(c1, c2, W) ==
  LET q == (c2 + (c2 - c1) - 1) \div (c2 - c1)      \* ceil(c2 / (c2-c1)), c1 < c2
  IN BnAdd(BmPow2(W - 47), BnMul(BmPow2(W - 50), BmN(q)))

(* (S1) T is a BabeNat number, c1 < c2, n >= 1, E a BabeNat tolerance *)
BmBracket(c1, c2, n, T, W, E) ==
  LET two  == BmPow2(W)
      A    == BnSub(two, T)
      lo   == BnMonus(A, E)
      hi   == BnAdd(A, E)
      mid  == BnMul(BmN(c2 - c1), BnPow(two, n))
  IN /\ BnLe(T, two)
     /\ BnLe(BnMul(BmN(c2), BnPow(lo, n)), mid)
     /\ BnLe(mid, BnMul(BmN(c2), BnPow(hi, n)))

(* (S2) *)
BmMaxT(W) == BnSub(BmPow2(W), <<1>>)
BmSaturated(T, W) == T = BmMaxT(W)

(* (S1)+(S2) for one logged result *)
BmThresholdOK(c1, c2, n, T, W) ==
  /\ BnIsNat(T)
  /\ BnLe(T, BmMaxT(W))
  /\ IF c1 = c2 THEN BmSaturated(T, W)
     ELSE BmBracket(c1, c2, n, T, W, BmTol(c1, c2, W))

(* (S3) c1/c2 <= d1/d2 by cross multiplication (exact) *)
BmRatioLe(c1, c2, d1, d2) == BnLe(BnMul(BmN(c1), BmN(d2)), BnMul(BmN(d1), BmN(c2)))
BmMonotonePair(r, s) ==   \* r, s : [c1, c2, n, t]
  (r.n = s.n) =>
    /\ BmRatioLe(r.c1, r.c2, s.c1, s.c2) => BnLe(r.t, s.t)
    /\ BmRatioLe(s.c1, s.c2, r.c1, r.c2) => BnLe(s.t, r.t)

(* (S4) u64 slot given as four 16-bit limbs, least significant first *)
BmSlotLE8(limbs) ==
  << limbs[1] % 256, limbs[1] \div 256, limbs[2] % 256, limbs[2] \div 256,
     limbs[3] % 256, limbs[3] \div 256, limbs[4] % 256, limbs[4] \div 256 >>
(* the hashed input and its BLAKE2b-256 token (token convention of Bytes.tla: <<-1, len>> \o s) *)
BmSecPreimage(rnd, limbs) == rnd \o BmSlotLE8(limbs)
BmSecToken(rnd, limbs) == <<-1, Len(BmSecPreimage(rnd, limbs))>> \o BmSecPreimage(rnd, limbs)
BmSecondaryIdx(digest, n) == BnBytesBEMod(digest, n)
=============================================================================
