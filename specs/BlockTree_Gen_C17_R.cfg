SPECIFICATION SpecRand
CONSTANTS
  MaxAdd = 9
  Prims <- BothPrims
  Arrivals <- TwoArrivals
  HashRank <- GHashRank
  FreeIds = FALSE
  OpKinds <- AllKinds
  PhaseAdds = 0
  ObsKind = "state"
  Depth = 14
INVARIANT Dump
CHECK_DEADLOCK FALSE
