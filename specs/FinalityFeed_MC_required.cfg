SPECIFICATION Spec
CONSTANTS
  N = 5
  Cap = 2
  Mode = "required"
INVARIANTS InOrderNoLoss NoDuplicates OnlyIssued ChanBound Accounted OutcomePossible
PROPERTY Eventually
CHECK_DEADLOCK FALSE
