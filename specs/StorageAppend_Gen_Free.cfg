SPECIFICATION SpecRand
CONSTANTS
  Olds <- AllOlds
  Items <- AllItems
  Shape = "free"
  Depth = 12
INVARIANT Dump
CHECK_DEADLOCK FALSE
