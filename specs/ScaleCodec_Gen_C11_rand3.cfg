SPECIFICATION SpecRand
CONSTANTS
  Types <- LeafSet
  CaseKinds <- OnlyRt
  Depth = 20
  RandDepth = 3
INVARIANT Dump
CHECK_DEADLOCK FALSE
