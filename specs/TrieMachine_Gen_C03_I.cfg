SPECIFICATION SpecRand
CONSTANTS
  Keys <- IKeys
  Vals <- IVals
  Prefixes <- IPrefixes
  Limits <- SLimits
  OpKinds <- AllKinds
  FreezeParents = TRUE
  MaxHandles = 4
  Depth = 24
INVARIANT Dump
CHECK_DEADLOCK FALSE
