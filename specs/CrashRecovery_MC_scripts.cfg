SPECIFICATION CSpecAll
CONSTANTS
  MaxBlocks = 8
  MaxAnn = 4
  Anns <- CAnns
  Depth = 10
  Record = FALSE
  Policy = "required"
  Scripts <- AllScripts
INVARIANTS AlwaysRecoverable QuiescentAgrees
VIEW CView
CHECK_DEADLOCK FALSE
