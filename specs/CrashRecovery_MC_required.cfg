SPECIFICATION CSpecAll
CONSTANTS
  MaxBlocks = 3
  MaxAnn = 2
  Anns <- CAnns
  Depth = 4
  Record = FALSE
  Policy = "required"
  Scripts = {}
INVARIANTS AlwaysRecoverable QuiescentAgrees
VIEW CView
CHECK_DEADLOCK FALSE
