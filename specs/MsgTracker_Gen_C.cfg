SPECIFICATION SpecRand
CONSTANTS
  Blocks = {1, 2, 3, 4, 5}
  Auths = {0}
  Cap = 3
  Depth = 40
INVARIANT Dump
CHECK_DEADLOCK FALSE
