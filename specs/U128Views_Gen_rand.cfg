SPECIFICATION SpecRand
CONSTANTS
  Depth = 25
  Universe = "cover"
  ByteVals <- BV
INVARIANT Dump
CHECK_DEADLOCK FALSE
