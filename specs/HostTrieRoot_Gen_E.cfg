SPECIFICATION SpecAll
CONSTANTS
  Keys <- EKeys
  Vals <- DVals
  Lens <- DLens
  LongLens = {}
  Versions <- DVersions
  Damages = {"none"}
  Depth = 1
INVARIANT Dump
CHECK_DEADLOCK FALSE
