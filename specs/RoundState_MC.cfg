SPECIFICATION SpecAll
CONSTANTS
  Trees <- MTrees3
  Voters = {a, b, c, d}
  W <- UnitW
  MaxPV = 2
  MaxPC = 2
  Depth = 0
SYMMETRY Sym
INVARIANTS TypeOK ChainWhenTolerant PaperThreshold PossibleForms Ordering ShortcutExact UnseenImpossible
PROPERTY Monotone
VIEW View
CHECK_DEADLOCK FALSE
