SPECIFICATION SpecAll
CONSTANTS
  Trees <- MTrees
  Ns <- N13
  Sigs <- CSigs
  MaxEntries = 2
  CasesPerBehaviour = 0
INVARIANTS SafetyCore InvalidIgnored Bounded ImplWeaker
PROPERTY Monotone
VIEW View
CHECK_DEADLOCK FALSE
