------------------------- MODULE BlockRequests_Trace -------------------------
(***************************************************************************)
(* C31, engine V for the planning sentence.  plans.ndjson holds one line   *)
(* per call of the real messages.NewAscendingBlockRequests:                *)
(*   {"base","a","b","rs":[{"s","m"},...],"note"}                          *)
(* (a, b and the request starts s are relative to the decimal string base, *)
(* because TLC integers are 32-bit; IsPlan is translation invariant).      *)
(* TLC evaluates the statement's predicate IsPlan on every line.  A line   *)
(* that is not a plan cannot be consumed (the trace is rejected there) and *)
(* is reported as <<"VERIF-BAD", {"line","sig","why"}>> with the           *)
(* classifier PlanDefect for diagnosis.                                    *)
(***************************************************************************)
EXTENDS BlockRequestsOps

Trace == ndJsonDeserialize("plans.ndjson")

VARIABLE l
tvars == <<l>>

Report(i, sig, why) == PrintT(<<"VERIF-BAD", ToJson([line |-> i, sig |-> sig, why |-> why])>>)

Check(i) ==
  LET e == Trace[i] IN
  IF e.note # "" THEN Report(i, "C31/Plan/malformed-request", e.note) /\ FALSE
  ELSE IF IsPlan(e.a, e.b, e.rs) THEN TRUE
  ELSE Report(i, "C31/Plan/" \o PlanDefect(e.a, e.b, e.rs), "IsPlan is false") /\ FALSE

TInit == l = 1 /\ TLCSet(1, 1) /\ PrintT(<<"VERIF-FAMILY", "BlockRequestsPlans">>)
TNext == l <= Len(Trace) /\ Check(l) /\ l' = l + 1
TraceSpec == TInit /\ [][TNext]_tvars

HighWater == TLCSet(1, IF l > TLCGet(1) THEN l ELSE TLCGet(1))
Accepted == PrintT(<<"VERIF-TRACE", TLCGet(1) - 1, Len(Trace)>>)
=============================================================================
