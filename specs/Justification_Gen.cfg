SPECIFICATION SpecRand
CONSTANTS
  Trees <- GTrees
  VoterLists <- GLists
  Ids <- GIds
  Sigs <- JSigs
  MaxEntries = 6
  CasesPerBehaviour = 40
INVARIANT Dump
CHECK_DEADLOCK FALSE
