SPECIFICATION SpecRand
CONSTANTS
  MaxBlock = 6
  ChangeAt = 2
  Depth = 12
INVARIANT Dump
CHECK_DEADLOCK FALSE
