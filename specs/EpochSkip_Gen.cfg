SPECIFICATION SpecRand
CONSTANTS
  MaxAdd = 7
  MaxEpoch = 5
  MaxSkip = 2
  Depth = 9
INVARIANT Dump
CHECK_DEADLOCK FALSE
