-------------------------- MODULE CommitAccept_Gen --------------------------
EXTENDS CommitAccept
CSigs == {"ok", "badsig", "wronground", "wrongset"}
(* ancestor / target / child / sibling, and a few more shapes *)
CTrees == { <<0, 1, 2, 2>>, <<0, 1, 2, 3>>, <<0, 1, 1, 2, 2>>, <<0, 1>>, <<0>>, <<0, 1, 2, 3, 2, 5>> }
MTrees == { <<0, 1, 2, 2>> }
N14 == 1..4
N17 == 1..7
N13 == 1..3
=============================================================================
