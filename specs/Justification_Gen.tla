-------------------------- MODULE Justification_Gen --------------------------
(* Constants for model checking and case generation of Justification (C19). *)
EXTENDS Justification

JSigs == {"ok", "bad"}

(* voter lists: unit weights; an id listed twice (adjacent / apart); mixed *)
(* weights; a single voter; seven voters                                    *)
L3 == << <<1, 1>>, <<2, 1>>, <<3, 1>> >>
L4 == << <<1, 1>>, <<2, 1>>, <<3, 1>>, <<4, 1>> >>
LDupAdj == << <<1, 1>>, <<1, 2>>, <<2, 1>> >>
LDupApart == << <<1, 2>>, <<2, 1>>, <<3, 1>>, <<1, 1>>, <<4, 2>> >>
LMixed == << <<1, 3>>, <<2, 2>>, <<3, 1>>, <<4, 1>> >>
L1 == << <<1, 1>> >>
L7 == << <<1, 1>>, <<2, 1>>, <<3, 1>>, <<4, 1>>, <<5, 1>>, <<6, 1>>, <<7, 1>> >>
GLists == {L3, L4, LDupAdj, LDupApart, LMixed, L1, L7}
GIds == 1..8          \* 8 is never a member; 4..7 are members of some lists only

GTrees == UNION {VFAllTrees(n) : n \in 1..5}
           \cup { <<0, 1, 2, 3, 4, 3, 6>>, <<0, 1, 1, 2, 3, 4, 5>>, <<0, 1, 2, 3, 4, 5>> }
           \cup {t \in VFAllTrees(6) : Cardinality({b \in VFBlocks(t) : VFChildren(t, b) = {}}) >= 3}

(* model checking: small scope, exhaustive *)
MTrees == { <<0, 1, 2, 2>>, <<0, 1, 1>> }
MLists == { L3, LDupAdj }
MIds == {1, 2, 3, 8}
MLists4 == { L4, LDupAdj, LMixed }
MIds4 == {1, 2, 3, 4, 8}
=============================================================================
