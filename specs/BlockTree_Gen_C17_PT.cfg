SPECIFICATION SpecPhased
CONSTANTS
  MaxAdd = 5
  Prims <- NoPrims
  Arrivals <- OneArrival
  HashRank <- GHashRank
  FreeIds = FALSE
  OpKinds <- StructKinds
  PhaseAdds = 5
  ObsKind = "state"
  Depth = 6
INVARIANT Dump
CHECK_DEADLOCK FALSE
