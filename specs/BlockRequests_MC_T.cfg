SPECIFICATION Spec
CONSTANTS
  PlanRows <- AllRows
  MaxH = 330
  MaxBlocks = 5
  Maxes <- MCMaxes
  FieldMasks <- MCMasks
INVARIANTS PlanCorrect PlanSharp ServeSound ServeTotal
CHECK_DEADLOCK FALSE
