SPECIFICATION Spec
CONSTANTS
  PlanRows <- AllRows
  MaxH = 400
  MaxBlocks = 5
  Maxes <- MCMaxes
  FieldMasks <- MCMasks
INVARIANTS PlanCorrect PlanSharp ServeSound ServeTotal
CHECK_DEADLOCK FALSE
