SPECIFICATION CtSpecRand
CONSTANTS
  Types <- NoTypes
  CaseKinds <- OnlyDec
  Depth = 40
  RandDepth = 1
  TyNames <- C14AllNames
INVARIANT Dump
CHECK_DEADLOCK FALSE
