SPECIFICATION SpecAll
CONSTANTS
  Trees <- MTrees
  VoterLists <- MLists
  Ids <- MIds
  Sigs <- JSigs
  MaxEntries = 2
  CasesPerBehaviour = 0
INVARIANTS SafetyCore Nested WeightsSummed InvalidIgnored CompleteShape
PROPERTY Monotone
VIEW View
CHECK_DEADLOCK FALSE
