SPECIFICATION SpecRand
CONSTANTS
  Trees <- CTrees
  Ns <- N17
  Sigs <- CSigs
  MaxEntries = 9
  CasesPerBehaviour = 40
INVARIANT Dump
CHECK_DEADLOCK FALSE
