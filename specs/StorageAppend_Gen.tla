------------------------- MODULE StorageAppend_Gen -------------------------
(* Catalogue of stored values for StorageAppend (C09).                      *)
EXTENDS StorageAppend

Prefixes0 == { <<0>>, <<4>>, <<248>>, <<252>> }                                   \* 0, 1, 62, 63
Prefixes1 == { <<1, 1>>, <<5, 1>>, <<249, 255>>, <<253, 255>>,                   \* 64, 65, 16382, 16383
               <<1, 0>>, <<253, 0>>, <<5, 0>>,                                   \* non-canonical 0, 63, 1
               <<253, 1>>, <<9, 2>> }                                            \* carry into the second byte, asymmetric
Prefixes2 == { <<2, 0, 1, 0>>, <<6, 0, 1, 0>>, <<250, 255, 255, 255>>, <<254, 255, 255, 255>>,   \* 16384, 16385, 2^30-2, 2^30-1
               <<2, 0, 0, 0>>, <<254, 255, 0, 0>>, <<6, 0, 0, 0>>,               \* non-canonical 0, 16383, 1
               <<6, 3, 2, 1>>, <<254, 255, 2, 1>>, <<254, 255, 255, 1>> }         \* asymmetric, carries across one and two bytes
Prefixes3 == { <<3, 0, 0, 0, 64>>, <<3, 255, 255, 255, 127>>, <<3, 0, 0, 0, 128>>,   \* 2^30, 2^31-1, 2^31
               <<3, 254, 255, 255, 255>>, <<3, 255, 255, 255, 255>>,             \* 2^32-2, 2^32-1 (n + 1 does not fit)
               <<3, 0, 0, 0, 0>>, <<3, 255, 255, 255, 63>>, <<3, 1, 0, 0, 0>>,   \* non-canonical 0, 2^30-1, 1
               <<7, 0, 0, 0, 0, 1>>, <<7, 1, 0, 0, 0, 0>>, <<11, 0, 0, 0, 0, 0, 1>>,   \* big-integer mode with 5, 6 bytes
               <<19, 1, 0, 0, 0, 0, 0, 0, 0>>, <<255>> \o Rep(67, 1),            \* 8 and 67 bytes
               (* asymmetric byte patterns (every byte position distinguishable) and carries across bytes (seed C09c) *)
               <<3, 255, 0, 0, 64>>, <<3, 255, 255, 0, 64>>, <<3, 119, 86, 52, 82>>, <<3, 238, 205, 171, 137>>,
               <<3, 255, 255, 255, 64>>, <<3, 1, 2, 3, 64>> }
Truncated == { <<1>>, <<253>>, <<2>>, <<2, 0>>, <<2, 0, 1>>, <<3>>, <<3, 0>>, <<3, 0, 0, 0>>, <<7, 0, 0, 0, 0>>, <<255, 1, 1>> }
Payloads == { <<>>, <<9>>, <<9, 8, 7>> }

Whole == Prefixes0 \cup Prefixes1 \cup Prefixes2 \cup Prefixes3
AllOlds == {[present |-> FALSE, v |-> <<>>], [present |-> TRUE, v |-> <<>>]}
           \cup {[present |-> TRUE, v |-> p \o t] : p \in Whole, t \in Payloads}
           \cup {[present |-> TRUE, v |-> p] : p \in Truncated}
AllItems == { <<>>, <<5>>, <<5, 6, 7>> }

(* quick model checking uses the same catalogue with two payloads *)
MOlds == {[present |-> FALSE, v |-> <<>>], [present |-> TRUE, v |-> <<>>]}
         \cup {[present |-> TRUE, v |-> p \o t] : p \in Whole, t \in { <<>>, <<9, 8>> }}
         \cup {[present |-> TRUE, v |-> p] : p \in Truncated}
MItems == { <<>>, <<5, 6>> }
=============================================================================
