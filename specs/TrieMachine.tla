---------------------------- MODULE TrieMachine ----------------------------
(***************************************************************************)
(* State machine behind C01 (state root), C02 (ordered byte-string map)    *)
(* and C03 (snapshot isolation) for the in-memory trie                     *)
(* (pkg/trie/inmemory).                                                    *)
(*                                                                         *)
(* State: a sequence of handles, each an independent VALUE [m, v1]: a map  *)
(* from byte-string keys to byte-string values and a state version.        *)
(* Snapshot(h) appends a copy.  Every mutating action touches exactly one  *)
(* handle -- that IS snapshot isolation (C03); the content of C03 is in    *)
(* the binding, which compares root and entries of EVERY handle after      *)
(* every step against this specification.                                  *)
(*                                                                         *)
(* One action per public call of InMemoryTrie.  Results are part of the    *)
(* step (field res of the history record), so the conformance harness      *)
(* compares every return value as well as the state.                       *)
(***************************************************************************)
EXTENDS TrieSpec, TLC, Json

CONSTANTS Keys,        \* finite set of byte-string keys
          Vals,        \* finite set of byte-string values
          Prefixes,    \* finite set of byte strings used as prefixes / probe keys
          MaxHandles,  \* bound on the number of snapshots
          Depth,       \* behaviour length (generator)
          Limits,      \* set of limits tried for ClearPrefixLimit
          OpKinds,     \* operation names enabled in this configuration
          FreezeParents \* TRUE: a handle is not mutated after a snapshot was taken from it

VARIABLES tries,  \* sequence of [m |-> map, v1 |-> BOOLEAN, mixed |-> BOOLEAN]
          hist,   \* generator only: sequence of [op.., res, obs]
          done    \* generator only

vars == <<tries, hist, done>>

--------------------------------------------------------------------------
(* ---- the ordered map (C02) ------------------------------------------- *)

Matching(m, p) == {k \in DOMAIN m : IsPrefixOf(p, k)}

Restr(m, K) == [k \in K |-> m[k]]

MapPut(m, k, v) == [x \in DOMAIN m \cup {k} |-> IF x = k THEN v ELSE m[x]]
MapDel(m, k) == Restr(m, DOMAIN m \ {k})
MapClearPrefix(m, p) == Restr(m, DOMAIN m \ Matching(m, p))

(* the n lexicographically smallest elements of S *)
RECURSIVE Smallest(_, _)
Smallest(S, n) == IF n = 0 \/ S = {} THEN {}
                  ELSE LET x == LeastOf(S) IN {x} \cup Smallest(S \ {x}, n - 1)

MapClearPrefixLimit(m, p, n) == Restr(m, DOMAIN m \ Smallest(Matching(m, p), n))

ResGet(m, k) == IF k \in DOMAIN m THEN [found |-> TRUE, v |-> m[k]] ELSE [found |-> FALSE, v |-> <<>>]
ResNextKey(m, k) ==
  LET G == {x \in DOMAIN m : LexLess(k, x)}
  IN IF G = {} THEN [found |-> FALSE, k |-> <<>>] ELSE [found |-> TRUE, k |-> LeastOf(G)]
ResKeys(m, p) == SortedSeq(Matching(m, p))
ResClearLimit(m, p, n) ==
  LET M == Matching(m, p)
      c == Cardinality(M)
  IN [deleted |-> IF n < c THEN n ELSE c, allDeleted |-> n >= c]

Entries(m) == LET ks == SortedSeq(DOMAIN m) IN [i \in 1..Len(ks) |-> <<ks[i], m[ks[i]]>>]

--------------------------------------------------------------------------
(* ---- operations ------------------------------------------------------- *)

H0 == 1..Len(tries)
(* handles that may be mutated.  gossamer's contract (dot/state: the cached  *)
(* parent state is never written after TrieState() snapshots it) is the      *)
(* FreezeParents = TRUE configuration; FALSE explores the literal statement. *)
HM == IF FreezeParents THEN {h \in H0 : ~tries[h].frozen} ELSE H0
Probe == Keys \cup Prefixes

MutOps ==
       {[op |-> "Put", h |-> h, k |-> k, v |-> v] : h \in HM, k \in Keys, v \in Vals}
  \cup {[op |-> "Delete", h |-> h, k |-> k] : h \in HM, k \in Probe}
  \cup {[op |-> "ClearPrefix", h |-> h, p |-> p] : h \in HM, p \in Prefixes}
  \cup {[op |-> "ClearPrefixLimit", h |-> h, p |-> p, n |-> n] : h \in HM, p \in Prefixes, n \in Limits}
  \cup {[op |-> "SetVersion", h |-> h] : h \in {x \in HM : ~tries[x].v1}}
  \cup {[op |-> "Snapshot", h |-> h] : h \in {x \in H0 : Len(tries) < MaxHandles}}

ReadOps ==
       {[op |-> "Get", h |-> h, k |-> k] : h \in H0, k \in Probe}
  \cup {[op |-> "NextKey", h |-> h, k |-> k] : h \in H0, k \in Probe}
  \cup {[op |-> "KeysWithPrefix", h |-> h, p |-> p] : h \in H0, p \in Prefixes}

Ops == {o \in MutOps \cup ReadOps : o.op \in OpKinds}

(* UnspecifiedMigrationRoot: raising the version of a state that already    *)
(* holds values longer than 32 bytes leaves old nodes inlined until they    *)
(* are rewritten (Substrate migrates lazily); the root of such a handle is  *)
(* history dependent and deliberately NOT part of the observation.          *)
HasLong(m) == \E k \in DOMAIN m : Len(m[k]) > 32

(* new value of tries after o *)
Apply(o) ==
  LET t == tries[o.h] IN
  CASE o.op = "Put" -> [tries EXCEPT ![o.h].m = MapPut(t.m, o.k, o.v)]
    [] o.op = "Delete" -> [tries EXCEPT ![o.h].m = MapDel(t.m, o.k)]
    [] o.op = "ClearPrefix" -> [tries EXCEPT ![o.h].m = MapClearPrefix(t.m, o.p)]
    [] o.op = "ClearPrefixLimit" -> [tries EXCEPT ![o.h].m = MapClearPrefixLimit(t.m, o.p, o.n)]
    [] o.op = "SetVersion" -> [tries EXCEPT ![o.h].v1 = TRUE, ![o.h].mixed = t.mixed \/ HasLong(t.m)]
    [] o.op = "Snapshot" -> Append([tries EXCEPT ![o.h].frozen = TRUE], [t EXCEPT !.frozen = FALSE])
    [] OTHER -> tries

(* the value the call returns, as a function of the state BEFORE it *)
Result(o) ==
  LET m == tries[o.h].m IN
  CASE o.op = "Get" -> ResGet(m, o.k)
    [] o.op = "NextKey" -> ResNextKey(m, o.k)
    [] o.op = "KeysWithPrefix" -> [keys |-> ResKeys(m, o.p)]
    [] o.op = "ClearPrefixLimit" -> ResClearLimit(m, o.p, o.n)
    [] OTHER -> [none |-> TRUE]

(* what is observable after the step, for every handle *)
Obs(ts) == [i \in 1..Len(ts) |-> [root |-> IF ts[i].mixed THEN <<>> ELSE Root(ts[i].m, ts[i].v1),
                                 v1 |-> ts[i].v1, entries |-> Entries(ts[i].m)]]

Step(o) ==
  /\ ~done
  /\ Len(hist) < Depth
  /\ tries' = Apply(o)
  /\ hist' = Append(hist, [o |-> o, res |-> Result(o), obs |-> Obs(tries')])
  /\ UNCHANGED done

Finish == /\ ~done /\ Len(hist) = Depth /\ done' = TRUE /\ UNCHANGED <<tries, hist>>

Init == /\ tries = <<[m |-> EmptyMap, v1 |-> FALSE, mixed |-> FALSE, frozen |-> FALSE]>>
        /\ hist = <<>>
        /\ done = FALSE

(* exhaustive: every operation is a successor *)
NextAll == (\E o \in Ops : Step(o)) \/ Finish
(* generator: one randomly chosen operation per step (single successor);   *)
(* the kind is drawn first (weighted), then uniformly among its instances  *)
Weighted == <<"Put", "Put", "Put", "Put", "Put", "Delete", "Delete", "ClearPrefix", "ClearPrefixLimit",
              "ClearPrefixLimit", "SetVersion", "Snapshot", "Get", "NextKey", "KeysWithPrefix">>
PickOp ==
  LET kinds == {i \in 1..Len(Weighted) : Weighted[i] \in OpKinds}
      kd == Weighted[RandomElement(kinds)]
      cand == {o \in Ops : o.op = kd}
  IN IF cand = {} THEN RandomElement(Ops) ELSE RandomElement(cand)
NextRand == (\E o \in {PickOp} : Step(o)) \/ Finish

SpecAll == Init /\ [][NextAll]_vars
SpecRand == Init /\ [][NextRand]_vars

Dump == done => PrintT(<<"TRACE", ToJson(hist)>>)

--------------------------------------------------------------------------
(* ---- properties of the specification (engine M) ------------------------ *)

TypeOK == /\ Len(tries) \in 1..MaxHandles
          /\ \A i \in 1..Len(tries) : DOMAIN tries[i].m \subseteq Keys /\ tries[i].v1 \in BOOLEAN

(* C03: an action on handle h leaves every other handle's value unchanged *)
Isolation == [][\A i \in 1..Len(tries) :
                  (Len(hist') > Len(hist) /\ hist'[Len(hist')].o.h # i) => tries'[i] = tries[i]]_vars

(* C02 laws.  A full-limit clear is a clear; next-key enumerates the domain *)
(* in order; listing by prefix is sorted and exact.                         *)
RECURSIVE Walk(_, _)
Walk(m, k) == LET r == ResNextKey(m, k) IN IF r.found THEN <<r.k>> \o Walk(m, r.k) ELSE <<>>

MapLaws ==
  \A i \in 1..Len(tries) :
    LET m == tries[i].m IN
    /\ \A p \in Prefixes :
         /\ MapClearPrefixLimit(m, p, Cardinality(Matching(m, p))) = MapClearPrefix(m, p)
         /\ \A n \in Limits : LET r == ResClearLimit(m, p, n)
                                  m2 == MapClearPrefixLimit(m, p, n)
                              IN /\ Cardinality(DOMAIN m) - Cardinality(DOMAIN m2) = r.deleted
                                 /\ r.allDeleted <=> Matching(m2, p) = {}
                                 /\ \A a \in DOMAIN m \ DOMAIN m2, b \in Matching(m2, p) : LexLess(a, b)
         /\ LET ks == ResKeys(m, p) IN
              /\ {ks[j] : j \in 1..Len(ks)} = Matching(m, p)
              /\ \A j \in 1..(Len(ks) - 1) : LexLess(ks[j], ks[j + 1])
    /\ LET w == IF <<>> \in DOMAIN m THEN <<<<>>>> \o Walk(m, <<>>) ELSE Walk(m, <<>>)
       IN w = SortedSeq(DOMAIN m)

(* C01: the root is a function of (map, version) that separates maps: two   *)
(* handles have the same root term iff they hold the same map and version   *)
(* (collision-freeness of the token is the idealisation).                   *)
RootSeparates ==
  \A i, j \in {x \in 1..Len(tries) : ~tries[x].mixed} :
    (Root(tries[i].m, tries[i].v1) = Root(tries[j].m, tries[j].v1))
      <=> (tries[i].m = tries[j].m /\
           (tries[i].v1 = tries[j].v1 \/ \A k \in DOMAIN tries[i].m : Len(tries[i].m[k]) <= 32))

View == tries
=============================================================================
