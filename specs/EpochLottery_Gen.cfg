SPECIFICATION SpecAll
CONSTANTS
  MaxEpoch = 6
  MaxSkip = 2
  Depth = 4
INVARIANT Dump
CHECK_DEADLOCK FALSE
