--------------------------- MODULE BlockTree_Gen ---------------------------
(* Generator / model-checking constants for BlockTree + Finality           *)
(* (C15, C16, C17).                                                        *)
EXTENDS Finality

(* hash ranks: a fixed scramble of the ids, so that "earlier inserted" and *)
(* "lower hash" disagree for some pairs and agree for others               *)
GHashRank == [b \in 0..12 |-> (b * 5 + 3) % 13]

AllKinds == {"Add", "AddOrphan", "AddDup", "AddWrongNum", "AddNoDigest", "Finalise"}
StructKinds == {"Add", "Finalise"}

NoPrims == {FALSE}
BothPrims == {FALSE, TRUE}
OneArrival == {1}
TwoArrivals == {1, 2}
ThreeArrivals == {1, 2, 3}
=============================================================================
