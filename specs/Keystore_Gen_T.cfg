SPECIFICATION SpecCases
CONSTANTS
  Bits <- BitsAll
  Quick = FALSE
INVARIANT Dump
CHECK_DEADLOCK FALSE
