SPECIFICATION SpecAll
CONSTANTS
  Olds <- AllOlds
  Items <- AllItems
  Shape = "case"
  Depth = 2
INVARIANT Dump
CHECK_DEADLOCK FALSE
