---------------------------- MODULE BabeMath_MC ----------------------------
(***************************************************************************)
(* Engine M for C25: the operators of BabeNat / BabeMath are checked       *)
(* against TLC's native integer arithmetic, exhaustively on a small scale  *)
(* (NatBase = 4, word size W = 6 instead of 128), so that what the trace   *)
(* specification BabeMath_Trace decides on 128-bit values is the           *)
(* mathematical statement of the property and not an artefact of the digit *)
(* algorithms:                                                             *)
(*  NatOps        FromInt/ToInt/Add/Sub/Monus/Mul/MulDigit/Pow/Cmp agree   *)
(*                with Integers on all pairs below MaxV; results are       *)
(*                normalised                                               *)
(*  BracketExact  BmBracket(c1,c2,n,T,W,E) <=> |(2^W-T) - 2^W(1-c)^(1/n)|  *)
(*                <= E, stated with native integers without a root         *)
(*  FloorAccepted the property's floor(2^W (1 - (1-c)^(1/n))) satisfies    *)
(*                the bracket for every E >= 1; everything accepted is     *)
(*                within E+1 of it (the bracket is tight)                  *)
(*  FloorMonotone the floor value is monotone in c and BmMonotonePair      *)
(*                says so                                                  *)
(*  Saturation    BmThreshold-level: c1 = c2 accepts exactly 2^W - 1       *)
(*  Horner        BnBytesBEMod is the big-endian value modulo m;           *)
(*                BmSlotLE8 is the little-endian byte string of the slot   *)
(***************************************************************************)
EXTENDS BabeMath

CONSTANTS MaxV, W, MaxC

VARIABLES mode, x, y, c1, c2, n
mvars == <<mode, x, y, c1, c2, n>>

TwoW == 2 ^ W
Ratios == { r \in (1..MaxC) \X (1..MaxC) : r[1] <= r[2] }
SampleBytes == {0, 1, 2, 127, 128, 255}
SampleLimbs == {0, 1, 255, 256, 4660, 65535}

(* three levels (start -> mode and parameters -> operands) only so that TLC's workers share the cases *)
MCInit == mode = "start" /\ x = -1 /\ y = -1 /\ c1 = 0 /\ c2 = 0 /\ n = 0
Params ==
  /\ mode = "start" /\ x' = -1 /\ y' = -1
  /\ \/ mode' = "ops" /\ c1' \in 0..MaxV /\ c2' = 0 /\ n' = 0
     \/ mode' = "bracket" /\ \E r \in Ratios : (c1' = r[1] /\ c2' = r[2]) /\ n' \in 1..3
     \/ mode' = "mod" /\ c1' \in SampleBytes /\ c2' = 0 /\ n' \in 1..9
     \/ mode' = "slot" /\ c1' \in SampleLimbs /\ c2' \in SampleLimbs /\ n' = 0
Operands ==
  /\ mode # "start" /\ x = -1 /\ UNCHANGED <<mode, c2, n>>
  /\ \/ mode = "ops" /\ x' = c1 /\ y' \in 0..MaxV /\ c1' = 0
     \/ mode = "bracket" /\ x' \in 0..TwoW /\ y' \in 0..2 /\ c1' = c1
     \/ mode = "mod" /\ x' \in SampleBytes /\ y' \in SampleBytes /\ c1' = c1
     \/ mode = "slot" /\ x' \in SampleLimbs /\ y' \in SampleLimbs /\ c1' = c1
MCNext == Params \/ Operands
MCSpec == MCInit /\ [][MCNext]_mvars

RECURSIVE IPow(_, _)
IPow(a, k) == IF k = 0 THEN 1 ELSE a * IPow(a, k - 1)

Sgn(a, b) == IF a < b THEN -1 ELSE IF a > b THEN 1 ELSE 0

NatOps == (mode = "ops" /\ x >= 0) =>
  LET a == BmN(x)  b == BmN(y) IN
  /\ BnIsNat(a) /\ BnToInt(a) = x
  /\ BnIsNat(BnAdd(a, b)) /\ BnToInt(BnAdd(a, b)) = x + y
  /\ BnIsNat(BnMul(a, b)) /\ BnToInt(BnMul(a, b)) = x * y
  /\ BnCmp(a, b) = Sgn(x, y)
  /\ BnLe(a, b) = (x <= y)
  /\ x >= y => (BnIsNat(BnSub(a, b)) /\ BnToInt(BnSub(a, b)) = x - y)
  /\ BnToInt(BnMonus(a, b)) = (IF x >= y THEN x - y ELSE 0)
  /\ y < NatBase => BnMulDigit(a, y) = BmN(x * y)
  /\ y <= 3 /\ x <= 40 => BnPow(a, y) = BmN(IPow(x, y))
  /\ y <= 3 => BnShift(a, y) = BmN(x * IPow(NatBase, y))
  /\ x <= 20 => BmPow2(x) = BmN(IPow(2, x))
  /\ BnNorm(a \o <<0, 0>>) = a

(* native statement of the bracket, T = x, E = y *)
NativeBracket(d1, d2, k, T, E) ==
  LET A == TwoW - T
      lo == IF A >= E THEN A - E ELSE 0
  IN /\ T <= TwoW
     /\ d2 * IPow(lo, k) <= (d2 - d1) * IPow(TwoW, k)
     /\ (d2 - d1) * IPow(TwoW, k) <= d2 * IPow(A + E, k)

(* the property's value: T = floor(2^W (1 - (1-c)^(1/k))) <=> A = 2^W - T = ceil(2^W (1-c)^(1/k)), i.e. *)
(* d2 A^k >= (d2-d1) 2^(Wk) > d2 (A-1)^k   (A = 0 iff c = 1, where the property saturates instead)       *)
Floor(d1, d2, k) ==
  CHOOSE T \in 0..TwoW :
    LET A == TwoW - T IN
    /\ d2 * IPow(A, k) >= (d2 - d1) * IPow(TwoW, k)
    /\ (A = 0 \/ d2 * IPow(A - 1, k) < (d2 - d1) * IPow(TwoW, k))

BracketExact == (mode = "bracket" /\ x >= 0 /\ c1 < c2) =>
  (BmBracket(c1, c2, n, BmN(x), W, BmN(y)) <=> NativeBracket(c1, c2, n, x, y))

FloorAccepted == (mode = "bracket" /\ x >= 0 /\ c1 < c2) =>
  /\ y >= 1 => BmBracket(c1, c2, n, BmN(Floor(c1, c2, n)), W, BmN(y))
  /\ BmBracket(c1, c2, n, BmN(x), W, BmN(y)) =>
       (x - Floor(c1, c2, n) <= y + 1 /\ Floor(c1, c2, n) - x <= y + 1)

FloorMonotone == (mode = "bracket" /\ x = 0 /\ y = 0 /\ c1 < c2) =>
  \A r \in Ratios :
     LET me == [c1 |-> c1, c2 |-> c2, n |-> n, t |-> BmN(Floor(c1, c2, n))]
         ot == [c1 |-> r[1], c2 |-> r[2], n |-> n, t |-> BmN(Floor(r[1], r[2], n))]
     IN /\ BmRatioLe(c1, c2, r[1], r[2]) = (c1 * r[2] <= r[1] * c2)
        /\ BmMonotonePair(me, ot)
        /\ (c1 * r[2] <= r[1] * c2) => Floor(c1, c2, n) <= Floor(r[1], r[2], n)
        \* a pair that is NOT monotone is refused
        /\ (c1 * r[2] < r[1] * c2 /\ Floor(r[1], r[2], n) > 0) =>
             ~BmMonotonePair([me EXCEPT !.t = BmN(Floor(r[1], r[2], n))], [ot EXCEPT !.t = BmN(Floor(r[1], r[2], n) - 1)])

Saturation == (mode = "bracket" /\ x >= 0 /\ c1 = c2 /\ y = 0) =>
  /\ BmMaxT(W) = BmN(TwoW - 1)
  /\ (BnIsNat(BmN(x)) /\ BnLe(BmN(x), BmMaxT(W)) /\ BmSaturated(BmN(x), W)) <=> (x = TwoW - 1)

Horner == (mode = "mod" /\ x >= 0) =>
  BnBytesBEMod(<<x, y, c1>>, n) = (x * 65536 + y * 256 + c1) % n

SlotBytes == (mode = "slot" /\ x >= 0) =>
  LET b == BmSlotLE8(<<x, y, c1, c2>>) IN
  /\ Len(b) = 8 /\ \A i \in 1..8 : b[i] \in 0..255
  /\ b[1] + 256 * b[2] = x /\ b[3] + 256 * b[4] = y /\ b[5] + 256 * b[6] = c1 /\ b[7] + 256 * b[8] = c2
  /\ BmSecToken(<<7, 9>>, <<x, y, c1, c2>>) = <<-1, 10, 7, 9>> \o b
=============================================================================
