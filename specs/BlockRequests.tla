---------------------------- MODULE BlockRequests ----------------------------
(***************************************************************************)
(* C31, engine M.  Planning and serving are pure functions of their input, *)
(* so the "state machine" is a case enumerator: every initial state is one *)
(* case and the properties are invariants over all of them (exhaustive on  *)
(* the constants of the configuration).                                    *)
(*                                                                         *)
(*  PlanCorrect      the canonical plan Plan(a, b) satisfies the           *)
(*                   statement's predicate IsPlan for all a in PlanRows,     *)
(*                   0 <= b <= MaxH (thorough: all 0 <= a, b <= MaxH)      *)
(*                   (including a > b, a = 0, multiples of 128);           *)
(*  PlanSharp        IsPlan rejects the canonical plan of a neighbouring   *)
(*                   range (the predicate is not vacuous);                 *)
(*  ServeSound       every response the specification accepts (Acc) meets  *)
(*                   the statement's predicate Valid and cannot be         *)
(*                   extended (Complete), for every forest up to MaxBlocks *)
(*                   blocks, every finalised block, every best block among *)
(*                   the deepest leaves and every request of the grid;     *)
(*  ServeTotal       for every request something is acceptable: a response *)
(*                   or a refusal, and a request for a block the node has  *)
(*                   (max >= 1, a known field) must be served.             *)
(***************************************************************************)
EXTENDS BlockRequestsOps

CONSTANTS PlanRows,    \* plan cases: a \in PlanRows,
          MaxH,        \*             0 <= b <= MaxH
          MaxBlocks,   \* serve cases: forests with at most MaxBlocks non-genesis blocks
          Maxes,       \* request maxima tried (-1 = absent)
          FieldMasks   \* field masks tried

QuickRows == {0, 1, 2, 3, 64, 126, 127, 128, 129, 130, 255, 256, 257}
AllRows == 0..MaxH
MCMaxes == {-1, 0, 1, 2, 3, 129}
MCMasks == {0, 1, 19, 32}

VARIABLE c   \* the case
vars == <<c>>

(* two levels so that TLC's workers share the cases: an initial state is a  *)
(* row (all plans with the same a / all views of the same forest), its       *)
(* successors are the cases of that row                                      *)
Rows == {[kind |-> "planrow", a |-> a] : a \in PlanRows}
   \cup {[kind |-> "forest", par |-> par] : par \in UNION {SFAllForests(n) : n \in 0..MaxBlocks}}

PlanCasesOf(a) == {[kind |-> "plan", a |-> a, b |-> b] : b \in 0..MaxH}

ServeCasesOf(par) ==
  UNION {{[kind |-> "serve", par |-> par, fin |-> f, best |-> l] : l \in SFDeepest(par, SFKnown(par, f))}
           : f \in 0..Len(par)}

Init == c \in Rows
Next == \/ c.kind = "planrow" /\ c' \in PlanCasesOf(c.a)
        \/ c.kind = "forest" /\ c' \in ServeCasesOf(c.par)
Spec == Init /\ [][Next]_vars

--------------------------------------------------------------------------
PlanCorrect == c.kind = "plan" => IsPlan(c.a, c.b, Plan(c.a, c.b)) /\ PlanDefect(c.a, c.b, Plan(c.a, c.b)) = "none"

PlanSharp ==
  c.kind = "plan" =>
    /\ c.a <= c.b => ~IsPlan(c.a, c.b, Plan(c.a, c.b + 1)) /\ ~IsPlan(c.a, c.b, Plan(c.a + 1, c.b))
    /\ c.a <= c.b => ~IsPlan(c.a, c.b + 1, Plan(c.a, c.b))
    /\ (c.b - c.a + 1 > MaxResp) => ~IsPlan(c.a, c.b, <<[s |-> c.a, m |-> c.b - c.a + 1]>>)
    /\ c.a <= c.b => PlanDefect(c.a, c.b, Plan(c.a + 1, c.b)) = "height-not-covered"

NV(cs) == [par |-> cs.par, K |-> SFKnown(cs.par, cs.fin), best |-> cs.best, J |-> {}]

Reqs(cs) ==
  LET top == SFNum(cs.par, cs.best) IN
       {[by |-> "num", start |-> n, dir |-> d, max |-> m, fields |-> f] :
            n \in 0..(top + 1), d \in {"asc", "desc"}, m \in Maxes, f \in FieldMasks}
  \cup {[by |-> "hash", start |-> b, dir |-> d, max |-> m, fields |-> f] :
            b \in (-1)..Len(cs.par), d \in {"asc", "desc"}, m \in Maxes, f \in FieldMasks}

ServeSound ==
  c.kind = "serve" =>
    LET nv == NV(c) IN
    \A r \in Reqs(c) : \A resp \in Acc(nv, r) : Valid(nv, r, resp) /\ Complete(nv, r, resp)

ServeTotal ==
  c.kind = "serve" =>
    LET nv == NV(c) IN
    \A r \in Reqs(c) :
      /\ Acc(nv, r) # {} \/ MayRefuse(nv, r)
      /\ (Requested(nv, r) # {} /\ 0 \notin Requested(nv, r) /\ Lim(r) >= 1 /\ r.fields % 32 # 0)
           => (~MayRefuse(nv, r) /\ Acc(nv, r) # {} /\ \A resp \in Acc(nv, r) : Len(resp) >= 1)
      \* a descending response is unique up to the genesis deviation
      /\ r.dir = "desc" => Cardinality(Acc(nv, r)) <= 2
=============================================================================
