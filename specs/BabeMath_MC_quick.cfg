SPECIFICATION MCSpec
CONSTANTS
  NatBase = 4
  MaxV = 30
  W = 5
  MaxC = 4
INVARIANTS NatOps BracketExact FloorAccepted FloorMonotone Saturation Horner SlotBytes
CHECK_DEADLOCK FALSE
