SPECIFICATION SpecAll
CONSTANTS
  MainKeys <- MMainKeys
  MainVals <- MMainVals
  MainPrefixes <- MMainPrefixes
  MainProbes <- MMainProbes
  ChildNames <- MChildNames
  ChildKeys <- MChildKeys
  ChildVals <- MChildVals
  ChildPrefixes <- MChildPrefixes
  Limits <- MLimits
  OpKinds <- AllKinds
  EmitObs = FALSE
  MaxNest = 2
  Depth = 6
INVARIANTS TypeOK DirectEquiv ClearLaws
PROPERTIES RollbackExact TxTransparent Namespaces
VIEW View
CHECK_DEADLOCK FALSE
