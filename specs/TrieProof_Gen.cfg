SPECIFICATION GPSpec
CONSTANTS
  PKeys <- PgKeys
  PVals <- PgVals
  PProbe <- PgProbe
  PNum = 6
INVARIANT PDump
CHECK_DEADLOCK FALSE
