----------------------------- MODULE FullSyncOps -----------------------------
(***************************************************************************)
(* C32  Full sync imports only consistent chains, parents first.           *)
(* Pure operators of the monitor (no variables), shared by the model-      *)
(* checked module FullSyncMonitor, the scenario generator                  *)
(* FullSyncMonitor_Gen and the trace specification FullSyncMonitor_Trace.  *)
(*                                                                         *)
(* Statement:                                                              *)
(*  "For every set of block responses, whether split, reordered,           *)
(*   duplicated, forked or disconnected, full sync hands each block to the *)
(*   importer only after its parent is known, and never twice."            *)
(*                                            -> Legal: ParentKnown, Fresh *)
(*  "It rejects any response that is not a hash-linked chain or in which a *)
(*   block's stated hash differs from the hash of its header."             *)
(*                                            -> ValidResp, Legal: Offered *)
(*                                                                         *)
(* Blocks live in a forest par (SyncForest); a response is a sequence of   *)
(* entries [b |-> block whose header is sent, st |-> block whose hash is   *)
(* STATED for it]: st = b is an honest entry, st = -1 states a hash that   *)
(* belongs to no block, st = c # b states another block's hash.            *)
(***************************************************************************)
EXTENDS SyncForest, TLC, Json

RespBlocks(es) == {es[i].b : i \in 1..Len(es)}

(* rl (generator and recorded traces only; absent = 0): 1 = the header sent is a copy RELINKED to the hash stated for the  *)
(* previous entry; 2 = the header sent is a copy whose parent hash is ALL ZEROS (its stated hash is its own): it links to  *)
(* nothing, is the header of no block of the forest, and its parent can never be known                                     *)
Rl(e) == IF "rl" \in DOMAIN e THEN e.rl ELSE 0
Genuine(es) == {es[i].b : i \in {j \in 1..Len(es) : Rl(es[j]) # 2}}

(* "a block's stated hash differs from the hash of its header" *)
HashesOK(es) == \A i \in 1..Len(es) : es[i].st = es[i].b

(* "a hash-linked chain": every header's parent hash is the hash of the    *)
(* previous header (which also makes the numbers consecutive)              *)
Linked(par, es) == \A i \in 1..(Len(es) - 1) : es[i + 1].b # 0 /\ par[es[i + 1].b] = es[i].b /\ Rl(es[i + 1]) # 2 /\ Rl(es[i]) # 2

ValidResp(par, es) == HashesOK(es) /\ Linked(par, es)

(* why a response must be rejected *)
RespDefect(par, es) ==
  IF ~HashesOK(es) THEN "stated-hash-differs"
  ELSE IF ~Linked(par, es) THEN "not-a-chain"
  ELSE "none"

(* blocks a batch of responses offers for import *)
Offers(par, batch) == UNION {Genuine(batch[i].es) : i \in {j \in 1..Len(batch) : ValidResp(par, batch[j].es)}}

(* monitor state: known = genesis and the imported blocks, offered = blocks *)
(* delivered so far in responses that must not be rejected, imported        *)
ParentKnown(par, known, b) == b # 0 /\ par[b] \in known
Fresh(imported, b) == b \notin imported
Legal(par, known, offered, imported, b) ==
  /\ b \in offered                 \* never from a response that had to be rejected
  /\ ParentKnown(par, known, b)    \* "only after its parent is known"
  /\ Fresh(imported, b)            \* "and never twice"

(* classifier of an illegal import; seenBad[b] = defects of the responses   *)
(* that delivered b so far                                                  *)
ImportDefect(par, known, offered, imported, seenBad, b) ==
  IF b \notin 1..Len(par) THEN "unknown-block"
  ELSE IF ~Fresh(imported, b) THEN "twice"
  ELSE IF b \notin offered THEN
         (IF "stated-hash-differs" \in seenBad[b] THEN "not-offered/stated-hash-differs"
          ELSE IF "not-a-chain" \in seenBad[b] THEN "not-offered/not-a-chain"
          ELSE "not-offered/never-delivered")
  ELSE IF ~ParentKnown(par, known, b) THEN "parent-unknown"
  ELSE "none"
=============================================================================
