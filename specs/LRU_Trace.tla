----------------------------- MODULE LRU_Trace -----------------------------
(***************************************************************************)
(* Engine V for C35: linearizability of concurrent histories recorded from *)
(* the real cache.  The trace is NDJSON: {"ev":"reset","cap":c} starts a   *)
(* history, {"ev":"call","id","op","k","v"} and {"ev":"ret","id","res"}    *)
(* are stamped by one atomic counter around the real call.  A history is   *)
(* accepted iff the calls can be linearized: each takes effect atomically  *)
(* (action Lin) between its call and its return and returns what the       *)
(* sequential specification LRU prescribes at that point.                  *)
(***************************************************************************)
EXTENDS LRUOps

Trace == ndJsonDeserialize("trace.ndjson")

VARIABLES l,        \* next trace line
          c,        \* abstract cache
          pending,  \* called, not yet linearized: set of [id, op, k, v]
          lin       \* linearized, not yet returned: set of [id, res]
tvars == <<l, c, pending, lin>>

TInit == l = 1 /\ c = EmptyCache(1) /\ pending = {} /\ lin = {} /\ TLCSet(1, 1)

Ev(e) == l <= Len(Trace) /\ Trace[l].ev = e

TReset == /\ Ev("reset") /\ pending = {} /\ lin = {}
          /\ c' = EmptyCache(Trace[l].cap) /\ l' = l + 1 /\ UNCHANGED <<pending, lin>>
TCall == /\ Ev("call")
         /\ pending' = pending \cup {[id |-> Trace[l].id, op |-> Trace[l].op, k |-> Trace[l].k, v |-> Trace[l].v]}
         /\ l' = l + 1 /\ UNCHANGED <<c, lin>>
TLin == \E p \in pending :
         /\ c' = (IF p.op = "Get" THEN LGet(c, p.k) ELSE LPut(c, p.k, p.v))
         /\ lin' = lin \cup {[id |-> p.id, res |-> IF p.op = "Get" THEN LGetRes(c, p.k) ELSE 0]}
         /\ pending' = pending \ {p} /\ UNCHANGED l
TRet == /\ Ev("ret")
        /\ \E r \in lin : r.id = Trace[l].id /\ r.res = Trace[l].res /\ lin' = lin \ {r}
        /\ l' = l + 1 /\ UNCHANGED <<c, pending>>

TNext == TReset \/ TCall \/ TLin \/ TRet
TraceSpec == TInit /\ [][TNext]_tvars

HighWater == TLCSet(1, IF l > TLCGet(1) THEN l ELSE TLCGet(1))
Accepted == PrintT(<<"VERIF-TRACE", TLCGet(1) - 1, Len(Trace)>>)
=============================================================================
