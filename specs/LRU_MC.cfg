SPECIFICATION SpecAll
CONSTANTS
  LKeys = {1, 2, 3, 4}
  LVals = {1, 2}
  Caps = {1, 2, 3}
  Depth = 7
INVARIANTS Bounded NoDup DomOK
PROPERTY EvictsLRU
VIEW View
CHECK_DEADLOCK FALSE
