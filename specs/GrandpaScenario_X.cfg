SPECIFICATION ScnSpec
CONSTANTS
  NV = 4
  Byz = {4}
  Parent <- PX
  MaxRound = 2
  CommitMin = 3
  PrevoteAboveEstimate = FALSE
  Depth = 200
  Scn <- ScnX
INVARIANTS Dump ScnAccepted
CHECK_DEADLOCK FALSE
