----------------------------- MODULE MsgTracker -----------------------------
(***************************************************************************)
(* Beyond the listed properties (DESIGN.md section 9): the GRANDPA message *)
(* trackers (lib/grandpa/votes_tracker.go, commits_tracker.go) that hold   *)
(* vote and commit messages naming a block the node does not have yet      *)
(* ("any message delay": a vote that arrives before its block is kept and  *)
(* handed to the voter when the block is imported).                        *)
(*                                                                         *)
(* One bounded first-in-first-out store keyed by (block, authority); the   *)
(* commit tracker is the instance with a single authority.                 *)
(*   q     entries [b, a, p] in order of FIRST insertion, oldest first     *)
(*         (p = payload: the message, here a fresh number)                 *)
(*   Add(b, a)   the key is tracked: its payload is replaced IN PLACE (a   *)
(*               re-sent message does not become the newest entry);        *)
(*               otherwise, when the store is full the oldest entry is     *)
(*               dropped, and the new entry becomes the newest             *)
(*   Delete(b)   every entry of block b goes                               *)
(* Observations after every step: the entries of every block, all entries, *)
(* the number of entries.                                                  *)
(***************************************************************************)
EXTENDS Integers, Sequences, FiniteSets, TLC, Json

CONSTANTS Blocks, Auths, Cap, Depth
VARIABLES q, np, hist, done
vars == <<q, np, hist, done>>

Idx(b, a) == {i \in 1..Len(q) : q[i].b = b /\ q[i].a = a}
Tracked(b, a) == Idx(b, a) # {}
SelectSeq2(s, T(_)) == SelectSeq(s, T)

AddTo(s, b, a, p) ==
  IF \E i \in 1..Len(s) : s[i].b = b /\ s[i].a = a
  THEN [i \in 1..Len(s) |-> IF s[i].b = b /\ s[i].a = a THEN [b |-> b, a |-> a, p |-> p] ELSE s[i]]
  ELSE (IF Len(s) >= Cap THEN Tail(s) ELSE s) \o <<[b |-> b, a |-> a, p |-> p]>>
DelFrom(s, b) == LET Keep(e) == e.b # b IN SelectSeq(s, Keep)

Entries(s) == {s[i] : i \in 1..Len(s)}
Obs(s) == [len |-> Len(s),
           all |-> Entries(s),
           byb |-> [b \in Blocks |-> {[a |-> e.a, p |-> e.p] : e \in {x \in Entries(s) : x.b = b}}]]

Ops == {[op |-> "Add", b |-> b, a |-> a] : b \in Blocks, a \in Auths} \cup {[op |-> "Delete", b |-> b, a |-> 0] : b \in Blocks}

Step(o) ==
  /\ ~done /\ Len(hist) < Depth
  /\ q' = IF o.op = "Add" THEN AddTo(q, o.b, o.a, np + 1) ELSE DelFrom(q, o.b)
  /\ np' = IF o.op = "Add" THEN np + 1 ELSE np
  /\ hist' = Append(hist, [o |-> o, p |-> IF o.op = "Add" THEN np + 1 ELSE 0, obs |-> Obs(q')])
  /\ UNCHANGED done
Finish == /\ ~done /\ Len(hist) = Depth /\ done' = TRUE /\ UNCHANGED <<q, np, hist>>

Init == q = <<>> /\ np = 0 /\ hist = <<>> /\ done = FALSE
NextAll == (\E o \in Ops : Step(o)) \/ Finish
(* generator: additions are frequent, so the store is full most of the time *)
PickOp == LET w == RandomElement({x \in 1..10 : Len(hist) >= 0})
              A == {o \in Ops : o.op = "Add"}
          IN IF w <= 8 THEN RandomElement(A) ELSE RandomElement(Ops \ A)
NextRand == (\E o \in {PickOp} : Step(o)) \/ Finish
SpecAll == Init /\ [][NextAll]_vars
SpecRand == Init /\ [][NextRand]_vars
Dump == done => PrintT(<<"TRACE", ToJson(hist)>>)
View == <<q, done, Len(hist)>>

--------------------------------------------------------------------------
(* ---- what TLC checks (engine M) ---------------------------------------- *)
Bounded == Len(q) <= Cap
OneEntryPerKey == \A i, j \in 1..Len(q) : (q[i].b = q[j].b /\ q[i].a = q[j].a) => i = j
(* a message that was just added is tracked (whatever had to make room for it) *)
JustAddedIsTracked == [][\A o \in Ops : (o.op = "Add" /\ Step(o)) => \E i \in 1..Len(q') : q'[i] = [b |-> o.b, a |-> o.a, p |-> np']]_vars
(* only the oldest entry ever makes room, and only for a new key of a full store *)
OldestMakesRoom == [][\A o \in Ops : (o.op = "Add" /\ Step(o)) =>
                        LET gone == Entries(q) \ {e \in Entries(q) : \E f \in Entries(q') : f.b = e.b /\ f.a = e.a}
                        IN gone \subseteq (IF Len(q) >= Cap /\ ~Tracked(o.b, o.a) THEN {Head(q)} ELSE {})]_vars
(* a re-sent message keeps its place in the queue *)
ResendKeepsPlace == [][\A o \in Ops : (o.op = "Add" /\ Step(o) /\ Tracked(o.b, o.a)) =>
                         [i \in 1..Len(q') |-> <<q'[i].b, q'[i].a>>] = [i \in 1..Len(q) |-> <<q[i].b, q[i].a>>]]_vars
DeleteIsPerBlock == [][\A o \in Ops : (o.op = "Delete" /\ Step(o)) => Entries(q') = {e \in Entries(q) : e.b # o.b}]_vars
=============================================================================
