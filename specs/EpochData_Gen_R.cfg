SPECIFICATION SpecRand
CONSTANTS
  MaxAdd = 7
  MaxEpoch = 2
  Depth = 7
INVARIANT Dump
CHECK_DEADLOCK FALSE
