SPECIFICATION TraceSpec
CONSTRAINT HighWater
POSTCONDITION Accepted
CHECK_DEADLOCK FALSE
