SPECIFICATION GSpec
INVARIANT CDump
CHECK_DEADLOCK FALSE
