SPECIFICATION SpecAll
CONSTANTS
  Keys <- MKeys
  Vals <- MVals
  Lens <- MLens
  LongLens = {}
  Versions <- MVersions
  Damages <- AllDamages
  Depth = 1
INVARIANT CaseLaws
CHECK_DEADLOCK FALSE
