SPECIFICATION SpecAll
CONSTANTS
  MaxEpoch = 7
  MaxSkip = 3
  Depth = 6
INVARIANTS TypeOK LotteryMatchesVerifier SkippedUsesAnnounced GovInjective
PROPERTY GovStable
CHECK_DEADLOCK FALSE
