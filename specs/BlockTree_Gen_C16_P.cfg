SPECIFICATION SpecPhased
CONSTANTS
  MaxAdd = 3
  Prims <- BothPrims
  Arrivals <- TwoArrivals
  HashRank <- GHashRank
  FreeIds = FALSE
  OpKinds <- StructKinds
  PhaseAdds = 3
  ObsKind = "tree"
  Depth = 4
INVARIANT Dump
CHECK_DEADLOCK FALSE
