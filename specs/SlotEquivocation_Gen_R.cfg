SPECIFICATION SpecRand
CONSTANTS
  Slots <- GSlots
  Signers <- GSigners
  Hids <- GHids
  Cap = 1000
  Bound = 2000
  Depth = 30
INVARIANT Dump
CHECK_DEADLOCK FALSE
