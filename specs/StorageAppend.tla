--------------------------- MODULE StorageAppend ---------------------------
(***************************************************************************)
(* C09  Storage append follows Substrate semantics                         *)
(* (lib/runtime/wazero imports.go storageAppend, ext_storage_append_v1).   *)
(*                                                                         *)
(* Property text and where it lives here:                                  *)
(*  "A value starting with a canonical compact length n, with n+1 still    *)
(*   fitting in u32, becomes length n+1 followed by the old items and the  *)
(*   new item."                                                            *)
(*      -> DecU32 (Compact<u32>::decode of parity-scale-codec: every mode, *)
(*         canonical forms only, big-integer mode only with 4 bytes),      *)
(*         Succ (n + 1, failing at u32::MAX), EncLen, first arm of AppendTo. *)
(*  "Any other value (absent, empty, truncated, non-canonical or           *)
(*   undecodable length) is replaced by a one-item list."                  *)
(*      -> second arm of AppendTo: <<4>> \o item  (4 = Compact(1)).          *)
(*                                                                         *)
(* TLC integers are 32-bit: a length below 2^30 is an integer, a length in *)
(* 2^30 .. 2^32-1 is kept as its four little-endian bytes.                 *)
(***************************************************************************)
EXTENDS Bytes, TLC, Json

CONSTANTS Olds,    \* catalogue of stored values: records [present, v]
          Items,   \* appended items (already SCALE encoded, any bytes)
          Shape,   \* "case": a behaviour is Set(x) then one Append; "free": any sequence
          Depth

VARIABLES val,     \* the stored value [present |-> BOOLEAN, v |-> bytes]
          hist, done

vars == <<val, hist, done>>

Bad == [ok |-> FALSE]

(* Compact<u32>::decode.  Result: ok, plen = bytes consumed, and the length *)
(* either as integer n (big = FALSE) or as four LE bytes le (big = TRUE).   *)
DecU32(s) ==
  IF s = <<>> THEN Bad
  ELSE LET b == s[1]
           mode == b % 4
       IN CASE mode = 0 -> [ok |-> TRUE, big |-> FALSE, n |-> b \div 4, le |-> <<>>, plen |-> 1]
            [] mode = 1 -> IF Len(s) < 2 THEN Bad
                           ELSE LET n == (b \div 4) + s[2] * 64
                                IN IF n >= 64 THEN [ok |-> TRUE, big |-> FALSE, n |-> n, le |-> <<>>, plen |-> 2] ELSE Bad
            [] mode = 2 -> IF Len(s) < 4 THEN Bad
                           ELSE LET n == (b \div 4) + s[2] * 64 + s[3] * 16384 + s[4] * 4194304
                                IN IF n >= 16384 THEN [ok |-> TRUE, big |-> FALSE, n |-> n, le |-> <<>>, plen |-> 4] ELSE Bad
            [] OTHER    -> (* big-integer mode: for u32 exactly four bytes, value >= 2^30 *)
                           IF b # 3 \/ Len(s) < 5 THEN Bad
                           ELSE IF s[5] >= 64 THEN [ok |-> TRUE, big |-> TRUE, n |-> 0, le |-> SubSeq(s, 2, 5), plen |-> 5] ELSE Bad

(* little-endian increment of a 4-byte number that is not 2^32-1 *)
RECURSIVE IncLE(_)
IncLE(le) == IF le = <<>> THEN <<>>
             ELSE IF le[1] = 255 THEN <<0>> \o IncLE(Tail(le)) ELSE <<le[1] + 1>> \o Tail(le)

MaxU32 == <<255, 255, 255, 255>>

(* the compact encoding of (decoded length) + 1; only when it fits u32 *)
Fits(d) == ~(d.big /\ d.le = MaxU32)
EncSucc(d) ==
  IF d.big THEN <<3>> \o IncLE(d.le)
  ELSE IF d.n + 1 < 1073741824 THEN Compact(d.n + 1) ELSE <<3, 0, 0, 0, 64>>

OneItem(item) == <<4>> \o item

AppendTo(old, item) ==
  IF ~old.present THEN OneItem(item)
  ELSE LET d == DecU32(old.v)
       IN IF d.ok /\ Fits(d) THEN EncSucc(d) \o Drop(old.v, d.plen) \o item
          ELSE OneItem(item)

--------------------------------------------------------------------------
Ops == IF Shape = "case"
       THEN IF Len(hist) = 0 THEN {[op |-> "Set", x |-> x] : x \in Olds} ELSE {[op |-> "Append", item |-> i] : i \in Items}
       ELSE {[op |-> "Set", x |-> x] : x \in Olds} \cup {[op |-> "Append", item |-> i] : i \in Items}

Apply(o) == IF o.op = "Set" THEN o.x ELSE [present |-> TRUE, v |-> AppendTo(val, o.item)]

Step(o) ==
  /\ ~done
  /\ Len(hist) < Depth
  /\ val' = Apply(o)
  /\ hist' = Append(hist, [o |-> o, pre |-> val, res |-> val'])
  /\ UNCHANGED done

Finish == /\ ~done /\ Len(hist) = Depth /\ done' = TRUE /\ UNCHANGED <<val, hist>>

Init == val = [present |-> FALSE, v |-> <<>>] /\ hist = <<>> /\ done = FALSE

NextAll == (\E o \in Ops : Step(o)) \/ Finish

Pick(S) == RandomElement({x \in S : Len(hist) >= 0})
PickOp == IF Len(hist) = 0 \/ Pick(1..6) = 1 THEN [op |-> "Set", x |-> Pick(Olds)] ELSE [op |-> "Append", item |-> Pick(Items)]
NextRand == (\E o \in {PickOp} : Step(o)) \/ Finish

SpecAll == Init /\ [][NextAll]_vars
SpecRand == Init /\ [][NextRand]_vars

Dump == done => PrintT(<<"TRACE", ToJson(hist)>>)

--------------------------------------------------------------------------
(* ---- properties of the specification (engine M) ------------------------ *)

(* the decoded length as four LE bytes, to compare integer and byte forms *)
AsLE(d) == IF d.big THEN d.le ELSE LE(d.n, 4)

AppendLaws ==
  \A item \in Items :
    LET r == AppendTo(val, item)
        dr == DecU32(r)
        d == DecU32(val.v)
    IN /\ dr.ok                                           \* the result always starts with a canonical length
       /\ IF val.present /\ d.ok /\ Fits(d)
          THEN /\ AsLE(dr) = IncLE(AsLE(d))               \* length n + 1
               /\ Drop(r, dr.plen) = Drop(val.v, d.plen) \o item   \* old items, then the new item
          ELSE r = <<4>> \o item                          \* replaced by a one-item list
       /\ (dr.big => dr.le[4] >= 64)

(* encoding the successor and decoding it again gives the successor, at    *)
(* every mode boundary                                                     *)
Boundaries ==
  \A n \in {0, 1, 62, 63, 64, 16382, 16383, 16384, 1073741822, 1073741823} :
    LET e == IF n < 1073741824 THEN Compact(n) ELSE <<>>
        d == DecU32(e)
    IN d.ok /\ ~d.big /\ d.n = n /\ d.plen = Len(e)
       /\ LET e2 == EncSucc(d) d2 == DecU32(e2) IN d2.ok /\ AsLE(d2) = IncLE(LE(n, 4)) /\ d2.plen = Len(e2)

ASSUME Boundaries

View == val
=============================================================================
