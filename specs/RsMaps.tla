------------------------------- MODULE RsMaps -------------------------------
(***************************************************************************)
(* Pure operators on finite maps from byte strings to byte strings, shared *)
(* by the runtime-storage family (Overlay: C08, KeyPaging: C38).           *)
(* A map is a TLA+ function whose DOMAIN is the set of present keys.       *)
(* Same definitions as the ordered-map part of TrieMachine (C02); kept in  *)
(* a separate constant-level module so that they can be EXTENDed.          *)
(***************************************************************************)
EXTENDS TrieSpec

RsMatching(m, p) == {k \in DOMAIN m : IsPrefixOf(p, k)}

RsRestr(m, K) == [k \in K |-> m[k]]

RsPut(m, k, v) == [x \in DOMAIN m \cup {k} |-> IF x = k THEN v ELSE m[x]]
RsDel(m, k) == RsRestr(m, DOMAIN m \ {k})

(* the n lexicographically smallest elements of S *)
RECURSIVE RsSmallest(_, _)
RsSmallest(S, n) == IF n <= 0 \/ S = {} THEN {}
                    ELSE LET x == LeastOf(S) IN {x} \cup RsSmallest(S \ {x}, n - 1)

(* least key strictly greater than k, byte order *)
RsNext(m, k) ==
  LET G == {x \in DOMAIN m : LexLess(k, x)}
  IN IF G = {} THEN [found |-> FALSE, k |-> <<>>] ELSE [found |-> TRUE, k |-> LeastOf(G)]

RsGet(m, k) == IF k \in DOMAIN m THEN [found |-> TRUE, v |-> m[k]] ELSE [found |-> FALSE, v |-> <<>>]

(* ascending list of <<key, value>> pairs: the JSON form of a map *)
RsEntries(m) == LET ks == SortedSeq(DOMAIN m) IN [i \in 1..Len(ks) |-> <<ks[i], m[ks[i]]>>]

RsSeqToSet(s) == {s[i] : i \in 1..Len(s)}
=============================================================================
