SPECIFICATION SSpecRand
CONSTANTS
  StKeys <- GiKeys
  StVals <- GiVals
  StProbe <- GiProbe
  StOpKinds <- StAllKinds
  StStartV1 = TRUE
  StPrune = {FALSE}
  StMaxCommits = 1000
  StDepth = 30
INVARIANT SDump
CHECK_DEADLOCK FALSE
