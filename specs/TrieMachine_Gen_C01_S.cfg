SPECIFICATION SpecRand
CONSTANTS
  Keys <- SKeys
  Vals <- SVals
  Prefixes <- SPrefixes
  Limits <- SLimits
  OpKinds <- RootKinds
  FreezeParents = FALSE
  MaxHandles = 1
  Depth = 24
INVARIANT Dump
CHECK_DEADLOCK FALSE
