---------------------------- MODULE Allocator_Gen ----------------------------
(* Concrete constants for Allocator (C28): engine M (tiny address space,    *)
(* exhaustive) and engine G (the real size classes, 4 GiB address space).   *)
EXTENDS Allocator

BothBool == {TRUE, FALSE}
OnlyTrue == {TRUE}

(* ---- engine M: 3 orders (8, 16, 32 bytes), pages of 32 bytes, at most 3 pages (12 units) ---- *)
NSizes == {1, 8, 12, 16, 32, 33}
NInits == { [bu |-> 2, bb |-> 0, pages |-> 1, memmax |-> 3, sizes |-> NSizes, fw |-> 0, iw |-> 1],
            [bu |-> 0, bb |-> 1, pages |-> 2, memmax |-> 3, sizes |-> NSizes, fw |-> 0, iw |-> 1] }
(* thorough: the same with 4 pages (16 units) *)
N4Inits == { [bu |-> 2, bb |-> 0, pages |-> 1, memmax |-> 4, sizes |-> NSizes, fw |-> 0, iw |-> 1],
             [bu |-> 0, bb |-> 1, pages |-> 2, memmax |-> 3, sizes |-> NSizes, fw |-> 0, iw |-> 1] }

(* ---- engine G: real constants ------------------------------------------- *)
Top == 536870912   \* 2^29 units = 4 GiB

(* S: small blocks, heavy free-list reuse, odd heap bases *)
SSizes == {0, 1, 7, 8, 9, 15, 16, 17, 24, 31, 32, 33, 63, 64, 65, 100, 128, 129}
SInits == { [bu |-> 0, bb |-> 0, pages |-> 1, memmax |-> 65536, sizes |-> SSizes, fw |-> 24, iw |-> 1],
            [bu |-> 1, bb |-> 5, pages |-> 1, memmax |-> 65536, sizes |-> SSizes, fw |-> 24, iw |-> 1],
            [bu |-> 130, bb |-> 0, pages |-> 0, memmax |-> 65536, sizes |-> SSizes, fw |-> 24, iw |-> 1],
            [bu |-> 8190, bb |-> 7, pages |-> 1, memmax |-> 65536, sizes |-> SSizes, fw |-> 24, iw |-> 1],
            [bu |-> 139264, bb |-> 1, pages |-> 17, memmax |-> 65536, sizes |-> SSizes, fw |-> 24, iw |-> 1] }

(* P: sizes around every power of two up to 32 MiB +- 1, growth of the memory *)
PSizes == UNION {{2 ^ k - 1, 2 ^ k, 2 ^ k + 1} : k \in 3..25} \cup {33554433, 50000000, 2147483647,
            -2147483647 - 1, -2147483647, -1073741824, -8, -1}   \* 2^31, 2^31+1, 3*2^30, 2^32-8, 2^32-1 (seed C28c)
PInits == { [bu |-> 0, bb |-> 0, pages |-> 1, memmax |-> 65536, sizes |-> PSizes, fw |-> 20, iw |-> 1],
            [bu |-> 16, bb |-> 3, pages |-> 3, memmax |-> 65536, sizes |-> PSizes, fw |-> 20, iw |-> 1],
            [bu |-> 2048, bb |-> 0, pages |-> 20, memmax |-> 40000, sizes |-> PSizes, fw |-> 20, iw |-> 1] }

(* K: page-sized blocks (growth policy: doubling vs requirement, memory's own maximum) *)
KSizes == {8, 4096, 30000, 32768, 65528, 65536, 65537, 131072, 200000, 1048576}
KInits == { [bu |-> 0, bb |-> 0, pages |-> 0, memmax |-> 65536, sizes |-> KSizes, fw |-> 15, iw |-> 1],
            [bu |-> 100, bb |-> 0, pages |-> 1, memmax |-> 3, sizes |-> KSizes, fw |-> 15, iw |-> 1],
            [bu |-> 8000, bb |-> 4, pages |-> 2, memmax |-> 17, sizes |-> KSizes, fw |-> 15, iw |-> 1],
            [bu |-> 0, bb |-> 0, pages |-> 1, memmax |-> 100, sizes |-> KSizes, fw |-> 15, iw |-> 1] }

(* T: heap base just below 4 GiB -- "memory never grows past 4 GiB", the last block *)
(* may end exactly at 2^32                                                          *)
TSizes == {1, 8, 16, 24, 56}
TInits == { [bu |-> Top - 10, bb |-> 0, pages |-> 65536, memmax |-> 65536, sizes |-> TSizes, fw |-> 12, iw |-> 1],
            [bu |-> Top - 13, bb |-> 2, pages |-> 65535, memmax |-> 65536, sizes |-> TSizes, fw |-> 12, iw |-> 1],
            [bu |-> Top - 24, bb |-> 0, pages |-> 1, memmax |-> 65536, sizes |-> TSizes, fw |-> 12, iw |-> 1],
            [bu |-> Top - 8192 - 9, bb |-> 0, pages |-> 65535, memmax |-> 65536, sizes |-> TSizes, fw |-> 12, iw |-> 1],
            [bu |-> Top - 40, bb |-> 0, pages |-> 65535, memmax |-> 65535, sizes |-> TSizes, fw |-> 12, iw |-> 1],
            [bu |-> Top - 12, bb |-> 0, pages |-> 65534, memmax |-> 70000, sizes |-> TSizes, fw |-> 12, iw |-> 1],
            [bu |-> Top - 8192 - 4, bb |-> 6, pages |-> 40000, memmax |-> 131072, sizes |-> TSizes, fw |-> 12, iw |-> 1] }

(* I: invalid frees early and often (short behaviours: they end two steps after the poison) *)
ISizes == {8, 16, 24, 64, 100}
IInits == { [bu |-> 2, bb |-> 0, pages |-> 1, memmax |-> 65536, sizes |-> ISizes, fw |-> 14, iw |-> 12],
            [bu |-> 3, bb |-> 1, pages |-> 1, memmax |-> 65536, sizes |-> ISizes, fw |-> 14, iw |-> 12],
            [bu |-> 0, bb |-> 0, pages |-> 1, memmax |-> 65536, sizes |-> ISizes, fw |-> 14, iw |-> 12],
            [bu |-> 8192, bb |-> 0, pages |-> 1, memmax |-> 2, sizes |-> ISizes, fw |-> 14, iw |-> 12] }

MainInits == SInits \cup PInits \cup KInits
EdgeInits == TInits \cup IInits
=============================================================================
