--------------------------- MODULE PeerSet_Trace ---------------------------
(***************************************************************************)
(* C30, engine V: validation of operation histories recorded from the real *)
(* dot/peerset.PeerSet (harness/dot/peerset/zz_verif_peerset_test.go).     *)
(*                                                                         *)
(* trace.ndjson: one event per line, all with the same fields              *)
(*   ev    "reset" (a fresh PeerSet; the logged state is its initial one)  *)
(*         or "op"                                                         *)
(*   h, i  history number, step in the history                             *)
(*   op, ps, d   operation, listed peers (numbers 1..cfg.n), reputation    *)
(*         change of a Report / seconds of a Tick                          *)
(*   msgs  the Connect/Drop/Accept/Reject messages the call emitted        *)
(*   hang, panic   the call did not return (deadlock) / panicked           *)
(*   st, rep, res, nin, nout   projected state AFTER the call              *)
(*   noslot, mem   implementation detail used for consistency and for the  *)
(*         input class only (no-slot set; peer has a node in the map)      *)
(*   cfg   maxIn, maxOut, ro, thr, pen, min, max, n                        *)
(*                                                                         *)
(* Every line is judged on its own: pre-state = the state logged by the    *)
(* previous line, post-state and messages = this line.  A line is accepted *)
(* iff (1) no clause of the statement that held before is broken after     *)
(* (Broken) and (2) the logged post-state is one of the outcomes that the  *)
(* action relation of PeerSetOps allows for the logged messages (the       *)
(* logged Connect messages resolve the allocation choice).  A rejected     *)
(* line is printed with a classification and validation CONTINUES from the *)
(* logged state, so that one defect does not hide the rest; a later stage  *)
(* of the pipeline turns the VERIF-REJECT lines into signatures.           *)
(***************************************************************************)
EXTENDS PeerSetOps, Json

Trace == ndJsonDeserialize("trace.ndjson")

VARIABLES l, nrej
tvars == <<l, nrej>>

CfgOf(e) == [maxIn |-> e.cfg.maxIn, maxOut |-> e.cfg.maxOut, ro |-> e.cfg.ro, thr |-> e.cfg.thr,
             pen |-> e.cfg.pen, min |-> e.cfg.min, max |-> e.cfg.max]
PS(e) == 1..e.cfg.n
StateOf(e) == [st |-> [p \in PS(e) |-> e.st[p]], rep |-> [p \in PS(e) |-> e.rep[p]],
               res |-> {p \in PS(e) : e.res[p]}, nin |-> e.nin, nout |-> e.nout]
OpOf(e) == [op |-> e.op, ps |-> e.ps, d |-> e.d]
Listed(e) == SeqToSet(e.ps)
MsgsOf(e) == [i \in 1..Len(e.msgs) |-> Msg(e.msgs[i].k, e.msgs[i].p)]

(* first clause of the statement that held in s and is broken in t (a      *)
(* counter above its maximum is reported by the step that raised it)       *)
Broken(c, s, t, e) ==
  IF ~SlotsInOK(c, t) /\ t.nin > s.nin THEN "numIn-exceeds-maxIn"
  ELSE IF ~SlotsOutOK(c, t) /\ t.nout > s.nout THEN "numOut-exceeds-maxOut"
  ELSE IF CountInOK(s) /\ ~CountInOK(t) THEN "numIn-miscount"
  ELSE IF CountOutOK(s) /\ ~CountOutOK(t) THEN "numOut-miscount"
  ELSE IF NoBannedOK(c, s) /\ ~NoBannedOK(c, t) THEN "banned-connected"
  ELSE IF ~RepRangeOK(c, t) THEN "rep-out-of-range"
  ELSE IF ReservedOnlyOK(c, s) /\ ~ReservedOnlyOK(c, t) THEN "reservedonly-connected"
  ELSE IF \E p \in PS(e) : e.noslot[p] # e.res[p] THEN "noslot-desync"
  ELSE "ok"

(* classification of a transition that the relation does not allow: which  *)
(* defining effect of the operation is missing                             *)
Idx(e) == 1..Len(e.ps)
WhyReport(c, s, t, e) ==
  LET exp(p) == SatAdd(c, s.rep[p], e.d)
      applied(p) == t.rep[p] = exp(p)
  IN IF \E k \in Idx(e) : /\ k < Len(e.ps)
                          /\ \A i \in 1..k : applied(e.ps[i])
                          /\ exp(e.ps[k]) >= c.thr
                          /\ \A i \in (k + 1)..Len(e.ps) : t.rep[e.ps[i]] = s.rep[e.ps[i]]
                          /\ \E i \in (k + 1)..Len(e.ps) : ~applied(e.ps[i])
     THEN "later-peers-skipped"
     ELSE IF \E p \in Listed(e) : ~applied(p) THEN "rep-not-applied"
     ELSE IF \E p \in PS(e) \ Listed(e) : t.rep[p] # s.rep[p] THEN "rep-of-unlisted-changed"
     ELSE "unexplained"
WhyAddReserved(c, s, t, e) ==
  IF \E k \in Idx(e) : /\ e.ps[k] \in s.res
                       /\ \A i \in 1..k : e.ps[i] \in t.res
                       /\ \E i \in (k + 1)..Len(e.ps) : e.ps[i] \notin t.res
  THEN "later-peers-skipped"
  ELSE IF \E p \in Listed(e) : p \notin t.res THEN "not-reserved"
  ELSE "unexplained"
WhyRemoveReserved(c, s, t, e) ==
  IF \E k \in Idx(e) : /\ \A i \in 1..k : e.ps[i] \notin t.res
                       /\ \E i \in (k + 1)..Len(e.ps) : e.ps[i] \in t.res
  THEN "later-peers-skipped"
  ELSE IF \E p \in Listed(e) : p \in t.res THEN "still-reserved"
  ELSE "unexplained"
WhySetReserved(c, s, t, e) ==
  IF Listed(e) \subseteq t.res /\ t.res # Listed(e) THEN "stale-reservations-kept"
  ELSE IF t.res # Listed(e) THEN "reserved-set-wrong"
  ELSE "unexplained"
WhyAddPeer(c, s, t, e, prev) ==
  \* (a never seen peer that stays unknown was not reached at all; a forgotten one
  \* that still has a node may have been reached without effect: "not-added")
  IF \E k \in Idx(e) : /\ s.st[e.ps[k]] # "unknown"
                       /\ \A i \in 1..k : t.st[e.ps[i]] # "unknown"
                       /\ \E i \in (k + 1)..Len(e.ps) : t.st[e.ps[i]] = "unknown" /\ ~prev.mem[e.ps[i]]
  THEN "later-peers-skipped"
  ELSE IF \E k \in Idx(e) : /\ s.st[e.ps[k]] # "unknown"
                            /\ \A i \in 1..k : t.st[e.ps[i]] # "unknown"
                            /\ \E i \in (k + 1)..Len(e.ps) : t.st[e.ps[i]] = "unknown"
  THEN "later-forgotten-peer-not-added"
  ELSE IF \E p \in Listed(e) : t.st[p] = "unknown" THEN "not-added"
  ELSE "unexplained"
WhyRemovePeer(c, s, t, e) ==
  LET stays(p) == p \notin s.res /\ t.st[p] # "unknown"
  IN IF \E k \in Idx(e) : /\ e.ps[k] \in s.res
                          /\ \A i \in 1..k : ~stays(e.ps[i])
                          /\ \E i \in (k + 1)..Len(e.ps) : stays(e.ps[i])
     THEN "later-peers-skipped"
     ELSE IF \E p \in Listed(e) : stays(p) THEN "not-removed"
     ELSE "unexplained"
Why(c, s, t, e, prev) ==
  CASE e.op = "Report" -> WhyReport(c, s, t, e)
    [] e.op = "AddReserved" -> WhyAddReserved(c, s, t, e)
    [] e.op = "RemoveReserved" -> WhyRemoveReserved(c, s, t, e)
    [] e.op = "SetReserved" -> WhySetReserved(c, s, t, e)
    [] e.op = "AddPeer" -> WhyAddPeer(c, s, t, e, prev)
    [] e.op = "RemovePeer" -> WhyRemovePeer(c, s, t, e)
    [] OTHER -> "unexplained"

Verdict(prev, e) ==
  LET c == CfgOf(e)
      t == StateOf(e)
  IN IF e.hang THEN "hang"
     ELSE IF e.panic # "" THEN "panic"
     ELSE IF e.ev = "reset"
          THEN (IF SameState(t, EmptyState(PS(e))) /\ e.msgs = <<>> THEN "ok" ELSE "initial-state")
     ELSE LET s == StateOf(prev)
              b == Broken(c, s, t, e)
          IN IF b # "ok" THEN b
             ELSE IF e.op = "Tick"
                  THEN (IF TickOK(c, s, t) /\ e.msgs = <<>> THEN "ok" ELSE "unexplained")
             ELSE IF \E x \in Outcomes(c, s, OpOf(e), Guide(MsgsOf(e))) : SameState(x.s, t) THEN "ok"
             \* a pre-state above a slot maximum only exists after a step that was already
             \* rejected for raising the counter; what follows from it is classified apart
             ELSE IF ~SlotsInOK(c, s) \/ ~SlotsOutOK(c, s) THEN "from-exceeded-state"
             ELSE Why(c, s, t, e, prev)

(* input class: length of the list; a listed peer never seen by the peer   *)
(* set (no node); a listed peer that was forgotten but still has a node    *)
LenClass(e) == IF Len(e.ps) = 0 THEN "none" ELSE IF Len(e.ps) = 1 THEN "single" ELSE "multi"
Unseen(prev, e) == IF e.ev = "op" /\ \E p \in Listed(e) : ~prev.mem[p] THEN "unseen" ELSE "-"
Forgotten(prev, e) == IF e.ev = "op" /\ \E p \in Listed(e) : prev.mem[p] /\ prev.st[p] = "unknown" THEN "forgotten" ELSE "-"

TInit == l = 1 /\ nrej = 0 /\ TLCSet(1, 1) /\ TLCSet(2, 0)

TStep ==
  /\ l <= Len(Trace)
  /\ LET e == Trace[l]
         prev == IF l = 1 THEN e ELSE Trace[l - 1]
         v == Verdict(prev, e)
     IN IF v = "ok" THEN nrej' = nrej
        ELSE /\ PrintT(<<"VERIF-REJECT", ToJson(<<l, e.h, e.i, e.op, LenClass(e), Unseen(prev, e), Forgotten(prev, e), v>>)>>)
             /\ nrej' = nrej + 1
  /\ l' = l + 1

TraceSpec == TInit /\ [][TStep]_tvars

HighWater == /\ TLCSet(1, IF l > TLCGet(1) THEN l ELSE TLCGet(1))
             /\ TLCSet(2, IF nrej > TLCGet(2) THEN nrej ELSE TLCGet(2))
Accepted == /\ PrintT(<<"VERIF-SUMMARY", TLCGet(1) - 1, TLCGet(2), Len(Trace)>>)
            /\ PrintT(<<"VERIF-TRACE", TLCGet(1) - 1, Len(Trace)>>)
=============================================================================
