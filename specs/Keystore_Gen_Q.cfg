SPECIFICATION SpecCases
CONSTANTS
  Bits <- Bits07
  Quick = TRUE
INVARIANT Dump
CHECK_DEADLOCK FALSE
