SPECIFICATION Spec
CONSTANTS
  NV = 4
  Byz = {4}
  Parent <- P4
  MaxRound = 2
  CommitMin = 3
  PrevoteAboveEstimate = FALSE
  Depth = 60
INVARIANTS TypeOK HonestVoteOnce HonestPrecommitOnce Safety
VIEW View
CHECK_DEADLOCK FALSE
