SPECIFICATION SpecAll
CONSTANTS
  Keys <- MKeys
  Vals <- MVals
  Prefixes <- MPrefixes
  Limits <- MLimits
  OpKinds <- AllKinds
  FreezeParents = FALSE
  MaxHandles = 2
  Depth = 6
INVARIANTS TypeOK MapLaws RootSeparates
PROPERTY Isolation
VIEW View
CHECK_DEADLOCK FALSE
