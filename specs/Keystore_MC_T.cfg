SPECIFICATION SpecCases
CONSTANTS
  Bits <- BitsAll
  Quick = FALSE
INVARIANTS TypeOK RoundTrip TamperEvident MutationsChange ShortRejected
CHECK_DEADLOCK FALSE
