SPECIFICATION SpecRand
CONSTANTS
  NBlocks = 7
  NResp = 10
  MaxBatch = 3
  MaxLen = 4
  DamagePct = 30
INVARIANT Dump
CHECK_DEADLOCK FALSE
