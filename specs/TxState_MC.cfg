SPECIFICATION SpecAll
CONSTANTS
  Txs = {1, 2, 3}
  Prios = {1, 2}
  Depth = 5
INVARIANTS RemovedIsGone ExistsIsEither NoDuplicates
PROPERTY RemovedNotYielded
VIEW View
CHECK_DEADLOCK FALSE
