-------------------------- MODULE HostTrieRoot_Gen --------------------------
(* Constants for HostTrieRoot (C10).                                        *)
EXTENDS HostTrieRoot

(* keys sharing nibble prefixes, one a prefix of another, the empty key;    *)
(* values: empty, short, 32 and 33 bytes (hashed in state version 1), and   *)
(* 27..31 bytes: with a header byte, zero to three partial-key bytes and a  *)
(* length byte, leaves whose ENCODING is 31, 32 or 33 bytes, on both sides  *)
(* of the inline/hash rule for non-root nodes (seed C10e)                   *)
SKeys == { <<>>, <<16>>, <<16, 0>>, <<18>>, <<18, 1>>, <<18, 2>>, <<31>>, <<32>>, <<18, 83>>, Rep(33, 17) }
SVals == { <<>>, <<1>>, <<2>>, Rep(27, 4), Rep(28, 5), Rep(29, 6), Rep(30, 8), Rep(31, 2), Rep(32, 7), Rep(33, 9), Rep(40, 3) }
SLens == 0..12
(* long lists: indices cross the one-byte / two-byte compact boundary at 64 *)
LLens == {63, 64, 65, 70, 130}
SVersions == {0, 1, 2, 3, 255}
SDamages == {"cut1", "cuthalf", "count+1"}
AllDamages == {"none", "cut1", "cuthalf", "count+1"}

(* directed, exhaustive: every ordered list of up to three pairs over nested keys and values on both sides of the 32-byte *)
(* threshold, in both state versions (a root is a function of the MAP: the order in which a key and its extensions are     *)
(* listed, and which of them carries the long value, must not matter; seed C10d)                                            *)
DKeys == { <<18>>, <<18, 1>>, <<18, 1, 5>> }
DVals == { <<1>>, Rep(40, 3) }
DLens == 0..3
DVersions == {0, 1}

(* the same directed family on LONG nested keys: branch partial keys of 16, 18 and 20 nibbles, i.e. partial-key lengths that  *)
(* need the header's continuation bytes in the variants whose header keeps fewer length bits (branch with a hashed value;   *)
(* seed C10f)                                                                                                               *)
EKeys == { Rep(8, 17), Rep(8, 17) \o <<1>>, Rep(8, 17) \o <<1, 5>> }

MKeys == { <<16>>, <<16, 1>> }
MVals == { <<1>>, Rep(33, 9) }
MLens == 0..2
MVersions == {0, 1, 2, 255}
=============================================================================
