------------------------- MODULE FullSyncMonitor_Gen -------------------------
(***************************************************************************)
(* C32: generator of delivery scenarios for the real FullSyncStrategy.     *)
(* One behaviour = a random block tree of NBlocks blocks and a sequence of *)
(* batches (one batch = one call of Process) of responses.  A response is  *)
(* an ascending piece of a branch (so the tree arrives split, reordered,   *)
(* duplicated, forked and disconnected), then possibly damaged: a stated   *)
(* hash is forged (junk or another block's hash), a link is broken (a      *)
(* block dropped from the middle, a block replaced, the order reversed),   *)
(* or the response is empty.  No expectations are emitted: the recorded    *)
(* run is judged by FullSyncMonitor_Trace.                                 *)
(***************************************************************************)
EXTENDS FullSyncOps

CONSTANTS NBlocks,    \* blocks of the tree
          NResp,      \* responses per behaviour
          MaxBatch,   \* responses per Process call, at most
          MaxLen,     \* longest response
          DamagePct   \* percentage of damaged responses

VARIABLES par, batches, cur, nresp, done
vars == <<par, batches, cur, nresp, done>>

Z == 0 * Len(par) + 0 * Len(cur) + 0 * nresp

Init == par = <<>> /\ batches = <<>> /\ cur = <<>> /\ nresp = 0 /\ done = FALSE

AddBlock ==
  /\ Len(par) < NBlocks
  /\ LET n == Len(par)
         w == RandomElement(1..(3 + Z))
     IN par' = Append(par, IF w = 1 THEN n ELSE RandomElement(0..n))
  /\ UNCHANGED <<batches, cur, nresp, done>>

(* rl = 1: the header sent for b is RELINKED, i.e. a copy whose parent hash is the hash STATED *)
(* for the previous entry (a forged hash and a child relinked to it cooperate: the response    *)
(* looks hash-linked by its stated hashes although no header hashes to the stated value)       *)
Honest(s) == [i \in 1..Len(s) |-> [b |-> s[i], st |-> s[i], rl |-> 0]]

(* ascending piece of the branch ending at e, k blocks at most, no genesis *)
Piece(e, k) ==
  LET d == SFDown(par, e, k)
      dd == IF Len(d) > 0 /\ d[Len(d)] = 0 THEN SubSeq(d, 1, Len(d) - 1) ELSE d
  IN SFReverse(dd)

DropAt(s, i) == SubSeq(s, 1, i - 1) \o SubSeq(s, i + 1, Len(s))

Damage(es) ==
  LET kind == RandomElement(1..(10 + Z))
      i == RandomElement(1..(Len(es) + Z))
      other == RandomElement(1..(NBlocks + Z))
  IN CASE kind = 1 -> [es EXCEPT ![i].st = -1]                               \* junk stated hash
       [] kind = 2 -> [es EXCEPT ![i].st = IF other = es[i].b THEN -1 ELSE other]  \* another block's hash
       [] kind = 3 -> IF Len(es) >= 3 THEN DropAt(es, 2) ELSE [es EXCEPT ![i].st = -1]  \* gap
       [] kind = 4 -> IF other \in RespBlocks(es) THEN SFReverse(es) ELSE [es EXCEPT ![i] = [b |-> other, st |-> other, rl |-> 0]]  \* foreign block
       [] kind = 5 -> IF Len(es) >= 2 THEN SFReverse(es) ELSE <<>>           \* wrong order
       [] kind \in {7, 8} -> IF Len(es) >= 2                                \* forged hash + relinked child
                             THEN LET j == RandomElement(1..(Len(es) - 1 + Z))
                                  IN [es EXCEPT ![j].st = -1, ![j + 1].rl = 1]
                             ELSE [es EXCEPT ![i].st = -1]
       [] kind \in {9, 10} -> [es EXCEPT ![i].rl = 2]                        \* a header with the all-zero parent hash (seed C32e)
       [] OTHER -> <<>>                                                      \* empty response

RandResp ==
  LET e == RandomElement(1..(NBlocks + Z))
      k == RandomElement(1..(MaxLen + Z))
      es == Honest(Piece(e, k))
      dmg == RandomElement(1..(100 + Z)) <= DamagePct
      dir == IF RandomElement(1..(3 + Z)) = 1 THEN "desc" ELSE "asc"
  IN [dir |-> dir, es |-> IF dmg THEN Damage(es) ELSE es]

Step ==
  /\ Len(par) = NBlocks
  /\ (nresp < NResp \/ cur # <<>>)
  /\ IF nresp = NResp \/ Len(cur) >= MaxBatch \/ (cur # <<>> /\ RandomElement(1..(2 + Z)) = 1)
     THEN batches' = Append(batches, cur) /\ cur' = <<>> /\ UNCHANGED nresp
     ELSE cur' = Append(cur, RandResp) /\ nresp' = nresp + 1 /\ UNCHANGED batches
  /\ UNCHANGED <<par, done>>

Finish == /\ ~done /\ nresp = NResp /\ cur = <<>> /\ done' = TRUE /\ UNCHANGED <<par, batches, cur, nresp>>

NextRand == AddBlock \/ Step \/ Finish
SpecRand == Init /\ [][NextRand]_vars

Dump == done => PrintT(<<"TRACE", ToJson([family |-> "FullSyncMonitor", par |-> par,
                                            steps |-> [i \in 1..Len(batches) |-> [batch |-> batches[i]]]])>>)
=============================================================================
