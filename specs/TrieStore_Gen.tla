--------------------------- MODULE TrieStore_Gen ---------------------------
(* Generator / model-checking constants for TrieStore (C04, C06).          *)
EXTENDS TrieStore

StAllKinds == {"Put", "Delete", "SetVersion", "Commit", "Reopen"}

(* alphabet "short": shared nibble prefixes, a key that is a prefix of     *)
(* others, the empty key; values of 0,1,31,32,33,40 bytes (the inline /    *)
(* hashed threshold of state version 1 is "longer than 32")                *)
GsKeys == { <<>>, <<16>>, <<16, 0>>, <<18>>, <<18, 1>>, <<18, 2>>, <<31>>, <<32>>, <<18, 83>>, <<18, 84>> }
GsVals == { <<>>, <<1>>, Rep(31, 5), Rep(32, 7), Rep(33, 9), Rep(40, 3) }
GsProbe == { <<17>>, <<18, 1, 0>>, <<18, 80>>, <<1>>, <<48>> }

(* alphabet "long": partial keys of 62..66 and 317..320 nibbles *)
GlKeys == { Rep(31, 17), Rep(32, 17), Rep(33, 17), Rep(32, 17) \o <<1>>,
            Rep(159, 34), Rep(160, 34), Rep(160, 34) \o <<5>>, <<34>> }
GlVals == { <<1>>, Rep(33, 9), <<>>, Rep(32, 4) }
GlProbe == { Rep(31, 17) \o <<2>>, Rep(4, 17), <<35>> }

(* alphabet "inline": child encodings of 31/32/33 bytes (inline vs hashed  *)
(* child boundary), inlined BRANCH children (a branch of two tiny leaves), *)
(* branch with value and inlined children                                  *)
GiKeys == { <<1, 1>>, <<1, 2>>, <<1>>, <<1, 1, 1>>, <<2>>, <<1, 16>>, <<1, 1, 2>>, <<3, 1>>, <<3, 2>> }
GiVals == { Rep(25, 1), Rep(26, 2), Rep(27, 3), Rep(28, 4), <<>>, <<7>>, Rep(10, 6), Rep(33, 8), Rep(32, 5) }
GiProbe == { <<1, 3>>, <<1, 1, 3>>, <<3>>, <<4>>, <<3, 1, 0>> }

(* tiny constants for exhaustive model checking of the specification:      *)
(* nested keys, an inlined branch child (<<18,1>>/<<18,2>> with one-byte   *)
(* values under <<18>>), a hashed and an inline value                      *)
GmKeys == { <<>>, <<18>>, <<18, 1>>, <<18, 2>>, <<31>> }
GmVals == { <<1>>, Rep(33, 9) }
GmProbe == { <<18, 3>>, <<1>>, <<18, 1, 0>> }
=============================================================================
