------------------------------- MODULE PeerSet -------------------------------
(***************************************************************************)
(* C30, engine M: the peer set as a generative state machine over the      *)
(* action relation of PeerSetOps.  One step = one call of the PeerSet      *)
(* (addReservedPeers, removeReservedPeers, setReservedPeer, addPeer,       *)
(* removePeer, reportPeer, incoming, disconnect, the periodic allocSlots,  *)
(* the passing of k seconds).  "For every sequence of peer additions,      *)
(* removals, reservations, reputation reports, incoming connections,       *)
(* disconnections and time ticks": Next offers every operation with every  *)
(* argument list (no repeated peer) in every state, and every outcome the  *)
(* relation allows.  The configuration (maxIn, maxOut in Limits,           *)
(* reserved-only on and off) is chosen in Init.                            *)
(***************************************************************************)
EXTENDS PeerSetOps

CONSTANTS Peers,      \* small peer population
          Limits,     \* values of maxIn / maxOut
          MinRep, MaxRep, Threshold, Penalty, TickDiv,  \* scaled-down reputation type
          Deltas,     \* reputation changes that can be reported
          MaxList,    \* longest argument list
          MaxReportList, \* longest argument list of a report
          Ticks       \* numbers of seconds that can pass in one step

VARIABLES cfg, s, last, msgs
vars == <<cfg, s, last, msgs>>

Cfgs == {[maxIn |-> i, maxOut |-> o, ro |-> r, thr |-> Threshold, pen |-> Penalty, min |-> MinRep, max |-> MaxRep]
           : i \in Limits, o \in Limits, r \in BOOLEAN}

(* argument lists: sequences over Peers without repetition, 1..MaxList long *)
ListsTo(m) == {q \in UNION {[1..n -> Peers] : n \in 1..m} : \A i, j \in 1..Len(q) : i # j => q[i] # q[j]}
Lists == ListsTo(MaxList)
ListOps == {[op |-> k, ps |-> q, d |-> 0] : k \in {"AddReserved", "RemoveReserved", "AddPeer", "RemovePeer", "Incoming", "Disconnect"}, q \in Lists}
             \cup {[op |-> "SetReserved", ps |-> q, d |-> 0] : q \in Lists \cup {<<>>}}
             \cup {[op |-> "Report", ps |-> q, d |-> d] : q \in ListsTo(MaxReportList), d \in Deltas}
             \cup {[op |-> "Alloc", ps |-> <<>>, d |-> 0]}
TickOps == {[op |-> "Tick", ps |-> <<>>, d |-> k] : k \in Ticks}

Init == /\ cfg \in Cfgs
        /\ s = EmptyState(Peers)
        /\ last = [op |-> "Init", ps |-> <<>>, d |-> 0]
        /\ msgs = <<>>

DoOp(o) == \E x \in Outcomes(cfg, s, o, AnyGuide) : s' = x.s /\ msgs' = x.out /\ last' = o /\ UNCHANGED cfg
DoTick(o) == \E t \in TickGen(cfg, s, o.d, TickDiv) : s' = t /\ msgs' = <<>> /\ last' = o /\ UNCHANGED cfg

Next == (\E o \in ListOps : DoOp(o)) \/ (\E o \in TickOps : DoTick(o))
Spec == Init /\ [][Next]_vars

(* random walks for constants too large to exhaust: one operation per step, *)
(* every outcome of it a successor                                         *)
NextRand == \E o \in {RandomElement({x \in ListOps \cup TickOps : s = s})} : IF o.op = "Tick" THEN DoTick(o) ELSE DoOp(o)
SpecRand == Init /\ [][NextRand]_vars

(* ---- the property, as invariants of the specification ------------------ *)
TypeOK == /\ s.st \in [Peers -> {"unknown", "notConnected", "in", "out"}]
          /\ s.res \subseteq Peers /\ s.nin \in Nat /\ s.nout \in Nat
SlotsIn == SlotsInOK(cfg, s)
SlotsOut == SlotsOutOK(cfg, s)
CountIn == CountInOK(s)
CountOut == CountOutOK(s)
NoBanned == NoBannedOK(cfg, s)
RepRange == RepRangeOK(cfg, s)
ReservedOnly == ReservedOnlyOK(cfg, s)

(* ---- the property, as properties of every step ------------------------- *)
MsgSet(k) == {msgs'[i].p : i \in {j \in 1..Len(msgs') : msgs'[j].k = k}}
(* "a reputation change reported for several peers applies to each of      *)
(*  them", "reputation arithmetic saturates" (SatAdd = clamped sum, below) *)
Clamp(v) == IF v < MinRep THEN MinRep ELSE IF v > MaxRep THEN MaxRep ELSE v
ReportReachesAll ==
  [][last'.op = "Report" =>
       \A p \in Peers : s'.rep[p] = IF p \in SeqToSet(last'.ps) THEN SatAdd(cfg, s.rep[p], last'.d) ELSE s.rep[p]]_vars
(* "No non-reserved peer with reputation below the ban threshold is ...    *)
(*  accepted": an Accept or Connect goes to a reserved peer or to a peer   *)
(*  at or above the threshold (a report later in the same call may still   *)
(*  take it below: then it is dropped again in that call)                  *)
NeverAcceptBanned ==
  [][\A i \in 1..Len(msgs') : msgs'[i].k \in {"Accept", "Connect"} =>
        LET p == msgs'[i].p IN
          \/ p \in s'.res \/ p \in s.res
          \/ s'.rep[p] >= cfg.thr
          \/ \E j \in (i + 1)..Len(msgs') : msgs'[j] = Msg("Drop", p)]_vars
(* the network only learns of connections through messages: whoever is     *)
(* connected after a step was connected before or was told so, whoever     *)
(* stopped being connected was dropped                                     *)
MessagesExplainState ==
  [][\A p \in Peers :
        /\ (Conn(s', p) /\ ~Conn(s, p)) => p \in MsgSet("Connect") \cup MsgSet("Accept")
        /\ (Conn(s, p) /\ ~Conn(s', p)) => p \in MsgSet("Drop")]_vars
(* the decay formula of the code is an instance of the relation that       *)
(* recorded ticks are checked against                                      *)
TickRefinesRelation == [][last'.op = "Tick" => TickOK(cfg, s, s') /\ msgs' = <<>>]_vars
(* SatAdd is the mathematical sum clamped to the range of the type; checked *)
(* exhaustively where the constants are small enough for r + d not to      *)
(* leave TLC's own 32-bit integers                                         *)
ASSUME (MaxRep <= 64 /\ MinRep >= -64) =>
         \A r \in MinRep..MaxRep, d \in (2 * MinRep)..(2 * MaxRep) :
           SatAdd([min |-> MinRep, max |-> MaxRep], r, d) = Clamp(r + d)

(* the relation is total: no call is left without an allowed outcome (a    *)
(* recorded transition is never rejected for lack of one)                  *)
EveryOpHasOutcome == \A o \in ListOps : Outcomes(cfg, s, o, AnyGuide) # {}

View == <<cfg, s>>
=============================================================================
