SPECIFICATION SpecAll
CONSTANTS
  Txs = {1, 2, 3}
  Prios = {1, 2}
  Depth = 6
INVARIANTS NoDuplicates UniqueOrd AtMostOnce
PROPERTY PopIsBest
VIEW View
CHECK_DEADLOCK FALSE
