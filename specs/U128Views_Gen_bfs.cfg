SPECIFICATION SpecAll
CONSTANTS
  Depth = 1
  Universe = "cover"
  ByteVals <- BV
INVARIANT Dump
CHECK_DEADLOCK FALSE
