--------------------------- MODULE TrieChildStore ---------------------------
(***************************************************************************)
(* C04 "Persisted state reads back identically" WITH CHILD TRIES.          *)
(*                                                                         *)
(*  "For every state of either version, with or without child tries,       *)
(*   written to the database (including incremental writes of successive    *)
(*   block states), reloading it by root hash gives the same root, entries  *)
(*   and child tries.  Reading a single key directly from the database by   *)
(*   root hash returns the same value as the in-memory state, and absent    *)
(*   keys read as absent."                                                  *)
(*                                                                         *)
(* A state is a pair (m, ch): the ordinary entries of the main trie and a   *)
(* function  child name -> child map.  A child trie is an entry            *)
(*     ":child_storage:default:" ++ name  ->  root hash of the child        *)
(* of the MAIN trie (MainMap) plus the child's own rows in the same         *)
(* content-addressed store (DbRows).  The child root is a hash TOKEN        *)
(* (Bytes!H) used as a 32-byte VALUE, so the encoder from the map is        *)
(* restated here with byte lengths that count a token as 32 (EncNodeT;      *)
(* invariant EncAgree ties it to TrieSpec!EncNode on token-free maps).      *)
(* Reading never looks at the maps: it walks the blobs with the total       *)
(* decoder TrieCodec!DecN from the root, and reaches a child trie ONLY      *)
(* through the value read under the child key (ChildReadBack).              *)
(*                                                                         *)
(*   "with or without child tries"      -> operations PutChild, ClearChild, *)
(*                                         SetChild, DeleteChild next to    *)
(*                                         Put / Delete                     *)
(*   "incremental writes of successive  -> Commit adds DbRows of the        *)
(*    block states"                        working state; History: EVERY    *)
(*                                         root committed so far reads back *)
(*   "same root, entries and child      -> ChildReadBack (whole state and   *)
(*    tries"                               every child trie, by walking),   *)
(*                                         RootCommits (the root determines *)
(*                                         entries AND child tries)         *)
(*   "single key ... absent keys"       -> Lookup on main and child roots   *)
(*   "either version"                   -> constant CsV1 (two configs)      *)
(* Version migration (SetVersion on a populated state) is the subject of    *)
(* TrieStore and is not repeated here.  What ClearChild does to a child     *)
(* that becomes empty (the child entry disappears) follows the code and     *)
(* Substrate; the property does not depend on it.                           *)
(***************************************************************************)
EXTENDS TrieCodec, TLC, Json

CONSTANTS CsKeys,       \* ordinary main-trie keys that are written (none starts with the child prefix)
          CsVals,       \* main-trie values
          CsProbe,      \* main-trie keys only read / deleted
          CsNames,      \* child names
          CsCKeys,      \* keys written inside child tries
          CsCVals,      \* child values
          CsCProbe,     \* child keys only read / cleared
          CsSetSeq,     \* sequence of child maps installed whole by SetChild
          CsDepth, CsMaxCommits, CsOpKinds,
          CsV1          \* BOOLEAN state version of the whole behaviour

VARIABLES m,         \* ordinary entries of the working main trie
          ch,        \* child name -> child map of the working state
          db,        \* set of blobs
          root,      \* root of the last commit
          cm, cch,   \* the last committed state
          persisted, \* set of <<root, m, ch>> of every commit
          ncommit, hist, done

cvars == <<m, ch, db, root, cm, cch, persisted, ncommit, hist, done>>

--------------------------------------------------------------------------
(* ---- the main trie of a state with child tries --------------------------- *)

(* ":child_storage:default:" *)
ChildPrefix == <<58, 99, 104, 105, 108, 100, 95, 115, 116, 111, 114, 97, 103, 101, 58,
                 100, 101, 102, 97, 117, 108, 116, 58>>
CKey(c) == ChildPrefix \o c
NameOf(k) == Drop(k, Len(ChildPrefix))
IsChildKey(k) == IsPrefixOf(ChildPrefix, k)

NoChildren == [x \in {} |-> EmptyMap]

MainMap(mm, cc, v1) ==
  LET CK == {CKey(c) : c \in DOMAIN cc}
  IN [k \in DOMAIN mm \cup CK |-> IF k \in CK THEN Root(cc[NameOf(k)], v1) ELSE mm[k]]

(* TrieSpec!EncNode with token-aware value lengths *)
VHashed(v, v1) == v1 /\ ByteLen(v) > 32
EncValueT(v, v1) == IF VHashed(v, v1) THEN H(v) ELSE Compact(ByteLen(v)) \o v

RECURSIVE EncNodeT(_, _)
EncNodeT(kv, v1) ==
  LET K == DOMAIN kv
  IN IF Cardinality(K) = 1
     THEN LET k == CHOOSE x \in K : TRUE
              v == kv[k]
          IN (IF VHashed(v, v1) THEN Header(32, 31, Len(k)) ELSE Header(64, 63, Len(k)))
             \o NibblesToKeyLE(k) \o EncValueT(v, v1)
     ELSE LET pk == LCP(K)
              n == Len(pk)
              hasV == pk \in K
              C == {k[n + 1] : k \in K \ {pk}}
              Sub(c) == LET Kc == {k \in K : Len(k) > n /\ k[n + 1] = c}
                            D == {Drop(k, n + 1) : k \in Kc}
                        IN [s \in D |-> kv[pk \o <<c>> \o s]]
              hdr == IF ~hasV THEN Header(128, 63, n)
                     ELSE IF VHashed(kv[pk], v1) THEN Header(16, 15, n)
                     ELSE Header(192, 63, n)
              RECURSIVE Kids(_)
              Kids(c) == IF c > 15 THEN <<>>
                         ELSE (IF c \in C THEN ChildRef(EncNodeT(Sub(c), v1)) ELSE <<>>) \o Kids(c + 1)
          IN hdr \o NibblesToKeyLE(pk) \o Bitmap(C)
             \o (IF hasV THEN EncValueT(kv[pk], v1) ELSE <<>>) \o Kids(0)

RootEncT(mm, v1) == IF DOMAIN mm = {} THEN <<0>> ELSE EncNodeT(NibbleMap(mm), v1)
RootT(mm, v1) == H(RootEncT(mm, v1))

RECURSIVE HashedNodesT(_, _, _)
HashedNodesT(kv, v1, isRoot) ==
  LET K == DOMAIN kv
      enc == EncNodeT(kv, v1)
      self == IF isRoot \/ ~IsShort(enc) THEN {enc} ELSE {}
  IN IF Cardinality(K) = 1 THEN self
     ELSE LET pk == LCP(K)
              n == Len(pk)
              C == {k[n + 1] : k \in K \ {pk}}
              Sub(c) == LET Kc == {k \in K : Len(k) > n /\ k[n + 1] = c}
                            D == {Drop(k, n + 1) : k \in Kc}
                        IN [s \in D |-> kv[pk \o <<c>> \o s]]
          IN self \cup UNION {HashedNodesT(Sub(c), v1, FALSE) : c \in C}

StoredNodesT(mm, v1) == IF DOMAIN mm = {} THEN {<<0>>} ELSE HashedNodesT(NibbleMap(mm), v1, TRUE)
RowsT(mm, v1) == StoredNodesT(mm, v1) \cup {mm[k] : k \in {x \in DOMAIN mm : VHashed(mm[x], v1)}}

(* what a commit of the state (mm, cc) must make readable: the main trie    *)
(* (child roots as values) and the rows of every child trie                 *)
DbRows(mm, cc, v1) == RowsT(MainMap(mm, cc, v1), v1) \cup UNION {Rows(cc[c], v1) : c \in DOMAIN cc}

StateRoot(mm, cc, v1) == RootT(MainMap(mm, cc, v1), v1)

--------------------------------------------------------------------------
(* ---- operations ---------------------------------------------------------- *)

CRestr(f, K) == [k \in K |-> f[k]]
CMapPut(f, k, v) == [x \in DOMAIN f \cup {k} |-> IF x = k THEN v ELSE f[x]]
CMapDel(f, k) == CRestr(f, DOMAIN f \ {k})
CEntries(mm) == LET ks == SortedSeq(DOMAIN mm) IN [i \in 1..Len(ks) |-> <<ks[i], mm[ks[i]]>>]
CChildren(cc, v1) ==
  LET ns == SortedSeq(DOMAIN cc)
  IN [i \in 1..Len(ns) |-> [name |-> ns[i], root |-> Root(cc[ns[i]], v1), entries |-> CEntries(cc[ns[i]])]]

COps ==
  {o \in    {[op |-> "Put", k |-> k, v |-> v] : k \in CsKeys, v \in CsVals}
       \cup {[op |-> "Delete", k |-> k] : k \in CsKeys \cup CsProbe}
       \cup {[op |-> "PutChild", c |-> c, k |-> k, v |-> v] : c \in CsNames, k \in CsCKeys, v \in CsCVals}
       \* clearing the EMPTY key is left out: the in-memory Delete("") matches any root (recorded under C02)
       \cup {[op |-> "ClearChild", c |-> c, k |-> k] : c \in CsNames, k \in (CsCKeys \cup CsCProbe) \ {<<>>}}
       \cup {[op |-> "SetChild", c |-> c, i |-> i, e |-> CEntries(CsSetSeq[i])] : c \in CsNames, i \in 1..Len(CsSetSeq)}
       \cup {[op |-> "DeleteChild", c |-> c] : c \in CsNames}
       \cup {[op |-> "Commit"], [op |-> "Reopen"]}
     : o.op \in CsOpKinds}

(* PutChild = InMemoryTrie.PutIntoChild (creates the child), ClearChild =    *)
(* ClearFromChild (an emptied child disappears), SetChild installs a whole   *)
(* child trie, DeleteChild removes one; Commit = Hash + WriteDirty (dot/state *)
(* StoreTrie); Reopen = continue on a state loaded from the store at the last *)
(* committed root (uncommitted writes are lost)                               *)
CApply(o) ==
  CASE o.op = "Put" -> /\ m' = CMapPut(m, o.k, o.v)
                       /\ UNCHANGED <<ch, db, root, cm, cch, persisted, ncommit>>
    [] o.op = "Delete" -> /\ m' = CMapDel(m, o.k)
                          /\ UNCHANGED <<ch, db, root, cm, cch, persisted, ncommit>>
    [] o.op = "PutChild" ->
         /\ ch' = CMapPut(ch, o.c, CMapPut(IF o.c \in DOMAIN ch THEN ch[o.c] ELSE EmptyMap, o.k, o.v))
         /\ UNCHANGED <<m, db, root, cm, cch, persisted, ncommit>>
    [] o.op = "ClearChild" ->
         /\ ch' = (IF o.c \notin DOMAIN ch THEN ch
                   ELSE LET n == CMapDel(ch[o.c], o.k)
                        IN IF DOMAIN n = {} THEN CMapDel(ch, o.c) ELSE CMapPut(ch, o.c, n))
         /\ UNCHANGED <<m, db, root, cm, cch, persisted, ncommit>>
    [] o.op = "SetChild" -> /\ ch' = CMapPut(ch, o.c, CsSetSeq[o.i])
                            /\ UNCHANGED <<m, db, root, cm, cch, persisted, ncommit>>
    [] o.op = "DeleteChild" -> /\ ch' = CMapDel(ch, o.c)
                               /\ UNCHANGED <<m, db, root, cm, cch, persisted, ncommit>>
    [] o.op = "Commit" ->
         /\ cm' = m /\ cch' = ch /\ ncommit' = ncommit + 1
         /\ root' = StateRoot(m, ch, CsV1)
         /\ db' = db \cup DbRows(m, ch, CsV1)
         /\ persisted' = persisted \cup {<<StateRoot(m, ch, CsV1), m, ch>>}
         /\ UNCHANGED <<m, ch>>
    [] o.op = "Reopen" -> /\ m' = cm /\ ch' = cch
                          /\ UNCHANGED <<db, root, cm, cch, persisted, ncommit>>

(* observation after the step: root, main-trie entries (child roots as     *)
(* values) and child tries of the working state and of the committed state  *)
CObs == [root |-> StateRoot(m', ch', CsV1), v1 |-> CsV1,
         entries |-> CEntries(MainMap(m', ch', CsV1)), children |-> CChildren(ch', CsV1),
         croot |-> root', centries |-> CEntries(MainMap(cm', cch', CsV1)), cchildren |-> CChildren(cch', CsV1),
         ncommit |-> ncommit']

CStep(o) ==
  /\ ~done
  /\ Len(hist) < CsDepth
  /\ (o.op = "Commit" => ncommit < CsMaxCommits)
  /\ CApply(o)
  /\ hist' = Append(hist, [o |-> o, obs |-> CObs])
  /\ UNCHANGED done

CFinish == /\ ~done /\ Len(hist) = CsDepth /\ done' = TRUE
           /\ UNCHANGED <<m, ch, db, root, cm, cch, persisted, ncommit, hist>>

CInit == /\ m = EmptyMap /\ ch = NoChildren
         /\ db = {<<0>>} /\ root = Root(EmptyMap, FALSE) /\ cm = EmptyMap /\ cch = NoChildren
         /\ persisted = {<<Root(EmptyMap, FALSE), EmptyMap, NoChildren>>}
         /\ ncommit = 0 /\ hist = <<>> /\ done = FALSE

CNextAll == (\E o \in COps : CStep(o)) \/ CFinish

CWeighted == <<"Put", "Put", "Delete", "PutChild", "PutChild", "PutChild", "PutChild", "ClearChild", "ClearChild",
               "SetChild", "DeleteChild", "Commit", "Commit", "Commit", "Commit", "Reopen">>
CPickOp ==
  LET kinds == {i \in 1..Len(CWeighted) : CWeighted[i] \in CsOpKinds /\ Len(hist) >= 0}  \* state-level on purpose
      kd == CWeighted[RandomElement(kinds)]
      cand == {o \in COps : o.op = kd}
  IN IF cand = {} THEN RandomElement(COps) ELSE RandomElement(cand)
CNextRand == (\E o \in {CPickOp} : CStep(o)) \/ CFinish

CSpecAll == CInit /\ [][CNextAll]_cvars
CSpecRand == CInit /\ [][CNextRand]_cvars

CDump == done => PrintT(<<"TRACE", ToJson(hist)>>)

--------------------------------------------------------------------------
(* ---- properties of the specification (engine M) ------------------------- *)

CTypeOK == /\ DOMAIN m \subseteq CsKeys /\ DOMAIN cm \subseteq CsKeys
           /\ DOMAIN ch \subseteq CsNames /\ DOMAIN cch \subseteq CsNames
           /\ \A c \in DOMAIN ch : DOMAIN ch[c] # {} /\ DOMAIN ch[c] \subseteq CsCKeys
           /\ \A k \in CsKeys \cup CsProbe : ~IsChildKey(k)
           /\ ncommit \in 0..CsMaxCommits

CMainProbe == CsKeys \cup CsProbe \cup {CKey(c) : c \in CsNames} \cup {ChildPrefix}
CChildProbe == CsCKeys \cup CsCProbe
CExpect(mm, k) == IF k \in DOMAIN mm THEN Found(mm[k]) ELSE Absent

NibPrefix == KeyToNibbles(ChildPrefix)

(* "reloading it by root hash gives the same ... entries and child tries;    *)
(*  reading a single key ... absent keys read as absent": everything is      *)
(* obtained by WALKING d from r; a child trie is reached through the value    *)
(* read under its key and nothing else                                        *)
ChildReadBack(d, r, mm, cc, v1) ==
  LET full == MainMap(mm, cc, v1)
      l == LoadEntries(d, r)
  IN /\ l.ok /\ l.kv = MapKV(full)
     /\ \A k \in CMainProbe : Lookup(d, r, k) = CExpect(full, k)
     \* the child tries of the reloaded state are exactly the state's
     /\ {e[1] : e \in {x \in l.kv : IsPrefixOf(NibPrefix, x[1])}} = {KeyToNibbles(CKey(c)) : c \in DOMAIN cc}
     /\ \A c \in DOMAIN cc :
          LET p == Lookup(d, r, CKey(c))
          IN /\ p.st = "found"
             /\ LET lc == LoadEntries(d, p.v) IN lc.ok /\ lc.kv = MapKV(cc[c])
             /\ \A k \in CChildProbe : Lookup(d, p.v, k) = CExpect(cc[c], k)

(* the last committed state *)
CReadBack == ChildReadBack(db, root, cm, cch, CsV1)

(* "incremental writes of successive block states": every committed state   *)
CHistory == \A p \in persisted : ChildReadBack(db, p[1], p[2], p[3], CsV1)

(* "the same root": the root names entries AND child tries; two committed    *)
(* states with one root are the same state (a change inside a child trie     *)
(* changes the root of the state)                                            *)
RootCommits == \A p, q \in persisted : p[1] = q[1] => (p[2] = q[2] /\ p[3] = q[3])

(* the token-aware encoder is TrieSpec's on token-free maps                  *)
EncAgree == \A p \in persisted : \A v \in BOOLEAN :
              /\ RootEncT(p[2], v) = RootEnc(p[2], v)
              /\ RowsT(p[2], v) = Rows(p[2], v)

(* C07 on every stored main-trie node (child roots inside inline values)     *)
CStoredRoundTrip ==
  \A p \in persisted : \A x \in StoredNodesT(MainMap(p[2], p[3], CsV1), CsV1) :
     IsEncoding(x) /\ WellFormed(DecN(x).node) /\ RoundTrip(DecN(x).node)

(* C03 seen from the store: a committed state is a SNAPSHOT -- no operation  *)
(* on the working state (the TrieState handed out for the next block)       *)
(* changes the committed state, its root, or what the store holds; only a   *)
(* Commit moves them (checked as an action property; bound to dot/state by   *)
(* reading the committed root through a second TrieState and through the     *)
(* Tries cache after every operation of the working one)                     *)
CommittedStable ==
  [][ncommit' = ncommit => (cm' = cm /\ cch' = cch /\ root' = root /\ db' = db /\ persisted' = persisted)]_cvars

CView == <<m, ch, db, root, cm, cch, persisted, ncommit>>
=============================================================================
