------------------------------ MODULE TrieStore ------------------------------
(***************************************************************************)
(* A trie state that is PERSISTED to a content-addressed store and read    *)
(* back by root hash.  One specification for the two persistence engines:  *)
(*                                                                         *)
(*  C06 (pkg/trie/triedb)   "For every key/value map, state version and    *)
(*       sequence of inserts and deletes, the database-backed trie engine  *)
(*       computes the spec root [obs.root = TrieSpec!Root(m, v1) at every  *)
(*       Commit].  After it commits, a fresh instance opened at that root  *)
(*       returns the same value for every key and absent for all others    *)
(*       [invariant ReadBack: Lookup(db, root, k) = m[k] / absent]."       *)
(*                                                                         *)
(*  C04 (pkg/trie/inmemory WriteDirty/Load/GetFromDB, dot/state)           *)
(*       "For every state of either version ... written to the database    *)
(*       (including incremental writes of successive block states),        *)
(*       reloading it by root hash gives the same root, entries            *)
(*       [invariants ReadBack, History: LoadEntries(db, r) = the map       *)
(*       persisted under r, for EVERY root persisted so far].  Reading a   *)
(*       single key directly from the database by root hash returns the    *)
(*       same value as the in-memory state, and absent keys read as        *)
(*       absent [Lookup]."                                                 *)
(*                                                                         *)
(* The store is a SET OF BLOBS addressed by their hash (node encodings     *)
(* that are not inlined in their parent, the root encoding always, and     *)
(* the raw values of hashed V1 values).  How an engine derives the         *)
(* database key of a blob (hash only, partial key ++ hash, nibble path ++  *)
(* hash) is not part of either statement and is left to the engines.       *)
(* Reading is defined by WALKING the blobs with the total decoder          *)
(* TrieCodec!DecN -- it never looks at the map; the map is only used to    *)
(* say what a Commit must add (Rows) and what reads must return.           *)
(***************************************************************************)
EXTENDS TrieCodec, TLC, Json

CONSTANTS StKeys,        \* finite set of byte-string keys that are written
          StVals,        \* finite set of byte-string values
          StProbe,       \* finite set of byte-string keys that are only read / deleted (absent keys)
          StDepth,       \* behaviour length
          StMaxCommits,  \* bound on the number of commits (model checking only; generator uses StDepth)
          StPrune,       \* subset of BOOLEAN: may a Commit drop every blob the new state does not need
          StOpKinds,     \* operation names enabled
          StStartV1      \* BOOLEAN: the state is version 1 from the start (no migration)

VARIABLES m,        \* working map
          v1,       \* working state version
          mixed,    \* the version was raised while values longer than 32 bytes were present
          db,       \* set of blobs
          root,     \* root hash (token) of the last commit; <<>> = unspecified (mixed state)
          cm,       \* the map of the last commit
          cv1,      \* the state version of the last commit
          persisted,\* set of <<root, map>> of every commit since the last pruning commit
          ncommit,
          hist, done

svars == <<m, v1, mixed, db, root, cm, cv1, persisted, ncommit, hist, done>>

(* Rows, Has, Fetch, Lookup, LoadEntries, MapKV: pure operators, see TrieCodec. *)

--------------------------------------------------------------------------
(* ---- operations --------------------------------------------------------- *)

SRestr(mm, K) == [k \in K |-> mm[k]]
SMapPut(mm, k, v) == [x \in DOMAIN mm \cup {k} |-> IF x = k THEN v ELSE mm[x]]
SMapDel(mm, k) == SRestr(mm, DOMAIN mm \ {k})
SHasLong(mm) == \E k \in DOMAIN mm : Len(mm[k]) > 32
SEntries(mm) == LET ks == SortedSeq(DOMAIN mm) IN [i \in 1..Len(ks) |-> <<ks[i], mm[ks[i]]>>]

SOps ==
  {o \in    {[op |-> "Put", k |-> k, v |-> v] : k \in StKeys, v \in StVals}
       \cup {[op |-> "Delete", k |-> k] : k \in StKeys \cup StProbe}
       \cup (IF v1 THEN {} ELSE {[op |-> "SetVersion"]})
       \cup {[op |-> "Commit", prune |-> p] : p \in StPrune}
       \cup {[op |-> "Reopen"]}
     : o.op \in StOpKinds}

(* Commit = TrieDB.Hash() / WriteDirty + StoreTrie; Reopen = a fresh engine  *)
(* instance opened at the last committed root (uncommitted writes are lost)  *)
SApply(o) ==
  CASE o.op = "Put" -> /\ m' = SMapPut(m, o.k, o.v)
                       /\ UNCHANGED <<v1, mixed, db, root, cm, cv1, persisted, ncommit>>
    [] o.op = "Delete" -> /\ m' = SMapDel(m, o.k)
                          /\ UNCHANGED <<v1, mixed, db, root, cm, cv1, persisted, ncommit>>
    [] o.op = "SetVersion" -> /\ v1' = TRUE /\ mixed' = (mixed \/ SHasLong(m))
                              /\ UNCHANGED <<m, db, root, cm, cv1, persisted, ncommit>>
    [] o.op = "Commit" ->
         /\ cm' = m /\ cv1' = v1 /\ ncommit' = ncommit + 1
         /\ IF mixed
            THEN root' = <<>> /\ UNCHANGED <<db, persisted>>   \* UnspecifiedMigrationRoot, see TrieMachine
            ELSE /\ root' = Root(m, v1)
                 /\ db' = (IF o.prune THEN {} ELSE db) \cup Rows(m, v1)
                 /\ persisted' = (IF o.prune THEN {} ELSE persisted) \cup {<<Root(m, v1), m>>}
         /\ UNCHANGED <<m, v1, mixed>>
    [] o.op = "Reopen" -> /\ m' = cm
                          \* a V0-committed state holding long values, reopened under V1, is a migrating state
                          /\ mixed' = (mixed \/ (v1 /\ ~cv1 /\ SHasLong(cm)))
                          /\ UNCHANGED <<v1, db, root, cm, cv1, persisted, ncommit>>

(* observation after the step: the root the working state must hash to (<<>> *)
(* = not compared), its entries, and the committed state's root and entries   *)
SObs == [root |-> IF mixed' THEN <<>> ELSE Root(m', v1'), v1 |-> v1', entries |-> SEntries(m'),
         croot |-> root', centries |-> SEntries(cm'), ncommit |-> ncommit']

SStep(o) ==
  /\ ~done
  /\ Len(hist) < StDepth
  /\ (o.op = "Commit" => ncommit < StMaxCommits)
  /\ SApply(o)
  /\ hist' = Append(hist, [o |-> o, obs |-> SObs])
  /\ UNCHANGED done

SFinish == /\ ~done /\ Len(hist) = StDepth /\ done' = TRUE
           /\ UNCHANGED <<m, v1, mixed, db, root, cm, cv1, persisted, ncommit, hist>>

SInit == /\ m = EmptyMap /\ v1 = StStartV1 /\ mixed = FALSE
         /\ db = {<<0>>} /\ root = Root(EmptyMap, FALSE) /\ cm = EmptyMap /\ cv1 = StStartV1
         /\ persisted = {<<Root(EmptyMap, FALSE), EmptyMap>>}
         /\ ncommit = 0 /\ hist = <<>> /\ done = FALSE

SNextAll == (\E o \in SOps : SStep(o)) \/ SFinish

SWeighted == <<"Put", "Put", "Put", "Put", "Put", "Delete", "Delete", "SetVersion", "Commit", "Commit", "Commit", "Reopen">>
SPickOp ==
  LET kinds == {i \in 1..Len(SWeighted) : SWeighted[i] \in StOpKinds /\ Len(hist) >= 0}  \* state-level on purpose:
                                              \* TLC caches constant-level expressions, RandomElement included
      kd == SWeighted[RandomElement(kinds)]
      cand == {o \in SOps : o.op = kd}
  IN IF cand = {} THEN RandomElement(SOps) ELSE RandomElement(cand)
SNextRand == (\E o \in {SPickOp} : SStep(o)) \/ SFinish

SSpecAll == SInit /\ [][SNextAll]_svars
SSpecRand == SInit /\ [][SNextRand]_svars

SDump == done => PrintT(<<"TRACE", ToJson(hist)>>)

--------------------------------------------------------------------------
(* ---- properties of the specification (engine M) ------------------------ *)

STypeOK == /\ DOMAIN m \subseteq StKeys /\ DOMAIN cm \subseteq StKeys
           /\ v1 \in BOOLEAN /\ mixed \in BOOLEAN /\ ncommit \in 0..StMaxCommits

AllProbe == StKeys \cup StProbe
ExpectRead(mm, k) == IF k \in DOMAIN mm THEN Found(mm[k]) ELSE Absent

(* C06 / C04: the last committed state reads back identically, key by key  *)
(* (present and absent keys) and as a whole                                *)
ReadBack ==
  root # <<>> =>
    /\ \A k \in AllProbe : Lookup(db, root, k) = ExpectRead(cm, k)
    /\ LET l == LoadEntries(db, root) IN l.ok /\ l.kv = MapKV(cm)

(* C04 "incremental writes of successive block states": every state        *)
(* persisted since the last pruning commit is still readable by its root   *)
History ==
  \A p \in persisted :
    /\ LET l == LoadEntries(db, p[1]) IN l.ok /\ l.kv = MapKV(p[2])
    /\ \A k \in AllProbe : Lookup(db, p[1], k) = ExpectRead(p[2], k)

(* C07 on every stored node: it decodes, completely, to a node that        *)
(* encodes back to the same bytes (ties TrieSpec!EncNode to TrieCodec)     *)
StoredNodesRoundTrip ==
  \A p \in persisted : \A x \in StoredNodes(p[2], TRUE) \cup StoredNodes(p[2], FALSE) :
     /\ IsEncoding(x) /\ WellFormed(DecN(x).node) /\ RoundTrip(DecN(x).node)

(* the root names its own encoding and nothing else: two persisted states  *)
(* with the same root hold the same map                                    *)
RootNamesState == \A p, q \in persisted : p[1] = q[1] => MapKV(p[2]) = MapKV(q[2])

SView == <<m, v1, mixed, db, root, cm, cv1, persisted, ncommit>>
=============================================================================
